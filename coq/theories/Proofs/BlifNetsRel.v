(* EBLIF engine, connectivity clause of C18: the abstract reading of one section ([nst], [step_n]) and
   the relation [R] between the model called [nm] and that reading.  [R] says: the number of
   instances, the direction of every port name, the library, the declared flag are what the statements
   read so far give, and - outside black boxes - the cables are those of a reader whose table of merged
   wires is some [al] with [NI]: wire (c, k) holds exactly the pins the statements attached to a net
   bit that stands for (c, k) under [al], and two net bits stand for the same wire exactly when the
   .conn statements read so far join them (in any order, through any chain).  For the model being read
   the table is the reader's own ([RX]).  [B2], what the property says, follows from [NI]. *)
From Coq Require Import List Arith NArith Bool Lia Permutation.
From SV Require Import Base.Base Fmt.Blif Fmt.BlifRead Fmt.BlifSpec
  Proofs.BlifBase Proofs.BlifWF Proofs.BlifExec Proofs.BlifNetsBase Proofs.BlifNetsView.
Import ListNotations.

Record nst := mkNst {
  n_idx : nat;                           (* instance statements read *)
  n_ins : list str;                      (* the [ins] argument of spec_attach *)
  n_inn : list str;                      (* port names of .inputs tokens *)
  n_outn : list str;                     (* port names of .outputs tokens *)
  n_att : list (pinref * netbit);        (* spec_attach so far *)
  n_conns : list (netbit * netbit);      (* spec_conns so far *)
  n_bb : bool;                           (* .blackbox read *)
  n_lib : lib;
  n_def : bool }.

Definition st0 : nst := mkNst 0 [] [] [] [] [] false LNone false.

Definition mem (p : str) (l : list str) : bool := existsb (str_eqb p) l.
Definition dirf (i o : bool) : dir :=
  match i, o with true, true => DInout | true, false => DIn | false, true => DOut | false, false => DUndef end.

Definition tok_port (t : str) : str := match nb_of t with Some (p, _) => p | None => [] end.
Definition tok_named (t : str) : list str := match nb_of t with Some (p, _) => [p] | None => [] end.
Definition att_in (t : str) : list (pinref * netbit) :=
  match nb_of t with Some (p, i) => [(PTop p i, (p, i))] | None => [] end.
Definition out_keep (ins : list str) (t : str) : bool :=
  match nb_of t with Some (p, _) => negb (existsb (str_eqb p) ins) | None => false end.

Definition add_att (st : nst) (a : list (pinref * netbit)) : nst :=
  mkNst (n_idx st) (n_ins st) (n_inn st) (n_outn st) (n_att st ++ a) (n_conns st) (n_bb st) (n_lib st) (n_def st).
Definition add_inst (st : nst) (a : list (pinref * netbit)) : nst :=
  mkNst (S (n_idx st)) (n_ins st) (n_inn st) (n_outn st) (n_att st ++ a) (n_conns st) (n_bb st) (n_lib st) (n_def st).
Definition in_tok (st : nst) (t : str) : nst :=
  mkNst (n_idx st) (n_ins st ++ [tok_port t]) (n_inn st ++ tok_named t) (n_outn st) (n_att st ++ att_in t)
        (n_conns st) (n_bb st) (n_lib st) (n_def st).
(* [ins]: the input names when the .outputs line starts *)
Definition out_tok (ins : list str) (st : nst) (t : str) : nst :=
  mkNst (n_idx st) (n_ins st) (n_inn st) (n_outn st ++ tok_named t)
        (n_att st ++ (if out_keep ins t then att_in t else [])) (n_conns st) (n_bb st) (n_lib st) (n_def st).

Definition step_n (x : stmt) (st : nst) : nst :=
  match x with
  | SInputs l => fold_left in_tok l st
  | SOutputs l => fold_left (out_tok (n_ins st)) l st
  | SSub _ _ pairs => add_inst st (attach_pairs (n_idx st) (pairs_of pairs))
  | SNames nets => add_inst st (attach_pairs (n_idx st) (zip (names_port_names (length nets - 1)) nets))
  | SLatch toks => add_inst st (attach_pairs (n_idx st) (zip latch_order toks))
  | SConn a b =>
    match nb_of a, nb_of b with
    | Some x, Some y => mkNst (n_idx st) (n_ins st) (n_inn st) (n_outn st) (n_att st) (n_conns st ++ [(x, y)])
                              (n_bb st) (n_lib st) (n_def st)
    | _, _ => st
    end
  | SBlackbox => mkNst (n_idx st) (n_ins st) (n_inn st) (n_outn st) (n_att st) (n_conns st) true (n_lib st) (n_def st)
  | SEnd => mkNst (n_idx st) (n_ins st) (n_inn st) (n_outn st) (n_att st) (n_conns st) (n_bb st)
                  (if n_bb st then LPrim else LWork) (n_def st)
  | _ => st
  end.

Definition set_def (st : nst) : nst :=
  mkNst (n_idx st) (n_ins st) (n_inn st) (n_outn st) (n_att st) (n_conns st) (n_bb st) (n_lib st) true.

(* the reading of the model called [nm] advances on the statements read while it is current *)
Definition step_g (nm cur : str) (x : stmt) (st : nst) : nst :=
  match x with
  | SModel c => if str_eqb nm c then set_def st else st
  | SComment _ => st
  | _ => if str_eqb nm cur then step_n x st else st
  end.

Definition next_c (cur : str) (x : stmt) : str := match x with SModel c => c | _ => cur end.

Fixpoint run_g (nm cur : str) (ss : list stmt) (st : nst) : nst :=
  match ss with
  | [] => st
  | x :: r => run_g nm (next_c cur x) r (step_g nm cur x st)
  end.

(* ---------- wires that exist ---------- *)
Definition has_wire (c : str) (k : nat) (cs : list cable) : Prop :=
  exists x, find_cable c cs = Some x /\ k < length (c_wires x).

Lemma length_pad_wires k ws : k < length (pad_wires k ws) /\ length ws <= length (pad_wires k ws).
Proof.
  revert ws. induction k as [|k IH]; intros [|w ws]; cbn; try lia.
  - destruct (IH []) as [A B]. lia.
  - destruct (IH ws) as [A B]. lia.
Qed.

Lemma has_wire_ensure c k cs : has_wire c k (ensure_wire c k cs).
Proof.
  unfold has_wire, ensure_wire. destruct (find_cable c cs) as [x|] eqn:E.
  - rewrite find_cable_upd, E. pose proof (find_cable_In _ _ _ E) as [_ Hn]. rewrite Hn, str_eqb_refl.
    eexists. split; [reflexivity|]. cbn [c_wires]. apply length_pad_wires.
  - rewrite find_cable_app, E. cbn [c_name]. rewrite str_eqb_refl. eexists. split; [reflexivity|]. cbn [c_wires].
    apply length_pad_wires.
Qed.

Lemma has_wire_upd c f cs c' k' :
  (forall ws, length ws <= length (f ws)) -> has_wire c' k' cs -> has_wire c' k' (upd_cable c f cs).
Proof.
  intros Hf [x [Hx Hk]]. unfold has_wire. rewrite find_cable_upd, Hx. eexists. split; [reflexivity|].
  destruct (str_eqb (c_name x) c); [|exact Hk]. cbn [c_wires]. specialize (Hf (c_wires x)). lia.
Qed.

Lemma has_wire_ensure_keeps c k cs c' k' : has_wire c' k' cs -> has_wire c' k' (ensure_wire c k cs).
Proof.
  intros H. unfold ensure_wire. destruct (find_cable c cs) as [y|] eqn:E.
  - apply has_wire_upd; [|exact H]. intro ws. apply length_pad_wires.
  - destruct H as [x [Hx Hk]]. unfold has_wire. rewrite find_cable_app, Hx. eauto.
Qed.

Lemma length_add_to_wire k pr ws : length ws <= length (add_to_wire k pr ws).
Proof. revert ws. induction k as [|k IH]; intros [|w ws]; cbn; try lia. specialize (IH ws). lia. Qed.

Lemma has_wire_set_wire c k f cs c' k' : has_wire c' k' cs -> has_wire c' k' (set_wire c k f cs).
Proof. intro H. unfold set_wire. apply has_wire_upd; [|exact H]. intro ws. rewrite length_upd_nth. lia. Qed.

(* ---------- the table of merged wires ---------- *)
Lemma merged_into_app al l2 z : merged_into (al ++ l2) z = merged_into l2 (merged_into al z).
Proof.
  revert z. induction al as [|[k v] al IH]; intro z; cbn [app merged_into]; [reflexivity|].
  destruct (nb_eqb k z); apply IH.
Qed.

Lemma merged_into_snoc al y x z :
  merged_into (al ++ [(y, x)]) z = if nb_eqb y (merged_into al z) then x else merged_into al z.
Proof. rewrite merged_into_app. reflexivity. Qed.

(* a net bit stands for itself or for a wire some entry names as the survivor *)
Lemma merged_into_cases al z : merged_into al z = z \/ exists k, In (k, merged_into al z) al.
Proof.
  revert z. induction al as [|[k v] al IH]; intro z; cbn [merged_into]; [left; reflexivity|].
  destruct (nb_eqb k z).
  - destruct (IH v) as [E|[k' H]]; [rewrite E; right; exists k; left; reflexivity|right; exists k'; right; exact H].
  - destruct (IH z) as [E|[k' H]]; [left; exact E|right; exists k'; right; exact H].
Qed.

Definition same_wire_c (cs : list cable) (a b : pinref) : Prop :=
  exists c w, In c cs /\ In w (c_wires c) /\ In a w /\ In b w.

Definition B2 (cs : list cable) (att : list (pinref * netbit)) (conns : list (netbit * netbit)) : Prop :=
  forall a b, same_wire_c cs a b <->
    exists x y, In (a, x) att /\ In (b, y) att /\ same_bit conns x y.

(* the cables of a model under construction, the attachments and .conn statements read so far, and the
   reader's table of merged wires *)
Record NI (cs : list cable) (att : list (pinref * netbit)) (conns : list (netbit * netbit)) (al : mtable) : Prop := {
  n_wire : forall c k pr, In pr (wire_at c k cs) <-> exists y, In (pr, y) att /\ merged_into al y = (c, k);
  n_root : forall y z, merged_into al y = merged_into al z <-> same_bit conns y z;
  n_has : forall kv, In kv al -> has_wire (fst (snd kv)) (snd (snd kv)) cs }.

Lemma same_bit_nil x y : same_bit [] x y -> x = y.
Proof. induction 1; congruence || contradiction. Qed.

Lemma NI_nil : NI [] [] [] [].
Proof.
  constructor.
  - intros c k pr. unfold wire_at. cbn. split; [intros []|intros [y [[] _]]].
  - intros y z. cbn [merged_into]. split; [intros ->; apply sb_refl|apply same_bit_nil].
  - intros kv [].
Qed.

Lemma sw_iff cs a b : NoDup (map c_name cs) ->
  (same_wire_c cs a b <-> exists c k, In a (wire_at c k cs) /\ In b (wire_at c k cs)).
Proof.
  intro Hnd. split.
  - intros [c [w [Hc [Hw [Ha Hb]]]]]. destruct (wire_is_wire_at cs c w Hnd Hc Hw) as [k Hk].
    exists (c_name c), k. rewrite Hk. auto.
  - intros [c [k [Ha Hb]]]. destruct (wire_at_is_wire _ _ _ _ Ha) as [x [Hx Hw]]. exists x, (wire_at c k cs). auto.
Qed.

(* what the property says: two pins share a wire exactly when the section attaches them to net bits that
   are the same net *)
Lemma NI_B2 cs att conns al : NoDup (map c_name cs) -> NI cs att conns al -> B2 cs att conns.
Proof.
  intros Hnd [N1 N2 _] a b. rewrite (sw_iff _ _ _ Hnd). split.
  - intros [c [k [Ha Hb]]]. apply N1 in Ha as [y [A1 A2]]. apply N1 in Hb as [z [B1 B2']].
    exists y, z. repeat split; auto. apply N2. congruence.
  - intros [y [z [A [B S]]]]. apply N2 in S. destruct (merged_into al y) as [c k] eqn:E. exists c, k.
    split; apply N1; [exists y|exists z]; split; auto; congruence.
Qed.

Record R (nm : str) (m : model) (st : nst) : Prop := {
  r_idx : length (m_insts m) = n_idx st;
  r_dir : reserved nm = false -> forall p, port_dir p m = dirf (mem p (n_inn st)) (mem p (n_outn st));
  r_ins : forall p, mem p (n_ins st) = mem p (n_inn st);
  r_lib : m_lib m = n_lib st;
  r_def : n_def st = true -> m_defined m = true;
  r_net : n_bb st = false -> exists al, NI (m_cables m) (n_att st) (n_conns st) al;
  r_cab0 : n_att st = [] -> n_conns st = [] -> m_cables m = [];
  r_bb : n_bb st = true -> m_cables m = [] }.

(* the same with the reader's own table, for the model that is being read *)
Definition RX (nm cur : str) (al : mtable) (m : model) (st : nst) : Prop :=
  R nm m st /\ (nm = cur -> n_bb st = false -> NI (m_cables m) (n_att st) (n_conns st) al).

Lemma R_vcore' nm m m' st : vcore m m' -> (reserved nm = false -> forall p, port_dir p m' = port_dir p m) -> R nm m st -> R nm m' st.
Proof.
  intros [V1 [V2 [V3 V4]]] V5 [R1 R2 R3 R4 R5 R6 R7 R8].
  constructor; rewrite ?V1, ?V2, ?V3, ?V4; auto. intros Hr p. rewrite (V5 Hr). apply R2. exact Hr.
Qed.

Lemma R_veq nm m m' st : veq m m' -> R nm m st -> R nm m' st.
Proof. intros [V V5]. apply R_vcore'; [exact V|intros _; exact V5]. Qed.

Lemma R_vcore nm m m' st : reserved nm = true -> vcore m m' -> R nm m st -> R nm m' st.
Proof. intros Hres V. apply R_vcore'; [exact V|]. intro Hr. congruence. Qed.

Lemma R_geq nm m m' st : geq m m' -> R nm m st -> R nm m' st.
Proof. intro H. apply R_veq. apply geq_veq. exact H. Qed.

Lemma R_eq nm m m' st : m' = m -> R nm m st -> R nm m' st.
Proof. intros ->. auto. Qed.

Lemma RX_veq nm cur al m m' st : veq m m' -> RX nm cur al m st -> RX nm cur al m' st.
Proof.
  intros V [HR HN]. split; [eapply R_veq; eauto|]. destruct V as [[V1 _] _]. rewrite V1. exact HN.
Qed.

Lemma RX_vcore nm cur al m m' st : reserved nm = true -> vcore m m' -> RX nm cur al m st -> RX nm cur al m' st.
Proof.
  intros Hr V [HR HN]. split; [eapply R_vcore; eauto|]. destruct V as [V1 _]. rewrite V1. exact HN.
Qed.

Lemma RX_geq nm cur al m m' st : geq m m' -> RX nm cur al m st -> RX nm cur al m' st.
Proof. intro H. apply RX_veq. apply geq_veq. exact H. Qed.

Lemma RX_R nm cur al m st : RX nm cur al m st -> R nm m st.
Proof. intros [H _]. exact H. Qed.

(* a model that is not being read: nothing is asked of the table *)
Lemma RX_other nm cur al m st : nm <> cur -> R nm m st -> RX nm cur al m st.
Proof. intros Hne HR. split; [exact HR|]. intro E. contradiction. Qed.

Lemma R_st0 nm : R nm (new_model nm) st0.
Proof.
  constructor; cbn; auto; try discriminate.
  intros _. exists []. apply NI_nil.
Qed.

(* ---------- one pin joined to a net bit ---------- *)
Lemma wire_at_connect_to al pr c k m m' c' k' :
  connect_to al pr c k m = Ok m' ->
  (forall kv, In kv al -> has_wire (fst (snd kv)) (snd (snd kv)) (m_cables m)) ->
  wire_at c' k' (m_cables m') =
  wire_at c' k' (m_cables m) ++ (if nb_eqb (c', k') (merged_into al (c, k)) then [pr] else []).
Proof.
  unfold connect_to. destruct (connected m pr); [discriminate|]. intros H Hh. inversion H; subst m'. clear H.
  cbn [set_cables m_cables]. set (t := merged_into al (c, k)). set (cs := ensure_wire c k (m_cables m)).
  assert (Ht : exists x, find_cable (fst t) cs = Some x).
  { destruct (merged_into_cases al (c, k)) as [E|[k0 Hin]]; fold t in E || fold t in Hin.
    - rewrite E. cbn [fst]. apply ensure_wire_finds.
    - destruct (has_wire_ensure_keeps c k _ _ _ (Hh _ Hin)) as [x [Hx _]]. cbn [snd fst] in Hx. eauto. }
  destruct Ht as [x Hx]. rewrite wire_at_upd. rewrite <- (wire_at_ensure c k (m_cables m) c' k'). fold cs.
  unfold nb_eqb. cbn [fst snd]. destruct (str_eqb c' (fst t)) eqn:E1; cbn [andb].
  - apply str_eqb_spec in E1. subst c'. unfold wire_at. rewrite Hx. apply nth_add_to_wire.
  - unfold wire_at. destruct (find_cable c' cs); rewrite app_nil_r; reflexivity.
Qed.

Lemma connect_to_fields al pr c k m m' :
  connect_to al pr c k m = Ok m' ->
  m_name m' = m_name m /\ m_ports m' = m_ports m /\ m_insts m' = m_insts m /\ m_orphans m' = m_orphans m /\
  m_clock m' = m_clock m /\ m_lib m' = m_lib m /\ m_defined m' = m_defined m.
Proof. unfold connect_to. destruct (connected m pr); [discriminate|]. intro H. inversion H. repeat split. Qed.

Lemma NI_connect al pr c k m m' att conns :
  connect_to al pr c k m = Ok m' -> NI (m_cables m) att conns al -> NI (m_cables m') (att ++ [(pr, (c, k))]) conns al.
Proof.
  intros H [N1 N2 N3]. constructor.
  - intros c' k' pr'. rewrite (wire_at_connect_to _ _ _ _ _ _ c' k' H N3), in_app_iff, N1. split.
    + intros [[y [A B]]|Hin].
      * exists y. split; [apply in_app_iff; left; exact A|exact B].
      * destruct (nb_eqb (c', k') (merged_into al (c, k))) eqn:E; [|destruct Hin]. destruct Hin as [<-|[]].
        apply nb_eqb_true in E. exists (c, k). split; [apply in_app_iff; right; left; reflexivity|symmetry; exact E].
    + intros [y [A B]]. apply in_app_iff in A as [A|[A|[]]].
      * left. exists y. auto.
      * inversion A; subst pr' y. right. rewrite B. rewrite (proj2 (nb_eqb_true _ _) eq_refl). left. reflexivity.
  - exact N2.
  - intros kv Hin. specialize (N3 kv Hin). unfold connect_to in H. destruct (connected m pr); [discriminate|].
    inversion H; subst m'. cbn [set_cables m_cables]. apply has_wire_upd; [intro ws; apply length_add_to_wire|].
    apply has_wire_ensure_keeps. exact N3.
Qed.

Lemma RX_connect nm al pr c k m m' st :
  connect_to al pr c k m = Ok m' -> n_bb st = false -> RX nm nm al m st ->
  RX nm nm al m' (add_att st [(pr, (c, k))]).
Proof.
  intros H Hb [[R1 R2 R3 R4 R5 R6 R7 R8] HN].
  destruct (connect_to_fields _ _ _ _ _ _ H) as [F1 [F2 [F3 [F4 [F5 [F6 F7]]]]]].
  pose proof (NI_connect _ _ _ _ _ _ _ _ H (HN eq_refl Hb)) as N'.
  split; [|intros _ _; exact N'].
  constructor; cbn [add_att n_idx n_ins n_inn n_outn n_att n_conns n_bb n_lib n_def]; rewrite ?F3, ?F6, ?F7; auto.
  - intros Hr p. unfold port_dir. rewrite F2. apply R2. exact Hr.
  - intros _. exists al. exact N'.
  - intro Hn. apply app_eq_nil in Hn as [_ Hn]. discriminate.
  - congruence.
Qed.
