(* EBLIF engine, connectivity clause of C18: the relation [R] along a whole run of the reader
   ([run_all], [run_start]), and the reading [run_g] of a section expressed with the functions of
   BlifSpec (spec_attach, spec_conns, named_in, has_blackbox). *)
From Coq Require Import List Arith NArith Bool Lia Permutation.
From SV Require Import Base.Base Fmt.Blif Fmt.BlifRead Fmt.BlifSpec
  Proofs.BlifBase Proofs.BlifWF Proofs.BlifExec Proofs.BlifNetsBase Proofs.BlifNetsView Proofs.BlifNetsRel
  Proofs.BlifNetsStep Proofs.BlifNetsInst Proofs.BlifNetsConn Proofs.BlifNetsExec.
Import ListNotations.

(* what the reading of [nm] needs of the statements still to come *)
Fixpoint sideOK (nm cur : str) (ss : list stmt) (st : nst) : Prop :=
  match ss with
  | [] => True
  | x :: r =>
    (nm = cur -> cond x st) /\
    (forall c, x = SModel c -> nm = c -> n_bb st = false /\ n_att st = [] /\ n_conns st = []) /\
    sideOK nm (next_c cur x) r (step_g nm cur x st)
  end.

Lemma n_bb_in_toks l st : n_bb (fold_left in_tok l st) = n_bb st.
Proof. revert st. induction l as [|t l IH]; intro st; cbn; [reflexivity|]. rewrite IH. reflexivity. Qed.

Lemma n_bb_out_toks ins l st : n_bb (fold_left (out_tok ins) l st) = n_bb st.
Proof. revert st. induction l as [|t l IH]; intro st; cbn; [reflexivity|]. rewrite IH. reflexivity. Qed.

Lemma n_bb_step x st : n_bb (step_n x st) = match x with SBlackbox => true | _ => n_bb st end.
Proof.
  destruct x; cbn [step_n]; try reflexivity.
  - apply n_bb_in_toks.
  - apply n_bb_out_toks.
  - destruct (nb_of a), (nb_of b); reflexivity.
Qed.

Lemma exec_R_model s c s' nm st :
  exec s (SModel c) = Ok s' ->
  R nm (get_model nm (st_models s)) st ->
  (nm = c -> n_att st = [] /\ n_conns st = []) ->
  RX nm (s_cur s') (s_merged s') (get_model nm (st_models s')) (step_g nm (s_cur s) (SModel c) st) /\
  s_cur s' = c /\ s_isbb s' = false.
Proof.
  intros H HR Hm. cbn [exec] in H.
  assert (E : s_cur s' = c /\ s_isbb s' = false /\ s_merged s' = [] /\
              st_models s' = upd_model c (fun m => set_defined m true) (ensure_model c (st_models s))).
  { destruct (b_top (s_nl s)); inversion H; subst s'; cbn; auto. }
  destruct E as [E1 [E2 [E4 E3]]]. split; [|split; assumption]. rewrite E1, E3, E4. cbn [step_g].
  destruct (str_eqb nm c) eqn:E.
  - apply str_eqb_spec in E. rewrite <- E. destruct (ensure_model_finds nm (st_models s)) as [m0 Hm0].
    rewrite (get_model_upd_same _ _ _ m0); [|intros y Hy; exact Hy|exact Hm0].
    assert (Em : m0 = get_model nm (st_models s)) by (rewrite <- (get_model_ensure nm (st_models s) nm); symmetry; apply get_model_find; exact Hm0).
    rewrite Em. destruct (Hm E) as [A1 A2].
    destruct HR as [R1 R2 R3 R4 R5 R6 R7 R8]. split; [constructor; auto|].
    intros _ _. cbn [set_def n_att n_conns set_defined m_cables]. rewrite A1, A2, (R7 A1 A2). apply NI_nil.
  - apply str_eqb_false in E. apply RX_other; [exact E|]. rewrite get_model_upd_other; [|intros y Hy; exact Hy|exact E].
    rewrite get_model_ensure. exact HR.
Qed.

Lemma run_all ss : forall s s',
  J s -> Q (st_models s) -> reserved (s_cur s) = false -> Forall okstmt ss ->
  exec_all s ss = Ok s' ->
  forall nm st, RX nm (s_cur s) (s_merged s) (get_model nm (st_models s)) st ->
    (nm = s_cur s -> s_isbb s = n_bb st) ->
    sideOK nm (s_cur s) ss st ->
    R nm (get_model nm (st_models s')) (run_g nm (s_cur s) ss st).
Proof.
  induction ss as [|x ss IH]; intros s s' HJ HQ Hcr Hok H nm st HR HT HS; cbn [exec_all] in H.
  - inversion H; subst. exact (RX_R _ _ _ _ _ HR).
  - apply bind_ok in H as [s1 [H1 H2]]. inversion Hok as [|? ? Hx Hok']; subst.
    destruct HS as [S1 [S2 S3]].
    destruct (exec_R s x s1 nm st HJ HQ Hcr H1 HR) as [R1 [E1 E2]].
    { intro Hn. split; [apply S1; exact Hn|apply HT; exact Hn]. }
    { intros c Ex En. destruct (S2 c Ex En) as [_ A]. exact A. }
    pose proof (exec_inv _ _ _ HJ H1) as HJ1. pose proof (exec_Q _ _ _ HQ Hcr Hx H1) as HQ1.
    assert (Hcr1 : reserved (s_cur s1) = false).
    { rewrite E1. destruct x; cbn [next_c]; try exact Hcr. exact Hx. }
    cbn [run_g]. rewrite <- E1. apply (IH s1 s' HJ1 HQ1 Hcr1 Hok' H2 nm _ R1).
    + intro Hn. rewrite E2. rewrite E1 in Hn. destruct x; cbn [next_c next_bb step_g] in *;
        try (rewrite Hn, str_eqb_refl, n_bb_step; apply HT; exact Hn).
      * apply HT. exact Hn.
      * rewrite Hn, str_eqb_refl. cbn [set_def n_bb]. symmetry. apply (S2 nm0 eq_refl Hn).
      * rewrite Hn, str_eqb_refl, n_bb_step. reflexivity.
    + rewrite E1. exact S3.
Qed.

(* from the empty netlist: comments, then the first .model *)
Lemma run_start ss : forall s s',
  top_ok ss -> st_models s = [] -> s_cur s = [] -> Forall okstmt ss ->
  exec_all s ss = Ok s' ->
  forall nm, sideOK nm [] ss st0 ->
    R nm (get_model nm (st_models s')) (run_g nm [] ss st0).
Proof.
  induction ss as [|x ss IH]; intros s s' Ht Hs Hc Hok H nm HS; cbn [exec_all] in H.
  - inversion H; subst. rewrite Hs. apply R_st0.
  - apply bind_ok in H as [s1 [H1 H2]]. inversion Hok as [|? ? Hx Hok']; subst. destruct x; try contradiction.
    + cbn in H1. inversion H1; subst s1. destruct HS as [_ [_ S3]]. cbn [run_g next_c step_g] in *.
      apply (IH (add_comment s toks) s' Ht Hs Hc Hok' H2 nm S3).
    + assert (HI : Inv (st_models s)) by (rewrite Hs; split; [constructor|intros m []]).
      pose proof (exec_model_J _ _ _ HI H1) as HJ1.
      assert (R0 : R nm (get_model nm (st_models s)) st0) by (rewrite Hs; apply R_st0).
      destruct (exec_R_model s nm0 s1 nm st0 H1 R0) as [R1 [E1 E2]]; [intros _; split; reflexivity|].
      assert (HQ1 : Q (st_models s1)).
      { assert (E3 : st_models s1 = upd_model nm0 (fun m => set_defined m true) (ensure_model nm0 [])).
        { cbn [exec] in H1. rewrite <- Hs. destruct (b_top (s_nl s)); inversion H1; subst s1; cbn; auto. }
        intro k. cbn zeta. left. rewrite E3. rewrite get_model_upd by (intros y Hy; exact Hy).
        destruct (find_model _ _) as [m|] eqn:Ef; [|reflexivity].
        apply find_model_In in Ef as [Ef _]. unfold ensure_model in Ef. cbn [find_model find app] in Ef.
        destruct Ef as [<-|[]]. destruct (str_eqb _ _); reflexivity. }
      destruct HS as [_ [S2 S3]]. cbn [run_g next_c] in *. rewrite Hc in R1.
      assert (Hcr1 : reserved (s_cur s1) = false) by (rewrite E1; exact Hx).
      pose proof (run_all ss s1 s' HJ1 HQ1 Hcr1 Hok' H2 nm _ R1) as G. rewrite E1 in G. apply G.
      * intro Hn. rewrite E2. cbn [step_g]. rewrite Hn, str_eqb_refl. reflexivity.
      * exact S3.
Qed.
