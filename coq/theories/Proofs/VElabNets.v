(* Engine `verilog`, document-level reader: the nets of the netlist value are exactly the connections of the reader's
   state, seen through their labels - endpoint e is on net bit r iff some connected (pin, wire) has pin_endpoint = e
   and wire_label = r. This is what lets the per-construct theorems (stated on pin_endpoint / wire_label) speak
   about the netlist value. *)
From Coq Require Import List ZArith Bool Arith Lia Sorted Permutation.
From SV Require Import Base.Base Fmt.VBits Fmt.VExpr Fmt.VTop Fmt.VDoc Fmt.VElab Fmt.VSpec Fmt.VSem
  Proofs.VerilogLists Proofs.VerilogSlice Proofs.VerilogGrow Proofs.VerilogPort Proofs.VElabBase Proofs.VElabInv Proofs.VElabWf
  Proofs.VElabExpr.
Import ListNotations.
Open Scope Z_scope.

Lemma in_net_of r d e : In e (net_of r d) <-> exists eps, In (r, eps) (nd_nets d) /\ In e eps.
Proof.
  unfold net_of. rewrite in_flat_map. split.
  - intros ([[n i] eps] & Hin & He). cbn [fst snd] in He.
    destruct (str_eqb n (fst r) && (i =? snd r)) eqn:E; [|contradiction].
    apply andb_true_iff in E. destruct E as [E1 E2]. apply str_eqb_spec in E1. apply Z.eqb_eq in E2.
    destruct r as [rn ri]. cbn in *. subst. exists eps. split; assumption.
  - intros (eps & Hin & He). exists (r, eps). split; [exact Hin|]. cbn [fst snd]. rewrite str_eqb_refl, Z.eqb_refl. exact He.
Qed.

Lemma in_abs_nets s d r eps : In (r, eps) (nd_nets (abs_def s d)) <->
  exists ck c k o, nth_error (ed_cables d) ck = Some c /\ nth_error (b_items (ec_b c)) k = Some o /\
                   r = (ec_name c, b_lo (ec_b c) + Z.of_nat k) /\ eps = wire_endpoints s d (ck, o) /\ eps <> [].
Proof.
  cbn [nd_nets abs_def]. rewrite in_flat_map. split.
  - intros ([ck c] & Hc & H). cbn [fst snd] in H. apply in_number in Hc. apply in_cable_nets in H.
    destruct H as (k & o & Ho & Er & Ee & Hne). exists ck, c, k, o. repeat split; assumption.
  - intros (ck & c & k & o & Hc & Ho & Er & Ee & Hne). exists (ck, c). split; [apply in_number; exact Hc|]. cbn [fst snd].
    unfold cable_nets. apply in_flat_map. exists (k, o). split; [apply in_number; exact Ho|]. cbn [fst snd].
    rewrite <- Ee. destruct eps; [congruence|]. left. rewrite Er. reflexivity.
Qed.

Lemma wire_label_inv d w r : wire_label d w = Some r ->
  exists c k, nth_error (ed_cables d) (fst w) = Some c /\ nth_error (b_items (ec_b c)) k = Some (snd w) /\
              r = (ec_name c, b_lo (ec_b c) + Z.of_nat k).
Proof.
  unfold wire_label. destruct (nth_error (ed_cables d) (fst w)) as [c|] eqn:C; [|discriminate].
  destruct (index_of (snd w) (b_items (ec_b c))) as [k|] eqn:K; [|discriminate]. intro H. inversion H; subst.
  exists c, k. split; [reflexivity|]. split; [apply index_of_some; exact K|reflexivity].
Qed.

(* the nets of the netlist value are exactly the connections of the state, seen through their labels *)
Theorem net_of_lconn s d r e : DInv d -> (In e (net_of r (abs_def s d)) <-> In (Some e, Some r) (lconn s d)).
Proof.
  intro DI. rewrite in_net_of. unfold lconn. rewrite in_map_iff. split.
  - intros (eps & Hn & He). apply in_abs_nets in Hn. destruct Hn as (ck & c & k & o & Hc & Ho & Er & Ee & _). subst eps.
    apply in_wire_endpoints in He. destruct He as (p & Hp & Pe).
    exists (p, (ck, o)). split; [|exact Hp]. cbn [fst snd]. rewrite Pe.
    assert (W : wfb (ec_b c)) by (eapply (proj1 (Forall_forall _ _) (di_cables d DI)); eapply nth_error_In; exact Hc).
    destruct (wire_label_at d ck c k o Hc W Ho) as [L _]. rewrite L, Er. reflexivity.
  - intros ([p w] & E & Hin). cbn [fst snd] in E. inversion E as [[Pe Lw]].
    destruct (wire_label_inv d w r Lw) as (c & k & Hc & Hk & Er).
    exists (wire_endpoints s d w). split.
    + apply in_abs_nets. exists (fst w), c, k, (snd w). split; [exact Hc|]. split; [exact Hk|]. split; [exact Er|].
      destruct w; cbn [fst snd]. split; [reflexivity|]. intro X.
      assert (Y : In e (wire_endpoints s d (n, n0))) by (apply in_wire_endpoints; exists p; split; assumption).
      rewrite X in Y. contradiction.
    + apply in_wire_endpoints. exists p. split; assumption.
Qed.
