(* One table of a namespace object (names, or case-folded identifiers, of one kind of child) as a
   finite map that is exactly the key function of the member children. Pure lemmas. *)
From Coq Require Import List Arith Bool Setoid.
From SV Require Import Base.Base IR.State IR.NS.
Import ListNotations.

Definition SlotOK (tab : list (str * id)) (mem : id -> Prop) (keyof : id -> option str) : Prop :=
  forall k c, sassoc k tab = Some c <-> mem c /\ keyof c = Some k.

Definition keyupd (keyof : id -> option str) (e : id) (v : option str) : id -> option str :=
  fun c => if Nat.eqb c e then v else keyof c.

Lemma str_dec (a b : str) : {a = b} + {a <> b}.
Proof. destruct (str_eqb a b) eqn:E; [left; apply str_eqb_spec; exact E|right; intro H; apply str_eqb_spec in H; congruence]. Qed.

Lemma tab_replace_lookup_same_local tab old new e : sassoc new (tab_replace tab old new e) = Some e.
Proof. unfold tab_replace. apply sassoc_set_same. Qed.

(* rename of a member: the table entry moves from the old key to the new one *)
Lemma slot_replace tab mem keyof e new :
  SlotOK tab mem keyof -> mem e ->
  (forall x, sassoc new tab = Some x -> x = e) ->
  SlotOK (tab_replace tab (keyof e) new e) mem (keyupd keyof e (Some new)).
Proof.
  intros H He Hc k c. unfold keyupd. destruct (str_dec k new) as [->|Hk].
  - rewrite (tab_replace_lookup_same_local tab (keyof e) new e). split.
    + intro E. injection E as <-. rewrite Nat.eqb_refl. auto.
    + intros [Hm Hkey]. destruct (Nat.eqb_spec c e) as [->|Hne]; [reflexivity|].
      f_equal. symmetry. apply Hc. apply H. auto.
  - destruct (Nat.eqb_spec c e) as [->|Hne].
    + split; [|intros [_ E]; congruence]. intro E. exfalso.
      unfold tab_replace in E. rewrite sassoc_set_other in E by exact Hk.
      destruct (keyof e) as [o|] eqn:Eo.
      * destruct (str_dec k o) as [->|Hko]; [rewrite sassoc_del_same in E; discriminate|].
        rewrite sassoc_del_other in E by exact Hko. apply H in E as [_ E]. congruence.
      * apply H in E as [_ E]. congruence.
    + unfold tab_replace. rewrite sassoc_set_other by exact Hk.
      destruct (keyof e) as [o|] eqn:Eo.
      * destruct (str_dec k o) as [->|Hko].
        -- rewrite sassoc_del_same. split; [discriminate|]. intros [Hm Hkc]. exfalso.
           assert (E1 : sassoc o tab = Some c) by (apply H; auto).
           assert (E2 : sassoc o tab = Some e) by (apply H; auto). congruence.
        -- rewrite sassoc_del_other by exact Hko. apply H.
      * apply H.
Qed.

(* a new member e whose key v is free (NamespaceManager.add: update(element, key, value) with
   the old value equal to the new one) *)
Lemma slot_insert tab (mem : id -> Prop) keyof e v :
  SlotOK tab mem keyof -> ~ mem e -> keyof e = Some v -> sassoc v tab = None ->
  SlotOK (tab_replace tab (Some v) v e) (fun c => mem c \/ c = e) keyof.
Proof.
  intros H Hne Hk Hfree k c. unfold tab_replace. destruct (str_dec k v) as [->|Hkv].
  - rewrite sassoc_set_same. split.
    + intro E. injection E as <-. auto.
    + intros [[Hm| ->] Hkc]; [|reflexivity]. exfalso.
      assert (E : sassoc v tab = Some c) by (apply H; auto). congruence.
  - rewrite sassoc_set_other by exact Hkv. rewrite sassoc_del_other by exact Hkv. rewrite (H k c). split.
    + intros [Hm Hkc]. auto.
    + intros [[Hm| ->] Hkc]; [auto|congruence].
Qed.

Lemma slot_insert_keyless tab (mem : id -> Prop) keyof e :
  SlotOK tab mem keyof -> keyof e = None -> SlotOK tab (fun c => mem c \/ c = e) keyof.
Proof.
  intros H Hk k c. rewrite (H k c). split; [intros [A B]; auto|]. intros [[A| ->] B]; [auto|congruence].
Qed.

(* a member leaves *)
Lemma slot_remove tab (mem : id -> Prop) keyof e :
  SlotOK tab mem keyof -> mem e ->
  SlotOK (match keyof e with Some o => sassoc_del o tab | None => tab end) (fun c => mem c /\ c <> e) keyof.
Proof.
  intros H He k c. destruct (keyof e) as [o|] eqn:Eo.
  - destruct (str_dec k o) as [->|Hko].
    + rewrite sassoc_del_same. split; [discriminate|]. intros [[Hm Hne] Hkc]. exfalso.
      assert (E1 : sassoc o tab = Some c) by (apply H; auto).
      assert (E2 : sassoc o tab = Some e) by (apply H; auto). congruence.
    + rewrite sassoc_del_other by exact Hko. rewrite (H k c). split.
      * intros [Hm Hkc]. split; [split; [exact Hm|intros ->; congruence]|exact Hkc].
      * intros [[Hm _] Hkc]. auto.
  - rewrite (H k c). split.
    + intros [Hm Hkc]. split; [split; [exact Hm|intros ->; congruence]|exact Hkc].
    + intros [[Hm _] Hkc]. auto.
Qed.

(* a member loses its key (del element[key]) *)
Lemma slot_erase tab (mem : id -> Prop) keyof e :
  SlotOK tab mem keyof -> mem e ->
  SlotOK (match keyof e with Some o => sassoc_del o tab | None => tab end) mem (keyupd keyof e None).
Proof.
  intros H He k c. unfold keyupd. destruct (Nat.eqb_spec c e) as [->|Hne].
  - split; [|intros [_ E]; discriminate]. intro E. exfalso. destruct (keyof e) as [o|] eqn:Eo.
    + destruct (str_dec k o) as [->|Hko]; [rewrite sassoc_del_same in E; discriminate|].
      rewrite sassoc_del_other in E by exact Hko. apply H in E as [_ E]. congruence.
    + apply H in E as [_ E]. congruence.
  - destruct (keyof e) as [o|] eqn:Eo; [|apply H].
    destruct (str_dec k o) as [->|Hko].
    + rewrite sassoc_del_same. split; [discriminate|]. intros [Hm Hkc]. exfalso.
      assert (E1 : sassoc o tab = Some c) by (apply H; auto).
      assert (E2 : sassoc o tab = Some e) by (apply H; auto). congruence.
    + rewrite sassoc_del_other by exact Hko. apply H.
Qed.

(* the key function may change on non-members, and the membership predicate may be rephrased *)
Lemma slot_ext tab (mem mem' : id -> Prop) keyof keyof' :
  SlotOK tab mem keyof -> (forall c, mem' c <-> mem c) -> (forall c, mem c -> keyof' c = keyof c) ->
  SlotOK tab mem' keyof'.
Proof.
  intros H Hm Hk k c. rewrite (H k c), (Hm c). split; intros [A B]; (split; [exact A|]); [rewrite Hk|rewrite <- Hk]; assumption.
Qed.

Lemma slot_empty keyof : SlotOK [] (fun _ => False) keyof.
Proof. intros k c. cbn. split; [discriminate|tauto]. Qed.

(* building a table from a child list (_update_new_namespace) *)
Definition slot_ins (keyof : id -> option str) (tab : list (str * id)) (x : id) : list (str * id) :=
  match keyof x with Some v => tab_replace tab (Some v) v x | None => tab end.

Definition keys_distinct (keyof : id -> option str) (l : list id) : Prop :=
  forall x y v, In x l -> In y l -> keyof x = Some v -> keyof y = Some v -> x = y.

Lemma slot_populate_acc keyof : forall xs done tab,
  SlotOK tab (fun c => In c done) keyof -> NoDup (done ++ xs) -> keys_distinct keyof (done ++ xs) ->
  SlotOK (fold_left (slot_ins keyof) xs tab) (fun c => In c (done ++ xs)) keyof.
Proof.
  induction xs as [|x xs IH]; intros done tab H Hnd Hd; cbn [fold_left].
  - rewrite app_nil_r. exact H.
  - assert (Hx : ~ In x done).
    { intro Hin. apply (NoDup_remove_2 done xs x Hnd). apply in_or_app. left. exact Hin. }
    assert (H1 : SlotOK (slot_ins keyof tab x) (fun c => In c (done ++ [x])) keyof).
    { unfold slot_ins. destruct (keyof x) as [v|] eqn:Ek.
      - eapply slot_ext; [apply (slot_insert tab (fun c => In c done) keyof x v H Hx Ek)| |intros; reflexivity].
        + destruct (sassoc v tab) as [c|] eqn:E; [|reflexivity]. exfalso.
          apply H in E as [Hc Hkc]. assert (c = x).
          { apply (Hd c x v); [apply in_or_app; left; exact Hc|apply in_or_app; right; left; reflexivity|exact Hkc|exact Ek]. }
          subst c. contradiction.
        + intro c. rewrite in_app_iff. cbn. intuition.
      - eapply slot_ext; [apply (slot_insert_keyless tab (fun c => In c done) keyof x H Ek)| |intros; reflexivity].
        intro c. rewrite in_app_iff. cbn. intuition. }
    replace (done ++ x :: xs) with ((done ++ [x]) ++ xs) in * by (rewrite <- app_assoc; reflexivity).
    apply IH; assumption.
Qed.

Lemma slot_populate keyof xs :
  NoDup xs -> keys_distinct keyof xs -> SlotOK (fold_left (slot_ins keyof) xs []) (fun c => In c xs) keyof.
Proof.
  intros Hnd Hd. apply (slot_populate_acc keyof xs [] []); [|exact Hnd|exact Hd].
  intros k c. cbn. split; [discriminate|tauto].
Qed.

Lemma strs_nodup_spec l : strs_nodup l = true <-> NoDup l.
Proof.
  induction l as [|x l IH]; cbn; [split; [constructor|reflexivity]|].
  rewrite andb_true_iff, negb_true_iff, IH. split.
  - intros [Hx Hl]. constructor; [|exact Hl]. intro Hin.
    assert (E : existsb (str_eqb x) l = true) by (apply existsb_exists; exists x; split; [exact Hin|apply str_eqb_refl]). congruence.
  - intro H. inversion H as [|? ? Hx Hl]; subst. split; [|exact Hl].
    destruct (existsb (str_eqb x) l) eqn:E; [|reflexivity]. apply existsb_exists in E as [y [Hy E]].
    apply str_eqb_spec in E. subst y. contradiction.
Qed.

Lemma NoDup_app_tail {A} (l1 l2 : list A) : NoDup (l1 ++ l2) -> NoDup l2.
Proof. induction l1 as [|a l1 IH]; cbn; [auto|]. intro H. inversion H; subst. auto. Qed.

Definition keys_of (keyof : id -> option str) (xs : list id) : list str :=
  flat_map (fun x => match keyof x with Some v => [v] | None => [] end) xs.

Lemma keys_of_distinct keyof : forall xs, NoDup xs -> NoDup (keys_of keyof xs) -> keys_distinct keyof xs.
Proof.
  induction xs as [|a xs IH]; intros Hnd Hk x y v Hx Hy Ex Ey; [destruct Hx|].
  inversion Hnd as [|? ? Ha Hnd']; subst. cbn [keys_of flat_map] in Hk.
  assert (Hin : forall z, In z xs -> keyof z = Some v -> In v (keys_of keyof xs)).
  { intros z Hz Ez. apply in_flat_map. exists z. split; [exact Hz|]. rewrite Ez. left. reflexivity. }
  pose proof (NoDup_app_tail _ _ Hk) as Hk'.
  destruct Hx as [<-|Hx], Hy as [<-|Hy]; [reflexivity| | |apply (IH Hnd' Hk' x y v); assumption].
  - exfalso. rewrite Ex in Hk. cbn in Hk. inversion Hk as [|? ? Hv _]; subst. apply Hv. apply (Hin y Hy Ey).
  - exfalso. rewrite Ey in Hk. cbn in Hk. inversion Hk as [|? ? Hv _]; subst. apply Hv. apply (Hin x Hx Ex).
Qed.
