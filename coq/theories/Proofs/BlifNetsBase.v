(* EBLIF engine, connectivity clause of C18: basic facts.
     - decimal numerals (Blif.dec is the numeral function of Names/Edifify.v on N.of_nat),
       reserved definition names, names of the ports of logic-gate_N;
     - dictionaries built with sassoc_set;
     - what the primitive edits of BlifRead do to one model, seen from outside ([peq]: nothing but
       the pin lists of its instances) or on the target itself;
     - wires addressed by (cable name, index) under connect / ensure_wire. *)
From Coq Require Import List Arith NArith Bool Lia Permutation.
From SV Require Import Base.Base Fmt.Blif Fmt.BlifRead Fmt.BlifSpec Proofs.BlifBase Proofs.BlifWF Proofs.BlifExec.
From SV Require Names.Edifify Proofs.NamesDec.
Import ListNotations.

(* ====================================================================== numerals and names *)
Lemma dec_aux_same : Blif.dec_aux = Edifify.dec_aux.
Proof. reflexivity. Qed.

Lemma dec_as n : dec n = Edifify.dec (N.of_nat n).
Proof. unfold dec, Edifify.dec. rewrite dec_aux_same. reflexivity. Qed.

Lemma bdec_inj a b : dec a = dec b -> a = b.
Proof. rewrite !dec_as. intro H. apply NamesDec.dec_inj in H. apply Nat2N.inj. exact H. Qed.

Lemma bdec_digits n : Forall (fun c => is_digit c = true) (dec n).
Proof. rewrite dec_as. apply NamesDec.dec_digits. Qed.

Lemma bdec_nonempty n : dec n <> [].
Proof. rewrite dec_as. apply NamesDec.dec_nonempty. Qed.

Lemma is_prefix_app p s : is_prefix p (p ++ s) = true.
Proof. induction p as [|x p IH]; cbn; [reflexivity|]. rewrite N.eqb_refl. exact IH. Qed.

Lemma reserved_lg k : reserved (k_logic_gate ++ dec k) = true.
Proof. unfold reserved. rewrite is_prefix_app. reflexivity. Qed.

Lemma reserved_latch : reserved k_latch_def = true.
Proof. vm_compute. reflexivity. Qed.

Lemma lg_inj a b : k_logic_gate ++ dec a = k_logic_gate ++ dec b -> a = b.
Proof. intro H. apply app_inv_head in H. apply bdec_inj. exact H. Qed.

Lemma lg_not_latch k : k_logic_gate ++ dec k <> k_latch_def.
Proof. vm_compute. intro H. inversion H. Qed.

Lemma names_port_names_eq k :
  names_port_names k = map (fun i => k_in_ ++ dec i) (seq 0 k) ++ [k_out].
Proof. unfold names_port_names, names_ports. rewrite map_app, map_map. reflexivity. Qed.

Lemma names_port_names_nodup k : NoDup (names_port_names k).
Proof.
  rewrite names_port_names_eq. apply NoDup_app_iff. repeat split.
  - apply FinFun.Injective_map_NoDup; [|apply seq_NoDup].
    intros a b H. apply app_inv_head in H. apply bdec_inj. exact H.
  - constructor; [intros []|constructor].
  - intros x Hx [<-|[]]. apply in_map_iff in Hx as [i [Hi _]]. vm_compute in Hi. inversion Hi.
Qed.

Lemma names_port_names_length k : length (names_port_names k) = S k.
Proof. rewrite names_port_names_eq, app_length, map_length, seq_length. cbn. lia. Qed.

(* ====================================================================== dictionaries *)
Lemma sassoc_set_fresh {B} k (v : B) l : ~ In k (map fst l) -> sassoc_set k v l = l ++ [(k, v)].
Proof.
  induction l as [|[k' v'] l IH]; cbn; intro H; [reflexivity|].
  destruct (str_eqb k k') eqn:E.
  - apply str_eqb_spec in E. exfalso. apply H. auto.
  - rewrite IH; [reflexivity|]. intro Hin. apply H. auto.
Qed.

Lemma dict_fold_nodup (l : list (str * str)) : forall acc,
  NoDup (map fst acc ++ map fst l) ->
  fold_left (fun a kv => sassoc_set (fst kv) (snd kv) a) l acc = acc ++ l.
Proof.
  induction l as [|[k v] l IH]; intros acc H; cbn; [rewrite app_nil_r; reflexivity|].
  cbn in H. rewrite sassoc_set_fresh.
  - rewrite IH; [rewrite <- app_assoc; reflexivity|].
    rewrite map_app. cbn. rewrite <- app_assoc. exact H.
  - apply NoDup_remove_2 in H. intro Hin. apply H. apply in_app_iff. auto.
Qed.

Lemma dict_of_nodup l : NoDup (map fst l) -> dict_of l = l.
Proof. intro H. unfold dict_of. rewrite dict_fold_nodup; [reflexivity|exact H]. Qed.

Lemma zip_fst_nodup {A B} (a : list A) (b : list B) : NoDup a -> NoDup (map fst (zip a b)).
Proof.
  revert b. induction a as [|x a IH]; intros [|y b] H; cbn; try constructor.
  - inversion H; subst. intro Hin. apply in_map_iff in Hin as [[x' y'] [E Hin]]. cbn in E. subst x'.
    assert (In x a); [|contradiction]. clear -Hin. revert b Hin. induction a as [|z a IH]; intros [|w b] Hin; cbn in *; try contradiction.
    destruct Hin as [Hin|Hin]; [inversion Hin; auto|right; eapply IH; eauto].
  - apply IH. inversion H; assumption.
Qed.

(* ====================================================================== models seen from outside *)
(* [m'] is [m] up to the pin lists of its instances *)
Definition peq (m m' : model) : Prop :=
  m_name m' = m_name m /\ m_ports m' = m_ports m /\ m_cables m' = m_cables m /\ m_orphans m' = m_orphans m /\
  m_lib m' = m_lib m /\ m_defined m' = m_defined m /\
  length (m_insts m') = length (m_insts m).

Lemma peq_refl m : peq m m.
Proof. repeat split. Qed.

Lemma peq_trans a b c : peq a b -> peq b c -> peq a c.
Proof.
  intros [A1 [A2 [A3 [A4 [A5 [A6 A7]]]]]] [B1 [B2 [B3 [B4 [B5 [B6 B7]]]]]].
  repeat split; congruence.
Qed.

Lemma get_model_none nm ms : find_model nm ms = None -> get_model nm ms = new_model nm.
Proof. unfold get_model. intros ->. reflexivity. Qed.

Lemma get_model_upd nm f ms r :
  (forall m, m_name m = nm -> m_name (f m) = nm) ->
  get_model r (upd_model nm f ms) =
  match find_model r ms with
  | Some m => if str_eqb r nm then f m else m
  | None => new_model r
  end.
Proof.
  intro Hf. unfold get_model. rewrite (find_model_upd _ _ _ _ Hf).
  destruct (find_model r ms) as [m|] eqn:E; [|reflexivity].
  apply find_model_In in E as [_ ->]. reflexivity.
Qed.

Lemma get_model_upd_other nm f ms r :
  (forall m, m_name m = nm -> m_name (f m) = nm) -> r <> nm ->
  get_model r (upd_model nm f ms) = get_model r ms.
Proof.
  intros Hf Hne. rewrite (get_model_upd _ _ _ _ Hf). unfold get_model.
  destruct (find_model r ms); [|reflexivity]. apply str_eqb_false in Hne. rewrite Hne. reflexivity.
Qed.

Lemma get_model_upd_same nm f ms m :
  (forall m, m_name m = nm -> m_name (f m) = nm) -> find_model nm ms = Some m ->
  get_model nm (upd_model nm f ms) = f m.
Proof. intros Hf Hm. rewrite (get_model_upd _ _ _ _ Hf), Hm, str_eqb_refl. reflexivity. Qed.

Lemma get_model_add_pins r new ms nm :
  get_model nm (add_pins_refs r new ms) =
  match find_model nm ms with
  | Some m => set_insts m (map (bump r new) (m_insts m))
  | None => new_model nm
  end.
Proof. unfold get_model. rewrite find_model_add_pins. destruct (find_model nm ms); reflexivity. Qed.

Lemma peq_add_pins r new ms nm : peq (get_model nm ms) (get_model nm (add_pins_refs r new ms)).
Proof.
  rewrite get_model_add_pins. unfold get_model. destruct (find_model nm ms) as [m|]; [|apply peq_refl].
  repeat split. cbn. apply map_length.
Qed.

Lemma get_model_ensure r ms nm : get_model nm (ensure_model r ms) = get_model nm ms.
Proof.
  unfold ensure_model. destruct (find_model r ms) eqn:E; [reflexivity|].
  unfold get_model. rewrite find_model_app. destruct (find_model nm ms) eqn:E2; [reflexivity|].
  cbn. destruct (str_eqb r nm) eqn:E3; [|reflexivity]. apply str_eqb_spec in E3. subst. reflexivity.
Qed.

(* the target of add_port / grow_port, and everybody else *)
Lemma get_model_add_port_other r q ms nm : nm <> r -> peq (get_model nm ms) (get_model nm (add_port r q ms)).
Proof.
  intro Hne. unfold add_port. eapply peq_trans; [|apply peq_add_pins].
  rewrite get_model_upd_other; [apply peq_refl|intros m H; exact H|exact Hne].
Qed.

Lemma get_model_add_port_same r q ms m :
  find_model r ms = Some m ->
  exists m', get_model r (add_port r q ms) = m' /\
    m_name m' = m_name m /\ m_ports m' = m_ports m ++ [q] /\ m_cables m' = m_cables m /\ m_orphans m' = m_orphans m /\
    m_clock m' = m_clock m /\ m_lib m' = m_lib m /\ m_defined m' = m_defined m /\
    length (m_insts m') = length (m_insts m).
Proof.
  intro Hm. unfold add_port. rewrite get_model_add_pins.
  rewrite find_model_upd; [|intros x Hx; exact Hx]. rewrite Hm.
  pose proof (find_model_In _ _ _ Hm) as [_ Hn]. rewrite Hn, str_eqb_refl.
  eexists. split; [reflexivity|]. cbn. repeat split; try exact Hn. apply map_length.
Qed.

Lemma get_model_grow_port r p w ms nm :
  exists m', get_model nm (grow_port r p w ms) = m' /\
    m_name m' = m_name (get_model nm ms) /\
    map (fun q => (p_name q, p_dir q)) (m_ports m') = map (fun q => (p_name q, p_dir q)) (m_ports (get_model nm ms)) /\
    m_cables m' = m_cables (get_model nm ms) /\ m_orphans m' = m_orphans (get_model nm ms) /\
    m_clock m' = m_clock (get_model nm ms) /\ m_lib m' = m_lib (get_model nm ms) /\
    m_defined m' = m_defined (get_model nm ms) /\
    length (m_insts m') = length (m_insts (get_model nm ms)).
Proof.
  unfold grow_port. destruct (find_model r ms) as [mr|] eqn:Er; [|eexists; split; [reflexivity|repeat split]].
  destruct (Nat.ltb _ _); [|eexists; split; [reflexivity|repeat split]].
  rewrite get_model_add_pins. rewrite find_model_upd; [|intros x Hx; exact Hx].
  unfold get_model. destruct (find_model nm ms) as [m|] eqn:E; [|eexists; split; [reflexivity|repeat split]].
  eexists. split; [reflexivity|]. destruct (str_eqb (m_name m) r); cbn; repeat split; try apply map_length.
  unfold upd_port. rewrite map_map. apply map_ext. intro q. destruct (str_eqb (p_name q) p); reflexivity.
Qed.

(* ---- directions by port name ---- *)
Lemma port_dir_pdirs m m' :
  map (fun q => (p_name q, p_dir q)) (m_ports m') = map (fun q => (p_name q, p_dir q)) (m_ports m) ->
  forall p, port_dir p m' = port_dir p m.
Proof.
  intros H p. unfold port_dir, find_port. revert H. generalize (m_ports m) as l. induction (m_ports m') as [|q l' IH]; intros [|q0 l] H; cbn in *; try discriminate; [reflexivity|].
  inversion H as [[H1 H2 H3]]. rewrite H1. destruct (str_eqb (p_name q0) p); [exact H2|]. apply IH. exact H3.
Qed.

Lemma port_dir_app m q p :
  port_dir p (set_ports m (m_ports m ++ [q])) =
  match find_port p (m_ports m) with
  | Some x => p_dir x
  | None => if str_eqb (p_name q) p then p_dir q else DUndef
  end.
Proof.
  unfold port_dir. cbn [set_ports m_ports]. rewrite find_port_app. destruct (find_port p (m_ports m)); [reflexivity|].
  destruct (str_eqb (p_name q) p); reflexivity.
Qed.

Lemma port_dir_set m p d p' :
  port_dir p' (set_ports m (upd_port p (fun q => set_pdir q d) (m_ports m))) =
  match find_port p' (m_ports m) with
  | Some x => if str_eqb p' p then d else p_dir x
  | None => DUndef
  end.
Proof.
  unfold port_dir. cbn [set_ports m_ports]. rewrite find_port_upd; [|intro; reflexivity].
  destruct (find_port p' (m_ports m)) as [x|] eqn:E; [|reflexivity].
  apply find_port_In in E as [_ ->]. destruct (str_eqb p' p); reflexivity.
Qed.

(* ====================================================================== wires by name and index *)
Lemma nth_nil_nil {A} k : nth k (@nil (list A)) [] = [].
Proof. destruct k; reflexivity. Qed.

Lemma nth_add_to_wire k pr ws k' :
  nth k' (add_to_wire k pr ws) [] = nth k' ws [] ++ (if Nat.eqb k' k then [pr] else []).
Proof.
  revert ws k'. induction k as [|k IH]; intros [|w ws] [|k']; cbn [add_to_wire nth Nat.eqb];
    rewrite ?IH, ?app_nil_r; try reflexivity; destruct k'; reflexivity.
Qed.

Lemma wire_at_upd c f cs c' k :
  wire_at c' k (upd_cable c f cs) =
  match find_cable c' cs with
  | Some x => nth k (if str_eqb c' c then f (c_wires x) else c_wires x) []
  | None => []
  end.
Proof.
  unfold wire_at. rewrite find_cable_upd. destruct (find_cable c' cs) as [x|] eqn:E; [|reflexivity].
  apply find_cable_In in E as [_ ->]. destruct (str_eqb c' c); reflexivity.
Qed.

Lemma wire_at_app_new c ws cs c' k :
  find_cable c cs = None ->
  wire_at c' k (cs ++ [mkCable c ws]) = if str_eqb c' c then nth k ws [] else wire_at c' k cs.
Proof.
  intro Hn. unfold wire_at. rewrite find_cable_app. cbn [c_name].
  destruct (str_eqb c' c) eqn:E.
  - apply str_eqb_spec in E. subst c'. rewrite Hn, str_eqb_refl. reflexivity.
  - destruct (find_cable c' cs); [reflexivity|]. rewrite str_eqb_sym, E. reflexivity.
Qed.

Lemma nth_pad_wires k ws k' : nth k' (pad_wires k ws) [] = nth k' ws [].
Proof.
  revert ws k'. induction k as [|k IH]; intros [|w ws] [|k']; cbn [pad_wires nth];
    rewrite ?IH; try reflexivity; destruct k'; reflexivity.
Qed.

Lemma wire_at_ensure c k cs c' k' : wire_at c' k' (ensure_wire c k cs) = wire_at c' k' cs.
Proof.
  unfold ensure_wire. destruct (find_cable c cs) as [x|] eqn:E.
  - rewrite wire_at_upd. unfold wire_at. destruct (find_cable c' cs); [|reflexivity].
    destruct (str_eqb c' c); [apply nth_pad_wires|reflexivity].
  - rewrite (wire_at_app_new _ _ _ _ _ E). destruct (str_eqb c' c) eqn:E2; [|reflexivity].
    apply str_eqb_spec in E2. subst c'. unfold wire_at. rewrite E. rewrite nth_pad_wires. destruct k'; reflexivity.
Qed.

(* every wire of a model is the wire at (name of its cable, its position) *)
Lemma find_cable_unique cs x : NoDup (map c_name cs) -> In x cs -> find_cable (c_name x) cs = Some x.
Proof.
  unfold find_cable. induction cs as [|y cs IH]; cbn; [tauto|].
  intros Hnd [->|Hin].
  - rewrite str_eqb_refl. reflexivity.
  - inversion Hnd; subst. destruct (str_eqb (c_name y) (c_name x)) eqn:E; [|auto].
    apply str_eqb_spec in E. exfalso. apply H1. rewrite E. apply in_map. assumption.
Qed.

Lemma wire_is_wire_at cs x w :
  NoDup (map c_name cs) -> In x cs -> In w (c_wires x) -> exists k, wire_at (c_name x) k cs = w.
Proof.
  intros Hnd Hx Hw. apply In_nth with (d := []) in Hw as [k [_ Hk]].
  exists k. unfold wire_at. rewrite (find_cable_unique _ _ Hnd Hx). exact Hk.
Qed.

Lemma wire_at_is_wire cs c k pr :
  In pr (wire_at c k cs) -> exists x, In x cs /\ In (wire_at c k cs) (c_wires x).
Proof.
  unfold wire_at. destruct (find_cable c cs) as [x|] eqn:E; [|intros []].
  intro Hin. exists x. split; [apply find_cable_In in E; tauto|].
  destruct (Nat.lt_ge_cases k (length (c_wires x))) as [Hlt|Hge]; [apply nth_In; exact Hlt|].
  rewrite nth_overflow in Hin by exact Hge. destruct Hin.
Qed.
