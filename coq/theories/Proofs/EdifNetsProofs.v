(* Proofs about Fmt/EdifNets.v: all cables of one cell through the EDIF writer
   (composer.py:338-339, one net per scalar cable, one net per bit of a bus) and back through
   the EDIF reader (parse_contents NET branch + multibit_add_cable, parser.py:562-587,
   1003-1063).

   cell_nets_roundtrip: for a cell whose cables have pairwise different names, pairwise
   different identifiers (case-insensitively), whose buses have identifiers not "&" / "&_..."
   and names not starting with a backslash, and whose scalar nets are not named like a bit:
   the nets written for the cables, read in file order, give the same cables in the same order
   (names, identifiers, lower indices, per-bit pin lists), buses flagged as arrays.
   Refutations outside the hypotheses: cell_nets_collision_bitlike (a scalar named like a bit
   of a bus), cell_nets_collision_ident (identifiers that differ only in case). *)
From Coq Require Import String List NArith Bool Lia Arith.
From SV Require Import Base.Base Fmt.EdifName Fmt.EdifCable Fmt.EdifBus Fmt.EdifNets
  Proofs.EdifNameProofs Proofs.EdifCableProofs Proofs.EdifBusProofs.
Import ListNotations.

(* ------------------------------------------------------------------------------------------ *)
(* Hypotheses of the theorem                                                                   *)

(* one wire, not an array, lower 0, and its net is not taken for a bit *)
Definition scalar_entry {P} (e : entry P) : Prop :=
  exists w, e_cab e = mkcab 0%N false [w] /\
  exists n' e', net_bit (e_ident e) (e_name e) = Some (None, n', e').
Definition bus_entry {P} (e : entry P) : Prop :=
  is_busb (e_cab e) = true /\ c_wires (e_cab e) <> [].
Definition wf_cell {P} (cabs : list (entry P)) : Prop :=
  NoDup (map e_name cabs) /\ NoDup (map (fun e => lower (e_ident e)) cabs) /\
  Forall (fun e => scalar_entry e \/ bus_entry e) cabs.

(* ------------------------------------------------------------------------------------------ *)
(* Lookups                                                                                     *)

Lemma ident_eqb_spec a b : ident_eqb a b = true <-> lower a = lower b.
Proof. unfold ident_eqb. apply str_eqb_spec. Qed.

Lemma ident_eqb_neq a b : lower a <> lower b -> ident_eqb a b = false.
Proof.
  intros H. destruct (ident_eqb a b) eqn:E; [|reflexivity].
  apply ident_eqb_spec in E. contradiction.
Qed.

(* no cable of the state has this name / this identifier (case-insensitively) *)
Definition fresh {P} (n i : str) (s : list (entry P)) : Prop :=
  forall x, In x s -> e_name x <> n /\ lower (e_ident x) <> lower i.

Lemma find_name_none {P} n (s : list (entry P)) :
  (forall x, In x s -> e_name x <> n) -> find_name n s = None.
Proof.
  induction s as [|e s IH]; intros H; [reflexivity|]. cbn [find_name].
  rewrite str_eqb_neq by (apply H; left; reflexivity).
  apply IH. intros x Hx. apply H. right. exact Hx.
Qed.

Lemma find_ident_none {P} i (s : list (entry P)) :
  (forall x, In x s -> lower (e_ident x) <> lower i) -> find_ident i s = None.
Proof.
  induction s as [|e s IH]; intros H; [reflexivity|]. cbn [find_ident].
  rewrite ident_eqb_neq by (apply H; left; reflexivity).
  apply IH. intros x Hx. apply H. right. exact Hx.
Qed.

Lemma fresh_find_name {P} n i (s : list (entry P)) : fresh n i s -> find_name n s = None.
Proof. intros F. apply find_name_none. intros x Hx. apply (F x Hx). Qed.

Lemma fresh_find_ident {P} n i (s : list (entry P)) : fresh n i s -> find_ident i s = None.
Proof. intros F. apply find_ident_none. intros x Hx. apply (F x Hx). Qed.

Lemma fresh_not_taken {P} n i (s : list (entry P)) : fresh n i s -> taken n i s = false.
Proof.
  intros F. unfold taken. rewrite (fresh_find_name n i s F), (fresh_find_ident n i s F). reflexivity.
Qed.

Lemma fresh_add_separate {P} n i (c : cab P) w s :
  fresh n i s -> add_separate n i c w s = Some (s ++ [(n, i, c)]).
Proof. intros F. unfold add_separate. rewrite (fresh_not_taken n i s F). reflexivity. Qed.

(* the cable appended last is found under its name when no earlier cable has that name *)
Lemma find_name_last {P} n i (c : cab P) s :
  (forall x, In x s -> e_name x <> n) -> find_name n (s ++ [(n, i, c)]) = Some (n, i, c).
Proof.
  induction s as [|e s IH]; intros H.
  - cbn [app find_name]. unfold e_name at 1. cbn [fst]. rewrite str_eqb_refl. reflexivity.
  - cbn [app find_name]. rewrite str_eqb_neq by (apply H; left; reflexivity).
    apply IH. intros x Hx. apply H. right. exact Hx.
Qed.

Lemma replace_name_last {P} n i (c : cab P) e' s :
  (forall x, In x s -> e_name x <> n) -> replace_name n e' (s ++ [(n, i, c)]) = s ++ [e'].
Proof.
  induction s as [|e s IH]; intros H.
  - cbn [app replace_name]. unfold e_name at 1. cbn [fst]. rewrite str_eqb_refl. reflexivity.
  - cbn [app replace_name]. rewrite str_eqb_neq by (apply H; left; reflexivity).
    f_equal. apply IH. intros x Hx. apply H. right. exact Hx.
Qed.

Lemma read_nets_app {P} (a b : list (net P)) : forall s,
  read_nets s (a ++ b) = match read_nets s a with Some s' => read_nets s' b | None => None end.
Proof.
  induction a as [|nt a IH]; intros s; [reflexivity|]. cbn [app read_nets].
  destruct (read_net s nt) as [s'|]; [apply IH|reflexivity].
Qed.

(* ------------------------------------------------------------------------------------------ *)
(* norm_entry                                                                                  *)

Lemma norm_entry_name {P} (e : entry P) : e_name (norm_entry e) = e_name e.
Proof. unfold norm_entry. destruct (is_busb (e_cab e)); reflexivity. Qed.

Lemma norm_entry_ident {P} (e : entry P) : e_ident (norm_entry e) = e_ident e.
Proof. unfold norm_entry. destruct (is_busb (e_cab e)); reflexivity. Qed.

Lemma is_busb_is_bus {P} (c : cab P) : is_busb c = true <-> is_bus c.
Proof.
  unfold is_busb, is_bus. rewrite orb_true_iff, Nat.ltb_lt. split; intros [H|H]; auto; right; lia.
Qed.

Lemma entry_eta {P} (e : entry P) : e = (e_name e, e_ident e, e_cab e).
Proof. destruct e as [[n i] c]. reflexivity. Qed.

(* ------------------------------------------------------------------------------------------ *)
(* One cable, read on top of a state that has neither its name nor its identifier              *)

Lemma step_scalar {P} (s : list (entry P)) name ident w n' e' :
  net_bit ident name = Some (None, n', e') -> fresh name ident s ->
  read_nets s (emit_cable ident name (mkcab 0%N false [w])) =
  Some (s ++ [(name, ident, mkcab 0%N false [w])]).
Proof.
  intros H F. unfold emit_cable. cbn [c_wires c_array read_nets]. unfold read_net. rewrite H.
  pose proof (fresh_add_separate name ident (mkcab 0%N false [w]) w s F) as A.
  destruct (match find_name n' s with Some e => Some e | None => find_ident e' s end);
    rewrite A; reflexivity.
Qed.

(* the first bit creates the array cable *)
Lemma step_bus_first {P} (s : list (entry P)) name ident lo w :
  fresh name ident s ->
  read_net s (bit_ident ident lo, bit_name name lo, w) = Some (s ++ [(name, ident, mkcab lo true [w])]).
Proof.
  intros F. unfold read_net. rewrite (bitname_inverse ident name lo).
  rewrite (fresh_find_name name ident s F), (fresh_find_ident name ident s F).
  apply fresh_add_separate. exact F.
Qed.

(* every later bit is merged into the cable added last *)
Lemma step_bus_more {P} (s : list (entry P)) name ident :
  (forall x, In x s -> e_name x <> name) ->
  forall (ws2 ws1 : list (list P)) lo, ws1 <> [] ->
  read_nets (s ++ [(name, ident, mkcab lo true ws1)])
            (emit_from ident name (lo + N.of_nat (length ws1)) ws2) =
  Some (s ++ [(name, ident, mkcab lo true (ws1 ++ ws2))]).
Proof.
  intros F. induction ws2 as [|w t IH]; intros ws1 lo Hne.
  - rewrite app_nil_r. reflexivity.
  - cbn [emit_from read_nets]. unfold read_net at 1.
    rewrite (bitname_inverse ident name _).
    rewrite (find_name_last name ident (mkcab lo true ws1) s F).
    unfold e_cab at 1, e_name at 1 2, e_ident at 1. cbn [fst snd].
    unfold cab_is_array. cbn [c_array]. rewrite orb_true_r.
    rewrite (replace_name_last name ident (mkcab lo true ws1) _ s F).
    unfold e_cab. cbn [snd]. rewrite (mb_merge_append lo true ws1 w Hne).
    replace (N.succ (lo + N.of_nat (length ws1))) with (lo + N.of_nat (length (ws1 ++ [w])))%N
      by (rewrite app_length, Nat2N.inj_add; cbn [length]; lia).
    rewrite IH by (intros E; apply app_eq_nil in E; destruct E; discriminate).
    rewrite <- app_assoc. reflexivity.
Qed.

Lemma step_bus {P} (s : list (entry P)) name ident (c : cab P) :
  is_busb c = true -> c_wires c <> [] -> fresh name ident s ->
  read_nets s (emit_cable ident name c) = Some (s ++ [(name, ident, mkcab (c_lower c) true (c_wires c))]).
Proof.
  intros Hb Hne F. rewrite (emit_cable_bus ident name c (proj1 (is_busb_is_bus c) Hb)).
  destruct (c_wires c) as [|w ws]; [congruence|]. cbn [emit_from read_nets].
  rewrite (step_bus_first s name ident (c_lower c) w F).
  replace (N.succ (c_lower c)) with (c_lower c + N.of_nat (length [w]))%N by (cbn [length]; lia).
  rewrite (step_bus_more s name ident (fun x Hx => proj1 (F x Hx)) ws [w] (c_lower c))
    by discriminate.
  reflexivity.
Qed.

(* either kind *)
Lemma step_entry {P} (s : list (entry P)) (e : entry P) :
  scalar_entry e \/ bus_entry e -> fresh (e_name e) (e_ident e) s ->
  read_nets s (emit_cable (e_ident e) (e_name e) (e_cab e)) = Some (s ++ [norm_entry e]).
Proof.
  intros [(w & Hc & n' & e' & Hnb)|(Hb & Hne)] F.
  - rewrite Hc, (step_scalar s _ _ w n' e' Hnb F). unfold norm_entry, is_busb. rewrite Hc.
    cbn [c_array c_wires length orb Nat.ltb Nat.leb]. rewrite <- Hc, <- entry_eta. reflexivity.
  - rewrite (step_bus s _ _ _ Hb Hne F). unfold norm_entry. rewrite Hb. reflexivity.
Qed.

(* ------------------------------------------------------------------------------------------ *)
(* The whole cell                                                                              *)

Lemma wf_fresh {P} (pre post : list (entry P)) e : wf_cell (pre ++ e :: post) ->
  fresh (e_name e) (e_ident e) (map norm_entry pre).
Proof.
  intros (Hn & Hi & _) x Hx. apply in_map_iff in Hx. destruct Hx as (y & <- & Hy).
  rewrite norm_entry_name, norm_entry_ident.
  rewrite map_app in Hn, Hi. cbn [map] in Hn, Hi.
  apply NoDup_remove_2 in Hn. apply NoDup_remove_2 in Hi. split.
  - intros E. apply Hn. apply in_or_app. left. rewrite <- E. apply (in_map e_name). exact Hy.
  - intros E. apply Hi. apply in_or_app. left. rewrite <- E.
    apply (in_map (fun e => lower (e_ident e))). exact Hy.
Qed.

Lemma cell_nets_roundtrip_gen {P} (post : list (entry P)) : forall pre, wf_cell (pre ++ post) ->
  read_nets (map norm_entry pre) (emit_nets post) = Some (map norm_entry (pre ++ post)).
Proof.
  induction post as [|e post IH]; intros pre Hwf.
  - rewrite app_nil_r. reflexivity.
  - unfold emit_nets. cbn [flat_map]. rewrite read_nets_app.
    assert (He : scalar_entry e \/ bus_entry e).
    { destruct Hwf as (_ & _ & Hf). rewrite Forall_forall in Hf. apply Hf.
      apply in_or_app. right. left. reflexivity. }
    rewrite (step_entry (map norm_entry pre) e He (wf_fresh pre post e Hwf)).
    replace (map norm_entry pre ++ [norm_entry e]) with (map norm_entry (pre ++ [e]))
      by (rewrite map_app; reflexivity).
    replace (pre ++ e :: post) with ((pre ++ [e]) ++ post) in * by (rewrite <- app_assoc; reflexivity).
    apply (IH (pre ++ [e]) Hwf).
Qed.

Theorem cell_nets_roundtrip : forall P (cabs : list (entry P)), wf_cell cabs ->
  read_nets [] (emit_nets cabs) = Some (map norm_entry cabs).
Proof. intros P cabs Hwf. exact (cell_nets_roundtrip_gen cabs [] Hwf). Qed.

(* ------------------------------------------------------------------------------------------ *)
(* Examples                                                                                    *)

(* a 3-wire bus "d" with lower 2, a scalar "clk", a 1-wire ARRAY cable "q" with lower 5 *)
Example cell_nets_example :
  let cabs : list (entry nat) :=
    [(s2l "d", s2l "d", mkcab 2%N false [[10; 11]; []; [12]]%nat);
     (s2l "clk", s2l "clk", mkcab 0%N false [[20; 21]]%nat);
     (s2l "q", s2l "q", mkcab 5%N true [[30]]%nat)] in
     wf_cell cabs
  /\ emit_nets cabs =
       [(s2l "d_2_", s2l "d[2]", [10; 11]); (s2l "d_3_", s2l "d[3]", []); (s2l "d_4_", s2l "d[4]", [12]);
        (s2l "clk", s2l "clk", [20; 21]); (s2l "q_5_", s2l "q[5]", [30])]%nat
  /\ read_nets [] (emit_nets cabs) = Some (map norm_entry cabs)
  /\ map norm_entry cabs =
       [(s2l "d", s2l "d", mkcab 2%N true [[10; 11]; []; [12]]%nat);
        (s2l "clk", s2l "clk", mkcab 0%N false [[20; 21]]%nat);
        (s2l "q", s2l "q", mkcab 5%N true [[30]]%nat)].
Proof.
  cbv zeta. split; [|repeat split; vm_compute; reflexivity].
  split; [|split].
  - vm_compute. repeat constructor; cbn [In]; intuition discriminate.
  - vm_compute. repeat constructor; cbn [In]; intuition discriminate.
  - apply Forall_cons; [|apply Forall_cons; [|apply Forall_cons; [|apply Forall_nil]]].
    + right. split; [reflexivity|discriminate].
    + left. eexists. split; [reflexivity|]. do 2 eexists. vm_compute. reflexivity.
    + right. split; [reflexivity|discriminate].
Qed.

(* OUTSIDE wf_cell (the second cable is not a scalar_entry: its net is taken for a bit): a
   scalar cable named "x[5]" with identifier "x_5_" next to the bus "x" (lower 0, 2 wires).
   Names and identifiers are pairwise different, but what comes back is ONE array cable "x" of
   six wires [[1]; [2]; []; []; []; [3]]: the scalar has become bit 5 of the bus. *)
Example cell_nets_collision_bitlike :
  let cabs : list (entry nat) :=
    [(s2l "x", s2l "x", mkcab 0%N false [[1]; [2]]%nat);
     (s2l "x[5]", s2l "x_5_", mkcab 0%N false [[3]]%nat)] in
     NoDup (map e_name cabs) /\ NoDup (map (fun e => lower (e_ident e)) cabs)
  /\ bus_entry (nth 0 cabs ([], [], mkcab 0%N false []))
  /\ ~ scalar_entry (nth 1 cabs ([], [], mkcab 0%N false []))
  /\ read_nets [] (emit_nets cabs) =
       Some [(s2l "x", s2l "x", mkcab 0%N true [[1]; [2]; []; []; []; [3]]%nat)]
  /\ read_nets [] (emit_nets cabs) <> Some (map norm_entry cabs).
Proof.
  cbv zeta. split; [|split; [|split; [|split; [|split]]]].
  - vm_compute. repeat constructor; cbn [In]; intuition discriminate.
  - vm_compute. repeat constructor; cbn [In]; intuition discriminate.
  - split; [reflexivity|discriminate].
  - intros (w & _ & n' & e' & H). vm_compute in H. discriminate.
  - vm_compute. reflexivity.
  - vm_compute. discriminate.
Qed.

(* OUTSIDE wf_cell (identifiers "n" and "N" differ only in case; everything else holds): the
   bits of bus "b" are merged into the cable found under identifier "N" ~ "n", i.e. into bus
   "a". What comes back is ONE cable "a" with wires [[1; 3]; [2; 4]]: b[0] is joined to position
   0, b[1] to position 1 (before the repair of K11 b[0] was PREPENDED: [[3]; [1; 4]; [2]]).
   The case-insensitive NoDup is needed. *)
Example cell_nets_collision_ident :
  let cabs : list (entry nat) :=
    [(s2l "a", s2l "n", mkcab 0%N false [[1]; [2]]%nat);
     (s2l "b", s2l "N", mkcab 0%N false [[3]; [4]]%nat)] in
     NoDup (map e_name cabs) /\ NoDup (map e_ident cabs)
  /\ Forall (fun e => scalar_entry e \/ bus_entry e) cabs
  /\ ~ NoDup (map (fun e => lower (e_ident e)) cabs)
  /\ read_nets [] (emit_nets cabs) =
       Some [(s2l "a", s2l "n", mkcab 0%N true [[1; 3]; [2; 4]]%nat)]
  /\ read_nets [] (emit_nets cabs) <> Some (map norm_entry cabs).
Proof.
  cbv zeta. split; [|split; [|split; [|split; [|split]]]].
  - vm_compute. repeat constructor; cbn [In]; intuition discriminate.
  - vm_compute. repeat constructor; cbn [In]; intuition discriminate.
  - apply Forall_cons; [|apply Forall_cons; [|apply Forall_nil]]; right;
      (split; [reflexivity|discriminate]).
  - vm_compute. intros H. inversion H as [|x l Hin _]. apply Hin. left. reflexivity.
  - vm_compute. reflexivity.
  - vm_compute. discriminate.
Qed.

Print Assumptions cell_nets_example.
Print Assumptions cell_nets_collision_bitlike.
Print Assumptions cell_nets_collision_ident.
Print Assumptions cell_nets_roundtrip.
