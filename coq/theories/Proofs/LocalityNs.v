(* C07 independence: locality of the namespace manager and of the data-dictionary calls. *)
From Coq Require Import List Arith NArith ZArith Bool Lia.
From RecordUpdate Require Import RecordSet.
From SV Require Import Base.Base IR.State IR.NS IR.Ops Proofs.AssocX Proofs.Frame Proofs.Locality.
Import ListNotations RecordSetNotations.

Section NsLoc.
Variable P : id -> Prop.

Lemma loc_data_write s e k v : P e -> Loc P s (data_write s e k v).
Proof. intro H. apply loc_set_data. exact H. Qed.
Lemma loc_data_erase s e k : P e -> Loc P s (data_erase s e k).
Proof. intro H. apply loc_set_data. exact H. Qed.

Lemma loc_apply_namespace p s e : P e -> Loc P s (apply_namespace p s e).
Proof.
  intro He. apply loc_use. intro C. unfold apply_namespace. apply loc_fold_left. intros s0 x Hx.
  pose proof (subtree_in P s e C He x Hx) as Px. cbn zeta.
  eapply loc_trans; [eapply loc_trans; [apply loc_emit|apply loc_data_write; exact Px]|].
  destruct (fresh_table _ _ _); [apply loc_set_nstab; exact Px|apply loc_refl].
Qed.

Lemma loc_drop_namespace s e : P e -> Loc P s (drop_namespace s e).
Proof.
  intro He. apply loc_use. intro C. unfold drop_namespace. apply loc_fold_left. intros s0 x Hx.
  pose proof (subtree_in P s e C He x Hx) as Px. cbn zeta.
  eapply loc_trans; [apply loc_set_nstab; exact Px|].
  destruct (_ && _); [eapply loc_trans; [apply loc_emit|apply loc_data_erase; exact Px]|apply loc_refl].
Qed.

Lemma loc_ns_dictionary_set s e k v : P e -> Loc P s (fst (ns_dictionary_set s e k v)).
Proof.
  intro He. apply loc_use. intro C. unfold ns_dictionary_set, ret, raise.
  destruct (str_eqb k str_NS).
  - destruct (match sassoc k (data s e) with Some _ => _ | None => _ end); [apply loc_refl|].
    destruct (ns_parent s e); [apply loc_refl|]. destruct (pol_of_val v); [|apply loc_refl].
    destruct (is_compliant _ _ _); [apply loc_apply_namespace; exact He|apply loc_refl].
  - destruct (is_name_key k); [|apply loc_refl]. destruct v; try apply loc_refl.
    destruct (negb _); [apply loc_refl|].
    destruct (ns_parent s e) as [p|] eqn:Hp; [|apply loc_refl]. destruct (kind_of s e); [|apply loc_refl].
    destruct (nstab s p); [|apply loc_refl]. destruct (ns_no_conflict _ _ _ _ _); [|apply loc_refl].
    cbn. apply loc_set_nstab. apply (ns_parent_in P s e p C He Hp).
Qed.

Lemma loc_ns_remove_key s e k : P e -> Loc P s (ns_remove_key s e k).
Proof.
  intro He. apply loc_use. intro C. unfold ns_remove_key.
  destruct (ns_parent s e) as [p|] eqn:Hp; [|apply loc_refl]. destruct (kind_of s e); [|apply loc_refl].
  destruct (nstab s p); [|apply loc_refl]. apply loc_set_nstab. apply (ns_parent_in P s e p C He Hp).
Qed.

Lemma loc_ns_dictionary_delete s e k : P e -> Loc P s (fst (ns_dictionary_delete s e k)).
Proof.
  intro He. unfold ns_dictionary_delete, ret, raise.
  destruct (str_eqb k str_NS).
  - destruct (ns_parent s e); [apply loc_refl|]. destruct (has_key s e str_NS); [apply loc_drop_namespace; exact He|apply loc_refl].
  - destruct (is_name_key k); [apply loc_ns_remove_key; exact He|apply loc_refl].
Qed.

Lemma loc_dict_set s e k v : P e -> Loc P s (fst (dict_set s e k v)).
Proof.
  intro He. unfold dict_set. apply loc_bind; [apply loc_ns_dictionary_set; exact He|].
  intro s1. cbn. eapply loc_trans; [apply loc_emit|apply loc_data_write; exact He].
Qed.

Lemma loc_dict_del s e k : P e -> Loc P s (fst (dict_del s e k)).
Proof.
  intro He. unfold dict_del. apply loc_bind; [apply loc_ns_dictionary_delete; exact He|].
  intro s1. cbn zeta. destruct (has_key _ _ _); cbn; [eapply loc_trans; [apply loc_emit|apply loc_data_erase; exact He]|apply loc_emit].
Qed.

Lemma loc_dict_pop s e k : P e -> Loc P s (fst (dict_pop s e k)).
Proof.
  intro He. unfold dict_pop. apply loc_bind; [apply loc_ns_dictionary_delete; exact He|].
  intro s1. cbn zeta. destruct (has_key _ _ _); cbn; [eapply loc_trans; [apply loc_emit|apply loc_data_erase; exact He]|apply loc_emit].
Qed.

Lemma loc_ns_add s p c ck : P p -> P c -> Loc P s (fst (ns_add s p c ck)).
Proof.
  intros Hp Hc. unfold ns_add. destruct (match nstab s p with Some _ => _ | None => _ end); [apply loc_refl|].
  apply loc_bind.
  - destruct (sassoc str_NS (data s p)).
    + destruct (match sassoc str_NS (data s c) with Some _ => _ | None => _ end); [apply loc_refl|apply loc_dict_set; exact Hc].
    + destruct (has_key s c str_NS); [apply loc_dict_del; exact Hc|apply loc_refl].
  - intro s1. destruct (nstab s1 p); cbn; [apply loc_set_nstab; exact Hp|apply loc_refl].
Qed.

Lemma loc_ns_remove_child s p c ck : P p -> Loc P s (ns_remove_child s p c ck).
Proof. intro Hp. unfold ns_remove_child. destruct (nstab s p); [apply loc_set_nstab; exact Hp|apply loc_refl]. Qed.

Lemma loc_ns_create s e : P e -> Loc P s (fst (ns_create s e)).
Proof. apply loc_dict_set. Qed.

Lemma loc_set_props e props : P e -> forall s, Loc P s (fst (set_props s e props)).
Proof.
  intro He. induction props as [|[k v] ps IH]; intro s; cbn; [apply loc_refl|].
  apply loc_bind; [apply loc_dict_set; exact He|apply IH].
Qed.

Lemma loc_op_set_name s e nm : P e -> Loc P s (fst (op_set_name s e nm)).
Proof.
  intro He. unfold op_set_name. destruct nm; [apply loc_dict_set; exact He|].
  destruct (has_key _ _ _); [apply loc_dict_del; exact He|apply loc_refl].
Qed.

Lemma loc_op_del_name s e : P e -> Loc P s (fst (op_del_name s e)).
Proof. intro He. unfold op_del_name. destruct (has_key _ _ _); [apply loc_dict_del; exact He|apply loc_refl]. Qed.

(* the constructors: the new element joins P *)
Lemma loc_construct s k nm props :
  Loc P s (fst (fst (construct s k nm props))) /\ (RClosed P s -> P (snd (construct s k nm props))).
Proof.
  unfold construct. destruct (loc_alloc P s k) as [La Pa]. destruct (alloc s k) as [s0 x] eqn:Ea. cbn [fst snd] in *.
  destruct (has_data k); cbn [fst snd]; [|split; [exact La|exact Pa]].
  split; [|exact Pa]. apply loc_use. intro C. specialize (Pa C).
  eapply loc_trans; [exact La|].
  apply loc_bind; [apply loc_ns_create; exact Pa|].
  intro s1. cbn zeta. apply loc_bind; [|intro; apply loc_set_props; exact Pa].
  destruct nm; [|cbn; apply loc_emit].
  apply loc_use. intros _. eapply loc_trans; [apply loc_emit|apply loc_dict_set; exact Pa].
Qed.
End NsLoc.
