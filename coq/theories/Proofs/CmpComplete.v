(* COMPLETENESS of the comparer on named netlists: every b that is structurally equivalent to a
   (siblings in any order, the same pins on every wire in any order, properties of a among those
   of b) is accepted.  Generalises cmp_run_refl (b = a).
   Two instances of one generic development (parameter WR = how the pins of two wires are related):
   - pins in the same order (WR = eq): assignment-style instance names are allowed;
   - pins as a set (WR = Permutation): for netlists without assignment-style instance names (two
     instances named SDN_Assignment_x_w and SDN_Assignment_y_w have the same key, so among such
     pins the first-come matching is not forced). *)
From Coq Require Import String List Arith NArith ZArith Bool Lia Permutation.
From SV Require Import Base.Base Cmp.Comparer Cmp.Diff Cmp.Equiv
  Proofs.CmpBase Proofs.CmpPinSet Proofs.CmpAccept Proofs.CmpReject Proofs.CmpSound.
Import ListNotations.

(* ---------- lookups in a named sibling list ---------- *)
Lemma find_has_name_in {A} (name : A -> oname) l ns y n :
  names_ok name l ns -> In y l -> name y = Some n -> find (has_name name n) l = Some y.
Proof.
  intros [Hm Hd] Hin Hy. apply in_split in Hin as [l1 [l2 ->]].
  eapply find_has_name_at; eassumption.
Qed.

Lemma lookup_in {A} (name : A -> oname) l y n :
  named_ok name l = true -> In y l -> name y = Some n -> lookup name n l = Some y.
Proof.
  intros Hn Hin Hy. apply named_ok_spec in Hn as [ns Hok].
  apply in_split in Hin as [l1 [l2 ->]]. eapply lookup_at; eassumption.
Qed.

Lemma named_in_some {A} (name : A -> oname) l y :
  named_ok name l = true -> In y l -> exists n, name y = Some n.
Proof.
  intros Hn Hin. apply named_ok_spec in Hn as [ns [Hm _]].
  destruct (map_some_in name l ns y Hm Hin) as [n [Hy _]]. exists n. assumption.
Qed.

Lemma cmp_each_complete {A} (name : A -> oname) skip f (R : A -> A -> Prop) la lb :
  named_ok name lb = true -> sib_equiv R la lb ->
  (forall x y, R x y -> name x = name y) ->
  (forall x y, In x la -> In y lb -> R x y -> f x y = Accept) ->
  cmp_each name skip (fun n => lookup name n lb) f la = Accept.
Proof.
  intros Hn [lb' [Hp HF]] Hname Hf.
  assert (Hincl : incl lb' lb) by (intros z Hz; apply (Permutation_in _ Hp); assumption).
  clear Hp. revert Hincl Hf. induction HF as [|x y la lb' Hxy HF IH]; intros Hincl Hf; [reflexivity|].
  assert (Hy : In y lb) by (apply Hincl; left; reflexivity).
  destruct (named_in_some name lb y Hn Hy) as [n Hyn].
  assert (Hrest : cmp_each name skip (fun n0 => lookup name n0 lb) f la = Accept).
  { apply IH; [intros z Hz; apply Hincl; right; assumption|].
    intros x' y' Hx' Hy'. apply Hf. right. assumption. assumption. }
  cbn. rewrite (Hname x y Hxy), Hyn.
  destruct (skip x); [assumption|].
  rewrite (lookup_in name lb y n Hn Hy Hyn), Hrest.
  rewrite (Hf x y (or_introl eq_refl) Hy Hxy). reflexivity.
Qed.

Lemma sib_equiv_length {A} (R : A -> A -> Prop) la lb : sib_equiv R la lb -> length la = length lb.
Proof.
  intros [lb' [Hp HF]]. rewrite (Forall2_len _ _ _ HF). apply Permutation_length. assumption.
Qed.

(* ---------- ports ---------- *)
Lemma cmp_port_complete x o c : port_rel o c -> cmp_port x x o c = Accept.
Proof.
  unfold cmp_port. intros [H1 [H2 [H3 [H4 H5]]]].
  rewrite <- H1, <- H2, <- H3, <- H4, <- H5.
  rewrite !oname_eqb_refl, dir_eqb_refl, eqb_reflx, Nat.eqb_refl, ctx_eqb_refl. reflexivity.
Qed.

(* ---------- pins ---------- *)
(* every child of the first definition that a pin can name is found, with the same reference,
   among the children of the second *)
Definition refs_agree (io ic : list inst) : Prop :=
  forall n i, find (has_name i_name n) io = Some i ->
  exists i', find (has_name i_name n) ic = Some i' /\ i_ref i' = i_ref i.

Lemma sib_refs_agree PR io ic : named_ok i_name ic = true ->
  sib_equiv (inst_rel PR) io ic -> refs_agree io ic.
Proof.
  intros Hn [ic' [Hp HF]] n i Hf. apply find_has_name_some in Hf as [Hin Hname].
  apply named_ok_spec in Hn as [ns Hok].
  assert (H : exists j, In j ic' /\ inst_rel PR i j).
  { clear Hp. induction HF as [|x y io ic' Hxy HF IH]; [contradiction|].
    destruct Hin as [->|Hin]; [exists y; split; [left; reflexivity|assumption]|].
    destruct (IH Hin) as [j [Hj Hr]]. exists j. split; [right; assumption|assumption]. }
  destruct H as [j [Hj [R1 [_ [R3 _]]]]]. exists j. split; [|congruence].
  eapply find_has_name_in; [eassumption|apply (Permutation_in _ Hp); assumption|congruence].
Qed.

Lemma cmp_pin_complete x io ic p :
  (forall i, In i io -> asg_ok i) -> refs_agree io ic -> wf_pin io p = true ->
  cmp_pin x x io ic p p = Accept.
Proof.
  intros Hio Hra Hp. destruct p as [q b|[n|] q b| | | |]; cbn in Hp; try discriminate.
  - unfold cmp_pin. cbn. apply inner_equiv_refl.
  - unfold cmp_pin. cbn [resolve].
    destruct (find (has_name i_name n) io) as [i|] eqn:Ef; [|discriminate].
    destruct (i_ref i) as [r|] eqn:Er; [|discriminate].
    destruct (Hra n i Ef) as [i' [Ef' Er']]. rewrite Ef', Er', Er.
    rewrite inst_equiv_refl. cbn. apply inner_equiv_refl.
Qed.

Lemma zip_pins_complete x io ic w :
  (forall i, In i io -> asg_ok i) -> refs_agree io ic -> forallb (wf_pin io) w = true ->
  zip_pins x x io ic w w = Accept.
Proof.
  intros Hio Hra. induction w as [|p w IH]; cbn; intro H; [reflexivity|].
  apply andb_true_iff in H as [H1 H2]. rewrite cmp_pin_complete, IH by assumption. reflexivity.
Qed.

(* a pin that resolves among the children of the first definition resolves among those of the second *)
Lemma wf_pin_agree io ic p : refs_agree io ic -> wf_pin io p = true -> wf_pin ic p = true.
Proof.
  intros Hra. destruct p as [q b|[n|] q b| | | |]; cbn [wf_pin]; try discriminate; [reflexivity|].
  destruct (find (has_name i_name n) io) as [i|] eqn:Ef; [|discriminate].
  destruct (Hra n i Ef) as [i' [Ef' Er']]. rewrite Ef', Er'. tauto.
Qed.

(* the same pins in the same order: every pin meets itself (assignment-style names allowed) *)
Lemma cmp_wire_complete_ord x io ic w :
  (forall i, In i io -> asg_ok i) -> refs_agree io ic -> forallb (wf_pin io) w = true ->
  cmp_wire x x io ic w w = Accept.
Proof.
  intros Hio Hra H. rewrite cmp_wire_zip.
  - apply zip_pins_complete; assumption.
  - rewrite forallb_forall in H. intros c Hc.
    rewrite (pin_key_raw x ic c (wf_pin_agree io ic c Hra (H c Hc))). eapply raw_key_wf; eauto.
  - rewrite forallb_forall in H. apply Forall2_same. intros p Hp.
    rewrite (pin_key_raw x io p (H p Hp)), (pin_key_raw x ic p (wf_pin_agree io ic p Hra (H p Hp))).
    reflexivity.
Qed.

(* without assignment-style names the key of a pin is the pin: at most one pin of the other
   wire is equivalent to it *)
Lemma raw_key_inj io p p' : not_asg io -> wf_pin io p = true -> wf_pin io p' = true ->
  raw_key p = raw_key p' -> p = p'.
Proof.
  intros Hna Hp Hp' Hk.
  destruct (raw_key_noasg io p Hna Hp) as [[q [b [-> H]]]|[n [q [b [-> [_ H]]]]]];
    destruct (raw_key_noasg io p' Hna Hp') as [[q' [b' [-> H']]]|[n' [q' [b' [-> [_ H']]]]]];
    rewrite H, H' in Hk; inversion Hk; reflexivity.
Qed.

Definition key_of (p : pinref) : pkey :=
  match raw_key p with inr k => k | inl _ => (false, None, None, None) end.

Lemma keys_of_wire x io w : (forall i, In i io -> asg_ok i) -> forallb (wf_pin io) w = true ->
  Forall2 (fun p k => pin_key x io p = inr k) w (map key_of w).
Proof.
  intros Hio. induction w as [|p w IH]; cbn; intro H; constructor.
  - apply andb_true_iff in H as [H1 _]. rewrite (pin_key_raw x io p H1). unfold key_of.
    destruct (raw_key_wf io p Hio H1) as [k ->]. reflexivity.
  - apply andb_true_iff in H as [_ H2]. apply IH. assumption.
Qed.

(* the same pins in another order *)
Lemma cmp_wire_complete_set x io ic wo wc :
  (forall i, In i io -> asg_ok i) -> not_asg io -> refs_agree io ic ->
  forallb (wf_pin io) wo = true -> Permutation wo wc -> cmp_wire x x io ic wo wc = Accept.
Proof.
  intros Hio Hna Hra Hw Hp.
  assert (Hwc : forallb (wf_pin io) wc = true).
  { rewrite forallb_forall in *. intros c Hc. apply Hw. apply (Permutation_in _ (Permutation_sym Hp)). assumption. }
  assert (Hwc' : forallb (wf_pin ic) wc = true).
  { rewrite forallb_forall in *. intros c Hc. eapply wf_pin_agree; eauto. }
  apply (cmp_wire_complete_gen x x io ic wo wc (map key_of wo) (map key_of wc)).
  - apply keys_of_wire; assumption.
  - pose proof (keys_of_wire x io wc Hio Hwc) as HF. rewrite forallb_forall in Hwc, Hwc'.
    clear - HF Hwc Hwc'. revert HF. generalize (map key_of wc). induction wc as [|c wc IH]; intros l HF;
      inversion HF; subst; constructor.
    + rewrite (pin_key_raw x ic c) by (apply Hwc'; left; reflexivity).
      rewrite <- (pin_key_raw x io c) by (apply Hwc; left; reflexivity). assumption.
    + apply IH; try assumption; intros z Hz; [apply Hwc|apply Hwc']; right; assumption.
  - apply Permutation_map. apply Permutation_sym. assumption.
  - rewrite forallb_forall in Hw, Hwc, Hwc'. intros o c k Ho Hc Hko Hkc.
    assert (c = o).
    { apply (raw_key_inj io); auto.
      rewrite <- (pin_key_raw x ic c (Hwc' c Hc)), <- (pin_key_raw x io o (Hw o Ho)). congruence. }
    subst c. apply cmp_pin_complete; auto.
Qed.

(* ---------- generic in the relation between the pin lists of two wires ---------- *)
Section Complete.
Variable WR : wire -> wire -> Prop.
Variable dom : list inst -> Prop.     (* what is assumed of the children of the first definition *)
Hypothesis wire_ok : forall x io ic wo wc,
  (forall i, In i io -> asg_ok i) -> dom io -> refs_agree io ic ->
  forallb (wf_pin io) wo = true -> WR wo wc -> cmp_wire x x io ic wo wc = Accept.

Lemma cmp_wires_complete x io ic : (forall i, In i io -> asg_ok i) -> dom io -> refs_agree io ic ->
  forall wo wc, forallb (forallb (wf_pin io)) wo = true -> Forall2 WR wo wc ->
  cmp_wires x x io ic wo wc = Accept.
Proof.
  intros Hio Hd Hra wo wc Hw HF. revert Hw. induction HF as [|w w' wo wc Hww HF IH]; cbn; intro H; [reflexivity|].
  apply andb_true_iff in H as [H1 H2]. rewrite (wire_ok x io ic w w') by assumption.
  cbn [seq]. apply IH. assumption.
Qed.

Lemma cmp_cable_complete x io ic o c :
  (forall i, In i io -> asg_ok i) -> dom io -> refs_agree io ic -> wf_cable io o = true ->
  cable_rel WR o c -> cmp_cable x x io ic o c = Accept.
Proof.
  intros Hio Hd Hra Hw [H1 [H2 H3]]. unfold cmp_cable.
  rewrite <- H1, <- H2, (Forall2_len _ _ _ H3). rewrite !oname_eqb_refl, Nat.eqb_refl. cbn.
  apply cmp_wires_complete; assumption.
Qed.

(* ---------- instances ---------- *)
Lemma keys_nodup_sassoc d : keys_nodup d = true -> forall k v, In (k, v) d -> sassoc k d = Some v.
Proof.
  induction d as [|[k' v'] d IH]; cbn; intros H k v Hin; [contradiction|].
  apply andb_true_iff in H as [H1 H2]. destruct Hin as [Heq|Hin].
  - inversion Heq; subst. rewrite str_eqb_refl. reflexivity.
  - destruct (str_eqb k k') eqn:E; [|apply IH; assumption].
    apply str_eqb_spec in E. subst k'. exfalso.
    apply negb_true_iff in H1. rewrite <- not_true_iff_false in H1. apply H1.
    apply existsb_exists. exists (k, v). split; [assumption|cbn; apply str_eqb_refl].
Qed.

Lemma cmp_items_complete items dc :
  (forall k v, In (k, v) items -> exists v', sassoc k dc = Some v' /\ pval_eqb v v' = true) ->
  cmp_items items dc = Accept.
Proof.
  induction items as [|[k v] items IH]; intro H; cbn; [reflexivity|].
  destruct (H k v (or_introl eq_refl)) as [v' [Hs He]]. rewrite Hs, He. cbn.
  apply IH. intros k0 v0 Hin. apply H. right. assumption.
Qed.

Lemma sassoc_has_key {k d} {v : pval} : sassoc k d = Some v -> has_key k d = true.
Proof. unfold has_key. intros ->. reflexivity. Qed.

Lemma cmp_props_complete (po : list pdict) : forall pc : list pdict,
  forallb keys_nodup po = true -> length po = length pc ->
  (forall j d k v, nth_error po j = Some d -> sassoc k d = Some v ->
     exists d' v', nth_error pc j = Some d' /\ sassoc k d' = Some v' /\ pval_eqb v v' = true) ->
  (forall j (d' : pdict) k v', nth_error pc j = Some d' -> sassoc k d' = Some v' ->
     exists d v, nth_error po j = Some d /\ sassoc k d = Some v) ->
  cmp_props po pc = Accept.
Proof.
  induction po as [|d po IH]; intros pc Hk Hl H H'; [reflexivity|].
  destruct pc as [|c pc]; [discriminate|].
  cbn in Hk. apply andb_true_iff in Hk as [Hk1 Hk2]. cbn [cmp_props].
  replace (keys_eqb d c) with true.
  2:{ symmetry. unfold keys_eqb. apply andb_true_iff. split; apply forallb_forall; intros [k v] Hin; cbn.
      - destruct (H 0 d k v eq_refl (keys_nodup_sassoc d Hk1 k v Hin)) as [d' [v' [Hn [Hs _]]]].
        cbn in Hn. inversion Hn; subst d'. exact (sassoc_has_key Hs).
      - pose proof (in_has_key (k, v) c Hin) as Hh. cbn in Hh.
        destruct (has_key_sassoc Hh) as [v0 Hv0].
        destruct (H' 0 c k v0 eq_refl Hv0) as [d0 [v1 [Hn Hs]]].
        cbn in Hn. inversion Hn; subst d0. exact (sassoc_has_key Hs). }
  cbn [check seq]. rewrite cmp_items_complete.
  - cbn [seq]. apply IH; [assumption|cbn in Hl; lia| |].
    + intros j d0 k v Hj Hs. apply (H (S j) d0 k v Hj Hs).
    + intros j d' k v' Hj Hs. apply (H' (S j) d' k v' Hj Hs).
  - intros k v Hin. destruct (H 0 d k v eq_refl (keys_nodup_sassoc d Hk1 k v Hin)) as [d' [v' [Hn Hx]]].
    cbn in Hn. inversion Hn; subst d'. exists v'. assumption.
Qed.

Lemma cmp_inst_complete o c : props_ok o -> inst_rel props_eq o c ->
  cmp_inst (Some o) (Some c) = Accept.
Proof.
  unfold props_ok, cmp_inst. intros Hk [H1 [H2 [H3 [Hl [[H4 H5] [H6 H7]]]]]].
  rewrite <- H1, <- H2, <- H3. rewrite !oname_eqb_refl, cmp_ref_refl. cbn.
  destruct (i_props o) as [po|], (i_props c) as [pc|]; try discriminate Hl; [|reflexivity].
  cbn in Hl. inversion Hl as [Hlen]. rewrite Hlen, Nat.eqb_refl. cbn [check seq].
  apply cmp_props_complete; [assumption|assumption| |].
  - intros j d k v Hj Hs.
    destruct (H5 j k v) as [v' [Hp He]]; [cbn; rewrite Hj; assumption|].
    cbn in Hp. destruct (nth_error pc j) as [d'|] eqn:Ed; [|discriminate].
    exists d', v'. auto.
  - intros j d' k v' Hj Hs.
    assert (Hq : prop_at (Some pc) j k = Some v') by (unfold prop_at; rewrite Hj; exact Hs).
    destruct (H7 j k v' Hq) as [v [Hp _]].
    cbn in Hp. destruct (nth_error po j) as [d|] eqn:Ed; [|discriminate].
    exists d, v. auto.
Qed.


(* ---------- assignment instances: the same multiset of width fields ---------- *)
Definition cnt (k : str) (d : list (str * nat)) : nat :=
  match sassoc k d with Some n => n | None => 0 end.

Lemma cnt_incr k k' d : cnt k (incr k' d) = if str_eqb k k' then S (cnt k d) else cnt k d.
Proof.
  unfold cnt. induction d as [|[k0 n0] d IH]; cbn.
  - destruct (str_eqb k k'); reflexivity.
  - destruct (str_eqb k' k0) eqn:E0; cbn.
    + apply str_eqb_spec in E0. subst k0. destruct (str_eqb k k'); reflexivity.
    + destruct (str_eqb k k0) eqn:E1; [|assumption].
      apply str_eqb_spec in E1. subst k0.
      rewrite str_eqb_neq; [reflexivity|]. intro; subst. rewrite str_eqb_refl in E0. discriminate.
Qed.

Definition all_pos (d : list (str * nat)) : Prop := forall k n, In (k, n) d -> 0 < n.

Lemma incr_pos k d : all_pos d -> all_pos (incr k d).
Proof.
  unfold all_pos. induction d as [|[k0 n0] d IH]; cbn; intros H k1 n1 Hin.
  - destruct Hin as [Heq|[]]. inversion Heq. lia.
  - destruct (str_eqb k k0).
    + destruct Hin as [Heq|Hin]; [inversion Heq; lia|apply (H k1 n1); right; assumption].
    + destruct Hin as [Heq|Hin]; [apply (H k1 n1); left; assumption|].
      apply (IH (fun k2 n2 Hi => H k2 n2 (or_intror Hi)) k1 n1 Hin).
Qed.

Definition addall (ws : list str) (d : list (str * nat)) : list (str * nat) :=
  fold_left (fun d w => incr w d) ws d.

Lemma addall_perm ws ws' : Permutation ws ws' -> forall d d',
  (forall k, cnt k d = cnt k d') -> forall k, cnt k (addall ws d) = cnt k (addall ws' d').
Proof.
  induction 1 as [|x ws ws' Hp IH|x y ws|ws1 ws2 ws3 H1 IH1 H2 IH2]; intros d d' Hd k; cbn.
  - apply Hd.
  - apply IH. intro k0. rewrite !cnt_incr, Hd. reflexivity.
  - assert (He : forall k0, cnt k0 (incr x (incr y d)) = cnt k0 (incr y (incr x d'))).
    { intro k0. rewrite !cnt_incr, Hd. destruct (str_eqb k0 x), (str_eqb k0 y); reflexivity. }
    revert He. generalize (incr x (incr y d)) (incr y (incr x d')). clear.
    induction ws as [|w ws IH]; intros e e' He; cbn; [apply He|].
    apply IH. intro k0. rewrite !cnt_incr, He. reflexivity.
  - rewrite (IH1 d d' Hd k). apply IH2. reflexivity.
Qed.

Lemma addall_pos ws : forall d, all_pos d -> all_pos (addall ws d).
Proof. induction ws as [|w ws IH]; intros d H; cbn; [assumption|]. apply IH. apply incr_pos. assumption. Qed.

Lemma addall_nodup ws : forall d, NoDup (map fst d) -> NoDup (map fst (addall ws d)).
Proof. induction ws as [|w ws IH]; intros d H; cbn; [assumption|]. apply IH. apply incr_nodup. assumption. Qed.

(* the width fields of the assignment-named instances, in order *)
Fixpoint asg_ws (names : list oname) : list str :=
  match names with
  | [] => []
  | n :: r => match asg_class n with Some w => w :: asg_ws r | None => asg_ws r end
  end.

Lemma asg_ws_perm l l' : Permutation l l' -> Permutation (asg_ws l) (asg_ws l').
Proof.
  induction 1 as [|x l l' Hp IH|x y l|l1 l2 l3 H1 IH1 H2 IH2]; cbn [asg_ws].
  - constructor.
  - destruct (asg_class x); [constructor|]; assumption.
  - destruct (asg_class x), (asg_class y); try apply Permutation_refl. apply perm_swap.
  - eapply Permutation_trans; eassumption.
Qed.

Lemma count_widths_addall l :
  forall d, count_widths l d = addall (asg_ws (map i_name l)) d.
Proof.
  induction l as [|i l IH]; intros d; [reflexivity|].
  cbn [count_widths map asg_ws]. unfold scan_match.
  destruct (i_name i) as [n|] eqn:En; [|cbn [asg_class]; apply IH].
  rewrite asg_pattern_prefix. cbn [asg_class].
  destruct (starts_with asg_prefix n) eqn:E; [|apply IH].
  destruct (asg_width n) as [w|]; [cbn [addall fold_left]|]; apply IH.
Qed.

Lemma cmp_assign_complete o c :
  (forall i, In i (d_insts o) -> asg_ok i) -> (forall i, In i (d_insts c) -> asg_ok i) ->
  Permutation (map i_name (d_insts o)) (map i_name (d_insts c)) ->
  cmp_assign o c = Accept.
Proof.
  intros Ho Hc Hp. unfold cmp_assign.
  cbv zeta. rewrite !count_widths_addall.
  set (cd := addall (asg_ws (map i_name (d_insts c))) []).
  set (od := addall (asg_ws (map i_name (d_insts o))) []).
  replace (forallb _ cd) with true; [reflexivity|]. symmetry. apply forallb_forall.
  intros [k n] Hin. cbn.
  assert (Hnd : NoDup (map fst cd)) by (apply addall_nodup; constructor).
  assert (Hpos : 0 < n) by (apply (addall_pos _ [] (fun _ _ F => match F with end) k n Hin)).
  assert (Hcnt : cnt k od = cnt k cd).
  { apply addall_perm; [apply asg_ws_perm; assumption|reflexivity]. }
  unfold cnt in Hcnt. rewrite (sassoc_in_nodup cd k n Hnd Hin) in Hcnt.
  destruct (sassoc k od) as [m|]; [subst; apply Nat.eqb_refl|lia].
Qed.

Lemma sib_names_perm PR io ic : sib_equiv (inst_rel PR) io ic ->
  Permutation (map i_name io) (map i_name ic).
Proof.
  intros [ic' [Hp HF]]. apply Permutation_trans with (map i_name ic'); [|apply Permutation_map; assumption].
  replace (map i_name ic') with (map i_name io); [apply Permutation_refl|].
  clear Hp. induction HF as [|x y io ic' [H _] HF IH]; cbn; congruence.
Qed.

(* ---------- definitions, libraries, netlists ---------- *)
Lemma cmp_def_complete lo o c : wf_def o = true -> wf_def c = true -> dom (d_insts o) ->
  defn_rel props_eq WR o c -> cmp_def lo lo o c = Accept.
Proof.
  intros Hwo Hwc Hdom [H1 [H2 [H3 [H4 H5]]]]. apply wf_def_unpack in Hwo, Hwc.
  pose proof (asg_ok_all o Hwo) as Hao. pose proof (asg_ok_all c Hwc) as Hac.
  pose proof (sib_refs_agree _ _ _ (wd_ni c Hwc) H5) as Hra.
  unfold cmp_def. cbv zeta. rewrite <- H1, <- H2. rewrite !oname_eqb_refl.
  rewrite (sib_equiv_length _ _ _ H3), (sib_equiv_length _ _ _ H4), (sib_equiv_length _ _ _ H5).
  rewrite !Nat.eqb_refl. cbn [check seq].
  rewrite (cmp_each_complete p_name no_skip _ port_rel);
    [|apply (wd_np c Hwc)|assumption|intros x y [G _]; exact G|].
  2:{ intros x y Hx _ Hr. apply cmp_port_complete; assumption. }
  cbn [seq].
  rewrite (cmp_each_complete c_name no_skip _ (cable_rel WR));
    [|apply (wd_nc c Hwc)|assumption|intros x y [G _]; exact G|].
  2:{ intros x y Hx _ Hr. apply cmp_cable_complete; try assumption.
      pose proof (wd_wc o Hwo) as Hw. rewrite forallb_forall in Hw. apply Hw. assumption. }
  cbn [seq].
  rewrite (cmp_each_complete i_name is_asg_inst _ (inst_rel props_eq));
    [|apply (wd_ni c Hwc)|assumption|intros x y [G _]; exact G|].
  2:{ intros x y Hx _ Hr. apply cmp_inst_complete; [|assumption].
      apply wf_inst_props_ok. apply (wd_wi o Hwo). assumption. }
  cbn [seq]. apply cmp_assign_complete; [assumption|assumption|].
  eapply sib_names_perm. eassumption.
Qed.

Lemma cmp_lib_complete o c : wf_lib o = true -> wf_lib c = true ->
  (forall d, In d (l_defs o) -> dom (d_insts d)) ->
  lib_rel props_eq WR o c -> cmp_lib o c = Accept.
Proof.
  unfold wf_lib. intros Hwo Hwc Hdom [H1 [H2 H3]].
  apply andb_true_iff in Hwo as [_ Hwo]. apply andb_true_iff in Hwc as [Hnc Hwc].
  rewrite forallb_forall in Hwo, Hwc.
  unfold cmp_lib. rewrite <- H1, <- H2. rewrite !oname_eqb_refl.
  rewrite (sib_equiv_length _ _ _ H3), Nat.eqb_refl. cbn [check seq].
  apply (cmp_each_complete d_name no_skip _ (defn_rel props_eq WR));
    [assumption|assumption|intros x y [G _]; exact G|].
  intros x y Hx Hy Hr. apply cmp_def_complete; [apply Hwo; assumption|apply Hwc; assumption|apply Hdom; assumption|assumption].
Qed.

Lemma cmp_top_complete ta tb : wf_top ta = true -> top_rel props_eq ta tb ->
  match ta, tb with None, None => Accept | Some _, _ | _, Some _ => cmp_inst ta tb end = Accept.
Proof.
  destruct ta as [i|], tb as [j|]; cbn [top_rel]; intros Hw H; try contradiction; [|reflexivity].
  apply cmp_inst_complete; [|assumption].
  unfold props_ok. cbn in Hw. destruct (i_props i); [assumption|exact I].
Qed.

Theorem cmp_run_complete_gen a b : wf_named a -> wf_named b ->
  (forall l d, In l (n_libs a) -> In d (l_defs l) -> dom (d_insts d)) ->
  nv_rel props_eq WR a b -> cmp_run a b = Accept.
Proof.
  unfold wf_named, wf_namedb. intros Hwa Hwb Hdom [H1 [H2 [H3 H4]]].
  apply andb_true_iff in Hwa as [Hwa Hla]. apply andb_true_iff in Hwa as [Hta _].
  apply andb_true_iff in Hwb as [Hwb Hlb]. apply andb_true_iff in Hwb as [_ Hnb].
  rewrite forallb_forall in Hla, Hlb.
  unfold cmp_run. rewrite <- H1, <- H2. rewrite !oname_eqb_refl.
  rewrite (sib_equiv_length _ _ _ H4), Nat.eqb_refl. cbn [check seq].
  replace (match n_top a with Some _ => _ | None => _ end) with Accept.
  2:{ symmetry. pose proof (cmp_top_complete _ _ Hta H3) as G.
      destruct (n_top a), (n_top b); exact G. }
  cbn [seq].
  apply (cmp_each_complete l_name no_skip _ (lib_rel props_eq WR));
    [assumption|assumption|intros x y [G _]; exact G|].
  intros x y Hx Hy Hr. apply cmp_lib_complete; [apply Hla; assumption|apply Hlb; assumption| |assumption].
  intros d Hd. apply (Hdom x d); assumption.
Qed.
End Complete.

(* COMPLETENESS, pins in the same order (assignment-style names allowed) *)
Theorem cmp_run_complete a b : wf_named a -> wf_named b -> nv_equiv_ord a b -> cmp_run a b = Accept.
Proof.
  intros Ha Hb H. apply (cmp_run_complete_gen eq (fun _ => True)); try assumption; [|auto].
  intros x io ic wo wc Hio _ Hra Hw <-. apply cmp_wire_complete_ord; assumption.
Qed.

(* COMPLETENESS, pins as a set *)
Theorem cmp_run_complete_set a b : wf_named a -> wf_named b -> no_asg a -> nv_equiv a b ->
  cmp_run a b = Accept.
Proof.
  intros Ha Hb Hna H. apply (cmp_run_complete_gen wire_perm not_asg); try assumption.
  - intros x io ic wo wc Hio Hn Hra Hw Hp. apply cmp_wire_complete_set; assumption.
  - intros l d Hl Hd. apply not_asg_of. unfold no_asg, no_asgb in Hna.
    rewrite forallb_forall in Hna. specialize (Hna l Hl). rewrite forallb_forall in Hna. apply Hna. assumption.
Qed.

Theorem compare_complete a b : wf_named a -> wf_named b -> nv_equiv_ord a b -> compare a b = true.
Proof. intros. apply compare_accept. apply cmp_run_complete; assumption. Qed.

(* the same connectivity with the pins of the wires listed in any order is accepted *)
Theorem compare_complete_set a b : wf_named a -> wf_named b -> no_asg a -> nv_equiv a b -> compare a b = true.
Proof. intros. apply compare_accept. apply cmp_run_complete_set; assumption. Qed.

(* the exact characterisation of what the comparer decides on named netlists: structural
   equivalence (before the repair of compare_instances: nv_covered_set, properties that only b
   has were not seen) *)
Theorem compare_iff_equiv a b : wf_named a -> wf_named b -> no_asg a ->
  (compare a b = true <-> nv_equiv a b).
Proof.
  intros Ha Hb Hna. split; [apply compare_sound; assumption|apply compare_complete_set; assumption].
Qed.
