(* A computed witness that the unrestricted first half of C05_full fails on the faithful model: a scalar
   net x followed by the bit net x[0] of a bus named x (open finding C05-K13): the reader keeps TWO scalar
   cables "x" and "x[0]", the nets denote ONE group x. Also the former witness (finding C05-K11, repaired:
   bits x[0], x[1], then x[0] again; bundled float_demo.edf) as a positive regression example. *)
From Coq Require Import String.
From Coq Require Import List NArith ZArith Bool Arith Lia.
From SV Require Import Base.Base Fmt.EdifLex Fmt.EdifName Fmt.EdifCable Fmt.EdifBus Fmt.EdifNets Fmt.EdifNetsSpec
  Fmt.EdifFile Fmt.EdifFileSpec Fmt.EdifFileDenote Proofs.EdifCableProofs.
Import ListNotations.

(* what denote_file says about the only cell of a one-library, one-cell document *)
Lemma denote_one_cell d n e nd ver lvl km items largs lnd lrest cargs cnd ct crest vargs L C :
  d = SList (e :: nd :: ver :: lvl :: km :: items) ->
  lib_items items = [largs] -> largs = lnd :: lrest ->
  sel "cell" lrest = [cargs] -> cargs = cnd :: ct :: crest -> view_args crest = Some vargs ->
  nf_libs n = [L] -> li_cells L = [C] ->
  denote_file d n ->
  exists nets, Forall2 (denote_net (nf_libs n) (ce_ports C) (ce_insts C)) (sel "net" (contents_items vargs)) nets /\
               denote_conn nets (ce_cabs C).
Proof.
  intros Hd Hli Hla Hce Hca Hv HL HC (e' & nd' & ver' & lvl' & km' & items' & o & Hd' & _ & _ & Hl & _).
  rewrite Hd in Hd'. inversion Hd'; subst items'. clear Hd'.
  rewrite Hli, HL in Hl. inversion Hl as [|? ? ? ? Hlib Hnil]; subst. clear Hl Hnil.
  destruct Hlib as (lnd' & lrest' & lo & El & _ & _ & Hc). inversion El; subst lrest'. clear El.
  rewrite Hce, HC in Hc. inversion Hc as [|? ? ? ? Hcell Hnil]; subst. clear Hc Hnil.
  destruct Hcell as (cnd' & ct' & crest' & co & Ec & _ & _ & Hview). inversion Ec; subst crest'. clear Ec.
  rewrite Hv in Hview. destruct Hview as (_ & _ & _ & nets & Hn & Hconn). exists nets. rewrite HL. auto.
Qed.

(* ---- the witness: scalar net x, then bit x[0] ---- *)
Definition A (s : string) : sexp := Atom (s2l s).
Definition w_net (ident name port : string) : list sexp :=
  [SList [A "rename"; A ident; Str (s2l name)]; SList [A "joined"; SList [A "portRef"; A port]]].
Definition w_n1 := w_net "x" "x" "a".
Definition w_n2 := w_net "x_0_" "x[0]" "b".
Definition w_vargs : list sexp :=
  [A "v"; SList [A "viewType"; A "NETLIST"];
   SList [A "interface"; SList [A "port"; A "a"]; SList [A "port"; A "b"]; SList [A "port"; A "c"]];
   SList [A "contents"; SList (A "net" :: w_n1); SList (A "net" :: w_n2)]].
Definition w_crest : list sexp := [SList (A "view" :: w_vargs)].
Definition w_cargs : list sexp := A "t" :: SList [A "cellType"; A "GENERIC"] :: w_crest.
Definition w_lrest : list sexp :=
  [SList [A "edifLevel"; A "0"]; SList [A "technology"; SList [A "numberDefinition"]]; SList (A "cell" :: w_cargs)].
Definition w_largs : list sexp := A "w" :: w_lrest.
Definition w_items : list sexp := [SList (A "library" :: w_largs)].
Definition w_ver : sexp := SList [A "edifVersion"; A "2"; A "0"; A "0"].
Definition w_lvl : sexp := SList [A "edifLevel"; A "0"].
Definition w_km : sexp := SList [A "keywordMap"; SList [A "keywordLevel"; A "0"]].
Definition k13_doc : sexp := SList (A "edif" :: A "n" :: w_ver :: w_lvl :: w_km :: w_items).

Definition k13_res : nvfile := match elab_file k13_doc with Ok n => n | Err _ => mkfile [] [] [] None end.
Definition k13_L : nvlib := hd (mklib [] [] []) (nf_libs k13_res).
Definition k13_C : nvcell := hd (mkcell [] [] None [] [] []) (li_cells k13_L).

Lemma k13_accepted : elab_file k13_doc = Ok k13_res.
Proof. vm_compute. reflexivity. Qed.

(* the same document as text *)
Example k13_doc_text :
  read_first (tokenize (s2l "(edif n (edifVersion 2 0 0) (edifLevel 0) (keywordMap (keywordLevel 0)) (library w (edifLevel 0) (technology (numberDefinition)) (cell t (cellType GENERIC) (view v (viewType NETLIST) (interface (port a) (port b) (port c)) (contents (net (rename x ""x"") (joined (portRef a))) (net (rename x_0_ ""x[0]"") (joined (portRef b))))))))"))
  = Some (k13_doc, O, []).
Proof. vm_compute. reflexivity. Qed.

Lemma w_net_names F ports insts ident name port nt : unescape_value (s2l name) = Ok (s2l name) ->
  denote_net F ports insts (w_net ident name port) nt ->
  n_ident nt = s2l ident /\ n_name nt = s2l name.
Proof.
  intros U (nd & j & jargs & rest & o & E & _ & D & N & _). unfold w_net in E. inversion E; subst. clear E.
  inversion D as [|k a s v Hk U']; subst. rewrite U in U'. inversion U'; subst. rewrite N. cbn [display]. auto.
Qed.

Lemma k13_not_denoted : ~ denote_file k13_doc k13_res.
Proof.
  intro H.
  destruct (denote_one_cell k13_doc k13_res (A "edif") (A "n") w_ver w_lvl w_km w_items w_largs (A "w") w_lrest w_cargs (A "t")
              (SList [A "cellType"; A "GENERIC"]) w_crest w_vargs k13_L k13_C eq_refl) as (nets & Hn & Hconn); try exact H; try (vm_compute; reflexivity).
  assert (Hs : sel "net" (contents_items w_vargs) = [w_n1; w_n2]) by (vm_compute; reflexivity).
  rewrite Hs in Hn.
  inversion Hn as [|? n1 ? ? H1 Hn1]; subst. inversion Hn1 as [|? n2 ? ? H2 Hn2]; subst.
  inversion Hn2; subst. clear Hn Hn1 Hn2 Hs.
  apply w_net_names in H1 as [I1 N1]; [|vm_compute; reflexivity]. apply w_net_names in H2 as [I2 N2]; [|vm_compute; reflexivity].
  destruct n1 as [[i1 m1] p1], n2 as [[i2 m2] p2].
  unfold n_ident, n_name in *. cbn [fst snd] in *. subst.
  destruct Hconn as [Hnames _].
  vm_compute in Hnames. discriminate.
Qed.

(* ---- the former witness (K11, repaired): bits x[0], x[1], then x[0] again. The document is supported,
   accepted, and the second net of bit 0 joins wire 0: ONE cable x of width 2, lower index 0, wires
   [a; c] and [b] ---- *)
Definition dup_doc : sexp :=
  match read_first (tokenize (s2l "(edif n (edifVersion 2 0 0) (edifLevel 0) (keywordMap (keywordLevel 0)) (library w (edifLevel 0) (technology (numberDefinition)) (cell t (cellType GENERIC) (view v (viewType NETLIST) (interface (port a) (port b) (port c)) (contents (net (rename x_0_ ""x[0]"") (joined (portRef a))) (net (rename x_1_ ""x[1]"") (joined (portRef b))) (net (rename x_0_ ""x[0]"") (joined (portRef c))))))))")) with
  | Some (d, _, _) => d
  | None => SList []
  end.

Example dup_doc_read_as_one_bus :
  EdifFileDenote.supported dup_doc = true /\
  match elab_file dup_doc with
  | Ok n => map (fun L => map (fun C => map (fun e => (e_name e, c_lower (e_cab e), c_array (e_cab e),
                                                          map (fun w => List.length w) (c_wires (e_cab e)))) (ce_cabs C)) (li_cells L)) (nf_libs n)
            = [[[(s2l "x", 0%N, true, [2%nat; 1%nat])]]]
  | Err _ => False
  end.
Proof. vm_compute. split; reflexivity. Qed.
