(* C09, "no hierarchical instance remains": after a completed flatten every instance left in the top
   definition references a leaf definition (one with no child instances and no cables). *)
From Coq Require Import List Arith Bool Lia.
From RecordUpdate Require Import RecordSet.
From SV Require Import Base.Base IR.State IR.NS IR.Ops Xform.Clone Xform.Strs Xform.Xform Proofs.AssocX Proofs.Frame Proofs.Inv1a Proofs.Inv2a
  Proofs.InvP Proofs.InvW Proofs.Fresh Proofs.NsInv Proofs.RefK Proofs.FieldT Proofs.XformInv Proofs.CloneFull Proofs.XHistory.
Import ListNotations RecordSetNotations.

Section Flat.
  Variable topd : id.

  (* references unchanged; containers other than the top definition only lose members; the top
     definition gains at most the listed (relation, element) pairs *)
  Record lq (A : list (rel * id)) (s s' : state) : Prop := mkLq {
    lq_iref : iref s' = iref s;
    lq_kind : kind_of s' = kind_of s;
    lq_kids : forall r y x, In x (kids s' r y) -> In x (kids s r y) \/ (y = topd /\ In (r, x) A)
  }.
  Lemma lq_refl s : lq [] s s. Proof. constructor; auto. Qed.
  Lemma lq_weaken A B s s' : (forall e, In e A -> In e B) -> lq A s s' -> lq B s s'.
  Proof. intros H [I Kd K]. constructor; [exact I|exact Kd|]. intros r y x Hx. destruct (K r y x Hx) as [H1|[H1 H2]]; [left; exact H1|right; split; [exact H1|apply H; exact H2]]. Qed.
  Lemma lq_trans A B a b c : lq A a b -> lq B b c -> lq (A ++ B) a c.
  Proof.
    intros [I1 D1 K1] [I2 D2 K2]. constructor; [congruence|congruence|]. intros r y x Hx.
    destruct (K2 r y x Hx) as [H|[H1 H2]]; [|right; split; [exact H1|apply in_or_app; right; exact H2]].
    destruct (K1 r y x H) as [H'|[H1 H2]]; [left; exact H'|right; split; [exact H1|apply in_or_app; left; exact H2]].
  Qed.
  Lemma lq_same s s' : kids s' = kids s -> iref s' = iref s -> kind_of s' = kind_of s -> lq [] s s'.
  Proof. intros A B C. constructor; [exact B|exact C|]. intros r y x Hx. rewrite A in Hx. left. exact Hx. Qed.
  Lemma lq_struct s s' : struct_eq s s' -> lq [] s s'.
  Proof. intro H. apply lq_same; [apply (se_kids _ _ H)|apply (se_iref _ _ H)|apply (se_kind _ _ H)]. Qed.

  Lemma lq_op_remove s r p c : lq [] s (fst (op_remove s r p c)).
  Proof.
    constructor; [apply (proj2 (re_op_remove s r p c))| |].
    { unfold op_remove, guard. destruct (_ && _); [|reflexivity]. destruct (par_is s r c p); [|reflexivity].
      pose proof (remove_core_q3 s r p c) as Q. destruct (q3_ns_remove_child s p c (rel_child r)) as [_ [_ C]].
      assert (Hk : kind_of (fst (remove_core s r p c)) = kind_of s) by (rewrite (q3_kind _ _ Q); destruct (ns_rel r); [exact C|reflexivity]).
      destruct (remove_core s r p c) as [s1 [e|]]; cbn [bindR fst ret] in *; exact Hk. }
    intros r0 y x Hx. left. unfold op_remove, guard in Hx.
    destruct (_ && _); [|exact Hx]. destruct (par_is s r c p); [|exact Hx].
    pose proof (remove_core_q3 s r p c) as Q. destruct (q3_ns_remove_child s p c (rel_child r)) as [A _].
    assert (Hk : kids (fst (remove_core s r p c)) = kids s) by (rewrite (q3_kids _ _ Q); destruct (ns_rel r); [exact A|reflexivity]).
    destruct (remove_core s r p c) as [s1 [e|]]; cbn [bindR fst ret] in *; [rewrite Hk in Hx; exact Hx|].
    cbn in Hx. rewrite kids_upd2_ns, Hk in Hx. destruct (rel_eqb r0 r && Nat.eqb y p) eqn:E; [|exact Hx].
    apply andb_true_iff in E as [E1 E2]. apply rel_eqb_spec in E1. apply Nat.eqb_eq in E2. subst r0 y. apply (remove_first_In_sub c x _ Hx).
  Qed.

  Lemma lq_op_add s r c pos : lq [(r, c)] s (fst (op_add s r topd c pos)).
  Proof.
    constructor; [apply (proj2 (re_op_add s r topd c pos))| |].
    { unfold op_add, guard. destruct (_ && _); [|reflexivity]. destruct (add_guard1 s r topd c); [|reflexivity]. destruct (par s r c); [reflexivity|].
      pose proof (se_ns_add s topd c (rel_child r)) as Hse.
      set (res := if ns_rel r then ns_add s topd c (rel_child r) else ret s).
      assert (H1 : kind_of (fst res) = kind_of s) by (unfold res; destruct (ns_rel r); [apply (se_kind _ _ Hse)|reflexivity]).
      destruct res as [s1 [e|]]; cbn [bindR fst ret] in *; [exact H1|]. rewrite (fw_kind _ _ (fw_add_post _ r topd c)). exact H1. }
    intros r0 y x Hx. unfold op_add, guard in Hx.
    destruct (_ && _); [|left; exact Hx]. destruct (add_guard1 s r topd c); [|left; exact Hx]. destruct (par s r c); [left; exact Hx|].
    pose proof (se_ns_add s topd c (rel_child r)) as Hse.
    set (res := if ns_rel r then ns_add s topd c (rel_child r) else ret s) in Hx.
    assert (H1 : struct_eq s (fst res)) by (unfold res; destruct (ns_rel r); [exact Hse|apply struct_eq_refl]).
    destruct res as [s1 [e|]]; cbn [bindR fst ret] in *; [left; rewrite (se_kids _ _ H1) in Hx; exact Hx|].
    rewrite (proj1 (ce_add_post _ r topd c)) in Hx. cbn in Hx. rewrite kids_upd2_ns, (se_kids _ _ H1) in Hx.
    destruct (rel_eqb r0 r && Nat.eqb y topd) eqn:E; [|left; exact Hx].
    apply andb_true_iff in E as [E1 E2]. apply rel_eqb_spec in E1. apply Nat.eqb_eq in E2. subst r0 y.
    apply py_insert_In in Hx. destruct Hx as [->|Hx]; [right; split; [reflexivity|left; reflexivity]|left; exact Hx].
  Qed.

  (* composition along liftR *)
  Definition XLQ (A : list (rel * id)) (s : state) (r : XR) : Prop := snd r = None -> lq A s (st (fst r)).

  Lemma xlq_liftR A B x (r : R) k s :
    lq A s (fst r) -> (forall x', XLQ B (st x') (k x')) -> XLQ (A ++ B) s (liftR x r k).
  Proof.
    intros Hr Hk. unfold liftR. destruct r as [s1 [e|]]; cbn in *; [intro H; discriminate|].
    intro Hok. eapply lq_trans; [exact Hr|]. apply (Hk (mkX s1 (uniq_ctr x) (flat_ctr x))). exact Hok.
  Qed.
  Lemma xlq_ret x A : XLQ A (st x) (x, None).
  Proof. intros _. apply (lq_weaken []); [intros e []|apply lq_refl]. Qed.
  Lemma xlq_weaken A B s r : (forall e, In e A -> In e B) -> XLQ A s r -> XLQ B s r.
  Proof. intros H Hr Hok. apply (lq_weaken A B); [exact H|apply Hr; exact Hok]. Qed.

  Lemma xlq_bring_to_top x e nm : XLQ [(if is_cable (st x) e then RCables else RChildren, e)] (st x) (bring_to_top x e nm topd).
  Proof.
    unfold bring_to_top.
    set (step1 := if has_key (st x) e str_IDENT then _ else _).
    assert (H1 : XLQ [] (st x) step1).
    { unfold step1. destruct (has_key (st x) e str_IDENT); [|apply xlq_ret].
      apply (xlq_liftR [] [] (mkX (st x) (uniq_ctr x) (S (flat_ctr x)))); [apply lq_struct, se_dict_set|intro; apply xlq_ret]. }
    destruct step1 as [x2 [err|]]; [intro H; discriminate|].
    assert (L2 : lq [] (st x) (st x2)) by (apply H1; reflexivity).
    set (r := if is_cable (st x) e then RCables else RChildren).
    destruct (par (st x2) r e) as [d|]; [|intro H; discriminate].
    intro Hok.
    assert (Hrest : XLQ ([] ++ [] ++ [(r, e)] ++ []) (st x2)
              (liftR x2 (op_remove (st x2) r d e) (fun x3 =>
                 let cur := get_str (st x3) e str_NAME in
                 let newname : option str :=
                   match nm with
                   | None => cur
                   | Some a => Some (a ++ str_slash ++ name_in_path (st x3) e)
                   end in
                 liftR x3 (op_set_name (st x3) e newname)
                   (fun x4 => liftR x4 (op_add (st x4) r topd e None) (fun x5 => (x5, None)))))).
    { apply xlq_liftR; [apply lq_op_remove|]. intro x3. cbv zeta.
      apply xlq_liftR; [apply lq_struct, se_op_set_name|]. intro x4. apply xlq_liftR; [apply lq_op_add|intro; apply xlq_ret]. }
    pose proof (lq_trans _ _ _ _ _ L2 (Hrest Hok)) as H. apply (lq_weaken _ _ _ _ (fun e0 He => He) H) || exact H.
  Qed.

  Lemma lq_guard A b e s k : lq A s (fst (k s)) -> lq A s (fst (guard b e s k)).
  Proof. intro H. unfold guard. destruct b; [exact H|apply (lq_weaken []); [intros ? []|apply lq_refl]]. Qed.

  Lemma lq_op_connect s w p pos : lq [] s (fst (op_connect s w p pos)).
  Proof.
    unfold op_connect. apply lq_guard. destruct p as [i|n i|]; cbn; try apply lq_refl.
    - destruct (ipwire s i); cbn; [apply lq_refl|apply lq_same; reflexivity].
    - destruct (assoc i (ipins s n)) as [[w0|]|]; cbn; try apply lq_refl. apply lq_same; reflexivity.
  Qed.
  Lemma lq_op_disconnect s w p : lq [] s (fst (op_disconnect s w p)).
  Proof. unfold op_disconnect. repeat apply lq_guard. destruct p; apply lq_same; reflexivity. Qed.

  Lemma xlq_go iw ow : forall ps x, XLQ [] (st x)
    ((fix go (ps : list pin) (x : xstate) : XR :=
        match ps with
        | [] => (x, None)
        | p :: ps' => liftR x (op_disconnect (st x) iw p) (fun xa => liftR xa (op_connect (st xa) ow p None) (fun xb => go ps' xb))
        end) ps x).
  Proof.
    induction ps as [|p ps IH]; intro x; [apply xlq_ret|].
    apply (xlq_liftR [] []); [apply lq_op_disconnect|]. intro xa. apply (xlq_liftR [] []); [apply lq_op_connect|]. intro xb. apply IH.
  Qed.

  Lemma xlq_redo_pin x inst i : XLQ [] (st x) (redo_pin x inst i).
  Proof.
    unfold redo_pin.
    destruct (assoc i (ipins (st x) inst)) as [out_wire|]; [|intro H; discriminate].
    set (r1 := match ipwire (st x) i with Some iw => _ | None => _ end).
    assert (H1 : XLQ [] (st x) r1).
    { unfold r1. destruct (ipwire (st x) i) as [iw|]; [|apply xlq_ret].
      apply (xlq_liftR [] []); [apply lq_op_disconnect|intro; apply xlq_ret]. }
    destruct r1 as [x1 [e|]]; [intro H; discriminate|].
    assert (L1 : lq [] (st x) (st x1)) by (apply H1; reflexivity).
    set (r2 := match out_wire with Some ow => _ | None => _ end).
    assert (H2 : XLQ [] (st x1) r2).
    { unfold r2. destruct out_wire as [ow|]; [|apply xlq_ret].
      apply (xlq_liftR [] []); [apply lq_op_disconnect|intro; apply xlq_ret]. }
    destruct r2 as [x2 [e|]]; [intro H; discriminate|].
    assert (L2 : lq [] (st x) (st x2)) by (apply (lq_trans [] [] _ _ _ L1); apply H2; reflexivity).
    destruct (ipwire (st x) i) as [iw|]; [|intros _; exact L2].
    destruct out_wire as [ow|]; [|intros _; exact L2].
    intro Hok. apply (lq_trans [] [] _ _ _ L2). apply (xlq_go iw ow). exact Hok.
  Qed.

  Lemma xlq_xfold (f : xstate -> id -> XR) (g : id -> list (rel * id)) :
    (forall x a, XLQ (g a) (st x) (f x a)) -> forall l x, XLQ (flat_map g l) (st x) (xfold f l x).
  Proof.
    intro Hf. induction l as [|a l IH]; intro x; cbn [xfold flat_map]; [apply xlq_ret|].
    pose proof (Hf x a) as Ha. destruct (f x a) as [x1 [e|]]; [intro H; discriminate|].
    intro Hok. apply (lq_trans _ _ _ _ _ (Ha eq_refl)). apply IH. exact Hok.
  Qed.

  Lemma flat_map_nil {A B} (l : list A) : flat_map (fun _ : A => @nil B) l = [].
  Proof. induction l; cbn; auto. Qed.

  Lemma xlq_bring_any x a nm : XLQ [(RCables, a); (RChildren, a)] (st x) (bring_to_top x a nm topd).
  Proof.
    apply (xlq_weaken [(if is_cable (st x) a then RCables else RChildren, a)]); [|apply xlq_bring_to_top].
    intros e [<-|[]]. destruct (is_cable (st x) a); [left; reflexivity|right; left; reflexivity].
  Qed.

  Lemma xlq_redo_port x inst p : XLQ [] (st x) (xfold (fun x i => redo_pin x inst i) (kids (st x) RPins p) x).
  Proof.
    pose proof (xlq_xfold (fun x i => redo_pin x inst i) (fun _ => []) (fun xa i => xlq_redo_pin xa inst i) (kids (st x) RPins p) x) as H.
    rewrite flat_map_nil in H. exact H.
  Qed.

  Lemma xlq_redo_ports inst l x : XLQ [] (st x) (xfold (fun x p => xfold (fun x i => redo_pin x inst i) (kids (st x) RPins p) x) l x).
  Proof.
    pose proof (xlq_xfold (fun x p => xfold (fun x i => redo_pin x inst i) (kids (st x) RPins p) x) (fun _ => []) (fun xa p => xlq_redo_port xa inst p) l x) as H.
    rewrite flat_map_nil in H. exact H.
  Qed.

  Lemma xlq_bring_cables nm l x : XLQ (flat_map (fun c => [(RCables, c); (RChildren, c)]) l) (st x) (xfold (fun x c => bring_to_top x c nm topd) l x).
  Proof. apply (xlq_xfold (fun x c => bring_to_top x c nm topd) (fun c => [(RCables, c); (RChildren, c)])). intros x0 a. apply xlq_bring_any. Qed.

  (* ---- the walk ---- *)
  Definition Leafy (s : state) (c : id) : Prop := exists d, iref s c = Some d /\ is_leaf_def s d = true.

  Lemma leafy_keep A s s' c : lq A s s' -> In c (kids s RChildren topd) -> Leafy s c -> Leafy s' c.
  Proof.
    intros [I _ K] Hc [d [Hr Hl]]. exists d. split; [rewrite I; exact Hr|].
    assert (Hd : d <> topd).
    { intros ->. unfold is_leaf_def in Hl. destruct (kids s RChildren topd); [destruct Hc|discriminate Hl]. }
    unfold is_leaf_def in *.
    destruct (kids s RChildren d) eqn:E1; [|discriminate Hl]. destruct (kids s RCables d) eqn:E2; [|discriminate Hl].
    destruct (kids s' RChildren d) as [|a l] eqn:E3.
    - destruct (kids s' RCables d) as [|b l] eqn:E4; [reflexivity|].
      destruct (K RCables d b) as [H|[H _]]; [rewrite E4; left; reflexivity|rewrite E2 in H; destruct H|contradiction].
    - destruct (K RChildren d a) as [H|[H _]]; [rewrite E3; left; reflexivity|rewrite E1 in H; destruct H|contradiction].
  Qed.

  Definition F1 (s : state) (queue : list (id * option str)) (rem : list id) : Prop :=
    forall c, In c (kids s RChildren topd) -> In c (map fst queue) \/ Leafy s c \/ In c rem.

  Definition xpU := xp_bring_to_top UF (fun s o Hs _ => uf_step s o Hs) uf_struct.

  Lemma flat_loop_leaves : forall fuel x queue rem x' rem',
    UF (st x) -> F1 (st x) queue rem -> flat_loop fuel x topd queue rem = ((x', None), rem') ->
    UF (st x') /\ F1 (st x') [] rem'.
  Proof.
    induction fuel as [|f IH]; intros x queue rem x' rem' U HF E; destruct queue as [|[inst pn] rest]; cbn [flat_loop] in E; try discriminate.
    - injection E as <- <-. split; assumption.
    - injection E as <- <-. split; assumption.
    - pose proof (xlq_bring_to_top x inst pn) as L1. pose proof (xpU x inst pn topd U) as U1.
      destruct (bring_to_top x inst pn topd) as [x1 [e|]]; [discriminate|].
      assert (Q1 : lq [(if is_cable (st x) inst then RCables else RChildren, inst)] (st x) (st x1)) by (apply L1; reflexivity).
      assert (UF1 : UF (st x1)) by (apply U1; unfold not_stuck; cbn; discriminate).
      destruct (iref (st x1) inst) as [d|] eqn:Hr; [|discriminate].
      destruct (is_leaf_def (st x1) d) eqn:Hl.
      + (* a leaf: it stays *)
        apply (IH x1 rest rem x' rem' UF1); [|exact E].
        intros c Hc. destruct (lq_kids _ _ _ Q1 RChildren topd c Hc) as [Hold|[_ Hnew]].
        * destruct (HF c Hold) as [[<-|Hq]|[Hlf|Hrm]].
          -- right. left. exists d. split; assumption.
          -- left. exact Hq.
          -- right. left. apply (leafy_keep _ _ _ c Q1 Hold Hlf).
          -- right. right. exact Hrm.
        * destruct Hnew as [Hnew|[]]. injection Hnew as _ ->. right. left. exists d. split; assumption.
      + (* hierarchical: its contents come up, it is scheduled for removal *)
        set (iname := Some (name_in_path (st x1) inst)) in *.
        pose proof (xlq_bring_cables iname (kids (st x1) RCables d) x1) as L2.
        pose proof (xp_xfold UF (fun x c => bring_to_top x c iname topd) (kids (st x1) RCables d)
                      (fun x0 a H0 => xpU x0 a iname topd H0) x1 UF1) as U2.
        destruct (xfold (fun x c => bring_to_top x c iname topd) (kids (st x1) RCables d) x1) as [x2 [e|]]; [discriminate|].
        assert (Q2 : lq (flat_map (fun c => [(RCables, c); (RChildren, c)]) (kids (st x1) RCables d)) (st x1) (st x2)) by (apply L2; reflexivity).
        assert (UF2 : UF (st x2)) by (apply U2; unfold not_stuck; cbn; discriminate).
        pose proof (xlq_redo_ports inst (kids (st x2) RPorts d) x2) as L3.
        pose proof (xp_xfold UF (fun x p => xfold (fun x i => redo_pin x inst i) (kids (st x) RPins p) x)
                      (kids (st x2) RPorts d)
                      (fun x0 p H0 => xp_xfold UF (fun x i => redo_pin x inst i) (kids (st x0) RPins p)
                                         (fun xa i Ha => xp_redo_pin UF (fun s o Hs _ => uf_step s o Hs) xa inst i Ha) x0 H0) x2 UF2) as U3.
        destruct (xfold _ (kids (st x2) RPorts d) x2) as [x3 [e|]]; [discriminate|].
        assert (Q3 : lq [] (st x2) (st x3)) by (apply L3; reflexivity).
        assert (UF3 : UF (st x3)) by (apply U3; unfold not_stuck; cbn; discriminate).
        apply (IH x3 (rest ++ map (fun c => (c, iname)) (kids (st x1) RChildren d)) (rem ++ [inst]) x' rem' UF3); [|exact E].
        pose proof (lq_trans _ _ _ _ _ Q1 (lq_trans _ _ _ _ _ Q2 Q3)) as Q.
        intros c Hc. destruct (lq_kids _ _ _ Q RChildren topd c Hc) as [Hold|[_ Hnew]].
        * destruct (HF c Hold) as [[<-|Hq]|[Hlf|Hrm]].
          -- right. right. apply in_or_app. right. left. reflexivity.
          -- left. rewrite map_app. apply in_or_app. left. exact Hq.
          -- right. left. apply (leafy_keep _ _ _ c Q Hold Hlf).
          -- right. right. apply in_or_app. left. exact Hrm.
        * apply in_app_or in Hnew. destruct Hnew as [[Hnew|[]]|Hnew].
          -- injection Hnew as _ ->. right. right. apply in_or_app. right. left. reflexivity.
          -- apply in_app_or in Hnew. destruct Hnew as [Hnew|Hnew].
             ++ apply in_flat_map in Hnew as [cb [Hcb [Hx|[Hx|[]]]]]; [discriminate Hx|]. injection Hx as ->.
                (* a member of a cable list cannot be a child of the top definition *)
                exfalso. destruct UF1 as [_ [T1 _]]. destruct UF3 as [_ [T3 _]]. destruct UF2 as [_ [T2 _]].
                pose proof (proj1 (T1 RCables d c Hcb)) as Kc. pose proof (proj1 (T3 RChildren topd c Hc)) as Ki. cbn in Kc, Ki.
                assert (Hstab : kind_of (st x3) c = kind_of (st x1) c) by (rewrite (lq_kind _ _ _ Q3), (lq_kind _ _ _ Q2); reflexivity).
                rewrite Hstab, Kc in Ki. discriminate.
             ++ destruct Hnew.
  Qed.

  Lemma op_remove_kids_ok s r p c : snd (op_remove s r p c) = None -> kids (fst (op_remove s r p c)) r p = remove_first c (kids s r p).
  Proof.
    unfold op_remove, guard. destruct (_ && _); [|discriminate]. destruct (par_is s r c p); [|discriminate].
    pose proof (remove_core_q3 s r p c) as Q. destruct (q3_ns_remove_child s p c (rel_child r)) as [A _].
    assert (Hk : kids (fst (remove_core s r p c)) = kids s) by (rewrite (q3_kids _ _ Q); destruct (ns_rel r); [exact A|reflexivity]).
    destruct (remove_core s r p c) as [s1 [e|]]; cbn [bindR fst snd ret] in *; [discriminate|].
    intros _. cbn. rewrite upd2_same, Hk. reflexivity.
  Qed.

  Lemma remove_fold : forall rem x x', UF (st x) ->
    xfold (fun x i => liftR x (op_remove (st x) RChildren topd i) (fun x' => (x', None))) rem x = (x', None) ->
    lq [] (st x) (st x') /\ (forall c, In c (kids (st x') RChildren topd) -> In c (kids (st x) RChildren topd) /\ ~ In c rem).
  Proof.
    induction rem as [|i rem IH]; intros x x' U E; cbn [xfold] in E.
    - injection E as <-. split; [apply lq_refl|]. intros c Hc. split; [exact Hc|intros []].
    - pose proof (op_remove_kids_ok (st x) RChildren topd i) as Hk. pose proof (lq_op_remove (st x) RChildren topd i) as Q.
      pose proof (uf_step (st x) (ORemove RChildren topd i) U) as U1. cbn [step] in U1.
      destruct (op_remove (st x) RChildren topd i) as [s1 [e|]]; cbn [liftR] in E; [discriminate|]. cbn [fst snd] in *.
      destruct (IH (mkX s1 (uniq_ctr x) (flat_ctr x)) x' U1 E) as [Q2 H2]. cbn [st] in *.
      split; [apply (lq_trans [] [] _ _ _ Q Q2)|]. intros c Hc. destruct (H2 c Hc) as [Hc1 Hn]. rewrite (Hk eq_refl) in Hc1.
      destruct U as [I _]. apply (remove_first_In i c _ (i1_nodup _ (inv_a _ I) RChildren topd)) in Hc1. destruct Hc1 as [Hc0 Hne].
      split; [exact Hc0|]. intros [->|H]; [apply Hne; reflexivity|apply Hn; exact H].
  Qed.
End Flat.

(* after a completed flatten every instance left in the top definition references a leaf definition *)
Theorem flatten_leaves fuel x n x' t topd :
  UF (st x) -> top (st x) n = Some t -> iref (st x) t = Some topd -> flatten fuel x n = (x', None) ->
  forall c, In c (kids (st x') RChildren topd) -> Leafy (st x') c.
Proof.
  intros U Ht Hr E. unfold flatten in E. rewrite Ht, Hr in E.
  destruct (flat_loop fuel x topd (map (fun c => (c, None)) (kids (st x) RChildren topd)) []) as [[x1 [e|]] rem] eqn:El; [discriminate|].
  assert (F0 : F1 topd (st x) (map (fun c => (c, None)) (kids (st x) RChildren topd)) []).
  { intros c Hc. left. rewrite map_map. cbn. rewrite map_id. exact Hc. }
  destruct (flat_loop_leaves topd fuel x _ [] x1 rem U F0 El) as [U1 F].
  destruct (remove_fold topd rem x1 x' U1 E) as [Q H]. intros c Hc. destruct (H c Hc) as [Hc1 Hn].
  destruct (F c Hc1) as [[]|[Hl|Hrm]]; [apply (leafy_keep topd _ _ _ c Q Hc1 Hl)|contradiction].
Qed.
