(* Re-pointing a copied instance to the copy of its definition (Definition._clone_rip_and_replace):
   the outer-pin table is re-keyed through the memo; pin-wire links are kept. *)
From Coq Require Import List Arith Bool Lia.
From RecordUpdate Require Import RecordSet.
From SV Require Import Base.Base IR.State IR.NS IR.Ops Xform.Clone Proofs.AssocX Proofs.Frame Proofs.Inv1a Proofs.Inv2a
  Proofs.InvP Proofs.InvW Proofs.Fresh Proofs.NsInv Proofs.Repoint Proofs.CloneInv Proofs.RefK Proofs.CloneRef Proofs.CloneT Proofs.FieldT
  Proofs.CloneMemo Proofs.CloneRR Proofs.CloneFaith Proofs.CloneInvP Proofs.CloneFull
  Proofs.CloneMemoK Proofs.CloneFaithK Proofs.CloneStage Proofs.CloneStageP Proofs.CloneRekey Proofs.CloneEx.
Import ListNotations RecordSetNotations.

From SV Require Import Proofs.UniqFull.
From SV Require Import Proofs.CloneRun.

Record RX (s0 s : state) (m : memo) : Prop := mkRX {
  rx_ri : RI s0 s m;
  rx_di : forall d d', In (d, d') m -> kind_of s0 d = Some KDefinition -> DefImg s0 d d' s m;
  rx_ex : EX s0 s m
}.

Lemma map_id_in {A} (f : A -> A) l : (forall x, In x l -> f x = x) -> map f l = l.
Proof. induction l as [|a l IH]; cbn; intro H; [reflexivity|]. rewrite (H a (or_introl eq_refl)), IH; [reflexivity|]. intros x Hx. apply H. right. exact Hx. Qed.

Lemma imgok_kids_same s0 rl p p' s s' m : kids s' = kids s -> ImgOK s0 rl p p' s m -> ImgOK s0 rl p p' s' m.
Proof. intros Hk [A [B C]]. split; [intros i Hi; destruct (A i Hi) as [i' H]; exists i'; rewrite Hk; exact H|split; [intros i' Hi'; rewrite Hk in Hi'; apply B; exact Hi'|rewrite Hk; exact C]]. Qed.
Lemma defimg_kids_same s0 d d' s s' m : kids s' = kids s -> DefImg s0 d d' s m -> DefImg s0 d d' s' m.
Proof.
  intros Hk [A B C D F O1 O2 O3]. constructor.
  6:{ rewrite Hk. exact O1. }
  6:{ rewrite Hk. exact O2. }
  6:{ rewrite Hk. exact O3. }
  - intros p Hp. destruct (A p Hp) as [p' [H1 [H2 H3]]]. exists p'. rewrite Hk. split; [exact H1|split; [exact H2|apply (imgok_kids_same _ _ _ _ s s' m Hk H3)]].
  - intros p Hp. destruct (B p Hp) as [p' [H1 [H2 H3]]]. exists p'. rewrite Hk. split; [exact H1|split; [exact H2|apply (imgok_kids_same _ _ _ _ s s' m Hk H3)]].
  - intros p Hp. destruct (C p Hp) as [p' H]. exists p'. rewrite Hk. exact H.
  - intros p' Hp'. rewrite Hk in Hp'. apply D. exact Hp'.
  - intros p' Hp'. rewrite Hk in Hp'. apply F. exact Hp'.
Qed.

Section RemapStep.
  Variables (s0 s s' : state) (m : memo) (x' e e' : id).
  Hypothesis U0 : UF s0.
  Hypothesis X : RX s0 s m.
  Hypothesis Hx' : next s0 <= x'.
  Hypothesis Hkx : kind_of s x' = Some KInstance.
  Hypothesis Hr : iref s x' = Some e.
  Hypothesis Hm : mget m e = Some e'.
  Hypothesis Hke : kind_of s0 e = Some KDefinition.
  Hypothesis E : rekey_all m (set_iref s x' (Some e')) x' = (s', None).

  Let R := rx_ri _ _ _ X.
  Let ST0 := ri_st _ _ _ R.

  (* the keys of the instance before the step are the inner pins of the ports of the source definition *)
  Lemma keys_old k : In k (keys s x') -> k < next s0 /\ exists p, In p (kids s0 RPorts e) /\ In k (kids s0 RPins p).
  Proof.
    intro Hk. apply (k_keys _ (ri_k _ _ _ R)) in Hk as [d [p [H0 [H1 H2]]]]. rewrite Hr in H0. injection H0 as <-.
    pose proof (mget_in _ _ _ Hm) as Hme. destruct (st_rng _ _ _ ST0 e e' Hme) as [He _].
    assert (Hp : p < next s0). { destruct (Nat.lt_ge_cases p (next s0)) as [Hl|Hg]; [exact Hl|]. pose proof (ri_pn _ _ _ R RPorts p e Hg H1). lia. }
    assert (Hkk : k < next s0). { destruct (Nat.lt_ge_cases k (next s0)) as [Hl|Hg]; [exact Hl|]. pose proof (ri_pn _ _ _ R RPins k p Hg H2). lia. }
    destruct U0 as [I0 _]. split; [exact Hkk|]. exists p.
    rewrite (ri_po _ _ _ R RPorts p Hp) in H1. rewrite (ri_po _ _ _ R RPins k Hkk) in H2.
    split; apply (i1_kids _ (inv_a _ I0)); assumption.
  Qed.

  Theorem remap_step :
    RX s0 s' m /\ iref s' = upd (iref s) x' (Some e') /\ drefs s' = drefs s /\ kids s' = kids s /\ par s' = par s /\ next s' = next s /\ kind_of s' = kind_of s.
  Proof.
    pose proof (mget_in _ _ _ Hm) as Hme. destruct (st_rng _ _ _ ST0 e e' Hme) as [He [He'0 He'n]].
    set (sa := set_iref s x' (Some e')) in *.
    assert (Pa : InvP sa) by (apply (invp_same s sa (ri_p _ _ _ R)); [intro q; apply pw_ext; reflexivity|reflexivity]).
    assert (Hfresh : forall a b, In (a, b) m -> ~ In b (keys sa x') /\ ~ In b (map fst m)).
    { intros a b Hab. destruct (st_rng _ _ _ ST0 a b Hab) as [_ [Hb _]]. split.
      - intro Hin. destruct (keys_old b Hin). lia.
      - intro Hin. apply in_map_iff in Hin as [[a1 b1] [E1 Hin]]. cbn in E1. subst a1. destruct (st_rng _ _ _ ST0 b b1 Hin). lia. }
    destruct (remap_keys sa m x' s' Pa (k_nodup _ (ri_k _ _ _ R) x') (st_inj _ _ _ ST0) Hfresh E) as [P' [Fw [Hw [Hk' [Hnd' [Hoth Hwp]]]]]].
    destruct Fw as [Fk Fp Fi Fd Fn Fkd]. cbn in Fi.
    change (wpins sa) with (wpins s) in Hwp. change (ipwire sa) with (ipwire s) in Hw. change (ipins sa) with (ipins s) in Hoth.
    change (kids sa) with (kids s) in Fk. change (par sa) with (par s) in Fp. change (drefs sa) with (drefs s) in Fd. change (next sa) with (next s) in Fn. change (kind_of sa) with (kind_of s) in Fkd.
    change (keys sa x') with (keys s x') in Hk'.
    assert (Hxn : x' < next s).
    { destruct (Nat.lt_ge_cases x' (next s)) as [Hl|Hg]; [exact Hl|]. rewrite (proj1 (st_above _ _ _ ST0 x' Hg)) in Hkx. discriminate. }
    (* wires that do not list an outer pin of the instance keep their list *)
    assert (Hwsame : forall w, (forall c, ~ In (POut x' c) (wpins s w)) -> wpins s' w = wpins s w).
    { intros w Hno. rewrite Hwp. apply map_id_in. intros q Hq. destruct q as [i|n c|]; try reflexivity.
      destruct (Nat.eqb_spec n x') as [->|]; [|reflexivity]. exfalso. apply (Hno c). exact Hq. }
    assert (Hwold : forall w, w < next s0 -> wpins s' w = wpins s w).
    { intros w Hlt. apply Hwsame. intros c Hin. apply (p_pins _ (ri_p _ _ _ R)) in Hin. cbn in Hin.
      destruct (assoc c (ipins s x')) as [ow|] eqn:Eo; [|discriminate]. subst ow. pose proof (ri_nw _ _ _ R x' c w Hx' Eo). lia. }
    assert (Hwnil : forall w, wpins s w = [] -> wpins s' w = []) by (intros w H0; rewrite Hwp, H0; reflexivity).
    split; [|repeat split; assumption].
    constructor; [|intros d d' Hdd Hkd; apply (defimg_kids_same s0 d d' s s' m Fk); apply (rx_di _ _ _ X d d' Hdd Hkd)|].
    2:{ destruct (st_cov _ _ _ ST0 x' Hx' (or_intror (or_intror Hkx))) as [x Hxx].
        assert (Hkx0 : kind_of s0 x = Some KInstance) by (rewrite <- (st_kind _ _ _ ST0 x x' Hxx); exact Hkx).
        apply (ex_remap s0 s s' m x x' e e' (rx_ex _ _ _ X) ST0 (ri_p _ _ _ R) (k_nodup _ (ri_k _ _ _ R) x') Hxx Hkx0 Hr He He'0
                 (fun a b Hab => proj1 (Hfresh a b Hab)) E Hw Hoth Hwp Fi). }
    constructor.
    - (* the stage invariant *)
      destruct ST0 as [A B C D Ek O Kd Ab Pn Wr In0 Df Cv]. constructor.
      + rewrite Fn. exact A.
      + intros a b Hab. rewrite Fn. apply B. exact Hab.
      + exact C.
      + exact D.
      + intros a b Hab. rewrite Fkd. apply Ek. exact Hab.
      + intros y Hy. destruct (O y Hy) as [O1 [O2 [O3 [O4 O5]]]]. rewrite Hw, (Hwold y Hy), Fkd.
        assert (Hyx : y <> x') by lia. rewrite (Hoth y Hyx), Fi. unfold upd. apply Nat.eqb_neq in Hyx. rewrite Hyx. repeat split; assumption.
      + intros r y Hy. rewrite Fk. apply Kd. exact Hy.
      + intros y Hy. rewrite Fn in Hy. destruct (Ab y Hy) as [A1 [A2 [A3 [A4 A5]]]]. assert (Hyx : y <> x') by lia.
        rewrite Fkd, Hw, (Hwnil y A3), (Hoth y Hyx), Fi. unfold upd. apply Nat.eqb_neq in Hyx. rewrite Hyx. repeat split; assumption.
      + exact Pn.
      + exact Wr.
      + exact In0.
      + intros y Hy. destruct (Df y Hy) as [D1 [D2 D3]]. rewrite Fkd, Hw. split; [exact D1|]. split.
        * intro Hkk. apply Hwnil. apply D2. exact Hkk.
        * intro Hkk. assert (Hyx : y <> x') by (intros ->; apply Hkk; exact Hkx).
          rewrite (Hoth y Hyx), Fi. unfold upd. apply Nat.eqb_neq in Hyx. rewrite Hyx. apply D3. exact Hkk.
      + intros y Hy Hkk. rewrite Fkd in Hkk. apply (Cv y Hy Hkk).
    - intros r0 Hr0. apply (inv1ar_same s s' r0 Fk Fp). apply (ri_1a _ _ _ R r0 Hr0).
    - intros r0 p0 c0 Hc0. rewrite Fk in Hc0. rewrite Fn. apply (ri_kl _ _ _ R r0 p0 c0 Hc0).
    - intros r p c Hc. rewrite Fk in Hc. rewrite Fkd. apply (ri_t _ _ _ R r p c Hc).
    - exact P'.
    - (* the outer-pin tables *)
      constructor.
      + intros n i. destruct (Nat.eq_dec n x') as [->|Hne].
        * rewrite Hk', Fi. cbn. rewrite upd_same. rewrite Fp.
          destruct (rx_di _ _ _ X e e' Hme Hke) as [DP _ _ DPr _]. split.
          -- intros [k [Hk Hmk]]. destruct (keys_old k Hk) as [_ [p [Hp Hkp]]]. destruct (DP p Hp) as [p' [Hpp [Hp'k [Hfw _]]]].
             destruct (Hfw k Hkp) as [k' [Hkk' Hk'k]]. rewrite (in_mget m k k' (st_fun _ _ _ ST0) Hkk') in Hmk. injection Hmk as <-.
             exists e', p'. split; [reflexivity|]. split; [apply (proj1 (ri_1a _ _ _ R RPorts ltac:(discriminate)))|apply (proj1 (ri_1a _ _ _ R RPins ltac:(discriminate)))]; assumption.
          -- intros [d [p' [H0 [H1 H2]]]]. injection H0 as <-.
             apply (proj1 (ri_1a _ _ _ R RPorts ltac:(discriminate))) in H1. apply (proj1 (ri_1a _ _ _ R RPins ltac:(discriminate))) in H2.
             destruct (DPr p' H1) as [p [Hpp Hp]]. destruct (DP p Hp) as [p'' [Hpp'' [_ [_ [Hrev _]]]]].
             assert (p'' = p') by (apply (memo_fun m p p'' p' (st_fun _ _ _ ST0)); assumption). subst p''.
             destruct (Hrev i H2) as [k [Hki Hkp]]. exists k. split; [|apply (in_mget m k i (st_fun _ _ _ ST0) Hki)].
             apply (k_keys _ (ri_k _ _ _ R)). exists e, p. split; [exact Hr|]. destruct U0 as [I0 _].
             assert (Hplt : p < next s0) by (apply (src_lt s0 (inv_a _ I0) (proj1 (proj2 (proj2 U0))) _ _ _ Hp)).
             assert (Hklt : k < next s0) by (apply (src_lt s0 (inv_a _ I0) (proj1 (proj2 (proj2 U0))) _ _ _ Hkp)).
             rewrite (ri_po _ _ _ R RPorts p Hplt), (ri_po _ _ _ R RPins k Hklt). split; apply (i1_kids _ (inv_a _ I0)); assumption.
        * unfold keys. rewrite (Hoth n Hne), Fi. cbn. unfold upd. replace (Nat.eqb n x') with false by (symmetry; apply Nat.eqb_neq; exact Hne).
          rewrite Fp. apply (k_keys _ (ri_k _ _ _ R) n i).
      + intro n. destruct (Nat.eq_dec n x') as [->|Hne]; [exact Hnd'|]. unfold keys. rewrite (Hoth n Hne). apply (k_nodup _ (ri_k _ _ _ R)).
    - intros r y Hy. rewrite Fk, Fp. rewrite Fn in Hy. apply (ri_ab _ _ _ R r y Hy).
    - intros r y p Hp. rewrite Fp in Hp. rewrite Fn. apply (ri_pl _ _ _ R r y p Hp).
    - intros r y Hy. rewrite Fp. apply (ri_po _ _ _ R r y Hy).
    - intros r y p Hy Hp. rewrite Fp in Hp. apply (ri_pn _ _ _ R r y p Hy Hp).
    - intros n d Hrn. rewrite Fi in Hrn. cbn in Hrn. unfold upd in Hrn. rewrite Fn.
      destruct (Nat.eqb n x'); [injection Hrn as <-; exact He'n|apply (ri_rl _ _ _ R n d Hrn)].
    - intros x j w Hx Hw0. destruct (Nat.eq_dec x x') as [->|Hne]; [|rewrite (Hoth x Hne) in Hw0; apply (ri_nw _ _ _ R x j w Hx Hw0)].
      assert (Hpw : pin_wire s' (POut x' j) = Some w) by (cbn; rewrite Hw0; reflexivity).
      apply (p_pins _ P') in Hpw. rewrite Hwp in Hpw. apply in_map_iff in Hpw as [q [Eq Hq]].
      destruct q as [i|n c|]; try discriminate Eq.
      destruct (Nat.eqb_spec n x') as [->|Hnx]; [|injection Eq as -> _; contradiction].
      apply (p_pins _ (ri_p _ _ _ R)) in Hq. cbn in Hq. destruct (assoc c (ipins s x')) as [ow|] eqn:Eo; [|discriminate]. subst ow.
      apply (ri_nw _ _ _ R x' c w Hx' Eo).
    - intros d Hd. rewrite Fd. apply (ri_dr _ _ _ R d Hd).
  Qed.
End RemapStep.

(* ---- Definition._clone_rip_and_replace on one copied definition ---- *)
Definition remap_ref (m : memo) (o : option id) : option id :=
  match o with Some e => match mget m e with Some e' => Some e' | None => Some e end | None => None end.

Definition rr_step (m : memo) (s : state) (x' : id) : R :=
  match iref s x' with
  | Some e => match mget m e with Some e' => rekey_all m (set_iref s x' (Some e')) x' | None => ret s end
  | None => ret s
  end.

Lemma remap_fold s0 m : UF s0 -> forall L s s',
  RX s0 s m -> NoDup L ->
  (forall x', In x' L -> next s0 <= x' /\ kind_of s x' = Some KInstance /\
                         forall e, iref s x' = Some e -> In e (map fst m) -> kind_of s0 e = Some KDefinition) ->
  fold_idsR (rr_step m) L s = (s', None) ->
  RX s0 s' m /\ kids s' = kids s /\ par s' = par s /\ next s' = next s /\ drefs s' = drefs s /\ kind_of s' = kind_of s /\
  (forall y, ~ In y L -> iref s' y = iref s y) /\ (forall y, In y L -> iref s' y = remap_ref m (iref s y)).
Proof.
  intro U0. induction L as [|x' L IH]; intros s s' X Hnd HL E; cbn [fold_idsR] in E.
  - injection E as <-. split; [exact X|]. repeat split; try reflexivity. intros y [].
  - inversion Hnd as [|? ? Hnx HndL]; subst. destruct (HL x' (or_introl eq_refl)) as [Hx0 [Hkx Hcl]].
    unfold rr_step at 1 in E.
    destruct (iref s x') as [e|] eqn:Hr.
    2:{ cbn [bindR ret] in E. destruct (IH s s' X HndL (fun z Hz => HL z (or_intror Hz)) E) as [X' [A [B [C [D [K [F G]]]]]]].
        split; [exact X'|]. repeat split; try assumption.
        - intros y Hy. apply F. intro H. apply Hy. right. exact H.
        - intros y [<-|Hy]; [rewrite (F x' Hnx), Hr; reflexivity|apply G; exact Hy]. }
    destruct (mget m e) as [e'|] eqn:Hm.
    2:{ cbn [bindR ret] in E. destruct (IH s s' X HndL (fun z Hz => HL z (or_intror Hz)) E) as [X' [A [B [C [D [K [F G]]]]]]].
        split; [exact X'|]. repeat split; try assumption.
        - intros y Hy. apply F. intro H. apply Hy. right. exact H.
        - intros y [<-|Hy]; [rewrite (F x' Hnx), Hr; cbn; rewrite Hm; reflexivity|apply G; exact Hy]. }
    destruct (rekey_all m (set_iref s x' (Some e')) x') as [s1 [err|]] eqn:E1; cbn [bindR] in E; [discriminate|].
    assert (Hke : kind_of s0 e = Some KDefinition) by (apply (Hcl e eq_refl); apply (mget_key m e e' Hm)).
    destruct (remap_step s0 s s1 m x' e e' U0 X Hx0 Hkx Hr Hm Hke E1) as [X1 [I1 [D1 [K1 [P1 [N1 Kd1]]]]]].
    assert (HL1 : forall z, In z L -> next s0 <= z /\ kind_of s1 z = Some KInstance /\
                   forall e0, iref s1 z = Some e0 -> In e0 (map fst m) -> kind_of s0 e0 = Some KDefinition).
    { intros z Hz. destruct (HL z (or_intror Hz)) as [A [B C]]. split; [exact A|]. split; [rewrite Kd1; exact B|].
      intros e0 He0. apply C. rewrite I1 in He0. unfold upd in He0.
      replace (Nat.eqb z x') with false in He0 by (symmetry; apply Nat.eqb_neq; intros ->; apply Hnx; exact Hz). exact He0. }
    destruct (IH s1 s' X1 HndL HL1 E) as [X' [A [B [C [D [K [F G]]]]]]].
    split; [exact X'|]. split; [congruence|]. split; [congruence|]. split; [congruence|]. split; [congruence|]. split; [congruence|]. split.
    { intros y Hy. rewrite F by (intro H; apply Hy; right; exact H). rewrite I1. unfold upd.
      replace (Nat.eqb y x') with false by (symmetry; apply Nat.eqb_neq; intros ->; apply Hy; left; reflexivity). reflexivity. }
    intros y [<-|Hy].
    { rewrite (F x' Hnx), I1, upd_same, Hr. cbn. rewrite Hm. reflexivity. }
    rewrite (G y Hy), I1. unfold upd. replace (Nat.eqb y x') with false by (symmetry; apply Nat.eqb_neq; intros ->; apply Hnx; exact Hy). reflexivity.
Qed.

Lemma rx_set_drefs s0 s m d' l : RX s0 s m -> next s0 <= d' -> RX s0 (set_drefs s d' l) m.
Proof.
  intros [[ST0 A KL T P K Ab Pl Po Pn Rl Nw Dr] DI EXs] Hd. constructor.
  3:{ apply (ex_same s0 s _ m EXs (st_fun _ _ _ ST0)); reflexivity. }
  - constructor.
    + destruct ST0 as [a b c d e f g h i j k l0 n]. constructor; assumption.
    + exact A.
    + exact KL.
    + exact T.
    + apply (invp_same s _ P); [intro q; apply pw_ext; reflexivity|reflexivity].
    + apply (invk_same s _ K); reflexivity || (intro; reflexivity).
    + exact Ab.
    + exact Pl.
    + exact Po.
    + exact Pn.
    + exact Rl.
    + exact Nw.
    + intros y Hy. cbn. unfold upd. replace (Nat.eqb y d') with false by (symmetry; apply Nat.eqb_neq; lia). apply Dr. exact Hy.
  - intros d0 d0' H1 H2. apply (defimg_kids_same s0 d0 d0' s (set_drefs s d' l) m); [reflexivity|apply DI; assumption].
Qed.

Theorem def_rr_spec s0 s s' m d' :
  UF s0 -> RX s0 s m -> next s0 <= d' ->
  (forall x', In x' (kids s RChildren d') -> next s0 <= x' /\
     forall e, iref s x' = Some e -> In e (map fst m) -> kind_of s0 e = Some KDefinition) ->
  def_rr m s d' = (s', None) ->
  RX s0 s' m /\ kids s' = kids s /\ par s' = par s /\ next s' = next s /\ kind_of s' = kind_of s /\
  drefs s' = upd (drefs s) d' (dedup_keep (map (fun r => match mget m r with Some r' => r' | None => r end) (drefs s d'))) /\
  (forall y, ~ In y (kids s RChildren d') -> iref s' y = iref s y) /\
  (forall y, In y (kids s RChildren d') -> iref s' y = remap_ref m (iref s y)).
Proof.
  intros U0 X Hd HL E. unfold def_rr in E.
  set (s1 := set_drefs s d' (dedup_keep (map (fun r => match mget m r with Some r' => r' | None => r end) (drefs s d')))) in *.
  pose proof (rx_set_drefs s0 s m d' _ X Hd : RX s0 s1 m) as X1.
  change (kids s1 RChildren d') with (kids s RChildren d') in E.
  change (fold_idsR (rr_step m) (kids s RChildren d') s1 = (s', None)) in E.
  destruct (remap_fold s0 m U0 (kids s RChildren d') s1 s' X1 (proj2 (ri_1a _ _ _ (rx_ri _ _ _ X) RChildren ltac:(discriminate)) d')) as [X' [A [B [C [D [K [F G]]]]]]]; [|exact E|].
  - intros x' Hx'. destruct (HL x' Hx') as [H1 H2]. split; [exact H1|]. split; [|exact H2].
    apply (ri_t _ _ _ (rx_ri _ _ _ X) RChildren d' x' Hx').
  - split; [exact X'|]. repeat split; assumption.
Qed.
