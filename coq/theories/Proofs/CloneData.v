(* C07, "same names and data": the copy made by Definition.clone carries the user data of the original.
   Phase one (_clone) copies every dictionary and every bundle attribute; the rewiring phases do not
   touch them; the re-applied naming policy at the end of clone() deletes the '.NS' entry of every
   first-class element of the copy and writes it again (so the key moves to the end of the key
   order and takes the definition's policy as its value) - and that is the only difference. *)
From Coq Require Import List Arith Bool Lia ZArith.
From RecordUpdate Require Import RecordSet.
From SV Require Import Base.Base IR.State IR.NS IR.Ops Xform.Clone Proofs.AssocX Proofs.Frame Proofs.Inv1a
  Proofs.InvW Proofs.Fresh Proofs.Refused Proofs.RefusedFull Proofs.NsInv Proofs.CloneFrame Proofs.CloneInv Proofs.CloneRef Proofs.CloneNs
  Proofs.CloneFaith Proofs.CloneFull Proofs.CloneFaithK Proofs.SrcTree Proofs.CloneNetInv Proofs.CloneDefStruct.
Import ListNotations RecordSetNotations.

(* ---- dictionaries as ordered association lists ---- *)
Lemma sassoc_del_absent {B} k (l : list (str * B)) : sassoc k l = None -> sassoc_del k l = l.
Proof.
  induction l as [|[k' v'] l IH]; cbn; [reflexivity|]. destruct (str_eqb k k'); [discriminate|]. intro H. rewrite IH by exact H. reflexivity.
Qed.
Lemma sassoc_del_idem {B} k (l : list (str * B)) : sassoc_del k (sassoc_del k l) = sassoc_del k l.
Proof. apply sassoc_del_absent. apply sassoc_del_same. Qed.
Lemma sassoc_set_idem {B} k (v v' : B) l : sassoc_set k v (sassoc_set k v' l) = sassoc_set k v l.
Proof.
  induction l as [|[k' w] l IH]; cbn; [rewrite str_eqb_refl; reflexivity|].
  destruct (str_eqb k k') eqn:E; cbn; [rewrite str_eqb_refl; reflexivity|]. rewrite E, IH. reflexivity.
Qed.
Lemma sassoc_del_set {B} k (v : B) l : sassoc_del k (sassoc_set k v l) = sassoc_del k l.
Proof.
  induction l as [|[k' w] l IH]; cbn; [rewrite str_eqb_refl; reflexivity|].
  destruct (str_eqb k k') eqn:E; cbn; [rewrite str_eqb_refl; reflexivity|]. rewrite E, IH. reflexivity.
Qed.

(* what the re-applied policy makes of a dictionary: '.NS' removed and appended again with value v *)
Definition renorm (v : val) (l : list (str * val)) : list (str * val) := sassoc_set str_NS v (sassoc_del str_NS l).

Lemma renorm_del v l : sassoc_del str_NS (renorm v l) = sassoc_del str_NS l.
Proof. unfold renorm. rewrite sassoc_del_set. apply sassoc_del_idem. Qed.
Lemma renorm_other v l k : k <> str_NS -> sassoc k (renorm v l) = sassoc k l.
Proof. intro H. unfold renorm. rewrite sassoc_set_other by exact H. apply sassoc_del_other. exact H. Qed.
Lemma renorm_ns v l : sassoc str_NS (renorm v l) = Some v.
Proof. apply sassoc_set_same. Qed.
(* the entries other than '.NS' keep their order: the dictionary is the old one without '.NS', then '.NS' *)
Lemma sassoc_set_absent {B} k (v : B) t : sassoc k t = None -> sassoc_set k v t = t ++ [(k, v)].
Proof.
  induction t as [|[k' w] t IH]; cbn [sassoc sassoc_set app]; [reflexivity|].
  destruct (str_eqb k k'); [discriminate|]. intro H. rewrite IH by exact H. reflexivity.
Qed.
Lemma renorm_order v l : renorm v l = sassoc_del str_NS l ++ [(str_NS, v)].
Proof. unfold renorm. apply sassoc_set_absent. apply sassoc_del_same. Qed.

Lemma pol_of_val_inv v p : pol_of_val v = Some p -> v = VStr (pol_name p).
Proof.
  destruct v as [s| | |]; unfold pol_of_val; try discriminate.
  destruct (str_eqb s str_DEFAULT) eqn:E1; [intro H; injection H as <-; apply str_eqb_spec in E1; subst; reflexivity|].
  destruct (str_eqb s str_EDIF) eqn:E2; [intro H; injection H as <-; apply str_eqb_spec in E2; subst; reflexivity|discriminate].
Qed.

(* ---- a fold that rewrites the dictionary of each visited element with an idempotent function ---- *)
Lemma data_fold_left_idem (f : state -> id -> state) (F : list (str * val) -> list (str * val)) y :
  (forall s a, a <> y -> data (f s a) y = data s y) -> (forall s, data (f s y) y = F (data s y)) -> (forall l, F (F l) = F l) ->
  forall l s, data (fold_left f l s) y = if memb y l then F (data s y) else data s y.
Proof.
  intros Ho Hs Hi. induction l as [|a l IH]; intro s; cbn [fold_left memb]; [reflexivity|].
  rewrite IH. destruct (Nat.eqb_spec y a) as [<-|Hne]; cbn [orb].
  - rewrite Hs, Hi. destruct (memb y l); reflexivity.
  - rewrite Ho by (intro; apply Hne; symmetry; assumption). reflexivity.
Qed.

Lemma drop_namespace_data_in s e y : y <> e ->
  data (drop_namespace s e) y = if memb y (subtree s e) then sassoc_del str_NS (data s y) else data s y.
Proof.
  intro Hy. unfold drop_namespace. apply data_fold_left_idem.
  - intros s0 a Ha. destruct (_ && _); cbn; [unfold upd; replace (Nat.eqb y a) with false by (symmetry; apply Nat.eqb_neq; congruence)|]; reflexivity.
  - intro s0. replace (Nat.eqb y e) with false by (symmetry; apply Nat.eqb_neq; exact Hy). cbn [negb andb].
    unfold has_key. change (data (set_nstab s0 y None)) with (data s0).
    destruct (sassoc str_NS (data s0 y)) eqn:E; cbn -[str_NS]; [rewrite upd_same; reflexivity|]. rewrite sassoc_del_absent by exact E. reflexivity.
  - intro l. apply sassoc_del_idem.
Qed.

Lemma apply_namespace_data_in p s e y :
  data (apply_namespace p s e) y = if memb y (subtree s e) then sassoc_set str_NS (VStr (pol_name p)) (data s y) else data s y.
Proof.
  unfold apply_namespace. apply data_fold_left_idem.
  - intros s0 a Ha. destruct (fresh_table _ _ a); cbn; unfold upd; replace (Nat.eqb y a) with false by (symmetry; apply Nat.eqb_neq; congruence); reflexivity.
  - intro s0. destruct (fresh_table _ _ y); cbn; rewrite upd_same; reflexivity.
  - intro l. apply sassoc_set_idem.
Qed.

Lemma subtree_ext s s' e : kids s' = kids s -> kind_of s' = kind_of s -> subtree s' e = subtree s e.
Proof. intros Hk Hkd. unfold subtree, net_subtree, lib_subtree, def_subtree. rewrite Hk, Hkd. reflexivity. Qed.

Lemma dict_del_ns_root s c v : ns_parent s c = None -> sassoc str_NS (data s c) = Some v ->
  dict_del s c str_NS = ret (data_erase (emit (drop_namespace s c) (EDictDel c str_NS)) c str_NS).
Proof.
  intros Hpar Ev. unfold dict_del, ns_dictionary_delete. rewrite str_eqb_refl, Hpar. unfold has_key. rewrite Ev. cbn [bindR ret].
  change (data (emit (drop_namespace s c) (EDictDel c str_NS))) with (data (drop_namespace s c)).
  rewrite drop_namespace_own_data, Ev. reflexivity.
Qed.

(* FirstClassElement._reapply_naming_policy on a parentless root *)
Lemma reapply_data s c : ns_parent s c = None -> snd (reapply s c) = None ->
  forall y, data (fst (reapply s c)) y =
    match sassoc str_NS (data s c) with
    | Some v => if memb y (subtree s c) then renorm v (data s y) else data s y
    | None => data s y
    end.
Proof.
  intros Hpar. unfold reapply. destruct (sassoc str_NS (data s c)) as [v|] eqn:Ev; [|intros _ y; reflexivity].
  rewrite (dict_del_ns_root s c v Hpar Ev). cbn [bindR ret].
  set (sa := drop_namespace s c).
  assert (Hown : data sa c = data s c) by apply drop_namespace_own_data.
  set (sD := data_erase (emit sa (EDictDel c str_NS)) c str_NS).
  assert (Hse : struct_eq s sD).
  { eapply struct_eq_trans; [apply se_drop_namespace|]. eapply struct_eq_trans; [apply se_emit|apply se_data_erase]. }
  assert (HD : forall y, data sD y = if memb y (subtree s c) then sassoc_del str_NS (data s y) else data s y).
  { intro y. unfold sD. cbn -[str_NS]. unfold upd. destruct (Nat.eqb_spec y c) as [->|Hne].
    - rewrite Hown. rewrite (proj2 (memb_In c (subtree s c)) (subtree_head s c)). reflexivity.
    - apply drop_namespace_data_in. exact Hne. }
  unfold dict_set, ns_dictionary_set. rewrite str_eqb_refl.
  assert (Hnone : sassoc str_NS (data sD c) = None).
  { rewrite HD, (proj2 (memb_In c (subtree s c)) (subtree_head s c)). apply sassoc_del_same. }
  rewrite Hnone.
  assert (HparD : ns_parent sD c = None) by (unfold ns_parent in *; rewrite (se_kind _ _ Hse), (se_par _ _ Hse); exact Hpar).
  rewrite HparD. destruct (pol_of_val v) as [p|] eqn:Ep; [|cbn; discriminate].
  destruct (is_compliant p sD c); [|cbn; discriminate]. cbn [bindR ret fst snd]. intros _ y.
  pose proof (pol_of_val_inv v p Ep) as Hv.
  assert (Hsub : subtree sD c = subtree s c) by (apply subtree_ext; [apply (se_kids _ _ Hse)|apply (se_kind _ _ Hse)]).
  cbn -[str_NS]. unfold upd. rewrite !apply_namespace_data_in, !Hsub, !HD.
  destruct (Nat.eqb_spec y c) as [->|Hne].
  - rewrite (proj2 (memb_In c (subtree s c)) (subtree_head s c)). unfold renorm. rewrite sassoc_set_idem. reflexivity.
  - destruct (memb y (subtree s c)); [rewrite Hv; reflexivity|reflexivity].
Qed.

(* ---- the attributes the copy must carry ---- *)
Definition bflags (s : state) (y : id) : bool * bool * Z * dir := (bdownto s y, bscalar s y, blower s y, pdir s y).
Definition attrs (s : state) (y : id) : option kind * list (str * val) * (bool * bool * Z * dir) :=
  (kind_of s y, data s y, bflags s y).

Lemma attrs_data s s' y : attrs s' y = attrs s y -> data s' y = data s y.
Proof. intro H. apply (f_equal (fun t => snd (fst t))) in H. exact H. Qed.
Lemma attrs_kind s s' y : attrs s' y = attrs s y -> kind_of s' y = kind_of s y.
Proof. intro H. apply (f_equal (fun t => fst (fst t))) in H. exact H. Qed.
Lemma attrs_flags s s' y : attrs s' y = attrs s y -> bflags s' y = bflags s y.
Proof. intro H. apply (f_equal snd) in H. exact H. Qed.

Lemma attrs_eq3 s y k d f : attrs s y = (k, d, f) -> kind_of s y = k /\ data s y = d /\ bflags s y = f.
Proof.
  intro H. split; [apply (f_equal (fun t => fst (fst t))) in H; exact H|].
  split; [apply (f_equal (fun t => snd (fst t))) in H; exact H|apply (f_equal snd) in H; exact H].
Qed.

(* everything below a bound keeps its attributes *)
Definition LB (a : id) (s s' : state) : Prop := forall y, y < a -> attrs s' y = attrs s y.
Lemma lb_refl a s : LB a s s. Proof. intros y _. reflexivity. Qed.
Lemma lb_trans a x y z : LB a x y -> LB a y z -> LB a x z.
Proof. intros H1 H2 q Hq. rewrite H2, H1 by exact Hq. reflexivity. Qed.
Lemma lb_mono a b s s' : b <= a -> LB a s s' -> LB b s s'.
Proof. intros H L y Hy. apply L. lia. Qed.

(* writes that leave kinds, dictionaries and bundle attributes alone *)
Definition qsame (s s' : state) : Prop := (forall y, attrs s' y = attrs s y) /\ next s' = next s.
Lemma qs_refl s : qsame s s. Proof. split; reflexivity. Qed.
Lemma qs_trans a b c : qsame a b -> qsame b c -> qsame a c.
Proof. intros [A1 A2] [B1 B2]. split; [intro y; rewrite B1; apply A1|congruence]. Qed.
Lemma qs_fields s s' : kind_of s' = kind_of s -> data s' = data s -> bdownto s' = bdownto s -> bscalar s' = bscalar s ->
  blower s' = blower s -> pdir s' = pdir s -> next s' = next s -> qsame s s'.
Proof. intros A B C D E F G. split; [|exact G]. intro y. unfold attrs, bflags. rewrite A, B, C, D, E, F. reflexivity. Qed.
Lemma qs_bind (r : R) f s : qsame s (fst r) -> (forall s1, qsame s1 (fst (f s1))) -> qsame s (fst (r >>= f)).
Proof. destruct r as [s1 [x|]]; cbn; intros H1 H2; [exact H1|]. eapply qs_trans; [exact H1|apply H2]. Qed.
Lemma qs_fold_idsR f l : (forall s x, qsame s (fst (f s x))) -> forall s, qsame s (fst (fold_idsR f l s)).
Proof. intro H. induction l as [|x l IH]; intro s; cbn; [apply qs_refl|]. apply qs_bind; [apply H|apply IH]. Qed.
Lemma qs_fold_ids f l : (forall s x, qsame s (f s x)) -> forall s, qsame s (fold_ids f l s).
Proof. intro H. induction l as [|x l IH]; intro s; cbn; [apply qs_refl|]. eapply qs_trans; [apply H|apply IH]. Qed.
Lemma qs_lb a s s' : qsame s s' -> LB a s s'.
Proof. intros [H _] y _. apply H. Qed.

Ltac qs_triv := apply qs_fields; reflexivity.
Lemma qs_port_rr m s p : qsame s (fst (port_rr m s p)).
Proof. unfold port_rr. apply qs_fold_idsR. intros s1 i. destruct (mwire m (ipwire s1 i)); qs_triv. Qed.
Lemma qs_cable_rr m s c : qsame s (fst (cable_rr m s c)).
Proof. unfold cable_rr. apply qs_fold_idsR. intros s1 w. destruct (map_opt _ _); qs_triv. Qed.
Lemma qs_inst_rr_def m s x : qsame s (fst (inst_rr_def m s x)).
Proof. unfold inst_rr_def. destruct (map_opt _ _); qs_triv. Qed.
Lemma qs_register_child s x : qsame s (fst (register_child s x)).
Proof. unfold register_child. destruct (iref s x); qs_triv. Qed.
Lemma qs_fold_set_par r p l : forall s, qsame s (fold_ids (fun s i => set_par s r i p) l s).
Proof. apply qs_fold_ids. intros s x. qs_triv. Qed.

(* allocation of one element of the copy *)
Lemma clone_alloc_attrs s k s1 x : clone_alloc s k = (s1, x) -> (is_container k = false \/ Above s) ->
  x = next s /\ next s1 = S (next s) /\ LB (next s) s s1 /\ kind_of s1 x = Some k /\ bflags s1 x = bflags s x.
Proof.
  intros Ea Hc. destruct (clone_alloc_kp s k s1 x Ea) as [Hx [Hn _]].
  pose proof (km_clone_alloc s k) as [_ Hk]. rewrite Ea in Hk. cbn [fst] in Hk.
  pose proof (clone_alloc_data _ _ _ _ Ea Hc) as Hd.
  assert (Hrest : kind_of s1 x = Some k /\ bdownto s1 = bdownto s /\ bscalar s1 = bscalar s /\ blower s1 = blower s /\ pdir s1 = pdir s).
  { revert Ea. unfold clone_alloc, alloc. cbn zeta.
    set (sa := s <| next := S (next s) |> <| kind_of ::= fun f => upd f (next s) (Some k) |>).
    destruct (has_data k); intro E; injection E as <- <-.
    - pose proof (se_ns_create sa (next s)) as H. cbn -[ns_create].
      rewrite (se_kind _ _ H), (se_bdownto _ _ H), (se_bscalar _ _ H), (se_blower _ _ H), (se_pdir _ _ H).
      cbn. rewrite upd_same. repeat split; reflexivity.
    - cbn. rewrite upd_same. repeat split; reflexivity. }
  destruct Hrest as [Hkx [B1 [B2 [B3 B4]]]].
  split; [exact Hx|]. split; [exact Hn|]. split; [|split; [exact Hkx|unfold bflags; rewrite B1, B2, B3, B4; reflexivity]].
  intros y Hy. unfold attrs, bflags. rewrite (Hk y Hy), (Hd y ltac:(lia)), B1, B2, B3, B4. reflexivity.
Qed.

(* a pair of the memo: the new object carries the dictionary (first-class kinds) and the bundle
   attributes (ports, cables) of the source *)
Definition PairOK (s0 s : state) (a b : id) : Prop :=
  forall k, kind_of s b = Some k ->
    (has_data k = true -> data s b = data s0 a) /\ ((k = KPort \/ k = KCable) -> bflags s b = bflags s0 a).

Lemma pairok_attrs s0 s s' a b : attrs s' b = attrs s b -> PairOK s0 s a b -> PairOK s0 s' a b.
Proof.
  intros E H k Hk. rewrite (attrs_kind _ _ _ E) in Hk. destruct (H k Hk) as [A B].
  split; [intro Hd; rewrite (attrs_data _ _ _ E); apply A; exact Hd|intro Hp; rewrite (attrs_flags _ _ _ E); apply B; exact Hp].
Qed.

Definition DD (n0 : id) (s0 s : state) (lo : id) (m : memo) : Prop :=
  forall a b, In (a, b) m -> lo <= b /\ b < next s /\ (a < n0 -> PairOK s0 s a b).

Lemma dd_keep n0 s0 s s' lo m : DD n0 s0 s lo m -> (forall b, lo <= b -> b < next s -> attrs s' b = attrs s b) -> next s <= next s' ->
  DD n0 s0 s' lo m.
Proof.
  intros H Ha Hn a b Hab. destruct (H a b Hab) as [A [B C]]. split; [exact A|]. split; [lia|].
  intro Hlt. apply (pairok_attrs s0 s s' a b (Ha b A B) (C Hlt)).
Qed.
Lemma dd_lo n0 s0 s lo lo' m : lo' <= lo -> DD n0 s0 s lo m -> DD n0 s0 s lo' m.
Proof. intros Hl H a b Hab. destruct (H a b Hab) as [A [B C]]. split; [lia|]. split; assumption. Qed.
Lemma dd_app n0 s0 s lo m1 m2 : DD n0 s0 s lo m1 -> DD n0 s0 s lo m2 -> DD n0 s0 s lo (m1 ++ m2).
Proof. intros H1 H2 a b Hab. apply in_app_or in Hab as [H|H]; [apply H1|apply H2]; exact H. Qed.

(* one element-level _clone: what was allocated before is untouched, the new pairs are correct *)
Definition NP (f : SM -> id -> SM * id) : Prop :=
  forall n0 s0 s m x s' m' x', n0 <= next s -> LB n0 s0 s -> f (s, m) x = ((s', m'), x') ->
    LB (next s) s s' /\ next s <= next s' /\ exists mn, m' = mn ++ m /\ DD n0 s0 s' (next s) mn.

Lemma np_clone_each f : NP f -> forall l n0 s0 s m s' m' l', n0 <= next s -> LB n0 s0 s -> clone_each f l (s, m) = ((s', m'), l') ->
  LB (next s) s s' /\ next s <= next s' /\ exists mn, m' = mn ++ m /\ DD n0 s0 s' (next s) mn.
Proof.
  intro Hf. induction l as [|x l IH]; intros n0 s0 s m s' m' l' Hn L E; cbn [clone_each] in E.
  - injection E as <- <- <-. split; [apply lb_refl|]. split; [apply Nat.le_refl|]. exists []. split; [reflexivity|intros a b []].
  - destruct (f (s, m) x) as [[s1 m1] x'] eqn:E1. destruct (clone_each f l (s1, m1)) as [[s2 m2] l2] eqn:E2.
    injection E as <- <- <-. destruct (Hf n0 s0 s m x s1 m1 x' Hn L E1) as [L1 [N1 [mn1 [-> D1]]]].
    assert (L01 : LB n0 s0 s1) by (eapply lb_trans; [exact L|apply (lb_mono (next s)); [exact Hn|exact L1]]).
    destruct (IH n0 s0 s1 (mn1 ++ m) s2 m2 l2 ltac:(lia) L01 E2) as [L2 [N2 [mn2 [-> D2]]]].
    split; [eapply lb_trans; [exact L1|apply (lb_mono (next s1)); [exact N1|exact L2]]|]. split; [lia|].
    exists (mn2 ++ mn1). split; [apply app_assoc|]. apply dd_app.
    + apply (dd_lo n0 s0 s2 (next s1)); [exact N1|exact D2].
    + apply (dd_keep n0 s0 s1 s2 (next s) mn1 D1); [|exact N2]. intros b _ Hb. apply L2. exact Hb.
Qed.

Lemma np_pin_clone1 : NP pin_clone1.
Proof.
  intros n0 s0 s m i s' m' i' Hn L E. unfold pin_clone1 in E. destruct (clone_alloc s KPin) as [s1 x] eqn:Ea.
  destruct (clone_alloc_attrs s KPin s1 x Ea (or_introl eq_refl)) as [Hx [Hn1 [L1 [Hk _]]]].
  injection E as <- <- <-.
  assert (Q : qsame s1 (set_ipwire s1 x (ipwire s1 i))) by qs_triv.
  split; [eapply lb_trans; [exact L1|apply qs_lb; exact Q]|]. split; [cbn; lia|].
  exists [(i, x)]. split; [reflexivity|]. intros a b [H|[]]. injection H as <- <-. split; [lia|]. split; [cbn; lia|].
  intros _ k Hkb. cbn in Hkb. rewrite Hk in Hkb. injection Hkb as <-. split; [discriminate|intros [H|H]; discriminate].
Qed.

Lemma np_wire_clone1 : NP wire_clone1.
Proof.
  intros n0 s0 s m i s' m' i' Hn L E. unfold wire_clone1 in E. destruct (clone_alloc s KWire) as [s1 x] eqn:Ea.
  destruct (clone_alloc_attrs s KWire s1 x Ea (or_introl eq_refl)) as [Hx [Hn1 [L1 [Hk _]]]].
  injection E as <- <- <-.
  assert (Q : qsame s1 (set_wpins s1 x (wpins s1 i))) by qs_triv.
  split; [eapply lb_trans; [exact L1|apply qs_lb; exact Q]|]. split; [cbn; lia|].
  exists [(i, x)]. split; [reflexivity|]. intros a b [H|[]]. injection H as <- <-. split; [lia|]. split; [cbn; lia|].
  intros _ k Hkb. cbn in Hkb. rewrite Hk in Hkb. injection Hkb as <-. split; [discriminate|intros [H|H]; discriminate].
Qed.

(* attributes after the deep copy of the dictionary and of the bundle attributes *)
Lemma attrs_copy_data s a x y : attrs (copy_data s a x) y = if Nat.eqb y x then (kind_of s x, data s a, bflags s x) else attrs s y.
Proof. unfold attrs, bflags, copy_data. cbn. unfold upd. destruct (Nat.eqb y x) eqn:E; [apply Nat.eqb_eq in E; subst y|]; reflexivity. Qed.
Lemma attrs_copy_bundle s a x y : attrs (copy_bundle s a x) y = if Nat.eqb y x then (kind_of s x, data s x, bflags s a) else attrs s y.
Proof. unfold attrs, bflags, copy_bundle. cbn. unfold upd. destruct (Nat.eqb y x) eqn:E; [apply Nat.eqb_eq in E; subst y|]; reflexivity. Qed.

Lemma np_inst_clone1 : NP inst_clone1.
Proof.
  intros n0 s0 s m i s' m' i' Hn L E. unfold inst_clone1 in E. destruct (clone_alloc s KInstance) as [s1 x] eqn:Ea.
  destruct (clone_alloc_attrs s KInstance s1 x Ea (or_introl eq_refl)) as [Hx [Hn1 [L1 [Hk _]]]].
  injection E as <- <- <-.
  set (s2 := set_iref (set_ipins s1 x (ipins s1 i)) x (iref s1 i)).
  assert (Q : qsame s1 s2) by qs_triv. destruct Q as [Q _].
  split; [|split; [cbn; lia|]].
  - intros y Hy. rewrite attrs_copy_data. replace (Nat.eqb y x) with false by (symmetry; apply Nat.eqb_neq; lia).
    rewrite Q. apply L1. exact Hy.
  - exists [(i, x)]. split; [reflexivity|]. intros a b [H|[]]. injection H as <- <-. split; [lia|]. split; [cbn; lia|].
    intros Hi k Hkb. change (kind_of (copy_data s2 i x) x) with (kind_of s1 x) in Hkb. rewrite Hk in Hkb. injection Hkb as <-.
    split; [|intros [H|H]; discriminate]. intros _.
    pose proof (attrs_copy_data s2 i x x) as H. rewrite Nat.eqb_refl in H. apply attrs_eq3 in H as [_ [H _]]. rewrite H.
    rewrite (attrs_data _ _ _ (Q i)), (attrs_data _ _ _ (L1 i ltac:(lia))). apply (attrs_data _ _ _ (L i Hi)).
Qed.

(* Port._clone and Cable._clone: the same code shape over pins / wires *)
Lemma np_bundle (g : SM -> id -> SM * id) (r : rel) (k : kind) (f : SM -> id -> SM * id) :
  NP g -> is_container k = false -> (k = KPort \/ k = KCable) ->
  (forall sm p, f sm p =
     let '(s, m) := sm in
     let '(s1, p') := clone_alloc s k in
     let '((s2, m2), items') := clone_each g (kids s1 r p) (s1, (p, p') :: m) in
     let s3 := set_kids s2 r p' items' in
     let s4 := fold_ids (fun s i' => set_par s r i' (Some p')) items' s3 in
     ((copy_data (copy_bundle s4 p p') p p', m2), p')) ->
  NP f.
Proof.
  intros Hg Hc Hpk Hf n0 s0 s m p s' m' p' Hn L E. rewrite Hf in E. destruct (clone_alloc s k) as [s1 x] eqn:Ea.
  destruct (clone_alloc_attrs s k s1 x Ea (or_introl Hc)) as [Hx [Hn1 [L1 [Hk _]]]].
  destruct (clone_each g (kids s1 r p) (s1, (p, x) :: m)) as [[s2 m2] items] eqn:Ee.
  assert (L01 : LB n0 s0 s1) by (eapply lb_trans; [exact L|apply (lb_mono (next s)); [exact Hn|exact L1]]).
  destruct (np_clone_each g Hg _ n0 s0 s1 _ s2 m2 items ltac:(lia) L01 Ee) as [L2 [N2 [mn [-> D2]]]].
  injection E as <- <- <-.
  set (s4 := fold_ids (fun s i' => set_par s r i' (Some x)) items (set_kids s2 r x items)).
  assert (Q : qsame s2 s4) by (eapply qs_trans; [|apply qs_fold_set_par]; qs_triv). destruct Q as [Q Qn].
  assert (HA : forall y, attrs (copy_data (copy_bundle s4 p x) p x) y =
                         if Nat.eqb y x then (kind_of s2 x, data s2 p, bflags s2 p) else attrs s2 y).
  { intro y. rewrite attrs_copy_data, attrs_copy_bundle. destruct (Nat.eqb y x); [|apply Q].
    change (kind_of (copy_bundle s4 p x) x) with (kind_of s4 x). change (data (copy_bundle s4 p x) p) with (data s4 p).
    rewrite (attrs_kind _ _ _ (Q x)), (attrs_data _ _ _ (Q p)).
    assert (Hb : bflags (copy_bundle s4 p x) x = bflags s4 p).
    { pose proof (attrs_copy_bundle s4 p x x) as H. rewrite Nat.eqb_refl in H. apply attrs_eq3 in H as [_ [_ H]]. exact H. }
    rewrite Hb, (attrs_flags _ _ _ (Q p)). reflexivity. }
  assert (HnF : next (copy_data (copy_bundle s4 p x) p x) = next s2) by exact Qn.
  split; [|split; [rewrite HnF; lia|]].
  - intros y Hy. rewrite HA. replace (Nat.eqb y x) with false by (symmetry; apply Nat.eqb_neq; lia).
    rewrite (L2 y ltac:(lia)). apply L1. exact Hy.
  - exists (mn ++ [(p, x)]). split; [rewrite <- app_assoc; reflexivity|]. apply dd_app.
    + apply (dd_lo n0 s0 _ (next s1)); [lia|]. apply (dd_keep n0 s0 s2 _ (next s1) mn D2); [|rewrite HnF; apply Nat.le_refl].
      intros b Hb _. rewrite HA. replace (Nat.eqb b x) with false by (symmetry; apply Nat.eqb_neq; lia). reflexivity.
    + intros a b [H|[]]. injection H as <- <-. split; [lia|]. split; [rewrite HnF; lia|].
      intros Hp k0 Hkb. pose proof (HA x) as Hax. rewrite Nat.eqb_refl in Hax.
      rewrite (attrs_kind _ _ _ (L2 x ltac:(lia))) in Hax.
      assert (Hp1 : p < next s1) by lia.
      rewrite (attrs_data _ _ _ (L2 p Hp1)), (attrs_data _ _ _ (L1 p ltac:(lia))), (attrs_data _ _ _ (L p Hp)) in Hax.
      rewrite (attrs_flags _ _ _ (L2 p Hp1)), (attrs_flags _ _ _ (L1 p ltac:(lia))), (attrs_flags _ _ _ (L p Hp)) in Hax.
      apply attrs_eq3 in Hax as [A1 [A2 A3]]. rewrite A1, Hk in Hkb. injection Hkb as <-.
      split; [intros _; exact A2|intros _; exact A3].
Qed.

Lemma np_port_clone1 : NP port_clone1.
Proof. apply (np_bundle pin_clone1 RPins KPort); [exact np_pin_clone1|reflexivity|left; reflexivity|]. intros [s m] p. reflexivity. Qed.
Lemma np_cable_clone1 : NP cable_clone1.
Proof. apply (np_bundle wire_clone1 RWires KCable); [exact np_wire_clone1|reflexivity|right; reflexivity|]. intros [s m] p. reflexivity. Qed.

(* Definition._clone *)
Lemma def_clone1_dd n0 s0 s m d s' m' d' e :
  Above s -> n0 <= next s -> LB n0 s0 s -> def_clone1 (s, m) d = ((s', m', d'), e) ->
  LB (next s) s s' /\ next s <= next s' /\ exists mn, m' = mn ++ m /\ DD n0 s0 s' (next s) mn.
Proof.
  intros Hab Hn L E. unfold def_clone1 in E. destruct (clone_alloc s KDefinition) as [s1 x] eqn:Ea.
  destruct (clone_alloc_attrs s KDefinition s1 x Ea (or_intror Hab)) as [Hx [Hn1 [L1 [Hk _]]]].
  set (s1c := copy_data s1 d x) in E.
  assert (L1c : LB (next s) s s1c).
  { intros y Hy. unfold s1c. rewrite attrs_copy_data. replace (Nat.eqb y x) with false by (symmetry; apply Nat.eqb_neq; lia). apply L1. exact Hy. }
  assert (Hn1c : next s1c = S (next s)) by exact Hn1.
  assert (L01 : LB n0 s0 s1c) by (eapply lb_trans; [exact L|apply (lb_mono (next s)); [exact Hn|exact L1c]]).
  match type of E with context [clone_each port_clone1 ?l ?sm] => destruct (clone_each port_clone1 l sm) as [[s2 m2] ports'] eqn:E2 end.
  match type of E with context [clone_each cable_clone1 ?l ?sm] => destruct (clone_each cable_clone1 l sm) as [[s3 m3] cables'] eqn:E3 end.
  match type of E with context [clone_each inst_clone1 ?l ?sm] => destruct (clone_each inst_clone1 l sm) as [[s4 m4] children'] eqn:E4 end.
  destruct (np_clone_each port_clone1 np_port_clone1 _ n0 s0 s1c _ s2 m2 ports' ltac:(lia) L01 E2) as [L2 [N2 [mn2 [-> D2]]]].
  assert (L02 : LB n0 s0 s2) by (eapply lb_trans; [exact L01|apply (lb_mono (next s1c)); [lia|exact L2]]).
  destruct (np_clone_each cable_clone1 np_cable_clone1 _ n0 s0 s2 _ s3 m3 cables' ltac:(lia) L02 E3) as [L3 [N3 [mn3 [-> D3]]]].
  assert (L03 : LB n0 s0 s3) by (eapply lb_trans; [exact L02|apply (lb_mono (next s2)); [lia|exact L3]]).
  destruct (np_clone_each inst_clone1 np_inst_clone1 _ n0 s0 s3 _ s4 m4 children' ltac:(lia) L03 E4) as [L4 [N4 [mn4 [-> D4]]]].
  injection E as <- <- _ _.
  match goal with |- context [fst ?rr] => assert (Q : qsame s4 (fst rr)) end.
  { eapply qs_trans; [|apply qs_bind; [apply qs_fold_idsR; intros s6 p'; eapply qs_trans; [|apply qs_port_rr]; qs_triv|]].
    - qs_triv.
    - intro s6. apply qs_bind; [apply qs_fold_idsR; intros s7 c'; eapply qs_trans; [|apply qs_cable_rr]; qs_triv|].
      intro s7. apply qs_fold_idsR. intros s8 x'. eapply qs_trans; [|apply qs_inst_rr_def]. qs_triv. }
  destruct Q as [Q Qn].
  match goal with |- context [fst ?rr] => set (sF := fst rr) in * end.
  assert (A12 : LB (next s1c) s1c s4).
  { eapply lb_trans; [exact L2|]. apply (lb_mono (next s2)); [exact N2|]. eapply lb_trans; [exact L3|]. apply (lb_mono (next s3)); [exact N3|exact L4]. }
  split; [|split; [rewrite Qn; lia|]].
  - intros y Hy. rewrite Q. rewrite (A12 y ltac:(lia)). apply L1c. exact Hy.
  - exists (mn4 ++ mn3 ++ mn2 ++ [(d, x)]). split; [rewrite <- !app_assoc; reflexivity|].
    assert (KF : forall lo mm sX, lo <= next sX -> next sX <= next s4 -> LB (next sX) sX s4 -> DD n0 s0 sX lo mm -> DD n0 s0 sF lo mm).
    { intros lo mm sX H1 H2 LX DX. apply (dd_keep n0 s0 sX sF lo mm DX); [|rewrite Qn; exact H2].
      intros b _ Hb. rewrite Q. apply LX. exact Hb. }
    apply dd_app; [|apply dd_app; [|apply dd_app]].
    + apply (dd_lo n0 s0 sF (next s3)); [lia|]. apply (KF _ _ s4); [lia|lia|apply lb_refl|exact D4].
    + apply (dd_lo n0 s0 sF (next s2)); [lia|]. apply (KF _ _ s3); [lia|lia|exact L4|exact D3].
    + apply (dd_lo n0 s0 sF (next s1c)); [lia|]. apply (KF _ _ s2); [lia|lia| |exact D2].
      eapply lb_trans; [exact L3|apply (lb_mono (next s3)); [exact N3|exact L4]].
    + intros a b [H|[]]. injection H as <- <-. split; [lia|]. split; [rewrite Qn; lia|].
      intros Hd k0 Hkb. rewrite (attrs_kind _ _ _ (Q x)), (attrs_kind _ _ _ (A12 x ltac:(lia))) in Hkb.
      change (kind_of s1c x) with (kind_of s1 x) in Hkb. rewrite Hk in Hkb. injection Hkb as <-.
      split; [|intros [H|H]; discriminate]. intros _.
      rewrite (attrs_data _ _ _ (Q x)), (attrs_data _ _ _ (A12 x ltac:(lia))).
      pose proof (attrs_copy_data s1 d x x) as H. rewrite Nat.eqb_refl in H. apply attrs_eq3 in H as [_ [H _]]. fold s1c in H. rewrite H.
      rewrite (attrs_data _ _ _ (L1 d ltac:(lia))). apply (attrs_data _ _ _ (L d Hd)).
Qed.

(* ---- Definition.clone ---- *)
Lemma se_reapply s c : struct_eq s (fst (reapply s c)).
Proof.
  unfold reapply. destruct (sassoc str_NS (data s c)); [|apply struct_eq_refl].
  apply se_bind; [apply se_dict_del|intro s1; apply se_dict_set].
Qed.

Lemma Forall2_in_l {A B} (R : A -> B -> Prop) l l' a : Forall2 R l l' -> In a l -> exists b, In b l' /\ R a b.
Proof.
  intro H. induction H as [|x y l l' Hxy _ IH]; intros Hin; [destruct Hin|].
  destruct Hin as [<-|Hin]; [exists y; split; [left; reflexivity|exact Hxy]|].
  destruct (IH Hin) as [b [Hb Hr]]. exists b. split; [right; exact Hb|exact Hr].
Qed.

(* the dictionary of a copied element: the source's, with the policy entry re-applied if the
   definition carries one *)
Definition cdict (s0 : state) (d : id) (l : list (str * val)) : list (str * val) :=
  match sassoc str_NS (data s0 d) with Some v => renorm v l | None => l end.

Record DefData (s0 : state) (d : id) (sF : state) (M : memo) : Prop := mkDefData {
  dd_data : forall a b k, In (a, b) M -> kind_of s0 a = Some k -> has_data k = true -> data sF b = cdict s0 d (data s0 a);
  dd_flags : forall a b, In (a, b) M -> (kind_of s0 a = Some KPort \/ kind_of s0 a = Some KCable) -> bflags sF b = bflags s0 a
}.

Theorem clone_definition_data s0 d :
  UF s0 -> d < next s0 -> kind_of s0 d = Some KDefinition -> snd (fst (clone_definition s0 d)) = None ->
  DefData s0 d (fst (fst (clone_definition s0 d))) (clone_memo s0 d).
Proof.
  intros U0 Hd Hkd Hc. pose proof (clone_definition_struct_m s0 d U0 Hd Hkd Hc) as S.
  pose proof U0 as [I0 [T0 [F0 [FT0 K0]]]]. pose proof (inv_a _ I0) as I1. pose proof (above_of_fresh s0 F0) as Ab.
  revert S Hc. unfold clone_definition, clone_memo.
  destruct (def_clone1 (s0, []) d) as [[[G M] d'] [ex|]] eqn:E; cbn [fst snd]; [intros _ H; discriminate|].
  destruct (def_clone1_dd (next s0) s0 s0 [] d G M d' None Ab (Nat.le_refl _) (lb_refl _ _) E) as [_ [_ [mn [EM D]]]].
  rewrite app_nil_r in EM. subst mn.
  destruct (fold_idsR register_child (kids G RChildren d') G) as [s2 [e|]] eqn:Ef; cbn [bindR fst snd]; [intros _ H; discriminate|].
  pose proof (qs_fold_idsR register_child (kids G RChildren d') qs_register_child G) as Q2. rewrite Ef in Q2. cbn [fst] in Q2.
  set (sB := set_drefs s2 d' []).
  assert (QB : qsame G sB) by (eapply qs_trans; [exact Q2|qs_triv]). destruct QB as [QB _].
  pose proof (se_reapply sB d') as Hse. set (sF := fst (reapply sB d')) in *.
  intros S Hc.
  assert (HkF : forall y, kind_of sF y = kind_of G y) by (intro y; rewrite (se_kind _ _ Hse); apply (attrs_kind _ _ _ (QB y))).
  assert (Hkd' : kind_of sB d' = Some KDefinition).
  { rewrite <- (se_kind _ _ Hse). destruct (ds_rng _ _ _ _ _ S d d' (ds_root _ _ _ _ _ S)) as [_ [_ H]]. rewrite H. exact Hkd. }
  assert (Hpar : ns_parent sB d' = None).
  { unfold ns_parent. rewrite Hkd'. rewrite <- (se_par _ _ Hse). apply (ds_detached _ _ _ _ _ S). }
  pose proof (reapply_data sB d' Hpar Hc) as HR. fold sF in HR.
  assert (Hpair : forall a b, In (a, b) M -> PairOK s0 G a b).
  { intros a b Hab. destruct (D a b Hab) as [_ [_ H]]. apply H. apply (ds_rng _ _ _ _ _ S a b Hab). }
  assert (HdG : data sB d' = data s0 d).
  { rewrite (attrs_data _ _ _ (QB d')). apply (Hpair d d' (ds_root _ _ _ _ _ S) KDefinition); [|reflexivity].
    rewrite <- HkF. destruct (ds_rng _ _ _ _ _ S d d' (ds_root _ _ _ _ _ S)) as [_ [_ H]]. rewrite H. exact Hkd. }
  constructor.
  - intros a b k Hab Hka Hhd.
    assert (HkG : kind_of G b = Some k) by (rewrite <- HkF; destruct (ds_rng _ _ _ _ _ S a b Hab) as [_ [_ H]]; rewrite H; exact Hka).
    assert (HG : data sB b = data s0 a) by (rewrite (attrs_data _ _ _ (QB b)); apply (Hpair a b Hab k HkG); exact Hhd).
    rewrite HR, HdG. unfold cdict. destruct (sassoc str_NS (data s0 d)) as [v|]; [|exact HG].
    assert (Hin : In b (subtree sB d')).
    { unfold subtree. rewrite Hkd'. unfold def_subtree. rewrite <- !(se_kids _ _ Hse).
      pose proof (ds_dom _ _ _ _ _ S a b Hab) as Ha. apply (def_objects_cases s0 d a) in Ha as [->|[[q [Hq [->|Hy]]]|[[q [Hq [->|Hy]]]|Hy]]].
      - left. apply (memo_fun M d d' b (ds_fun _ _ _ _ _ S)); [apply (ds_root _ _ _ _ _ S)|exact Hab].
      - right. apply in_or_app. left. destruct (Forall2_in_l _ _ _ q (ds_ports _ _ _ _ _ S) Hq) as [b' [Hb' Hi]].
        rewrite (memo_fun M q b b' (ds_fun _ _ _ _ _ S) Hab Hi). exact Hb'.
      - rewrite (proj1 (T0 _ _ _ Hy)) in Hka. injection Hka as <-. discriminate Hhd.
      - right. apply in_or_app. right. apply in_or_app. left. destruct (Forall2_in_l _ _ _ q (ds_cables _ _ _ _ _ S) Hq) as [b' [Hb' Hi]].
        rewrite (memo_fun M q b b' (ds_fun _ _ _ _ _ S) Hab Hi). exact Hb'.
      - rewrite (proj1 (T0 _ _ _ Hy)) in Hka. injection Hka as <-. discriminate Hhd.
      - right. apply in_or_app. right. apply in_or_app. right. destruct (Forall2_in_l _ _ _ a (ds_children _ _ _ _ _ S) Hy) as [b' [Hb' Hi]].
        rewrite (memo_fun M a b b' (ds_fun _ _ _ _ _ S) Hab Hi). exact Hb'. }
    rewrite (proj2 (memb_In _ _) Hin), HG. reflexivity.
  - intros a b Hab Hka.
    assert (HfF : bflags sF b = bflags G b).
    { rewrite <- (attrs_flags _ _ _ (QB b)). unfold bflags.
      rewrite (se_bdownto _ _ Hse), (se_bscalar _ _ Hse), (se_blower _ _ Hse), (se_pdir _ _ Hse). reflexivity. }
    rewrite HfF. destruct (ds_rng _ _ _ _ _ S a b Hab) as [_ [_ H]]. rewrite HkF in H.
    destruct Hka as [Hka|Hka]; rewrite Hka in H; [apply (Hpair a b Hab KPort H); left; reflexivity|apply (Hpair a b Hab KCable H); right; reflexivity].
Qed.

Lemma Forall2_in_r {A B} (R : A -> B -> Prop) l l' b : Forall2 R l l' -> In b l' -> exists a, In a l /\ R a b.
Proof.
  intro H. induction H as [|x y l l' Hxy _ IH]; intros Hin; [destruct Hin|].
  destruct Hin as [<-|Hin]; [exists x; split; [left; reflexivity|exact Hxy]|].
  destruct (IH Hin) as [a [Ha Hr]]. exists a. split; [right; exact Ha|exact Hr].
Qed.

(* kinds, dictionaries and bundle attributes of the objects that existed before are untouched *)
Theorem clone_definition_old_attrs s0 d :
  UF s0 -> d < next s0 -> kind_of s0 d = Some KDefinition -> snd (fst (clone_definition s0 d)) = None ->
  forall y, y < next s0 -> attrs (fst (fst (clone_definition s0 d))) y = attrs s0 y.
Proof.
  intros U0 Hd Hkd Hc. pose proof (clone_definition_struct_m s0 d U0 Hd Hkd Hc) as S.
  pose proof U0 as [I0 [T0 [F0 [FT0 K0]]]]. pose proof (above_of_fresh s0 F0) as Ab.
  revert S Hc. unfold clone_definition, clone_memo.
  destruct (def_clone1 (s0, []) d) as [[[G M] d'] [ex|]] eqn:E; cbn [fst snd]; [intros _ H; discriminate|].
  destruct (def_clone1_dd (next s0) s0 s0 [] d G M d' None Ab (Nat.le_refl _) (lb_refl _ _) E) as [LG _].
  destruct (fold_idsR register_child (kids G RChildren d') G) as [s2 [e|]] eqn:Ef; cbn [bindR fst snd]; [intros _ H; discriminate|].
  pose proof (qs_fold_idsR register_child (kids G RChildren d') qs_register_child G) as Q2. rewrite Ef in Q2. cbn [fst] in Q2.
  set (sB := set_drefs s2 d' []).
  assert (QB : qsame G sB) by (eapply qs_trans; [exact Q2|qs_triv]). destruct QB as [QB _].
  pose proof (se_reapply sB d') as Hse. set (sF := fst (reapply sB d')) in *.
  intros S Hc y Hy.
  assert (Hkd' : kind_of sB d' = Some KDefinition).
  { rewrite <- (se_kind _ _ Hse). destruct (ds_rng _ _ _ _ _ S d d' (ds_root _ _ _ _ _ S)) as [_ [_ H]]. rewrite H. exact Hkd. }
  assert (Hpar : ns_parent sB d' = None).
  { unfold ns_parent. rewrite Hkd'. rewrite <- (se_par _ _ Hse). apply (ds_detached _ _ _ _ _ S). }
  pose proof (reapply_data sB d' Hpar Hc y) as HR. fold sF in HR.
  assert (Hnot : memb y (subtree sB d') = false).
  { apply memb_false. unfold subtree. rewrite Hkd'. unfold def_subtree. rewrite <- !(se_kids _ _ Hse).
    assert (Hnew : forall b, (exists a, img M a b) -> b <> y).
    { intros b [a Hab] ->. destruct (ds_rng _ _ _ _ _ S a y Hab) as [_ [H _]]. lia. }
    intros [<-|Hin]; [apply (Hnew d'); [exists d; apply (ds_root _ _ _ _ _ S)|reflexivity]|].
    apply in_app_or in Hin as [Hin|Hin]; [|apply in_app_or in Hin as [Hin|Hin]].
    - destruct (Forall2_in_r _ _ _ y (ds_ports _ _ _ _ _ S) Hin) as [a [_ Ha]]. apply (Hnew y); [exists a; exact Ha|reflexivity].
    - destruct (Forall2_in_r _ _ _ y (ds_cables _ _ _ _ _ S) Hin) as [a [_ Ha]]. apply (Hnew y); [exists a; exact Ha|reflexivity].
    - destruct (Forall2_in_r _ _ _ y (ds_children _ _ _ _ _ S) Hin) as [a [_ Ha]]. apply (Hnew y); [exists a; exact Ha|reflexivity]. }
  assert (HdF : data sF y = data sB y) by (rewrite HR, Hnot; destruct (sassoc str_NS (data sB d')); reflexivity).
  rewrite <- (LG y Hy), <- (QB y). unfold attrs, bflags.
  rewrite (se_kind _ _ Hse), HdF, (se_bdownto _ _ Hse), (se_bscalar _ _ Hse), (se_blower _ _ Hse), (se_pdir _ _ Hse). reflexivity.
Qed.

(* ---- the statement read key by key ---- *)
Section Read.
  Variables (s0 : state) (d : id) (sF : state) (M : memo).
  Hypothesis DDt : DefData s0 d sF M.
  Variables (a b : id) (k : kind).
  Hypotheses (Hab : In (a, b) M) (Hk : kind_of s0 a = Some k) (Hd : has_data k = true).

  (* every key other than '.NS' has the value it has in the source: names, EDIF identifiers, properties *)
  Lemma clone_key_same key : key <> str_NS -> sassoc key (data sF b) = sassoc key (data s0 a).
  Proof.
    intro Hne. rewrite (dd_data _ _ _ _ DDt a b k Hab Hk Hd). unfold cdict. destruct (sassoc str_NS (data s0 d)); [|reflexivity].
    apply renorm_other. exact Hne.
  Qed.
  Lemma clone_get_str_same key : key <> str_NS -> get_str sF b key = get_str s0 a key.
  Proof. intro Hne. unfold get_str. rewrite (clone_key_same key Hne). reflexivity. Qed.
  (* the entries other than '.NS' are the source's, in the same order *)
  Lemma clone_user_data_same : sassoc_del str_NS (data sF b) = sassoc_del str_NS (data s0 a).
  Proof.
    rewrite (dd_data _ _ _ _ DDt a b k Hab Hk Hd). unfold cdict. destruct (sassoc str_NS (data s0 d)); [|reflexivity]. apply renorm_del.
  Qed.
  (* the '.NS' entry: the definition's policy, as last key - or, for a definition without policy, untouched *)
  Lemma clone_ns_policy v : sassoc str_NS (data s0 d) = Some v -> data sF b = sassoc_del str_NS (data s0 a) ++ [(str_NS, v)].
  Proof. intro Hv. rewrite (dd_data _ _ _ _ DDt a b k Hab Hk Hd). unfold cdict. rewrite Hv. apply renorm_order. Qed.
  Lemma clone_no_policy : sassoc str_NS (data s0 d) = None -> data sF b = data s0 a.
  Proof. intro Hv. rewrite (dd_data _ _ _ _ DDt a b k Hab Hk Hd). unfold cdict. rewrite Hv. reflexivity. Qed.
End Read.

Theorem clone_definition_reachable_data ops d :
  let s := run ops init in
  d < next s -> kind_of s d = Some KDefinition -> snd (fst (clone_definition s d)) = None ->
  DefStruct s d (fst (fst (clone_definition s d))) (snd (clone_definition s d)) (clone_memo s d) /\
  DefData s d (fst (fst (clone_definition s d))) (clone_memo s d).
Proof.
  cbn zeta. intros Hd Hk Hc. split; [apply clone_definition_struct_m|apply clone_definition_data]; try assumption; apply reachable_uf.
Qed.
