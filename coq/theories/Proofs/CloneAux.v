(* What a completed clone() keeps besides the structural invariant: the auxiliary facts that the
   proofs about clones need of their start state (containment is typed, nothing lives above the
   allocation counter, fields are typed, references point at definitions, top instances are
   instances). Here: the gateway lemma and the six kinds below the library. *)
From Coq Require Import List Arith Bool Lia.
From RecordUpdate Require Import RecordSet.
From SV Require Import Base.Base IR.State IR.NS IR.Ops Xform.Clone Proofs.AssocX Proofs.Frame Proofs.Inv1a Proofs.Inv2a
  Proofs.InvP Proofs.InvW Proofs.Fresh Proofs.NsInv Proofs.Repoint Proofs.CloneInv Proofs.RefK Proofs.CloneRef Proofs.CloneT Proofs.FieldT
  Proofs.CloneMemo Proofs.CloneRR Proofs.CloneFaith Proofs.CloneInvP Proofs.CloneFull
  Proofs.CloneMemoK Proofs.CloneFaithK Proofs.CloneStage Proofs.CloneStageP Proofs.CloneRun
  Proofs.CloneFrame Proofs.CloneStart Proofs.KindD Proofs.CloneSmallInv Proofs.CloneTq.
Import ListNotations RecordSetNotations.

Lemma refk_of_refd s : RefD s -> RefK s.
Proof. intros H x d Hx. rewrite (H x d Hx). discriminate. Qed.

Lemma kind_lt s y k : Fresh s -> kind_of s y = Some k -> y < next s.
Proof. intros F H. destruct (Nat.lt_ge_cases y (next s)) as [Hl|Hg]; [exact Hl|]. rewrite (f_kind _ F y Hg) in H. discriminate. Qed.

(* the auxiliary facts of the closed invariant that are not in UF *)
Definition Aux (s : state) : Prop := FreshT s /\ RefD s /\ TopK s.

(* a clone that does not write the top-instance field *)
Lemma fresht_topk_tq s sF : tq s sF -> KM s sF -> Fresh s -> FreshT s -> TopK s -> FreshT sF /\ TopK sF.
Proof.
  intros T [_ Km] F FT0 TK. split; [apply (fresht_tq s sF T FT0)|].
  intros n t Ht. rewrite (tq_top _ _ T) in Ht. pose proof (TK n t Ht) as Hk. rewrite (Km t (kind_lt s t _ F Hk)). exact Hk.
Qed.

(* ---- the gateway: what has to be known of the final state ---- *)
Record CloneSum (s0 sF : state) : Prop := mkCS {
  cs_next : next s0 <= next sF;
  cs_kold : forall y, y < next s0 -> kind_of sF y = kind_of s0 y;
  cs_kab : forall y, next sF <= y -> kind_of sF y = None;
  cs_ab : Above sF;
  cs_t : InvT sF;
  cs_old : forall y, y < next s0 -> ipwire sF y = ipwire s0 y /\ wpins sF y = wpins s0 y /\ ipins sF y = ipins s0 y /\ iref sF y = iref s0 y;
  cs_def : forall y, next s0 <= y ->
             (kind_of sF y <> Some KPin -> ipwire sF y = None) /\ (kind_of sF y <> Some KWire -> wpins sF y = []) /\
             (kind_of sF y <> Some KInstance -> ipins sF y = [] /\ iref sF y = None);
  cs_ref : forall x d, next s0 <= x -> iref sF x = Some d -> kind_of sF d = Some KDefinition;
  cs_top : forall n t, top sF n = Some t -> top s0 n = Some t \/ kind_of sF t = Some KInstance;
  cs_topab : forall x, next sF <= x -> top sF x = None
}.

Lemma kind_by_contra (s : state) y (k : kind) : (kind_of s y <> Some k -> False) -> kind_of s y = Some k.
Proof.
  intro H. destruct (kind_of s y) as [k0|] eqn:E; [|exfalso; apply H; discriminate].
  destruct (kind_eqb k0 k) eqn:Eq; [destruct k0, k; try discriminate Eq; reflexivity|].
  exfalso. apply H. intro E2. injection E2 as ->. destruct k; discriminate Eq.
Qed.

Theorem clonesum_aux s0 sF :
  CloneSum s0 sF -> Fresh s0 -> FT s0 -> RefD s0 -> TopK s0 ->
  InvT sF /\ Fresh sF /\ FT sF /\ RefK sF /\ Aux sF.
Proof.
  intros [Hn Hko Hka Hab Ht Hold Hdef Href Htop Htab] F0 FT0 RD TK.
  assert (RDF : RefD sF).
  { intros x d Hx. destruct (Nat.lt_ge_cases x (next s0)) as [Hl|Hg]; [|apply (Href x d Hg Hx)].
    destruct (Hold x Hl) as [_ [_ [_ Hi]]]. rewrite Hi in Hx. pose proof (RD x d Hx) as Hk.
    rewrite (Hko d (kind_lt s0 d _ F0 Hk)). exact Hk. }
  split; [exact Ht|]. split; [|split; [|split; [apply refk_of_refd; exact RDF|split; [exact Htab|split; [exact RDF|]]]]].
  - apply fresh_of; [exact Hab|]. intros x Hx. split; [apply Hka; exact Hx|].
    destruct (Hdef x ltac:(lia)) as [_ [_ D]]. apply D. rewrite (Hka x Hx). discriminate.
  - constructor; intros y H; (destruct (Nat.lt_ge_cases y (next s0)) as [Hl|Hg];
      [destruct (Hold y Hl) as [A [B [C D]]]; rewrite (Hko y Hl)|apply kind_by_contra; intro Hne; apply H; destruct (Hdef y Hg) as [A [B C]]]).
    + apply (ft_w _ FT0). rewrite <- A. exact H.
    + apply A. exact Hne.
    + apply (ft_p _ FT0). rewrite <- B. exact H.
    + apply B. exact Hne.
    + apply (ft_i _ FT0). rewrite <- C. exact H.
    + apply (proj1 (C Hne)).
    + apply (ft_r _ FT0). rewrite <- D. exact H.
    + apply (proj2 (C Hne)).
  - intros n t Hnt. destruct (Htop n t Hnt) as [H|H]; [|exact H]. pose proof (TK n t H) as Hk.
    rewrite (Hko t (kind_lt s0 t _ F0 Hk)). exact Hk.
Qed.

(* the two top clauses, for a clone that does not write the field *)
Lemma cs_top_of_tq s sF : tq s sF -> FreshT s ->
  (forall n t, top sF n = Some t -> top s n = Some t \/ kind_of sF t = Some KInstance) /\ (forall x, next sF <= x -> top sF x = None).
Proof.
  intros T FT0. split; [intros n t H; left; rewrite <- (tq_top _ _ T); exact H|apply (fresht_tq s sF T FT0)].
Qed.

(* ---- pin, wire, instance: one fresh object ---- *)
Lemma cs_leaf s sF k :
  Fresh s -> FT s -> InvT s -> RefD s -> FreshT s -> tq s sF ->
  next sF = S (next s) -> kind_of sF = upd (kind_of s) (next s) (Some k) -> kids sF = kids s -> par sF = par s ->
  (forall y, y <> next s -> ipwire sF y = ipwire s y /\ wpins sF y = wpins s y /\ ipins sF y = ipins s y /\ iref sF y = iref s y) ->
  (k <> KPin -> ipwire sF (next s) = None) -> (k <> KWire -> wpins sF (next s) = []) ->
  (k <> KInstance -> ipins sF (next s) = [] /\ iref sF (next s) = None) ->
  (forall d, iref sF (next s) = Some d -> exists x, iref s x = Some d) ->
  CloneSum s sF.
Proof.
  intros F FT0 T0 RD FTo T Hn Hk Hkids Hpar Hold Hw Hp Hi Hr.
  assert (Hko : forall y, y <> next s -> kind_of sF y = kind_of s y).
  { intros y Hy. rewrite Hk. unfold upd. destruct (Nat.eqb_spec y (next s)); [contradiction|reflexivity]. }
  assert (Hkn : kind_of sF (next s) = Some k) by (rewrite Hk; apply upd_same).
  destruct (cs_top_of_tq s sF T FTo) as [Ht1 Ht2].
  constructor; try assumption.
  - lia.
  - intros y Hy. apply Hko. lia.
  - intros y Hy. rewrite Hko by lia. apply (f_kind _ F). lia.
  - intros r y Hy. rewrite Hkids, Hpar. split; [apply (f_kids _ F)|apply (f_par _ F)]; lia.
  - intros r p c Hc. rewrite Hkids in Hc. destruct (T0 r p c Hc) as [A B].
    rewrite !Hko; [split; assumption| |]; intro E; subst; rewrite (f_kind _ F (next s) (Nat.le_refl _)) in *; discriminate.
  - intros y Hy. apply Hold. lia.
  - intros y Hy. destruct (Nat.eq_dec y (next s)) as [->|Hne].
    + rewrite Hkn. split; [intro H; apply Hw; congruence|]. split; [intro H; apply Hp; congruence|intro H; apply Hi; congruence].
    + destruct (Hold y Hne) as [A [B [C D]]]. rewrite A, B, C, D.
      destruct (ft_above s FT0 F y ltac:(lia)) as [-> [-> ->]]. rewrite (f_iref _ F y) by lia. repeat split.
  - intros x d Hx Hd. destruct (Nat.eq_dec x (next s)) as [->|Hne].
    + destruct (Hr d Hd) as [x0 Hx0]. pose proof (RD x0 d Hx0) as Hkd. rewrite Hko; [exact Hkd|].
      pose proof (kind_lt s d _ F Hkd). lia.
    + destruct (Hold x Hne) as [_ [_ [_ D]]]. rewrite D, (f_iref _ F x) in Hd by lia. discriminate.
Qed.

Theorem clone_pin_sum s i : Fresh s -> FT s -> InvT s -> RefD s -> FreshT s -> CloneSum s (fst (fst (clone_pin s i))).
Proof.
  intros F FT0 T0 RD FTo. pose proof (tq_clone_pin s i) as T. revert T.
  unfold clone_pin, pin_clone1. destruct (clone_alloc s KPin) as [s1 x] eqn:Ea. cbn [fst snd ret]. intro T.
  destruct (clone_alloc_fields _ _ _ _ Ea) as [Hx [N1 [Kd1 [Kk1 [W1 [P1 [I1 R1]]]]]]].
  destruct (clone_alloc_kp _ _ _ _ Ea) as [_ [_ [_ Pp1]]]. subst x.
  destruct (ft_above s FT0 F (next s) (Nat.le_refl _)) as [A [B C]].
  apply (cs_leaf s _ KPin); try assumption.
  - intros y Hy. cbn. unfold upd. replace (Nat.eqb y (next s)) with false by (symmetry; apply Nat.eqb_neq; exact Hy).
    rewrite W1, P1, I1, R1. repeat split.
  - intro H. contradiction.
  - intros _. cbn. rewrite P1. exact B.
  - intros _. cbn. rewrite I1, R1, C, (f_iref _ F (next s) (Nat.le_refl _)). split; reflexivity.
  - intros d. cbn. rewrite R1, (f_iref _ F (next s) (Nat.le_refl _)). discriminate.
Qed.

Theorem clone_wire_sum s i : Fresh s -> FT s -> InvT s -> RefD s -> FreshT s -> CloneSum s (fst (fst (clone_wire s i))).
Proof.
  intros F FT0 T0 RD FTo. pose proof (tq_clone_wire s i) as T. revert T.
  unfold clone_wire, wire_clone1. destruct (clone_alloc s KWire) as [s1 x] eqn:Ea. cbn [fst snd ret]. intro T.
  destruct (clone_alloc_fields _ _ _ _ Ea) as [Hx [N1 [Kd1 [Kk1 [W1 [P1 [I1 R1]]]]]]].
  destruct (clone_alloc_kp _ _ _ _ Ea) as [_ [_ [_ Pp1]]]. subst x.
  destruct (ft_above s FT0 F (next s) (Nat.le_refl _)) as [A [B C]].
  apply (cs_leaf s _ KWire); try assumption.
  - intros y Hy. cbn. unfold upd. replace (Nat.eqb y (next s)) with false by (symmetry; apply Nat.eqb_neq; exact Hy).
    rewrite W1, P1, I1, R1. repeat split.
  - intros _. cbn. rewrite W1. exact A.
  - intro H. contradiction.
  - intros _. cbn. rewrite I1, R1, C, (f_iref _ F (next s) (Nat.le_refl _)). split; reflexivity.
  - intros d. cbn. rewrite R1, (f_iref _ F (next s) (Nat.le_refl _)). discriminate.
Qed.

Definition struct_but_drefs (s s' : state) : Prop :=
  next s' = next s /\ kind_of s' = kind_of s /\ kids s' = kids s /\ par s' = par s /\
  ipwire s' = ipwire s /\ wpins s' = wpins s /\ ipins s' = ipins s /\ iref s' = iref s.

Theorem clone_instance_sum s i : Fresh s -> FT s -> InvT s -> RefD s -> FreshT s -> CloneSum s (fst (fst (clone_instance s i))).
Proof.
  intros F FT0 T0 RD FTo. pose proof (tq_clone_instance s i) as T. revert T.
  unfold clone_instance, inst_clone1. destruct (clone_alloc s KInstance) as [s1 x] eqn:Ea. cbn [fst snd].
  destruct (clone_alloc_fields _ _ _ _ Ea) as [Hx [N1 [Kd1 [Kk1 [W1 [P1 [I1 R1]]]]]]].
  destruct (clone_alloc_kp _ _ _ _ Ea) as [_ [_ [_ Pp1]]]. subst x.
  destruct (ft_above s FT0 F (next s) (Nat.le_refl _)) as [A [B C]].
  match goal with |- context [register_child ?s2 ?n] => set (sR := fst (register_child s2 n));
    assert (HR : struct_but_drefs s2 sR) end.
  { unfold sR, register_child. destruct (iref _ (next s)); cbn [fst ret raise]; repeat split. }
  destruct HR as [H1 [H2 [H3 [H4 [H5 [H6 [H7 H8]]]]]]]. intro T.
  apply (cs_leaf s sR KInstance); try assumption.
  - rewrite H1. exact N1.
  - rewrite H2. exact Kd1.
  - rewrite H3. exact Kk1.
  - rewrite H4. exact Pp1.
  - intros y Hy. rewrite H5, H6, H7, H8. cbn. unfold upd. replace (Nat.eqb y (next s)) with false by (symmetry; apply Nat.eqb_neq; exact Hy).
    rewrite W1, P1, I1, R1. repeat split.
  - intros _. rewrite H5. cbn. rewrite W1. exact A.
  - intros _. rewrite H6. cbn. rewrite P1. exact B.
  - intro H. contradiction.
  - intros d. rewrite H8. cbn. rewrite upd_same, R1. intro H. exists i. exact H.
Qed.

(* ---- port and cable: the copied bundle and its items, side connections cut ---- *)
Lemma bundle_sum (f : SM -> id -> SM * id) (kd lk : kind) (rl : rel)
  (Hstep : forall s0 sk, StepOKk s0 sk f (Kb s0 rl) (PreBundle s0 kd lk rl) (ImgOK s0 rl)) (Hbun : BundleSpec f)
  (Hkd : kd <> KPin /\ kd <> KWire /\ kd <> KInstance) (Hts : TSpec f kd) (Hq : TQf f) s p s1 m1 p' sF :
  Inv s -> Fresh s -> FT s -> InvT s -> RefD s -> FreshT s -> p < next s -> kind_of s p = Some kd -> rel_parent rl = kd -> rel_child rl = lk ->
  lk <> KInstance ->
  f (s, []) p = ((s1, m1), p') ->
  next sF = next s1 -> kind_of sF = kind_of s1 -> kids sF = kids s1 -> par sF = par s1 -> iref sF = iref s1 -> top sF = top s1 -> ipins sF = ipins s1 ->
  (forall y, ipwire sF y = ipwire s1 y \/ ipwire sF y = None) -> (forall y, wpins sF y = wpins s1 y \/ wpins sF y = []) ->
  (forall y, y < next s -> ipwire sF y = ipwire s1 y /\ wpins sF y = wpins s1 y) ->
  CloneSum s sF.
Proof.
  intros HI F FT0 T0 RD FTo Hp Hkp Hrp Hrc Hlk E En Ek Eki Epa Eir Eto Eip Hcw Hcp Hco.
  pose proof (above_of_fresh s F) as Ab. pose proof (parlt_of_inv1a s (inv_a _ HI) Ab) as Pl.
  destruct (bundle_facts f kd lk rl Hstep Hbun Hkd s p s1 m1 p' HI F FT0 T0 Hp Hkp Hrp Hrc E)
    as [Hp' [Hn [Hf [Hg [Hpar [Ab1 [Hold [Hdef [Hcov [_ [Hkab Hkold]]]]]]]]]]].
  destruct (Hts s [] p s1 m1 p' Ab Pl E) as [_ TF].
  assert (T : tq s sF).
  { pose proof (Hq _ _ _ _ _ _ E) as [A B]. constructor; [rewrite Eto; exact A|rewrite En; exact B]. }
  destruct (cs_top_of_tq s sF T FTo) as [Ht1 Ht2].
  constructor; try assumption.
  - lia.
  - intros y Hy. rewrite Ek. apply Hkold. exact Hy.
  - intros y Hy. rewrite Ek. apply Hkab. lia.
  - intros r y Hy. rewrite Eki, Epa. apply Ab1. lia.
  - intros r q c Hc. rewrite Eki in Hc. rewrite Ek. destruct (Nat.lt_ge_cases q (next s)) as [Hq1|Hq1].
    + rewrite (proj1 (Hf r q Hq1)) in Hc. destruct (T0 r q c Hc) as [A B].
      rewrite (Hkold c (kind_lt s c _ F A)), (Hkold q Hq1). split; assumption.
    + destruct (Nat.lt_ge_cases q (next s1)) as [Hq2|Hq2]; [apply TF; [lia|exact Hc]|].
      rewrite (proj1 (Ab1 r q Hq2)) in Hc. destruct Hc.
  - intros y Hy. destruct (Hold y Hy) as [A [B [C D]]]. destruct (Hco y Hy) as [X Y]. rewrite X, Y, Eip, Eir. repeat split; assumption.
  - intros y Hy. rewrite Ek, Eip, Eir. destruct (Hdef y Hy) as [A [B C]].
    split; [intro H; destruct (Hcw y) as [X|X]; rewrite X; [apply A; exact H|reflexivity]|].
    split; [intro H; destruct (Hcp y) as [X|X]; rewrite X; [apply B; exact H|reflexivity]|exact C].
  - intros x d Hx Hd. exfalso. rewrite Eir in Hd. destruct (Hdef x Hx) as [_ [_ C]].
    assert (Hkx : kind_of s1 x = Some KInstance). { apply kind_by_contra. intro Hne. rewrite (proj2 (C Hne)) in Hd. discriminate. }
    destruct (Hcov x KInstance Hx Hkx (or_intror (or_intror eq_refl))) as [Hc _]. apply Hlk. symmetry. exact Hc.
Qed.

Theorem clone_port_sum s p :
  Inv s -> Fresh s -> FT s -> InvT s -> RefD s -> FreshT s -> p < next s -> kind_of s p = Some KPort ->
  CloneSum s (fst (fst (clone_port s p))).
Proof.
  intros HI F FT0 T0 RD FTo Hp Hk. unfold clone_port. destruct (port_clone1 (s, []) p) as [[s1 m1] p'] eqn:E. cbn [fst snd ret].
  destruct (bundle_facts port_clone1 KPort KPin RPins (fun s0 sk => step_portK s0 sk) port_clone1_bundle
              ltac:(repeat split; discriminate) s p s1 m1 p' HI F FT0 T0 Hp Hk eq_refl eq_refl E)
    as [Hp' [Hn [_ [Hg _]]]].
  destruct (fold_cut_ipwire (kids s1 RPins p') s1) as [A [B [C [D [E1 [F1 [G1 H1]]]]]]]. cbn zeta in *.
  set (sF := fold_ids (fun s i' => set_ipwire s i' None) (kids s1 RPins p') s1) in *.
  apply (bundle_sum port_clone1 KPort KPin RPins (fun s0 sk => step_portK s0 sk) port_clone1_bundle
           ltac:(repeat split; discriminate) port_clone1_tspec tq_port_clone1 s p s1 m1 p' sF); try assumption; try reflexivity; try discriminate.
  - apply (fold_ids_pres kind_of). reflexivity.
  - apply (fold_ids_pres top). reflexivity.
  - intro y. rewrite H1. destruct (memb y (kids s1 RPins p')); [right|left]; reflexivity.
  - intro y. left. rewrite D. reflexivity.
  - intros y Hy. rewrite H1, D. split; [|reflexivity].
    destruct (memb y (kids s1 RPins p')) eqn:Em; [|reflexivity].
    exfalso. apply memb_In in Em. destruct Hg as [_ _ G3 _]. assert (Hpn : next s <= p' < next s1) by lia. pose proof (G3 RPins p' y Hpn Em). lia.
Qed.

Theorem clone_cable_sum s c :
  Inv s -> Fresh s -> FT s -> InvT s -> RefD s -> FreshT s -> c < next s -> kind_of s c = Some KCable ->
  CloneSum s (fst (fst (clone_cable s c))).
Proof.
  intros HI F FT0 T0 RD FTo Hp Hk. unfold clone_cable. destruct (cable_clone1 (s, []) c) as [[s1 m1] p'] eqn:E. cbn [fst snd ret].
  destruct (bundle_facts cable_clone1 KCable KWire RWires (fun s0 sk => step_cableK s0 sk) cable_clone1_bundle
              ltac:(repeat split; discriminate) s c s1 m1 p' HI F FT0 T0 Hp Hk eq_refl eq_refl E)
    as [Hp' [Hn [_ [Hg _]]]].
  destruct (fold_cut_wpins (kids s1 RWires p') s1) as [A [B [C [D [E1 [F1 [G1 H1]]]]]]]. cbn zeta in *.
  set (sF := fold_ids (fun s w' => set_wpins s w' []) (kids s1 RWires p') s1) in *.
  apply (bundle_sum cable_clone1 KCable KWire RWires (fun s0 sk => step_cableK s0 sk) cable_clone1_bundle
           ltac:(repeat split; discriminate) cable_clone1_tspec tq_cable_clone1 s c s1 m1 p' sF); try assumption; try reflexivity; try discriminate.
  - apply (fold_ids_pres kind_of). reflexivity.
  - apply (fold_ids_pres top). reflexivity.
  - intro y. left. rewrite D. reflexivity.
  - intro y. rewrite H1. destruct (memb y (kids s1 RWires p')); [right|left]; reflexivity.
  - intros y Hy. rewrite H1, D. split; [reflexivity|].
    destruct (memb y (kids s1 RWires p')) eqn:Em; [|reflexivity].
    exfalso. apply memb_In in Em. destruct Hg as [_ _ G3 _]. assert (Hpn : next s <= p' < next s1) by lia. pose proof (G3 RWires p' y Hpn Em). lia.
Qed.

(* ---- Definition.clone ---- *)
Theorem clone_definition_aux s d :
  Inv1a s -> Fresh s -> Aux s -> d < next s ->
  snd (fst (clone_definition s d)) = None -> Aux (fst (fst (clone_definition s d))).
Proof.
  intros I1 F [FTo [RD TK]] Hd Hok. pose proof (above_of_fresh s F) as Ab. pose proof (parlt_of_inv1a s I1 Ab) as Pl.
  destruct (fresht_topk_tq s _ (tq_clone_definition s d) (km_clone_definition s d) F FTo TK) as [A B].
  split; [exact A|split; [|exact B]].
  pose proof (km_clone_definition s d) as [_ KMo]. revert Hok.
  unfold clone_definition in *. destruct (def_clone1 (s, []) d) as [[[s1 m1] d'] [e|]] eqn:E; cbn [fst snd] in *; [discriminate|].
  destruct (def_clone1_ref s [] d s1 m1 d' Ab Pl Hd (children_lt s d I1 Ab) E) as [Hd' [Hn [Hdr [Hio [Hin Hch]]]]].
  destruct (fold_idsR register_child (kids s1 RChildren d') s1) as [s2 [e|]] eqn:Ef; cbn [bindR fst snd] in *; [discriminate|].
  destruct (register_children_spec _ _ _ Ef) as [Ai _].
  intros _. destruct (rd_reapply (set_drefs s2 d' []) d') as [Ri Rd].
  set (sE := fst (reapply (set_drefs s2 d' []) d')) in *.
  assert (HiE : iref sE = iref s1) by (rewrite Ri; cbn; exact Ai).
  intros y e Hy. rewrite HiE in Hy.
  assert (Hx : exists x, iref s x = Some e) by (destruct (Hin y e Hy) as [H|[_ [x [_ H]]]]; [exists y; exact H|exists x; exact H]).
  destruct Hx as [x Hx]. pose proof (RD x e Hx) as Hk. rewrite (KMo e (kind_lt s e _ F Hk)). exact Hk.
Qed.

(* ---- summary for the six kinds below the library: the closed invariant survives ---- *)
Definition GG (s : state) : Prop := UF s /\ Aux s.

Lemma gg_of_sum s sF : GG s -> Inv sF -> CloneSum s sF -> GG sF.
Proof.
  intros [[I [T [F [FT0 K]]]] [FTo [RD TK]]] IF CS.
  destruct (clonesum_aux s sF CS F FT0 RD TK) as [A [B [C [D E]]]].
  split; [split; [exact IF|split; [exact A|split; [exact B|split; [exact C|exact D]]]]|exact E].
Qed.

Theorem gg_clone_pin s i : GG s -> GG (fst (fst (clone_pin s i))).
Proof.
  intro H. pose proof H as [[I [T [F [FT0 K]]]] [FTo [RD TK]]].
  apply (gg_of_sum s _ H); [apply clone_pin_inv; assumption|apply clone_pin_sum; assumption].
Qed.
Theorem gg_clone_wire s i : GG s -> GG (fst (fst (clone_wire s i))).
Proof.
  intro H. pose proof H as [[I [T [F [FT0 K]]]] [FTo [RD TK]]].
  apply (gg_of_sum s _ H); [apply clone_wire_inv; assumption|apply clone_wire_sum; assumption].
Qed.
Theorem gg_clone_port s p : GG s -> kind_of s p = Some KPort -> GG (fst (fst (clone_port s p))).
Proof.
  intros H Hk. pose proof H as [[I [T [F [FT0 K]]]] [FTo [RD TK]]]. pose proof (kind_lt s p _ F Hk) as Hp.
  apply (gg_of_sum s _ H); [apply clone_port_inv; assumption|apply clone_port_sum; assumption].
Qed.
Theorem gg_clone_cable s p : GG s -> kind_of s p = Some KCable -> GG (fst (fst (clone_cable s p))).
Proof.
  intros H Hk. pose proof H as [[I [T [F [FT0 K]]]] [FTo [RD TK]]]. pose proof (kind_lt s p _ F Hk) as Hp.
  apply (gg_of_sum s _ H); [apply clone_cable_inv; assumption|apply clone_cable_sum; assumption].
Qed.
Theorem gg_clone_instance s x :
  GG s -> kind_of s x = Some KInstance -> snd (fst (clone_instance s x)) = None -> GG (fst (fst (clone_instance s x))).
Proof.
  intros H Hk Hok. pose proof H as [[I [T [F [FT0 K]]]] [FTo [RD TK]]]. pose proof (kind_lt s x _ F Hk) as Hp.
  apply (gg_of_sum s _ H); [apply clone_instance_inv; assumption|apply clone_instance_sum; assumption].
Qed.
Theorem gg_clone_definition s d :
  GG s -> kind_of s d = Some KDefinition -> snd (fst (clone_definition s d)) = None -> GG (fst (fst (clone_definition s d))).
Proof.
  intros H Hk Hok. pose proof H as [[I [T [F [FT0 K]]]] AX]. pose proof (kind_lt s d _ F Hk) as Hd.
  split; [|apply clone_definition_aux; try assumption; apply (inv_a _ I)].
  split; [apply clone_definition_inv; assumption|]. split; [apply clone_definition_invt; [apply (inv_a _ I)|exact F|exact T|exact Hok]|].
  split; [apply clone_definition_fresh; [apply (inv_a _ I)|exact F|exact Hok]|].
  split; [apply clone_definition_ft; try assumption; apply (inv_a _ I)|].
  apply (proj2 (clone_definition_inv2a s d (inv_a _ I) (inv_r _ I) F K Hd Hok)).
Qed.
