(* The auxiliary facts of the closed invariant after Library.clone and Netlist.clone: read off the
   running invariant of the library / netlist clone at the state before the final writes. *)
From Coq Require Import List Arith Bool Lia.
From RecordUpdate Require Import RecordSet.
From SV Require Import Base.Base IR.State IR.NS IR.Ops Xform.Clone Proofs.AssocX Proofs.Frame Proofs.Inv1a Proofs.Inv2a
  Proofs.InvP Proofs.InvW Proofs.Fresh Proofs.NsInv Proofs.Repoint Proofs.CloneInv Proofs.RefK Proofs.CloneRef Proofs.CloneT Proofs.FieldT
  Proofs.CloneMemo Proofs.CloneRR Proofs.CloneFaith Proofs.CloneInvP Proofs.CloneFull
  Proofs.CloneMemoK Proofs.CloneFaithK Proofs.CloneStage Proofs.CloneStageP Proofs.CloneRun Proofs.CloneEx Proofs.CloneRemap Proofs.CloneComm Proofs.CloneLib
  Proofs.SrcTree Proofs.CloneNet Proofs.CloneTop Proofs.CloneFin Proofs.CloneFrame Proofs.CloneStart Proofs.KindD
  Proofs.CloneLibInv Proofs.CloneNetInv Proofs.CloneSmallInv Proofs.CloneTq Proofs.CloneAux.
Import ListNotations RecordSetNotations.

(* from the running invariant at a state sQ that agrees with the final state on the structural fields *)
Lemma cs_of_ry s0 sQ m sF :
  RY s0 sQ m -> Fresh s0 -> RefD s0 ->
  next sF = next sQ -> kind_of sF = kind_of sQ -> kids sF = kids sQ -> par sF = par sQ ->
  ipwire sF = ipwire sQ -> wpins sF = wpins sQ -> ipins sF = ipins sQ -> iref sF = iref sQ ->
  (forall n t, top sF n = Some t -> top s0 n = Some t \/ kind_of sF t = Some KInstance) -> (forall x, next sF <= x -> top sF x = None) ->
  CloneSum s0 sF.
Proof.
  intros Y F0 RD En Ek Eki Epa Ew Ep Ei Er Ht1 Ht2.
  pose proof (rx_ri _ _ _ (ry_rx _ _ _ Y)) as R. pose proof (ri_st _ _ _ R) as T.
  constructor; try assumption; rewrite ?En, ?Ek, ?Eki, ?Epa, ?Ew, ?Ep, ?Ei, ?Er.
  - apply (st_n0 _ _ _ T).
  - intros y Hy. apply (st_old _ _ _ T y Hy).
  - intros y Hy. apply (st_above _ _ _ T y Hy).
  - intros r y Hy. rewrite Eki, Epa. rewrite En in Hy. apply (ri_ab _ _ _ R r y Hy).
  - intros r p c Hc. rewrite Eki in Hc. rewrite Ek. apply (ri_t _ _ _ R r p c Hc).
  - intros y Hy. destruct (st_old _ _ _ T y Hy) as [A [B [C [_ D]]]]. repeat split; assumption.
  - intros y Hy. apply (st_def _ _ _ T y Hy).
  - intros x d Hx Hd. destruct (st_def _ _ _ T x Hx) as [_ [_ C]].
    assert (Hkx : kind_of sQ x = Some KInstance). { apply kind_by_contra. intro Hne. rewrite (proj2 (C Hne)) in Hd. discriminate. }
    destruct (st_cov _ _ _ T x Hx (or_intror (or_intror Hkx))) as [a Ha].
    assert (Hka : kind_of s0 a = Some KInstance) by (rewrite <- (st_kind _ _ _ T a x Ha); exact Hkx).
    destruct (ry_ir _ _ _ Y a x Ha Hka) as [H|[e [e' [H1 [H2 H3]]]]].
    + rewrite H in Hd. pose proof (RD a d Hd) as Hkd. rewrite (proj1 (proj2 (proj2 (proj2 (st_old _ _ _ T d (kind_lt s0 d _ F0 Hkd)))))). exact Hkd.
    + rewrite H3 in Hd. injection Hd as <-. rewrite (st_kind _ _ _ T e e' H2). apply (RD a e H1).
Qed.

(* ---- Library.clone ---- *)
Lemma feqx_rip m : forall L s s', fold_idsR (rip_step m) L s = (s', None) -> feqX s s'.
Proof.
  induction L as [|d L IH]; intros s s' E; cbn [fold_idsR] in E; [injection E as <-; apply feqx_refl|].
  unfold rip_step at 1 in E.
  destruct (fold_idsR register_child (kids s RChildren d) s) as [sa [ex|]] eqn:Er; cbn [bindR ret] in E; [discriminate|].
  destruct (reg_fold_spec _ _ _ Er) as [Fa _].
  eapply feqx_trans; [exact Fa|]. eapply feqx_trans; [|apply (IH _ _ E)]. constructor; reflexivity.
Qed.

Theorem clone_library_sum s0 l :
  UF s0 -> RefD s0 -> FreshT s0 -> kind_of s0 l = Some KLibrary ->
  snd (fst (clone_library s0 l)) = None -> CloneSum s0 (fst (fst (clone_library s0 l))).
Proof.
  intros U0 HRD FTo Hkl. pose proof U0 as [I0 [T0 [F0 [FT0 K0]]]]. pose proof (inv_a _ I0) as I1.
  pose proof (kind_lt s0 l _ F0 Hkl) as Hl.
  destruct (cs_top_of_tq s0 _ (tq_clone_library s0 l) FTo) as [Ht1 Ht2]. revert Ht1 Ht2.
  unfold clone_library. destruct (lib_clone1 (s0, []) l) as [[[s1 m] l'] [ex|]] eqn:E; [cbn; discriminate|].
  destruct (ry_lib s0 s0 [] l s1 m l' U0 HRD (ry_start s0 U0) Hl Hkl (lib_objects_nodup s0 I1 T0 l Hkl) (fun y _ H => H) E) as [Y _].
  change (lib_rip m s1 l') with (fold_idsR (rip_step m) (kids s1 RDefs l') s1).
  destruct (fold_idsR (rip_step m) (kids s1 RDefs l') s1) as [s2 [ex|]] eqn:Er; [cbn; discriminate|]. cbn [bindR fst snd]. intros Ht1 Ht2 _.
  pose proof (feqx_rip m _ _ _ Er) as Fe. pose proof (feq_reapply s2 l') as FEF. set (sF := fst (reapply s2 l')) in *.
  apply (cs_of_ry s0 s1 m sF Y F0 HRD); try assumption.
  - rewrite (fe_next _ _ FEF). apply (fx_next _ _ Fe).
  - rewrite (fe_kind _ _ FEF). apply (fx_kind _ _ Fe).
  - rewrite (fe_kids _ _ FEF). apply (fx_kids _ _ Fe).
  - rewrite (fe_par _ _ FEF). apply (fx_par _ _ Fe).
  - rewrite (fe_ipwire _ _ FEF). apply (fx_ipwire _ _ Fe).
  - rewrite (fe_wpins _ _ FEF). apply (fx_wpins _ _ Fe).
  - rewrite (fe_ipins _ _ FEF). apply (fx_ipins _ _ Fe).
  - rewrite (fe_iref _ _ FEF). apply (fx_iref _ _ Fe).
Qed.

Theorem gg_clone_library s l :
  GG s -> kind_of s l = Some KLibrary -> snd (fst (clone_library s l)) = None -> GG (fst (fst (clone_library s l))).
Proof.
  intros H Hk Hok. pose proof H as [U [FTo [RD TK]]].
  apply (gg_of_sum s _ H); [apply clone_library_inv; assumption|apply clone_library_sum; assumption].
Qed.

(* ---- Netlist.clone ---- *)
Lemma startok_of s : Inv s -> Fresh s -> FreshT s -> StartOK s.
Proof. intros I F FTo. split; [apply (f_kids _ F)|split; [exact FTo|apply wold_of_inv; assumption]]. Qed.

Theorem clone_netlist_sum s0 n :
  UF s0 -> Aux s0 -> kind_of s0 n = Some KNetlist -> Closed s0 n ->
  snd (fst (clone_netlist s0 n)) = None -> CloneSum s0 (fst (fst (clone_netlist s0 n))).
Proof.
  intros U0 [FTo [RD TK]] Hkn Hcl Hok. pose proof U0 as [I0 [T0 [F0 [FT0 K0]]]].
  destruct (clone_netlist_facts s0 n U0 (startok_of s0 I0 F0 FTo) RD Hkn (fun t Ht => TK n t Ht) Hcl Hok) as [sQ [M [libs' NF]]].
  set (sF := fst (fst (clone_netlist s0 n))) in *.
  pose proof (nf_ry _ _ _ _ _ _ _ NF) as Y. pose proof (ri_st _ _ _ (rx_ri _ _ _ (ry_rx _ _ _ Y))) as T.
  apply (cs_of_ry s0 sQ M sF Y F0 RD).
  - apply (nf_next _ _ _ _ _ _ _ NF).
  - apply (nf_kind _ _ _ _ _ _ _ NF).
  - apply (nf_kids _ _ _ _ _ _ _ NF).
  - apply (nf_par _ _ _ _ _ _ _ NF).
  - apply (nf_ipwire _ _ _ _ _ _ _ NF).
  - apply (nf_wpins _ _ _ _ _ _ _ NF).
  - apply (nf_ipins _ _ _ _ _ _ _ NF).
  - apply (nf_iref _ _ _ _ _ _ _ NF).
  - intros y t' Hy. destruct (nf_top _ _ _ _ _ _ _ NF y t' Hy) as [H|[_ [t [Hin Ht]]]]; [left; exact H|right].
    rewrite (nf_kind _ _ _ _ _ _ _ NF), (st_kind _ _ _ T t t' Hin). apply (TK n t Ht).
  - apply (nf_topab _ _ _ _ _ _ _ NF).
Qed.

Theorem gg_clone_netlist s n :
  GG s -> kind_of s n = Some KNetlist -> Closed s n -> snd (fst (clone_netlist s n)) = None -> GG (fst (fst (clone_netlist s n))).
Proof.
  intros H Hk Hcl Hok. pose proof H as [U [FTo [RD TK]]]. pose proof U as [I0 [T0 [F0 [FT0 K0]]]].
  apply (gg_of_sum s _ H); [|apply (clone_netlist_sum s n U (proj2 H) Hk Hcl Hok)].
  apply (clone_netlist_inv s n U (startok_of s I0 F0 FTo) RD Hk (fun t Ht => TK n t Ht) Hcl Hok).
Qed.

(* ---- clone() of any element keeps the closed invariant ---- *)
Theorem gg_clone_any s e :
  GG s -> (kind_of s e = Some KNetlist -> Closed s e) ->
  snd (fst (clone_any s e)) = None -> GG (fst (fst (clone_any s e))).
Proof.
  intros H Hcl. unfold clone_any. destruct (kind_of s e) as [k|] eqn:Hk; [|cbn; discriminate].
  destruct k.
  - apply gg_clone_netlist; [exact H|exact Hk|apply Hcl; reflexivity].
  - apply gg_clone_library; assumption.
  - apply gg_clone_definition; assumption.
  - intros _. apply gg_clone_port; assumption.
  - intros _. apply gg_clone_cable; assumption.
  - intros _. apply gg_clone_wire; assumption.
  - intros _. apply gg_clone_pin; assumption.
  - apply gg_clone_instance; assumption.
Qed.
