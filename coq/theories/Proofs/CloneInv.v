(* C07 (copy well-formed) / C08: Definition.clone keeps the containment invariant: after a successful
   clone every container - old or new - lists exactly the elements that name it as parent, once. *)
From Coq Require Import List Arith Bool Lia.
From RecordUpdate Require Import RecordSet.
From SV Require Import Base.Base IR.State IR.NS IR.Ops Xform.Clone Proofs.AssocX Proofs.Frame Proofs.Inv1a
  Proofs.InvW Proofs.Fresh Proofs.RefusedFull Proofs.NsInv Proofs.CloneFrame.
Import ListNotations RecordSetNotations.

(* ---- a fragment of the heap: the objects allocated in [a, b) form a well-formed forest of their own ---- *)
Record Frag (a b : id) (s : state) : Prop := mkFrag {
  fg_iff : forall r p x, a <= p < b -> (In x (kids s r p) <-> par s r x = Some p);
  fg_nodup : forall r p, a <= p < b -> NoDup (kids s r p);
  fg_kin : forall r p x, a <= p < b -> In x (kids s r p) -> a <= x < b;
  fg_pin : forall r x p, a <= x < b -> par s r x = Some p -> a <= p < b
}.

(* nothing at or above the allocation counter *)
Definition Above (s : state) : Prop := forall r y, next s <= y -> kids s r y = [] /\ par s r y = None.

(* kids/par of identifiers below n are the same *)
Definition kpframe (n : id) (s s' : state) : Prop :=
  forall r y, y < n -> kids s' r y = kids s r y /\ par s' r y = par s r y.

Lemma kpframe_refl n s : kpframe n s s. Proof. intros r y _. split; reflexivity. Qed.
Lemma kpframe_trans n a b c : kpframe n a b -> kpframe n b c -> kpframe n a c.
Proof. intros H1 H2 r y Hy. destruct (H1 r y Hy), (H2 r y Hy). split; congruence. Qed.
Lemma kpframe_weaken n n' a b : n' <= n -> kpframe n a b -> kpframe n' a b.
Proof. intros Hn H r y Hy. apply H. lia. Qed.

Lemma frag_empty a s : Frag a a s.
Proof. constructor; intros; lia. Qed.

(* two consecutive fragments, the second built without touching the first *)
Lemma frag_join a b c s1 s2 :
  a <= b -> b <= c -> Frag a b s1 -> kpframe b s1 s2 -> Frag b c s2 -> Above s1 -> next s1 = b ->
  (forall r y, c <= y -> par s2 r y = None) -> Frag a c s2.
Proof.
  intros Hab Hbc [A1 A2 A3 A4] Hf [B1 B2 B3 B4] Hab1 Hn Hpc. constructor.
  - intros r p x Hp. destruct (Nat.lt_ge_cases p b) as [Hpb|Hpb].
    + destruct (Hf r p Hpb) as [Ek _]. rewrite Ek.
      destruct (Nat.lt_ge_cases x b) as [Hxb|Hxb].
      * destruct (Hf r x Hxb) as [_ Ep]. rewrite Ep. apply A1. lia.
      * split.
        -- intro Hin. apply (A3 r p x) in Hin; lia.
        -- intro Hpar. exfalso. destruct (Nat.lt_ge_cases x c) as [Hxc|Hxc].
           ++ assert (Hp' : b <= p < c) by (apply (B4 r x p); [lia|exact Hpar]). lia.
           ++ rewrite (Hpc r x Hxc) in Hpar. discriminate.
    + apply B1. lia.
  - intros r p Hp. destruct (Nat.lt_ge_cases p b) as [Hpb|Hpb]; [destruct (Hf r p Hpb) as [-> _]; apply A2; lia|apply B2; lia].
  - intros r p x Hp Hin. destruct (Nat.lt_ge_cases p b) as [Hpb|Hpb].
    + destruct (Hf r p Hpb) as [Ek _]. rewrite Ek in Hin. apply (A3 r p x) in Hin; lia.
    + apply (B3 r p x) in Hin; lia.
  - intros r x p Hx Hpar. destruct (Nat.lt_ge_cases x b) as [Hxb|Hxb].
    + destruct (Hf r x Hxb) as [_ Ep]. rewrite Ep in Hpar. apply (A4 r x p) in Hpar; lia.
    + apply (B4 r x p) in Hpar; lia.
Qed.

(* ---- writes that do not touch containment ---- *)
Definition kpsame (s s' : state) : Prop := kids s' = kids s /\ par s' = par s /\ next s' = next s.
Lemma kpsame_refl s : kpsame s s. Proof. repeat split. Qed.
Lemma kpsame_trans a b c : kpsame a b -> kpsame b c -> kpsame a c.
Proof. intros [A1 [A2 A3]] [B1 [B2 B3]]. repeat split; congruence. Qed.
Lemma kpsame_bind (r : R) f s : kpsame s (fst r) -> (forall s1, kpsame s1 (fst (f s1))) -> kpsame s (fst (r >>= f)).
Proof. destruct r as [s1 [x|]]; cbn; intros H1 H2; [exact H1|]. eapply kpsame_trans; [exact H1|apply H2]. Qed.
Lemma kpsame_fold_idsR f l : (forall s x, kpsame s (fst (f s x))) -> forall s, kpsame s (fst (fold_idsR f l s)).
Proof. intro H. induction l as [|x l IH]; intro s; cbn; [apply kpsame_refl|]. apply kpsame_bind; [apply H|apply IH]. Qed.
Lemma kpsame_struct s s' : struct_eq s s' -> kpsame s s'.
Proof. intro H. repeat split; [apply (se_kids _ _ H)|apply (se_par _ _ H)|apply (se_next _ _ H)]. Qed.

Lemma kpsame_port_rr m s p : kpsame s (fst (port_rr m s p)).
Proof. unfold port_rr. apply kpsame_fold_idsR. intros s1 i. destruct (mwire m (ipwire s1 i)); repeat split. Qed.
Lemma kpsame_cable_rr m s c : kpsame s (fst (cable_rr m s c)).
Proof. unfold cable_rr. apply kpsame_fold_idsR. intros s1 w. destruct (map_opt _ _); repeat split. Qed.
Lemma kpsame_inst_rr_def m s x : kpsame s (fst (inst_rr_def m s x)).
Proof. unfold inst_rr_def. destruct (map_opt _ _); repeat split. Qed.

(* allocation: the new identifier, nothing else about containment *)
Lemma clone_alloc_kp s k s1 x : clone_alloc s k = (s1, x) ->
  x = next s /\ next s1 = S (next s) /\ kids s1 = kids s /\ par s1 = par s.
Proof.
  unfold clone_alloc, alloc. cbn zeta.
  set (sa := s <| next := S (next s) |> <| kind_of ::= fun f => upd f (next s) (Some k) |>).
  destruct (has_data k); intro E; injection E as <- <-.
  - pose proof (se_ns_create sa (next s)) as H. cbn. rewrite (se_next _ _ H), (se_kids _ _ H), (se_par _ _ H). repeat split.
  - repeat split.
Qed.

(* parents are allocated identifiers *)
Definition ParLt (s : state) : Prop := forall r x p, par s r x = Some p -> p < next s.

(* ---- the leaves of the copy: pins, wires, instances ---- *)
Definition LeafSpec (f : SM -> id -> SM * id) : Prop :=
  forall s m x s' m' x', f (s, m) x = ((s', m'), x') ->
    x' = next s /\ next s' = S (next s) /\ kids s' = kids s /\ par s' = par s.

Lemma pin_clone1_leaf : LeafSpec pin_clone1.
Proof.
  intros s m i s' m' i' E. unfold pin_clone1 in E. destruct (clone_alloc s KPin) as [s1 x] eqn:Ea.
  destruct (clone_alloc_kp s KPin s1 x Ea) as [A [B [C D]]]. injection E as <- <- <-. repeat split; assumption.
Qed.
Lemma wire_clone1_leaf : LeafSpec wire_clone1.
Proof.
  intros s m i s' m' i' E. unfold wire_clone1 in E. destruct (clone_alloc s KWire) as [s1 x] eqn:Ea.
  destruct (clone_alloc_kp s KWire s1 x Ea) as [A [B [C D]]]. injection E as <- <- <-. repeat split; assumption.
Qed.
Lemma inst_clone1_leaf : LeafSpec inst_clone1.
Proof.
  intros s m i s' m' i' E. unfold inst_clone1 in E. destruct (clone_alloc s KInstance) as [s1 x] eqn:Ea.
  destruct (clone_alloc_kp s KInstance s1 x Ea) as [A [B [C D]]]. injection E as <- <- <-. repeat split; assumption.
Qed.

Lemma clone_each_leaf f : LeafSpec f -> forall l s m s' m' l', clone_each f l (s, m) = ((s', m'), l') ->
  l' = seq (next s) (length l) /\ next s' = next s + length l /\ kids s' = kids s /\ par s' = par s.
Proof.
  intro Hf. induction l as [|x l IH]; intros s m s' m' l' E; cbn [clone_each] in E.
  - injection E as <- <- <-. cbn. repeat split. lia.
  - destruct (f (s, m) x) as [[s1 m1] x'] eqn:E1. destruct (Hf s m x s1 m1 x' E1) as [A [B [C D]]].
    destruct (clone_each f l (s1, m1)) as [[s2 m2] l2] eqn:E2. destruct (IH s1 m1 s2 m2 l2 E2) as [A2 [B2 [C2 D2]]].
    injection E as <- <- <-. cbn [length seq]. rewrite A, A2, B. repeat split; try congruence. lia.
Qed.

(* a fresh parent p' receives the fresh children L *)
Lemma fold_set_par_spec r p' : forall L s,
  kids (fold_ids (fun s i' => set_par s r i' (Some p')) L s) = kids s /\
  next (fold_ids (fun s i' => set_par s r i' (Some p')) L s) = next s /\
  (forall r0 y, par (fold_ids (fun s i' => set_par s r i' (Some p')) L s) r0 y =
                if rel_eqb r0 r && memb y L then Some p' else par s r0 y).
Proof.
  induction L as [|c L IH]; intro s; cbn [fold_ids].
  - repeat split. intros r0 y. cbn. rewrite andb_false_r. reflexivity.
  - destruct (IH (set_par s r c (Some p'))) as [A [B C]]. split; [rewrite A; reflexivity|]. split; [rewrite B; reflexivity|].
    intros r0 y. rewrite C. cbn [memb]. cbn. unfold upd2, upd.
    destruct (rel_eqb r0 r); cbn [andb]; [|reflexivity].
    destruct (memb y L); [rewrite orb_true_r; reflexivity|]. rewrite orb_false_r.
    destruct (Nat.eqb y c); reflexivity.
Qed.

Lemma memb_seq y a n : memb y (seq a n) = (a <=? y) && (y <? a + n).
Proof.
  destruct (memb y (seq a n)) eqn:E.
  - apply memb_In, in_seq in E. symmetry. apply andb_true_iff. split; [apply Nat.leb_le|apply Nat.ltb_lt]; lia.
  - symmetry. apply andb_false_iff. apply memb_false in E. rewrite in_seq in E.
    destruct (Nat.leb_spec a y); [right; apply Nat.ltb_ge; lia|left; reflexivity].
Qed.

(* ports and cables: one fresh bundle with its fresh items attached *)
Definition BundleSpec (f : SM -> id -> SM * id) : Prop :=
  forall s m x s' m' x', Above s -> ParLt s -> f (s, m) x = ((s', m'), x') ->
    x' = next s /\ next s < next s' /\ kpframe (next s) s s' /\ Frag (next s) (next s') s' /\
    (forall r, par s' r x' = None) /\ Above s' /\ ParLt s'.

Lemma bundle_spec (kd : kind) (rl : rel) (leaf : SM -> id -> SM * id) (srcitems : state -> id -> list id) :
  LeafSpec leaf ->
  forall s m p s' m' p',
  Above s -> ParLt s ->
  (let '(s1, x) := clone_alloc s kd in
   let '((s2, m2), items') := clone_each leaf (srcitems s1 p) (s1, (p, x) :: m) in
   let s3 := set_kids s2 rl x items' in
   let s4 := fold_ids (fun s i' => set_par s rl i' (Some x)) items' s3 in
   ((copy_data (copy_bundle s4 p x) p x, m2), x)) = ((s', m'), p') ->
  p' = next s /\ next s < next s' /\ kpframe (next s) s s' /\ Frag (next s) (next s') s' /\
  (forall r, par s' r p' = None) /\ Above s' /\ ParLt s'.
Proof.
  intros Hleaf s m p s' m' p' Hab Hpl E.
  destruct (clone_alloc s kd) as [s1 x] eqn:Ea. destruct (clone_alloc_kp s kd s1 x Ea) as [Hx [Hn1 [Hk1 Hp1]]].
  destruct (clone_each leaf (srcitems s1 p) (s1, (p, x) :: m)) as [[s2 m2] items'] eqn:Ee.
  destruct (clone_each_leaf leaf Hleaf _ _ _ _ _ _ Ee) as [Hit [Hn2 [Hk2 Hp2]]].
  set (n := length (srcitems s1 p)) in *. set (a := next s) in *.
  destruct (fold_set_par_spec rl x items' (set_kids s2 rl x items')) as [Hk4 [Hn4 Hp4]].
  injection E as <- <- <-.
  assert (Hnext : next (copy_data (copy_bundle (fold_ids (fun s i' => set_par s rl i' (Some x)) items' (set_kids s2 rl x items')) p x) p x) = S a + n).
  { cbn. rewrite Hn4. cbn. rewrite Hn2, Hn1. reflexivity. }
  assert (Hkids : forall r y, kids (copy_data (copy_bundle (fold_ids (fun s i' => set_par s rl i' (Some x)) items' (set_kids s2 rl x items')) p x) p x) r y =
                              if rel_eqb r rl && Nat.eqb y x then items' else kids s r y).
  { intros r y. cbn. rewrite Hk4. cbn. rewrite kids_upd2_ns, Hk2, Hk1. reflexivity. }
  assert (Hpar : forall r y, par (copy_data (copy_bundle (fold_ids (fun s i' => set_par s rl i' (Some x)) items' (set_kids s2 rl x items')) p x) p x) r y =
                             if rel_eqb r rl && memb y items' then Some x else par s r y).
  { intros r y. cbn. rewrite Hp4. cbn. rewrite Hp2, Hp1. reflexivity. }
  set (sF := copy_data (copy_bundle (fold_ids (fun s i' => set_par s rl i' (Some x)) items' (set_kids s2 rl x items')) p x) p x) in *.
  rewrite Hn1 in Hit. subst x. fold a in Hit, Hkids, Hpar.
  assert (Hmem : forall y, memb y items' = (S a <=? y) && (y <? S a + n)) by (intro y; rewrite Hit; apply memb_seq).
  split; [reflexivity|]. split; [rewrite Hnext; lia|].
  split.
  { intros r y Hy. rewrite Hkids, Hpar, Hmem.
    replace (Nat.eqb y a) with false by (symmetry; apply Nat.eqb_neq; lia).
    replace (S a <=? y) with false by (symmetry; apply Nat.leb_gt; lia). rewrite !andb_false_r. split; reflexivity. }
  split.
  { rewrite Hnext. constructor.
    - intros r q y Hq. rewrite Hkids, Hpar, Hmem.
      destruct (rel_eqb r rl) eqn:Er; cbn [andb].
      + destruct (Nat.eqb_spec q a) as [->|Hqa].
        * rewrite Hit, in_seq. destruct (Nat.leb_spec (S a) y), (Nat.ltb_spec y (S a + n)); cbn [andb].
          -- split; [reflexivity|intros _; lia].
          -- split; [lia|]. intro HH. apply Hpl in HH. fold a in HH. lia.
          -- split; [lia|]. intro HH. apply Hpl in HH. fold a in HH. lia.
          -- split; [lia|]. intro HH. apply Hpl in HH. fold a in HH. lia.
        * rewrite (proj1 (Hab r q ltac:(fold a; lia))). split; [intros []|].
          destruct ((S a <=? y) && (y <? S a + n)); [intro HH; injection HH as HH; lia|intro HH; apply Hpl in HH; fold a in HH; lia].
      + rewrite (proj1 (Hab r q ltac:(fold a; lia))). split; [intros []|]. intro HH. apply Hpl in HH. fold a in HH. lia.
    - intros r q Hq. rewrite Hkids. destruct (rel_eqb r rl && Nat.eqb q a); [rewrite Hit; apply seq_NoDup|].
      rewrite (proj1 (Hab r q ltac:(fold a; lia))). constructor.
    - intros r q y Hq. rewrite Hkids. destruct (rel_eqb r rl && Nat.eqb q a); [rewrite Hit, in_seq; lia|].
      rewrite (proj1 (Hab r q ltac:(fold a; lia))). intros [].
    - intros r y q Hy. rewrite Hpar, Hmem. destruct (rel_eqb r rl && ((S a <=? y) && (y <? S a + n))); [intro HH; injection HH as <-; lia|].
      rewrite (proj2 (Hab r y ltac:(fold a; lia))). discriminate. }
  split.
  { intro r. rewrite Hpar, Hmem. replace (S a <=? a) with false by (symmetry; apply Nat.leb_gt; lia). rewrite !andb_false_r.
    apply (proj2 (Hab r a (Nat.le_refl _))). }
  split.
  { intros r y Hy. rewrite Hnext in Hy. rewrite Hkids, Hpar, Hmem.
    replace (Nat.eqb y a) with false by (symmetry; apply Nat.eqb_neq; lia).
    replace (y <? S a + n) with false by (symmetry; apply Nat.ltb_ge; lia). rewrite !andb_false_r.
    apply Hab. fold a. lia. }
  { intros r y q. rewrite Hpar, Hnext. destruct (rel_eqb r rl && memb y items'); [intro HH; injection HH as <-; lia|].
    intro HH. apply Hpl in HH. fold a in HH. lia. }
Qed.

Lemma port_clone1_bundle : BundleSpec port_clone1.
Proof.
  intros s m p s' m' p' Hab Hpl E.
  apply (bundle_spec KPort RPins pin_clone1 (fun s1 p => kids s1 RPins p) pin_clone1_leaf s m p s' m' p' Hab Hpl). exact E.
Qed.

Lemma cable_clone1_bundle : BundleSpec cable_clone1.
Proof.
  intros s m p s' m' p' Hab Hpl E.
  apply (bundle_spec KCable RWires wire_clone1 (fun s1 p => kids s1 RWires p) wire_clone1_leaf s m p s' m' p' Hab Hpl). exact E.
Qed.

(* instances are leaves: fresh, childless, parentless *)
Lemma frag_of_above a b s s' :
  Above s -> ParLt s -> next s <= a -> kids s' = kids s -> par s' = par s -> Frag a b s'.
Proof.
  intros Hab Hpl Ha Hk Hp. constructor; rewrite ?Hk, ?Hp.
  - intros r p x Hpr. rewrite (proj1 (Hab r p ltac:(lia))). split; [intros []|intro H; apply Hpl in H; lia].
  - intros r p Hpr. rewrite (proj1 (Hab r p ltac:(lia))). constructor.
  - intros r p x Hpr. rewrite (proj1 (Hab r p ltac:(lia))). intros [].
  - intros r x p Hx. rewrite (proj2 (Hab r x ltac:(lia))). discriminate.
Qed.

Lemma inst_clone1_bundle : BundleSpec inst_clone1.
Proof.
  intros s m x s' m' x' Hab Hpl E. destruct (inst_clone1_leaf s m x s' m' x' E) as [A [B [C D]]].
  split; [exact A|]. split; [lia|]. split; [intros r y _; rewrite C, D; split; reflexivity|].
  split; [apply (frag_of_above _ _ s); try assumption; apply Nat.le_refl|].
  split; [intro r; rewrite D, A; apply (proj2 (Hab r (next s) (Nat.le_refl _)))|].
  split; [intros r y Hy; rewrite C, D; apply Hab; lia|intros r y q; rewrite D, B; intro H; apply Hpl in H; lia].
Qed.

(* a sequence of sibling bundles *)
Lemma clone_each_bundle f : BundleSpec f -> forall l s m s' m' l',
  Above s -> ParLt s -> clone_each f l (s, m) = ((s', m'), l') ->
  next s <= next s' /\ kpframe (next s) s s' /\ Frag (next s) (next s') s' /\
  (forall c, In c l' -> next s <= c < next s' /\ forall r, par s' r c = None) /\ NoDup l' /\ Above s' /\ ParLt s'.
Proof.
  intro Hf. induction l as [|x l IH]; intros s m s' m' l' Hab Hpl E; cbn [clone_each] in E.
  - injection E as <- <- <-. split; [apply Nat.le_refl|]. split; [apply kpframe_refl|]. split; [apply frag_empty|].
    split; [intros c []|]. split; [constructor|split; assumption].
  - destruct (f (s, m) x) as [[s1 m1] x'] eqn:E1.
    destruct (Hf s m x s1 m1 x' Hab Hpl E1) as [A [B [C [D [P1 [Ab1 Pl1]]]]]].
    destruct (clone_each f l (s1, m1)) as [[s2 m2] l2] eqn:E2.
    destruct (IH s1 m1 s2 m2 l2 Ab1 Pl1 E2) as [B2 [C2 [D2 [R2 [N2 [Ab2 Pl2]]]]]].
    injection E as <- <- <-.
    split; [lia|]. split; [eapply kpframe_trans; [exact C|apply (kpframe_weaken (next s1)); [lia|exact C2]]|].
    split.
    { apply (frag_join (next s) (next s1) (next s2) s1 s2); try lia; try assumption; try reflexivity.
      intros r y Hy. apply (proj2 (Ab2 r y Hy)). }
    split.
    { intros c [<-|Hc].
      - split; [lia|]. intro r. destruct (C2 r x' ltac:(lia)) as [_ Ep]. rewrite Ep. apply P1.
      - destruct (R2 c Hc) as [Hr Hp]. split; [lia|exact Hp]. }
    split; [|split; assumption].
    constructor; [|exact N2]. intro Hin. destruct (R2 x' Hin) as [Hr _]. lia.
Qed.

(* the parent pointers set while the pointers of the copy are redirected *)
Lemma fold_rr_par (g : state -> id -> R) (r : rel) (d' : id) :
  (forall s y, kpsame s (fst (g s y))) -> forall L s,
  let res := fold_idsR (fun s c => g (set_par s r c (Some d')) c) L s in
  snd res = None ->
  kids (fst res) = kids s /\ next (fst res) = next s /\
  (forall r0 y, par (fst res) r0 y = if rel_eqb r0 r && memb y L then Some d' else par s r0 y).
Proof.
  intro Hg. induction L as [|c L IH]; intros s; cbn [fold_idsR].
  - intros _. cbn. repeat split. intros r0 y. rewrite andb_false_r. reflexivity.
  - cbn zeta. destruct (Hg (set_par s r c (Some d')) c) as [K1 [P1 N1]].
    destruct (g (set_par s r c (Some d')) c) as [s1 [e|]]; cbn [bindR fst snd] in *; [discriminate|].
    intro Hs. destruct (IH s1 Hs) as [A [B C]]. split; [rewrite A, K1; reflexivity|]. split; [rewrite B, N1; reflexivity|].
    intros r0 y. rewrite C, P1. cbn [memb]. cbn. unfold upd2, upd.
    destruct (rel_eqb r0 r); cbn [andb]; [|reflexivity].
    destruct (memb y L); [rewrite orb_true_r; reflexivity|]. rewrite orb_false_r. destruct (Nat.eqb y c); reflexivity.
Qed.

Lemma fold_rr_par_E (g : state -> id -> R) (r : rel) (d' : id) :
  (forall s y, kpsame s (fst (g s y))) -> forall L s s',
  fold_idsR (fun s c => g (set_par s r c (Some d')) c) L s = (s', None) ->
  kids s' = kids s /\ next s' = next s /\
  (forall r0 y, par s' r0 y = if rel_eqb r0 r && memb y L then Some d' else par s r0 y).
Proof.
  intros Hg L s s' E. pose proof (fold_rr_par g r d' Hg L s) as H. cbn zeta in H. rewrite E in H. apply H. reflexivity.
Qed.

(* ---- Definition._clone: the containment of the copy ---- *)
Lemma above_alloc s k s1 x : Above s -> ParLt s -> clone_alloc s k = (s1, x) -> Above s1 /\ ParLt s1.
Proof.
  intros Hab Hpl E. destruct (clone_alloc_kp s k s1 x E) as [A [B [C D]]]. split.
  - intros r y Hy. rewrite C, D. apply Hab. lia.
  - intros r y q. rewrite D, B. intro H. apply Hpl in H. lia.
Qed.

Definition KK (ports' cables' children' : list id) (r : rel) : list id :=
  match r with RPorts => ports' | RCables => cables' | RChildren => children' | _ => [] end.

Lemma def_clone1_kp s m d s' m' d' :
  Above s -> ParLt s -> def_clone1 (s, m) d = ((s', m', d'), None) ->
  d' = next s /\ next s < next s' /\ kpframe (next s) s s' /\ Frag (next s) (next s') s' /\
  (forall r, par s' r d' = None) /\ Above s' /\ ParLt s'.
Proof.
  intros Hab Hpl E. unfold def_clone1 in E.
  destruct (clone_alloc s KDefinition) as [s1 x] eqn:Ea.
  destruct (clone_alloc_kp s KDefinition s1 x Ea) as [Hx [Hn1 [Hk1 Hp1]]].
  destruct (above_alloc s KDefinition s1 x Hab Hpl Ea) as [Ab1 Pl1].
  remember (next s) as a eqn:Ea0. subst x.
  remember (copy_data s1 d a) as s1c eqn:Es1c.
  assert (Ab1c : Above s1c) by (subst s1c; exact Ab1). assert (Pl1c : ParLt s1c) by (subst s1c; exact Pl1).
  match type of E with context [clone_each port_clone1 ?l ?sm] => destruct (clone_each port_clone1 l sm) as [[s2 m2] ports'] eqn:E2 end.
  destruct (clone_each_bundle port_clone1 port_clone1_bundle _ _ _ _ _ _ Ab1c Pl1c E2) as [L2 [F2 [G2 [R2 [N2 [Ab2 Pl2]]]]]].
  match type of E with context [clone_each cable_clone1 ?l ?sm] => destruct (clone_each cable_clone1 l sm) as [[s3 m3] cables'] eqn:E3 end.
  destruct (clone_each_bundle cable_clone1 cable_clone1_bundle _ _ _ _ _ _ Ab2 Pl2 E3) as [L3 [F3 [G3 [R3 [N3 [Ab3 Pl3]]]]]].
  match type of E with context [clone_each inst_clone1 ?l ?sm] => destruct (clone_each inst_clone1 l sm) as [[s4 m4] children'] eqn:E4 end.
  destruct (clone_each_bundle inst_clone1 inst_clone1_bundle _ _ _ _ _ _ Ab3 Pl3 E4) as [L4 [F4 [G4 [R4 [N4 [Ab4 Pl4]]]]]].
  assert (Hn1c : next s1c = S a) by (subst s1c; exact Hn1).
  rewrite Hn1c in *.
  (* the three sibling groups form one fragment *)
  assert (G24 : Frag (S a) (next s4) s4).
  { apply (frag_join (S a) (next s3) (next s4) s3 s4); try lia; try assumption; try reflexivity.
    - apply (frag_join (S a) (next s2) (next s3) s2 s3); try lia; try assumption; try reflexivity.
      intros r y Hy. apply (proj2 (Ab3 r y Hy)).
    - intros r y Hy. apply (proj2 (Ab4 r y Hy)). }
  assert (F14 : kpframe (S a) s1c s4).
  { eapply kpframe_trans; [exact F2|]. eapply kpframe_trans; [apply (kpframe_weaken (next s2)); [lia|exact F3]|apply (kpframe_weaken (next s3)); [lia|exact F4]]. }
  set (K := KK ports' cables' children').
  assert (HK : forall r c, In c (K r) -> S a <= c < next s4 /\ par s4 r c = None).
  { intros r c Hc. unfold K, KK in Hc. destruct r; try destruct Hc.
    - destruct (R2 c Hc) as [Hr Hp0]. split; [lia|].
      destruct (F3 RPorts c ltac:(lia)) as [_ E3p]. destruct (F4 RPorts c ltac:(lia)) as [_ E4p]. rewrite E4p, E3p. apply Hp0.
    - destruct (R3 c Hc) as [Hr Hp0]. split; [lia|]. destruct (F4 RCables c ltac:(lia)) as [_ E4p]. rewrite E4p. apply Hp0.
    - destruct (R4 c Hc) as [Hr Hp0]. split; [lia|apply Hp0]. }
  assert (HKnd : forall r, NoDup (K r)) by (intro r; unfold K, KK; destruct r; try constructor; assumption).
  (* the root of the copy, before its children are attached *)
  assert (Ha4 : forall r, kids s4 r a = [] /\ par s4 r a = None).
  { intro r. destruct (F14 r a ltac:(lia)) as [Ek Ep]. rewrite Ek, Ep. subst s1c. cbn. rewrite Hk1, Hp1. apply Hab. subst a. apply Nat.le_refl. }
  set (s5 := set_drefs (set_kids (set_kids (set_kids s4 RPorts a ports') RCables a cables') RChildren a children') a (drefs s4 d)) in *.
  assert (Hk5 : forall r y, kids s5 r y = if Nat.eqb y a then K r else kids s4 r y).
  { intros r y. unfold s5. cbn. rewrite !kids_upd2_ns. unfold K, KK.
    destruct (Nat.eqb_spec y a) as [->|]; [|rewrite !andb_false_r; reflexivity].
    destruct r; cbn; rewrite ?andb_true_r; try reflexivity; apply (proj1 (Ha4 _)). }
  assert (Hp5 : par s5 = par s4) by reflexivity. assert (Hn5 : next s5 = next s4) by reflexivity.
  (* the three loops that redirect pointers and set the parent of each child *)
  set (rr := fold_idsR (fun s p' => port_rr m4 (set_par s RPorts p' (Some a)) p') ports' s5 >>= fun s6 =>
             fold_idsR (fun s c' => cable_rr m4 (set_par s RCables c' (Some a)) c') cables' s6 >>= fun s7 =>
             fold_idsR (fun s x' => inst_rr_def m4 (set_par s RChildren x' (Some a)) x') children' s7).
  assert (Hrr : snd rr = None -> kids (fst rr) = kids s5 /\ next (fst rr) = next s5 /\
                (forall r y, par (fst rr) r y = if memb y (K r) then Some a else par s5 r y)).
  { unfold rr.
    destruct (fold_idsR (fun s p' => port_rr m4 (set_par s RPorts p' (Some a)) p') ports' s5) as [s6 [e|]] eqn:Ef1; cbn [bindR fst snd]; [discriminate|].
    destruct (fold_rr_par_E (port_rr m4) RPorts a (kpsame_port_rr m4) ports' s5 s6 Ef1) as [K6 [N6 P6]].
    destruct (fold_idsR (fun s c' => cable_rr m4 (set_par s RCables c' (Some a)) c') cables' s6) as [s7 [e|]] eqn:Ef2; cbn [bindR fst snd]; [discriminate|].
    destruct (fold_rr_par_E (cable_rr m4) RCables a (kpsame_cable_rr m4) cables' s6 s7 Ef2) as [K7 [N7 P7]].
    destruct (fold_idsR (fun s x' => inst_rr_def m4 (set_par s RChildren x' (Some a)) x') children' s7) as [s8 [e|]] eqn:Ef3; cbn [fst snd]; [discriminate|].
    destruct (fold_rr_par_E (inst_rr_def m4) RChildren a (kpsame_inst_rr_def m4) children' s7 s8 Ef3) as [K8 [N8 P8]].
    intros _.
    split; [congruence|]. split; [congruence|]. intros r y. rewrite P8, P7, P6. unfold K, KK.
    destruct r; cbn [rel_eqb andb]; try reflexivity. }
  injection E as <- <- <- Esnd. change (snd rr = None) in Esnd. destruct (Hrr Esnd) as [KF [NF PF]].
  change (a = a /\ a < next (fst rr) /\ kpframe a s (fst rr) /\ Frag a (next (fst rr)) (fst rr) /\
          (forall r, par (fst rr) r a = None) /\ Above (fst rr) /\ ParLt (fst rr)).
  set (sF := fst rr) in *.
  assert (HkF : forall r y, kids sF r y = if Nat.eqb y a then K r else kids s4 r y) by (intros; rewrite KF; apply Hk5).
  assert (HpF : forall r y, par sF r y = if memb y (K r) then Some a else par s4 r y) by (intros; rewrite PF, Hp5; reflexivity).
  assert (HnF : next sF = next s4) by (rewrite NF; exact Hn5).
  assert (Hmemb : forall r y, memb y (K r) = true -> S a <= y < next s4 /\ par s4 r y = None) by (intros r y H; apply HK; apply memb_In; exact H).
  split; [reflexivity|]. split; [rewrite HnF; lia|].
  split.
  { intros r y Hy. rewrite HkF, HpF. replace (Nat.eqb y a) with false by (symmetry; apply Nat.eqb_neq; lia).
    destruct (memb y (K r)) eqn:Em; [destruct (Hmemb r y Em); lia|].
    destruct (F14 r y ltac:(lia)) as [Ek Ep]. rewrite Ek, Ep. subst s1c. cbn. rewrite Hk1, Hp1. split; reflexivity. }
  split.
  { rewrite HnF. constructor.
    - intros r p y Hp. rewrite HkF, HpF. destruct (Nat.eqb_spec p a) as [->|Hpa].
      + split.
        * intro Hin. apply memb_In in Hin. rewrite Hin. reflexivity.
        * destruct (memb y (K r)) eqn:Em; [intros _; apply memb_In; exact Em|]. intro Hpar. exfalso.
          destruct (Nat.lt_ge_cases y (S a)) as [Hlt|Hge].
          -- destruct (F14 r y Hlt) as [_ Ep]. rewrite Ep in Hpar. subst s1c. cbn in Hpar. rewrite Hp1 in Hpar. apply Hpl in Hpar. lia.
          -- destruct (Nat.lt_ge_cases y (next s4)) as [Hlt2|Hge2]; [apply (fg_pin _ _ _ G24 r y a) in Hpar; lia|].
             rewrite (proj2 (Ab4 r y Hge2)) in Hpar. discriminate.
      + assert (Hp' : S a <= p < next s4) by lia. rewrite (fg_iff _ _ _ G24 r p y Hp').
        destruct (memb y (K r)) eqn:Em; [|tauto]. destruct (Hmemb r y Em) as [_ Hnone]. rewrite Hnone.
        split; [discriminate|intro H; injection H as H; lia].
    - intros r p Hp. rewrite HkF. destruct (Nat.eqb p a) eqn:Epa; [apply HKnd|]. apply Nat.eqb_neq in Epa. apply (fg_nodup _ _ _ G24). lia.
    - intros r p y Hp. rewrite HkF. destruct (Nat.eqb p a) eqn:Epa.
      + intro Hin. destruct (HK r y Hin). lia.
      + apply Nat.eqb_neq in Epa. intro Hin. apply (fg_kin _ _ _ G24 r p y) in Hin; lia.
    - intros r y p Hy. rewrite HpF. destruct (memb y (K r)) eqn:Em; [intro H; injection H as <-; lia|].
      destruct (Nat.eq_dec y a) as [->|Hya]; [rewrite (proj2 (Ha4 r)); discriminate|].
      intro Hpar. apply (fg_pin _ _ _ G24 r y p) in Hpar; lia. }
  split.
  { intro r. rewrite HpF. destruct (memb a (K r)) eqn:Em; [destruct (Hmemb r a Em); lia|apply (proj2 (Ha4 r))]. }
  split.
  { intros r y Hy. rewrite HnF in Hy. rewrite HkF, HpF. replace (Nat.eqb y a) with false by (symmetry; apply Nat.eqb_neq; lia).
    destruct (memb y (K r)) eqn:Em; [destruct (Hmemb r y Em); lia|apply Ab4; exact Hy]. }
  { intros r y q. rewrite HpF, HnF. destruct (memb y (K r)); [intro H; injection H as <-; lia|apply Pl4]. }
Qed.

(* ---- from the fragment to the invariant ---- *)
Lemma above_of_fresh s : Fresh s -> Above s.
Proof. intros F r y Hy. split; [apply (f_kids _ F)|apply (f_par _ F)]; exact Hy. Qed.

Lemma parlt_of_inv1a s : Inv1a s -> Above s -> ParLt s.
Proof.
  intros [H1 _] Ab r x p Hp. destruct (Nat.lt_ge_cases p (next s)) as [Hlt|Hge]; [exact Hlt|].
  apply H1 in Hp. rewrite (proj1 (Ab r p Hge)) in Hp. destruct Hp.
Qed.

Lemma inv1a_extend s s' :
  Inv1a s -> Above s -> kpframe (next s) s s' -> Frag (next s) (next s') s' -> Above s' -> next s <= next s' -> Inv1a s'.
Proof.
  intros [H1 H2] Ab Hf [G1 G2 G3 G4] Ab' Hn. pose proof (parlt_of_inv1a s (mkInv1a _ H1 H2) Ab) as Pl. constructor.
  - intros r p x. destruct (Nat.lt_ge_cases p (next s)) as [Hp|Hp].
    + destruct (Hf r p Hp) as [Ek _]. rewrite Ek. destruct (Nat.lt_ge_cases x (next s)) as [Hx|Hx].
      * destruct (Hf r x Hx) as [_ Ep]. rewrite Ep. apply H1.
      * split.
        -- intro Hin. apply H1 in Hin. rewrite (proj2 (Ab r x Hx)) in Hin. discriminate.
        -- intro Hpar. exfalso. destruct (Nat.lt_ge_cases x (next s')) as [Hx'|Hx'].
           ++ apply (G4 r x p) in Hpar; lia.
           ++ rewrite (proj2 (Ab' r x Hx')) in Hpar. discriminate.
    + destruct (Nat.lt_ge_cases p (next s')) as [Hp'|Hp']; [apply G1; lia|].
      rewrite (proj1 (Ab' r p Hp')). split; [intros []|]. intro Hpar. exfalso.
      destruct (Nat.lt_ge_cases x (next s)) as [Hx|Hx].
      * destruct (Hf r x Hx) as [_ Ep]. rewrite Ep in Hpar. apply Pl in Hpar. lia.
      * destruct (Nat.lt_ge_cases x (next s')) as [Hx'|Hx'].
        -- apply (G4 r x p) in Hpar; lia.
        -- rewrite (proj2 (Ab' r x Hx')) in Hpar. discriminate.
  - intros r p. destruct (Nat.lt_ge_cases p (next s)) as [Hp|Hp].
    + destruct (Hf r p Hp) as [-> _]. apply H2.
    + destruct (Nat.lt_ge_cases p (next s')) as [Hp'|Hp']; [apply G2; lia|]. rewrite (proj1 (Ab' r p Hp')). constructor.
Qed.

Lemma inv1a_kpsame s s' : kpsame s s' -> Inv1a s -> Inv1a s'.
Proof. intros [A [B _]]. apply inv1a_cont. split; assumption. Qed.

Lemma kpsame_register_child s x : kpsame s (fst (register_child s x)).
Proof. unfold register_child. destruct (iref s x); repeat split. Qed.
Lemma kpsame_reapply s c : kpsame s (fst (reapply s c)).
Proof.
  unfold reapply. destruct (sassoc str_NS (data s c)); [|apply kpsame_refl].
  apply kpsame_bind; [apply kpsame_struct, se_dict_del|intro s1; apply kpsame_struct, se_dict_set].
Qed.

(* Definition.clone keeps the containment invariant *)
Theorem clone_definition_inv1a s d :
  Inv1a s -> Fresh s -> snd (fst (clone_definition s d)) = None -> Inv1a (fst (fst (clone_definition s d))).
Proof.
  intros I F. pose proof (above_of_fresh s F) as Ab. pose proof (parlt_of_inv1a s I Ab) as Pl.
  unfold clone_definition. destruct (def_clone1 (s, []) d) as [[[s1 m1] d'] [e|]] eqn:E; cbn [fst snd]; [discriminate|].
  destruct (def_clone1_kp s [] d s1 m1 d' Ab Pl E) as [_ [Hn [Hf [Hg [_ [Ab1 _]]]]]].
  intros _. assert (I1 : Inv1a s1) by (apply (inv1a_extend s s1); try assumption; lia).
  refine (inv1a_kpsame s1 _ _ I1). apply kpsame_bind.
  - apply kpsame_fold_idsR. intros; apply kpsame_register_child.
  - intro s2. eapply kpsame_trans; [|apply kpsame_reapply]. repeat split.
Qed.

(* ---- kinds and references at or above the counter stay at their defaults ---- *)
Definition KI (s s' : state) : Prop :=
  next s <= next s' /\ forall x, next s' <= x -> kind_of s' x = kind_of s x /\ iref s' x = iref s x.
Lemma ki_refl s : KI s s. Proof. split; [apply Nat.le_refl|intros; split; reflexivity]. Qed.
Lemma ki_trans a b c : KI a b -> KI b c -> KI a c.
Proof.
  intros [A1 A2] [B1 B2]. split; [lia|]. intros x Hx. destruct (B2 x Hx) as [-> ->]. apply A2. lia.
Qed.
Lemma ki_same s s' : kind_of s' = kind_of s -> iref s' = iref s -> next s' = next s -> KI s s'.
Proof. intros A B C. split; [lia|]. intros x _. rewrite A, B. split; reflexivity. Qed.
Lemma ki_struct s s' : struct_eq s s' -> KI s s'.
Proof. intro H. apply ki_same; [apply (se_kind _ _ H)|apply (se_iref _ _ H)|apply (se_next _ _ H)]. Qed.
Lemma ki_bind (r : R) f s : KI s (fst r) -> (forall s1, KI s1 (fst (f s1))) -> KI s (fst (r >>= f)).
Proof. destruct r as [s1 [x|]]; cbn; intros H1 H2; [exact H1|]. eapply ki_trans; [exact H1|apply H2]. Qed.
Lemma ki_fold_idsR f l : (forall s x, KI s (fst (f s x))) -> forall s, KI s (fst (fold_idsR f l s)).
Proof. intro H. induction l as [|x l IH]; intro s; cbn; [apply ki_refl|]. apply ki_bind; [apply H|apply IH]. Qed.
Lemma ki_fold_ids f l : (forall s x, KI s (f s x)) -> forall s, KI s (fold_ids f l s).
Proof. intro H. induction l as [|x l IH]; intro s; cbn; [apply ki_refl|]. eapply ki_trans; [apply H|apply IH]. Qed.

Lemma ki_clone_alloc s k : KI s (fst (clone_alloc s k)).
Proof.
  unfold clone_alloc, alloc. cbn zeta.
  set (sa := s <| next := S (next s) |> <| kind_of ::= fun f => upd f (next s) (Some k) |>).
  assert (Ha : KI s sa).
  { split; [cbn; lia|]. intros x Hx. cbn in Hx. cbn. unfold upd.
    replace (Nat.eqb x (next s)) with false by (symmetry; apply Nat.eqb_neq; lia). split; reflexivity. }
  destruct (has_data k); cbn [fst]; [|exact Ha].
  eapply ki_trans; [exact Ha|]. pose proof (se_ns_create sa (next s)) as H.
  apply ki_same; cbn; [apply (se_kind _ _ H)|apply (se_iref _ _ H)|apply (se_next _ _ H)].
Qed.

Definition KIf (f : SM -> id -> SM * id) : Prop := forall s m x s' m' x', f (s, m) x = ((s', m'), x') -> KI s s'.

Lemma ki_clone_each f : KIf f -> forall l s m s' m' l', clone_each f l (s, m) = ((s', m'), l') -> KI s s'.
Proof.
  intro Hf. induction l as [|x l IH]; intros s m s' m' l' E; cbn [clone_each] in E.
  - injection E as <- <- <-. apply ki_refl.
  - destruct (f (s, m) x) as [[s1 m1] x'] eqn:E1. destruct (clone_each f l (s1, m1)) as [[s2 m2] l2] eqn:E2.
    injection E as <- <- <-. eapply ki_trans; [apply (Hf _ _ _ _ _ _ E1)|apply (IH _ _ _ _ _ E2)].
Qed.

Lemma ki_pin_clone1 : KIf pin_clone1.
Proof.
  intros s m i s' m' i' E. unfold pin_clone1 in E. pose proof (ki_clone_alloc s KPin) as H. destruct (clone_alloc s KPin) as [s1 x].
  injection E as <- <- <-. cbn [fst] in *. eapply ki_trans; [exact H|]. apply ki_same; reflexivity.
Qed.
Lemma ki_wire_clone1 : KIf wire_clone1.
Proof.
  intros s m i s' m' i' E. unfold wire_clone1 in E. pose proof (ki_clone_alloc s KWire) as H. destruct (clone_alloc s KWire) as [s1 x].
  injection E as <- <- <-. cbn [fst] in *. eapply ki_trans; [exact H|]. apply ki_same; reflexivity.
Qed.
Lemma ki_inst_clone1 : KIf inst_clone1.
Proof.
  intros s m i s' m' i' E. unfold inst_clone1 in E. destruct (clone_alloc s KInstance) as [s1 x] eqn:Ea.
  destruct (clone_alloc_kp s KInstance s1 x Ea) as [Hx [Hn _]]. pose proof (ki_clone_alloc s KInstance) as H. rewrite Ea in H.
  injection E as <- <- <-. cbn [fst] in *. eapply ki_trans; [exact H|]. split; [cbn; lia|]. intros y Hy. cbn in Hy. cbn. unfold upd.
  replace (Nat.eqb y x) with false by (symmetry; apply Nat.eqb_neq; lia). split; reflexivity.
Qed.
Lemma ki_fold_set_par r p l : forall s, KI s (fold_ids (fun s i => set_par s r i p) l s).
Proof. apply ki_fold_ids. intros s x. apply ki_same; reflexivity. Qed.
Lemma ki_port_clone1 : KIf port_clone1.
Proof.
  intros s m p s' m' p' E. unfold port_clone1 in E. pose proof (ki_clone_alloc s KPort) as H. destruct (clone_alloc s KPort) as [s1 x].
  match type of E with context [clone_each pin_clone1 ?l ?sm] => destruct (clone_each pin_clone1 l sm) as [[s2 m2] pins'] eqn:E2 end.
  apply (ki_clone_each pin_clone1 ki_pin_clone1) in E2. injection E as <- <- <-. cbn [fst] in *.
  eapply ki_trans; [exact H|]. eapply ki_trans; [exact E2|].
  eapply ki_trans; [|apply ki_same; reflexivity].
  eapply ki_trans; [|apply ki_fold_set_par]. apply ki_same; reflexivity.
Qed.
Lemma ki_cable_clone1 : KIf cable_clone1.
Proof.
  intros s m p s' m' p' E. unfold cable_clone1 in E. pose proof (ki_clone_alloc s KCable) as H. destruct (clone_alloc s KCable) as [s1 x].
  match type of E with context [clone_each wire_clone1 ?l ?sm] => destruct (clone_each wire_clone1 l sm) as [[s2 m2] ws'] eqn:E2 end.
  apply (ki_clone_each wire_clone1 ki_wire_clone1) in E2. injection E as <- <- <-. cbn [fst] in *.
  eapply ki_trans; [exact H|]. eapply ki_trans; [exact E2|].
  eapply ki_trans; [|apply ki_same; reflexivity].
  eapply ki_trans; [|apply ki_fold_set_par]. apply ki_same; reflexivity.
Qed.
Lemma ki_port_rr m s p : KI s (fst (port_rr m s p)).
Proof. unfold port_rr. apply ki_fold_idsR. intros s1 i. destruct (mwire m (ipwire s1 i)); apply ki_same; reflexivity. Qed.
Lemma ki_cable_rr m s c : KI s (fst (cable_rr m s c)).
Proof. unfold cable_rr. apply ki_fold_idsR. intros s1 w. destruct (map_opt _ _); apply ki_same; reflexivity. Qed.
Lemma ki_inst_rr_def m s x : KI s (fst (inst_rr_def m s x)).
Proof. unfold inst_rr_def. destruct (map_opt _ _); apply ki_same; reflexivity. Qed.

Lemma ki_def_clone1 s m d s' m' d' e : def_clone1 (s, m) d = ((s', m', d'), e) -> KI s s'.
Proof.
  intro E. unfold def_clone1 in E. pose proof (ki_clone_alloc s KDefinition) as H. destruct (clone_alloc s KDefinition) as [s1 a].
  cbn [fst] in H.
  match type of E with context [clone_each port_clone1 ?l ?sm] => destruct (clone_each port_clone1 l sm) as [[s2 m2] ports'] eqn:E2 end.
  match type of E with context [clone_each cable_clone1 ?l ?sm] => destruct (clone_each cable_clone1 l sm) as [[s3 m3] cables'] eqn:E3 end.
  match type of E with context [clone_each inst_clone1 ?l ?sm] => destruct (clone_each inst_clone1 l sm) as [[s4 m4] children'] eqn:E4 end.
  apply (ki_clone_each port_clone1 ki_port_clone1) in E2. apply (ki_clone_each cable_clone1 ki_cable_clone1) in E3.
  apply (ki_clone_each inst_clone1 ki_inst_clone1) in E4.
  injection E as <- _ _ _.
  eapply ki_trans; [exact H|]. eapply ki_trans; [apply (ki_same s1 (copy_data s1 d a)); reflexivity|].
  eapply ki_trans; [exact E2|]. eapply ki_trans; [exact E3|]. eapply ki_trans; [exact E4|].
  eapply ki_trans; [|apply ki_bind; [apply ki_fold_idsR; intros s6 p'; eapply ki_trans; [|apply ki_port_rr]; apply ki_same; reflexivity|]].
  - apply ki_same; reflexivity.
  - intro s6. apply ki_bind; [apply ki_fold_idsR; intros s7 c'; eapply ki_trans; [|apply ki_cable_rr]; apply ki_same; reflexivity|].
    intro s7. apply ki_fold_idsR. intros s8 x'. eapply ki_trans; [|apply ki_inst_rr_def]. apply ki_same; reflexivity.
Qed.

Lemma ki_register_child s x : KI s (fst (register_child s x)).
Proof. unfold register_child. destruct (iref s x); apply ki_same; reflexivity. Qed.
Lemma ki_reapply s c : KI s (fst (reapply s c)).
Proof.
  unfold reapply. destruct (sassoc str_NS (data s c)); [|apply ki_refl].
  apply ki_bind; [apply ki_struct, se_dict_del|intro s1; apply ki_struct, se_dict_set].
Qed.

Lemma ki_clone_definition s d : KI s (fst (fst (clone_definition s d))).
Proof.
  unfold clone_definition. destruct (def_clone1 (s, []) d) as [[[s1 m1] d'] e] eqn:E.
  pose proof (ki_def_clone1 _ _ _ _ _ _ _ E) as H. destruct e as [e|]; cbn [fst] in *; [exact H|].
  eapply ki_trans; [exact H|]. apply ki_bind; [apply ki_fold_idsR; intros; apply ki_register_child|].
  intro s2. eapply ki_trans; [|apply ki_reapply]. apply ki_same; reflexivity.
Qed.

Lemma fresh_of s : Above s -> (forall x, next s <= x -> kind_of s x = None /\ iref s x = None) -> Fresh s.
Proof. intros Ab H. constructor; intros; try apply Ab; try apply H; assumption. Qed.

(* Definition.clone keeps "nothing lives at or above the counter" *)
Theorem clone_definition_fresh s d :
  Inv1a s -> Fresh s -> snd (fst (clone_definition s d)) = None -> Fresh (fst (fst (clone_definition s d))).
Proof.
  intros I F Hok. apply fresh_of.
  - pose proof (above_of_fresh s F) as Ab. pose proof (parlt_of_inv1a s I Ab) as Pl.
    revert Hok. unfold clone_definition. destruct (def_clone1 (s, []) d) as [[[s1 m1] d'] [e|]] eqn:E; cbn [fst snd]; [discriminate|].
    destruct (def_clone1_kp s [] d s1 m1 d' Ab Pl E) as [_ [_ [_ [_ [_ [Ab1 _]]]]]]. intros _.
    assert (K : kpsame s1 (fst (fold_idsR register_child (kids s1 RChildren d') s1 >>= fun s2 => reapply (set_drefs s2 d' []) d'))).
    { apply kpsame_bind; [apply kpsame_fold_idsR; intros; apply kpsame_register_child|].
      intro s2. eapply kpsame_trans; [|apply kpsame_reapply]. repeat split. }
    destruct K as [K1 [K2 K3]]. intros r y Hy. rewrite K1, K2. apply Ab1. rewrite <- K3. exact Hy.
  - destruct (ki_clone_definition s d) as [Hn Hx]. intros x Hle. destruct (Hx x Hle) as [-> ->].
    split; [apply (f_kind _ F)|apply (f_iref _ F)]; lia.
Qed.
