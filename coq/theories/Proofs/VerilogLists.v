(* Engine `verilog`: list lemmas used by the proofs about Fmt/VBits.v *)
From Coq Require Import List ZArith Bool Lia Arith Permutation Sorted.
From SV Require Import Fmt.VBits.
Import ListNotations.
Open Scope Z_scope.

Lemma nth_error_firstn_lt {A} (l : list A) m k : (k < m)%nat -> nth_error (firstn m l) k = nth_error l k.
Proof.
  revert m k; induction l as [|x l IH]; intros m k H.
  - rewrite firstn_nil. reflexivity.
  - destruct m; [lia|]. destruct k; cbn; [reflexivity|]. apply IH. lia.
Qed.

Lemma nth_error_skipn_add {A} (l : list A) a k : nth_error (skipn a l) k = nth_error l (a + k)%nat.
Proof.
  revert a; induction l as [|x l IH]; intros a.
  - rewrite skipn_nil. destruct k, a; reflexivity.
  - destruct a; cbn; [reflexivity|]. apply IH.
Qed.

Lemma nth_error_rev_lt {A} (l : list A) k :
  (k < length l)%nat -> nth_error (rev l) k = nth_error l (length l - 1 - k)%nat.
Proof.
  intro H. destruct l as [|d l0] eqn:E; [cbn in H; lia|]. rewrite <- E in *.
  assert (Hl : length l = length (rev l)) by (symmetry; apply rev_length).
  rewrite (nth_error_nth' (rev l) d) by lia.
  rewrite rev_nth by lia.
  rewrite (nth_error_nth' l d) by lia.
  f_equal. f_equal. lia.
Qed.

Lemma list_eq_nth_error {A} (l1 l2 : list A) :
  length l1 = length l2 -> (forall k, (k < length l1)%nat -> nth_error l1 k = nth_error l2 k) -> l1 = l2.
Proof.
  revert l2; induction l1 as [|x l1 IH]; intros [|y l2] Hl H; cbn in *; try lia; [reflexivity|].
  assert (H0 := H 0%nat ltac:(lia)). cbn in H0. inversion H0; subst. f_equal.
  apply IH; [lia|]. intros k Hk. apply (H (S k)). lia.
Qed.

Lemma py_slice_inside {A} (l : list A) a b :
  0 <= a -> a <= b -> b <= Z.of_nat (length l) ->
  py_slice a b l = firstn (Z.to_nat (b - a)) (skipn (Z.to_nat a) l).
Proof.
  intros Ha Hab Hb. unfold py_slice, norm_idx.
  destruct (Z.ltb_spec a 0); [lia|]. destruct (Z.ltb_spec b 0); [lia|].
  rewrite !Z.min_l by lia. reflexivity.
Qed.

Lemma py_index_inside {A} (l : list A) i :
  0 <= i -> i < Z.of_nat (length l) -> py_index i l = nth_error l (Z.to_nat i).
Proof.
  intros H1 H2. unfold py_index. destruct (Z.ltb_spec i 0); [lia|].
  destruct (Z.ltb_spec i 0); [lia|]. destruct (Z.leb_spec (Z.of_nat (length l)) i); [lia|]. reflexivity.
Qed.

(* descending index range h, h-1, ..., l *)
Definition zdown (h l : Z) : list Z := map (fun k => h - Z.of_nat k) (seq 0 (Z.to_nat (h - l + 1))).

Lemma zdown_length h l : length (zdown h l) = Z.to_nat (h - l + 1).
Proof. unfold zdown. rewrite map_length, seq_length. reflexivity. Qed.

Lemma zdown_nth h l k : (k < Z.to_nat (h - l + 1))%nat -> nth_error (zdown h l) k = Some (h - Z.of_nat k).
Proof.
  intro H. unfold zdown. rewrite nth_error_map.
  rewrite (nth_error_nth' _ 0%nat) by (rewrite seq_length; lia).
  rewrite seq_nth by lia. reflexivity.
Qed.

Lemma zdown_single i : zdown i i = [i].
Proof. unfold zdown. replace (Z.to_nat (i - i + 1)) with 1%nat by lia. cbn. f_equal. lia. Qed.

Lemma zdown_snoc h l : l <= h + 1 -> zdown h (l - 1) = zdown h l ++ [l - 1].
Proof.
  intro H. unfold zdown. replace (Z.to_nat (h - (l - 1) + 1)) with (S (Z.to_nat (h - l + 1))) by lia.
  rewrite seq_S, map_app. cbn. f_equal. f_equal. lia.
Qed.

Lemma zdown_In h l x : In x (zdown h l) <-> l <= x <= h.
Proof.
  unfold zdown. rewrite in_map_iff. split.
  - intros [k [<- Hk]]. apply in_seq in Hk. lia.
  - intro H. exists (Z.to_nat (h - x)). split; [lia|]. apply in_seq. lia.
Qed.

(* stable descending sort *)
Lemma ins_desc_perm {A} (key : A -> Z) x l : Permutation (x :: l) (ins_desc key x l).
Proof.
  induction l as [|y l IH]; cbn; [reflexivity|].
  destruct (key y <=? key x); [reflexivity|].
  rewrite perm_swap. constructor. exact IH.
Qed.

Lemma sort_desc_perm {A} (key : A -> Z) l : Permutation l (sort_desc key l).
Proof.
  induction l as [|x l IH]; cbn; [reflexivity|].
  rewrite <- ins_desc_perm. constructor. exact IH.
Qed.

Definition ge_key {A} (key : A -> Z) (x y : A) : Prop := key x >= key y.
Definition gt_key {A} (key : A -> Z) (x y : A) : Prop := key x > key y.

Lemma ins_desc_sorted {A} (key : A -> Z) x l :
  StronglySorted (ge_key key) l -> StronglySorted (ge_key key) (ins_desc key x l).
Proof.
  induction 1 as [|y l Hs IH Hy]; cbn; [repeat constructor|].
  destruct (Z.leb_spec (key y) (key x)).
  - constructor; [constructor; assumption|]. constructor; [unfold ge_key; lia|].
    rewrite Forall_forall in *. intros z Hz. specialize (Hy z Hz). unfold ge_key in *. lia.
  - constructor; [exact IH|].
    rewrite Forall_forall in *. intros z Hz.
    apply (Permutation_in _ (Permutation_sym (ins_desc_perm key x l))) in Hz.
    destruct Hz as [<-|Hz]; [unfold ge_key; lia|apply Hy; exact Hz].
Qed.

Lemma sort_desc_sorted {A} (key : A -> Z) l : StronglySorted (ge_key key) (sort_desc key l).
Proof. induction l; cbn; [constructor|apply ins_desc_sorted; assumption]. Qed.

Lemma sorted_perm_unique {A} (key : A -> Z) (l2 : list A) :
  StronglySorted (gt_key key) l2 ->
  forall s, StronglySorted (ge_key key) s -> Permutation s l2 -> s = l2.
Proof.
  induction 1 as [|x l2 Hs IH Hx]; intros s Hsort Hp.
  - apply Permutation_nil. symmetry. exact Hp.
  - destruct s as [|y s]; [apply Permutation_nil in Hp; discriminate|].
    inversion Hsort as [|? ? Hs' Hy]; subst.
    assert (Hxy : y = x).
    { assert (Hin : In x (y :: s)) by (apply (Permutation_in _ (Permutation_sym Hp)); left; reflexivity).
      destruct Hin as [E|Hin]; [exact E|].
      assert (Hin2 : In y (x :: l2)) by (apply (Permutation_in _ Hp); left; reflexivity).
      destruct Hin2 as [E|Hin2]; [symmetry; exact E|].
      rewrite Forall_forall in Hx, Hy. specialize (Hx y Hin2). specialize (Hy x Hin).
      unfold gt_key, ge_key in *. lia. }
    subst y. f_equal. apply IH; [exact Hs'|]. eapply Permutation_cons_inv. exact Hp.
Qed.

Lemma sort_desc_unique {A} (key : A -> Z) l1 l2 :
  Permutation l1 l2 -> StronglySorted (gt_key key) l2 -> sort_desc key l1 = l2.
Proof.
  intros Hp Hs. apply (sorted_perm_unique key l2 Hs); [apply sort_desc_sorted|].
  rewrite <- Hp. symmetry. apply sort_desc_perm.
Qed.

Lemma sort_desc_id {A} (key : A -> Z) l : StronglySorted (gt_key key) l -> sort_desc key l = l.
Proof. intro H. apply sort_desc_unique; [reflexivity|exact H]. Qed.

Lemma rev_seq_S n : rev (seq 0 (S n)) = n :: rev (seq 0 n).
Proof. rewrite seq_S, rev_app_distr. reflexivity. Qed.

Lemma rev_seq_sorted n : StronglySorted (gt_key Z.of_nat) (rev (seq 0 n)).
Proof.
  induction n as [|n IH]; [constructor|]. rewrite rev_seq_S. constructor; [exact IH|].
  rewrite Forall_forall. intros x Hx. apply in_rev, in_seq in Hx. unfold gt_key. lia.
Qed.

Lemma skipn_rev_seq n m : (m <= n)%nat -> skipn (n - m) (rev (seq 0 n)) = rev (seq 0 m).
Proof.
  intro H. replace n with (m + (n - m))%nat at 2 by lia.
  rewrite seq_app, rev_app_distr. cbn [Nat.add].
  rewrite skipn_app, skipn_all2 by (rewrite rev_length, seq_length; lia).
  rewrite rev_length, seq_length. replace (n - m - (n - m))%nat with 0%nat by lia. reflexivity.
Qed.
