(* Netlist._clone: updates of the libraries relation, the stage that copies the top instance. *)
From Coq Require Import List Arith Bool Lia.
From RecordUpdate Require Import RecordSet.
From SV Require Import Base.Base IR.State IR.NS IR.Ops Xform.Clone Proofs.AssocX Proofs.Frame Proofs.Inv1a Proofs.Inv2a
  Proofs.InvP Proofs.InvW Proofs.Fresh Proofs.NsInv Proofs.Repoint Proofs.CloneInv Proofs.RefK Proofs.CloneRef Proofs.CloneT Proofs.FieldT
  Proofs.CloneMemo Proofs.CloneRR Proofs.CloneFaith Proofs.CloneInvP Proofs.CloneFull
  Proofs.CloneMemoK Proofs.CloneFaithK Proofs.CloneStage Proofs.CloneStageP Proofs.CloneRun Proofs.CloneRekey Proofs.CloneEx Proofs.CloneRemap Proofs.CloneComm Proofs.CloneLib
  Proofs.SrcTree Proofs.CloneNet.
Import ListNotations RecordSetNotations.

(* equal on every field the running invariant looks at, except the libraries relation *)
Record feqL (s s' : state) : Prop := mkFeqL {
  fl_kids : forall r y, r <> RLibs -> kids s' r y = kids s r y; fl_par : forall r y, r <> RLibs -> par s' r y = par s r y;
  fl_next : next s' = next s; fl_kind : kind_of s' = kind_of s;
  fl_iref : iref s' = iref s; fl_drefs : drefs s' = drefs s; fl_ipins : ipins s' = ipins s; fl_wpins : wpins s' = wpins s;
  fl_ipwire : ipwire s' = ipwire s
}.

Lemma defimg_notlibs s0 d d' s s' m : (forall r y, r <> RLibs -> kids s' r y = kids s r y) -> DefImg s0 d d' s m -> DefImg s0 d d' s' m.
Proof. intros Hk. apply defimg_inner. intros r y _ Hr. apply (Hk r y Hr). Qed.

Lemma ry_lupd s0 s s' m : feqL s s' -> RY s0 s m ->
  (forall y, y < next s0 -> kids s' RLibs y = kids s0 RLibs y) ->
  (forall p c, In c (kids s' RLibs p) -> c < next s /\ p < next s /\ kind_of s c = Some KLibrary /\ kind_of s p = Some KNetlist) ->
  (forall y, next s <= y -> kids s' RLibs y = [] /\ par s' RLibs y = None) ->
  (forall x p, par s' RLibs x = Some p -> p < next s) ->
  (forall y, y < next s0 -> par s' RLibs y = par s0 RLibs y) ->
  (forall y p, next s0 <= y -> par s' RLibs y = Some p -> next s0 <= p) ->
  RY s0 s' m.
Proof.
  intros [Fk Fp Fn Fkd Fr Fd Fi Fw Fiw] Y La Lb Lc Ld Le Lf. pose proof (ry_rx _ _ _ Y) as X. pose proof (rx_ri _ _ _ X) as R.
  assert (N1 : RPorts <> RLibs) by discriminate. assert (N2 : RPins <> RLibs) by discriminate.
  constructor; [constructor|..].
  - constructor.
    + destruct (ri_st _ _ _ R) as [a b c d e f g h i j k l0 n]. constructor; rewrite ?Fn, ?Fkd, ?Fiw, ?Fw, ?Fi, ?Fr; try assumption.
      intros r y Hy. destruct (rel_eq_dec r RLibs) as [->|Hr]; [apply La; exact Hy|rewrite (Fk r y Hr); apply g; exact Hy].
    + intros r Hr. destruct (ri_1a _ _ _ R r Hr) as [H1 H2]. split; [intros p x; rewrite (Fk r p Hr), (Fp r x Hr); apply H1|intro p; rewrite (Fk r p Hr); apply H2].
    + intros r p c Hc. rewrite Fn. destruct (rel_eq_dec r RLibs) as [->|Hr].
      * destruct (Lb p c Hc) as [A [B _]]. split; assumption.
      * rewrite (Fk r p Hr) in Hc. apply (ri_kl _ _ _ R r p c Hc).
    + intros r p c Hc. rewrite Fkd. destruct (rel_eq_dec r RLibs) as [->|Hr].
      * destruct (Lb p c Hc) as [_ [_ [A B]]]. split; assumption.
      * rewrite (Fk r p Hr) in Hc. apply (ri_t _ _ _ R r p c Hc).
    + apply (invp_same s s' (ri_p _ _ _ R)); [intro q; apply pw_ext; assumption|intro w; rewrite Fw; reflexivity].
    + apply (invk_same s s' (ri_k _ _ _ R)); [intro n; unfold keys; rewrite Fi; reflexivity|exact Fr|intro x; apply (Fp _ x N1)|intro x; apply (Fp _ x N2)].
    + intros r y Hy. rewrite Fn in Hy. destruct (rel_eq_dec r RLibs) as [->|Hr]; [apply Lc; exact Hy|]. rewrite (Fk r y Hr), (Fp r y Hr). apply (ri_ab _ _ _ R r y Hy).
    + intros r y q Hq. rewrite Fn. destruct (rel_eq_dec r RLibs) as [->|Hr]; [apply (Ld y q Hq)|]. rewrite (Fp r y Hr) in Hq. apply (ri_pl _ _ _ R r y q Hq).
    + intros r y Hy. destruct (rel_eq_dec r RLibs) as [->|Hr]; [apply Le; exact Hy|]. rewrite (Fp r y Hr). apply (ri_po _ _ _ R r y Hy).
    + intros r y q Hy Hq. destruct (rel_eq_dec r RLibs) as [->|Hr]; [apply (Lf y q Hy Hq)|]. rewrite (Fp r y Hr) in Hq. apply (ri_pn _ _ _ R r y q Hy Hq).
    + intros n d Hn. rewrite Fr in Hn. rewrite Fn. apply (ri_rl _ _ _ R n d Hn).
    + intros x j w Hx Hw. rewrite Fi in Hw. apply (ri_nw _ _ _ R x j w Hx Hw).
    + intros d Hd. rewrite Fd. apply (ri_dr _ _ _ R d Hd).
  - intros d d' H Hk. apply (defimg_notlibs s0 d d' s s' m Fk). apply (rx_di _ _ _ X d d' H Hk).
  - apply (ex_same s0 s s' m (rx_ex _ _ _ X) (st_fun _ _ _ (ri_st _ _ _ R))); assumption.
  - intros x x' H Hk. rewrite Fr. apply (ry_ir _ _ _ Y x x' H Hk).
  - intros d d' H Hk n. rewrite Fd. apply (ry_d1 _ _ _ Y d d' H Hk n).
  - intros d d' H Hk n. rewrite Fd. apply (ry_d2 _ _ _ Y d d' H Hk n).
  - intros y Hy. rewrite Fd. apply (ry_dn _ _ _ Y y Hy).
Qed.

(* ---- the stage that copies a free-standing instance (the top instance of the netlist) ---- *)
Lemma inst_clone1_fields s m t s4 m4 t' : inst_clone1 (s, m) t = ((s4, m4), t') ->
  t' = next s /\ m4 = (t, t') :: m /\ next s4 = S (next s) /\ kind_of s4 = upd (kind_of s) (next s) (Some KInstance) /\
  kids s4 = kids s /\ par s4 = par s /\ ipwire s4 = ipwire s /\ wpins s4 = wpins s /\
  ipins s4 = upd (ipins s) (next s) (ipins s t) /\ iref s4 = upd (iref s) (next s) (iref s t) /\ drefs s4 = drefs s.
Proof.
  intro E. unfold inst_clone1 in E. destruct (clone_alloc s KInstance) as [s1 x] eqn:Ea.
  destruct (clone_alloc_fields _ _ _ _ Ea) as [Hx [N1 [Kd1 [Kk1 [W1 [P1 [I1 R1]]]]]]].
  destruct (clone_alloc_kp _ _ _ _ Ea) as [_ [_ [_ Pp1]]].
  pose proof (rd_clone_alloc s KInstance) as [_ Rd]. rewrite Ea in Rd. cbn [fst] in Rd.
  injection E as <- <- <-. subst x. cbn. rewrite I1, R1. repeat split; assumption.
Qed.

Section InstStage.
  Variables (s0 s s4 s5 : state) (m m4 : memo) (t t' : id).
  Hypothesis U0 : UF s0.
  Hypothesis Y : RY s0 s m.
  Hypothesis Ht : t < next s0.
  Hypothesis Hkt : kind_of s0 t = Some KInstance.
  Hypothesis Hfree : ~ In t (map fst m).
  Hypothesis E1 : inst_clone1 (s, m) t = ((s4, m4), t').
  Hypothesis E2 : inst_rr_def m4 s4 t' = (s5, None).

  Theorem inst_stage :
    RY s0 s5 m4 /\ t' = next s /\ m4 = (t, t') :: m /\ next s5 = S (next s) /\ kids s5 = kids s /\ par s5 = par s /\
    drefs s5 = drefs s /\ iref s5 = upd (iref s) t' (iref s0 t) /\ kind_of s5 = upd (kind_of s) t' (Some KInstance).
  Proof.
    pose proof (ry_rx _ _ _ Y) as X. pose proof (rx_ri _ _ _ X) as R. pose proof (ri_st _ _ _ R) as ST0.
    destruct U0 as [I0 [T0 [F0 [FT0 K0]]]]. pose proof (inv_a _ I0) as I1.
    pose proof (st_n0 _ _ _ ST0) as Hn0.
    destruct (inst_clone1_fields _ _ _ _ _ _ E1) as [Ht' [Hm4 [N4 [Kd4 [Kk4 [Pp4 [W4 [P4 [Ip4 [Ir4 Dr4]]]]]]]]]].
    destruct (pk_inst_clone1 s0 s s m t s4 m4 t' (pk_of_st _ _ _ ST0) Ht Hfree Hkt E1) as [PK4 _].
    destruct (st_old _ _ _ ST0 t Ht) as [_ [_ [Hipt [_ Hirt]]]].
    unfold inst_rr_def in E2. fold (imap m4) in E2.
    destruct (map_opt (imap m4) (ipins s4 t')) as [l|] eqn:El; [|discriminate]. injection E2 as <-.
    assert (Hip4 : ipins s4 t' = ipins s0 t) by (rewrite Ip4, Ht', upd_same; exact Hipt).
    rewrite Hip4 in El.
    assert (Hkt' : kind_of s4 t' = Some KInstance) by (rewrite Kd4, Ht', upd_same; reflexivity).
    set (G := set_ipins s4 t' l).
    assert (HipG : forall y, y <> t' -> ipins G y = ipins s4 y).
    { intros y Hy. cbn. unfold upd. apply Nat.eqb_neq in Hy. rewrite Hy. reflexivity. }
    assert (HipGt : ipins G t' = l) by (cbn; apply upd_same).
    assert (Hent : forall a b, In (a, b) m4 -> next s <= b -> a = t /\ b = t').
    { intros a b H Hb. rewrite Hm4 in H. destruct H as [H|H]; [injection H as <- <-; split; reflexivity|].
      destruct (st_rng _ _ _ ST0 a b H). lia. }
    assert (SO : StageOut s0 s G m m4 [t]).
    { constructor.
      - intros e He. rewrite Hm4. right. exact He.
      - intro y. rewrite Hm4. cbn. split; [intros [<-|H]; [left; left; reflexivity|right; exact H]|intros [[<-|[]]|H]; [left; reflexivity|right; exact H]].
      - intros a b H. change (next G) with (next s4). apply (pk_rng _ _ _ _ PK4 a b H).
      - intros a b H Hn. rewrite Hm4 in H. destruct H as [H|H]; [injection H as <- <-; lia|contradiction].
      - apply (pk_fun _ _ _ _ PK4).
      - apply (pk_inj _ _ _ _ PK4).
      - intros a b H. change (kind_of G) with (kind_of s4). apply (pk_kind _ _ _ _ PK4 a b H).
      - intros y Hy. destruct (pk_old _ _ _ _ PK4 y Hy) as [A [B [C [D F]]]].
        change (ipwire G) with (ipwire s4). change (wpins G) with (wpins s4). change (kind_of G) with (kind_of s4). change (iref G) with (iref s4).
        rewrite (HipG y ltac:(lia)). repeat split; assumption.
      - intros a b H Hb Hk. destruct (Hent a b H Hb) as [-> _]. congruence.
      - intros a b H Hb Hk. destruct (Hent a b H Hb) as [-> _]. congruence.
      - intros a b H Hb Hk. destruct (Hent a b H Hb) as [-> ->]. rewrite HipGt. split; [exact El|].
        change (iref G) with (iref s4). rewrite Ir4, Ht', upd_same. exact Hirt.
      - intros y Hy. destruct (pk_def _ _ _ _ PK4 y Hy) as [D1 [D2 D3]].
        change (ipwire G) with (ipwire s4). change (wpins G) with (wpins s4). change (kind_of G) with (kind_of s4). change (iref G) with (iref s4).
        split; [exact D1|]. split; [exact D2|]. intro Hk. assert (Hyt : y <> t') by (intros ->; apply Hk; exact Hkt'). rewrite (HipG y Hyt). apply D3. exact Hk.
      - intros y Hy Hk. change (kind_of G) with (kind_of s4) in Hk. destruct (Nat.lt_ge_cases y (next s4)) as [Hl|Hg]; [apply (pk_cov _ _ _ _ PK4 y (conj Hy Hl) Hk)|].
        rewrite (pk_fresh _ _ _ _ PK4 y Hg) in Hk. destruct Hk as [H|[H|H]]; discriminate.
      - intros r y Hy. change (kids G) with (kids s4). apply (pk_kids _ _ _ _ PK4 r y Hy).
      - intros y Hy. change (kind_of G) with (kind_of s4). apply (pk_fresh _ _ _ _ PK4 y Hy). }
    assert (HnG : next G = S (next s)) by exact N4.
    assert (STG : ST s0 G m4) by (apply (st_of_stage s0 s G m m4 _ ST0 SO); lia).
    assert (KkG : kids G = kids s) by exact Kk4. assert (PpG : par G = par s) by exact Pp4.
    assert (Hf : kpframe (next s) s G) by (intros r y _; rewrite KkG, PpG; split; reflexivity).
    assert (Hks : kstable s G) by (split; [lia|intros r y _; rewrite KkG; reflexivity]).
    assert (Hsub : msub m m4) by (intros e He; rewrite Hm4; right; exact He).
    assert (AbG : Above G). { intros r y Hy. rewrite KkG, PpG. apply (ri_ab _ _ _ R r y). lia. }
    assert (HnewparG : forall r y p, next s <= y -> par G r y = Some p -> next s <= p).
    { intros r y p Hy Hp. rewrite PpG, (proj2 (ri_ab _ _ _ R r y Hy)) in Hp. discriminate. }
    assert (PoG : forall r y, y < next s0 -> par G r y = par s0 r y) by (intros r y Hy; rewrite PpG; apply (ri_po _ _ _ R r y Hy)).
    assert (PnG : forall r y p, next s0 <= y -> par G r y = Some p -> next s0 <= p) by (intros r y p Hy Hp; rewrite PpG in Hp; apply (ri_pn _ _ _ R r y p Hy Hp)).
    assert (RG : RI s0 G m4).
    { constructor; try assumption.
      - intros r Hr. apply (inv1ar_same s G r KkG PpG). apply (ri_1a _ _ _ R r Hr).
      - intros r p c Hc. rewrite KkG in Hc. destruct (ri_kl _ _ _ R r p c Hc). rewrite HnG. split; lia.
      - intros r p c Hc. rewrite KkG in Hc. destruct (ri_kl _ _ _ R r p c Hc) as [Hc1 Hp1]. change (kind_of G) with (kind_of s4). rewrite Kd4. unfold upd.
        replace (Nat.eqb c (next s)) with false by (symmetry; apply Nat.eqb_neq; lia).
        replace (Nat.eqb p (next s)) with false by (symmetry; apply Nat.eqb_neq; lia). apply (ri_t _ _ _ R). exact Hc.
      - apply (stage_invp s0 s G m m4 _ ST0 SO (inv_p _ I0) FT0 F0 (ri_p _ _ _ R)).
      - apply (stage_invk s0 s G m m4 _ SO (inv_k _ I0) (ri_k _ _ _ R) F0 K0 (ri_rl _ _ _ R) (ri_ab _ _ _ R) Hf HnewparG PoG PnG).
      - intros r y p Hp. rewrite PpG in Hp. pose proof (ri_pl _ _ _ R r y p Hp). rewrite HnG. lia.
      - intros n e Hr. destruct (Nat.lt_ge_cases n (next s)) as [Hl|Hge].
        + destruct (so_old _ _ _ _ _ _ SO n Hl) as [_ [_ [_ [_ Hi]]]]. rewrite Hi in Hr. pose proof (ri_rl _ _ _ R n e Hr). lia.
        + destruct (so_def _ _ _ _ _ _ SO n Hge) as [_ [_ D]].
          destruct (kind_of G n) as [kn|] eqn:Ek; [|rewrite (proj2 (D ltac:(discriminate))) in Hr; discriminate].
          destruct (kind_eqb kn KInstance) eqn:Eq; [|rewrite (proj2 (D ltac:(intro Xe; injection Xe as ->; discriminate Eq))) in Hr; discriminate].
          assert (kn = KInstance) by (destruct kn; try discriminate Eq; reflexivity). subst kn.
          destruct (so_cov _ _ _ _ _ _ SO n Hge (or_intror (or_intror Ek))) as [x Hx].
          assert (Hk0 : kind_of s0 x = Some KInstance) by (rewrite <- (so_kind _ _ _ _ _ _ SO x n Hx); exact Ek).
          destruct (so_inst _ _ _ _ _ _ SO x n Hx Hge Hk0) as [_ Hir]. rewrite Hir in Hr. pose proof (ref_lt s0 x e K0 F0 Hr). lia.
      - intros x j w Hx Hw. destruct (Nat.lt_ge_cases x (next s)) as [Hl|Hge].
        + destruct (so_old _ _ _ _ _ _ SO x Hl) as [_ [_ [Hi _]]]. rewrite Hi in Hw. apply (ri_nw _ _ _ R x j w Hx Hw).
        + destruct (so_def _ _ _ _ _ _ SO x Hge) as [_ [_ D]].
          destruct (kind_of G x) as [kn|] eqn:Ek; [|rewrite (proj1 (D ltac:(discriminate))) in Hw; discriminate].
          destruct (kind_eqb kn KInstance) eqn:Eq; [|rewrite (proj1 (D ltac:(intro Xe; injection Xe as ->; discriminate Eq))) in Hw; discriminate].
          assert (kn = KInstance) by (destruct kn; try discriminate Eq; reflexivity). subst kn.
          destruct (so_cov _ _ _ _ _ _ SO x Hge (or_intror (or_intror Ek))) as [x0 Hx0].
          assert (Hk0 : kind_of s0 x0 = Some KInstance) by (rewrite <- (so_kind _ _ _ _ _ _ SO x0 x Hx0); exact Ek).
          destruct (so_inst _ _ _ _ _ _ SO x0 x Hx0 Hge Hk0) as [Hmap _].
          pose proof (imap_assoc m4 _ _ Hmap j) as Ha. destruct (assoc j (ipins s0 x0)) as [o|]; [|rewrite Ha in Hw; discriminate].
          destruct Ha as [o' [Ho' Ha]]. rewrite Ha in Hw. injection Hw as ->. destruct (mwire_some _ _ _ Ho') as [w0 [_ Hm]].
          apply (so_rng _ _ _ _ _ _ SO w0 w Hm).
      - intros y Hy. change (drefs G) with (drefs s4). rewrite Dr4. apply (ri_dr _ _ _ R y Hy). }
    assert (Hnd : forall a b, In (a, b) m4 -> kind_of s0 a = Some KDefinition -> In (a, b) m).
    { intros a b H Hka. rewrite Hm4 in H. destruct H as [H|H]; [injection H as <- <-; congruence|exact H]. }
    split; [|repeat split; try assumption].
    - constructor.
      + constructor; [exact RG| |].
        * intros d d' H Hkd0. pose proof (Hnd d d' H Hkd0) as Hi0.
          apply (defimg_stable s0 d d' s m _ _ (rx_di _ _ _ X d d' Hi0 Hkd0) (ri_kl _ _ _ R)); [apply (st_rng _ _ _ ST0 d d' Hi0)|exact Hsub|exact Hks].
        * apply (ex_of_stage s0 s G m m4 _ ST0 (rx_ex _ _ _ X) SO (inv_p _ I0) FT0 F0 K0).
      + intros a b H Hka. rewrite Hm4 in H. destruct H as [H|H].
        * injection H as <- <-. left. change (iref G) with (iref s4). rewrite Ir4, Ht', upd_same. exact Hirt.
        * change (iref G) with (iref s4). rewrite Ir4. unfold upd. destruct (st_rng _ _ _ ST0 a b H) as [_ [_ Hb]].
          replace (Nat.eqb b (next s)) with false by (symmetry; apply Nat.eqb_neq; lia).
          destruct (ry_ir _ _ _ Y a b H Hka) as [H1|[e [e' [A [B C]]]]]; [left; exact H1|right; exists e, e'; split; [exact A|split; [apply Hsub; exact B|exact C]]].
      + intros d d' H Hkd0 n Hnn. pose proof (Hnd d d' H Hkd0) as Hi0. change (drefs G) with (drefs s4) in Hnn. rewrite Dr4 in Hnn.
        destruct (ry_d1 _ _ _ Y d d' Hi0 Hkd0 n Hnn) as [r [A [B|B]]]; exists r; (split; [exact A|]); [left; exact B|right; apply Hsub; exact B].
      + intros d d' H Hkd0 r Hr. pose proof (Hnd d d' H Hkd0) as Hi0. change (drefs G) with (drefs s4). rewrite Dr4.
        destruct (ry_d2 _ _ _ Y d d' Hi0 Hkd0 r Hr) as [A|[n [A B]]]; [left; exact A|right; exists n; split; [apply Hsub; exact A|exact B]].
      + intros y Hy. change (drefs G) with (drefs s4). rewrite Dr4. apply (ry_dn _ _ _ Y). intros a Ha. apply Hy. apply Hsub. exact Ha.
    - change (iref G) with (iref s4). rewrite Ir4, Ht', Hirt. reflexivity.
    - change (kind_of G) with (kind_of s4). rewrite Kd4, Ht'. reflexivity.
  Qed.
End InstStage.

(* the reference of the copied top instance is redirected and its outer pins re-keyed *)
Lemma top_remap s0 s5 s7 m4 t t' :
  UF s0 -> RY s0 s5 m4 -> next s0 <= t' -> kind_of s5 t' = Some KInstance -> In (t, t') m4 -> kind_of s0 t = Some KInstance ->
  iref s5 t' = iref s0 t ->
  (forall e, iref s0 t = Some e -> In e (map fst m4) /\ kind_of s0 e = Some KDefinition) ->
  rekey_all m4 (match iref s5 t' with
                | Some e => match mget m4 e with Some e' => set_iref s5 t' (Some e') | None => s5 end
                | None => s5 end) t' = (s7, None) ->
  RY s0 s7 m4 /\ (forall y, iref s7 y = if Nat.eqb y t' then remap_ref m4 (iref s0 t) else iref s5 y) /\
  drefs s7 = drefs s5 /\ kids s7 = kids s5 /\ par s7 = par s5 /\ next s7 = next s5 /\ kind_of s7 = kind_of s5.
Proof.
  intros U0 Y Ht' Hk' Hin Hkt Hir Hcl E. pose proof (ry_rx _ _ _ Y) as X. pose proof (rx_ri _ _ _ X) as R. pose proof (ri_st _ _ _ R) as ST0.
  destruct (iref s5 t') as [e|] eqn:Er.
  - destruct (Hcl e (eq_sym Hir)) as [He Hke]. apply assoc_In_fst in He as [e' He']. fold (mget m4 e) in He'. rewrite He' in E.
    destruct (remap_step s0 s5 s7 m4 t' e e' U0 X Ht' Hk' Er He' Hke E) as [X' [I1 [D1 [K1 [P1 [N1 Kd1]]]]]].
    split; [|split; [|repeat split; assumption]].
    + constructor; [exact X'| | | |].
      * intros x x' Hxx Hkx. rewrite I1. unfold upd. destruct (Nat.eqb_spec x' t') as [->|Hne].
        -- assert (x = t) by (apply (memo_inj m4 x t t' (st_inj _ _ _ ST0) Hxx Hin)). subst x.
           right. exists e, e'. split; [symmetry; exact Hir|split; [apply mget_in; exact He'|reflexivity]].
        -- apply (ry_ir _ _ _ Y x x' Hxx Hkx).
      * intros d d' H Hk n. rewrite D1. apply (ry_d1 _ _ _ Y d d' H Hk n).
      * intros d d' H Hk n. rewrite D1. apply (ry_d2 _ _ _ Y d d' H Hk n).
      * intros y Hy. rewrite D1. apply (ry_dn _ _ _ Y y Hy).
    + intro y. rewrite I1. unfold upd. destruct (Nat.eqb y t'); [|reflexivity]. rewrite <- Hir. cbn. rewrite He'. reflexivity.
  - assert (Hk0 : keys s5 t' = []).
    { destruct (keys s5 t') as [|k ks] eqn:Ek; [reflexivity|]. exfalso.
      assert (Hk : In k (keys s5 t')) by (rewrite Ek; left; reflexivity).
      apply (k_keys _ (ri_k _ _ _ R)) in Hk as [d [p [H0 _]]]. congruence. }
    rewrite rekey_all_unfold, Hk0 in E. cbn in E. injection E as <-.
    split; [exact Y|]. split; [|repeat split; reflexivity].
    intro y. destruct (Nat.eqb_spec y t') as [->|]; [|reflexivity]. rewrite <- Hir, Er. reflexivity.
Qed.

(* ---- the libraries relation at the netlist level ---- *)
Lemma ry_lupd_net s0 s s' m n' libs' Lset :
  UF s0 -> feqL s s' -> RY s0 s m -> n' = next s0 -> n' < next s -> kind_of s n' = Some KNetlist ->
  (forall l', In l' libs' -> next s0 < l' /\ l' < next s /\ kind_of s l' = Some KLibrary) ->
  (forall y, In y Lset -> In y libs') ->
  (forall y, kids s' RLibs y = if Nat.eqb y n' then libs' else kids s0 RLibs y) ->
  (forall y, par s' RLibs y = if memb y Lset then Some n' else par s0 RLibs y) ->
  RY s0 s' m.
Proof.
  intros [I0 [T0 [F0 _]]] FL Y Hn' Hn's Hkn' HL HLs Hk Hp. pose proof (inv_a _ I0) as I1.
  pose proof (ri_st _ _ _ (rx_ri _ _ _ (ry_rx _ _ _ Y))) as ST0. pose proof (st_n0 _ _ _ ST0) as Hn0.
  assert (Hpl : forall x p, par s0 RLibs x = Some p -> p < next s0 /\ x < next s0).
  { intros x p Hx. apply (i1_kids _ I1) in Hx. split.
    - destruct (Nat.lt_ge_cases p (next s0)) as [Hl0|Hg]; [exact Hl0|]. rewrite (f_kids _ F0 RLibs p Hg) in Hx. destruct Hx.
    - apply (src_lt s0 I1 F0 _ _ _ Hx). }
  apply (ry_lupd s0 s s' m FL Y).
  - intros y Hy. rewrite Hk. replace (Nat.eqb y n') with false by (symmetry; apply Nat.eqb_neq; lia). reflexivity.
  - intros p c Hc. rewrite Hk in Hc. destruct (Nat.eqb_spec p n') as [->|Hne].
    + destruct (HL c Hc) as [A [B C]]. repeat split; assumption || lia.
    + pose proof (src_lt s0 I1 F0 _ _ _ Hc) as Hc0.
      assert (Hp0 : p < next s0). { destruct (Nat.lt_ge_cases p (next s0)) as [Hl0|Hg]; [exact Hl0|]. rewrite (f_kids _ F0 RLibs p Hg) in Hc. destruct Hc. }
      destruct (T0 _ _ _ Hc) as [K1 K2].
      destruct (st_old _ _ _ ST0 c Hc0) as [_ [_ [_ [Kc _]]]]. destruct (st_old _ _ _ ST0 p Hp0) as [_ [_ [_ [Kp _]]]].
      rewrite Kc, Kp. repeat split; assumption || lia.
  - intros y Hy. rewrite Hk, Hp. replace (Nat.eqb y n') with false by (symmetry; apply Nat.eqb_neq; lia).
    split; [apply (f_kids _ F0); lia|]. destruct (memb y Lset) eqn:Em.
    + apply memb_In in Em. destruct (HL y (HLs y Em)). lia.
    + apply (f_par _ F0). lia.
  - intros x p. rewrite Hp. destruct (memb x Lset); [intro H; injection H as <-; exact Hn's|]. intro H. destruct (Hpl x p H). lia.
  - intros y Hy. rewrite Hp. destruct (memb y Lset) eqn:Em; [|reflexivity]. apply memb_In in Em. destruct (HL y (HLs y Em)). lia.
  - intros y p Hy. rewrite Hp. destruct (memb y Lset); [intro H; injection H as <-; lia|]. intro H. destruct (Hpl y p H). lia.
Qed.
