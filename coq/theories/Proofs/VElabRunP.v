(* Engine `verilog`, document-level reader: what the header and the port declarations of a module join - port bit k to
   bit k of the cable of the same name (C06_full_ports) - stays in the FINAL value: through the rest of the body (no
   further port declaration), the modules after it (none re-declaring it), the end of the file. *)
From Coq Require Import List ZArith Bool Arith Lia Permutation.
From SV Require Import Base.Base Fmt.VBits Fmt.VTop Fmt.VDoc Fmt.VElab Fmt.VSpec Fmt.VSem
  Proofs.VerilogLists Proofs.VerilogGrow Proofs.VElabBase Proofs.VElabInv Proofs.VElabWf Proofs.VElabExpr Proofs.VElabConn
  Proofs.VElabAssign Proofs.VElabNets Proofs.VElabTop Proofs.VElabStable Proofs.VElabVis Proofs.VElabFrame Proofs.VElabFrameX
  Proofs.VElabDoc Proofs.VElabRun Proofs.VElabRunX.
Import ListNotations.
Open Scope Z_scope.

(* a connection of one of the module's own pins, seen as endpoint e on net bit r *)
Definition pshown (s : estate) (cur : nat) (e : endpoint) (r : bitref) : Prop :=
  exists pk o w, In (PInner pk o, w) (ed_conn (get_def cur s)) /\
    pin_endpoint s (get_def cur s) (PInner pk o) = Some e /\ wire_label (get_def cur s) w = Some r.

Lemma pshown_net s cur e r : DInv (get_def cur s) -> pshown s cur e r -> In e (net_of r (abs_def s (get_def cur s))).
Proof.
  intros D (pk & o & w & Hin & P & W). apply (net_of_lconn s _ r e D). unfold lconn. apply in_map_iff.
  exists (PInner pk o, w). cbn [fst snd]. rewrite P, W. split; [reflexivity|exact Hin].
Qed.

Lemma pshown_of_net s cur lb b r : DInv (get_def cur s) ->
  In (EPort lb b) (net_of r (abs_def s (get_def cur s))) -> pshown s cur (EPort lb b) r.
Proof.
  intros D H. apply (net_of_lconn s _ r _ D) in H. unfold lconn in H. apply in_map_iff in H.
  destruct H as ([p w] & E & Hin). cbn [fst snd] in E. injection E as E1 E2.
  destruct p as [pk o|ii' pk o]; [exists pk, o, w; auto|].
  exfalso. cbn in E1. destruct (nth_error _ ii') as [i'|]; [|discriminate]. destruct (is_assign _); [discriminate|].
  destruct (pin_bit _ _ _) as [[lb' b']|]; discriminate.
Qed.

Lemma pshown_lmono s s' cur e r : lmono (get_def cur s) (get_def cur s') -> pshown s cur e r -> pshown s' cur e r.
Proof.
  intros M (pk & o & w & Hin & P & W). exists pk, o, w.
  split; [destruct (lm_conn _ _ M) as (new & ->); apply in_app_iff; left; exact Hin|]. split; [|apply (lm_cables _ _ M); exact W].
  cbn [pin_endpoint] in *. destruct (pin_bit (ed_ports (get_def cur s)) pk o) as [[lb i]|] eqn:B; [|discriminate].
  rewrite (lm_ports _ _ M _ _ _ B). exact P.
Qed.

Lemma post_modules_pshown post : forall s s' cur e r mname, Inv s -> (cur < length (st_defs s))%nat ->
  ed_name (get_def cur s) = mname -> Forall (fun m2 => vm_name m2 <> mname) post ->
  pshown s cur e r -> fold_res module_decl post s = Ok s' -> pshown s' cur e r /\ Inv s'.
Proof.
  induction post as [|m2 post IH]; intros s s' cur e r mname I Hc Nm F Sh H; cbn in H.
  - inversion H; subst. auto.
  - apply bind_ok in H. destruct H as (s1 & H1 & H). inversion F as [|? ? F1 F']; subst.
    destruct (module_decl_LSX m2 s s1 H1 (inv_alld s I)) as [LX A1].
    assert (C1 : cur <> snd (get_blackbox (vm_name m2) s)).
    { intro E. apply F1. symmetry. rewrite <- (get_blackbox_idx (vm_name m2) s cur Hc E). reflexivity. }
    destruct (lx_names _ _ _ LX) as (ex & N). destruct (names_prefix_get s s1 ex cur N Hc) as [Hc1 Nm1].
    eapply (IH s1 s' cur e r (ed_name (get_def cur s))); try eassumption.
    + eapply module_decl_inv; eassumption.
    + eapply pshown_lmono; [apply (lS_mono _ _ (lx_defs _ _ _ LX cur (fun E => C1 (eq_sym E))))|exact Sh].
Qed.

Theorem module_port_nets pre m post before after sf :
  run (pre ++ m :: post) = Ok sf -> vm_cell m = false ->
  vm_body m = before ++ after -> Forall not_port_decl after ->
  Forall (fun m2 => vm_name m2 <> vm_name m) post ->
  exists s0 s5 cur s,
    fold_res module_decl pre st_init = Ok s0 /\ module_open m s0 = Ok (s5, cur) /\ fold_res (body_item cur) before s5 = Ok s /\
    Inv s /\ VInv s /\ ed_name (get_def cur s) = vm_name m /\
    forall lb b r, In (EPort lb b) (net_of r (abs_def s (get_def cur s))) ->
                   In (EPort lb b) (net_of r (abs_def sf (get_def cur sf))).
Proof.
  unfold run. fold st_init. intros H C B NP FP. apply bind_ok in H. destruct H as (s1b & H1 & H2).
  destruct (fold_res_app _ _ _ _ _ H1) as (s0 & Hpre & Hm). cbn in Hm. apply bind_ok in Hm. destruct Hm as (s1 & Hm & Hpost).
  destruct st_init_inv as [Ii VIi]. destruct (modules_inv pre _ _ Ii VIi Hpre) as [I0 VI0].
  destruct (module_decl_split m s0 s1 C Hm) as (s5 & cur & s6 & Ho & Hb & L6).
  destruct (module_open_inv m s0 s5 cur I0 VI0 Ho) as (I5 & VI5 & Hc5 & N5).
  rewrite B in Hb. destruct (fold_res_app _ _ _ _ _ Hb) as (s & Hbef & Haft).
  destruct (body_prefix_inv cur before s5 s I5 VI5 Hc5 Hbef) as (I & VI & Hc & N).
  exists s0, s5, cur, s. split; [exact Hpre|]. split; [exact Ho|]. split; [exact Hbef|]. split; [exact I|]. split; [exact VI|].
  split; [rewrite N; exact N5|]. intros lb b r Hin.
  pose proof (pshown_of_net s cur lb b r (get_def_dinv cur s I) Hin) as Sh.
  assert (L1 : LS s s1) by (eapply LS_trans; [eapply body_LS; [exact NP|exact Haft]|exact L6]).
  destruct (L1 (inv_alld s I)) as [Ls1 A1].
  pose proof (pshown_lmono s s1 cur _ r (ls_defs _ _ Ls1 cur) Sh) as Sh1.
  assert (I1 : Inv s1) by (eapply module_decl_inv; eassumption).
  destruct (ls_names _ _ Ls1) as (ex1 & N1). destruct (names_prefix_get s s1 ex1 cur N1 Hc) as [Hc1 Nm1].
  destruct (post_modules_pshown post s1 s1b cur _ r (vm_name m) I1 Hc1 ltac:(congruence) FP Sh1 Hpost) as (Shb & Ib).
  destruct (run_tail_LS s1b sf H2 (inv_alld s1b Ib)) as [Lsf Af].
  apply (pshown_net sf cur _ r (Af cur)). eapply pshown_lmono; [apply (ls_defs _ _ Lsf cur)|exact Shb].
Qed.
