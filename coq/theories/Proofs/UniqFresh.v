(* The search of uniquify._get_unique_name_modifier (Xform.fresh_ctr): what the chosen counter value
   satisfies, and why the fuel given by _make_instance_unique's model never runs out (pigeonhole: a
   definition of the library can block at most one candidate through its name and one through its
   EDIF identifier; the candidates are pairwise different strings because str(k) is injective). *)
From Coq Require Import List Arith NArith Bool Lia.
From SV Require Import Base.Base IR.State IR.NS IR.Ops Xform.Clone Xform.Strs Xform.Xform.
Import ListNotations.

(* ---- str(k) is injective and consists of digits ---- *)
Definition undec_step (a : nat) (c : N) : nat := a * 10 + (N.to_nat c - 48).
Definition undec (l : str) : nat := fold_left undec_step l 0.

Lemma undec_digit a n : n < 10 -> undec_step a (digit n) = a * 10 + n.
Proof. intro H. unfold undec_step, digit. rewrite Nat2N.id. lia. Qed.

Lemma undec_dec_fuel : forall fuel n acc, n < fuel ->
  fold_left undec_step (dec_fuel fuel n acc) 0 = fold_left undec_step acc n.
Proof.
  induction fuel as [|f IH]; intros n acc Hn; [lia|]. cbn [dec_fuel].
  destruct (n <? 10) eqn:E.
  - apply Nat.ltb_lt in E. cbn [fold_left]. rewrite (undec_digit 0 n E). reflexivity.
  - apply Nat.ltb_ge in E.
    assert (Hd : n / 10 < f).
    { assert (n / 10 < n) by (apply Nat.div_lt; lia). lia. }
    rewrite (IH (n / 10) (digit (n mod 10) :: acc) Hd). cbn [fold_left].
    rewrite (undec_digit (n / 10) (n mod 10)) by (apply Nat.mod_upper_bound; lia).
    f_equal. pose proof (Nat.div_mod n 10 ltac:(lia)). lia.
Qed.

Lemma undec_dec n : undec (dec n) = n.
Proof. unfold undec, dec. rewrite undec_dec_fuel by lia. reflexivity. Qed.

Lemma dec_inj a b : dec a = dec b -> a = b.
Proof. intro H. rewrite <- (undec_dec a), <- (undec_dec b), H. reflexivity. Qed.

Lemma lower_c_digit n : n < 10 -> lower_c (digit n) = digit n.
Proof.
  intro H. unfold lower_c, is_upper, digit.
  replace (65 <=? N.of_nat (48 + n))%N with false; [reflexivity|].
  symmetry. apply N.leb_gt. lia.
Qed.

Lemma lower_dec_fuel : forall fuel n acc, lower acc = acc -> lower (dec_fuel fuel n acc) = dec_fuel fuel n acc.
Proof.
  induction fuel as [|f IH]; intros n acc Ha; cbn [dec_fuel]; [exact Ha|].
  destruct (n <? 10) eqn:E.
  - apply Nat.ltb_lt in E. unfold lower in *. cbn [map]. rewrite Ha, (lower_c_digit n E). reflexivity.
  - apply IH. unfold lower in *. cbn [map]. rewrite Ha, lower_c_digit; [reflexivity|]. apply Nat.mod_upper_bound. lia.
Qed.

Lemma lower_dec n : lower (dec n) = dec n.
Proof. apply lower_dec_fuel. reflexivity. Qed.

Lemma lower_app a b : lower (a ++ b) = lower a ++ lower b.
Proof. apply map_app. Qed.

(* the two candidate strings of a counter value *)
Lemma cand_name_inj nm a b : nm ++ str_uniq ++ dec a = nm ++ str_uniq ++ dec b -> a = b.
Proof. intro H. apply app_inv_head in H. apply app_inv_head in H. apply dec_inj. exact H. Qed.

Lemma cand_ident_inj i a b : lower (i ++ str_uniq ++ dec a) = lower (i ++ str_uniq ++ dec b) -> a = b.
Proof.
  rewrite !lower_app, !lower_dec. intro H. apply app_inv_head in H. apply app_inv_head in H. apply dec_inj. exact H.
Qed.

(* ---- what "taken" means ---- *)
Lemma name_taken_spec s defs v :
  name_taken s defs v = true <-> exists c, In c defs /\ get_str s c str_NAME = Some v.
Proof.
  unfold name_taken. rewrite existsb_exists. split; intros [c [Hc H]]; exists c; (split; [exact Hc|]).
  - destruct (get_str s c str_NAME) as [w|]; [|discriminate]. apply str_eqb_spec in H. subst w. reflexivity.
  - rewrite H. apply str_eqb_refl.
Qed.

Lemma ident_taken_spec s defs v :
  ident_taken s defs v = true <-> exists c w, In c defs /\ get_str s c str_IDENT = Some w /\ lower w = lower v.
Proof.
  unfold ident_taken. rewrite existsb_exists. split.
  - intros [c [Hc H]]. destruct (get_str s c str_IDENT) as [w|] eqn:E; [|discriminate].
    apply str_eqb_spec in H. exists c, w. auto.
  - intros [c [w [Hc [E H]]]]. exists c. split; [exact Hc|]. rewrite E, H. apply str_eqb_refl.
Qed.

(* the chosen value: not below the counter, and neither candidate string is in use *)
Lemma fresh_ctr_spec s defs nm idv : forall fuel k k',
  fresh_ctr fuel s defs nm idv k = Some k' ->
  k <= k' /\ suffix_taken s defs nm idv (str_uniq ++ dec k') = false /\
  (forall j, k <= j -> j < k' -> suffix_taken s defs nm idv (str_uniq ++ dec j) = true).
Proof.
  induction fuel as [|f IH]; intros k k' E; cbn [fresh_ctr] in E; [discriminate|].
  destruct (suffix_taken s defs nm idv (str_uniq ++ dec k)) eqn:Et.
  - destruct (IH (S k) k' E) as [A [B C]]. split; [lia|]. split; [exact B|].
    intros j Hj1 Hj2. destruct (Nat.eq_dec j k) as [->|Hne]; [exact Et|]. apply C; lia.
  - injection E as <-. split; [lia|]. split; [exact Et|]. intros j H1 H2. lia.
Qed.

Lemma fresh_ctr_none s defs nm idv : forall fuel k,
  fresh_ctr fuel s defs nm idv k = None ->
  forall j, In j (seq k fuel) -> suffix_taken s defs nm idv (str_uniq ++ dec j) = true.
Proof.
  induction fuel as [|f IH]; intros k E j Hj; cbn [seq] in Hj; [destruct Hj|].
  cbn [fresh_ctr] in E. destruct (suffix_taken s defs nm idv (str_uniq ++ dec k)) eqn:Et; [|discriminate].
  destruct Hj as [<-|Hj]; [exact Et|]. apply (IH (S k) E j Hj).
Qed.

(* ---- pigeonhole ---- *)
Definition keys_of_defs (key : id -> option str) (defs : list id) : list str :=
  flat_map (fun c => match key c with Some v => [v] | None => [] end) defs.

Lemma keys_of_defs_length key defs : length (keys_of_defs key defs) <= length defs.
Proof.
  unfold keys_of_defs. induction defs as [|c defs IH]; cbn [flat_map length]; [lia|].
  rewrite app_length. destruct (key c); cbn [length]; lia.
Qed.

Lemma keys_of_defs_in key defs v : (exists c, In c defs /\ key c = Some v) -> In v (keys_of_defs key defs).
Proof.
  intros [c [Hc E]]. unfold keys_of_defs. apply in_flat_map. exists c. split; [exact Hc|]. rewrite E. left. reflexivity.
Qed.

Lemma blocked_bound (g : nat -> str) (key : id -> option str) (defs : list id) (js : list nat) :
  NoDup js -> (forall a b, g a = g b -> a = b) ->
  (forall j, In j js -> exists c, In c defs /\ key c = Some (g j)) ->
  length js <= length defs.
Proof.
  intros Hnd Hinj Hall. rewrite <- (map_length g js).
  eapply Nat.le_trans; [|apply (keys_of_defs_length key defs)].
  apply NoDup_incl_length.
  - apply FinFun.Injective_map_NoDup; [exact Hinj|exact Hnd].
  - intros v Hv. apply in_map_iff in Hv as [j [<- Hj]]. apply keys_of_defs_in. apply Hall. exact Hj.
Qed.

Lemma filter_split_length {A} (f : A -> bool) l : length (filter f l) + length (filter (fun x => negb (f x)) l) = length l.
Proof. induction l as [|a l IH]; cbn; [reflexivity|]. destruct (f a); cbn; lia. Qed.

Theorem fresh_ctr_total s defs nm idv k : fresh_ctr (fresh_fuel defs) s defs nm idv k <> None.
Proof.
  intro E. pose proof (fresh_ctr_none s defs nm idv _ k E) as Hall.
  set (js := seq k (fresh_fuel defs)) in *.
  set (f := fun j => match nm with Some n => name_taken s defs (n ++ str_uniq ++ dec j) | None => false end).
  assert (Hnd : NoDup js) by apply seq_NoDup.
  assert (HA : length (filter f js) <= length defs).
  { destruct nm as [n|].
    - apply (blocked_bound (fun j => n ++ str_uniq ++ dec j) (fun c => get_str s c str_NAME) defs).
      + apply NoDup_filter. exact Hnd.
      + intros a b. apply cand_name_inj.
      + intros j Hj. apply filter_In in Hj as [_ Hj]. unfold f in Hj. apply name_taken_spec in Hj. exact Hj.
    - assert (Hnil : filter f js = []).
      { unfold f. clear. induction js as [|j l IH]; [reflexivity|exact IH]. }
      rewrite Hnil. cbn. lia. }
  assert (HB : length (filter (fun x => negb (f x)) js) <= length defs).
  { destruct idv as [i|].
    - apply (blocked_bound (fun j => lower (i ++ str_uniq ++ dec j)) (fun c => option_map lower (get_str s c str_IDENT)) defs).
      + apply NoDup_filter. exact Hnd.
      + intros a b. apply cand_ident_inj.
      + intros j Hj. apply filter_In in Hj as [Hj Hn]. apply negb_true_iff in Hn. unfold f in Hn.
        pose proof (Hall j Hj) as Ht. unfold suffix_taken in Ht. rewrite Hn in Ht. cbn [orb] in Ht.
        apply ident_taken_spec in Ht as [c [w [Hc [Ew Hl]]]]. exists c. split; [exact Hc|]. rewrite Ew. cbn. rewrite Hl. reflexivity.
    - assert (Hnil : filter (fun x => negb (f x)) js = []).
      { destruct (filter (fun x => negb (f x)) js) as [|j rest] eqn:Ef; [reflexivity|]. exfalso.
        assert (Hj : In j (filter (fun x => negb (f x)) js)) by (rewrite Ef; left; reflexivity).
        apply filter_In in Hj as [Hj Hn]. apply negb_true_iff in Hn. unfold f in Hn.
        pose proof (Hall j Hj) as Ht. unfold suffix_taken in Ht. rewrite Hn in Ht. discriminate. }
      rewrite Hnil. cbn. lia. }
  pose proof (filter_split_length f js) as Hs. unfold js in Hs at 3. rewrite seq_length in Hs. unfold fresh_fuel in Hs. lia.
Qed.

(* ---- the search only reads the names and identifiers of the definitions of the library ---- *)
Lemma existsb_ext_in {A} (f g : A -> bool) l : (forall a, In a l -> f a = g a) -> existsb f l = existsb g l.
Proof.
  induction l as [|a l IH]; intro H; cbn [existsb]; [reflexivity|].
  rewrite (H a (or_introl eq_refl)), IH; [reflexivity|]. intros b Hb. apply H. right. exact Hb.
Qed.

Lemma suffix_taken_ext s s' defs nm idv sfx :
  (forall c, In c defs -> get_str s' c str_NAME = get_str s c str_NAME /\ get_str s' c str_IDENT = get_str s c str_IDENT) ->
  suffix_taken s' defs nm idv sfx = suffix_taken s defs nm idv sfx.
Proof.
  intro H. unfold suffix_taken, name_taken, ident_taken. f_equal.
  - destruct nm as [n|]; [|reflexivity]. apply existsb_ext_in. intros c Hc. rewrite (proj1 (H c Hc)). reflexivity.
  - destruct idv as [i|]; [|reflexivity]. apply existsb_ext_in. intros c Hc. rewrite (proj2 (H c Hc)). reflexivity.
Qed.

Lemma fresh_ctr_ext s s' defs nm idv :
  (forall c, In c defs -> get_str s' c str_NAME = get_str s c str_NAME /\ get_str s' c str_IDENT = get_str s c str_IDENT) ->
  forall fuel k, fresh_ctr fuel s' defs nm idv k = fresh_ctr fuel s defs nm idv k.
Proof.
  intro H. induction fuel as [|f IH]; intro k; cbn [fresh_ctr]; [reflexivity|].
  rewrite (suffix_taken_ext s s' defs nm idv _ H), IH. reflexivity.
Qed.

(* the chosen value in terms of the definitions: no definition carries the new name, none carries the
   new identifier up to case; every smaller candidate from the counter on was in use *)
Lemma fresh_ctr_fresh s defs nm idv fuel k k' :
  fresh_ctr fuel s defs nm idv k = Some k' ->
  k <= k' /\
  (forall n c, nm = Some n -> In c defs -> get_str s c str_NAME <> Some (n ++ str_uniq ++ dec k')) /\
  (forall i c w, idv = Some i -> In c defs -> get_str s c str_IDENT = Some w -> lower w <> lower (i ++ str_uniq ++ dec k')) /\
  (forall j, k <= j -> j < k' -> suffix_taken s defs nm idv (str_uniq ++ dec j) = true).
Proof.
  intro E. destruct (fresh_ctr_spec s defs nm idv fuel k k' E) as [A [B C]]. split; [exact A|].
  unfold suffix_taken in B. apply orb_false_iff in B as [B1 B2]. split; [|split; [|exact C]].
  - intros n c -> Hc Hn. assert (H : name_taken s defs (n ++ str_uniq ++ dec k') = true) by (apply name_taken_spec; exists c; auto).
    rewrite H in B1. discriminate.
  - intros i c w -> Hc Hw Hl.
    assert (H : ident_taken s defs (i ++ str_uniq ++ dec k') = true) by (apply ident_taken_spec; exists c, w; auto).
    rewrite H in B2. discriminate.
Qed.

(* ---- the renaming block (Xform.rename_block) ---- *)
(* it only assigns the name and the identifier of the copy: a property of states that such assignments
   preserve holds after the block when it held before *)
Lemma rename_block_post (P : state -> Prop) x1 lib d d' x5 :
  P (st x1) ->
  (forall s k v, k = str_NAME \/ k = str_IDENT -> P s -> snd (dict_set s d' k v) = None -> P (fst (dict_set s d' k v))) ->
  rename_block x1 lib d d' = (x5, None) -> P (st x5).
Proof.
  intros H0 Hs. unfold rename_block. cbv zeta.
  destruct (is_some _ || is_some _); [|intro E; injection E as <-; exact H0].
  destruct (fresh_ctr _ _ _ _ _ _) as [k|]; [|discriminate].
  assert (Hid : forall x3 sfx, P (st x3) ->
            match get_str (st x3) d' str_IDENT with
            | Some idv => liftR x3 (dict_set (st x3) d' str_IDENT (VStr (idv ++ sfx))) (fun x4 => (x4, None))
            | None => (x3, None)
            end = (x5, None) -> P (st x5)).
  { intros x3 sfx H3. destruct (get_str (st x3) d' str_IDENT) as [idv|]; [|intro E; injection E as <-; exact H3].
    pose proof (Hs (st x3) str_IDENT (VStr (idv ++ sfx)) (or_intror eq_refl) H3) as HH.
    unfold liftR. destruct (dict_set (st x3) d' str_IDENT (VStr (idv ++ sfx))) as [s3 [e|]]; [discriminate|].
    intro E. injection E as <-. cbn [st]. apply HH. reflexivity. }
  destruct (get_str (st x1) d str_NAME) as [nm|].
  - cbn [st]. pose proof (Hs (st x1) str_NAME (VStr (nm ++ str_uniq ++ dec k)) (or_introl eq_refl) H0) as HH.
    unfold liftR at 1. destruct (dict_set (st x1) d' str_NAME (VStr (nm ++ str_uniq ++ dec k))) as [s2 [e|]]; [discriminate|].
    cbn [uniq_ctr flat_ctr]. apply (Hid (mkX s2 (S k) (flat_ctr x1))). cbn [st]. apply HH. reflexivity.
  - apply (Hid (mkX (st x1) (S k) (flat_ctr x1))). exact H0.
Qed.

(* the search never runs out of fuel: the renaming block does not end with XOutOfFuel *)
Lemma rename_block_fuel x1 lib d d' : snd (rename_block x1 lib d d') <> Some XOutOfFuel.
Proof.
  unfold rename_block. cbv zeta.
  destruct (is_some _ || is_some _); [|cbn [snd]; intro HH; discriminate HH].
  destruct (fresh_ctr _ _ _ _ _ _) as [k|] eqn:Ef; [|exfalso; apply (fresh_ctr_total _ _ _ _ _ Ef)]. clear Ef.
  assert (Hid : forall x3 sfx,
            snd match get_str (st x3) d' str_IDENT with
            | Some idv => liftR x3 (dict_set (st x3) d' str_IDENT (VStr (idv ++ sfx))) (fun x4 => (x4, None))
            | None => (x3, None)
            end <> Some XOutOfFuel).
  { intros x3 sfx. destruct (get_str (st x3) d' str_IDENT) as [idv|]; [|cbn [snd]; intro HH; discriminate HH].
    unfold liftR. destruct (dict_set _ _ _ _) as [s3 [e|]]; cbn [snd]; intro HH; discriminate HH. }
  destruct (get_str (st x1) d str_NAME) as [nm|]; [|apply Hid].
  unfold liftR at 1. destruct (dict_set _ _ _ _) as [s2 [e|]]; [cbn [snd]; intro HH; discriminate HH|]. apply Hid.
Qed.
