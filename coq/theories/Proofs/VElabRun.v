(* Engine `verilog`, document-level reader: the induction over the modules of a document and over the items of the body
   of its last module, down to one instance: the state in which the instance is read satisfies Inv and VInv, and what
   its port map connects shows in the FINAL state of the run. *)
From Coq Require Import List ZArith Bool Arith Lia Permutation.
From SV Require Import Base.Base Fmt.VBits Fmt.VTop Fmt.VDoc Fmt.VElab Fmt.VSpec Fmt.VSem
  Proofs.VerilogLists Proofs.VerilogGrow Proofs.VElabBase Proofs.VElabInv Proofs.VElabWf Proofs.VElabExpr Proofs.VElabConn
  Proofs.VElabAssign Proofs.VElabNets Proofs.VElabTop Proofs.VElabStable Proofs.VElabVis Proofs.VElabFrame Proofs.VElabDoc.
Import ListNotations.
Open Scope Z_scope.

Definition st_init : estate := {| st_defs := []; st_tops := None; st_ps := []; st_acount := O; st_curinst := None; st_pending := [] |}.

(* parse_module up to the end of the header: the state and the definition being read *)
Definition module_open (m : vmodule) (s : estate) : result (estate * nat) :=
  let '(s1, cur) := get_blackbox (vm_name m) s in
  match ed_lib (get_def cur s1) with
  | Some _ => Err EAssert
  | None =>
      let s2 := upd_def cur (fun d => set_meta d (Some (vm_cell m)) (ed_prim d) (ed_params d) (ed_attrs d)) s1 in
      let s3 := if vm_cell m then s2
                else set_acount (match st_tops s2 with None => set_elect s2 (Some [cur]) (st_ps s2) | Some _ => s2 end) O in
      let s4 := upd_def cur (fun d => set_meta d (ed_lib d) (ed_prim d) (dict_add_new (ed_params d) (dict_of (vm_params m))) (ed_attrs d)) s3 in
      let* s5 := lift cur (fold_res header_entry (inherit_header None (vm_header m))) s4 in
      Ok (s5, cur)
  end.

Lemma module_decl_split m s s' : vm_cell m = false -> module_decl m s = Ok s' ->
  exists s5 cur s6, module_open m s = Ok (s5, cur) /\ fold_res (body_item cur) (vm_body m) s5 = Ok s6 /\ LS s6 s'.
Proof.
  unfold module_decl, module_open. intros C H. destruct (get_blackbox (vm_name m) s) as [s1 cur].
  destruct (ed_lib (get_def cur s1)); [discriminate|]. rewrite C in *.
  apply bind_ok in H. destruct H as (s5 & H5 & H). apply bind_ok in H. destruct H as (s6 & H6 & H).
  exists s5, cur, s6. rewrite H5. split; [reflexivity|]. split; [exact H6|]. inversion H; subst.
  destruct (vm_attrs m); [apply LS_refl|]. apply upd_def_LS. apply lstepd_of_dstep; [apply set_meta_dstep|intros _; apply set_meta_lmono].
Qed.

Lemma module_open_inv m s s5 cur : Inv s -> VInv s -> module_open m s = Ok (s5, cur) ->
  Inv s5 /\ VInv s5 /\ (cur < length (st_defs s5))%nat /\ ed_name (get_def cur s5) = vm_name m.
Proof.
  unfold module_open. intros I VI H.
  destruct (get_blackbox (vm_name m) s) as [s1 c] eqn:G.
  pose proof (get_blackbox_vstep _ _ _ _ G) as V1.
  destruct (get_blackbox_inv _ _ _ _ G I) as (I1 & Hc & Nc & _).
  destruct (ed_lib (get_def c s1)); [discriminate|].
  set (s2 := upd_def c _ s1) in *.
  assert (I2 : Inv s2) by (apply upd_def_inv; [exact I1|apply set_meta_dstep]).
  assert (V2 : vstep s1 s2) by (apply upd_def_vstep; [reflexivity|apply set_meta_dvstep]).
  assert (L2 : length (st_defs s2) = length (st_defs s1)) by apply upd_def_length.
  set (s3 := if vm_cell m then s2 else _) in *.
  assert (I3 : Inv s3 /\ length (st_defs s3) = length (st_defs s2)).
  { unfold s3. destruct (vm_cell m); [split; [exact I2|reflexivity]|].
    split; [|destruct (st_tops s2); reflexivity]. apply inv_set_acount. destruct (st_tops s2) eqn:T; [exact I2|].
    assert (Hc2 : (c < length (st_defs s2))%nat) by lia.
    destruct I2 as [A B C D E]. constructor; cbn; try assumption.
    intros l t Hl Ht. inversion Hl; subst. destruct Ht as [<-|[]]. exact Hc2. }
  assert (V3 : vstep s2 s3).
  { unfold s3. destruct (vm_cell m); [apply vstep_refl|].
    apply vstep_same_defs; [destruct (st_tops s2); reflexivity|]. intros e He. left. destruct (st_tops s2); exact He. }
  destruct I3 as [I3 L3].
  set (s4 := upd_def c _ s3) in *.
  assert (I4 : Inv s4) by (apply upd_def_inv; [exact I3|apply set_meta_dstep]).
  assert (V4 : vstep s3 s4) by (apply upd_def_vstep; [reflexivity|apply set_meta_dvstep]).
  assert (L4 : length (st_defs s4) = length (st_defs s3)) by apply upd_def_length.
  apply bind_ok in H. destruct H as (s5' & H5 & H). injection H as E1 E2. subst s5' cur.
  assert (I5 : Inv s5) by (eapply lift_inv; [|exact H5|exact I4]; apply fold_res_dstep; intros x a b; apply header_entry_dstep).
  assert (V5 : vstep s4 s5).
  { eapply lift_vstep; [| |exact H5]; [apply fold_res_dstep; intros x a b; apply header_entry_dstep|apply fold_res_dvstep; intros x a b; apply header_entry_dvstep]. }
  assert (L5 : length (st_defs s5) = length (st_defs s4)) by (eapply lift_length; exact H5).
  assert (V15 : vstep s1 s5).
  { eapply vstep_trans; [exact V2|]. eapply vstep_trans; [exact V3|]. eapply vstep_trans; [exact V4|exact V5]. }
  split; [exact I5|]. split; [eapply vinv_vstep; [eapply vinv_vstep; [exact VI|exact V1]|exact V15]|]. split; [lia|].
  destruct (sm_names _ _ (vs_mono _ _ V15)) as (ex & N). rewrite (proj2 (names_prefix_get s1 s5 ex c N Hc)). exact Nc.
Qed.

Lemma fold_res_app {A S} (f : A -> S -> result S) a b : forall s s', fold_res f (a ++ b) s = Ok s' ->
  exists s1, fold_res f a s = Ok s1 /\ fold_res f b s1 = Ok s'.
Proof.
  induction a as [|x a IH]; intros s s' H; cbn in H |- *; [eauto|].
  apply bind_ok in H. destruct H as (s0 & H0 & H). destruct (IH _ _ H) as (s1 & Ha & Hb).
  exists s1. rewrite H0. cbn. split; assumption.
Qed.

Lemma body_prefix_inv cur items s s' : Inv s -> VInv s -> (cur < length (st_defs s))%nat ->
  fold_res (body_item cur) items s = Ok s' ->
  Inv s' /\ VInv s' /\ (cur < length (st_defs s'))%nat /\ ed_name (get_def cur s') = ed_name (get_def cur s).
Proof.
  intros I VI Hc H.
  destruct (fold_items_inv (fun c => body_item c) cur items (fun it a b => body_item_inv cur it a b) s s' H I Hc) as [I' Hc'].
  assert (V : vstep s s').
  { eapply (fold_items_vstep (fun c => body_item c) cur items); [| |exact I|exact Hc|exact H].
    - intros it a b. apply body_item_inv.
    - intros it a b. apply body_item_vstep. }
  split; [exact I'|]. split; [eapply vinv_vstep; eassumption|]. split; [exact Hc'|].
  destruct (sm_names _ _ (vs_mono _ _ V)) as (ex & N). exact (proj2 (names_prefix_get s s' ex cur N Hc)).
Qed.

Lemma modules_inv l : forall s s', Inv s -> VInv s -> fold_res module_decl l s = Ok s' -> Inv s' /\ VInv s'.
Proof.
  induction l as [|m l IH]; intros s s' I VI H; cbn in H; [inversion H; subst; auto|].
  apply bind_ok in H. destruct H as (s1 & H1 & H). eapply IH; [| |exact H].
  - eapply module_decl_inv; eassumption.
  - eapply vinv_vstep; [exact VI|eapply module_decl_vstep; eassumption].
Qed.

Lemma st_init_inv : Inv st_init /\ VInv st_init.
Proof.
  split; [constructor; cbn; try constructor; try contradiction; try discriminate|].
  split; [|intros e []]. intros k p w Hin. unfold get_def in Hin. cbn in Hin. destruct k; destruct Hin.
Qed.

(* the last module of a document: an instance with a named port map anywhere in its body, followed by items that are
   not port declarations. The reader reaches the instance in a state s (the modules before, the header, the items
   before); under the typing hypotheses on THAT state, every connection of the map shows in the final state. *)
Theorem last_module_instance pre m before m' i params attrs l after sf :
  run (pre ++ [m]) = Ok sf -> vm_cell m = false ->
  vm_body m = before ++ IInst m' i params attrs (CNamed l) :: after -> Forall not_port_decl after ->
  exists s0 s5 cur s,
    fold_res module_decl pre st_init = Ok s0 /\ module_open m s0 = Ok (s5, cur) /\ fold_res (body_item cur) before s5 = Ok s /\
    Inv s /\ VInv s /\ ed_name (get_def cur s) = vm_name m /\ ed_name (get_def cur sf) = vm_name m /\
    (vm_name m <> m' ->
     Forall (conn_typed (crange (get_def cur s))) l -> Forall (fun pc => has_glob (fst pc) = false) l ->
     (forall k, find_def m' s = Some k -> all_lo0 (get_def k s)) ->
     forall pc e r, In pc l -> In (e, r) (conn_meaning i (crange (get_def cur s)) pc) ->
     In e (net_of r (abs_def sf (get_def cur sf)))).
Proof.
  unfold run. fold st_init. intros H C B NP. apply bind_ok in H. destruct H as (s1 & H1 & H2).
  destruct (fold_res_app _ _ _ _ _ H1) as (s0 & Hpre & Hm). cbn in Hm. apply bind_ok in Hm. destruct Hm as (s1' & Hm & E). inversion E; subst s1'. clear E.
  destruct st_init_inv as [Ii VIi]. destruct (modules_inv pre _ _ Ii VIi Hpre) as [I0 VI0].
  destruct (module_decl_split m s0 s1 C Hm) as (s5 & cur & s6 & Ho & Hb & L6).
  destruct (module_open_inv m s0 s5 cur I0 VI0 Ho) as (I5 & VI5 & Hc5 & N5).
  rewrite B in Hb. destruct (fold_res_app _ _ _ _ _ Hb) as (s & Hbef & Hrest). cbn in Hrest.
  apply bind_ok in Hrest. destruct Hrest as (sA & HA & Haft). cbn [body_item] in HA.
  destruct (body_prefix_inv cur before s5 s I5 VI5 Hc5 Hbef) as (I & VI & Hc & N).
  assert (Lf : LS sA sf).
  { eapply LS_trans; [eapply body_LS; [exact NP|exact Haft]|]. eapply LS_trans; [exact L6|]. eapply run_tail_LS. exact H2. }
  assert (LA : LS s sA) by (eapply inst_item_LS; exact HA).
  assert (Nf : ed_name (get_def cur sf) = vm_name m).
  { destruct ((LS_trans _ _ _ LA Lf) (inv_alld s I)) as [[(ex & Nm) _] _].
    rewrite (proj2 (names_prefix_get s sf ex cur Nm Hc)), N. exact N5. }
  exists s0, s5, cur, s. split; [exact Hpre|]. split; [exact Ho|]. split; [exact Hbef|]. split; [exact I|]. split; [exact VI|].
  split; [rewrite N; exact N5|]. split; [exact Nf|].
  intros Hne T G A0 pc e r Hpc Hin.
  eapply (inst_named_persists cur m' i params attrs l s sA sf); try eassumption. rewrite N, N5. exact Hne.
Qed.

(* the definitions of the value are the definitions of the final state, position by position *)
Lemma elab_defs doc n : elab doc = Ok n ->
  exists sf, run doc = Ok sf /\ forall k, (k < length (st_defs sf))%nat -> nth_error (nv_defs n) k = Some (abs_def sf (get_def k sf)).
Proof.
  unfold elab. intro H. apply bind_ok in H. destruct H as (sf & Hr & H). exists sf. split; [exact Hr|].
  unfold abs_state in H. apply bind_ok in H. destruct H as (t & _ & H). inversion H; subst. cbn [nv_defs].
  intros k Hk. apply map_nth_error. unfold get_def. apply nth_error_nth'. exact Hk.
Qed.

(* the same on the netlist value elab returns *)
Theorem last_module_instance_value pre m before m' i params attrs l after n :
  elab (pre ++ [m]) = Ok n -> vm_cell m = false ->
  vm_body m = before ++ IInst m' i params attrs (CNamed l) :: after -> Forall not_port_decl after ->
  exists s0 s5 cur s d,
    fold_res module_decl pre st_init = Ok s0 /\ module_open m s0 = Ok (s5, cur) /\ fold_res (body_item cur) before s5 = Ok s /\
    nth_error (nv_defs n) cur = Some d /\ nd_name d = vm_name m /\
    (vm_name m <> m' ->
     Forall (conn_typed (crange (get_def cur s))) l -> Forall (fun pc => has_glob (fst pc) = false) l ->
     (forall k, find_def m' s = Some k -> all_lo0 (get_def k s)) ->
     forall pc e r, In pc l -> In (e, r) (conn_meaning i (crange (get_def cur s)) pc) -> In e (net_of r d)).
Proof.
  intros H C B NP. destruct (elab_defs _ _ H) as (sf & Hr & Hd).
  destruct (last_module_instance pre m before m' i params attrs l after sf Hr C B NP) as (s0 & s5 & cur & s & E0 & E5 & Es & I & VI & N & Nf & K).
  exists s0, s5, cur, s, (abs_def sf (get_def cur sf)). split; [exact E0|]. split; [exact E5|]. split; [exact Es|].
  assert (Hc : (cur < length (st_defs sf))%nat).
  { destruct (lt_dec cur (length (st_defs sf))) as [Hc|Hc]; [exact Hc|]. exfalso.
    destruct (module_open_inv m s0 s5 cur) as (_ & _ & Hc5 & _); [| |exact E5|].
    - destruct st_init_inv as [Ii VIi]. apply (modules_inv pre _ _ Ii VIi E0).
    - destruct st_init_inv as [Ii VIi]. apply (modules_inv pre _ _ Ii VIi E0).
    - destruct (body_prefix_inv cur before s5 s) as (_ & _ & Hcs & _); try assumption;
        try (destruct st_init_inv as [Ii VIi]; destruct (modules_inv pre _ _ Ii VIi E0) as [I0 VI0];
             destruct (module_open_inv m s0 s5 cur I0 VI0 E5) as (I5 & VI5 & _ & _); assumption).
      unfold run in Hr. fold st_init in Hr. apply bind_ok in Hr. destruct Hr as (s1 & H1 & H2).
      destruct (fold_res_app _ _ _ _ _ H1) as (s0' & Hpre & Hm). rewrite E0 in Hpre. inversion Hpre; subst s0'.
      cbn in Hm. apply bind_ok in Hm. destruct Hm as (s1' & Hm & E). inversion E; subst s1'.
      destruct (module_decl_split m s0 s1 C Hm) as (s5' & cur' & s6 & Ho & Hb & L6). rewrite E5 in Ho. inversion Ho; subst s5' cur'.
      rewrite B in Hb. destruct (fold_res_app _ _ _ _ _ Hb) as (s' & Hbef & Hrest). rewrite Es in Hbef. inversion Hbef; subst s'.
      cbn in Hrest. apply bind_ok in Hrest. destruct Hrest as (sA & HA & Haft). cbn [body_item] in HA.
      assert (Lf : LS s sf).
      { eapply LS_trans; [eapply inst_item_LS; exact HA|]. eapply LS_trans; [eapply body_LS; [exact NP|exact Haft]|].
        eapply LS_trans; [exact L6|]. eapply run_tail_LS. exact H2. }
      destruct (Lf (inv_alld s I)) as [[(ex & Nm) _] _].
      pose proof (proj1 (names_prefix_get s sf ex cur Nm Hcs)). lia. }
  split; [apply Hd; exact Hc|]. split; [exact Nf|exact K].
Qed.
