(* get_cables, selection ALL: searching a wire appends its pins, whose wires on both sides are searched
   in turn - a closure across hierarchy boundaries driven by the set searched_wires (the marks).
   Generic part (section Det): for a table whose mark statements are determined by the marked element,
   the run from one root records exactly what the root leads to (det_exact), the final marks are exactly
   the marks the root leads to (det_marks), and these are the closure, under "an appended item of c
   leads to c' without crossing a mark", of the marks reached without crossing a mark (marks_closure).
   For get_cables ALL (section CabAll) one step of that closure is wire_adj of QueryEnumWiresAll.v
   (madj_wire_adj), so the searched wires are the wire_adj closure of the seed wires
   (searched_closure), and the cables returned are the cables of the searched wires and the cables
   recorded directly at an instance (cands_cables_all_sound / _complete). *)
From Coq Require Import List Arith Bool Lia Relations.
From SV Require Import Base.Base IR.State IR.NS IR.Ops Proofs.Inv1a Proofs.Inv2a Proofs.InvW Proofs.AssocX
  Hier.Paths Hier.Enum Hier.Trace Proofs.KindD Query.Filter Query.Enum Query.EnumSpec
  Proofs.FieldT Proofs.QueryEnumWL Proofs.QueryEnumBase Proofs.QueryEnumView Proofs.QueryEnumPorts Proofs.QueryEnumPins
  Proofs.QueryEnumCables Proofs.QueryEnumWires Proofs.QueryEnumWiresSpec Proofs.QueryEnumWiresAll.
Import ListNotations.

(* ---- tables whose marks are determined by the marked element ---- *)
Section Det.
Context {T : Type}.
Variable acts : item -> list (act T).
Variable bad : item -> bool.
Variable osf : id -> list T.
Variable ysf : id -> list item.
Hypothesis Hdet : forall y c os ys, In (AMark c os ys) (acts y) -> os = osf c /\ ys = ysf c.

Lemma det_done st' it : Done acts st' it -> (forall c, In c (w_marks st') -> Fired acts st' [it] c) ->
  forall y, Reach acts it y -> Done acts st' y.
Proof.
  intros Hd HF y Hr. apply clos_rt_rtn1 in Hr. induction Hr as [|y z (a & Ha & Hz) Hr IH]; [exact Hd|].
  apply done_inv in IH as (D1 & _ & D3). destruct a as [z'|o|c os ys]; cbn in Hz.
  - destruct Hz as [<-|[]]. apply D1, Ha.
  - destruct Hz.
  - destruct (HF c (D3 c os ys Ha)) as (x0 & y' & os' & ys' & _ & _ & Ha' & _ & Hy).
    destruct (Hdet _ _ _ _ Ha) as [_ ->]. destruct (Hdet _ _ _ _ Ha') as [_ ->].
    rewrite Forall_forall in Hy. apply Hy, Hz.
Qed.

Theorem det_exact fuel it l : wl_run acts bad fuel [it] = WOk l -> forall o, In o l <-> Emits acts it o.
Proof.
  intros H o. apply run_marks in H as (st' & -> & HD & HM & HE). rewrite <- in_rev. split; [apply HE|].
  intros (y & a & Hr & Ha & Ho).
  pose proof (det_done st' it HD (fun c Hc => proj1 (HM c Hc)) y Hr) as Hdy. apply done_inv in Hdy as (_ & D2 & D3).
  destruct a as [z|o'|c os ys]; cbn in Ho.
  - destruct Ho.
  - destruct Ho as [<-|[]]. apply D2, Ha.
  - pose proof (D3 c os ys Ha) as Hc. destruct (HM c Hc) as [(x0 & y' & os' & ys' & _ & _ & Ha' & Hos & _) _].
    apply Hos. destruct (Hdet _ _ _ _ Ha) as [E _]. destruct (Hdet _ _ _ _ Ha') as [-> _]. rewrite <- E. exact Ho.
Qed.

(* the final set of marks *)
Theorem det_marks fuel it st' : wl acts bad fuel [it] (mkW [] []) = WOk st' ->
  forall c, In c (w_marks st') <-> Marks acts it c.
Proof.
  intros E c. destruct (wl_closed acts bad fuel _ _ _ E) as (H1 & H2 & _ & _).
  destruct (wl_sound acts bad fuel _ _ _ E) as (_ & H4). cbn in *. split.
  - intro Hc. destruct (H4 c Hc) as [[]|(x & [<-|[]] & Hm)]. exact Hm.
  - intros (y & os & ys & Hr & Ha).
    assert (HD : Done acts st' it) by (inversion H1; assumption).
    assert (HF : forall c, In c (w_marks st') -> Fired acts st' [it] c) by (intros c' Hc'; destruct (H2 c' Hc') as [[]|Hf]; exact Hf).
    pose proof (det_done st' it HD HF y Hr) as Hdy. apply done_inv in Hdy as (_ & _ & D3). apply (D3 c os ys Ha).
Qed.

(* reached without crossing a mark *)
Definition pstep (x y : item) : Prop := In (APush y) (acts x).
Definition PReach : item -> item -> Prop := clos_refl_trans item pstep.
(* c is marked at an item reached from x without crossing a mark *)
Definition seed (x : item) (c : id) : Prop := exists y os ys, PReach x y /\ In (AMark c os ys) (acts y).
(* an item appended when c is marked is a seed of c' *)
Definition madj (c c' : id) : Prop := exists y, In y (ysf c) /\ seed y c'.

Lemma preach_reach x y : PReach x y -> Reach acts x y.
Proof.
  intro H. induction H as [x y H|x|x y z _ IH1 _ IH2]; [|apply rt_refl|eapply rt_trans; eassumption].
  apply rt_step. exists (APush y). split; [exact H|left; reflexivity].
Qed.

Lemma reach_split x y : Reach acts x y ->
  PReach x y \/ exists c0 c y0, seed x c0 /\ clos_refl_trans id madj c0 c /\ In y0 (ysf c) /\ PReach y0 y.
Proof.
  intro Hr. apply clos_rt_rtn1 in Hr. induction Hr as [|y z (a & Ha & Hz) _ IH]; [left; apply rt_refl|].
  destruct a as [z'|o|c' os ys]; cbn in Hz.
  - destruct Hz as [<-|[]]. destruct IH as [IH|(c0 & c & y0 & H1 & H2 & H3 & H4)].
    + left. eapply rt_trans; [exact IH|apply rt_step; exact Ha].
    + right. exists c0, c, y0. repeat split; try assumption. eapply rt_trans; [exact H4|apply rt_step; exact Ha].
  - destruct Hz.
  - right. destruct (Hdet _ _ _ _ Ha) as [_ Ey]. rewrite Ey in Hz. destruct IH as [IH|(c0 & c & y0 & H1 & H2 & H3 & H4)].
    + exists c', c', z. split; [exists y, os, ys; split; assumption|]. split; [apply rt_refl|]. split; [exact Hz|apply rt_refl].
    + exists c0, c', z. split; [exact H1|]. split; [|split; [exact Hz|apply rt_refl]].
      eapply rt_trans; [exact H2|apply rt_step]. exists y0. split; [exact H3|]. exists y, os, ys. split; assumption.
Qed.

Theorem marks_closure x c : Marks acts x c <-> exists c0, seed x c0 /\ clos_refl_trans id madj c0 c.
Proof.
  split.
  - intros (y & os & ys & Hr & Ha). apply reach_split in Hr as [Hr|(c0 & c1 & y0 & H1 & H2 & H3 & H4)].
    + exists c. split; [exists y, os, ys; split; assumption|apply rt_refl].
    + exists c0. split; [exact H1|]. eapply rt_trans; [exact H2|apply rt_step]. exists y0. split; [exact H3|].
      exists y, os, ys. split; assumption.
  - intros (c0 & (y & os & ys & Hp & Ha) & Hr). apply clos_rt_rtn1 in Hr. induction Hr as [|c1 c2 (y0 & Hy0 & y' & os' & ys' & Hp' & Ha') _ IH].
    + exists y, os, ys. split; [apply preach_reach; exact Hp|exact Ha].
    + destruct IH as (y1 & os1 & ys1 & Hr1 & Ha1). destruct (Hdet _ _ _ _ Ha1) as [_ Ey].
      exists y', os', ys'. split; [|exact Ha']. eapply reach_trans; [exact Hr1|].
      eapply reach_step; [exists (AMark c1 os1 ys1); split; [exact Ha1|cbn; rewrite Ey; exact Hy0]|apply preach_reach; exact Hp'].
Qed.

(* what is recorded: directly, or when an element is marked *)
Lemma emits_split x o : Emits acts x o <->
  (exists y, Reach acts x y /\ In (AOut o) (acts y)) \/ (exists c, Marks acts x c /\ In o (osf c)).
Proof.
  split.
  - intros (y & a & Hr & Ha & Ho). destruct a as [z|o'|c os ys]; cbn in Ho.
    + destruct Ho.
    + destruct Ho as [<-|[]]. left. exists y. split; assumption.
    + right. exists c. split; [exists y, os, ys; split; assumption|]. destruct (Hdet _ _ _ _ Ha) as [<- _]. exact Ho.
  - intros [(y & Hr & Ha)|(c & (y & os & ys & Hr & Ha) & Ho)].
    + exists y, (AOut o). split; [exact Hr|]. split; [exact Ha|left; reflexivity].
    + exists y, (AMark c os ys). split; [exact Hr|]. split; [exact Ha|]. destruct (Hdet _ _ _ _ Ha) as [-> _]. exact Ho.
Qed.
End Det.

Print Assumptions det_exact.
Print Assumptions det_marks.
Print Assumptions marks_closure.

(* ---- get_cables, selection ALL ---- *)
Section CabAll.
Variable s : state.
Hypothesis W : QWF s.
Variable rec : bool.
Notation AA := (acts_cables s rec SAll).

(* what searching wire w appends: its pins *)
Definition wire_items (w : id) : list item := map item_of_pin (wpins s w).

Lemma in_search_all ow a : In a (search_wire s SAll ow) <-> exists w, ow = Some w /\ a = AMark w (cab_of s w) (wire_items w).
Proof.
  unfold search_wire, cab_of, wire_items. cbn [sel_all]. destruct ow as [w|]; cbn.
  - split; [intros [<-|[]]; exists w; auto|intros (w' & E & ->); injection E as <-; left; reflexivity].
  - split; [intros []|intros (w' & E & _); discriminate].
Qed.

(* every mark statement is a wire search: it records the cable of the wire and appends its pins *)
Lemma cab_marks_all y c os ys : In (AMark c os ys) (AA y) -> os = cab_of s c /\ ys = wire_items c.
Proof.
  assert (Hs : forall ow, In (AMark c os ys) (search_wire s SAll ow) -> os = cab_of s c /\ ys = wire_items c).
  { intros ow H. apply in_search_all in H as (w & _ & E). injection E as -> -> ->. auto. }
  assert (Hpi : forall l, ~ In (AMark c os ys) (@push_ids qout l)) by (intros l H; apply in_push_ids in H as (z & _ & E); discriminate E).
  assert (Hoi : forall l, ~ In (AMark c os ys) (oth_ids l)) by (intros l H; apply in_oth_ids in H as (z & _ & E); discriminate E).
  destruct y as [e|n i| |h]; cbn [acts_cables sel_ia sel_out sel_in sel_all].
  - destruct (kind_of s e) as [[]|]; intro H.
    + apply in_flat_map in H as (l & _ & H). exfalso. apply (Hpi _ H).
    + exfalso. apply (Hpi _ H).
    + exfalso. apply in_app_or in H as [H|H].
      * destruct H as [E|H]; [discriminate E|]. rewrite orb_true_r in H. apply (Hpi _ H).
      * apply in_flat_map in H as (p & _ & H). apply (Hpi _ H).
    + exfalso. apply (Hpi _ H).
    + exfalso. apply (Hpi _ H).
    + exfalso. apply in_map_iff in H as (q & E & _). discriminate E.
    + apply in_app_or in H as [H|H]; [apply (Hs _ H)|]. apply in_flat_map in H as (m & _ & H). apply (Hs _ H).
    + exfalso. apply in_app_or in H as [H|H].
      * destruct (iref s e); [|destruct H]. apply in_app_or in H as [H|H]; [apply (Hoi _ H)|].
        rewrite orb_true_r in H. apply (Hpi _ H).
      * apply in_map_iff in H as (q & E & _). discriminate E.
    + destruct H.
  - intro H. apply in_app_or in H as [H|H]; apply (Hs _ H).
  - intros [].
  - intro H. apply in_push_opt in H as (z & _ & E). discriminate E.
Qed.

(* the candidates are exactly what the root leads to *)
Theorem cands_cables_all_emits fuel it ps os :
  cands_cables s fuel [it] rec SAll = WOk (ps, os) ->
  (forall p, In p ps <-> Emits AA it (OPar p)) /\ (forall c, In c os <-> Emits AA it (OOth c)) /\ NoDup os.
Proof.
  intro H. unfold cands_cables in H.
  destruct (wl_run AA (bad_cables s SAll) fuel [it]) as [l| |] eqn:E; try discriminate H. cbn in H. injection H as <- <-.
  pose proof (det_exact AA (bad_cables s SAll) (cab_of s) wire_items cab_marks_all fuel it l E) as Hem.
  split; [|split]; [intro p|intro c|apply dedup_NoDup].
  - rewrite in_pars. apply Hem.
  - rewrite dedup_In, in_oths. apply Hem.
Qed.

(* ---- the pins appended by a wire search: no appends, marks = the wires looked at for the pin ---- *)
Lemma marked_search ow c : (exists os ys, In (AMark c os ys) (search_wire s SAll ow)) <-> In c (opt_wire ow).
Proof.
  destruct ow as [w|]; cbn.
  - split; [intros (os & ys & [E|[]]); injection E as -> _ _; left; reflexivity|intros [<-|[]]; eexists _, _; left; reflexivity].
  - split; [intros (? & ? & [])|intros []].
Qed.

Lemma search_nopush y ow : ~ In (APush y) (search_wire s SAll ow).
Proof. destruct ow; cbn; [intros [E|[]]; discriminate E|intros []]. Qed.

Lemma pin_item p w : In p (wpins s w) ->
  (forall y, ~ In (APush y) (AA (item_of_pin p))) /\
  (forall c, (exists os ys, In (AMark c os ys) (AA (item_of_pin p))) <-> In c (pin_cands s SAll p)).
Proof.
  intro Hp. apply (wpins_pin_wire s W) in Hp. destruct (on_wire_kind s W w p Hp) as (i & Ei & Hk).
  destruct p as [j|n j|]; cbn [inner_of] in Ei; [injection Ei as ->|injection Ei as ->|discriminate];
    cbn [item_of_pin acts_cables sel_in sel_out pin_cands].
  - rewrite Hk. cbn [pin_wire]. split.
    + intros y H. apply in_app_or in H as [H|H]; [apply (search_nopush _ _ H)|]. apply in_flat_map in H as (m & _ & H). apply (search_nopush _ _ H).
    + intro c. unfold outer_wires. rewrite in_app_iff, in_flat_map, <- marked_search. split.
      * intros (os & ys & H). apply in_app_or in H as [H|H]; [left; eauto|]. apply in_flat_map in H as (m & Hm & H).
        right. exists m. split; [exact Hm|]. apply marked_search. eauto.
      * intros [(os & ys & H)|(m & Hm & H)]; [exists os, ys; apply in_or_app; left; exact H|].
        apply marked_search in H as (os & ys & H). exists os, ys. apply in_or_app. right. apply in_flat_map. exists m. auto.
  - split.
    + intros y H. apply in_app_or in H as [H|H]; apply (search_nopush _ _ H).
    + intro c. rewrite in_app_iff, <- !marked_search. split.
      * intros (os & ys & H). apply in_app_or in H as [H|H]; [right|left]; eauto.
      * intros [(os & ys & H)|(os & ys & H)]; exists os, ys; apply in_or_app; [right|left]; exact H.
Qed.

Lemma preach_stuck (x y : item) : (forall z, ~ In (APush z) (AA x)) -> PReach AA x y -> x = y.
Proof.
  intros Hn H. apply clos_rt_rt1n in H. destruct H as [|z y Hs _]; [reflexivity|]. exfalso. apply (Hn z Hs).
Qed.

Lemma pin_seed p w c : In p (wpins s w) -> (seed AA (item_of_pin p) c <-> In c (pin_cands s SAll p)).
Proof.
  intro Hp. destruct (pin_item p w Hp) as [Hn Hm]. rewrite <- Hm. split.
  - intros (y & os & ys & Hr & Ha). apply (preach_stuck _ _ Hn) in Hr as <-. eauto.
  - intros (os & ys & Ha). exists (item_of_pin p), os, ys. split; [apply rt_refl|exact Ha].
Qed.

(* one step of the closure of the marks is one step of the closure of get_wires ALL *)
Lemma madj_wire_adj w w' : madj AA wire_items w w' <-> wire_adj s w w'.
Proof.
  unfold madj, wire_adj, wire_items. split.
  - intros (y & Hy & Hs). apply in_map_iff in Hy as (p & <- & Hp). exists p. split; [exact Hp|apply (pin_seed p w w' Hp); exact Hs].
  - intros (p & Hp & Hc). exists (item_of_pin p). split; [apply in_map; exact Hp|apply (pin_seed p w w' Hp); exact Hc].
Qed.

(* the searched wires: the closure of the wires searched at the pins the root leads to *)
Definition searched_wire (it : item) (w : id) : Prop :=
  exists w0, seed AA it w0 /\ clos_refl_trans id (wire_adj s) w0 w.

Theorem searched_closure it w : Marks AA it w <-> searched_wire it w.
Proof.
  rewrite (marks_closure AA (cab_of s) wire_items cab_marks_all it w). unfold searched_wire.
  split; intros (w0 & H0 & Hr); exists w0; (split; [exact H0|]).
  - apply (rt_mono (madj AA wire_items)); [intros a b; apply madj_wire_adj|exact Hr].
  - apply (rt_mono (wire_adj s)); [intros a b; apply madj_wire_adj|exact Hr].
Qed.

(* the set searched_wires at the end of the loop *)
Theorem searched_wires_final fuel it st' :
  wl AA (bad_cables s SAll) fuel [it] (mkW [] []) = WOk st' ->
  forall w, In w (w_marks st') <-> searched_wire it w.
Proof.
  intros E w. rewrite (det_marks AA (bad_cables s SAll) (cab_of s) wire_items cab_marks_all fuel it st' E w). apply searched_closure.
Qed.

(* the searched wires are closed under wire_adj *)
Corollary searched_closed it w w' : searched_wire it w -> wire_adj s w w' -> searched_wire it w'.
Proof. intros (w0 & H0 & Hr) Ha. exists w0. split; [exact H0|eapply rt_trans; [exact Hr|apply rt_step; exact Ha]]. Qed.

End CabAll.

Print Assumptions cands_cables_all_emits.
Print Assumptions madj_wire_adj.
Print Assumptions searched_closure.
Print Assumptions searched_wires_final.
