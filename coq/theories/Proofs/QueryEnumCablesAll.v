(* get_cables, selection ALL: searching a wire appends its pins, whose wires on both sides are searched
   in turn - a closure across hierarchy boundaries driven by the set searched_wires (the marks).
   Generic part (section Det): for a table whose mark statements are determined by the marked element,
   the run from one root records exactly what the root leads to (det_exact), the final marks are exactly
   the marks the root leads to (det_marks), and these are the closure, under "an appended item of c
   leads to c' without crossing a mark", of the marks reached without crossing a mark (marks_closure).
   For get_cables ALL one step of that closure is wire_adj of QueryEnumWiresAll.v (madj_wire_adj); the
   searched wires are the wire_adj closure of the wires looked at for the pins the root leads to
   (lead_pin, by kind of root; reach_wire_all; searched_wire_decl, searched_wires_all_final); the cables
   returned are the cables of the searched wires and the cables of the references of the instances the
   root leads to (lead_insts; cables_all; cands_cables_all_exact, each cable once); the parents of the
   first stage are the definitions in the scope of the root (cands_cables_all_parents); the recursive
   flag and the fuel play no role (cands_cables_all_rec). *)
From Coq Require Import List Arith Bool Lia Relations.
From SV Require Import Base.Base IR.State IR.NS IR.Ops Proofs.Inv1a Proofs.Inv2a Proofs.InvW Proofs.AssocX
  Hier.Paths Hier.Enum Hier.Trace Proofs.KindD Query.Filter Query.Enum Query.EnumSpec
  Proofs.FieldT Proofs.QueryEnumWL Proofs.QueryEnumBase Proofs.QueryEnumView Proofs.QueryEnumPorts Proofs.QueryEnumPins
  Proofs.QueryEnumCables Proofs.QueryEnumWires Proofs.QueryEnumWiresSpec Proofs.QueryEnumWiresAll.
Import ListNotations.

(* ---- tables whose marks are determined by the marked element ---- *)
Section Det.
Context {T : Type}.
Variable acts : item -> list (act T).
Variable bad : item -> bool.
Variable osf : id -> list T.
Variable ysf : id -> list item.
Hypothesis Hdet : forall y c os ys, In (AMark c os ys) (acts y) -> os = osf c /\ ys = ysf c.

Lemma det_done st' it : Done acts st' it -> (forall c, In c (w_marks st') -> Fired acts st' [it] c) ->
  forall y, Reach acts it y -> Done acts st' y.
Proof.
  intros Hd HF y Hr. apply clos_rt_rtn1 in Hr. induction Hr as [|y z (a & Ha & Hz) Hr IH]; [exact Hd|].
  apply done_inv in IH as (D1 & _ & D3). destruct a as [z'|o|c os ys]; cbn in Hz.
  - destruct Hz as [<-|[]]. apply D1, Ha.
  - destruct Hz.
  - destruct (HF c (D3 c os ys Ha)) as (x0 & y' & os' & ys' & _ & _ & Ha' & _ & Hy).
    destruct (Hdet _ _ _ _ Ha) as [_ ->]. destruct (Hdet _ _ _ _ Ha') as [_ ->].
    rewrite Forall_forall in Hy. apply Hy, Hz.
Qed.

Theorem det_exact fuel it l : wl_run acts bad fuel [it] = WOk l -> forall o, In o l <-> Emits acts it o.
Proof.
  intros H o. apply run_marks in H as (st' & -> & HD & HM & HE). rewrite <- in_rev. split; [apply HE|].
  intros (y & a & Hr & Ha & Ho).
  pose proof (det_done st' it HD (fun c Hc => proj1 (HM c Hc)) y Hr) as Hdy. apply done_inv in Hdy as (_ & D2 & D3).
  destruct a as [z|o'|c os ys]; cbn in Ho.
  - destruct Ho.
  - destruct Ho as [<-|[]]. apply D2, Ha.
  - pose proof (D3 c os ys Ha) as Hc. destruct (HM c Hc) as [(x0 & y' & os' & ys' & _ & _ & Ha' & Hos & _) _].
    apply Hos. destruct (Hdet _ _ _ _ Ha) as [E _]. destruct (Hdet _ _ _ _ Ha') as [-> _]. rewrite <- E. exact Ho.
Qed.

(* the final set of marks *)
Theorem det_marks fuel it st' : wl acts bad fuel [it] (mkW [] []) = WOk st' ->
  forall c, In c (w_marks st') <-> Marks acts it c.
Proof.
  intros E c. destruct (wl_closed acts bad fuel _ _ _ E) as (H1 & H2 & _ & _).
  destruct (wl_sound acts bad fuel _ _ _ E) as (_ & H4). cbn in *. split.
  - intro Hc. destruct (H4 c Hc) as [[]|(x & [<-|[]] & Hm)]. exact Hm.
  - intros (y & os & ys & Hr & Ha).
    assert (HD : Done acts st' it) by (inversion H1; assumption).
    assert (HF : forall c, In c (w_marks st') -> Fired acts st' [it] c) by (intros c' Hc'; destruct (H2 c' Hc') as [[]|Hf]; exact Hf).
    pose proof (det_done st' it HD HF y Hr) as Hdy. apply done_inv in Hdy as (_ & _ & D3). apply (D3 c os ys Ha).
Qed.

(* reached without crossing a mark *)
Definition pstep (x y : item) : Prop := In (APush y) (acts x).
Definition PReach : item -> item -> Prop := clos_refl_trans item pstep.
(* c is marked at an item reached from x without crossing a mark *)
Definition seed (x : item) (c : id) : Prop := exists y os ys, PReach x y /\ In (AMark c os ys) (acts y).
(* an item appended when c is marked is a seed of c' *)
Definition madj (c c' : id) : Prop := exists y, In y (ysf c) /\ seed y c'.

Lemma preach_reach x y : PReach x y -> Reach acts x y.
Proof.
  intro H. induction H as [x y H|x|x y z _ IH1 _ IH2]; [|apply rt_refl|eapply rt_trans; eassumption].
  apply rt_step. exists (APush y). split; [exact H|left; reflexivity].
Qed.

Lemma reach_split x y : Reach acts x y ->
  PReach x y \/ exists c0 c y0, seed x c0 /\ clos_refl_trans id madj c0 c /\ In y0 (ysf c) /\ PReach y0 y.
Proof.
  intro Hr. apply clos_rt_rtn1 in Hr. induction Hr as [|y z (a & Ha & Hz) _ IH]; [left; apply rt_refl|].
  destruct a as [z'|o|c' os ys]; cbn in Hz.
  - destruct Hz as [<-|[]]. destruct IH as [IH|(c0 & c & y0 & H1 & H2 & H3 & H4)].
    + left. eapply rt_trans; [exact IH|apply rt_step; exact Ha].
    + right. exists c0, c, y0. repeat split; try assumption. eapply rt_trans; [exact H4|apply rt_step; exact Ha].
  - destruct Hz.
  - right. destruct (Hdet _ _ _ _ Ha) as [_ Ey]. rewrite Ey in Hz. destruct IH as [IH|(c0 & c & y0 & H1 & H2 & H3 & H4)].
    + exists c', c', z. split; [exists y, os, ys; split; assumption|]. split; [apply rt_refl|]. split; [exact Hz|apply rt_refl].
    + exists c0, c', z. split; [exact H1|]. split; [|split; [exact Hz|apply rt_refl]].
      eapply rt_trans; [exact H2|apply rt_step]. exists y0. split; [exact H3|]. exists y, os, ys. split; assumption.
Qed.

Theorem marks_closure x c : Marks acts x c <-> exists c0, seed x c0 /\ clos_refl_trans id madj c0 c.
Proof.
  split.
  - intros (y & os & ys & Hr & Ha). apply reach_split in Hr as [Hr|(c0 & c1 & y0 & H1 & H2 & H3 & H4)].
    + exists c. split; [exists y, os, ys; split; assumption|apply rt_refl].
    + exists c0. split; [exact H1|]. eapply rt_trans; [exact H2|apply rt_step]. exists y0. split; [exact H3|].
      exists y, os, ys. split; assumption.
  - intros (c0 & (y & os & ys & Hp & Ha) & Hr). apply clos_rt_rtn1 in Hr. induction Hr as [|c1 c2 (y0 & Hy0 & y' & os' & ys' & Hp' & Ha') _ IH].
    + exists y, os, ys. split; [apply preach_reach; exact Hp|exact Ha].
    + destruct IH as (y1 & os1 & ys1 & Hr1 & Ha1). destruct (Hdet _ _ _ _ Ha1) as [_ Ey].
      exists y', os', ys'. split; [|exact Ha']. eapply reach_trans; [exact Hr1|].
      eapply reach_step; [exists (AMark c1 os1 ys1); split; [exact Ha1|cbn; rewrite Ey; exact Hy0]|apply preach_reach; exact Hp'].
Qed.

(* what is recorded: directly, or when an element is marked *)
Lemma emits_split x o : Emits acts x o <->
  (exists y, Reach acts x y /\ In (AOut o) (acts y)) \/ (exists c, Marks acts x c /\ In o (osf c)).
Proof.
  split.
  - intros (y & a & Hr & Ha & Ho). destruct a as [z|o'|c os ys]; cbn in Ho.
    + destruct Ho.
    + destruct Ho as [<-|[]]. left. exists y. split; assumption.
    + right. exists c. split; [exists y, os, ys; split; assumption|]. destruct (Hdet _ _ _ _ Ha) as [<- _]. exact Ho.
  - intros [(y & Hr & Ha)|(c & (y & os & ys & Hr & Ha) & Ho)].
    + exists y, (AOut o). split; [exact Hr|]. split; [exact Ha|left; reflexivity].
    + exists y, (AMark c os ys). split; [exact Hr|]. split; [exact Ha|]. destruct (Hdet _ _ _ _ Ha) as [-> _]. exact Ho.
Qed.
End Det.

Print Assumptions det_exact.
Print Assumptions det_marks.
Print Assumptions marks_closure.

(* ---- get_cables, selection ALL ---- *)
Section CabAll.
Variable s : state.
Hypothesis W : QWF s.
Variable rec : bool.
Notation AA := (acts_cables s rec SAll).

(* what searching wire w appends: its pins *)
Definition wire_items (w : id) : list item := map item_of_pin (wpins s w).

Lemma in_search_all ow a : In a (search_wire s SAll ow) <-> exists w, ow = Some w /\ a = AMark w (cab_of s w) (wire_items w).
Proof.
  unfold search_wire, cab_of, wire_items. cbn [sel_all]. destruct ow as [w|]; cbn.
  - split; [intros [<-|[]]; exists w; auto|intros (w' & E & ->); injection E as <-; left; reflexivity].
  - split; [intros []|intros (w' & E & _); discriminate].
Qed.

(* every mark statement is a wire search: it records the cable of the wire and appends its pins *)
Lemma cab_marks_all y c os ys : In (AMark c os ys) (AA y) -> os = cab_of s c /\ ys = wire_items c.
Proof.
  assert (Hs : forall ow, In (AMark c os ys) (search_wire s SAll ow) -> os = cab_of s c /\ ys = wire_items c).
  { intros ow H. apply in_search_all in H as (w & _ & E). injection E as -> -> ->. auto. }
  assert (Hpi : forall l, ~ In (AMark c os ys) (@push_ids qout l)) by (intros l H; apply in_push_ids in H as (z & _ & E); discriminate E).
  assert (Hoi : forall l, ~ In (AMark c os ys) (oth_ids l)) by (intros l H; apply in_oth_ids in H as (z & _ & E); discriminate E).
  destruct y as [e|n i| |h]; cbn [acts_cables sel_ia sel_out sel_in sel_all].
  - destruct (kind_of s e) as [[]|]; intro H.
    + apply in_flat_map in H as (l & _ & H). exfalso. apply (Hpi _ H).
    + exfalso. apply (Hpi _ H).
    + exfalso. apply in_app_or in H as [H|H].
      * destruct H as [E|H]; [discriminate E|]. rewrite orb_true_r in H. apply (Hpi _ H).
      * apply in_flat_map in H as (p & _ & H). apply (Hpi _ H).
    + exfalso. apply (Hpi _ H).
    + exfalso. apply (Hpi _ H).
    + exfalso. apply in_map_iff in H as (q & E & _). discriminate E.
    + apply in_app_or in H as [H|H]; [apply (Hs _ H)|]. apply in_flat_map in H as (m & _ & H). apply (Hs _ H).
    + exfalso. apply in_app_or in H as [H|H].
      * destruct (iref s e); [|destruct H]. apply in_app_or in H as [H|H]; [apply (Hoi _ H)|].
        rewrite orb_true_r in H. apply (Hpi _ H).
      * apply in_map_iff in H as (q & E & _). discriminate E.
    + destruct H.
  - intro H. apply in_app_or in H as [H|H]; apply (Hs _ H).
  - intros [].
  - intro H. apply in_push_opt in H as (z & _ & E). discriminate E.
Qed.

(* the candidates are exactly what the root leads to *)
Theorem cands_cables_all_emits fuel it ps os :
  cands_cables s fuel [it] rec SAll = WOk (ps, os) ->
  (forall p, In p ps <-> Emits AA it (OPar p)) /\ (forall c, In c os <-> Emits AA it (OOth c)) /\ NoDup os.
Proof.
  intro H. unfold cands_cables in H.
  destruct (wl_run AA (bad_cables s SAll) fuel [it]) as [l| |] eqn:E; try discriminate H. cbn in H. injection H as <- <-.
  pose proof (det_exact AA (bad_cables s SAll) (cab_of s) wire_items cab_marks_all fuel it l E) as Hem.
  split; [|split]; [intro p|intro c|apply dedup_NoDup].
  - rewrite in_pars. apply Hem.
  - rewrite dedup_In, in_oths. apply Hem.
Qed.

(* ---- the pins appended by a wire search: no appends, marks = the wires looked at for the pin ---- *)
Lemma marked_search ow c : (exists os ys, In (AMark c os ys) (search_wire s SAll ow)) <-> In c (opt_wire ow).
Proof.
  destruct ow as [w|]; cbn.
  - split; [intros (os & ys & [E|[]]); injection E as -> _ _; left; reflexivity|intros [<-|[]]; eexists _, _; left; reflexivity].
  - split; [intros (? & ? & [])|intros []].
Qed.

Lemma search_nopush y ow : ~ In (APush y) (search_wire s SAll ow).
Proof. destruct ow; cbn; [intros [E|[]]; discriminate E|intros []]. Qed.

Lemma pin_item p w : In p (wpins s w) ->
  (forall y, ~ In (APush y) (AA (item_of_pin p))) /\
  (forall c, (exists os ys, In (AMark c os ys) (AA (item_of_pin p))) <-> In c (pin_cands s SAll p)).
Proof.
  intro Hp. apply (wpins_pin_wire s W) in Hp. destruct (on_wire_kind s W w p Hp) as (i & Ei & Hk).
  destruct p as [j|n j|]; cbn [inner_of] in Ei; [injection Ei as ->|injection Ei as ->|discriminate];
    cbn [item_of_pin acts_cables sel_in sel_out pin_cands].
  - rewrite Hk. cbn [pin_wire]. split.
    + intros y H. apply in_app_or in H as [H|H]; [apply (search_nopush _ _ H)|]. apply in_flat_map in H as (m & _ & H). apply (search_nopush _ _ H).
    + intro c. unfold outer_wires. rewrite in_app_iff, in_flat_map, <- marked_search. split.
      * intros (os & ys & H). apply in_app_or in H as [H|H]; [left; eauto|]. apply in_flat_map in H as (m & Hm & H).
        right. exists m. split; [exact Hm|]. apply marked_search. eauto.
      * intros [(os & ys & H)|(m & Hm & H)]; [exists os, ys; apply in_or_app; left; exact H|].
        apply marked_search in H as (os & ys & H). exists os, ys. apply in_or_app. right. apply in_flat_map. exists m. auto.
  - split.
    + intros y H. apply in_app_or in H as [H|H]; apply (search_nopush _ _ H).
    + intro c. rewrite in_app_iff, <- !marked_search. split.
      * intros (os & ys & H). apply in_app_or in H as [H|H]; [right|left]; eauto.
      * intros [(os & ys & H)|(os & ys & H)]; exists os, ys; apply in_or_app; [right|left]; exact H.
Qed.

Lemma preach_stuck (x y : item) : (forall z, ~ In (APush z) (AA x)) -> PReach AA x y -> x = y.
Proof.
  intros Hn H. apply clos_rt_rt1n in H. destruct H as [|z y Hs _]; [reflexivity|]. exfalso. apply (Hn z Hs).
Qed.

Lemma pin_seed p w c : In p (wpins s w) -> (seed AA (item_of_pin p) c <-> In c (pin_cands s SAll p)).
Proof.
  intro Hp. destruct (pin_item p w Hp) as [Hn Hm]. rewrite <- Hm. split.
  - intros (y & os & ys & Hr & Ha). apply (preach_stuck _ _ Hn) in Hr as <-. eauto.
  - intros (os & ys & Ha). exists (item_of_pin p), os, ys. split; [apply rt_refl|exact Ha].
Qed.

(* one step of the closure of the marks is one step of the closure of get_wires ALL *)
Lemma madj_wire_adj w w' : madj AA wire_items w w' <-> wire_adj s w w'.
Proof.
  unfold madj, wire_adj, wire_items. split.
  - intros (y & Hy & Hs). apply in_map_iff in Hy as (p & <- & Hp). exists p. split; [exact Hp|apply (pin_seed p w w' Hp); exact Hs].
  - intros (p & Hp & Hc). exists (item_of_pin p). split; [apply in_map; exact Hp|apply (pin_seed p w w' Hp); exact Hc].
Qed.

(* the searched wires: the closure of the wires searched at the pins the root leads to *)
Definition searched_wire (it : item) (w : id) : Prop :=
  exists w0, seed AA it w0 /\ clos_refl_trans id (wire_adj s) w0 w.

Theorem searched_closure it w : Marks AA it w <-> searched_wire it w.
Proof.
  rewrite (marks_closure AA (cab_of s) wire_items cab_marks_all it w). unfold searched_wire.
  split; intros (w0 & H0 & Hr); exists w0; (split; [exact H0|]).
  - apply (rt_mono (madj AA wire_items)); [intros a b; apply madj_wire_adj|exact Hr].
  - apply (rt_mono (wire_adj s)); [intros a b; apply madj_wire_adj|exact Hr].
Qed.

(* the set searched_wires at the end of the loop *)
Theorem searched_wires_final fuel it st' :
  wl AA (bad_cables s SAll) fuel [it] (mkW [] []) = WOk st' ->
  forall w, In w (w_marks st') <-> searched_wire it w.
Proof.
  intros E w. rewrite (det_marks AA (bad_cables s SAll) (cab_of s) wire_items cab_marks_all fuel it st' E w). apply searched_closure.
Qed.

(* the searched wires are closed under wire_adj *)
Corollary searched_closed it w w' : searched_wire it w -> wire_adj s w w' -> searched_wire it w'.
Proof. intros (w0 & H0 & Hr) Ha. exists w0. split; [exact H0|eapply rt_trans; [exact Hr|apply rt_step; exact Ha]]. Qed.

End CabAll.

Print Assumptions cands_cables_all_emits.
Print Assumptions madj_wire_adj.
Print Assumptions searched_closure.
Print Assumptions searched_wires_final.

(* ---- what the root leads to without crossing a mark; the cables returned ---- *)
Section CabSpec.
Variable s : state.
Hypothesis W : QWF s.
Variable rec : bool.
Notation AA := (acts_cables s rec SAll).
Notation usesS := (clos_refl_trans id (uses s)).

(* m is an instance inside d or inside a definition d instantiates, at any depth *)
Definition inst_under (d m : id) : Prop := exists d', usesS d d' /\ par s RChildren m = Some d'.
(* such an instance, or one of its outer pins *)
Definition sub (d0 : id) (y : item) : Prop :=
  exists m, inst_under d0 m /\ (y = IE m \/ exists i, In (IO m i) (opins s m) /\ y = IO m i).

Lemma ca_inst_push m y : kind_of s m = Some KInstance ->
  (In (APush y) (AA (IE m)) <->
   (exists r ch, iref s m = Some r /\ In ch (kids s RChildren r) /\ y = IE ch) \/ In y (opins s m)).
Proof.
  intro Hk. cbn [acts_cables sel_ia sel_out sel_all]. rewrite Hk, orb_true_r, in_app_iff. split.
  - intros [H|H].
    + destruct (iref s m) as [r|]; [|destruct H]. apply in_app_or in H as [H|H]; [apply in_oth_ids in H as (z & _ & E); discriminate E|].
      apply in_push_ids in H as (ch & Hch & E). injection E as ->. left. exists r, ch. auto.
    + apply in_map_iff in H as (q & E & Hq). injection E as <-. right. exact Hq.
  - intros [(r & ch & Er & Hch & ->)|H].
    + left. rewrite Er. apply in_or_app. right. apply in_push_ids. exists ch. auto.
    + right. apply in_map. exact H.
Qed.

Lemma ca_io_nopush n i y : ~ In (APush y) (AA (IO n i)).
Proof. cbn [acts_cables sel_in sel_out]. intro H. apply in_app_or in H as [H|H]; apply (search_nopush s _ _ H). Qed.

Lemma ca_pin_nopush i y : kind_of s i = Some KPin -> ~ In (APush y) (AA (IE i)).
Proof.
  intros Hk H. cbn [acts_cables sel_in sel_out] in H. rewrite Hk in H.
  apply in_app_or in H as [H|H]; [apply (search_nopush s _ _ H)|]. apply in_flat_map in H as (m & _ & H). apply (search_nopush s _ _ H).
Qed.

Lemma sub_step d0 y z : sub d0 y -> pstep AA y z -> sub d0 z.
Proof.
  intros (m & (d' & Hu & Hm) & [->|(i & Hi & ->)]) Hs; unfold pstep in Hs.
  - assert (Hk : kind_of s m = Some KInstance) by (apply (kids_par s W) in Hm; apply (kid_kind s W _ _ _ Hm)).
    apply (ca_inst_push m z Hk) in Hs as [(r & ch & Er & Hch & ->)|Hz].
    + exists ch. split; [|left; reflexivity]. exists r. split; [|apply (kids_par s W); exact Hch].
      eapply rt_trans; [exact Hu|apply rt_step]. exists m. split; assumption.
    + exists m. split; [exists d'; split; assumption|]. right. assert (Hz' := Hz). unfold opins in Hz. apply in_map_iff in Hz as (kv & <- & Hkv).
      exists (fst kv). split; [exact Hz'|reflexivity].
  - exfalso. apply (ca_io_nopush _ _ _ Hs).
Qed.

Lemma sub_closed d0 y z : sub d0 y -> PReach AA y z -> sub d0 z.
Proof. intros Hy Hr. apply clos_rt_rtn1 in Hr. induction Hr as [|a b Hs _ IH]; [exact Hy|apply (sub_step d0 a b IH Hs)]. Qed.

Lemma sub_reach x d0 : (forall m, par s RChildren m = Some d0 -> PReach AA x (IE m)) ->
  forall z, sub d0 z -> PReach AA x z.
Proof.
  intros Hb.
  assert (Hi : forall d', usesS d0 d' -> forall m, par s RChildren m = Some d' -> PReach AA x (IE m)).
  { intros d' Hu. apply clos_rt_rtn1 in Hu. induction Hu as [|d1 d2 (ch & Hch & Er) _ IH]; [exact Hb|].
    intros m Hm. eapply rt_trans; [apply (IH ch Hch)|apply rt_step]. unfold pstep.
    apply (ca_inst_push ch (IE m)); [apply (kids_par s W) in Hch; apply (kid_kind s W _ _ _ Hch)|].
    left. exists d2, m. split; [exact Er|]. split; [apply (kids_par s W); exact Hm|reflexivity]. }
  intros z (m & (d' & Hu & Hm) & [->|(i & Hi' & ->)]); [apply (Hi d' Hu m Hm)|].
  eapply rt_trans; [apply (Hi d' Hu m Hm)|apply rt_step]. unfold pstep.
  apply (ca_inst_push m (IO m i)); [apply (kids_par s W) in Hm; apply (kid_kind s W _ _ _ Hm)|right; exact Hi'].
Qed.

Lemma ca_def_push d y : kind_of s d = Some KDefinition ->
  (In (APush y) (AA (IE d)) <->
   (exists m, In m (kids s RChildren d) /\ y = IE m) \/
   (exists p i, In p (kids s RPorts d) /\ In i (kids s RPins p) /\ y = IE i)).
Proof.
  intro Hk. cbn [acts_cables sel_ia sel_out sel_all]. rewrite Hk, orb_true_r, in_app_iff. split.
  - intros [[E|H]|H]; [discriminate E| |].
    + apply in_push_ids in H as (m & Hm & E). injection E as ->. left. eauto.
    + apply in_flat_map in H as (p & Hp & H). apply in_push_ids in H as (i & Hi & E). injection E as ->. right. eauto.
  - intros [(m & Hm & ->)|(p & i & Hp & Hi & ->)].
    + left. right. apply in_push_ids. eauto.
    + right. apply in_flat_map. exists p. split; [exact Hp|apply in_push_ids; eauto].
Qed.

(* from a definition: itself, the pins of its ports, the instances below it and their outer pins *)
Lemma ca_def_reach d z : kind_of s d = Some KDefinition ->
  (PReach AA (IE d) z <->
   z = IE d \/ (exists p i, par s RPorts p = Some d /\ par s RPins i = Some p /\ z = IE i) \/ sub d z).
Proof.
  intro Hk. split.
  - intro H. apply clos_rt_rt1n in H. destruct H as [|y z Hs Hr]; [left; reflexivity|right]. apply clos_rt1n_rt in Hr.
    apply (ca_def_push d y Hk) in Hs as [(m & Hm & ->)|(p & i & Hp & Hi & ->)].
    + right. apply (sub_closed d (IE m)); [|exact Hr]. exists m.
      split; [exists d; split; [apply rt_refl|apply (kids_par s W); exact Hm]|left; reflexivity].
    + left. apply (preach_stuck s rec) in Hr; [|intro y; apply ca_pin_nopush; apply (kid_kind s W _ _ _ Hi)]. subst z.
      exists p, i. split; [apply (kids_par s W); exact Hp|]. split; [apply (kids_par s W); exact Hi|reflexivity].
  - intros [->|[(p & i & Hp & Hi & ->)|H]]; [apply rt_refl| |].
    + apply rt_step. apply (ca_def_push d _ Hk). right. exists p, i.
      split; [apply (kids_par s W); exact Hp|split; [apply (kids_par s W); exact Hi|reflexivity]].
    + apply (sub_reach (IE d) d); [|exact H]. intros m Hm. apply rt_step. apply (ca_def_push d _ Hk). left.
      exists m. split; [apply (kids_par s W); exact Hm|reflexivity].
Qed.

(* from an instance: itself, its outer pins, the instances below its reference and their outer pins *)
Lemma ca_inst_reach n z : kind_of s n = Some KInstance ->
  (PReach AA (IE n) z <->
   z = IE n \/ (exists i, In (IO n i) (opins s n) /\ z = IO n i) \/ (exists r, iref s n = Some r /\ sub r z)).
Proof.
  intro Hk. split.
  - intro H. apply clos_rt_rt1n in H. destruct H as [|y z Hs Hr]; [left; reflexivity|right]. apply clos_rt1n_rt in Hr.
    apply (ca_inst_push n y Hk) in Hs as [(r & ch & Er & Hch & ->)|Hy].
    + right. exists r. split; [exact Er|]. apply (sub_closed r (IE ch)); [|exact Hr]. exists ch.
      split; [exists r; split; [apply rt_refl|apply (kids_par s W); exact Hch]|left; reflexivity].
    + left. assert (Hy' := Hy). unfold opins in Hy. apply in_map_iff in Hy as (kv & <- & Hkv).
      apply (preach_stuck s rec) in Hr; [|intro y; apply ca_io_nopush]. subst z. exists (fst kv). split; [exact Hy'|reflexivity].
  - intros [->|[(i & Hi & ->)|(r & Er & H)]]; [apply rt_refl| |].
    + apply rt_step. apply (ca_inst_push n _ Hk). right. exact Hi.
    + apply (sub_reach (IE n) r); [|exact H]. intros m Hm. apply rt_step. apply (ca_inst_push n _ Hk). left.
      exists r, m. split; [exact Er|split; [apply (kids_par s W); exact Hm|reflexivity]].
Qed.

(* a cable is recorded directly only at an instance: the cables of its reference *)
Lemma ca_direct y c : In (AOut (OOth c)) (AA y) <->
  exists n r, y = IE n /\ kind_of s n = Some KInstance /\ iref s n = Some r /\ In c (kids s RCables r).
Proof.
  assert (Hpi : forall l, ~ In (AOut (OOth c)) (@push_ids qout l)) by (intros l H; apply in_push_ids in H as (z & _ & E); discriminate E).
  assert (Hs : forall ow, ~ In (AOut (OOth c)) (search_wire s SAll ow)) by (intros ow H; apply in_search_all in H as (w & _ & E); discriminate E).
  split.
  - destruct y as [e|n i| |h]; cbn [acts_cables sel_ia sel_out sel_in sel_all].
    + destruct (kind_of s e) as [[]|] eqn:Hk; intro H.
      * apply in_flat_map in H as (l & _ & H). destruct (Hpi _ H).
      * destruct (Hpi _ H).
      * apply in_app_or in H as [H|H].
        -- destruct H as [E|H]; [discriminate E|]. rewrite orb_true_r in H. destruct (Hpi _ H).
        -- apply in_flat_map in H as (p & _ & H). destruct (Hpi _ H).
      * destruct (Hpi _ H).
      * destruct (Hpi _ H).
      * apply in_map_iff in H as (q & E & _). discriminate E.
      * apply in_app_or in H as [H|H]; [destruct (Hs _ H)|]. apply in_flat_map in H as (m & _ & H). destruct (Hs _ H).
      * apply in_app_or in H as [H|H].
        -- destruct (iref s e) as [r|] eqn:Er; [|destruct H]. apply in_app_or in H as [H|H].
           ++ apply in_oth_ids in H as (z & Hz & E). injection E as E. rewrite <- E in Hz. exists e, r. repeat split; assumption.
           ++ rewrite orb_true_r in H. destruct (Hpi _ H).
        -- apply in_map_iff in H as (q & E & _). discriminate E.
      * destruct H.
    + intro H. apply in_app_or in H as [H|H]; destruct (Hs _ H).
    + intros [].
    + intro H. apply in_push_opt in H as (z & _ & E). discriminate E.
  - intros (n & r & -> & Hk & Er & Hc). cbn [acts_cables sel_ia sel_out sel_all]. rewrite Hk, Er.
    apply in_or_app. left. apply in_or_app. left. apply in_oth_ids. exists c. auto.
Qed.

(* an instance is never reached through a wire search *)
Lemma ca_direct_reach it n : kind_of s n = Some KInstance -> Reach AA it (IE n) -> PReach AA it (IE n).
Proof.
  intros Hk Hr.
  apply (reach_split AA (cab_of s) (wire_items s) (cab_marks_all s rec)) in Hr as [Hr|(c0 & c & y0 & _ & _ & Hy0 & Hp)]; [exact Hr|exfalso].
  unfold wire_items in Hy0. apply in_map_iff in Hy0 as (p & <- & Hp0).
  destruct (pin_item s W rec p c Hp0) as [Hn _]. apply (preach_stuck s rec _ _ Hn) in Hp.
  apply (wpins_pin_wire s W) in Hp0. destruct (on_wire_kind s W c p Hp0) as (i & Ei & Hki).
  destruct p as [j|m j|]; cbn in Hp, Ei; try discriminate Hp. injection Ei as ->. injection Hp as ->. congruence.
Qed.

(* the cables returned: the cables of the searched wires, and the cables of the references of the
   instances the root leads to *)
Theorem cands_cables_all_spec fuel it ps os :
  cands_cables s fuel [it] rec SAll = WOk (ps, os) ->
  NoDup os /\ forall c, In c os <->
    (exists w, searched_wire s rec it w /\ par s RWires w = Some c) \/
    (exists m r, kind_of s m = Some KInstance /\ PReach AA it (IE m) /\ iref s m = Some r /\ par s RCables c = Some r).
Proof.
  intro H. destruct (cands_cables_all_emits s rec fuel it ps os H) as (_ & Ho & Hnd). split; [exact Hnd|]. intro c.
  rewrite (Ho c), (emits_split AA (cab_of s) (wire_items s) (cab_marks_all s rec) it (OOth c)). split.
  - intros [(y & Hr & Ha)|(w & Hm & Hc)].
    + right. apply ca_direct in Ha as (n & r & -> & Hk & Er & Hc). exists n, r. split; [exact Hk|].
      split; [apply (ca_direct_reach it n Hk Hr)|]. split; [exact Er|apply (kids_par s W); exact Hc].
    + left. exists w. split; [apply (searched_closure s W rec); exact Hm|]. unfold cab_of in Hc.
      destruct (par s RWires w) as [c'|]; [|destruct Hc]. destruct Hc as [E|[]]. injection E as ->. reflexivity.
  - intros [(w & Hs & Hc)|(m & r & Hk & Hr & Er & Hc)].
    + right. exists w. split; [apply (searched_closure s W rec); exact Hs|]. unfold cab_of. rewrite Hc. left. reflexivity.
    + left. exists (IE m). split; [apply preach_reach; exact Hr|]. apply ca_direct. exists m, r.
      split; [reflexivity|]. split; [exact Hk|]. split; [exact Er|apply (kids_par s W); exact Hc].
Qed.
End CabSpec.

Print Assumptions cands_cables_all_spec.

(* ---- the pins the root leads to, by kind of root ---- *)
Definition lead_pin_def (s : state) (d : id) (p : pin) : Prop :=
  (exists po i, par s RPorts po = Some d /\ par s RPins i = Some po /\ p = PIn i) \/
  (exists m i, inst_under s d m /\ In (IO m i) (opins s m) /\ p = POut m i).
Definition lead_pin_inst (s : state) (n : id) (p : pin) : Prop :=
  (exists i, In (IO n i) (opins s n) /\ p = POut n i) \/
  (exists d m i, iref s n = Some d /\ inst_under s d m /\ In (IO m i) (opins s m) /\ p = POut m i).

Lemma item_pin_IE p i : item_of_pin p = IE i -> p = PIn i.
Proof. destruct p; cbn; intro E; [injection E as ->; reflexivity|discriminate E|discriminate E]. Qed.
Lemma item_pin_IO p n i : item_of_pin p = IO n i -> p = POut n i.
Proof. destruct p; cbn; intro E; [discriminate E|injection E as -> ->; reflexivity|discriminate E]. Qed.
Lemma item_pin_inj p q : item_of_pin p = item_of_pin q -> p = q.
Proof. destruct p, q; cbn; intro E; try discriminate E; try reflexivity; injection E; intros; subst; reflexivity. Qed.

Section CabSeeds.
Variable s : state.
Hypothesis W : QWF s.
Variable rec : bool.
Notation AA := (acts_cables s rec SAll).

(* an inner pin that is a pin; outer pins are values *)
Definition pin_okk (p : pin) : Prop := match p with PIn i => kind_of s i = Some KPin | _ => True end.

Lemma pin_item_gen p : pin_okk p ->
  (forall y, ~ In (APush y) (AA (item_of_pin p))) /\
  (forall c, (exists os ys, In (AMark c os ys) (AA (item_of_pin p))) <-> In c (pin_cands s SAll p)).
Proof.
  intro Hk. destruct p as [j|n j|]; cbn [pin_okk] in Hk.
  - cbn [item_of_pin acts_cables sel_in sel_out pin_cands]. rewrite Hk. cbn [pin_wire]. split.
    + intros y H. apply in_app_or in H as [H|H]; [apply (search_nopush s _ _ H)|]. apply in_flat_map in H as (m & _ & H). apply (search_nopush s _ _ H).
    + intro c. unfold outer_wires. rewrite in_app_iff, in_flat_map, <- (marked_search s). split.
      * intros (os & ys & H). apply in_app_or in H as [H|H]; [left; eauto|]. apply in_flat_map in H as (m & Hm & H).
        right. exists m. split; [exact Hm|]. apply (marked_search s). eauto.
      * intros [(os & ys & H)|(m & Hm & H)]; [exists os, ys; apply in_or_app; left; exact H|].
        apply (marked_search s) in H as (os & ys & H). exists os, ys. apply in_or_app. right. apply in_flat_map. exists m. auto.
  - cbn [item_of_pin acts_cables sel_in sel_out pin_cands]. split.
    + intros y H. apply in_app_or in H as [H|H]; apply (search_nopush s _ _ H).
    + intro c. rewrite in_app_iff, <- !(marked_search s). split.
      * intros (os & ys & H). apply in_app_or in H as [H|H]; [right|left]; eauto.
      * intros [(os & ys & H)|(os & ys & H)]; exists os, ys; apply in_or_app; [right|left]; exact H.
  - cbn. split; [intros y []|intro c; split; [intros (? & ? & [])|intros []]].
Qed.

(* marks are set at pins only *)
Lemma marks_at y c os ys : In (AMark c os ys) (AA y) -> exists p, y = item_of_pin p /\ pin_okk p.
Proof.
  assert (Hpi : forall l, ~ In (AMark c os ys) (@push_ids qout l)) by (intros l H; apply in_push_ids in H as (z & _ & E); discriminate E).
  assert (Hoi : forall l, ~ In (AMark c os ys) (oth_ids l)) by (intros l H; apply in_oth_ids in H as (z & _ & E); discriminate E).
  destruct y as [e|n i| |h]; cbn [acts_cables sel_ia sel_out sel_in sel_all].
  - destruct (kind_of s e) as [[]|] eqn:Hk; intro H.
    + apply in_flat_map in H as (l & _ & H). exfalso. apply (Hpi _ H).
    + exfalso. apply (Hpi _ H).
    + exfalso. apply in_app_or in H as [H|H].
      * destruct H as [E|H]; [discriminate E|]. rewrite orb_true_r in H. apply (Hpi _ H).
      * apply in_flat_map in H as (p & _ & H). apply (Hpi _ H).
    + exfalso. apply (Hpi _ H).
    + exfalso. apply (Hpi _ H).
    + exfalso. apply in_map_iff in H as (q & E & _). discriminate E.
    + exists (PIn e). split; [reflexivity|exact Hk].
    + exfalso. apply in_app_or in H as [H|H].
      * destruct (iref s e); [|destruct H]. apply in_app_or in H as [H|H]; [apply (Hoi _ H)|].
        rewrite orb_true_r in H. apply (Hpi _ H).
      * apply in_map_iff in H as (q & E & _). discriminate E.
    + destruct H.
  - intros _. exists (POut n i). split; [reflexivity|exact I].
  - intros [].
  - intro H. apply in_push_opt in H as (z & _ & E). discriminate E.
Qed.

(* the seeds: the wires looked at for the pins the root leads to *)
Lemma seed_iff it c : seed AA it c <->
  exists p, (pin_okk p /\ PReach AA it (item_of_pin p)) /\ In c (pin_cands s SAll p).
Proof.
  split.
  - intros (y & os & ys & Hr & Ha). destruct (marks_at y c os ys Ha) as (p & -> & Hok). exists p.
    split; [split; [exact Hok|exact Hr]|]. apply (proj2 (pin_item_gen p Hok) c). eauto.
  - intros (p & [Hok Hr] & Hc). apply (proj2 (pin_item_gen p Hok) c) in Hc as (os & ys & Ha).
    exists (item_of_pin p), os, ys. auto.
Qed.

Lemma preach_unfold x z : PReach AA x z <-> x = z \/ exists y, In (APush y) (AA x) /\ PReach AA y z.
Proof.
  split.
  - intro H. apply clos_rt_rt1n in H. destruct H as [|y z Hs Hr]; [left; reflexivity|right]. exists y. split; [exact Hs|apply clos_rt1n_rt; exact Hr].
  - intros [<-|(y & Hs & Hr)]; [apply rt_refl|]. eapply rt_trans; [apply rt_step; exact Hs|exact Hr].
Qed.

Lemma lead_def d p : kind_of s d = Some KDefinition ->
  (pin_okk p /\ PReach AA (IE d) (item_of_pin p) <-> lead_pin_def s d p).
Proof.
  intro Hk. rewrite (ca_def_reach s W rec d _ Hk). unfold lead_pin_def. split.
  - intros [Hok [E|[(po & i & Hpo & Hi & E)|(m & Hu & [E|(i & Hi & E)])]]].
    + apply item_pin_IE in E. subst p. cbn in Hok. congruence.
    + apply item_pin_IE in E. left. exists po, i. auto.
    + apply item_pin_IE in E. subst p. cbn in Hok. destruct Hu as (d' & _ & Hm). apply (kids_par s W) in Hm.
      pose proof (kid_kind s W _ _ _ Hm) as Hkm. cbn in Hkm. congruence.
    + apply item_pin_IO in E. right. exists m, i. auto.
  - intros [(po & i & Hpo & Hi & ->)|(m & i & Hu & Hi & ->)].
    + split; [cbn; apply (kids_par s W) in Hi; apply (kid_kind s W _ _ _ Hi)|]. right. left. exists po, i. auto.
    + split; [exact I|]. right. right. exists m. split; [exact Hu|]. right. exists i. auto.
Qed.

Lemma lead_inst n p : kind_of s n = Some KInstance ->
  (pin_okk p /\ PReach AA (IE n) (item_of_pin p) <-> lead_pin_inst s n p).
Proof.
  intro Hk. rewrite (ca_inst_reach s W rec n _ Hk). unfold lead_pin_inst. split.
  - intros [Hok [E|[(i & Hi & E)|(r & Er & m & Hu & [E|(i & Hi & E)])]]].
    + apply item_pin_IE in E. subst p. cbn in Hok. congruence.
    + apply item_pin_IO in E. left. exists i. auto.
    + apply item_pin_IE in E. subst p. cbn in Hok. destruct Hu as (d' & _ & Hm). apply (kids_par s W) in Hm.
      pose proof (kid_kind s W _ _ _ Hm) as Hkm. cbn in Hkm. congruence.
    + apply item_pin_IO in E. right. exists r, m, i. auto.
  - intros [(i & Hi & ->)|(d & m & i & Er & Hu & Hi & ->)].
    + split; [exact I|]. right. left. exists i. auto.
    + split; [exact I|]. right. right. exists d. split; [exact Er|]. exists m. split; [exact Hu|]. right. exists i. auto.
Qed.

Lemma lead_port r p : kind_of s r = Some KPort ->
  (pin_okk p /\ PReach AA (IE r) (item_of_pin p) <-> exists i, par s RPins i = Some r /\ p = PIn i).
Proof.
  intro Hk. rewrite preach_unfold. cbn [acts_cables]. rewrite Hk. split.
  - intros [Hok [E|(y & Hy & Hr)]].
    + symmetry in E. apply item_pin_IE in E. subst p. cbn in Hok. congruence.
    + apply in_push_ids in Hy as (i & Hi & E). injection E as ->.
      apply (preach_stuck s rec) in Hr; [|intro y; apply ca_pin_nopush; apply (kid_kind s W _ _ _ Hi)].
      symmetry in Hr. apply item_pin_IE in Hr. exists i. split; [apply (kids_par s W); exact Hi|exact Hr].
  - intros (i & Hi & ->). apply (kids_par s W) in Hi. split; [apply (kid_kind s W _ _ _ Hi)|]. right.
    exists (IE i). split; [apply in_push_ids; eauto|apply rt_refl].
Qed.

Lemma lead_pin_root r p : kind_of s r = Some KPin ->
  (pin_okk p /\ PReach AA (IE r) (item_of_pin p) <-> p = PIn r).
Proof.
  intro Hk. split.
  - intros [_ Hr]. apply (preach_stuck s rec) in Hr; [|intro y; apply ca_pin_nopush; exact Hk]. symmetry in Hr. apply item_pin_IE in Hr. exact Hr.
  - intros ->. split; [exact Hk|apply rt_refl].
Qed.

Lemma lead_io n i p : pin_okk p /\ PReach AA (IO n i) (item_of_pin p) <-> p = POut n i.
Proof.
  split.
  - intros [_ Hr]. apply (preach_stuck s rec) in Hr; [|intro y; apply ca_io_nopush]. symmetry in Hr. apply item_pin_IO in Hr. exact Hr.
  - intros ->. split; [exact I|apply rt_refl].
Qed.

Lemma lead_wire r p : kind_of s r = Some KWire ->
  (pin_okk p /\ PReach AA (IE r) (item_of_pin p) <-> In p (wpins s r)).
Proof.
  intro Hk. rewrite preach_unfold. cbn [acts_cables]. rewrite Hk. split.
  - intros [Hok [E|(y & Hy & Hr)]].
    + symmetry in E. apply item_pin_IE in E. subst p. cbn in Hok. congruence.
    + unfold push_pins in Hy. apply in_map_iff in Hy as (q & E & Hq). injection E as <-.
      destruct (pin_item s W rec q r Hq) as [Hn _]. apply (preach_stuck s rec _ _ Hn) in Hr. apply item_pin_inj in Hr. subst q. exact Hq.
  - intro Hp. assert (Hok : pin_okk p).
    { assert (Hp' := Hp). apply (wpins_pin_wire s W) in Hp'. destruct (on_wire_kind s W r p Hp') as (i & Ei & Hki).
      destruct p; cbn in *; [injection Ei as ->; exact Hki|exact I|exact I]. }
    split; [exact Hok|]. right. exists (item_of_pin p).
    split; [unfold push_pins; apply (in_map (fun q => APush (item_of_pin q))); exact Hp|apply rt_refl].
Qed.

Lemma lead_cable r p : kind_of s r = Some KCable ->
  (pin_okk p /\ PReach AA (IE r) (item_of_pin p) <-> exists w, par s RWires w = Some r /\ In p (wpins s w)).
Proof.
  intro Hk. split.
  - intros [Hok Hr]. apply preach_unfold in Hr. cbn [acts_cables] in Hr. rewrite Hk in Hr. destruct Hr as [E|(y & Hy & Hr)].
    + symmetry in E. apply item_pin_IE in E. subst p. cbn in Hok. congruence.
    + apply in_push_ids in Hy as (w & Hw & E). injection E as ->. exists w. split; [apply (kids_par s W); exact Hw|].
      apply (lead_wire w p (kid_kind s W _ _ _ Hw)). split; assumption.
  - intros (w & Hw & Hp). apply (kids_par s W) in Hw. apply (lead_wire w p (kid_kind s W _ _ _ Hw)) in Hp as [Hok Hr].
    split; [exact Hok|]. apply preach_unfold. right. exists (IE w).
    split; [cbn [acts_cables]; rewrite Hk; apply in_push_ids; eauto|exact Hr].
Qed.

Lemma lead_through r p : kind_of s r <> Some KPin ->
  (pin_okk p /\ PReach AA (IE r) (item_of_pin p) <->
   exists y, In (APush y) (AA (IE r)) /\ pin_okk p /\ PReach AA y (item_of_pin p)).
Proof.
  intro Hk. rewrite preach_unfold. split.
  - intros [Hok [E|(y & Hy & Hr)]]; [|exists y; auto]. symmetry in E. apply item_pin_IE in E. subst p. cbn in Hok. contradiction.
  - intros (y & Hy & Hok & Hr). split; [exact Hok|right; exists y; auto].
Qed.
End CabSeeds.

Definition lead_pin_elem (s : state) (r : id) (p : pin) : Prop :=
  match kind_of s r with
  | Some KDefinition | Some KLibrary | Some KNetlist => exists d, scope_defs s r d /\ lead_pin_def s d p
  | Some KInstance => lead_pin_inst s r p
  | Some KPort => exists i, par s RPins i = Some r /\ p = PIn i
  | Some KPin => p = PIn r
  | Some KWire => In p (wpins s r)
  | Some KCable => exists w, par s RWires w = Some r /\ In p (wpins s w)
  | None => False
  end.

(* the pins whose wires are searched first *)
Definition lead_pin (s : state) (it : item) (p : pin) : Prop :=
  match it with
  | IE r => lead_pin_elem s r p
  | IO n i => p = POut n i
  | IDet => p = PDet
  | IH h => exists r, href_to s h r /\ lead_pin_elem s r p
  end.

(* the wires searched from a root under ALL: the wires looked at for a pin the root leads to, closed
   under "the wire on the inner or an outer side of a pin of a searched wire" *)
Definition reach_wire_all (s : state) (it : item) (w : id) : Prop :=
  exists p w0, lead_pin s it p /\ In w0 (pin_cands s SAll p) /\ clos_refl_trans id (wire_adj s) w0 w.

(* in the words of QueryEnumWiresAll.v: the closure of the pins the root leads to *)
Lemma reach_wire_all_closure s it w : reach_wire_all s it w <-> exists p, lead_pin s it p /\ closure_of s [p] w.
Proof.
  unfold reach_wire_all, closure_of. split.
  - intros (p & w0 & Hl & Hc & Hr). exists p. split; [exact Hl|]. exists p, w0. split; [left; reflexivity|auto].
  - intros (p & Hl & q & w0 & [<-|[]] & Hc & Hr). exists p, w0. auto.
Qed.

(* from a wire: the wires reached in one or more steps (the wire itself as soon as it has a pin) *)
Corollary reach_wire_all_wire s r w : kind_of s r = Some KWire ->
  (reach_wire_all s (IE r) w <-> clos_trans id (wire_adj s) r w).
Proof.
  intro Hk. rewrite (t_split_l (wire_adj s) r w). unfold reach_wire_all. cbn [lead_pin]. unfold lead_pin_elem. rewrite Hk. split.
  - intros (p & w0 & Hp & Hc & Hr). exists w0. split; [exists p; auto|exact Hr].
  - intros (w0 & (p & Hp & Hc) & Hr). exists p, w0. auto.
Qed.

Section CabDecl.
Variable s : state.
Hypothesis W : QWF s.
Variable rec : bool.
Notation AA := (acts_cables s rec SAll).

Lemma lead_elem r p : pin_okk s p /\ PReach AA (IE r) (item_of_pin p) <-> lead_pin_elem s r p.
Proof.
  unfold lead_pin_elem, scope_defs. destruct (kind_of s r) as [[]|] eqn:Hk.
  - split.
    + intro H. apply (lead_through s rec r p) in H as (y & Hy & Hok & Hr); [|rewrite Hk; discriminate].
      cbn [acts_cables] in Hy. rewrite Hk in Hy. apply in_flat_map in Hy as (l & Hl & Hy). apply in_push_ids in Hy as (d & Hd & E). injection E as ->.
      exists d. split; [exists l; split; apply (kids_par s W); assumption|]. apply (lead_def s W rec d p (kid_kind s W _ _ _ Hd)). auto.
    + intros (d & (l & Hd & Hl) & H). apply (kids_par s W) in Hd, Hl. apply (lead_def s W rec d p (kid_kind s W _ _ _ Hd)) in H as [Hok Hr].
      apply (lead_through s rec r p); [rewrite Hk; discriminate|]. exists (IE d).
      split; [cbn [acts_cables]; rewrite Hk; apply in_flat_map; exists l; split; [exact Hl|apply in_push_ids; eauto]|auto].
  - split.
    + intro H. apply (lead_through s rec r p) in H as (y & Hy & Hok & Hr); [|rewrite Hk; discriminate].
      cbn [acts_cables] in Hy. rewrite Hk in Hy. apply in_push_ids in Hy as (d & Hd & E). injection E as ->.
      exists d. split; [apply (kids_par s W); assumption|]. apply (lead_def s W rec d p (kid_kind s W _ _ _ Hd)). auto.
    + intros (d & Hd & H). apply (kids_par s W) in Hd. apply (lead_def s W rec d p (kid_kind s W _ _ _ Hd)) in H as [Hok Hr].
      apply (lead_through s rec r p); [rewrite Hk; discriminate|]. exists (IE d).
      split; [cbn [acts_cables]; rewrite Hk; apply in_push_ids; eauto|auto].
  - rewrite (lead_def s W rec r p Hk). split; [intro H; exists r; auto|intros (d & -> & H); exact H].
  - apply (lead_port s W rec r p Hk).
  - apply (lead_cable s W rec r p Hk).
  - apply (lead_wire s W rec r p Hk).
  - apply (lead_pin_root s rec r p Hk).
  - apply (lead_inst s W rec r p Hk).
  - split; [|intros []]. intros [Hok Hr]. apply (preach_unfold s rec) in Hr. cbn [acts_cables] in Hr. rewrite Hk in Hr.
    destruct Hr as [E|(y & [] & _)]. symmetry in E. apply item_pin_IE in E. subst p. cbn in Hok. congruence.
Qed.

Lemma lead_item it p : pin_okk s p /\ PReach AA it (item_of_pin p) <-> lead_pin s it p.
Proof.
  destruct it as [r|n i| |h]; cbn [lead_pin].
  - apply lead_elem.
  - apply (lead_io s rec).
  - split.
    + intros [_ Hr]. apply (preach_stuck s rec) in Hr; [|intros y []]. apply (item_pin_inj PDet p) in Hr. symmetry. exact Hr.
    + intros ->. split; [exact I|apply rt_refl].
  - split.
    + intros [Hok Hr]. apply (preach_unfold s rec) in Hr as [E|(y & Hy & Hr)]; [destruct p; discriminate E|].
      cbn [acts_cables] in Hy. apply in_push_opt in Hy as (r & Er & E). injection E as ->. exists r.
      split; [apply (href_item_iff s W); exact Er|apply lead_elem; auto].
    + intros (r & Hh & H). apply lead_elem in H as [Hok Hr]. split; [exact Hok|]. apply (preach_unfold s rec). right. exists (IE r).
      split; [cbn [acts_cables]; apply in_push_opt; exists r; split; [apply (href_item_iff s W); exact Hh|reflexivity]|exact Hr].
Qed.

(* the searched wires, declaratively *)
Theorem searched_wire_decl it w : searched_wire s rec it w <-> reach_wire_all s it w.
Proof.
  unfold searched_wire, reach_wire_all. split.
  - intros (w0 & H0 & Hr). apply (seed_iff s rec) in H0 as (p & Hl & Hc). exists p, w0. split; [apply lead_item; exact Hl|auto].
  - intros (p & w0 & Hl & Hc & Hr). exists w0. split; [|exact Hr]. apply (seed_iff s rec). exists p. split; [apply lead_item; exact Hl|exact Hc].
Qed.

(* searched_wires at the end of the loop from one root *)
Theorem searched_wires_all_final fuel it st' :
  wl AA (bad_cables s SAll) fuel [it] (mkW [] []) = WOk st' ->
  forall w, In w (w_marks st') <-> reach_wire_all s it w.
Proof. intros E w. rewrite (searched_wires_final s W rec fuel it st' E w). apply searched_wire_decl. Qed.

(* the cables returned *)
Definition cable_all (it : item) (c : id) : Prop :=
  (exists w, reach_wire_all s it w /\ par s RWires w = Some c) \/
  (exists m r, kind_of s m = Some KInstance /\ PReach AA it (IE m) /\ iref s m = Some r /\ par s RCables c = Some r).

Theorem cands_cables_all_decl fuel it ps os :
  cands_cables s fuel [it] rec SAll = WOk (ps, os) ->
  NoDup os /\ forall c, In c os <-> cable_all it c.
Proof.
  intro H. destruct (cands_cables_all_spec s W rec fuel it ps os H) as [Hnd Hc]. split; [exact Hnd|]. intro c. rewrite (Hc c). unfold cable_all.
  split; (intros [(w & Hw & Hp)|H']; [left; exists w; split; [apply searched_wire_decl; exact Hw|exact Hp]|right; exact H']).
Qed.

Corollary cands_cables_all_sound fuel it ps os :
  cands_cables s fuel [it] rec SAll = WOk (ps, os) -> forall c, In c os -> cable_all it c.
Proof. intros H c. apply (proj2 (cands_cables_all_decl fuel it ps os H) c). Qed.

Corollary cands_cables_all_complete fuel it ps os :
  cands_cables s fuel [it] rec SAll = WOk (ps, os) -> forall c, cable_all it c -> In c os.
Proof. intros H c. apply (proj2 (cands_cables_all_decl fuel it ps os H) c). Qed.

Corollary cands_cables_all_NoDup fuel it ps os :
  cands_cables s fuel [it] rec SAll = WOk (ps, os) -> NoDup os.
Proof. intro H. apply (proj1 (cands_cables_all_decl fuel it ps os H)). Qed.
End CabDecl.

Print Assumptions searched_wire_decl.
Print Assumptions searched_wires_all_final.
Print Assumptions cands_cables_all_decl.
Print Assumptions cands_cables_all_sound.
Print Assumptions cands_cables_all_complete.
Print Assumptions cands_cables_all_NoDup.

(* ---- the instances the root leads to (their references' cables are recorded directly) ---- *)
Definition lead_inst_elem (s : state) (r m : id) : Prop :=
  match kind_of s r with
  | Some KDefinition | Some KLibrary | Some KNetlist => exists d, scope_defs s r d /\ inst_under s d m
  | Some KInstance => m = r \/ exists d, iref s r = Some d /\ inst_under s d m
  | _ => False
  end.
Definition lead_insts (s : state) (it : item) (m : id) : Prop :=
  match it with
  | IE r => lead_inst_elem s r m
  | IH h => exists r, href_to s h r /\ lead_inst_elem s r m
  | _ => False
  end.

(* get_cables ALL from one root, declaratively: the cables of the searched wires, and the cables of the
   definitions instantiated by the instances the root leads to *)
Definition cables_all (s : state) (it : item) (c : id) : Prop :=
  (exists w, reach_wire_all s it w /\ par s RWires w = Some c) \/
  (exists m r, lead_insts s it m /\ iref s m = Some r /\ par s RCables c = Some r).

Section CabInsts.
Variable s : state.
Hypothesis W : QWF s.
Variable rec : bool.
Notation AA := (acts_cables s rec SAll).

Lemma inst_under_kind d m : inst_under s d m -> kind_of s m = Some KInstance.
Proof. intros (d' & _ & Hm). apply (kids_par s W) in Hm. apply (kid_kind s W _ _ _ Hm). Qed.

Lemma linst_def d m : kind_of s d = Some KDefinition ->
  (kind_of s m = Some KInstance /\ PReach AA (IE d) (IE m) <-> inst_under s d m).
Proof.
  intro Hk. rewrite (ca_def_reach s W rec d _ Hk). split.
  - intros [Hm [E|[(po & i & Hpo & Hi & E)|(m0 & Hu & [E|(i & _ & E)])]]].
    + injection E as ->. congruence.
    + injection E as ->. apply (kids_par s W) in Hi. pose proof (kid_kind s W _ _ _ Hi) as Hki. cbn in Hki. congruence.
    + injection E as ->. exact Hu.
    + discriminate E.
  - intro Hu. split; [apply (inst_under_kind d m Hu)|]. right. right. exists m. split; [exact Hu|left; reflexivity].
Qed.

Lemma linst_inst n m : kind_of s n = Some KInstance ->
  (kind_of s m = Some KInstance /\ PReach AA (IE n) (IE m) <-> m = n \/ exists d, iref s n = Some d /\ inst_under s d m).
Proof.
  intro Hk. rewrite (ca_inst_reach s W rec n _ Hk). split.
  - intros [Hm [E|[(i & _ & E)|(r & Er & m0 & Hu & [E|(i & _ & E)])]]].
    + injection E as ->. left. reflexivity.
    + discriminate E.
    + injection E as ->. right. exists r. auto.
    + discriminate E.
  - intros [->|(d & Er & Hu)].
    + split; [exact Hk|left; reflexivity].
    + split; [apply (inst_under_kind d m Hu)|]. right. right. exists d. split; [exact Er|]. exists m. split; [exact Hu|left; reflexivity].
Qed.

Lemma ni_pin r m : kind_of s m = Some KInstance -> kind_of s r = Some KPin -> ~ PReach AA (IE r) (IE m).
Proof.
  intros Hm Hk Hr. apply (preach_stuck s rec) in Hr; [|intro y; apply ca_pin_nopush; exact Hk]. injection Hr as ->. congruence.
Qed.

Lemma ni_wire r m : kind_of s m = Some KInstance -> kind_of s r = Some KWire -> ~ PReach AA (IE r) (IE m).
Proof.
  intros Hm Hk Hr. apply (preach_unfold s rec) in Hr as [E|(y & Hy & Hr)]; [injection E as ->; congruence|].
  cbn [acts_cables] in Hy. rewrite Hk in Hy. unfold push_pins in Hy. apply in_map_iff in Hy as (q & E & Hq). injection E as <-.
  destruct (pin_item s W rec q r Hq) as [Hn _]. apply (preach_stuck s rec _ _ Hn) in Hr. apply item_pin_IE in Hr. subst q.
  apply (wpins_pin_wire s W) in Hq. destruct (on_wire_kind s W r _ Hq) as (i & Ei & Hki). cbn in Ei. injection Ei as ->. congruence.
Qed.

Lemma ni_port r m : kind_of s m = Some KInstance -> kind_of s r = Some KPort -> ~ PReach AA (IE r) (IE m).
Proof.
  intros Hm Hk Hr. apply (preach_unfold s rec) in Hr as [E|(y & Hy & Hr)]; [injection E as ->; congruence|].
  cbn [acts_cables] in Hy. rewrite Hk in Hy. apply in_push_ids in Hy as (i & Hi & E). injection E as ->.
  apply (ni_pin i m Hm (kid_kind s W _ _ _ Hi) Hr).
Qed.

Lemma ni_cable r m : kind_of s m = Some KInstance -> kind_of s r = Some KCable -> ~ PReach AA (IE r) (IE m).
Proof.
  intros Hm Hk Hr. apply (preach_unfold s rec) in Hr as [E|(y & Hy & Hr)]; [injection E as ->; congruence|].
  cbn [acts_cables] in Hy. rewrite Hk in Hy. apply in_push_ids in Hy as (w & Hw & E). injection E as ->.
  apply (ni_wire w m Hm (kid_kind s W _ _ _ Hw) Hr).
Qed.

Lemma linst_elem r m : kind_of s m = Some KInstance /\ PReach AA (IE r) (IE m) <-> lead_inst_elem s r m.
Proof.
  unfold lead_inst_elem, scope_defs. destruct (kind_of s r) as [[]|] eqn:Hk.
  - split.
    + intros [Hm Hr]. apply (preach_unfold s rec) in Hr as [E|(y & Hy & Hr)]; [injection E as ->; congruence|].
      cbn [acts_cables] in Hy. rewrite Hk in Hy. apply in_flat_map in Hy as (l & Hl & Hy). apply in_push_ids in Hy as (d & Hd & E). injection E as ->.
      exists d. split; [exists l; split; apply (kids_par s W); assumption|]. apply (linst_def d m (kid_kind s W _ _ _ Hd)). auto.
    + intros (d & (l & Hd & Hl) & H). apply (kids_par s W) in Hd, Hl. apply (linst_def d m (kid_kind s W _ _ _ Hd)) in H as [Hm Hr].
      split; [exact Hm|]. apply (preach_unfold s rec). right. exists (IE d).
      split; [cbn [acts_cables]; rewrite Hk; apply in_flat_map; exists l; split; [exact Hl|apply in_push_ids; eauto]|exact Hr].
  - split.
    + intros [Hm Hr]. apply (preach_unfold s rec) in Hr as [E|(y & Hy & Hr)]; [injection E as ->; congruence|].
      cbn [acts_cables] in Hy. rewrite Hk in Hy. apply in_push_ids in Hy as (d & Hd & E). injection E as ->.
      exists d. split; [apply (kids_par s W); assumption|]. apply (linst_def d m (kid_kind s W _ _ _ Hd)). auto.
    + intros (d & Hd & H). apply (kids_par s W) in Hd. apply (linst_def d m (kid_kind s W _ _ _ Hd)) in H as [Hm Hr].
      split; [exact Hm|]. apply (preach_unfold s rec). right. exists (IE d).
      split; [cbn [acts_cables]; rewrite Hk; apply in_push_ids; eauto|exact Hr].
  - rewrite (linst_def r m Hk). split; [intro H; exists r; auto|intros (d & -> & H); exact H].
  - split; [intros [Hm Hr]; apply (ni_port r m Hm Hk Hr)|intros []].
  - split; [intros [Hm Hr]; apply (ni_cable r m Hm Hk Hr)|intros []].
  - split; [intros [Hm Hr]; apply (ni_wire r m Hm Hk Hr)|intros []].
  - split; [intros [Hm Hr]; apply (ni_pin r m Hm Hk Hr)|intros []].
  - apply (linst_inst r m Hk).
  - split; [|intros []]. intros [Hm Hr]. apply (preach_unfold s rec) in Hr as [E|(y & Hy & _)]; [injection E as ->; congruence|].
    cbn [acts_cables] in Hy. rewrite Hk in Hy. destruct Hy.
Qed.

Lemma linst_item it m : kind_of s m = Some KInstance /\ PReach AA it (IE m) <-> lead_insts s it m.
Proof.
  destruct it as [r|n i| |h]; cbn [lead_insts].
  - apply linst_elem.
  - split; [|intros []]. intros [_ Hr]. apply (preach_stuck s rec) in Hr; [discriminate Hr|intro y; apply ca_io_nopush].
  - split; [|intros []]. intros [_ Hr]. apply (preach_stuck s rec) in Hr; [discriminate Hr|intros y []].
  - split.
    + intros [Hm Hr]. apply (preach_unfold s rec) in Hr as [E|(y & Hy & Hr)]; [discriminate E|].
      cbn [acts_cables] in Hy. apply in_push_opt in Hy as (r & Er & E). injection E as ->. exists r.
      split; [apply (href_item_iff s W); exact Er|apply linst_elem; auto].
    + intros (r & Hh & H). apply linst_elem in H as [Hm Hr]. split; [exact Hm|]. apply (preach_unfold s rec). right. exists (IE r).
      split; [cbn [acts_cables]; apply in_push_opt; exists r; split; [apply (href_item_iff s W); exact Hh|reflexivity]|exact Hr].
Qed.

Lemma cable_all_iff it c : cable_all s rec it c <-> cables_all s it c.
Proof.
  unfold cable_all, cables_all. split; (intros [H|(m & r & H)]; [left; exact H|right; exists m, r]).
  - destruct H as (Hk & Hr & Er & Hc). split; [apply linst_item; auto|auto].
  - destruct H as (Hl & Er & Hc). apply linst_item in Hl as [Hk Hr]. auto.
Qed.

(* main theorem: the other_cables of get_cables(selection ALL) from one root *)
Theorem cands_cables_all_exact fuel it ps os :
  cands_cables s fuel [it] rec SAll = WOk (ps, os) ->
  NoDup os /\ forall c, In c os <-> cables_all s it c.
Proof.
  intro H. destruct (cands_cables_all_decl s W rec fuel it ps os H) as [Hnd Hc]. split; [exact Hnd|].
  intro c. rewrite (Hc c). apply cable_all_iff.
Qed.

End CabInsts.

(* neither the recursive flag nor the fuel changes the set of cables *)
Corollary cands_cables_all_rec s (W : QWF s) f1 f2 rec1 rec2 it ps1 os1 ps2 os2 :
  cands_cables s f1 [it] rec1 SAll = WOk (ps1, os1) -> cands_cables s f2 [it] rec2 SAll = WOk (ps2, os2) ->
  forall c, In c os1 <-> In c os2.
Proof.
  intros H1 H2 c. rewrite (proj2 (cands_cables_all_exact s W rec1 f1 it ps1 os1 H1) c), (proj2 (cands_cables_all_exact s W rec2 f2 it ps2 os2 H2) c). tauto.
Qed.

Print Assumptions cands_cables_all_exact.
Print Assumptions cands_cables_all_rec.

(* ---- the first-stage parents: the definitions in the scope of the root ---- *)
Definition lead_defs (s : state) (it : item) (d : id) : Prop :=
  match it with IE r => scope_defs s r d | _ => False end.

Section CabPars.
Variable s : state.
Hypothesis W : QWF s.
Variable rec : bool.
Notation AA := (acts_cables s rec SAll).

Lemma ca_par y p : In (AOut (OPar p)) (AA y) <-> y = IE p /\ kind_of s p = Some KDefinition.
Proof.
  assert (Hpi : forall l, ~ In (AOut (OPar p)) (@push_ids qout l)) by (intros l H; apply in_push_ids in H as (z & _ & E); discriminate E).
  assert (Hoi : forall l, ~ In (AOut (OPar p)) (oth_ids l)) by (intros l H; apply in_oth_ids in H as (z & _ & E); discriminate E).
  assert (Hs : forall ow, ~ In (AOut (OPar p)) (search_wire s SAll ow)) by (intros ow H; apply in_search_all in H as (w & _ & E); discriminate E).
  split.
  - destruct y as [e|n i| |h]; cbn [acts_cables sel_ia sel_out sel_in sel_all].
    + destruct (kind_of s e) as [[]|] eqn:Hk; intro H.
      * apply in_flat_map in H as (l & _ & H). destruct (Hpi _ H).
      * destruct (Hpi _ H).
      * apply in_app_or in H as [H|H].
        -- destruct H as [E|H]; [injection E as E; subst e; auto|]. rewrite orb_true_r in H. destruct (Hpi _ H).
        -- apply in_flat_map in H as (q & _ & H). destruct (Hpi _ H).
      * destruct (Hpi _ H).
      * destruct (Hpi _ H).
      * apply in_map_iff in H as (q & E & _). discriminate E.
      * apply in_app_or in H as [H|H]; [destruct (Hs _ H)|]. apply in_flat_map in H as (m & _ & H). destruct (Hs _ H).
      * apply in_app_or in H as [H|H].
        -- destruct (iref s e) as [r|] eqn:Er; [|destruct H]. apply in_app_or in H as [H|H]; [destruct (Hoi _ H)|].
           rewrite orb_true_r in H. destruct (Hpi _ H).
        -- apply in_map_iff in H as (q & E & _). discriminate E.
      * destruct H.
    + intro H. apply in_app_or in H as [H|H]; destruct (Hs _ H).
    + intros [].
    + intro H. apply in_push_opt in H as (z & _ & E). discriminate E.
  - intros [-> Hk]. cbn [acts_cables sel_ia sel_out sel_all]. rewrite Hk. apply in_or_app. left. left. reflexivity.
Qed.

Lemma ca_par_reach it d : kind_of s d = Some KDefinition -> Reach AA it (IE d) -> PReach AA it (IE d).
Proof.
  intros Hk Hr.
  apply (reach_split AA (cab_of s) (wire_items s) (cab_marks_all s rec)) in Hr as [Hr|(c0 & c & y0 & _ & _ & Hy0 & Hp)]; [exact Hr|exfalso].
  unfold wire_items in Hy0. apply in_map_iff in Hy0 as (p & <- & Hp0).
  destruct (pin_item s W rec p c Hp0) as [Hn _]. apply (preach_stuck s rec _ _ Hn) in Hp.
  apply (wpins_pin_wire s W) in Hp0. destruct (on_wire_kind s W c p Hp0) as (i & Ei & Hki).
  destruct p as [j|m j|]; cbn in Hp, Ei; try discriminate Hp. injection Ei as ->. injection Hp as ->. congruence.
Qed.

Lemma nk_pin r m : kind_of s m = Some KDefinition -> kind_of s r = Some KPin -> ~ PReach AA (IE r) (IE m).
Proof.
  intros Hm Hk Hr. apply (preach_stuck s rec) in Hr; [|intro y; apply ca_pin_nopush; exact Hk]. injection Hr as ->. congruence.
Qed.

Lemma nk_wire r m : kind_of s m = Some KDefinition -> kind_of s r = Some KWire -> ~ PReach AA (IE r) (IE m).
Proof.
  intros Hm Hk Hr. apply (preach_unfold s rec) in Hr as [E|(y & Hy & Hr)]; [injection E as ->; congruence|].
  cbn [acts_cables] in Hy. rewrite Hk in Hy. unfold push_pins in Hy. apply in_map_iff in Hy as (q & E & Hq). injection E as <-.
  destruct (pin_item s W rec q r Hq) as [Hn _]. apply (preach_stuck s rec _ _ Hn) in Hr. apply item_pin_IE in Hr. subst q.
  apply (wpins_pin_wire s W) in Hq. destruct (on_wire_kind s W r _ Hq) as (i & Ei & Hki). cbn in Ei. injection Ei as ->. congruence.
Qed.

Lemma nk_port r m : kind_of s m = Some KDefinition -> kind_of s r = Some KPort -> ~ PReach AA (IE r) (IE m).
Proof.
  intros Hm Hk Hr. apply (preach_unfold s rec) in Hr as [E|(y & Hy & Hr)]; [injection E as ->; congruence|].
  cbn [acts_cables] in Hy. rewrite Hk in Hy. apply in_push_ids in Hy as (i & Hi & E). injection E as ->.
  apply (nk_pin i m Hm (kid_kind s W _ _ _ Hi) Hr).
Qed.

Lemma nk_cable r m : kind_of s m = Some KDefinition -> kind_of s r = Some KCable -> ~ PReach AA (IE r) (IE m).
Proof.
  intros Hm Hk Hr. apply (preach_unfold s rec) in Hr as [E|(y & Hy & Hr)]; [injection E as ->; congruence|].
  cbn [acts_cables] in Hy. rewrite Hk in Hy. apply in_push_ids in Hy as (w & Hw & E). injection E as ->.
  apply (nk_wire w m Hm (kid_kind s W _ _ _ Hw) Hr).
Qed.

Lemma ldef_def r d : kind_of s r = Some KDefinition ->
  (kind_of s d = Some KDefinition /\ PReach AA (IE r) (IE d) <-> d = r).
Proof.
  intro Hk. rewrite (ca_def_reach s W rec r _ Hk). split.
  - intros [Hd [E|[(po & i & _ & Hi & E)|(m0 & Hu & [E|(i & _ & E)])]]].
    + injection E as ->. reflexivity.
    + injection E as ->. apply (kids_par s W) in Hi. pose proof (kid_kind s W _ _ _ Hi) as Hki. cbn in Hki. congruence.
    + injection E as ->. pose proof (inst_under_kind s W _ _ Hu) as Hki. congruence.
    + discriminate E.
  - intros ->. split; [exact Hk|left; reflexivity].
Qed.

Lemma ldef_inst n d : kind_of s n = Some KInstance -> ~ (kind_of s d = Some KDefinition /\ PReach AA (IE n) (IE d)).
Proof.
  intros Hk [Hd Hr]. apply (ca_inst_reach s W rec n _ Hk) in Hr as [E|[(i & _ & E)|(r & Er & m0 & Hu & [E|(i & _ & E)])]].
  - injection E as ->. congruence.
  - discriminate E.
  - injection E as ->. pose proof (inst_under_kind s W _ _ Hu) as Hki. congruence.
  - discriminate E.
Qed.

Lemma ldef_elem r d : kind_of s d = Some KDefinition /\ PReach AA (IE r) (IE d) <-> scope_defs s r d.
Proof.
  unfold scope_defs. destruct (kind_of s r) as [[]|] eqn:Hk.
  - split.
    + intros [Hd Hr]. apply (preach_unfold s rec) in Hr as [E|(y & Hy & Hr)]; [injection E as ->; congruence|].
      cbn [acts_cables] in Hy. rewrite Hk in Hy. apply in_flat_map in Hy as (l & Hl & Hy). apply in_push_ids in Hy as (d0 & Hd0 & E). injection E as ->.
      assert (E : d = d0) by (apply (ldef_def d0 d (kid_kind s W _ _ _ Hd0)); auto). subst d0.
      exists l. split; apply (kids_par s W); assumption.
    + intros (l & Hd & Hl). apply (kids_par s W) in Hd, Hl. split; [apply (kid_kind s W _ _ _ Hd)|].
      apply (preach_unfold s rec). right. exists (IE d).
      split; [cbn [acts_cables]; rewrite Hk; apply in_flat_map; exists l; split; [exact Hl|apply in_push_ids; eauto]|apply rt_refl].
  - split.
    + intros [Hd Hr]. apply (preach_unfold s rec) in Hr as [E|(y & Hy & Hr)]; [injection E as ->; congruence|].
      cbn [acts_cables] in Hy. rewrite Hk in Hy. apply in_push_ids in Hy as (d0 & Hd0 & E). injection E as ->.
      assert (E : d = d0) by (apply (ldef_def d0 d (kid_kind s W _ _ _ Hd0)); auto). subst d0.
      apply (kids_par s W); assumption.
    + intros Hd. apply (kids_par s W) in Hd. split; [apply (kid_kind s W _ _ _ Hd)|].
      apply (preach_unfold s rec). right. exists (IE d).
      split; [cbn [acts_cables]; rewrite Hk; apply in_push_ids; eauto|apply rt_refl].
  - apply (ldef_def r d Hk).
  - split; [intros [Hm Hr]; apply (nk_port r d Hm Hk Hr)|intros []].
  - split; [intros [Hm Hr]; apply (nk_cable r d Hm Hk Hr)|intros []].
  - split; [intros [Hm Hr]; apply (nk_wire r d Hm Hk Hr)|intros []].
  - split; [intros [Hm Hr]; apply (nk_pin r d Hm Hk Hr)|intros []].
  - split; [apply (ldef_inst r d Hk)|intros []].
  - split; [|intros []]. intros [Hm Hr]. apply (preach_unfold s rec) in Hr as [E|(y & Hy & _)]; [injection E as ->; congruence|].
    cbn [acts_cables] in Hy. rewrite Hk in Hy. destruct Hy.
Qed.

Lemma ldef_item it d : kind_of s d = Some KDefinition /\ PReach AA it (IE d) <-> lead_defs s it d.
Proof.
  destruct it as [r|n i| |h]; cbn [lead_defs].
  - apply ldef_elem.
  - split; [|intros []]. intros [_ Hr]. apply (preach_stuck s rec) in Hr; [discriminate Hr|intro y; apply ca_io_nopush].
  - split; [|intros []]. intros [_ Hr]. apply (preach_stuck s rec) in Hr; [discriminate Hr|intros y []].
  - split; [|intros []]. intros [Hd Hr]. apply (preach_unfold s rec) in Hr as [E|(y & Hy & Hr)]; [discriminate E|].
    cbn [acts_cables] in Hy. apply in_push_opt in Hy as (r & Er & E). injection E as ->. apply (href_item_iff s W) in Er.
    assert (Hs : scope_defs s r d) by (apply ldef_elem; auto). unfold scope_defs in Hs.
    destruct (href_item_kind s W h r Er) as [K|[K|[K|[K|K]]]]; rewrite K in Hs; exact Hs.
Qed.

(* the parents recorded for the first stage (whose cables are candidates): the root definition, or the
   definitions of the root library / netlist *)
Theorem cands_cables_all_parents fuel it ps os :
  cands_cables s fuel [it] rec SAll = WOk (ps, os) -> forall d, In d ps <-> lead_defs s it d.
Proof.
  intro H. destruct (cands_cables_all_emits s rec fuel it ps os H) as (Hp & _ & _). intro d.
  rewrite (Hp d), (emits_split AA (cab_of s) (wire_items s) (cab_marks_all s rec) it (OPar d)). split.
  - intros [(y & Hr & Ha)|(w & _ & Hc)].
    + apply ca_par in Ha as [-> Hk]. apply ldef_item. split; [exact Hk|apply (ca_par_reach it d Hk Hr)].
    + unfold cab_of in Hc. destruct (par s RWires w); [destruct Hc as [E|[]]; discriminate E|destruct Hc].
  - intro Hl. apply ldef_item in Hl as [Hk Hr]. left. exists (IE d). split; [apply preach_reach; exact Hr|apply ca_par; auto].
Qed.
End CabPars.

Print Assumptions cands_cables_all_parents.

(* ---- the netlist exa of QueryEnumWiresAll.v: cables 8 (wire 9, in mid), 17 (wire 18, in leaf),
        19 (wires 20 and 21, in top) ---- *)
Example exa_wire_cables : map (par exa RWires) [9; 18; 20; 21] = [Some 8; Some 17; Some 19; Some 19].
Proof. vm_compute. reflexivity. Qed.

(* from wire 21 (on the leaf child of top): BOTH sees the cable of the wire and the one inside the leaf,
   ALL goes on through the leaf cell into mid and finds cable 8 as well *)
Example exa_cables_both : cands_cables exa 100 [IE 21] false SBoth = WOk ([], [17; 19]).
Proof. vm_compute. reflexivity. Qed.
Example exa_cables_all : cands_cables exa 100 [IE 21] false SAll = WOk ([], [17; 19; 8]).
Proof. vm_compute. reflexivity. Qed.
Example exa_cables_all_roots :
  map (fun r => cands_cables exa 100 [r] false SAll) [IE 9; IE 5; IE 2; IO 15 4; IE 7; IE 13; IE 0; IE 16; IE 14; IE 8] =
  [WOk ([], [17; 8; 19]); WOk ([5], [8; 19; 17]); WOk ([2], [17; 8; 19]); WOk ([], [17; 19; 8]);
   WOk ([], [8; 19; 17]); WOk ([13], [17; 19; 8]); WOk ([13; 5; 2], [17; 19; 8]); WOk ([], [19; 17; 8]);
   WOk ([], [8; 19; 17]); WOk ([], [17; 8; 19])].
Proof. vm_compute. reflexivity. Qed.

(* hence the specification names exactly these three cables from wire 21 *)
Example exa_cables_spec c : cables_all exa (IE 21) c <-> In c [17; 19; 8].
Proof. symmetry. apply (proj2 (cands_cables_all_exact exa exa_qwf false 100 (IE 21) _ _ exa_cables_all) c). Qed.

Print Assumptions exa_cables_spec.
