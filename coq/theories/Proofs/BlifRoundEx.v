(* EBLIF engine, write-then-read: the round trip of concrete documents, certified by the verified
   checker rt_check (vm_compute on closed terms), and the witnesses for the classes of netlist that
   [roundtrippable] excludes. *)
From Coq Require Import List Arith NArith Bool Lia.
From Coq Require String.
From SV Require Import Base.Base Fmt.Blif Fmt.BlifRead Fmt.BlifWrite Fmt.BlifSpec
  Proofs.BlifBase Proofs.BlifWF Proofs.BlifExec Proofs.BlifC18 Proofs.BlifRound.
Import ListNotations.

Definition rt_ok (d : doc) : bool :=
  match elab d with Ok n => roundtrippable n && rt_check n | Error _ => false end.

Lemma rt_ok_sound d :
  rt_ok d = true ->
  exists n n', elab d = Ok n /\ roundtrippable n = true /\ elab (emit n) = Ok n' /\ equiv n n' /\ equiv_ports n n' /\ equiv_pins n n'.
Proof.
  unfold rt_ok. destruct (elab d) as [n|]; [|discriminate]. intro H. apply andb_true_iff in H as [H1 H2].
  destruct (rt_check_sound n H2) as [n' [A B]]. exists n, n'. auto.
Qed.

(* a hierarchical document: declared sub-model with its own .names, a declared black box with a bus
   port, unconn, .latch, .cname/.attr/.param, a .conn between inner nets *)
Lemma roundtrip_hier :
  exists n n', elab doc_hier = Ok n /\ roundtrippable n = true /\ elab (emit n) = Ok n' /\ equiv n n' /\ equiv_ports n n' /\
    equiv_pins n n' /\ length (b_models n) = 5 /\ length (emit n) = 37.
Proof.
  assert (H : rt_ok doc_hier = true) by (vm_compute; reflexivity).
  destruct (rt_ok_sound _ H) as [n [n' [A [B [C [D [E F]]]]]]]. exists n, n'.
  repeat (split; [assumption|]). remember (elab doc_hier) as r eqn:Er. vm_compute in Er. subst r.
  inversion A; subst n. split; vm_compute; reflexivity.
Qed.

Lemma roundtrip_flat :
  exists n n', elab doc_flat = Ok n /\ roundtrippable n = true /\ elab (emit n) = Ok n' /\ equiv n n' /\ equiv_ports n n' /\ equiv_pins n n'.
Proof. apply rt_ok_sound. vm_compute. reflexivity. Qed.

(* ====================================================================== what [roundtrippable] excludes *)
Module C18Docs3.
Import String.
Local Open Scope string_scope.
(* .conn moves the port pin y to the wire of n1: the writer names the port "y", the net "n1" *)
Definition doc_conn_port_net : doc := D [
  ".model top";
  ".inputs a";
  ".outputs y";
  ".subckt INV I=a O=n1";
  ".cname u1";
  ".conn n1 y";
  ".end" ].
(* a declared black box nothing instantiates, placed first, stays top: the writer writes no model *)
Definition doc_top_primitive : doc := D [
  ".model UNUSED_BB";
  ".inputs a";
  ".outputs b";
  ".blackbox";
  ".end";
  ".model top";
  ".inputs a";
  ".outputs y";
  ".subckt INV I=a O=y";
  ".end" ].
(* .conn on wire 0 of cable x (it used to remove the wire: x[1], x[2] became x[0], x[1], while the instances
   kept their names) *)
Definition doc_conn_bus : doc := D [
  ".model top";
  ".names a x[1]";
  "1 1";
  ".latch a x[2]";
  ".conn n10 x[0]";
  ".end" ].
End C18Docs3.
Export C18Docs3.

Definition reread_fails (d : doc) : bool :=
  match elab d with
  | Ok n => negb (roundtrippable n) && match elab (emit n) with Ok _ => false | Error _ => true end
  | Error _ => false
  end.

Lemma reread_fails_sound d :
  reread_fails d = true -> exists n, elab d = Ok n /\ roundtrippable n = false /\ ~ exists n', elab (emit n) = Ok n'.
Proof.
  unfold reread_fails. destruct (elab d) as [n|]; [|discriminate]. intro H. apply andb_true_iff in H as [H1 H2].
  exists n. split; [reflexivity|]. split; [apply negb_true_iff; exact H1|].
  intros [n' Hn']. rewrite Hn' in H2. discriminate.
Qed.

(* the written file is rejected: default names collide with names written as .cname *)
Lemma rt_excluded_default_names :
  exists n, elab doc_default_names = Ok n /\ roundtrippable n = false /\ ~ exists n', elab (emit n) = Ok n'.
Proof. apply reread_fails_sound. vm_compute. reflexivity. Qed.

(* .conn on a bit of a bus: before the repair of merge_wires the written file was rejected (the wires after
   the removed one had moved down, two instances got the same name); now every wire keeps its position,
   the netlist is roundtrippable and does round-trip *)
Lemma roundtrip_conn_bus :
  exists n n', elab doc_conn_bus = Ok n /\ roundtrippable n = true /\ elab (emit n) = Ok n' /\ equiv n n' /\ equiv_ports n n' /\
    equiv_pins n n'.
Proof. apply rt_ok_sound. vm_compute. reflexivity. Qed.

(* ---- a decidable refutation of the equivalence ---- *)
Definition nets_differ_b (m m' : model) : bool :=
  let l := npins m ++ npins m' in
  existsb (fun a => existsb (fun b => negb (npin_eqb a b) && negb (Bool.eqb (snn_b m a b) (snn_b m' a b))) l) l.

Lemma nets_differ_sound m m' : nets_differ_b m m' = true -> ~ equiv_model m m'.
Proof.
  unfold nets_differ_b. cbn zeta. intros H [_ [_ Hn]]. apply existsb_exists in H as [a [_ H]].
  apply existsb_exists in H as [b [_ H]]. apply andb_true_iff in H as [H1 H2].
  apply negb_true_iff in H1, H2.
  assert (Hab : a <> b) by (intro E; apply npin_eqb_eq in E; congruence).
  specialize (Hn a b Hab). rewrite !snn_b_iff in Hn.
  destruct (snn_b m a b), (snn_b m' a b); cbn in H2; try discriminate; destruct Hn as [A B]; [specialize (A eq_refl)|specialize (B eq_refl)]; discriminate.
Qed.

Definition equiv_refuted_b (n n' : bnv) : bool :=
  match b_top n, b_top n' with
  | Some (_, t), Some (_, t') =>
    existsb (fun nm => negb (lib_eqb (m_lib (get_model nm (b_models n))) LPrim) &&
                       match find_model nm (b_models n') with
                       | Some m' => nets_differ_b (get_model nm (b_models n)) m'
                       | None => true
                       end)
            (reach (S (length (b_models n) + total_insts (b_models n))) (b_models n) [t] [])
  | None, None => false
  | _, _ => true
  end.

Lemma equiv_refuted_sound n n' : equiv_refuted_b n n' = true -> ~ equiv n n'.
Proof.
  unfold equiv_refuted_b, equiv. destruct (b_top n) as [[tn t]|], (b_top n') as [[tn' t']|]; try discriminate; [|tauto|tauto].
  intros H [_ He]. apply existsb_exists in H as [nm [Hn H]]. apply andb_true_iff in H as [H1 H2].
  apply negb_true_iff in H1. assert (Hl : m_lib (get_model nm (b_models n)) <> LPrim).
  { intro E. rewrite E in H1. discriminate. }
  destruct (He nm Hn Hl) as [m' [Hm' Hq]]. rewrite Hm' in H2. exact (nets_differ_sound _ _ H2 Hq).
Qed.

Definition reread_differs (d : doc) : bool :=
  match elab d with
  | Ok n => negb (roundtrippable n) && match elab (emit n) with Ok n' => equiv_refuted_b n n' | Error _ => false end
  | Error _ => false
  end.

Lemma reread_differs_sound d :
  reread_differs d = true ->
  exists n n', elab d = Ok n /\ roundtrippable n = false /\ elab (emit n) = Ok n' /\ ~ equiv n n'.
Proof.
  unfold reread_differs. destruct (elab d) as [n|]; [|discriminate]. intro H. apply andb_true_iff in H as [H1 H2].
  destruct (elab (emit n)) as [n'|] eqn:E2; [|discriminate]. exists n, n'. split; [reflexivity|].
  split; [apply negb_true_iff; exact H1|]. split; [exact E2|apply equiv_refuted_sound; exact H2].
Qed.

(* the written file holds no model: the re-read netlist has no top instance *)
Lemma rt_excluded_top_primitive :
  exists n n', elab doc_top_primitive = Ok n /\ roundtrippable n = false /\ elab (emit n) = Ok n' /\ ~ equiv n n'.
Proof. apply reread_differs_sound. vm_compute. reflexivity. Qed.

(* the written file is accepted, but the port pin y is no longer on the net of u1.O *)
Lemma rt_excluded_conn_port_net :
  exists n n', elab doc_conn_port_net = Ok n /\ roundtrippable n = false /\ elab (emit n) = Ok n' /\ ~ equiv n n'.
Proof. apply reread_differs_sound. vm_compute. reflexivity. Qed.

Definition rt_inst_hyp (d : doc) : bool :=
  match elab d with
  | Ok n => roundtrippable n && supported (emit n) && match elab (emit n) with Ok _ => true | Error _ => false end &&
            Nat.eqb (length (written_names n)) 2
  | Error _ => false
  end.

Lemma rt_instances_example :
  exists n n', elab doc_hier = Ok n /\ roundtrippable n = true /\ supported (emit n) = true /\ elab (emit n) = Ok n' /\
    length (written_names n) = 2.
Proof.
  assert (H : rt_inst_hyp doc_hier = true) by (vm_compute; reflexivity).
  unfold rt_inst_hyp in H. destruct (elab doc_hier) as [n|]; [|discriminate].
  apply andb_true_iff in H as [H H0]. apply andb_true_iff in H as [H H1]. apply andb_true_iff in H as [H H2].
  destruct (elab (emit n)) as [n'|] eqn:E; [|discriminate].
  exists n, n'. repeat split; auto. apply Nat.eqb_eq. assumption.
Qed.
