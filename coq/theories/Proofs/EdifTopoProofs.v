(* Theorems about the model of ComposeEdif._topological_sort (Fmt/EdifTopo.v).

   1. toposort_sorted_fuel   partial correctness: whenever the fuel was enough, the output has no
                             duplicates and every dependency precedes its user
   2. toposort_perm_fuel     whenever the fuel was enough, the output is a permutation of the input
   3. toposort_terminates    on acyclic (ranked) input [topo_fuel] is enough
   4. toposort_fixpoint      an already sorted input comes back unchanged
   5. toposort_perm_sorted   total correctness on acyclic input (from 1-3)
   6. toposort_example, toposort_cycle_diverges   concrete runs

   Termination argument (3): no ghost instrumentation of the stack; instead a big-step lemma,
   proved by well-founded induction on the rank of the top stack entry [o]:
     iterate (k + f) deps (o :: rest) out = iterate f deps rest out'
   for every [f], where [out'] extends [out], contains [o], is closed under [deps], only gained
   elements of rank <= rank o, and  k + M out' <= 1 + M out  with
     M out = sum over {x in objs, x not in out} of (length (deps x) + 1).
   A push step costs 1, the pushed children cost (by the list version of the lemma)
   at most [length new + M out - M out1], the final pop costs 1 and lowers M by
   [length (deps o) + 1] because [o] itself cannot have been output meanwhile (rank). *)
From Coq Require Import List Arith Bool Lia Permutation.
From SV Require Import Base.Base Fmt.EdifTopo.
Import ListNotations.

Definition precedes (d o : node) (l : list node) : Prop :=
  exists l1 l2 l3, l = l1 ++ d :: l2 ++ o :: l3.
Definition irreflexive (deps : node -> list node) := forall o, ~ In o (deps o).
Definition closed_in (deps : node -> list node) (objs : list node) :=
  forall o d, In o objs -> In d (deps o) -> In d objs.
(* = acyclic *)
Definition ranked (deps : node -> list node) :=
  exists rank : node -> nat, forall o d, In d (deps o) -> rank d < rank o.

Lemma ranked_irreflexive deps : ranked deps -> irreflexive deps.
Proof. intros [rank H] o Ho. specialize (H o o Ho). lia. Qed.

(* ---------- one step of the loop ---------- *)

Definition unvisited (deps : node -> list node) (out : list node) (o : node) : list node :=
  filter (fun c => negb (memb c out)) (deps o).

Lemma filter_nil_iff {A} (f : A -> bool) l : filter f l = [] <-> forall x, In x l -> f x = false.
Proof.
  induction l as [|a l IH]; cbn; [split; [intros _ x []|reflexivity]|].
  destruct (f a) eqn:E; split; intro H.
  - discriminate.
  - specialize (H a (or_introl eq_refl)). congruence.
  - intros x [<-|Hx]; [assumption|]. apply IH; assumption.
  - apply IH. intros x Hx. apply H. right. assumption.
Qed.

Lemma filter_length_le' {A} (f : A -> bool) l : length (filter f l) <= length l.
Proof. induction l as [|a l IH]; cbn; [lia|]. destruct (f a); cbn; lia. Qed.

Lemma unvisited_nil deps out o :
  unvisited deps out o = [] <-> forall d, In d (deps o) -> In d out.
Proof.
  unfold unvisited. rewrite filter_nil_iff. split; intros H d Hd; specialize (H d Hd).
  - apply negb_false_iff in H. apply memb_In. assumption.
  - apply negb_false_iff. apply memb_In. assumption.
Qed.

Lemma unvisited_length deps out o : length (unvisited deps out o) <= length (deps o).
Proof. unfold unvisited. apply filter_length_le'. Qed.

Lemma unvisited_In deps out o d :
  In d (unvisited deps out o) <-> In d (deps o) /\ ~ In d out.
Proof. unfold unvisited. rewrite filter_In, negb_true_iff, memb_false. tauto. Qed.

Lemma iterate_unfold f deps o rest out :
  iterate (S f) deps (o :: rest) out =
  match rev (unvisited deps out o) ++ o :: rest with
  | [] => Some out
  | top :: rest' =>
    if Nat.eqb top o
    then iterate f deps rest' (if memb o out then out else out ++ [o])
    else iterate f deps (rev (unvisited deps out o) ++ o :: rest) out
  end.
Proof. reflexivity. Qed.

Lemma iterate_pop f deps o rest out :
  unvisited deps out o = [] ->
  iterate (S f) deps (o :: rest) out
  = iterate f deps rest (if memb o out then out else out ++ [o]).
Proof.
  intro H. rewrite iterate_unfold, H. cbn. rewrite Nat.eqb_refl. reflexivity.
Qed.

Lemma iterate_push f deps o rest out :
  ~ In o (deps o) -> unvisited deps out o <> [] ->
  iterate (S f) deps (o :: rest) out
  = iterate f deps (rev (unvisited deps out o) ++ o :: rest) out.
Proof.
  intros Hirr Hne. rewrite iterate_unfold.
  destruct (rev (unvisited deps out o)) as [|top r] eqn:E.
  - exfalso. apply Hne. rewrite <- (rev_involutive (unvisited deps out o)), E. reflexivity.
  - cbn [app].
    assert (Htop : In top (deps o)).
    { assert (In top (rev (unvisited deps out o))) by (rewrite E; left; reflexivity).
      apply in_rev in H. apply unvisited_In in H. tauto. }
    destruct (Nat.eqb_spec top o) as [->|_]; [contradiction|reflexivity].
Qed.

(* ---------- 1. partial correctness: dependencies first ---------- *)

Definition sorted_out (deps : node -> list node) (out : list node) : Prop :=
  NoDup out /\ forall o d, In o out -> In d (deps o) -> precedes d o out.

Lemma NoDup_snoc (x : node) l : NoDup l -> ~ In x l -> NoDup (l ++ [x]).
Proof.
  intros H1 H2. apply (Permutation_NoDup (Permutation_cons_append l x)). constructor; assumption.
Qed.

Lemma sorted_out_snoc deps out o :
  sorted_out deps out -> ~ In o out -> (forall d, In d (deps o) -> In d out) ->
  sorted_out deps (out ++ [o]).
Proof.
  intros [Hnd Hp] Hno Hd. split; [apply NoDup_snoc; assumption|].
  intros x d Hx Hdx. apply in_app_or in Hx as [Hx|[<-|[]]].
  - destruct (Hp x d Hx Hdx) as (l1 & l2 & l3 & ->). exists l1, l2, (l3 ++ [o]).
    rewrite <- !app_assoc. cbn. rewrite <- !app_assoc. reflexivity.
  - destruct (in_split _ _ (Hd d Hdx)) as (l1 & l2 & ->). exists l1, l2, [].
    rewrite <- app_assoc. reflexivity.
Qed.

Lemma iterate_sorted deps : irreflexive deps -> forall fuel stack out out',
  sorted_out deps out -> iterate fuel deps stack out = Some out' -> sorted_out deps out'.
Proof.
  intros Hirr. induction fuel as [|f IH]; intros stack out out' Hs H; [discriminate|].
  destruct stack as [|o rest]; [cbn in H; inversion H; subst; assumption|].
  destruct (unvisited deps out o) as [|c new] eqn:E.
  - rewrite iterate_pop in H by assumption. apply IH in H; [assumption|].
    destruct (memb o out) eqn:Em; [assumption|].
    apply sorted_out_snoc; [assumption|apply memb_false; assumption|].
    apply unvisited_nil. assumption.
  - rewrite iterate_push in H; [|apply Hirr|rewrite E; discriminate].
    apply IH in H; assumption.
Qed.

Lemma outer_sorted deps fuel : irreflexive deps -> forall objs out out',
  sorted_out deps out -> topo_outer fuel deps objs out = Some out' -> sorted_out deps out'.
Proof.
  intros Hirr. induction objs as [|o objs IH]; intros out out' Hs H; cbn in H.
  - inversion H; subst; assumption.
  - destruct (memb o out); [eapply IH; eassumption|].
    destruct (iterate fuel deps [o] out) as [out1|] eqn:E; [|discriminate].
    eapply IH; [|eassumption]. eapply iterate_sorted; eassumption.
Qed.

Theorem toposort_sorted_fuel : forall fuel deps objs out,
  irreflexive deps -> topo_outer fuel deps objs [] = Some out ->
  (NoDup out /\ forall o d, In o out -> In d (deps o) -> precedes d o out).
Proof.
  intros fuel deps objs out Hirr H.
  apply (outer_sorted deps fuel Hirr objs [] out); [|assumption].
  split; [constructor|intros o d []].
Qed.

(* ---------- 2. partial correctness: permutation (no irreflexivity needed) ---------- *)

Lemma iterate_grow deps objs : closed_in deps objs -> forall fuel stack out out',
  NoDup out -> incl out objs -> incl stack objs ->
  iterate fuel deps stack out = Some out' ->
  NoDup out' /\ incl out' objs /\ incl out out' /\ incl stack out'.
Proof.
  intros Hc. induction fuel as [|f IH]; intros stack out out' Hnd Hio Hso H; [discriminate|].
  destruct stack as [|o rest].
  - cbn in H. inversion H; subst. repeat split; auto using incl_refl. intros x [].
  - rewrite iterate_unfold in H.
    assert (Hnew : incl (rev (unvisited deps out o)) objs).
    { intros x Hx. apply in_rev in Hx. apply unvisited_In in Hx as [Hx _].
      apply (Hc o); [apply Hso; left; reflexivity|assumption]. }
    destruct (rev (unvisited deps out o) ++ o :: rest) as [|top rest'] eqn:E.
    + destruct (rev (unvisited deps out o)); discriminate.
    + assert (Hs' : incl (top :: rest') objs).
      { rewrite <- E. apply incl_app; assumption. }
      assert (Hrest : forall x, In x (o :: rest) -> In x (top :: rest')).
      { intros x Hx. rewrite <- E. apply in_or_app. right. assumption. }
      destruct (Nat.eqb_spec top o) as [->|Hne].
      * set (out2 := if memb o out then out else out ++ [o]) in H.
        assert (Ho2 : In o out2).
        { unfold out2. destruct (memb o out) eqn:Em; [apply memb_In; assumption|].
          apply in_or_app. right. left. reflexivity. }
        assert (Hi2 : incl out out2).
        { unfold out2. destruct (memb o out); [apply incl_refl|apply incl_appl, incl_refl]. }
        apply IH in H.
        -- destruct H as (A & B & C & D). repeat split; auto.
           ++ intros x Hx. apply C, Hi2, Hx.
           ++ intros x Hx. apply Hrest in Hx as [<-|Hx]; [apply C, Ho2|apply D, Hx].
        -- unfold out2. destruct (memb o out) eqn:Em; [assumption|].
           apply NoDup_snoc; [assumption|apply memb_false; assumption].
        -- unfold out2. destruct (memb o out); [assumption|].
           apply incl_app; [assumption|]. intros x [<-|[]]. apply Hs'. left. reflexivity.
        -- intros x Hx. apply Hs'. right. assumption.
      * apply IH in H; auto. destruct H as (A & B & C & D). repeat split; auto.
        intros x Hx. apply D, Hrest, Hx.
Qed.

Lemma outer_grow deps objs fuel : closed_in deps objs -> forall l out out',
  NoDup out -> incl out objs -> incl l objs ->
  topo_outer fuel deps l out = Some out' ->
  NoDup out' /\ incl out' objs /\ incl out out' /\ incl l out'.
Proof.
  intros Hc. induction l as [|o l IH]; intros out out' Hnd Hio Hl H; cbn in H.
  - inversion H; subst. repeat split; auto using incl_refl. intros x [].
  - assert (Hl' : incl l objs) by (intros x Hx; apply Hl; right; assumption).
    destruct (memb o out) eqn:Em.
    + destruct (IH _ _ Hnd Hio Hl' H) as (A & B & C & D). repeat split; auto.
      intros x [<-|Hx]; [apply C, memb_In, Em|apply D, Hx].
    + destruct (iterate fuel deps [o] out) as [out1|] eqn:E; [|discriminate].
      apply (iterate_grow deps objs Hc) in E; auto.
      * destruct E as (A1 & B1 & C1 & D1).
        destruct (IH _ _ A1 B1 Hl' H) as (A & B & C & D). repeat split; auto.
        -- intros x Hx. apply C, C1, Hx.
        -- intros x [<-|Hx]; [apply C, D1; left; reflexivity|apply D, Hx].
      * intros x [<-|[]]. apply Hl. left. reflexivity.
Qed.

Theorem toposort_perm_fuel : forall fuel deps objs out,
  NoDup objs -> closed_in deps objs -> topo_outer fuel deps objs [] = Some out ->
  Permutation objs out.
Proof.
  intros fuel deps objs out Hnd Hc H.
  apply (outer_grow deps objs fuel Hc) in H; auto using incl_refl.
  - destruct H as (A & B & _ & D). apply NoDup_Permutation; auto.
    intro x. split; [apply D|apply B].
  - constructor.
  - intros x [].
Qed.

(* ---------- 3. the fuel is enough on acyclic input ---------- *)

(* potential: total weight of the objects not yet output *)
Fixpoint pot (deps : node -> list node) (objs out : list node) : nat :=
  match objs with
  | [] => 0
  | x :: t => (if memb x out then 0 else length (deps x) + 1) + pot deps t out
  end.

Lemma memb_snoc x l o : memb x (l ++ [o]) = memb x l || Nat.eqb x o.
Proof.
  induction l as [|y l IH]; cbn; [rewrite orb_false_r; reflexivity|].
  rewrite IH, orb_assoc. reflexivity.
Qed.

Lemma pot_le_nil deps objs out : pot deps objs out <= pot deps objs [].
Proof. induction objs as [|x t IH]; cbn; [lia|]. destruct (memb x out); lia. Qed.

Lemma pot_snoc_le deps objs out o : pot deps objs (out ++ [o]) <= pot deps objs out.
Proof.
  induction objs as [|x t IH]; cbn; [lia|]. rewrite memb_snoc.
  destruct (memb x out); cbn; [lia|]. destruct (Nat.eqb x o); lia.
Qed.

Lemma pot_snoc deps objs out o :
  In o objs -> ~ In o out ->
  pot deps objs (out ++ [o]) + length (deps o) + 1 <= pot deps objs out.
Proof.
  intros Ho Hno. induction objs as [|x t IH]; [destruct Ho|]. cbn. rewrite memb_snoc.
  destruct (Nat.eqb_spec x o) as [->|Hne].
  - apply memb_false in Hno. rewrite Hno. cbn. pose proof (pot_snoc_le deps t out o). lia.
  - destruct Ho as [Ho|Ho]; [congruence|]. specialize (IH Ho).
    rewrite orb_false_r. destruct (memb x out); lia.
Qed.

Lemma pot_fuel deps objs : pot deps objs [] + 2 <= topo_fuel deps objs.
Proof. unfold topo_fuel. induction objs as [|x t IH]; cbn; lia. Qed.

Section BigStep.
  Variable deps : node -> list node.
  Variable objs : list node.
  Variable rank : node -> nat.
  Hypothesis Hrank : forall o d, In d (deps o) -> rank d < rank o.
  Hypothesis Hclosed : closed_in deps objs.

  Definition dclosed (out : list node) : Prop :=
    forall x d, In x out -> In d (deps x) -> In d out.

  Definition big (o : node) : Prop :=
    forall rest out, In o objs -> dclosed out ->
    exists out' k,
      (forall f, iterate (k + f) deps (o :: rest) out = iterate f deps rest out') /\
      dclosed out' /\ incl out out' /\ In o out' /\
      (forall x, In x out' -> In x out \/ rank x <= rank o) /\
      k + pot deps objs out' <= 1 + pot deps objs out.

  Lemma big_list b : (forall o, rank o < b -> big o) ->
    forall pre rest out, (forall x, In x pre -> rank x < b /\ In x objs) -> dclosed out ->
    exists out' k,
      (forall f, iterate (k + f) deps (pre ++ rest) out = iterate f deps rest out') /\
      dclosed out' /\ incl out out' /\ incl pre out' /\
      (forall x, In x out' -> In x out \/ rank x < b) /\
      k + pot deps objs out' <= length pre + pot deps objs out.
  Proof.
    intros Hb. induction pre as [|a pre IH]; intros rest out Hpre Hd.
    - exists out, 0. repeat split; auto using incl_refl. intros x [].
    - destruct (Hpre a (or_introl eq_refl)) as [Ha1 Ha2].
      destruct (Hb a Ha1 (pre ++ rest) out Ha2 Hd) as (out1 & k1 & E1 & D1 & I1 & A1 & R1 & P1).
      destruct (IH rest out1 (fun x Hx => Hpre x (or_intror Hx)) D1)
        as (out2 & k2 & E2 & D2 & I2 & A2 & R2 & P2).
      exists out2, (k1 + k2). repeat split; auto.
      + intro f. rewrite <- Nat.add_assoc. cbn [app]. rewrite E1. apply E2.
      + intros x Hx. apply I2, I1, Hx.
      + intros x [<-|Hx]; [apply I2, A1|apply A2, Hx].
      + intros x Hx. apply R2 in Hx as [Hx|Hx]; [|right; assumption].
        apply R1 in Hx as [Hx|Hx]; [left; assumption|right; lia].
      + cbn [length]. lia.
  Qed.

  Lemma big_all : forall o, big o.
  Proof.
    intro o. remember (rank o) as n eqn:En. revert o En.
    induction n as [n IHn] using lt_wf_ind. intros o -> rest out Ho Hd.
    destruct (unvisited deps out o) as [|c new] eqn:E.
    - (* nothing to push: pop *)
      exists (if memb o out then out else out ++ [o]), 1. split; [|split; [|split; [|split; [|split]]]].
      + intro f. apply iterate_pop. assumption.
      + destruct (memb o out); [assumption|].
        intros x d Hx Hdx. apply in_or_app. left.
        apply in_app_or in Hx as [Hx|[<-|[]]]; [eapply Hd; eassumption|].
        apply (proj1 (unvisited_nil deps out o) E). assumption.
      + destruct (memb o out); [apply incl_refl|apply incl_appl, incl_refl].
      + destruct (memb o out) eqn:Em; [apply memb_In; assumption|].
        apply in_or_app. right. left. reflexivity.
      + intros x Hx. destruct (memb o out); [left; assumption|].
        apply in_app_or in Hx as [Hx|[<-|[]]]; [left; assumption|right; lia].
      + destruct (memb o out); [lia|]. pose proof (pot_snoc_le deps objs out o). lia.
    - (* push the unvisited children, run them, then pop *)
      assert (Hne : unvisited deps out o <> []) by (rewrite E; discriminate).
      assert (Hno : ~ In o out).
      { intro Hin. apply Hne. apply unvisited_nil. intros d Hdd. eapply Hd; eassumption. }
      assert (Hirr : ~ In o (deps o)) by (intro Hi; specialize (Hrank o o Hi); lia).
      destruct (big_list (rank o) (fun o' Ho' => IHn (rank o') Ho' o' eq_refl)
                  (rev (unvisited deps out o)) (o :: rest) out)
        as (out1 & k1 & E1 & D1 & I1 & A1 & R1 & P1); [|assumption|].
      { intros x Hx. apply in_rev in Hx. apply unvisited_In in Hx as [Hx _].
        split; [apply Hrank; assumption|apply (Hclosed o); assumption]. }
      assert (Hno1 : ~ In o out1).
      { intro Hin. apply R1 in Hin as [Hin|Hin]; [contradiction|lia]. }
      assert (Hnil : unvisited deps out1 o = []).
      { apply unvisited_nil. intros d Hdd. destruct (memb d out) eqn:Em.
        - apply I1, memb_In, Em.
        - apply A1. apply in_rev. rewrite rev_involutive. apply unvisited_In.
          split; [assumption|apply memb_false; assumption]. }
      exists (out1 ++ [o]), (S (k1 + 1)). split; [|split; [|split; [|split; [|split]]]].
      + intro f. cbn [plus]. rewrite iterate_push by assumption.
        rewrite <- Nat.add_assoc, E1. cbn [plus]. rewrite iterate_pop by assumption.
        apply memb_false in Hno1. rewrite Hno1. reflexivity.
      + intros x d Hx Hdx. apply in_or_app. left.
        apply in_app_or in Hx as [Hx|[<-|[]]]; [eapply D1; eassumption|].
        apply (proj1 (unvisited_nil deps out1 o) Hnil). assumption.
      + intros x Hx. apply in_or_app. left. apply I1, Hx.
      + apply in_or_app. right. left. reflexivity.
      + intros x Hx. apply in_app_or in Hx as [Hx|[<-|[]]]; [|right; lia].
        apply R1 in Hx as [Hx|Hx]; [left; assumption|right; lia].
      + pose proof (pot_snoc deps objs out1 o Ho Hno1) as P2.
        rewrite rev_length in P1.
        pose proof (unvisited_length deps out o) as P3. lia.
  Qed.

  Lemma outer_terminates : forall l out, incl l objs -> dclosed out ->
    topo_outer (topo_fuel deps objs) deps l out <> None.
  Proof.
    induction l as [|o l IH]; intros out Hl Hd; cbn; [discriminate|].
    assert (Hl' : incl l objs) by (intros x Hx; apply Hl; right; assumption).
    destruct (memb o out); [apply IH; assumption|].
    destruct (big_all o [] out (Hl o (or_introl eq_refl)) Hd)
      as (out1 & k & E1 & D1 & _ & _ & _ & P1).
    pose proof (pot_fuel deps objs) as PF. pose proof (pot_le_nil deps objs out) as PN.
    replace (topo_fuel deps objs) with (k + S (topo_fuel deps objs - k - 1)) at 1 by lia.
    rewrite E1. cbn [iterate]. apply IH; assumption.
  Qed.
End BigStep.

Theorem toposort_terminates : forall deps objs,
  NoDup objs -> closed_in deps objs -> ranked deps -> topological_sort deps objs <> None.
Proof.
  intros deps objs _ Hc [rank Hr]. unfold topological_sort.
  apply (outer_terminates deps objs rank Hr Hc); [apply incl_refl|intros x d []].
Qed.

(* ---------- 4. sorted input is a fixpoint ---------- *)

Lemma topo_fuel_ge2 deps objs : exists f, topo_fuel deps objs = S (S f).
Proof.
  exists (topo_fuel deps objs - 2). pose proof (pot_fuel deps objs). lia.
Qed.

Lemma outer_fixpoint deps objs f :
  NoDup objs ->
  (forall l1 o l2 d, objs = l1 ++ o :: l2 -> In d (deps o) -> In d l1) ->
  forall l2 l1, objs = l1 ++ l2 -> topo_outer (S (S f)) deps l2 l1 = Some (l1 ++ l2).
Proof.
  intros Hnd Hs. induction l2 as [|o l2 IH]; intros l1 E.
  - cbn. rewrite app_nil_r. reflexivity.
  - cbn [topo_outer].
    assert (Hno : memb o l1 = false).
    { apply memb_false. intro Hin. rewrite E in Hnd. apply NoDup_remove_2 in Hnd.
      apply Hnd. apply in_or_app. left. assumption. }
    rewrite Hno.
    rewrite iterate_pop by (apply unvisited_nil; intros d Hd; eapply Hs; eassumption).
    rewrite Hno. cbn [iterate].
    rewrite (IH (l1 ++ [o])); rewrite <- app_assoc; [reflexivity|assumption].
Qed.

Theorem toposort_fixpoint : forall deps objs,
  NoDup objs ->
  (forall l1 o l2 d, objs = l1 ++ o :: l2 -> In d (deps o) -> In d l1) ->
  topological_sort deps objs = Some objs.
Proof.
  intros deps objs Hnd Hs. unfold topological_sort.
  destruct (topo_fuel_ge2 deps objs) as [f ->].
  apply (outer_fixpoint deps objs f Hnd Hs objs []). reflexivity.
Qed.

(* ---------- 5. total correctness on acyclic input ---------- *)

Theorem toposort_perm_sorted : forall deps objs,
  NoDup objs -> closed_in deps objs -> ranked deps ->
  exists out, topological_sort deps objs = Some out /\ Permutation objs out /\
    forall o d, In o out -> In d (deps o) -> precedes d o out.
Proof.
  intros deps objs Hnd Hc Hr.
  destruct (topological_sort deps objs) as [out|] eqn:E;
    [|exfalso; exact (toposort_terminates deps objs Hnd Hc Hr E)].
  exists out. unfold topological_sort in E. split; [reflexivity|]. split.
  - eapply toposort_perm_fuel; eassumption.
  - eapply toposort_sorted_fuel; [apply ranked_irreflexive; assumption|eassumption].
Qed.

(* ---------- 6. concrete runs ---------- *)

(* diamond 10 <- {20, 30} <- 5, chain 5 <- 40 <- 7 <- 60, plus 60 also uses 30.
   Handles are not in dependency order, the input list is not sorted and the dependency
   lists are scrambled. *)
Definition ex_adj : list (node * list node) :=
  [ (5, [30; 20]); (20, [10]); (30, [10]); (40, [5]); (7, [40]); (60, [30; 7]) ].
Definition ex_objs : list node := [60; 5; 30; 7; 10; 40; 20].
Definition ex_rank (x : node) : nat :=
  match assoc x [(10, 0); (20, 1); (30, 1); (5, 2); (40, 3); (7, 4); (60, 5)] with
  | Some r => r | None => 0 end.

Lemma ex_deps_cases o d : In d (deps_of ex_adj o) ->
  In (o, d) [(5, 30); (5, 20); (20, 10); (30, 10); (40, 5); (7, 40); (60, 30); (60, 7)].
Proof.
  unfold deps_of, ex_adj. cbn [assoc].
  repeat match goal with
  | |- context [Nat.eqb o ?k] => destruct (Nat.eqb_spec o k) as [->|_]
  end; cbn; intuition (subst; auto 10).
Qed.

Example toposort_example :
  NoDup ex_objs /\ closed_in (deps_of ex_adj) ex_objs /\ ranked (deps_of ex_adj) /\
  topological_sort (deps_of ex_adj) ex_objs = Some [10; 20; 30; 5; 40; 7; 60].
Proof.
  split; [|split; [|split]].
  - apply nodupb_NoDup. vm_compute. reflexivity.
  - intros o d _ Hd. apply ex_deps_cases in Hd. cbn in Hd.
    repeat (destruct Hd as [Hd|Hd]; [inversion Hd; subst; cbn; tauto|]). destruct Hd.
  - exists ex_rank. intros o d Hd. apply ex_deps_cases in Hd. cbn in Hd.
    repeat (destruct Hd as [Hd|Hd]; [inversion Hd; subst; vm_compute; lia|]). destruct Hd.
  - vm_compute. reflexivity.
Qed.

(* a dependency cycle makes the Python loop spin for ever; the model runs out of fuel *)
Example toposort_cycle_diverges :
  topological_sort (deps_of [(1, [2]); (2, [1])]) [1; 2] = None.
Proof. vm_compute. reflexivity. Qed.

Print Assumptions toposort_sorted_fuel.
Print Assumptions toposort_perm_fuel.
Print Assumptions toposort_terminates.
Print Assumptions toposort_fixpoint.
Print Assumptions toposort_perm_sorted.
