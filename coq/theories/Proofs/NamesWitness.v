(* C17 (engine names): the statement at full strength, the part of it that holds, and the witnesses
   (computed with vm_compute on the model) that refute the rest. *)
From Coq Require Import List Arith NArith Bool Lia.
From SV Require Import Base.Base IR.State IR.NS Proofs.Ident Names.Edifify
  Proofs.NamesDec Proofs.NamesSuffix Proofs.NamesFuel Proofs.NamesChars Proofs.NamesAssign Proofs.NamesLegal.
Import ListNotations.

(* a scope as the writer finds it in a netlist that was built or read under the default naming
   policy: non-empty ASCII names, no identifier yet *)
Definition fresh_scope (objs : list sib) : Prop :=
  Forall (fun e => s_name e <> [] /\ Forall (fun c => (c < 128)%N) (s_name e) /\
                   s_ident e = None /\ s_rename e = false) objs.

(* what C17 promises about one scope after the writer's pre-pass; the requirement on each
   identifier is a parameter so that the part that holds for every scope can be stated too *)
Definition c17_post_with (L : str -> Prop) (objs out : list sib) : Prop :=
  length out = length objs /\
  (forall j, name_at out j = name_at objs j) /\
  (forall j, j < length objs ->
     exists r, ident_at out j = Some r /\ L r /\
               (rename_at out j = Some true <-> Some r <> name_at objs j)) /\
  idents_pairwise (fun a b => lower a <> lower b) out /\
  (forall j j' r n, j <> j' -> ident_at out j = Some r -> name_at objs j' = Some n -> lower n <> lower r).

Definition c17_post := c17_post_with legal_identifier.

Definition c17_statement : Prop :=
  forall objs, fresh_scope objs -> exists out, assign_all objs = Ok out /\ c17_post objs out.

Lemma fresh_scope_at objs j e : fresh_scope objs -> nth_error objs j = Some e ->
  s_name e <> [] /\ s_ident e = None /\ s_rename e = false.
Proof.
  intros H He. unfold fresh_scope in H. rewrite Forall_forall in H.
  destruct (H e (nth_error_In _ _ He)) as (H1 & _ & H2 & H3). auto.
Qed.

Lemma c17_post_generic (L : str -> Prop) objs :
  fresh_scope objs ->
  (forall j e objs' r, nth_error objs j = Some e -> length objs' = length objs ->
                       make_valid (fuel_for objs') j objs' (s_name e) = Ok r -> L r) ->
  exists out, assign_all objs = Ok out /\ c17_post_with L objs out.
Proof.
  intros Hf HL.
  assert (Hne : names_nonempty objs).
  { intros j n Hn. unfold name_at in Hn. destruct (nth_error objs j) as [e|] eqn:E; [|discriminate].
    inversion Hn; subst. apply (fresh_scope_at _ _ _ Hf E). }
  destruct (assign_all_total _ Hne) as [out Hout]. exists out. split; [exact Hout|].
  destruct (assign_all_names _ _ Hout) as [Hl Hn]. pose proof (assign_all_post _ _ Hout) as Hpost.
  split; [exact Hl|]. split; [exact Hn|]. split; [|split].
  - intros j Hj. specialize (Hpost j). unfold post_at in Hpost.
    destruct (nth_error objs j) as [e|] eqn:E; [|apply nth_error_None in E; lia].
    destruct (fresh_scope_at _ _ _ Hf E) as (_ & Hi & Hr). rewrite Hi in Hpost.
    destruct Hpost as (r & Hr' & _ & (objs' & Hl' & Hm) & _). exists r.
    unfold ident_at, rename_at, name_at. rewrite Hr', E. cbn. split; [reflexivity|]. split.
    + eapply HL; eauto.
    + rewrite Hr. destruct (str_eqb r (s_name e)) eqn:Es.
      * apply str_eqb_spec in Es. subst. split; [discriminate|congruence].
      * split; [intros _ Hc; inversion Hc; subst; rewrite str_eqb_refl in Es; discriminate|reflexivity].
  - eapply assign_all_distinct; [|exact Hout].
    intros j1 j2 v1 v2 _ H1 _. unfold ident_at in H1. destruct (nth_error objs j1) as [e|] eqn:E; [|discriminate].
    destruct (fresh_scope_at _ _ _ Hf E) as (_ & Hi & _). congruence.
  - intros j j' r n Hjj Hid Hnm. specialize (Hpost j). unfold post_at in Hpost. unfold ident_at in Hid.
    destruct (nth_error objs j) as [e|] eqn:E.
    + destruct (fresh_scope_at _ _ _ Hf E) as (_ & Hi & _). rewrite Hi in Hpost.
      destruct Hpost as (r' & Hr' & _ & _ & Hdiff). rewrite Hr' in Hid. cbn in Hid. inversion Hid; subst r'.
      eapply Hdiff; [|exact Hnm]. congruence.
    + assert (length out <= j) by (rewrite Hl; apply nth_error_None; exact E).
      apply nth_error_None in H. rewrite H in Hid. discriminate.
Qed.

(* holds for EVERY fresh scope: everything C17 asks for, with "legal" weakened to "consists of
   legal characters" ([made]; by made_legal_iff only the length, or a leading '_', can be wrong) *)
Theorem c17_all_but_length objs :
  fresh_scope objs -> exists out, assign_all objs = Ok out /\ c17_post_with made objs out.
Proof.
  intro Hf. apply c17_post_generic; [exact Hf|]. intros j e objs' r _ _ Hm. eapply make_valid_made. exact Hm.
Qed.

(* the full conclusion when names are short enough that nothing is cut *)
Theorem c17_partial objs D :
  fresh_scope objs ->
  (forall j n, name_at objs j = Some n -> length n + 8 + S D <= 255) ->
  (N.of_nat (fuel_for objs) < 10 ^ N.of_nat (S D))%N ->
  exists out, assign_all objs = Ok out /\ c17_post objs out.
Proof.
  intros Hf Hlen Hfuel. apply c17_post_generic; [exact Hf|]. intros j e objs' r E Hl' Hm.
  assert (Hfe : fuel_for objs' = fuel_for objs) by (unfold fuel_for; rewrite Hl'; reflexivity).
  rewrite Hfe in Hm. eapply (make_valid_legal_short _ D); [|exact Hfuel|exact Hm].
  apply (Hlen j). unfold name_at. rewrite E. reflexivity.
Qed.

(* ---------- witnesses ---------- *)

Definition fresh (n : str) : sib := mkSib n None false.

(* "Ab" and "AB" (the witness that refuted C17 before the repair cd45bba): the comparison now
   ignores case, both get a suffix *)
Definition w_case : list sib := [fresh [65; 98]%N; fresh [65; 66]%N].

Example w_case_result :
  assign_all w_case = Ok [mkSib [65; 98]%N (Some ([97; 98]%N ++ str_sdn ++ [49; 95]%N)) true;
                          mkSib [65; 66]%N (Some ([97; 98]%N ++ str_sdn ++ [50; 95]%N)) true].
Proof. vm_compute. reflexivity. Qed.

Lemma Forall_repeat {A} (P : A -> Prop) x n : P x -> Forall P (repeat x n).
Proof. intro H. apply Forall_forall. intros y Hy. apply repeat_spec in Hy. subst. exact H. Qed.

(* a name of 256 letters: _length_good wants len < 256 but _length_fix cuts to 256, one more than an
   identifier without '&' may have; same when a suffix pushes a shorter name over the limit *)
Definition w_len : list sib := [fresh (repeat 97%N 256)].
Definition w_len2 : list sib := [fresh (repeat 97%N 250); fresh (repeat 97%N 250)].

Lemma w_len_fresh : fresh_scope w_len.
Proof.
  constructor; [|constructor]. unfold fresh. cbn [s_name s_ident s_rename].
  repeat split; [discriminate|]. apply Forall_repeat. reflexivity.
Qed.

Theorem c17_refuted_by_length :
  fresh_scope w_len /\
  exists r, assign_all w_len = Ok [mkSib (repeat 97%N 256) (Some r) false] /\
            length r = 256 /\ ~ legal_identifier r.
Proof.
  split; [exact w_len_fresh|]. exists (repeat 97%N 256). split; [vm_compute; reflexivity|].
  split; [apply repeat_length|]. intro L. apply check_edif_identifier_spec in L. vm_compute in L. discriminate.
Qed.

Theorem c17_refuted : ~ c17_statement.
Proof.
  intro H. destruct (H w_len w_len_fresh) as (out & Hout & _ & _ & Hleg & _).
  destruct c17_refuted_by_length as (_ & r & Hr & _ & Hnl). rewrite Hr in Hout. inversion Hout; subst out.
  destruct (Hleg 0) as (r' & Hid & Hl & _); [cbn; lia|]. cbn in Hid. inversion Hid; subst r'. exact (Hnl Hl).
Qed.

Theorem c17_refuted_by_suffix_length :
  exists out, assign_all w_len2 = Ok out /\ all_assigned_legal out = false /\
              forallb (fun e => match s_ident e with Some r => Nat.eqb (length r) 256 | None => false end) out = true.
Proof. eexists. split; [vm_compute; reflexivity|]. split; vm_compute; reflexivity. Qed.

(* a name that already ends in _sdn_<250 digits>_ : the slice bound 256 - len(suffix) is 0, the
   whole prefix is dropped, and the identifier begins with '_' *)
Definition w_giant : str := [97%N] ++ str_sdn ++ repeat 57%N 250 ++ [95%N].

Theorem c17_refuted_by_giant_suffix :
  exists r, make_valid (fuel_for [fresh w_giant]) 0 [fresh w_giant] w_giant = Ok r /\
            hd 0%N r = 95%N /\ check_edif_identifier r = false.
Proof. eexists. split; [vm_compute; reflexivity|]. split; vm_compute; reflexivity. Qed.

(* fuel: the bound "siblings + 2" of the design note is not enough once siblings carry both a name
   and an identifier of the form a_sdn_N_ (8 forbidden strings for 5 siblings) *)
Definition a_sdn (d : N) : str := [97%N] ++ str_sdn ++ [d; 95%N].
Definition w_fuel : list sib :=
  [fresh [97%N];
   mkSib [97%N] (Some (a_sdn 49)) false; mkSib (a_sdn 50) (Some (a_sdn 51)) false;
   mkSib (a_sdn 52) (Some (a_sdn 53)) false; mkSib (a_sdn 54) (Some (a_sdn 55)) false].

Example fuel_siblings_plus_2_not_enough :
  make_valid (length w_fuel + 2) 0 w_fuel [97%N] = OutOfFuel /\
  make_valid (fuel_for w_fuel) 0 w_fuel [97%N] = Ok (a_sdn 56).
Proof. split; vm_compute; reflexivity. Qed.

(* the hypotheses of c17_partial are satisfiable: "a-b", "a_b", "A_B", "1x" in one scope *)
Definition w_ok : list sib :=
  [fresh [97; 45; 98]%N; fresh [97; 95; 98]%N; fresh [65; 95; 66]%N; fresh [49; 120]%N].

Example c17_partial_applies :
  fresh_scope w_ok /\
  (forall j n, name_at w_ok j = Some n -> length n + 8 + 2 <= 255) /\
  (N.of_nat (fuel_for w_ok) < 10 ^ N.of_nat 2)%N /\
  assign_all w_ok =
    Ok [mkSib [97; 45; 98]%N (Some ([97; 95; 98]%N ++ str_sdn ++ [49; 95]%N)) true;
        mkSib [97; 95; 98]%N (Some ([97; 95; 98]%N ++ str_sdn ++ [50; 95]%N)) true;
        mkSib [65; 95; 66]%N (Some ([97; 95; 98]%N ++ str_sdn ++ [51; 95]%N)) true;
        mkSib [49; 120]%N (Some [38; 49; 120]%N) true].
Proof.
  split; [repeat constructor; discriminate|]. split; [|split; [reflexivity|vm_compute; reflexivity]].
  intros j n H. unfold name_at in H. destruct (nth_error w_ok j) as [e|] eqn:E; [|discriminate].
  inversion H; subst n. apply nth_error_In in E. cbn in E.
  destruct E as [<-|[<-|[<-|[<-|[]]]]]; cbn; lia.
Qed.

Example fuel_theorem_applies :
  2 * length w_fuel + 2 <= fuel_for w_fuel /\ make_valid (fuel_for w_fuel) 0 w_fuel [97%N] <> OutOfFuel.
Proof. split; [unfold fuel_for; lia|vm_compute; discriminate]. Qed.
