(* EBLIF engine, connectivity clause of C18: the reading [run_g] of the section of a model is what
   BlifSpec says about the statements of that section (body_of): spec_attach, spec_conns,
   has_blackbox, named_in, model_names.  Lists only; no reader here. *)
From Coq Require Import List Arith NArith Bool Lia Permutation.
From SV Require Import Base.Base Fmt.Blif Fmt.BlifRead Fmt.BlifSpec
  Proofs.BlifBase Proofs.BlifNetsBase Proofs.BlifNetsRel.
Import ListNotations.

Lemma in_toks_eq l : forall st,
  fold_left in_tok l st =
  mkNst (n_idx st) (n_ins st ++ map tok_port l) (n_inn st ++ flat_map tok_named l) (n_outn st)
        (n_att st ++ flat_map att_in l) (n_conns st) (n_bb st) (n_lib st) (n_def st).
Proof.
  induction l as [|t l IH]; intro st; cbn [fold_left map flat_map].
  - destruct st. cbn. rewrite !app_nil_r. reflexivity.
  - rewrite IH. unfold in_tok. cbn [n_idx n_ins n_inn n_outn n_att n_conns n_bb n_lib n_def].
    rewrite <- !app_assoc. reflexivity.
Qed.

Lemma out_toks_eq ins l : forall st,
  fold_left (out_tok ins) l st =
  mkNst (n_idx st) (n_ins st) (n_inn st) (n_outn st ++ flat_map tok_named l)
        (n_att st ++ flat_map (fun t => if out_keep ins t then att_in t else []) l)
        (n_conns st) (n_bb st) (n_lib st) (n_def st).
Proof.
  induction l as [|t l IH]; intro st; cbn [fold_left flat_map].
  - destruct st. cbn. rewrite !app_nil_r. reflexivity.
  - rewrite IH. unfold out_tok. cbn [n_idx n_ins n_inn n_outn n_att n_conns n_bb n_lib n_def].
    rewrite <- !app_assoc. reflexivity.
Qed.

Lemma flat_map_filter {A B} (f : A -> list B) (g : A -> bool) l :
  flat_map f (filter g l) = flat_map (fun t => if g t then f t else []) l.
Proof. induction l as [|x l IH]; cbn; [reflexivity|]. destruct (g x); cbn; rewrite IH; reflexivity. Qed.

(* ---------- attachments ---------- *)
Definition Fatt (st : nst) (b : list stmt) := n_att st ++ spec_attach (n_idx st) (n_ins st) b.

Lemma Fatt_step x st b : Fatt (step_n x st) b = Fatt st (x :: b).
Proof.
  unfold Fatt. destruct x; cbn [step_n spec_attach]; try reflexivity.
  - rewrite in_toks_eq. cbn [n_idx n_ins n_att]. rewrite <- app_assoc. reflexivity.
  - rewrite out_toks_eq. cbn [n_idx n_ins n_att]. rewrite <- app_assoc. unfold attach_ports.
    rewrite flat_map_filter. reflexivity.
  - cbn [add_inst n_idx n_ins n_att]. rewrite <- app_assoc. reflexivity.
  - cbn [add_inst n_idx n_ins n_att]. rewrite <- app_assoc. reflexivity.
  - cbn [add_inst n_idx n_ins n_att]. rewrite <- app_assoc. reflexivity.
  - destruct (nb_of a), (nb_of b0); reflexivity.
Qed.

Lemma body_of_cons nm cur x r :
  body_of nm cur (x :: r) =
  match x with
  | SModel c => body_of nm c r
  | SEnd | SComment _ => body_of nm cur r
  | _ => (if str_eqb cur nm then [x] else []) ++ body_of nm cur r
  end.
Proof. destruct x; reflexivity. Qed.

(* a quantity [F st body] that one statement moves from the body into the state is, after the
   whole run, the quantity of the start state and the whole section *)
Lemma run_transfer {T} (F : nst -> list stmt -> T) nm :
  (forall x st b, F (step_n x st) b = F st (x :: b)) ->
  (forall st b, F (set_def st) b = F st b) ->
  (forall st b c, F st (SModel c :: b) = F st b) ->
  (forall st b, F st (SEnd :: b) = F st b) ->
  (forall st b t, F st (SComment t :: b) = F st b) ->
  forall ss cur st, F (run_g nm cur ss st) [] = F st (body_of nm cur ss).
Proof.
  intros Hs Hd Hm He Hc. induction ss as [|x r IH]; intros cur st; cbn [run_g]; [reflexivity|].
  rewrite IH, body_of_cons. rewrite (str_eqb_sym cur nm).
  destruct x; cbn [step_g next_c];
    try (destruct (str_eqb nm cur); cbn [app]; [apply Hs|reflexivity]).
  - reflexivity.
  - destruct (str_eqb nm nm0); [apply Hd|reflexivity].
  - destruct (str_eqb nm cur); [|reflexivity]. rewrite Hs. apply He.
Qed.

Lemma run_att nm ss cur st :
  n_att (run_g nm cur ss st) = n_att st ++ spec_attach (n_idx st) (n_ins st) (body_of nm cur ss).
Proof.
  pose proof (run_transfer Fatt nm Fatt_step) as H. unfold Fatt in H.
  rewrite <- H; try reflexivity. cbn [spec_attach]. rewrite app_nil_r. reflexivity.
Qed.

(* ---------- .conn ---------- *)
Definition Fconn (st : nst) (b : list stmt) := n_conns st ++ spec_conns b.

Lemma Fconn_step x st b : Fconn (step_n x st) b = Fconn st (x :: b).
Proof.
  unfold Fconn. destruct x; cbn [step_n spec_conns]; try reflexivity.
  - rewrite in_toks_eq. reflexivity.
  - rewrite out_toks_eq. reflexivity.
  - destruct (nb_of a), (nb_of b0); try reflexivity. cbn [n_conns]. rewrite <- app_assoc. reflexivity.
Qed.

Lemma run_conns nm ss cur st : n_conns (run_g nm cur ss st) = n_conns st ++ spec_conns (body_of nm cur ss).
Proof.
  pose proof (run_transfer Fconn nm Fconn_step) as H. unfold Fconn in H.
  rewrite <- H; try reflexivity. cbn [spec_conns]. rewrite app_nil_r. reflexivity.
Qed.

(* ---------- .blackbox ---------- *)
Definition Fbb (st : nst) (b : list stmt) := n_bb st || has_blackbox b.

Lemma Fbb_step x st b : Fbb (step_n x st) b = Fbb st (x :: b).
Proof.
  unfold Fbb, has_blackbox. destruct x; cbn [step_n existsb orb]; try reflexivity.
  - rewrite in_toks_eq. reflexivity.
  - rewrite out_toks_eq. reflexivity.
  - destruct (nb_of a), (nb_of b0); reflexivity.
  - cbn [n_bb]. rewrite orb_true_r. reflexivity.
Qed.

Lemma run_bb nm ss cur st : n_bb (run_g nm cur ss st) = n_bb st || has_blackbox (body_of nm cur ss).
Proof.
  pose proof (run_transfer Fbb nm Fbb_step) as H. unfold Fbb in H.
  rewrite <- H; try reflexivity. cbn. rewrite orb_false_r. reflexivity.
Qed.

(* ---------- port names of .inputs / .outputs ---------- *)
Lemma mem_named p l :
  mem p (flat_map tok_named l) =
  existsb (fun t => match nb_of t with Some (q, _) => str_eqb p q | None => false end) l.
Proof.
  unfold mem. induction l as [|t l IH]; cbn [flat_map existsb]; [reflexivity|].
  rewrite existsb_app, IH. unfold tok_named. destruct (nb_of t) as [[q i]|]; cbn; [rewrite orb_false_r|]; reflexivity.
Qed.

Definition Fin (p : str) (st : nst) (b : list stmt) := mem p (n_inn st) || named_in true b p.
Definition Fout (p : str) (st : nst) (b : list stmt) := mem p (n_outn st) || named_in false b p.

Lemma Fin_step p x st b : Fin p (step_n x st) b = Fin p st (x :: b).
Proof.
  unfold Fin, named_in. destruct x; cbn [step_n existsb orb]; try reflexivity.
  - rewrite in_toks_eq. cbn [n_inn]. unfold mem at 1. rewrite existsb_app. fold (mem p (n_inn st)).
    fold (mem p (flat_map tok_named l)). rewrite mem_named, orb_assoc. reflexivity.
  - rewrite out_toks_eq. reflexivity.
  - destruct (nb_of a), (nb_of b0); reflexivity.
Qed.

Lemma Fout_step p x st b : Fout p (step_n x st) b = Fout p st (x :: b).
Proof.
  unfold Fout, named_in. destruct x; cbn [step_n existsb orb]; try reflexivity.
  - rewrite in_toks_eq. reflexivity.
  - rewrite out_toks_eq. cbn [n_outn]. unfold mem at 1. rewrite existsb_app. fold (mem p (n_outn st)).
    fold (mem p (flat_map tok_named l)). rewrite mem_named, orb_assoc. reflexivity.
  - destruct (nb_of a), (nb_of b0); reflexivity.
Qed.

Lemma run_inn nm ss cur st p :
  mem p (n_inn (run_g nm cur ss st)) = mem p (n_inn st) || named_in true (body_of nm cur ss) p.
Proof.
  pose proof (run_transfer (Fin p) nm (Fin_step p)) as H. unfold Fin in H.
  rewrite <- H; try reflexivity. cbn. rewrite orb_false_r. reflexivity.
Qed.

Lemma run_outn nm ss cur st p :
  mem p (n_outn (run_g nm cur ss st)) = mem p (n_outn st) || named_in false (body_of nm cur ss) p.
Proof.
  pose proof (run_transfer (Fout p) nm (Fout_step p)) as H. unfold Fout in H.
  rewrite <- H; try reflexivity. cbn. rewrite orb_false_r. reflexivity.
Qed.

Lemma spec_dir_dirf body p : spec_dir body p = dirf (named_in true body p) (named_in false body p).
Proof. unfold spec_dir, dirf. destruct (named_in true body p), (named_in false body p); reflexivity. Qed.

(* ---------- declared ---------- *)
Lemma n_def_step x st : n_def (step_n x st) = n_def st.
Proof.
  destruct x; cbn [step_n]; try reflexivity.
  - rewrite in_toks_eq. reflexivity.
  - rewrite out_toks_eq. reflexivity.
  - destruct (nb_of a), (nb_of b); reflexivity.
Qed.

Lemma run_def_mono nm ss : forall cur st, n_def st = true -> n_def (run_g nm cur ss st) = true.
Proof.
  induction ss as [|x r IH]; intros cur st H; cbn [run_g]; [exact H|]. apply IH.
  destruct x; cbn [step_g]; try (destruct (str_eqb nm cur); [rewrite n_def_step|]; exact H).
  - exact H.
  - destruct (str_eqb nm nm0); [reflexivity|exact H].
Qed.

Lemma run_def nm ss : forall cur st, In nm (model_names ss) -> n_def (run_g nm cur ss st) = true.
Proof.
  induction ss as [|x r IH]; intros cur st Hin; [destruct Hin|]. cbn [run_g].
  destruct x; cbn [model_names] in Hin; try (apply IH; exact Hin).
  destruct Hin as [->|Hin]; [|apply IH; exact Hin].
  apply run_def_mono. cbn [step_g]. rewrite str_eqb_refl. reflexivity.
Qed.

(* a model that is never declared is never current: its reading stays empty *)
Lemma run_undeclared nm ss : forall cur st, ~ In nm (model_names ss) -> nm <> cur -> run_g nm cur ss st = st.
Proof.
  induction ss as [|x r IH]; intros cur st Hn Hc; cbn [run_g]; [reflexivity|].
  assert (E : str_eqb nm cur = false) by (apply str_eqb_false; exact Hc).
  destruct x; cbn [step_g next_c model_names] in *; rewrite ?E; try (apply IH; assumption).
  assert (E2 : str_eqb nm nm0 = false) by (apply str_eqb_false; intro; apply Hn; left; congruence).
  rewrite E2. apply IH; [intro; apply Hn; right; assumption|apply str_eqb_false; exact E2].
Qed.
