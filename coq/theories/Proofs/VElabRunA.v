(* Engine `verilog`, document-level reader: the assign clause on the final value. An assign in any module m, followed in
   the body by items that are not port declarations, no later module re-declaring m: the value shows one assignment
   whose pin k carries bit k (from the low end) of the left side and bit k of the right side. *)
From Coq Require Import List ZArith Bool Arith Lia Permutation.
From SV Require Import Base.Base Fmt.VBits Fmt.VTop Fmt.VDoc Fmt.VElab Fmt.VSpec Fmt.VSem
  Proofs.VerilogLists Proofs.VerilogGrow Proofs.VElabBase Proofs.VElabInv Proofs.VElabWf Proofs.VElabExpr Proofs.VElabConn
  Proofs.VElabAssign Proofs.VElabNets Proofs.VElabTop Proofs.VElabStable Proofs.VElabVis Proofs.VElabFrame Proofs.VElabFrameX
  Proofs.VElabDoc Proofs.VElabRun Proofs.VElabRunX.
Import ListNotations.
Open Scope Z_scope.

(* instance ii of d is an assignment of width w whose pins carry the first w bits of L (pins of o) and R (pins of i) *)
Definition ashown (d : edef) (ii w : nat) (L R : list bitref) : Prop :=
  (exists i, nth_error (ed_insts d) ii = Some i /\ ei_ref i = RAssign w) /\ (w <= length L)%nat /\ (w <= length R)%nat /\
  forall k, (k < w)%nat -> pin_label d (POuter ii 1 k) = nth_error L k /\ pin_label d (POuter ii 0 k) = nth_error R k.

Lemma pin_label_lmono d d' p r : lmono d d' -> DInv d' -> pin_label d p = Some r -> pin_label d' p = Some r.
Proof.
  intros M D' H. unfold pin_label in *. destruct (pin_wire p d) as [w|] eqn:P; [|discriminate].
  apply pin_wire_some in P. destruct (lm_conn _ _ M) as (new & E).
  assert (P' : pin_wire p d' = Some w) by (apply pin_wire_in_nodup; [apply (di_conn _ D')|rewrite E; apply in_app_iff; left; exact P]).
  rewrite P'. apply (lm_cables _ _ M). exact H.
Qed.

Lemma ashown_lmono d d' ii w L R : lmono d d' -> DInv d' -> ashown d ii w L R -> ashown d' ii w L R.
Proof.
  intros M D' ((i & Hi & Hr) & HL & HR & Hk). split; [|split; [exact HL|split; [exact HR|]]].
  - destruct (lm_insts _ _ M ii i Hi) as (i' & Hi' & R' & _). exists i'. split; [exact Hi'|congruence].
  - intros k Hlt. destruct (Hk k Hlt) as [A B].
    destruct (nth_error L k) as [x|] eqn:EL; [|apply nth_error_None in EL; lia].
    destruct (nth_error R k) as [y|] eqn:ER; [|apply nth_error_None in ER; lia].
    split; eapply pin_label_lmono; eassumption.
Qed.

Lemma ashown_assigns d ii w L R : ashown d ii w L R ->
  In (map (fun k => (nth_error L k, nth_error R k)) (seq 0 w)) (def_assigns d).
Proof.
  intros ((i & Hi & Hr) & _ & _ & Hk). unfold def_assigns. apply in_flat_map. exists (ii, i). split; [apply in_number; exact Hi|].
  cbn [fst snd]. rewrite Hr. left. apply map_ext_in. intros k Hin. apply in_seq in Hin. destruct (Hk k ltac:(lia)) as [A B]. rewrite A, B. reflexivity.
Qed.

Lemma post_modules_ashown post : forall s s' cur ii w L R mname, Inv s -> (cur < length (st_defs s))%nat ->
  ed_name (get_def cur s) = mname -> Forall (fun m2 => vm_name m2 <> mname) post ->
  ashown (get_def cur s) ii w L R -> fold_res module_decl post s = Ok s' ->
  ashown (get_def cur s') ii w L R /\ Inv s'.
Proof.
  induction post as [|m2 post IH]; intros s s' cur ii w L R mname I Hc Nm F Sh H; cbn in H.
  - inversion H; subst. auto.
  - apply bind_ok in H. destruct H as (s1 & H1 & H). inversion F as [|? ? F1 F']; subst.
    destruct (module_decl_LSX m2 s s1 H1 (inv_alld s I)) as [LX A1].
    assert (C1 : cur <> snd (get_blackbox (vm_name m2) s)).
    { intro E. apply F1. symmetry. rewrite <- (get_blackbox_idx (vm_name m2) s cur Hc E). reflexivity. }
    destruct (lx_names _ _ _ LX) as (ex & N). destruct (names_prefix_get s s1 ex cur N Hc) as [Hc1 Nm1].
    eapply (IH s1 s' cur ii w L R (ed_name (get_def cur s))); try eassumption.
    + eapply module_decl_inv; eassumption.
    + eapply ashown_lmono; [apply (lS_mono _ _ (lx_defs _ _ _ LX cur (fun E => C1 (eq_sym E))))|apply A1|exact Sh].
Qed.

Theorem module_assign pre m post before lhs rhs after sf :
  run (pre ++ m :: post) = Ok sf -> vm_cell m = false ->
  vm_body m = before ++ IAssign lhs rhs :: after -> Forall not_port_decl after ->
  Forall (fun m2 => vm_name m2 <> vm_name m) post ->
  exists s0 s5 cur s,
    fold_res module_decl pre st_init = Ok s0 /\ module_open m s0 = Ok (s5, cur) /\ fold_res (body_item cur) before s5 = Ok s /\
    Inv s /\ VInv s /\
    (datom_typed (crange (get_def cur s)) lhs -> datom_typed (crange (get_def cur s)) rhs ->
     let lb := datom_bits (crange (get_def cur s)) lhs in let rb := datom_bits (crange (get_def cur s)) rhs in
     (cur < length (st_defs sf))%nat /\
     In (map (fun k => (nth_error lb k, nth_error rb k)) (seq 0 (Nat.min (length lb) (length rb)))) (def_assigns (get_def cur sf))).
Proof.
  unfold run. fold st_init. intros H C B NP FP. apply bind_ok in H. destruct H as (s1b & H1 & H2).
  destruct (fold_res_app _ _ _ _ _ H1) as (s0 & Hpre & Hm). cbn in Hm. apply bind_ok in Hm. destruct Hm as (s1 & Hm & Hpost).
  destruct st_init_inv as [Ii VIi]. destruct (modules_inv pre _ _ Ii VIi Hpre) as [I0 VI0].
  destruct (module_decl_split m s0 s1 C Hm) as (s5 & cur & s6 & Ho & Hb & L6).
  destruct (module_open_inv m s0 s5 cur I0 VI0 Ho) as (I5 & VI5 & Hc5 & N5).
  rewrite B in Hb. destruct (fold_res_app _ _ _ _ _ Hb) as (s & Hbef & Hrest). cbn in Hrest.
  apply bind_ok in Hrest. destruct Hrest as (sA & HA & Haft).
  destruct (body_prefix_inv cur before s5 s I5 VI5 Hc5 Hbef) as (I & VI & Hc & N).
  exists s0, s5, cur, s. split; [exact Hpre|]. split; [exact Ho|]. split; [exact Hbef|]. split; [exact I|]. split; [exact VI|].
  intros Tl Tr. cbv zeta.
  set (lb := datom_bits (crange (get_def cur s)) lhs). set (rb := datom_bits (crange (get_def cur s)) rhs).
  destruct (body_item_inv cur (IAssign lhs rhs) s sA HA I Hc) as [IA LA].
  cbn [body_item] in HA. apply bind_ok in HA. destruct HA as (sa & Hl & HA). inversion HA; subst sA. clear HA.
  unfold lift in Hl. apply bind_ok in Hl. destruct Hl as (d' & Hd & Hl). inversion Hl; subst sa. clear Hl.
  destruct (assign_item_spec lhs rhs _ _ _ (get_def_dinv cur s I) Tl Tr Hd) as (d2 & new & Ce & Ed & Hnew & Hpins).
  cbv zeta in Hpins, Ed. fold lb rb in Hpins, Ed.
  set (w := Nat.min (length lb) (length rb)) in *. set (ii := length (ed_insts (get_def cur s))) in *.
  set (sA := set_acount (put_def cur d' s) (Datatypes.S (st_acount (put_def cur d' s)))) in *.
  assert (GA : get_def cur sA = d') by (change (get_def cur sA) with (get_def cur (put_def cur d' s)); apply get_put_same; exact Hc).
  assert (ShA : ashown (get_def cur sA) ii w lb rb).
  { rewrite GA. split; [|split; [unfold w; lia|split; [unfold w; lia|exact Hpins]]].
    eexists. split; [rewrite Ed; cbn [ed_insts set_conn set_insts]; apply nth_error_app_last|reflexivity]. }
  assert (LA1 : LS sA s1) by (eapply LS_trans; [eapply body_LS; [exact NP|exact Haft]|exact L6]).
  destruct (LA1 (inv_alld sA IA)) as [Ls1 A1].
  assert (Sh1 : ashown (get_def cur s1) ii w lb rb) by (eapply ashown_lmono; [apply (ls_defs _ _ Ls1 cur)|apply A1|exact ShA]).
  assert (I1 : Inv s1) by (eapply module_decl_inv; eassumption).
  destruct (ls_names _ _ Ls1) as (ex1 & N1).
  assert (HcA : (cur < length (st_defs sA))%nat) by lia.
  destruct (names_prefix_get sA s1 ex1 cur N1 HcA) as [Hc1 Nm1].
  assert (NmA : ed_name (get_def cur sA) = vm_name m).
  { rewrite GA, Ed. cbn [ed_name set_conn set_insts]. rewrite <- N5, <- N.
    destruct (cables_ext_fields _ _ Ce) as (En & _). exact En. }
  destruct (post_modules_ashown post s1 s1b cur ii w lb rb (vm_name m) I1 Hc1 ltac:(congruence) FP Sh1 Hpost) as (Shb & Ib).
  destruct (run_tail_LS s1b sf H2 (inv_alld s1b Ib)) as [Lsf Af].
  assert (Shf : ashown (get_def cur sf) ii w lb rb) by (eapply ashown_lmono; [apply (ls_defs _ _ Lsf cur)|apply Af|exact Shb]).
  split; [|exact (ashown_assigns _ ii w lb rb Shf)].
  destruct Shf as ((i0 & Hi0 & _) & _). destruct (lt_dec cur (length (st_defs sf))) as [Hl|Hl]; [exact Hl|exfalso].
  unfold get_def in Hi0. rewrite nth_overflow in Hi0 by lia. cbn in Hi0. destruct ii; discriminate.
Qed.

Theorem module_assign_value pre m post before lhs rhs after n :
  elab (pre ++ m :: post) = Ok n -> vm_cell m = false ->
  vm_body m = before ++ IAssign lhs rhs :: after -> Forall not_port_decl after ->
  Forall (fun m2 => vm_name m2 <> vm_name m) post ->
  exists s0 s5 cur s,
    fold_res module_decl pre st_init = Ok s0 /\ module_open m s0 = Ok (s5, cur) /\ fold_res (body_item cur) before s5 = Ok s /\
    Inv s /\ VInv s /\
    (datom_typed (crange (get_def cur s)) lhs -> datom_typed (crange (get_def cur s)) rhs ->
     let lb := datom_bits (crange (get_def cur s)) lhs in let rb := datom_bits (crange (get_def cur s)) rhs in
     exists d, nth_error (nv_defs n) cur = Some d /\
       In (map (fun k => (nth_error lb k, nth_error rb k)) (seq 0 (Nat.min (length lb) (length rb)))) (nd_assigns d)).
Proof.
  intros H C B NP FP. destruct (elab_defs _ _ H) as (sf & Hr & Hd).
  destruct (module_assign pre m post before lhs rhs after sf Hr C B NP FP) as (s0 & s5 & cur & s & E0 & E5 & Es & I & VI & K).
  exists s0, s5, cur, s. repeat (split; [assumption|]).
  intros Tl Tr. destruct (K Tl Tr) as [Hc Hin]. cbv zeta.
  exists (abs_def sf (get_def cur sf)). split; [apply Hd; exact Hc|exact Hin].
Qed.
