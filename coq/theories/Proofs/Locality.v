(* C07, independence clause: REGIONS and the LOCALITY of the editing calls.

   A region is a predicate P on identifiers.  [RClosed P s]: every link stored in an object of P
   leads to an object of P - containment (both directions), pin -> wire, wire -> pins (an outer pin
   (n, i) counts through its instance n), outer-pin table -> wires, reference set -> instances,
   netlist -> top instance - and every identifier not yet allocated belongs to P (objects created
   by calls on P join P).  The pointer instance -> definition ([iref]) is NOT required to stay
   inside: it is the documented outward link of Definition.clone / Library.clone, and the only
   thing a call does through it is update the reference set [drefs] of its target.

   [out_eq P s s']: every field of every object outside P is the same in s and s' - kind, the seven
   containers with their order, parents, wire pins, pin wire, reference, outer-pin table, top,
   is-top flag, bundle attributes, direction, data dictionary and namespace table.  Reference sets
   are the documented exception and are treated separately ([drefs_eq], under [RefIn]).

   [Loc P s s'] := RClosed P s -> out_eq P s s' /\ RClosed P s' composes along the phases of a call. *)
From Coq Require Import List Arith NArith ZArith Bool Lia.
From RecordUpdate Require Import RecordSet.
From SV Require Import Base.Base IR.State IR.NS IR.Ops Proofs.AssocX Proofs.Frame.
Import ListNotations RecordSetNotations.

Definition pin_in (P : id -> Prop) (p : pin) : Prop :=
  match p with PIn i => P i | POut n _ => P n | PDet => True end.

Record out_eq (P : id -> Prop) (s s' : state) : Prop := mkOQ {
  oq_next : next s <= next s';
  oq_kind : forall x, ~ P x -> kind_of s' x = kind_of s x;
  oq_kids : forall r x, ~ P x -> kids s' r x = kids s r x;
  oq_par : forall r x, ~ P x -> par s' r x = par s r x;
  oq_wpins : forall x, ~ P x -> wpins s' x = wpins s x;
  oq_ipwire : forall x, ~ P x -> ipwire s' x = ipwire s x;
  oq_iref : forall x, ~ P x -> iref s' x = iref s x;
  oq_ipins : forall x, ~ P x -> ipins s' x = ipins s x;
  oq_top : forall x, ~ P x -> top s' x = top s x;
  oq_istop : forall x, ~ P x -> istop s' x = istop s x;
  oq_bdownto : forall x, ~ P x -> bdownto s' x = bdownto s x;
  oq_bscalar : forall x, ~ P x -> bscalar s' x = bscalar s x;
  oq_blower : forall x, ~ P x -> blower s' x = blower s x;
  oq_pdir : forall x, ~ P x -> pdir s' x = pdir s x;
  oq_data : forall x, ~ P x -> data s' x = data s x;
  oq_nstab : forall x, ~ P x -> nstab s' x = nstab s x
}.

Record RClosed (P : id -> Prop) (s : state) : Prop := mkRC {
  rc_fresh : forall x, next s <= x -> P x;
  rc_kids : forall r x c, P x -> In c (kids s r x) -> P c;
  rc_par : forall r x p, P x -> par s r x = Some p -> P p;
  rc_ipwire : forall i w, P i -> ipwire s i = Some w -> P w;
  rc_wpins : forall w p, P w -> In p (wpins s w) -> pin_in P p;
  rc_ipins : forall n i w, P n -> In (i, Some w) (ipins s n) -> P w;
  rc_drefs : forall d x, P d -> In x (drefs s d) -> P x;
  rc_top : forall n t, P n -> top s n = Some t -> P t
}.

(* two regions are separated in a state: both are closed and they share no allocated object
   (identifiers not yet allocated belong to both: whatever a later call on one side creates joins that side) *)
Definition Separated (P Q : id -> Prop) (s : state) : Prop :=
  RClosed P s /\ RClosed Q s /\ (forall x, x < next s -> P x -> Q x -> False).

(* the links as a relation, and the FOOTPRINT of an element: everything reachable from it *)
Inductive link (s : state) : id -> id -> Prop :=
| LKid r x c : In c (kids s r x) -> link s x c
| LPar r x p : par s r x = Some p -> link s x p
| LWire i w : ipwire s i = Some w -> link s i w
| LPinIn w i : In (PIn i) (wpins s w) -> link s w i
| LPinOut w n i : In (POut n i) (wpins s w) -> link s w n
| LOuter n i w : In (i, Some w) (ipins s n) -> link s n w
| LRefs d x : In x (drefs s d) -> link s d x
| LTop n t : top s n = Some t -> link s n t.

Inductive footprint (s : state) (root : id) : id -> Prop :=
| FRoot : footprint s root root
| FStep x y : footprint s root x -> link s x y -> footprint s root y.

Lemma rclosed_link P s x y : RClosed P s -> P x -> link s x y -> P y.
Proof.
  intros C Hx H. destruct H.
  - eapply (rc_kids _ _ C); eassumption.
  - eapply (rc_par _ _ C); eassumption.
  - eapply (rc_ipwire _ _ C); eassumption.
  - apply (rc_wpins _ _ C w (PIn i) Hx H).
  - apply (rc_wpins _ _ C w (POut n i) Hx H).
  - eapply (rc_ipins _ _ C); eassumption.
  - eapply (rc_drefs _ _ C); eassumption.
  - eapply (rc_top _ _ C); eassumption.
Qed.

(* a closed region contains the footprint of each of its elements *)
Lemma rclosed_footprint P s root y : RClosed P s -> P root -> footprint s root y -> P y.
Proof. intros C Hr H. induction H as [|x y _ IH L]; [exact Hr|]. apply (rclosed_link P s x y C IH L). Qed.

(* and conversely a set that contains the unallocated identifiers and is closed under [link] is a region *)
Lemma rclosed_of_link (P : id -> Prop) s :
  (forall x, next s <= x -> P x) -> (forall x y, P x -> link s x y -> P y) -> RClosed P s.
Proof.
  intros F L. constructor; [exact F| | | | | | |].
  - intros r x c Hx H. apply (L x c Hx (LKid s r x c H)).
  - intros r x p Hx H. apply (L x p Hx (LPar s r x p H)).
  - intros i w Hx H. apply (L i w Hx (LWire s i w H)).
  - intros w p Hx H. destruct p as [i|n i|]; cbn; [apply (L w i Hx (LPinIn s w i H))|apply (L w n Hx (LPinOut s w n i H))|exact I].
  - intros n i w Hx H. apply (L n w Hx (LOuter s n i w H)).
  - intros d x Hx H. apply (L d x Hx (LRefs s d x H)).
  - intros n t Hx H. apply (L n t Hx (LTop s n t H)).
Qed.

Definition Loc (P : id -> Prop) (s s' : state) : Prop := RClosed P s -> out_eq P s s' /\ RClosed P s'.

Lemma out_eq_refl P s : out_eq P s s.
Proof. constructor; intros; reflexivity || apply Nat.le_refl. Qed.

Lemma out_eq_trans P a b c : out_eq P a b -> out_eq P b c -> out_eq P a c.
Proof.
  intros H1 H2. destruct H1, H2.
  constructor; try lia; intros;
    match goal with
    | |- ?f c ?r ?x = _ => transitivity (f b r x); auto
    | |- ?f c ?x = _ => transitivity (f b x); auto
    end.
Qed.

Lemma loc_refl P s : Loc P s s.
Proof. intro C. split; [apply out_eq_refl|exact C]. Qed.

Lemma loc_trans P a b c : Loc P a b -> Loc P b c -> Loc P a c.
Proof.
  intros H1 H2 C. destruct (H1 C) as [O1 C1]. destruct (H2 C1) as [O2 C2].
  split; [eapply out_eq_trans; eassumption|exact C2].
Qed.

(* a phase that may use the closedness of the state it starts from *)
Lemma loc_use P s s' : (RClosed P s -> Loc P s s') -> Loc P s s'.
Proof. intros H C. apply (H C C). Qed.

Lemma loc_bind P s r f :
  Loc P s (fst r) -> (forall s1, Loc P s1 (fst (f s1))) -> Loc P s (fst (r >>= f)).
Proof.
  destruct r as [s1 [x|]]; cbn; intros H1 H2; [exact H1|]. eapply loc_trans; [exact H1|apply H2].
Qed.

Lemma loc_guard P b x s k : (forall s1, Loc P s1 (fst (k s1))) -> Loc P s (fst (guard b x s k)).
Proof. intro H. unfold guard. destruct b; [apply H|apply loc_refl]. Qed.

(* guard whose condition is available to the continuation *)
Lemma loc_guard_t P b x s k : (b = true -> Loc P s (fst (k s))) -> Loc P s (fst (guard b x s k)).
Proof. intro H. unfold guard. destruct b; [apply H; reflexivity|apply loc_refl]. Qed.

(* ---- the primitive writes ---- *)
Ltac oq_write :=
  constructor; cbn; intros; try reflexivity; try apply Nat.le_refl;
  unfold upd2, upd;
  repeat match goal with
         | |- context [rel_eqb ?a ?b] => destruct (rel_eqb a b)
         | |- context [Nat.eqb ?a ?b] => destruct (Nat.eqb_spec a b); [subst; contradiction|]
         end; reflexivity.

Ltac rc_case :=
  unfold upd2, upd in *;
  repeat match goal with
         | H : context [rel_eqb ?a ?b] |- _ => destruct (rel_eqb a b)
         | H : context [Nat.eqb ?a ?b] |- _ => destruct (Nat.eqb_spec a b); [subst|]
         end.

Section Writes.
Variable P : id -> Prop.

Lemma loc_emit s ev : Loc P s (emit s ev).
Proof. intros [C0 C1 C2 C3 C4 C5 C6 C7]. split; [oq_write|constructor; cbn; assumption]. Qed.

Lemma loc_set_kids s r p l : P p -> (RClosed P s -> forall c, In c l -> P c) -> Loc P s (set_kids s r p l).
Proof.
  intros Hp Hl C. specialize (Hl C). destruct C as [C0 C1 C2 C3 C4 C5 C6 C7].
  split; [oq_write|constructor; cbn; try assumption].
  intros r0 x c Hx Hc. rc_case; eauto.
Qed.

Lemma loc_set_par s r c v : P c -> (RClosed P s -> forall p, v = Some p -> P p) -> Loc P s (set_par s r c v).
Proof.
  intros Hp Hl C. specialize (Hl C). destruct C as [C0 C1 C2 C3 C4 C5 C6 C7].
  split; [oq_write|constructor; cbn; try assumption].
  intros r0 x p Hx Hc. rc_case; eauto.
Qed.

Lemma loc_set_wpins s w l : P w -> (RClosed P s -> forall p, In p l -> pin_in P p) -> Loc P s (set_wpins s w l).
Proof.
  intros Hp Hl C. specialize (Hl C). destruct C as [C0 C1 C2 C3 C4 C5 C6 C7].
  split; [oq_write|constructor; cbn; try assumption].
  intros x p Hx Hc. rc_case; eauto.
Qed.

Lemma loc_set_ipwire s i v : P i -> (RClosed P s -> forall w, v = Some w -> P w) -> Loc P s (set_ipwire s i v).
Proof.
  intros Hp Hl C. specialize (Hl C). destruct C as [C0 C1 C2 C3 C4 C5 C6 C7].
  split; [oq_write|constructor; cbn; try assumption].
  intros x w Hx Hc. rc_case; eauto.
Qed.

Lemma loc_set_iref s n v : P n -> Loc P s (set_iref s n v).
Proof.
  intros Hp C. destruct C as [C0 C1 C2 C3 C4 C5 C6 C7].
  split; [oq_write|constructor; cbn; assumption].
Qed.

Lemma loc_set_drefs s d l : (RClosed P s -> P d -> forall x, In x l -> P x) -> Loc P s (set_drefs s d l).
Proof.
  intros Hl C. specialize (Hl C). destruct C as [C0 C1 C2 C3 C4 C5 C6 C7].
  split; [oq_write|constructor; cbn; try assumption].
  intros x y Hx Hc. rc_case; eauto.
Qed.

Lemma loc_set_ipins s n l :
  P n -> (RClosed P s -> forall i w, In (i, Some w) l -> P w) -> Loc P s (set_ipins s n l).
Proof.
  intros Hp Hl C. specialize (Hl C). destruct C as [C0 C1 C2 C3 C4 C5 C6 C7].
  split; [oq_write|constructor; cbn; try assumption].
  intros x i w Hx Hc. rc_case; eauto.
Qed.

Lemma loc_set_data s e l : P e -> Loc P s (set_data s e l).
Proof.
  intros Hp C. destruct C as [C0 C1 C2 C3 C4 C5 C6 C7].
  split; [oq_write|constructor; cbn; assumption].
Qed.

Lemma loc_set_nstab s e t : P e -> Loc P s (set_nstab s e t).
Proof.
  intros Hp C. destruct C as [C0 C1 C2 C3 C4 C5 C6 C7].
  split; [oq_write|constructor; cbn; assumption].
Qed.

Lemma loc_set_top s n v : P n -> (RClosed P s -> forall t, v = Some t -> P t) -> Loc P s (s <| top ::= fun f => upd f n v |>).
Proof.
  intros Hp Hl C. specialize (Hl C). destruct C as [C0 C1 C2 C3 C4 C5 C6 C7].
  split; [oq_write|constructor; cbn; try assumption].
  intros x t Hx Hc. rc_case; eauto.
Qed.

Lemma loc_set_istop s t v : P t -> Loc P s (s <| istop ::= fun f => upd f t v |>).
Proof.
  intros Hp C. destruct C as [C0 C1 C2 C3 C4 C5 C6 C7].
  split; [oq_write|constructor; cbn; assumption].
Qed.

Lemma loc_set_bdownto s b v : P b -> Loc P s (s <| bdownto ::= fun f => upd f b v |>).
Proof. intros Hp C. destruct C as [C0 C1 C2 C3 C4 C5 C6 C7]. split; [oq_write|constructor; cbn; assumption]. Qed.
Lemma loc_set_bscalar s b v : P b -> Loc P s (s <| bscalar ::= fun f => upd f b v |>).
Proof. intros Hp C. destruct C as [C0 C1 C2 C3 C4 C5 C6 C7]. split; [oq_write|constructor; cbn; assumption]. Qed.
Lemma loc_set_blower s b v : P b -> Loc P s (s <| blower ::= fun f => upd f b v |>).
Proof. intros Hp C. destruct C as [C0 C1 C2 C3 C4 C5 C6 C7]. split; [oq_write|constructor; cbn; assumption]. Qed.
Lemma loc_set_pdir s b v : P b -> Loc P s (s <| pdir ::= fun f => upd f b v |>).
Proof. intros Hp C. destruct C as [C0 C1 C2 C3 C4 C5 C6 C7]. split; [oq_write|constructor; cbn; assumption]. Qed.
Lemma loc_set_policy s p : Loc P s (s <| policy := p |>).
Proof. intros C. destruct C as [C0 C1 C2 C3 C4 C5 C6 C7]. split; [oq_write|constructor; cbn; assumption]. Qed.

(* allocation: the new identifier belongs to P *)
Lemma loc_alloc s k : Loc P s (fst (alloc s k)) /\ (RClosed P s -> P (snd (alloc s k))).
Proof.
  split.
  - intros C. pose proof (rc_fresh _ _ C (next s) (Nat.le_refl _)) as Hn. destruct C as [C0 C1 C2 C3 C4 C5 C6 C7].
    split; [constructor; cbn; intros; try reflexivity; [lia|]; unfold upd; destruct (Nat.eqb_spec x (next s)); [subst; contradiction|reflexivity]|].
    constructor; cbn; try assumption. intros x Hx. apply C0. lia.
  - intro C. apply (rc_fresh _ _ C). apply Nat.le_refl.
Qed.

Lemma loc_fold_left {A} (f : state -> A -> state) l :
  (forall s x, In x l -> Loc P s (f s x)) -> forall s, Loc P s (fold_left f l s).
Proof.
  induction l as [|x l IH]; intros H s; cbn; [apply loc_refl|].
  eapply loc_trans; [apply H; left; reflexivity|apply IH; intros; apply H; right; assumption].
Qed.

Lemma loc_fold_ids (f : state -> id -> state) l :
  (forall s x, In x l -> Loc P s (f s x)) -> forall s, Loc P s (fold_ids f l s).
Proof.
  induction l as [|x l IH]; intros H s; cbn; [apply loc_refl|].
  eapply loc_trans; [apply H; left; reflexivity|apply IH; intros; apply H; right; assumption].
Qed.

Lemma loc_fold_idsR (f : state -> id -> R) l :
  (forall s x, In x l -> Loc P s (fst (f s x))) -> forall s, Loc P s (fst (fold_idsR f l s)).
Proof.
  induction l as [|x l IH]; intros H s; cbn [fold_idsR]; [apply loc_refl|].
  apply loc_bind; [apply H; left; reflexivity|apply IH; intros; apply H; right; assumption].
Qed.

Lemma loc_fold_pairsR (f : state -> id * id -> R) l :
  (forall s x, Loc P s (fst (f s x))) -> forall s, Loc P s (fst (fold_pairsR f l s)).
Proof.
  induction l as [|x l IH]; intros H s; cbn [fold_pairsR]; [apply loc_refl|].
  apply loc_bind; [apply H|apply IH; intros; apply H].
Qed.

(* ---- closedness depends on the structural fields only ---- *)
Lemma rclosed_struct s s' : struct_eq s s' -> RClosed P s -> RClosed P s'.
Proof.
  intros [] [C0 C1 C2 C3 C4 C5 C6 C7].
  constructor; rewrite ?se_next, ?se_kids, ?se_par, ?se_ipwire, ?se_wpins, ?se_ipins, ?se_drefs, ?se_top; assumption.
Qed.

Lemma subtree_in s e : RClosed P s -> P e -> forall y, In y (subtree s e) -> P y.
Proof.
  intros C He y Hy. unfold subtree, net_subtree, lib_subtree, def_subtree in Hy.
  assert (D : forall d, P d -> forall y0, In y0 (d :: kids s RPorts d ++ kids s RCables d ++ kids s RChildren d) -> P y0).
  { intros d Hd y0 [<-|H]; [exact Hd|]. apply in_app_or in H as [H|H]; [apply (rc_kids _ _ C RPorts d y0 Hd H)|].
    apply in_app_or in H as [H|H]; [apply (rc_kids _ _ C RCables d y0 Hd H)|apply (rc_kids _ _ C RChildren d y0 Hd H)]. }
  assert (L : forall l, P l -> forall y0, In y0 (l :: flat_map (fun d => d :: kids s RPorts d ++ kids s RCables d ++ kids s RChildren d) (kids s RDefs l)) -> P y0).
  { intros l Hl y0 [<-|H]; [exact Hl|]. apply in_flat_map in H as [d [Hd H]]. apply (D d (rc_kids _ _ C RDefs l d Hl Hd) y0 H). }
  destruct (kind_of s e) as [[]|]; try (destruct Hy as [<-|[]]; exact He).
  - destruct Hy as [<-|H]; [exact He|]. apply in_flat_map in H as [l [Hl H]]. apply (L l (rc_kids _ _ C RLibs e l He Hl) y H).
  - apply (L e He y Hy).
  - apply (D e He y Hy).
Qed.

Lemma ns_parent_in s e p : RClosed P s -> P e -> ns_parent s e = Some p -> P p.
Proof.
  intros C He H. unfold ns_parent in H.
  destruct (kind_of s e) as [[]|]; try discriminate; eapply (rc_par _ _ C); eassumption.
Qed.
End Writes.
