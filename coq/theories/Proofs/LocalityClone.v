(* C07 independence, the CLOSURE theorem: after a completed clone the region of the copy (the objects
   created by the call and everything allocated later) is closed under ALL links, not only containment:
   the running invariant CI of the frame proof gives containment and the top instance; every other link
   has a back pointer (Inv of the state after the clone), the objects that existed before are unchanged
   (osame), and nothing in the state before the clone points at an unallocated identifier (Fresh, FT, RefK). *)
From Coq Require Import List Arith NArith ZArith Bool Lia.
From RecordUpdate Require Import RecordSet.
From SV Require Import Base.Base IR.State IR.NS IR.Ops Xform.Clone Proofs.AssocX Proofs.Frame Proofs.Inv1a Proofs.Inv2a Proofs.InvP
  Proofs.InvW Proofs.Fresh Proofs.FieldT Proofs.RefK Proofs.CloneFrame Proofs.CloneFull Proofs.Locality Proofs.LocalityStep Proofs.LocalityHist.
Import ListNotations RecordSetNotations.

(* the frame proof of Netlist.clone, exporting its running invariant (same proof as clone_netlist_ok) *)
Theorem clone_netlist_ci s n : StartOK s -> exists m, CI (next s) s (fst (fst (clone_netlist s n))) m.
Proof.
  intro HS. pose proof HS as [_ [_ HW]]. set (n0 := next s). unfold clone_netlist.
  destruct (clone_alloc s KNetlist) as [s1 n'] eqn:Ea.
  destruct (clone_alloc_specE n0 s s [] KNetlist s1 n' (ci_start s HS) Ea) as [Hx [Hn [Hk [Ht [C1 Nx]]]]].
  pose proof (ci_memo_add n0 s _ [] n n' (ci_copy_data n0 s s1 [] n n' C1 (proj1 Nx)) Nx) as C1'.
  destruct (libs_clone1 (kids (copy_data s1 n n') RLibs n) (copy_data s1 n n', [(n, n')])) as [[[s2 m2] libs'] e] eqn:E2.
  destruct (libs_clone1_spec n0 s HW _ _ _ _ _ _ _ C1' E2) as [C2 [N2 L2]].
  cbn [next copy_data set_data] in L2.
  assert (Nx2 : nw n0 s2 n') by (apply (nw_mono n0 s1 s2 n'); [cbn in L2; lia|exact Nx]).
  destruct e as [ex|]; cbn [fst raise]; [exists m2; exact C2|].
  set (s3 := set_kids s2 RLibs n' libs').
  assert (C3 : CI n0 s s3 m2) by (apply ci_set_kids; assumption).
  assert (Nx3 : nw n0 s3 n') by exact Nx2.
  (* the top instance *)
  match goal with |- context [let '(r, m) := ?rt in _] => set (rtop := rt) end.
  assert (Hrt : exists mX, CI n0 s (fst (fst rtop)) mX /\ nw n0 (fst (fst rtop)) n').
  { unfold rtop. destruct (top s3 n) as [t|]; [|exists m2; split; [exact C3|exact Nx3]].
    destruct (mget m2 t) as [t'|] eqn:Em.
    - exists m2. cbn [fst ret]. split; [|exact Nx3].
      apply ci_set_top_new; [exact C3|exact Nx3|]. apply (ci_memo _ _ _ _ C3 t t'). apply assoc_Some_In_local. exact Em.
    - destruct (inst_clone1 (s3, m2) t) as [[s4 m4] t'] eqn:E4.
      destruct (inst_clone1_spec n0 s s3 m2 t s4 m4 t' C3 E4) as [C4 [N4 L4]].
      exists m4. cbn [fst].
      assert (Nx4 : nw n0 s4 n') by (apply (nw_mono n0 s3 s4 n' L4 Nx3)).
      pose proof (inst_rr_def_ci n0 s m4 m4 s4 t' C4 (proj1 N4)) as C5.
      assert (Hn5 : next (fst (inst_rr_def m4 s4 t')) = next s4) by (unfold inst_rr_def; destruct (map_opt _ _); reflexivity).
      destruct (inst_rr_def m4 s4 t') as [s5 [ex|]]; cbn [bindR fst] in *; [split; [exact C5|split; [apply Nx4|rewrite Hn5; apply Nx4]]|].
      set (s6 := match iref s5 t' with Some e => match mget m4 e with Some e' => set_iref s5 t' (Some e') | None => s5 end | None => s5 end).
      assert (C6 : CI n0 s s6 m4 /\ next s6 = next s5).
      { unfold s6. destruct (iref s5 t') as [e|]; [|split; [exact C5|reflexivity]]. destruct (mget m4 e); [|split; [exact C5|reflexivity]].
        split; [apply ci_set_iref; [exact C5|apply N4]|reflexivity]. }
      destruct C6 as [C6 Hn6].
      pose proof (rekey_all_ci n0 s m4 m4 s6 t' HW C6 (proj1 N4)) as C7. pose proof (nx_rekey_all m4 s6 t') as Hn7.
      destruct (rekey_all m4 s6 t') as [s7 [ex|]]; cbn [bindR fst ret] in *.
      + split; [exact C7|split; [apply Nx4|rewrite Hn7, Hn6, Hn5; apply Nx4]].
      + assert (Nx7 : nw n0 s7 n') by (split; [apply Nx4|rewrite Hn7, Hn6, Hn5; apply Nx4]).
        split; [apply ci_set_top_new; [exact C7|exact Nx7|apply N4]|exact Nx7]. }
  destruct Hrt as [mX [CX NX]]. destruct rtop as [r m]. cbn [fst] in *.
  exists mX.
  destruct r as [s8 [ex|]]; cbn [bindR fst] in *; [exact CX|].
  set (s8' := match top s8 n' with Some t' => s8 <| istop ::= fun f => upd f t' true |> | None => s8 end).
  assert (C8 : CI n0 s s8' mX).
  { unfold s8'. destruct (top s8 n') as [t'|] eqn:Et; [|exact CX]. apply ci_set_istop; [exact CX|apply (ci_top _ _ _ _ CX n' t' (proj1 NX) Et)]. }
  assert (Hlibs : forall y, In y libs' -> n0 <= y) by (intros y Hy; apply (N2 y Hy)).
  apply ci_bind.
  - apply ci_fold_idsR; [|exact Hlibs|exact C8]. intros sa l' Ca Hl.
    pose proof (ci_set_par n0 s sa mX RLibs l' (Some n') Ca Hl) as Cb.
    apply ci_fold_idsR; [|apply (kids_new n0 s sa mX RDefs l' Ca Hl)|exact Cb].
    intros sb d' Cc Hd. apply def_rr_ci; assumption.
  - intros s9 C9. apply reapply_ci; [|apply NX].
    apply ci_fold_ids; [|exact Hlibs|exact C9]. intros sa l' Ca Hl.
    apply ci_fold_ids; [|apply (kids_new n0 s sa mX RDefs l' Ca Hl)|exact Ca].
    intros sb d' Cb _. apply ci_set_drefs. exact Cb.
Qed.


Lemma assoc_of_In {B} i (v : B) l : NoDup (map fst l) -> In (i, v) l -> assoc i l = Some v.
Proof.
  induction l as [|[k w] l IH]; cbn; [tauto|]. intros Hn [H|H].
  - injection H as -> ->. rewrite Nat.eqb_refl. reflexivity.
  - inversion Hn as [|? ? Hk Hl]; subst. destruct (Nat.eqb_spec i k) as [->|_]; [|apply IH; assumption].
    exfalso. apply Hk. apply in_map_iff. exists (k, v). split; [reflexivity|exact H].
Qed.

Section CopyClosed.
Variables (s sF : state) (m : memo).
Hypothesis U : UF s.
Hypothesis IF : Inv sF.
Hypothesis C : CI (next s) s sF m.

Lemma fresh_ipwire y : next s <= y -> ipwire s y = None.
Proof.
  destruct U as [_ [_ [F [T _]]]]. intro H. destruct (ipwire s y) eqn:E; [|reflexivity].
  assert (K : kind_of s y = Some KPin) by (apply (ft_w _ T); congruence). rewrite (f_kind _ F y H) in K. discriminate.
Qed.
Lemma fresh_wpins y : next s <= y -> wpins s y = [].
Proof.
  destruct U as [_ [_ [F [T _]]]]. intro H. destruct (wpins s y) eqn:E; [reflexivity|].
  assert (K : kind_of s y = Some KWire) by (apply (ft_p _ T); congruence). rewrite (f_kind _ F y H) in K. discriminate.
Qed.
Lemma fresh_ipins y : next s <= y -> ipins s y = [].
Proof.
  destruct U as [_ [_ [F [T _]]]]. intro H. destruct (ipins s y) eqn:E; [reflexivity|].
  assert (K : kind_of s y = Some KInstance) by (apply (ft_i _ T); congruence). rewrite (f_kind _ F y H) in K. discriminate.
Qed.

Theorem copy_region_closed : RClosed (copy_region (next s)) sF.
Proof.
  pose proof U as [I0 [_ [F0 [T0 K0]]]]. pose proof (ci_os _ _ _ _ C) as O. unfold copy_region.
  constructor.
  - intros x Hx. pose proof (ci_n0 _ _ _ _ C). lia.
  - intros r x c Hx Hc. apply (ci_kids _ _ _ _ C x r c Hx Hc).
  - intros r x p Hx Hp. destruct (Nat.lt_ge_cases p (next s)) as [Hl|Hg]; [exfalso|exact Hg].
    apply (i1_kids _ (inv_a _ IF)) in Hp. rewrite (os_kids _ _ _ O r p Hl) in Hp. apply (i1_kids _ (inv_a _ I0)) in Hp.
    rewrite (f_par _ F0 r x Hx) in Hp. discriminate.
  - intros i w Hi Hw. destruct (Nat.lt_ge_cases w (next s)) as [Hl|Hg]; [exfalso|exact Hg].
    assert (H : In (PIn i) (wpins sF w)) by (apply (p_pins _ (inv_p _ IF)); exact Hw).
    rewrite (os_wpins _ _ _ O w Hl) in H. apply (p_pins _ (inv_p _ I0)) in H. cbn in H. rewrite (fresh_ipwire i Hi) in H. discriminate.
  - intros w p Hw Hp. apply (p_pins _ (inv_p _ IF)) in Hp. destruct p as [i|n i|]; cbn [pin_in]; [| |exact I].
    + destruct (Nat.lt_ge_cases i (next s)) as [Hl|Hg]; [exfalso|exact Hg]. cbn in Hp. rewrite (os_ipwire _ _ _ O i Hl) in Hp.
      assert (H : In (PIn i) (wpins s w)) by (apply (p_pins _ (inv_p _ I0)); exact Hp). rewrite (fresh_wpins w Hw) in H. destruct H.
    + destruct (Nat.lt_ge_cases n (next s)) as [Hl|Hg]; [exfalso|exact Hg]. cbn in Hp. rewrite (os_ipins _ _ _ O n Hl) in Hp.
      assert (H : In (POut n i) (wpins s w)) by (apply (p_pins _ (inv_p _ I0)); exact Hp). rewrite (fresh_wpins w Hw) in H. destruct H.
  - intros n i w Hn Hin. destruct (Nat.lt_ge_cases w (next s)) as [Hl|Hg]; [exfalso|exact Hg].
    pose proof (assoc_of_In i (Some w) (ipins sF n) (k_nodup _ (inv_k _ IF) n) Hin) as Ha.
    assert (H : In (POut n i) (wpins sF w)) by (apply (p_pins _ (inv_p _ IF)); cbn; rewrite Ha; reflexivity).
    rewrite (os_wpins _ _ _ O w Hl) in H. apply (p_pins _ (inv_p _ I0)) in H. cbn in H. rewrite (fresh_ipins n Hn) in H. discriminate.
  - intros d x Hd Hx. destruct (Nat.lt_ge_cases x (next s)) as [Hl|Hg]; [exfalso|exact Hg].
    apply (i2_ref _ (inv_r _ IF)) in Hx. rewrite (os_iref _ _ _ O x Hl) in Hx. apply (K0 x d Hx). apply (f_kind _ F0 d Hd).
  - intros n t Hn Ht. apply (ci_top _ _ _ _ C n t Hn Ht).
Qed.

(* edits of the copy never show in the original: every field (reference sets excepted) of every object
   that existed before the clone is the same after any history of editing calls on objects of the copy *)
Theorem copy_edits_independent h :
  Forall (op_in (copy_region (next s))) h ->
  out_eq (copy_region (next s)) sF (run h sF) /\ RClosed (copy_region (next s)) (run h sF).
Proof. intro H. apply (history_independent _ sF h copy_region_closed H). Qed.
End CopyClosed.
