(* C10: the tables of the namespace manager are exactly the names (and case-folded identifiers)
   of the children - for every parent that carries a naming policy, after every history. *)
From Coq Require Import List Arith Bool Setoid Lia.
From RecordUpdate Require Import RecordSet.
From SV Require Import Base.Base IR.State IR.NS IR.Ops Proofs.AssocX Proofs.Frame Proofs.Inv1a Proofs.Inv2a
  Proofs.InvP Proofs.InvW Proofs.Refused Proofs.Fresh Proofs.NsSlot.
Import ListNotations RecordSetNotations.

Definition name_key (s : state) (c : id) : option str := get_str s c str_NAME.
Definition ident_key (s : state) (c : id) : option str := option_map lower (get_str s c str_IDENT).

Definition Mem := rel -> id -> id -> Prop.
Definition kmem (s : state) : Mem := fun r p c => In c (kids s r p).

Record TabOK (s : state) (M : Mem) (p : id) (t : nstable) : Prop := mkTabOK {
  tk_names : forall r, ns_rel r = true -> SlotOK (ns_names t (rel_child r)) (M r p) (name_key s);
  tk_idents : ns_pol t = PolEdif ->
              forall r, ns_rel r = true -> SlotOK (ns_idents t (rel_child r)) (M r p) (ident_key s)
}.

Definition NsInvM (s : state) (M : Mem) : Prop := forall p t, nstab s p = Some t -> TabOK s M p t.
Definition NsInv (s : state) : Prop := NsInvM s (kmem s).

(* typing of containment: children have the kind of their relation *)
Definition InvT (s : state) : Prop :=
  forall r p c, In c (kids s r p) -> kind_of s c = Some (rel_child r) /\ kind_of s p = Some (rel_parent r).

Lemma tabok_ext s s' (M M' : Mem) p t :
  TabOK s M p t ->
  (forall r c, M' r p c <-> M r p c) ->
  (forall r c, ns_rel r = true -> M r p c -> name_key s' c = name_key s c /\ ident_key s' c = ident_key s c) ->
  TabOK s' M' p t.
Proof.
  intros [H1 H2] Hm Hk. constructor.
  - intros r Hr. eapply slot_ext; [apply (H1 r Hr)|intro c; apply Hm|]. intros c Hc. apply (Hk r c Hr Hc).
  - intros Hp r Hr. eapply slot_ext; [apply (H2 Hp r Hr)|intro c; apply Hm|]. intros c Hc. apply (Hk r c Hr Hc).
Qed.

Lemma rel_eq_dec (a b : rel) : {a = b} + {a <> b}.
Proof. decide equality. Qed.

Lemma rel_child_inj r r' : ns_rel r = true -> ns_rel r' = true -> rel_child r = rel_child r' -> r = r'.
Proof. destruct r, r'; cbn; congruence. Qed.

Lemma updk_same {A} (f : kind -> A) k v : updk f k v k = v.
Proof. unfold updk. destruct k; reflexivity. Qed.
Lemma updk_other {A} (f : kind -> A) k v k' : k' <> k -> updk f k v k' = f k'.
Proof. unfold updk. intro H. destruct (kind_eqb k' k) eqn:E; [|reflexivity]. destruct k', k; cbn in E; congruence. Qed.

(* ---- keys after a raw write ---- *)
Lemma get_str_write s e k v c k' :
  get_str (data_write s e k v) c k' =
  if Nat.eqb c e && str_eqb k' k then match v with VStr x => Some x | _ => None end else get_str s c k'.
Proof.
  unfold get_str, data_write. cbn. unfold upd. destruct (Nat.eqb_spec c e) as [->|]; cbn [andb]; [|reflexivity].
  destruct (str_eqb k' k) eqn:E.
  - apply str_eqb_spec in E. subst. rewrite sassoc_set_same. reflexivity.
  - rewrite sassoc_set_other; [reflexivity|]. intro; subst. rewrite str_eqb_refl in E. discriminate.
Qed.

Lemma get_str_erase s e k c k' :
  get_str (data_erase s e k) c k' = if Nat.eqb c e && str_eqb k' k then None else get_str s c k'.
Proof.
  unfold get_str, data_erase. cbn. unfold upd. destruct (Nat.eqb_spec c e) as [->|]; cbn [andb]; [|reflexivity].
  destruct (str_eqb k' k) eqn:E.
  - apply str_eqb_spec in E. subst. rewrite sassoc_del_same. reflexivity.
  - rewrite sassoc_del_other; [reflexivity|]. intro; subst. rewrite str_eqb_refl in E. discriminate.
Qed.

Lemma name_ne_ident : str_eqb str_NAME str_IDENT = false. Proof. reflexivity. Qed.
Lemma ident_ne_name : str_eqb str_IDENT str_NAME = false. Proof. reflexivity. Qed.
Lemma ns_ne_name : str_eqb str_NS str_NAME = false. Proof. reflexivity. Qed.
Lemma ns_ne_ident : str_eqb str_NS str_IDENT = false. Proof. reflexivity. Qed.
Lemma name_ne_ns : str_eqb str_NAME str_NS = false. Proof. reflexivity. Qed.
Lemma ident_ne_ns : str_eqb str_IDENT str_NS = false. Proof. reflexivity. Qed.

(* a write under a key that is neither .NAME nor EDIF.identifier, or on a non-member, changes no key *)
Lemma keys_write_other s e k v c :
  is_name_key k = false -> name_key (data_write s e k v) c = name_key s c /\ ident_key (data_write s e k v) c = ident_key s c.
Proof.
  intro Hk. unfold is_name_key in Hk. apply orb_false_iff in Hk as [H1 H2].
  unfold name_key, ident_key. rewrite !get_str_write.
  assert (E1 : str_eqb str_NAME k = false) by (destruct (str_eqb str_NAME k) eqn:E; [apply str_eqb_spec in E; subst; rewrite str_eqb_refl in H1; discriminate|reflexivity]).
  assert (E2 : str_eqb str_IDENT k = false) by (destruct (str_eqb str_IDENT k) eqn:E; [apply str_eqb_spec in E; subst; rewrite str_eqb_refl in H2; discriminate|reflexivity]).
  rewrite E1, E2, !andb_false_r. split; reflexivity.
Qed.

Lemma keys_erase_other s e k c :
  is_name_key k = false -> name_key (data_erase s e k) c = name_key s c /\ ident_key (data_erase s e k) c = ident_key s c.
Proof.
  intro Hk. unfold is_name_key in Hk. apply orb_false_iff in Hk as [H1 H2].
  unfold name_key, ident_key. rewrite !get_str_erase.
  assert (E1 : str_eqb str_NAME k = false) by (destruct (str_eqb str_NAME k) eqn:E; [apply str_eqb_spec in E; subst; rewrite str_eqb_refl in H1; discriminate|reflexivity]).
  assert (E2 : str_eqb str_IDENT k = false) by (destruct (str_eqb str_IDENT k) eqn:E; [apply str_eqb_spec in E; subst; rewrite str_eqb_refl in H2; discriminate|reflexivity]).
  rewrite E1, E2, !andb_false_r. split; reflexivity.
Qed.

(* states that agree on tables and keys *)
Lemma nsinvm_same s s' M :
  NsInvM s M -> (forall y, nstab s' y = nstab s y) -> (forall c k, get_str s' c k = get_str s c k) -> NsInvM s' M.
Proof.
  intros H Ht Hg p t Hp. rewrite (Ht p) in Hp. apply (tabok_ext s s' M M p t (H p t Hp)); [tauto|].
  intros. unfold name_key, ident_key. rewrite !Hg. split; reflexivity.
Qed.

Lemma nsinvm_data_same s s' M : NsInvM s M -> nstab s' = nstab s -> data s' = data s -> NsInvM s' M.
Proof. intros H Ht Hd. apply (nsinvm_same s); [exact H|intro; rewrite Ht; reflexivity|]. intros. unfold get_str. rewrite Hd. reflexivity. Qed.

(* e is a member of at most the scope (r, p) *)
Definition only_in (M : Mem) (e : id) (r : rel) (p : id) : Prop :=
  forall r' p', ns_rel r' = true -> M r' p' e -> r' = r /\ p' = p.

Definition nowhere (M : Mem) (e : id) : Prop := forall r' p', ns_rel r' = true -> ~ M r' p' e.

Lemma keyupd_name_write s e v c :
  name_key (data_write s e str_NAME (VStr v)) c = keyupd (name_key s) e (Some v) c.
Proof. unfold name_key, keyupd. rewrite get_str_write, str_eqb_refl, andb_true_r. destruct (Nat.eqb c e); reflexivity. Qed.

Lemma ident_key_name_write s e v c : ident_key (data_write s e str_NAME v) c = ident_key s c.
Proof. unfold ident_key. rewrite get_str_write, ident_ne_name, andb_false_r. reflexivity. Qed.

Lemma keyupd_ident_write s e v c :
  ident_key (data_write s e str_IDENT (VStr v)) c = keyupd (ident_key s) e (Some (lower v)) c.
Proof. unfold ident_key, keyupd. rewrite get_str_write, str_eqb_refl, andb_true_r. destruct (Nat.eqb c e); reflexivity. Qed.

Lemma name_key_ident_write s e v c : name_key (data_write s e str_IDENT v) c = name_key s c.
Proof. unfold name_key. rewrite get_str_write, name_ne_ident, andb_false_r. reflexivity. Qed.

Lemma keyupd_other keyof e v c : c <> e -> keyupd keyof e v c = keyof c.
Proof. intro H. unfold keyupd. apply Nat.eqb_neq in H. rewrite H. reflexivity. Qed.

(* element[".NAME"] = v accepted by the parent's table *)
Lemma nsinvm_rename s M e r p t v s0 :
  NsInvM s M -> nstab s p = Some t -> ns_rel r = true -> M r p e -> only_in M e r p ->
  (forall x, sassoc v (ns_names t (rel_child r)) = Some x -> x = e) ->
  nstab s0 = upd (nstab s) p (Some (ns_update t (rel_child r) e str_NAME (get_str s e str_NAME) v)) ->
  data s0 = data s ->
  NsInvM (data_write s0 e str_NAME (VStr v)) M.
Proof.
  intros H Hp Hr He Ho Hc Ht0 Hd0 p' t' Hp'. cbn in Hp'. rewrite Ht0 in Hp'. unfold upd in Hp'.
  assert (Hg0 : forall c k, get_str s0 c k = get_str s c k) by (intros; unfold get_str; rewrite Hd0; reflexivity).
  assert (Hnk : forall c, name_key (data_write s0 e str_NAME (VStr v)) c = keyupd (name_key s) e (Some v) c).
  { intro c. rewrite keyupd_name_write. unfold keyupd, name_key. rewrite Hg0. reflexivity. }
  assert (Hik : forall c, ident_key (data_write s0 e str_NAME (VStr v)) c = ident_key s c).
  { intro c. rewrite ident_key_name_write. unfold ident_key. rewrite Hg0. reflexivity. }
  destruct (Nat.eqb_spec p' p) as [->|Hne].
  - injection Hp' as <-. destruct (H p t Hp) as [T1 T2].
    unfold ns_update. rewrite str_eqb_refl. constructor; cbn [ns_names ns_idents ns_pol].
    + intros r0 Hr0. destruct (rel_eq_dec r0 r) as [->|Hrr].
      * rewrite updk_same. eapply slot_ext; [apply (slot_replace _ _ _ e v (T1 r Hr) He Hc)|tauto|].
        intros c _. apply Hnk.
      * rewrite updk_other by (intro E; apply Hrr; apply rel_child_inj; assumption).
        eapply slot_ext; [apply (T1 r0 Hr0)|tauto|]. intros c Hc0. rewrite Hnk. apply keyupd_other.
        intros ->. destruct (Ho r0 p Hr0 Hc0) as [E _]. contradiction.
    + intros Hpol r0 Hr0. eapply slot_ext; [apply (T2 Hpol r0 Hr0)|tauto|]. intros c _. apply Hik.
  - destruct (H p' t' Hp') as [T1 T2]. constructor.
    + intros r0 Hr0. eapply slot_ext; [apply (T1 r0 Hr0)|tauto|]. intros c Hc0. rewrite Hnk. apply keyupd_other.
      intros ->. destruct (Ho r0 p' Hr0 Hc0) as [_ E]. contradiction.
    + intros Hpol r0 Hr0. eapply slot_ext; [apply (T2 Hpol r0 Hr0)|tauto|]. intros c _. apply Hik.
Qed.

(* the general shape: one member e of scope (r, p) changes a key, the table of p is replaced *)
Lemma nsinvm_keychange s M e r p t t' s' :
  NsInvM s M -> nstab s p = Some t -> ns_rel r = true -> only_in M e r p ->
  nstab s' = upd (nstab s) p (Some t') -> ns_pol t' = ns_pol t ->
  (forall c, c <> e -> name_key s' c = name_key s c /\ ident_key s' c = ident_key s c) ->
  (forall r0, ns_rel r0 = true -> r0 <> r ->
     ns_names t' (rel_child r0) = ns_names t (rel_child r0) /\ ns_idents t' (rel_child r0) = ns_idents t (rel_child r0)) ->
  SlotOK (ns_names t' (rel_child r)) (M r p) (name_key s') ->
  (ns_pol t = PolEdif -> SlotOK (ns_idents t' (rel_child r)) (M r p) (ident_key s')) ->
  NsInvM s' M.
Proof.
  intros H Hp Hr Ho Ht' Hpol Hk Hother Hn Hi p' t'' Hp'. rewrite Ht' in Hp'. unfold upd in Hp'.
  destruct (Nat.eqb_spec p' p) as [->|Hne].
  - injection Hp' as <-. destruct (H p t Hp) as [T1 T2]. constructor.
    + intros r0 Hr0. destruct (rel_eq_dec r0 r) as [->|Hrr]; [exact Hn|].
      rewrite (proj1 (Hother r0 Hr0 Hrr)). eapply slot_ext; [apply (T1 r0 Hr0)|tauto|].
      intros c Hc0. apply Hk. intros ->. destruct (Ho r0 p Hr0 Hc0) as [E _]. contradiction.
    + rewrite Hpol. intros Hpe r0 Hr0. destruct (rel_eq_dec r0 r) as [->|Hrr]; [exact (Hi Hpe)|].
      rewrite (proj2 (Hother r0 Hr0 Hrr)). eapply slot_ext; [apply (T2 Hpe r0 Hr0)|tauto|].
      intros c Hc0. apply Hk. intros ->. destruct (Ho r0 p Hr0 Hc0) as [E _]. contradiction.
  - apply (tabok_ext s s' M M p' t'' (H p' t'' Hp')); [tauto|].
    intros r0 c Hr0 Hc0. apply Hk. intros ->. destruct (Ho r0 p' Hr0 Hc0) as [_ E]. contradiction.
Qed.

(* a key of e changes while e is in no scope that has a table *)
Lemma nsinvm_keyfree s M e s' :
  NsInvM s M -> (forall r' p', ns_rel r' = true -> M r' p' e -> nstab s p' = None) ->
  nstab s' = nstab s ->
  (forall c, c <> e -> name_key s' c = name_key s c /\ ident_key s' c = ident_key s c) ->
  NsInvM s' M.
Proof.
  intros H Hfree Ht Hk p' t' Hp'. rewrite Ht in Hp'.
  apply (tabok_ext s s' M M p' t' (H p' t' Hp')); [tauto|].
  intros r0 c Hr0 Hc0. apply Hk. intros ->. rewrite (Hfree r0 p' Hr0 Hc0) in Hp'. discriminate.
Qed.

Lemma ns_update_pol t ek e k old v : ns_pol (ns_update t ek e k old v) = ns_pol t.
Proof. unfold ns_update. destruct (str_eqb k str_NAME); [reflexivity|]. destruct (ns_pol t) eqn:E; [exact E|]. destruct (str_eqb k str_IDENT); [reflexivity|exact E]. Qed.

Lemma ns_remove_pol t ek k old : ns_pol (ns_remove t ek k old) = ns_pol t.
Proof. unfold ns_remove. destruct old; [|reflexivity]. destruct (str_eqb k str_NAME); [reflexivity|]. destruct (ns_pol t) eqn:E; [exact E|]. destruct (str_eqb k str_IDENT); [reflexivity|exact E]. Qed.

(* ---- changes that cannot hurt: tables dropped or kept, name keys untouched ---- *)
Record nsq (s s' : state) : Prop := mkNsq {
  nq_kids : kids s' = kids s;
  nq_kind : kind_of s' = kind_of s;
  nq_par : par s' = par s;
  nq_name : forall c, name_key s' c = name_key s c;
  nq_ident : forall c, ident_key s' c = ident_key s c;
  nq_tab : forall y, nstab s' y = nstab s y \/ nstab s' y = None
}.

Lemma nsq_refl s : nsq s s.
Proof. constructor; intros; auto. Qed.

Lemma nsq_trans s1 s2 s3 : nsq s1 s2 -> nsq s2 s3 -> nsq s1 s3.
Proof.
  intros [A1 A2 A3 A4 A5 A6] [B1 B2 B3 B4 B5 B6]. constructor.
  - congruence.
  - congruence.
  - congruence.
  - intro x. rewrite (B4 x). apply A4.
  - intro x. rewrite (B5 x). apply A5.
  - intro y. destruct (B6 y) as [E|E]; [rewrite E; apply A6|right; exact E].
Qed.

Lemma nsq_nsinvm s s' M : nsq s s' -> NsInvM s M -> NsInvM s' M.
Proof.
  intros [_ _ _ Q4 Q5 Q6] H p t Hp. destruct (Q6 p) as [E|E]; [|congruence]. rewrite E in Hp.
  apply (tabok_ext s s' M M p t (H p t Hp)); [tauto|]. intros. split; [apply Q4|apply Q5].
Qed.

Lemma nsq_fold_left {A} (f : state -> A -> state) l : (forall s x, nsq s (f s x)) -> forall s, nsq s (fold_left f l s).
Proof. intro H. induction l as [|x l IH]; intro s; cbn; [apply nsq_refl|]. eapply nsq_trans; [apply H|apply IH]. Qed.

Lemma nsq_fields s s' :
  kids s' = kids s -> kind_of s' = kind_of s -> par s' = par s -> data s' = data s -> nstab s' = nstab s -> nsq s s'.
Proof.
  intros A B C D E. constructor; try assumption; intros; unfold name_key, ident_key, get_str; rewrite ?D, ?E; auto.
Qed.

Lemma nsq_emit s ev : nsq s (emit s ev).
Proof. apply nsq_fields; reflexivity. Qed.

Lemma nsq_erase_ns s e : nsq s (data_erase s e str_NS).
Proof.
  constructor; try reflexivity; intros; try (left; reflexivity);
    apply (keys_erase_other s e str_NS); reflexivity.
Qed.

Lemma nsq_write_ns s e v : nsq s (data_write s e str_NS v).
Proof.
  constructor; try reflexivity; intros; try (left; reflexivity);
    apply (keys_write_other s e str_NS v); reflexivity.
Qed.

Lemma nsq_drop_table s x : nsq s (set_nstab s x None).
Proof.
  constructor; try reflexivity. intro y. cbn. unfold upd. destruct (Nat.eqb y x); [right|left]; reflexivity.
Qed.

Lemma nsq_drop_namespace s e : nsq s (drop_namespace s e).
Proof.
  unfold drop_namespace. apply nsq_fold_left. intros s0 x.
  destruct (_ && _).
  - eapply nsq_trans; [apply nsq_drop_table|]. eapply nsq_trans; [apply nsq_emit|apply nsq_erase_ns].
  - apply nsq_drop_table.
Qed.

(* ---- _update_new_namespace ---- *)
Lemma kind_eqb_refl k : kind_eqb k k = true. Proof. destruct k; reflexivity. Qed.
Lemma kind_eqb_eq a b : kind_eqb a b = true -> a = b. Proof. destruct a, b; cbn; congruence. Qed.

Lemma populate_step_names s ck x t k' :
  ns_names (match get_str s x str_IDENT with
            | Some v => ns_update (match truthy_name s x with Some nm => ns_update t ck x str_NAME (get_str s x str_NAME) nm | None => t end) ck x str_IDENT (Some v) v
            | None => match truthy_name s x with Some nm => ns_update t ck x str_NAME (get_str s x str_NAME) nm | None => t end
            end) k' =
  if kind_eqb k' ck then slot_ins (name_key s) (ns_names t ck) x else ns_names t k'.
Proof.
  assert (H1 : forall t0 v, ns_names (ns_update t0 ck x str_IDENT (Some v) v) k' = ns_names t0 k').
  { intros t0 v. unfold ns_update. rewrite ident_ne_name. destruct (ns_pol t0); [reflexivity|]. rewrite str_eqb_refl. reflexivity. }
  assert (H2 : ns_names (match truthy_name s x with Some nm => ns_update t ck x str_NAME (get_str s x str_NAME) nm | None => t end) k' =
               if kind_eqb k' ck then slot_ins (name_key s) (ns_names t ck) x else ns_names t k').
  { unfold truthy_name, slot_ins, name_key. destruct (get_str s x str_NAME) as [nm|].
    - unfold ns_update. rewrite str_eqb_refl. cbn. unfold updk. destruct (kind_eqb k' ck); reflexivity.
    - destruct (kind_eqb k' ck) eqn:E; [apply kind_eqb_eq in E; subst; reflexivity|reflexivity]. }
  destruct (get_str s x str_IDENT); [rewrite H1|]; exact H2.
Qed.

Lemma populate_step_idents s ck x t k' :
  ns_idents (match get_str s x str_IDENT with
            | Some v => ns_update (match truthy_name s x with Some nm => ns_update t ck x str_NAME (get_str s x str_NAME) nm | None => t end) ck x str_IDENT (Some v) v
            | None => match truthy_name s x with Some nm => ns_update t ck x str_NAME (get_str s x str_NAME) nm | None => t end
            end) k' =
  match ns_pol t with
  | PolEdif => if kind_eqb k' ck then slot_ins (ident_key s) (ns_idents t ck) x else ns_idents t k'
  | PolDefault => ns_idents t k'
  end.
Proof.
  set (t1 := match truthy_name s x with Some nm => ns_update t ck x str_NAME (get_str s x str_NAME) nm | None => t end).
  assert (H1 : ns_idents t1 = ns_idents t /\ ns_pol t1 = ns_pol t).
  { unfold t1. destruct (truthy_name s x); [|split; reflexivity]. unfold ns_update. rewrite str_eqb_refl. split; reflexivity. }
  destruct H1 as [H1 H1p].
  unfold slot_ins, ident_key. destruct (get_str s x str_IDENT) as [v|]; cbn [option_map].
  - unfold ns_update. rewrite ident_ne_name, H1p. destruct (ns_pol t); [rewrite H1; reflexivity|].
    rewrite str_eqb_refl. cbn. unfold updk. rewrite H1. destruct (kind_eqb k' ck); reflexivity.
  - rewrite H1. destruct (ns_pol t); [reflexivity|]. destruct (kind_eqb k' ck) eqn:E; [apply kind_eqb_eq in E; subst; reflexivity|reflexivity].
Qed.

Lemma populate_pol s ck : forall xs t, ns_pol (populate s ck xs t) = ns_pol t.
Proof.
  unfold populate. induction xs as [|x xs IH]; intro t; cbn [fold_left]; [reflexivity|]. rewrite IH.
  destruct (get_str s x str_IDENT); rewrite ?ns_update_pol; destruct (truthy_name s x); rewrite ?ns_update_pol; reflexivity.
Qed.

Lemma populate_names s ck : forall xs t k',
  ns_names (populate s ck xs t) k' =
  if kind_eqb k' ck then fold_left (slot_ins (name_key s)) xs (ns_names t ck) else ns_names t k'.
Proof.
  unfold populate. induction xs as [|x xs IH]; intros t k'; cbn [fold_left].
  - destruct (kind_eqb k' ck) eqn:E; [apply kind_eqb_eq in E; subst; reflexivity|reflexivity].
  - rewrite IH. rewrite !populate_step_names, kind_eqb_refl. destruct (kind_eqb k' ck); reflexivity.
Qed.

Lemma populate_idents s ck : forall xs t k',
  ns_idents (populate s ck xs t) k' =
  match ns_pol t with
  | PolEdif => if kind_eqb k' ck then fold_left (slot_ins (ident_key s)) xs (ns_idents t ck) else ns_idents t k'
  | PolDefault => ns_idents t k'
  end.
Proof.
  unfold populate. induction xs as [|x xs IH]; intros t k'; cbn [fold_left].
  - destruct (ns_pol t); [reflexivity|]. destruct (kind_eqb k' ck) eqn:E; [apply kind_eqb_eq in E; subst; reflexivity|reflexivity].
  - rewrite IH. 
    match goal with |- context [ns_pol ?t1] => assert (Hp : ns_pol t1 = ns_pol t) end.
    { destruct (get_str s x str_IDENT); rewrite ?ns_update_pol; destruct (truthy_name s x); rewrite ?ns_update_pol; reflexivity. }
    rewrite Hp. rewrite !populate_step_idents. destruct (ns_pol t); [reflexivity|]. rewrite kind_eqb_refl. destruct (kind_eqb k' ck); reflexivity.
Qed.

(* ---- a table built from the child lists is exact when the lists have no conflicts ---- *)
Lemma names_of_keys s xs : names_of s str_NAME xs = keys_of (name_key s) xs.
Proof. reflexivity. Qed.

Lemma idents_of_keys s : forall xs, map lower (names_of s str_IDENT xs) = keys_of (ident_key s) xs.
Proof.
  induction xs as [|x xs IH]; [reflexivity|]. unfold names_of, keys_of in *. cbn [flat_map].
  rewrite map_app, IH. unfold ident_key. destruct (get_str s x str_IDENT); reflexivity.
Qed.

Lemma no_conflicts_names pl s xs : NoDup xs -> list_no_conflicts pl s xs = true -> keys_distinct (name_key s) xs.
Proof.
  intros Hnd H. unfold list_no_conflicts in H. apply andb_true_iff in H as [H _].
  apply keys_of_distinct; [exact Hnd|]. rewrite <- names_of_keys. apply strs_nodup_spec. exact H.
Qed.

Lemma no_conflicts_idents s xs : NoDup xs -> list_no_conflicts PolEdif s xs = true -> keys_distinct (ident_key s) xs.
Proof.
  intros Hnd H. unfold list_no_conflicts in H. apply andb_true_iff in H as [_ H].
  apply keys_of_distinct; [exact Hnd|]. rewrite <- idents_of_keys. apply strs_nodup_spec. exact H.
Qed.

Lemma slot_no_kids s r y keyof : kids s r y = [] -> SlotOK [] (kmem s r y) keyof.
Proof. intros E k c. unfold kmem. rewrite E. cbn. split; [discriminate|tauto]. Qed.

(* one populated slot *)
Lemma populated_slot_names pl s r y :
  NoDup (kids s r y) -> list_no_conflicts pl s (kids s r y) = true ->
  SlotOK (fold_left (slot_ins (name_key s)) (kids s r y) []) (kmem s r y) (name_key s).
Proof. intros Hnd Hc. apply slot_populate; [exact Hnd|apply (no_conflicts_names pl); assumption]. Qed.

Lemma populated_slot_idents s r y :
  NoDup (kids s r y) -> list_no_conflicts PolEdif s (kids s r y) = true ->
  SlotOK (fold_left (slot_ins (ident_key s)) (kids s r y) []) (kmem s r y) (ident_key s).
Proof. intros Hnd Hc. apply slot_populate; [exact Hnd|apply no_conflicts_idents; assumption]. Qed.

Lemma kids_wrong_kind s r y k : InvT s -> kind_of s y = Some k -> rel_parent r <> k -> kids s r y = [].
Proof.
  intros HT Hk Hne. destruct (kids s r y) as [|c l] eqn:E; [reflexivity|]. exfalso.
  destruct (HT r y c) as [_ H]; [rewrite E; left; reflexivity|]. congruence.
Qed.

Lemma fresh_table_ok pl s y t :
  Inv1a s -> InvT s -> fresh_table pl s y = Some t ->
  (forall r, ns_rel r = true -> kind_of s y = Some (rel_parent r) -> list_no_conflicts pl s (kids s r y) = true) ->
  TabOK s (kmem s) y t /\ ns_pol t = pl.
Proof.
  intros Ha HT Hf Hc. unfold fresh_table in Hf.
  destruct (kind_of s y) as [ky|] eqn:Hk; [|discriminate].
  assert (Hnd : forall r, NoDup (kids s r y)) by (intro r; apply (i1_nodup s Ha)).
  destruct ky; try discriminate; injection Hf as <-.
  - (* netlist *)
    split; [|rewrite populate_pol; reflexivity]. constructor.
    + intros r Hr. rewrite populate_names. destruct r; try discriminate Hr; cbn [rel_child kind_eqb ns_names empty_ns];
        try (apply slot_no_kids; apply (kids_wrong_kind s _ y KNetlist HT Hk); discriminate).
      apply (populated_slot_names pl); [apply Hnd|apply Hc; reflexivity].
    + rewrite populate_pol. cbn [ns_pol empty_ns]. intros -> r Hr. rewrite populate_idents. cbn [ns_pol empty_ns].
      destruct r; try discriminate Hr; cbn [rel_child kind_eqb ns_idents empty_ns];
        try (apply slot_no_kids; apply (kids_wrong_kind s _ y KNetlist HT Hk); discriminate).
      apply populated_slot_idents; [apply Hnd|apply Hc; reflexivity].
  - (* library *)
    split; [|rewrite populate_pol; reflexivity]. constructor.
    + intros r Hr. rewrite populate_names. destruct r; try discriminate Hr; cbn [rel_child kind_eqb ns_names empty_ns];
        try (apply slot_no_kids; apply (kids_wrong_kind s _ y KLibrary HT Hk); discriminate).
      apply (populated_slot_names pl); [apply Hnd|apply Hc; reflexivity].
    + rewrite populate_pol. cbn [ns_pol empty_ns]. intros -> r Hr. rewrite populate_idents. cbn [ns_pol empty_ns].
      destruct r; try discriminate Hr; cbn [rel_child kind_eqb ns_idents empty_ns];
        try (apply slot_no_kids; apply (kids_wrong_kind s _ y KLibrary HT Hk); discriminate).
      apply populated_slot_idents; [apply Hnd|apply Hc; reflexivity].
  - (* definition: three populated slots *)
    split; [|rewrite !populate_pol; reflexivity]. constructor.
    + intros r Hr. rewrite !populate_names. destruct r; try discriminate Hr; cbn [rel_child kind_eqb ns_names empty_ns];
        try (apply slot_no_kids; apply (kids_wrong_kind s _ y KDefinition HT Hk); discriminate);
        (apply (populated_slot_names pl); [apply Hnd|apply Hc; reflexivity]).
    + rewrite !populate_pol. cbn [ns_pol empty_ns]. intros -> r Hr. rewrite !populate_idents, !populate_pol. cbn [ns_pol empty_ns].
      destruct r; try discriminate Hr; cbn [rel_child kind_eqb ns_idents empty_ns];
        try (apply slot_no_kids; apply (kids_wrong_kind s _ y KDefinition HT Hk); discriminate);
        (apply populated_slot_idents; [apply Hnd|apply Hc; reflexivity]).
Qed.

(* ---- apply_namespace: every element of the subtree gets the policy; containers get a fresh table ---- *)
Definition gsame (s s' : state) : Prop :=
  forall c, get_str s' c str_NAME = get_str s c str_NAME /\ get_str s' c str_IDENT = get_str s c str_IDENT.

Lemma populate_ext s s' ck : gsame s s' -> forall xs t, populate s' ck xs t = populate s ck xs t.
Proof.
  intro G. unfold populate. induction xs as [|x xs IH]; intro t; cbn [fold_left]; [reflexivity|].
  unfold truthy_name. destruct (G x) as [-> ->]. apply IH.
Qed.

Lemma fresh_table_ext pl s s' x :
  kids s' = kids s -> kind_of s' = kind_of s -> gsame s s' -> fresh_table pl s' x = fresh_table pl s x.
Proof.
  intros Hk Hkd G. unfold fresh_table. rewrite Hkd, Hk.
  destruct (kind_of s x) as [[]|]; try reflexivity; rewrite !(populate_ext s s' _ G); reflexivity.
Qed.

Definition apply_step (pl : pol) (s : state) (x : id) : state :=
  let s1 := data_write (emit s (EDictSet x str_NS (VStr (pol_name pl)))) x str_NS (VStr (pol_name pl)) in
  match fresh_table pl s1 x with Some t => set_nstab s1 x (Some t) | None => s1 end.

Lemma gsame_write_ns s x v : gsame s (data_write (emit s (EDictSet x str_NS v)) x str_NS v).
Proof.
  intro c. rewrite !get_str_write. rewrite name_ne_ns, ident_ne_ns, !andb_false_r. split; reflexivity.
Qed.

Lemma apply_fold pl s0 : forall xs s,
  kids s = kids s0 -> kind_of s = kind_of s0 -> par s = par s0 -> gsame s0 s ->
  let s' := fold_left (apply_step pl) xs s in
  kids s' = kids s0 /\ kind_of s' = kind_of s0 /\ par s' = par s0 /\ gsame s0 s' /\
  (forall y, nstab s' y = if memb y xs then match fresh_table pl s0 y with Some t => Some t | None => nstab s y end
                          else nstab s y).
Proof.
  induction xs as [|x xs IH]; intros s Hk Hkd Hp G; cbn [fold_left].
  - split; [exact Hk|split; [exact Hkd|split; [exact Hp|split; [exact G|]]]]. intro y. reflexivity.
  - set (s1 := data_write (emit s (EDictSet x str_NS (VStr (pol_name pl)))) x str_NS (VStr (pol_name pl))).
    assert (G1 : gsame s0 s1).
    { intro c. destruct (gsame_write_ns s x (VStr (pol_name pl)) c) as [A B]. destruct (G c) as [A' B']. unfold s1. split; congruence. }
    assert (Hf : fresh_table pl s1 x = fresh_table pl s0 x) by (apply fresh_table_ext; [exact Hk|exact Hkd|exact G1]).
    assert (Hs2 : kids (apply_step pl s x) = kids s0 /\ kind_of (apply_step pl s x) = kind_of s0 /\ par (apply_step pl s x) = par s0 /\ gsame s0 (apply_step pl s x) /\
                  (forall y, nstab (apply_step pl s x) y = if Nat.eqb y x then match fresh_table pl s0 x with Some t => Some t | None => nstab s y end else nstab s y)).
    { unfold apply_step. fold s1. rewrite Hf. destruct (fresh_table pl s0 x) as [t|].
      - split; [exact Hk|split; [exact Hkd|split; [exact Hp|split; [exact G1|]]]]. intro y. cbn. unfold upd. destruct (Nat.eqb y x); reflexivity.
      - split; [exact Hk|split; [exact Hkd|split; [exact Hp|split; [exact G1|]]]]. intro y. destruct (Nat.eqb y x); reflexivity. }
    destruct Hs2 as [A [B [C [D E]]]].
    destruct (IH (apply_step pl s x) A B C D) as [A' [B' [C' [D' E']]]].
    split; [exact A'|split; [exact B'|split; [exact C'|split; [exact D'|]]]]. intro y. rewrite E'. cbn [memb]. rewrite (E y).
    destruct (Nat.eqb_spec y x) as [->|Hne]; cbn [orb].
    + destruct (memb x xs); destruct (fresh_table pl s0 x); reflexivity.
    + reflexivity.
Qed.

Lemma apply_namespace_spec pl s e :
  let s' := apply_namespace pl s e in
  kids s' = kids s /\ kind_of s' = kind_of s /\ par s' = par s /\ gsame s s' /\
  (forall y, nstab s' y = if memb y (subtree s e) then match fresh_table pl s y with Some t => Some t | None => nstab s y end
                          else nstab s y).
Proof.
  unfold apply_namespace. change (fold_left _ (subtree s e) s) with (fold_left (apply_step pl) (subtree s e) s).
  apply apply_fold; try reflexivity. intro c. split; reflexivity.
Qed.

(* ---- is_compliant gives conflict-free child lists throughout the subtree ---- *)
Definition lists_ok (pl : pol) (s : state) (y : id) : Prop :=
  forall r, ns_rel r = true -> kind_of s y = Some (rel_parent r) -> list_no_conflicts pl s (kids s r y) = true.

Lemma leaf_lists_ok pl s y k : kind_of s y = Some k ->
  (k = KPort \/ k = KCable \/ k = KInstance \/ k = KPin \/ k = KWire) -> lists_ok pl s y.
Proof.
  intros Hk Hc r Hr E. rewrite Hk in E. injection E as ->. destruct r; cbn in *; try discriminate; intuition discriminate.
Qed.

Lemma def_lists_ok pl s d : InvT s -> kind_of s d = Some KDefinition -> def_compliant pl s d = true ->
  forall y, In y (def_subtree s d) -> lists_ok pl s y.
Proof.
  intros HT Hk Hc y Hy. unfold def_compliant in Hc.
  apply andb_true_iff in Hc as [Hc _]. apply andb_true_iff in Hc as [Hc H3]. apply andb_true_iff in Hc as [Hc H2].
  apply andb_true_iff in Hc as [_ H1].
  unfold def_subtree in Hy. destruct Hy as [<-|Hy].
  - intros r Hr E. rewrite Hk in E. injection E as E. destruct r; cbn in *; try discriminate; assumption.
  - apply in_app_or in Hy as [Hy|Hy]; [|apply in_app_or in Hy as [Hy|Hy]].
    + destruct (HT RPorts d y Hy) as [Hky _]. apply (leaf_lists_ok pl s y _ Hky). auto.
    + destruct (HT RCables d y Hy) as [Hky _]. apply (leaf_lists_ok pl s y _ Hky). auto.
    + destruct (HT RChildren d y Hy) as [Hky _]. apply (leaf_lists_ok pl s y _ Hky). auto.
Qed.

Lemma lib_lists_ok pl s l : InvT s -> kind_of s l = Some KLibrary -> lib_compliant pl s l = true ->
  forall y, In y (lib_subtree s l) -> lists_ok pl s y.
Proof.
  intros HT Hk Hc y Hy. unfold lib_compliant in Hc.
  apply andb_true_iff in Hc as [Hc H2]. apply andb_true_iff in Hc as [_ H1].
  unfold lib_subtree in Hy. destruct Hy as [<-|Hy].
  - intros r Hr E. rewrite Hk in E. injection E as E. destruct r; cbn in *; try discriminate; assumption.
  - apply in_flat_map in Hy as [d [Hd Hy]]. rewrite forallb_forall in H2.
    destruct (HT RDefs l d Hd) as [Hkd _]. apply (def_lists_ok pl s d HT Hkd (H2 d Hd) y Hy).
Qed.

Lemma net_lists_ok pl s n : InvT s -> kind_of s n = Some KNetlist -> net_compliant pl s n = true ->
  forall y, In y (net_subtree s n) -> lists_ok pl s y.
Proof.
  intros HT Hk Hc y Hy. unfold net_compliant in Hc.
  apply andb_true_iff in Hc as [Hc H2]. apply andb_true_iff in Hc as [_ H1].
  unfold net_subtree in Hy. destruct Hy as [<-|Hy].
  - intros r Hr E. rewrite Hk in E. injection E as E. destruct r; cbn in *; try discriminate; assumption.
  - apply in_flat_map in Hy as [l [Hl Hy]]. rewrite forallb_forall in H2.
    destruct (HT RLibs n l Hl) as [Hkl _]. apply (lib_lists_ok pl s l HT Hkl (H2 l Hl) y Hy).
Qed.

Lemma compliant_lists_ok pl s e : InvT s -> is_compliant pl s e = true ->
  forall y, In y (subtree s e) -> lists_ok pl s y.
Proof.
  intros HT Hc y Hy. unfold is_compliant in Hc. unfold subtree in Hy.
  destruct (kind_of s e) as [k|] eqn:Hk.
  - destruct k; try (destruct Hy as [<-|[]]; apply (leaf_lists_ok pl s e _ Hk); auto; fail).
    + apply (net_lists_ok pl s e HT Hk Hc y Hy).
    + apply (lib_lists_ok pl s e HT Hk Hc y Hy).
    + apply (def_lists_ok pl s e HT Hk Hc y Hy).
  - destruct Hy as [<-|[]]. intros r _ E. congruence.
Qed.

(* the whole step: NsInv survives apply_namespace of a compliant subtree *)
Lemma nsinv_apply_namespace pl s e :
  Inv1a s -> InvT s -> NsInv s -> is_compliant pl s e = true -> NsInv (apply_namespace pl s e).
Proof.
  intros Ha HT H Hc. destruct (apply_namespace_spec pl s e) as [Hk [Hkd [Hp [G Ht]]]].
  set (s' := apply_namespace pl s e) in *.
  assert (Hkeys : forall c, name_key s' c = name_key s c /\ ident_key s' c = ident_key s c).
  { intro c. destruct (G c) as [A B]. unfold name_key, ident_key. rewrite A, B. split; reflexivity. }
  intros p t Hpt. rewrite Ht in Hpt.
  assert (Hold : nstab s p = Some t -> TabOK s' (kmem s') p t).
  { intro Hs. apply (tabok_ext s s' (kmem s) (kmem s') p t (H p t Hs)).
    - intros r c. unfold kmem. rewrite Hk. tauto.
    - intros r c _ _. apply Hkeys. }
  destruct (memb p (subtree s e)) eqn:Hm; [|apply Hold; exact Hpt].
  destruct (fresh_table pl s p) as [t0|] eqn:Hf; [|apply Hold; exact Hpt].
  injection Hpt as <-. apply memb_In in Hm.
  destruct (fresh_table_ok pl s p t0 Ha HT Hf (compliant_lists_ok pl s e HT Hc p Hm)) as [T _].
  apply (tabok_ext s s' (kmem s) (kmem s') p t0 T).
  - intros r c. unfold kmem. rewrite Hk. tauto.
  - intros r c _ _. apply Hkeys.
Qed.

(* ---- where an element sits ---- *)
Lemma nsinvm_mem_ext s (M M' : Mem) : (forall r p c, M' r p c <-> M r p c) -> NsInvM s M -> NsInvM s M'.
Proof.
  intros Hm H p t Hp. apply (tabok_ext s s M M' p t (H p t Hp)); [intros; apply Hm|]. intros; split; reflexivity.
Qed.

Lemma nsinv_kids s s' : kids s' = kids s -> NsInvM s' (kmem s) -> NsInv s'.
Proof. intros Hk H. apply (nsinvm_mem_ext s' (kmem s)); [|exact H]. intros. unfold kmem. rewrite Hk. tauto. Qed.

Lemma ns_parent_rel s e p : ns_parent s e = Some p ->
  exists r, ns_rel r = true /\ kind_of s e = Some (rel_child r) /\ par s r e = Some p.
Proof.
  unfold ns_parent. destruct (kind_of s e) as [[]|]; try discriminate; intro H;
    [exists RLibs|exists RDefs|exists RPorts|exists RCables|exists RChildren]; auto.
Qed.

Lemma parent_scope s e p : Inv1a s -> InvT s -> ns_parent s e = Some p ->
  exists r, ns_rel r = true /\ kind_of s e = Some (rel_child r) /\ In e (kids s r p) /\ only_in (kmem s) e r p.
Proof.
  intros Ha HT H. destruct (ns_parent_rel s e p H) as [r [Hr [Hk Hp]]]. exists r.
  split; [exact Hr|]. split; [exact Hk|]. split; [apply (i1_kids s Ha); exact Hp|].
  intros r' p' Hr' Hin. unfold kmem in Hin. destruct (HT r' p' e Hin) as [Hk' _].
  assert (r' = r) by (apply rel_child_inj; [exact Hr'|exact Hr|congruence]). subst r'.
  split; [reflexivity|]. apply (i1_kids s Ha) in Hin. congruence.
Qed.

Lemma no_parent_free s e : Inv1a s -> InvT s -> ns_parent s e = None ->
  forall r' p', ns_rel r' = true -> ~ In e (kids s r' p').
Proof.
  intros Ha HT H r' p' Hr' Hin. destruct (HT r' p' e Hin) as [Hk _].
  apply (i1_kids s Ha) in Hin. unfold ns_parent in H. rewrite Hk in H.
  destruct r'; cbn in *; try discriminate; congruence.
Qed.

(* ---- element[k] = v ---- *)
Lemma no_conflict_name_spec t ek e v :
  ns_no_conflict t ek e str_NAME v = true -> forall x, sassoc v (ns_names t ek) = Some x -> x = e.
Proof.
  unfold ns_no_conflict, tab_conflict. rewrite str_eqb_refl. intros H x Hx. rewrite Hx in H.
  apply negb_true_iff, negb_false_iff, Nat.eqb_eq in H. exact H.
Qed.

Lemma no_conflict_ident_spec t ek e v :
  ns_pol t = PolEdif -> ns_no_conflict t ek e str_IDENT v = true ->
  forall x, sassoc (lower v) (ns_idents t ek) = Some x -> x = e.
Proof.
  unfold ns_no_conflict, tab_conflict. rewrite ident_ne_name. intros -> H x Hx. rewrite str_eqb_refl, Hx in H.
  apply negb_true_iff, negb_false_iff, Nat.eqb_eq in H. exact H.
Qed.

Lemma is_name_key_cases k : is_name_key k = true -> k = str_NAME \/ k = str_IDENT.
Proof. unfold is_name_key. intro H. apply orb_true_iff in H as [H|H]; apply str_eqb_spec in H; auto. Qed.

Lemma nsinv_set_name_key s e k name :
  Inv1a s -> InvT s -> NsInv s -> is_name_key k = true ->
  forall s1, snd (ns_dictionary_set s e k (VStr name)) = None -> s1 = fst (ns_dictionary_set s e k (VStr name)) ->
  forall s2, nstab s2 = nstab s1 -> data s2 = data s1 -> kids s2 = kids s ->
  NsInv (data_write s2 e k (VStr name)).
Proof.
  intros Ha HT H Hk s1 Hok -> s2 Ht2 Hd2 Hk2.
  apply (nsinv_kids s); [exact Hk2|].
  unfold ns_dictionary_set in *.
  assert (Hns : str_eqb k str_NS = false).
  { destruct (is_name_key_cases k Hk) as [-> | ->]; reflexivity. }
  rewrite Hns, Hk in *. cbn [negb] in *.
  destruct (negb (match elem_pol s e with Some p => is_name_valid p k name | None => true end)); [discriminate|].
  assert (Hfree : (forall r' p', ns_rel r' = true -> kmem s r' p' e -> nstab s p' = None) ->
                  forall s1', nstab s1' = nstab s -> data s1' = data s -> nstab s2 = nstab s1' -> data s2 = data s1' ->
                  NsInvM (data_write s2 e k (VStr name)) (kmem s)).
  { intros Hf s1' A B C D. apply (nsinvm_keyfree s (kmem s) e); [exact H|exact Hf|cbn; congruence|].
    intros c Hc. unfold name_key, ident_key. rewrite !get_str_write. apply Nat.eqb_neq in Hc. rewrite Hc. cbn [andb].
    unfold get_str. rewrite D, B. split; reflexivity. }
  destruct (ns_parent s e) as [p|] eqn:Hpar.
  2:{ apply (Hfree (fun r' p' Hr' Hin => False_ind _ (no_parent_free s e Ha HT Hpar r' p' Hr' Hin)) s); auto. }
  destruct (parent_scope s e p Ha HT Hpar) as [r [Hr [Hke [Hin Ho]]]]. rewrite Hke in *.
  destruct (nstab s p) as [t|] eqn:Htp.
  2:{ apply (Hfree (fun r' p' Hr' Hin' => eq_ind_r (fun q => nstab s q = None) Htp (proj2 (Ho r' p' Hr' Hin'))) s); auto. }
  destruct (ns_no_conflict t (rel_child r) e k name) eqn:Hnc; [|discriminate]. cbn [fst ret] in *.
  destruct (is_name_key_cases k Hk) as [-> | ->].
  - (* .NAME *)
    apply (nsinvm_rename s (kmem s) e r p t name s2 H Htp Hr Hin Ho (no_conflict_name_spec _ _ _ _ Hnc)); [rewrite Ht2; reflexivity|rewrite Hd2; reflexivity].
  - (* EDIF.identifier *)
    set (t' := ns_update t (rel_child r) e str_IDENT (get_str s e str_IDENT) name).
    assert (Hg2 : forall c k0, get_str s2 c k0 = get_str s c k0) by (intros; unfold get_str; rewrite Hd2; reflexivity).
    apply (nsinvm_keychange s (kmem s) e r p t t' _ H Htp Hr Ho); [cbn; rewrite Ht2; reflexivity|apply ns_update_pol| | | |].
    + intros c Hc. unfold name_key, ident_key. rewrite !get_str_write, !Hg2. apply Nat.eqb_neq in Hc. rewrite Hc. split; reflexivity.
    + intros r0 Hr0 Hne. unfold t', ns_update. rewrite ident_ne_name. destruct (ns_pol t); [split; reflexivity|].
      rewrite str_eqb_refl. cbn. split; [reflexivity|]. apply updk_other. intro E. apply Hne. apply rel_child_inj; assumption.
    + assert (E : ns_names t' (rel_child r) = ns_names t (rel_child r)).
      { unfold t', ns_update. rewrite ident_ne_name. destruct (ns_pol t); [reflexivity|]. rewrite str_eqb_refl. reflexivity. }
      rewrite E. eapply slot_ext; [apply (tk_names _ _ _ _ (H p t Htp) r Hr)|tauto|].
      intros c _. rewrite name_key_ident_write. unfold name_key. apply Hg2.
    + intro Hpol. unfold t', ns_update. rewrite ident_ne_name, Hpol, str_eqb_refl. cbn. rewrite updk_same.
      eapply slot_ext; [apply (slot_replace _ _ (ident_key s) e (lower name) (tk_idents _ _ _ _ (H p t Htp) Hpol r Hr) Hin (no_conflict_ident_spec _ _ _ _ Hpol Hnc))|tauto|].
      intros c _. rewrite keyupd_ident_write. unfold keyupd, ident_key. rewrite Hg2. reflexivity.
Qed.

Lemma nsq_write_other s e k v : is_name_key k = false -> nsq s (data_write s e k v).
Proof.
  intro Hk. constructor; try reflexivity; intros; try (left; reflexivity); apply (keys_write_other s e k v); exact Hk.
Qed.

Lemma nsq_erase_other s e k : is_name_key k = false -> nsq s (data_erase s e k).
Proof.
  intro Hk. constructor; try reflexivity; intros; try (left; reflexivity); apply (keys_erase_other s e k); exact Hk.
Qed.

Lemma nsinv_nsq s s' : nsq s s' -> NsInv s -> NsInv s'.
Proof. intros Q H. apply (nsinv_kids s); [apply (nq_kids _ _ Q)|]. apply (nsq_nsinvm s s' _ Q H). Qed.

Lemma ns_is_not_name_key : is_name_key str_NS = false. Proof. reflexivity. Qed.

Lemma nsinv_dict_set s e k v : Inv1a s -> InvT s -> NsInv s -> NsInv (fst (dict_set s e k v)).
Proof.
  intros Ha HT H. unfold dict_set.
  destruct (ns_dictionary_set s e k v) as [s1 [x|]] eqn:E; cbn [bindR fst ret].
  - pose proof (ns_dictionary_set_refused s e k v) as Hr. rewrite E in Hr. cbn in Hr. rewrite Hr by discriminate. exact H.
  - destruct (str_eqb k str_NS) eqn:Ens.
    + (* the policy key *)
      apply str_eqb_spec in Ens. subst k.
      assert (H1 : NsInv s1).
      { unfold ns_dictionary_set in E. rewrite str_eqb_refl in E.
        destruct (match sassoc str_NS (data s e) with Some v0 => val_eqb v0 v | None => false end); [injection E as <-; exact H|].
        destruct (ns_parent s e); [discriminate|]. destruct (pol_of_val v) as [pl|]; [|discriminate].
        destruct (is_compliant pl s e) eqn:Hc; [|discriminate]. injection E as <-.
        apply nsinv_apply_namespace; assumption. }
      apply (nsinv_nsq s1); [|exact H1]. eapply nsq_trans; [apply nsq_emit|apply nsq_write_ns].
    + destruct (is_name_key k) eqn:Hk.
      * destruct v as [name| | |]; try (unfold ns_dictionary_set in E; rewrite Ens, Hk in E; discriminate).
        apply (nsinv_set_name_key s e k name Ha HT H Hk s1); [rewrite E; reflexivity|rewrite E; reflexivity|reflexivity|reflexivity|].
        pose proof (se_ns_dictionary_set s e k (VStr name)) as Hse. rewrite E in Hse. cbn in Hse. cbn. apply (se_kids _ _ Hse).
      * assert (s1 = s) by (unfold ns_dictionary_set in E; rewrite Ens, Hk in E; injection E as <-; reflexivity). subst s1.
        apply (nsinv_nsq s); [|exact H]. eapply nsq_trans; [apply nsq_emit|apply nsq_write_other; exact Hk].
Qed.

(* ---- del element[k] / element.pop(k) ---- *)
Lemma ns_remove_names t ek k old k' :
  ns_names (ns_remove t ek k old) k' =
  if str_eqb k str_NAME then match old with Some o => if kind_eqb k' ek then sassoc_del o (ns_names t ek) else ns_names t k' | None => ns_names t k' end
  else ns_names t k'.
Proof.
  unfold ns_remove. destruct old as [o|]; [|destruct (str_eqb k str_NAME); reflexivity].
  destruct (str_eqb k str_NAME); [cbn; unfold updk; destruct (kind_eqb k' ek) eqn:E; [apply kind_eqb_eq in E; subst|]; reflexivity|].
  destruct (ns_pol t); [reflexivity|]. destruct (str_eqb k str_IDENT); reflexivity.
Qed.

Lemma ns_remove_idents t ek k old k' :
  ns_idents (ns_remove t ek k old) k' =
  if str_eqb k str_NAME then ns_idents t k'
  else match ns_pol t with
       | PolDefault => ns_idents t k'
       | PolEdif => if str_eqb k str_IDENT then
                      match old with Some o => if kind_eqb k' ek then sassoc_del (lower o) (ns_idents t ek) else ns_idents t k' | None => ns_idents t k' end
                    else ns_idents t k'
       end.
Proof.
  unfold ns_remove. destruct old as [o|].
  - destruct (str_eqb k str_NAME); [reflexivity|]. destruct (ns_pol t); [reflexivity|].
    destruct (str_eqb k str_IDENT); [cbn; unfold updk; destruct (kind_eqb k' ek) eqn:E; [apply kind_eqb_eq in E; subst|]; reflexivity|reflexivity].
  - destruct (str_eqb k str_NAME); [reflexivity|]. destruct (ns_pol t); [reflexivity|]. destruct (str_eqb k str_IDENT); reflexivity.
Qed.

Lemma keyupd_name_erase s e c : name_key (data_erase s e str_NAME) c = keyupd (name_key s) e None c.
Proof. unfold name_key, keyupd. rewrite get_str_erase, str_eqb_refl, andb_true_r. destruct (Nat.eqb c e); reflexivity. Qed.
Lemma ident_key_name_erase s e c : ident_key (data_erase s e str_NAME) c = ident_key s c.
Proof. unfold ident_key. rewrite get_str_erase, ident_ne_name, andb_false_r. reflexivity. Qed.
Lemma keyupd_ident_erase s e c : ident_key (data_erase s e str_IDENT) c = keyupd (ident_key s) e None c.
Proof. unfold ident_key, keyupd. rewrite get_str_erase, str_eqb_refl, andb_true_r. destruct (Nat.eqb c e); reflexivity. Qed.
Lemma name_key_ident_erase s e c : name_key (data_erase s e str_IDENT) c = name_key s c.
Proof. unfold name_key. rewrite get_str_erase, name_ne_ident, andb_false_r. reflexivity. Qed.

(* the state after NamespaceManager.dictionary_delete for a name key, then the erase (or nothing) *)
Lemma nsinv_del_name_key s e k :
  Inv1a s -> InvT s -> NsInv s -> is_name_key k = true ->
  forall s2, nstab s2 = nstab (ns_remove_key s e k) -> data s2 = data s -> kids s2 = kids s ->
  NsInv (data_erase s2 e k) /\ (has_key s e k = false -> NsInv s2).
Proof.
  intros Ha HT H Hk s2 Ht2 Hd2 Hk2.
  assert (Hg2 : forall c k0, get_str s2 c k0 = get_str s c k0) by (intros; unfold get_str; rewrite Hd2; reflexivity).
  assert (Hfree : nstab (ns_remove_key s e k) = nstab s ->
                  (forall r' p', ns_rel r' = true -> kmem s r' p' e -> nstab s p' = None) ->
                  NsInv (data_erase s2 e k) /\ (has_key s e k = false -> NsInv s2)).
  { intros Hsame Hf. split; [|intros _].
    - apply (nsinv_kids s); [exact Hk2|]. apply (nsinvm_keyfree s (kmem s) e); [exact H|exact Hf|cbn; congruence|].
      intros c Hc. unfold name_key, ident_key. rewrite !get_str_erase, !Hg2. apply Nat.eqb_neq in Hc. rewrite Hc. split; reflexivity.
    - apply (nsinv_kids s); [exact Hk2|]. apply (nsinvm_same s); [exact H|intro; congruence|exact Hg2]. }
  unfold ns_remove_key in *.
  destruct (ns_parent s e) as [p|] eqn:Hpar.
  2:{ apply Hfree; [reflexivity|]. intros r' p' Hr' Hin. exfalso. apply (no_parent_free s e Ha HT Hpar r' p' Hr' Hin). }
  destruct (parent_scope s e p Ha HT Hpar) as [r [Hr [Hke [Hin Ho]]]]. rewrite Hke in *.
  destruct (nstab s p) as [t|] eqn:Htp.
  2:{ apply Hfree; [reflexivity|]. intros r' p' Hr' Hin'. destruct (Ho r' p' Hr' Hin') as [_ ->]. exact Htp. }
  set (t' := ns_remove t (rel_child r) k (get_str s e k)) in *.
  assert (Hother : forall r0, ns_rel r0 = true -> r0 <> r ->
            ns_names t' (rel_child r0) = ns_names t (rel_child r0) /\ ns_idents t' (rel_child r0) = ns_idents t (rel_child r0)).
  { intros r0 Hr0 Hne. assert (Hkk : kind_eqb (rel_child r0) (rel_child r) = false).
    { destruct (kind_eqb (rel_child r0) (rel_child r)) eqn:E; [|reflexivity]. apply kind_eqb_eq in E. exfalso. apply Hne. apply rel_child_inj; assumption. }
    unfold t'. rewrite ns_remove_names, ns_remove_idents, Hkk.
    split; [destruct (str_eqb k str_NAME); [destruct (get_str s e k)|]; reflexivity|].
    destruct (str_eqb k str_NAME); [reflexivity|]. destruct (ns_pol t); [reflexivity|]. destruct (str_eqb k str_IDENT); [destruct (get_str s e k)|]; reflexivity. }
  destruct (H p t Htp) as [T1 T2].
  (* the table after the removal is exact for "e has lost the key" *)
  assert (Hslots : SlotOK (ns_names t' (rel_child r)) (kmem s r p) (if str_eqb k str_NAME then keyupd (name_key s) e None else name_key s) /\
                   (ns_pol t = PolEdif -> SlotOK (ns_idents t' (rel_child r)) (kmem s r p) (if str_eqb k str_NAME then ident_key s else keyupd (ident_key s) e None))).
  { unfold t'. rewrite ns_remove_names, ns_remove_idents, kind_eqb_refl.
    destruct (is_name_key_cases k Hk) as [-> | ->].
    - rewrite str_eqb_refl. split; [|intro Hp; apply (T2 Hp r Hr)].
      pose proof (slot_erase _ _ (name_key s) e (T1 r Hr) Hin) as S. unfold name_key in S at 1. exact S.
    - rewrite ident_ne_name. split; [apply (T1 r Hr)|]. intro Hp. rewrite Hp, str_eqb_refl.
      pose proof (slot_erase _ _ (ident_key s) e (T2 Hp r Hr) Hin) as S. unfold ident_key in S at 1.
      destruct (get_str s e str_IDENT); exact S. }
  destruct Hslots as [S1 S2]. split.
  - (* erased *)
    apply (nsinv_kids s); [exact Hk2|].
    apply (nsinvm_keychange s (kmem s) e r p t t' _ H Htp Hr Ho); [cbn; rewrite Ht2; reflexivity|apply ns_remove_pol| |exact Hother| |].
    + intros c Hc. unfold name_key, ident_key. rewrite !get_str_erase, !Hg2. apply Nat.eqb_neq in Hc. rewrite Hc. split; reflexivity.
    + eapply slot_ext; [exact S1|tauto|]. intros c _.
      destruct (is_name_key_cases k Hk) as [-> | ->].
      * rewrite str_eqb_refl, keyupd_name_erase. unfold keyupd, name_key. rewrite Hg2. reflexivity.
      * rewrite ident_ne_name, name_key_ident_erase. unfold name_key. apply Hg2.
    + intro Hp. eapply slot_ext; [exact (S2 Hp)|tauto|]. intros c _.
      destruct (is_name_key_cases k Hk) as [-> | ->].
      * rewrite str_eqb_refl, ident_key_name_erase. unfold ident_key. rewrite Hg2. reflexivity.
      * rewrite ident_ne_name, keyupd_ident_erase. unfold keyupd, ident_key. rewrite Hg2. reflexivity.
  - (* the key is absent: the removal changed nothing in the table *)
    intro Habs. apply (nsinv_kids s); [exact Hk2|]. apply (nsinvm_same s); [exact H| |exact Hg2].
    intro y. rewrite Ht2. cbn. unfold upd. destruct (Nat.eqb_spec y p) as [->|]; [|reflexivity].
    rewrite Htp. f_equal. unfold t'. unfold has_key in Habs. unfold get_str.
    destruct (sassoc k (data s e)); [discriminate|]. reflexivity.
Qed.

Section DelPopNs.
  Variable mk : id -> str -> event.
  Let del (s : state) (e : id) (k : str) : R :=
    ns_dictionary_delete s e k >>= fun s1 =>
    let s2 := emit s1 (mk e k) in
    if has_key s2 e k then ret (data_erase s2 e k) else raise s2 XKey.

  Lemma nsinv_del s e k : Inv1a s -> InvT s -> NsInv s -> NsInv (fst (del s e k)).
  Proof.
    intros Ha HT H. unfold del, ns_dictionary_delete.
    destruct (str_eqb k str_NS) eqn:Ens.
    - apply str_eqb_spec in Ens. subst k.
      destruct (ns_parent s e); [exact H|].
      assert (H1 : NsInv (if has_key s e str_NS then drop_namespace s e else s)).
      { destruct (has_key s e str_NS); [apply (nsinv_nsq s); [apply nsq_drop_namespace|exact H]|exact H]. }
      destruct (has_key s e str_NS); cbn [bindR ret].
      + match goal with |- context [if ?b then _ else _] => destruct b end; cbn [fst ret raise].
        * apply (nsinv_nsq (drop_namespace s e)); [|exact H1]. eapply nsq_trans; [apply nsq_emit|apply nsq_erase_ns].
        * apply (nsinv_nsq (drop_namespace s e)); [apply nsq_emit|exact H1].
      + match goal with |- context [if ?b then _ else _] => destruct b end; cbn [fst ret raise].
        * apply (nsinv_nsq s); [|exact H1]. eapply nsq_trans; [apply nsq_emit|apply nsq_erase_ns].
        * apply (nsinv_nsq s); [apply nsq_emit|exact H1].
    - destruct (is_name_key k) eqn:Hk; cbn [bindR ret].
      + destruct (nsinv_del_name_key s e k Ha HT H Hk (emit (ns_remove_key s e k) (mk e k))) as [E1 E2].
        * reflexivity.
        * unfold ns_remove_key. destruct (ns_parent s e); [|reflexivity]. destruct (kind_of s e); [|reflexivity]. destruct (nstab s _); reflexivity.
        * unfold ns_remove_key. destruct (ns_parent s e); [|reflexivity]. destruct (kind_of s e); [|reflexivity]. destruct (nstab s _); reflexivity.
        * destruct (has_key (emit (ns_remove_key s e k) (mk e k)) e k) eqn:Hh; cbn [fst ret raise]; [exact E1|].
          apply E2. unfold has_key in *. cbn in Hh.
          replace (data (ns_remove_key s e k) e) with (data s e) in Hh; [exact Hh|].
          unfold ns_remove_key. destruct (ns_parent s e); [|reflexivity]. destruct (kind_of s e); [|reflexivity]. destruct (nstab s _); reflexivity.
      + match goal with |- context [if ?b then _ else _] => destruct b end; cbn [fst ret raise].
        * apply (nsinv_nsq s); [|exact H]. eapply nsq_trans; [apply nsq_emit|apply nsq_erase_other; exact Hk].
        * apply (nsinv_nsq s); [apply nsq_emit|exact H].
  Qed.
End DelPopNs.

Lemma nsinv_dict_del s e k : Inv1a s -> InvT s -> NsInv s -> NsInv (fst (dict_del s e k)).
Proof. exact (nsinv_del EDictDel s e k). Qed.
Lemma nsinv_dict_pop s e k : Inv1a s -> InvT s -> NsInv s -> NsInv (fst (dict_pop s e k)).
Proof. exact (nsinv_del EDictPop s e k). Qed.

(* ---- tables outside the subtree are not touched by a policy change below ---- *)
Lemma drop_namespace_tab_other s e y : ~ In y (subtree s e) -> nstab (drop_namespace s e) y = nstab s y.
Proof.
  unfold drop_namespace. generalize (subtree s e) as xs. intros xs Hn. revert s.
  induction xs as [|x xs IH]; intro s; cbn [fold_left]; [reflexivity|].
  rewrite IH by (intro H; apply Hn; right; exact H).
  assert (Hxy : y <> x) by (intros ->; apply Hn; left; reflexivity).
  destruct (_ && _); cbn; unfold upd; apply Nat.eqb_neq in Hxy; rewrite Hxy; reflexivity.
Qed.

Lemma apply_namespace_tab_other pl s e y : ~ In y (subtree s e) -> nstab (apply_namespace pl s e) y = nstab s y.
Proof.
  intro Hn. destruct (apply_namespace_spec pl s e) as [_ [_ [_ [_ Ht]]]]. rewrite Ht.
  destruct (memb y (subtree s e)) eqn:E; [apply memb_In in E; contradiction|reflexivity].
Qed.

(* the parent of a scope is never inside the subtree of one of its (future) children *)
Lemma subtree_kinds s c y : InvT s -> In y (subtree s c) ->
  y = c \/ (exists r p, In y (kids s r p) /\ ns_rel r = true /\
            (kind_of s c = Some KNetlist \/ (kind_of s c = Some KLibrary /\ r <> RLibs) \/
             (kind_of s c = Some KDefinition /\ r <> RLibs /\ r <> RDefs))).
Proof.
  intros HT Hy. unfold subtree in Hy. destruct (kind_of s c) as [k|] eqn:Hk; [|destruct Hy as [<-|[]]; auto].
  destruct k; try (destruct Hy as [<-|[]]; auto; fail).
  - destruct Hy as [<-|Hy]; [auto|]. right. apply in_flat_map in Hy as [l [Hl Hy]].
    destruct Hy as [<-|Hy]; [exists RLibs, c; auto|].
    apply in_flat_map in Hy as [d [Hd Hy]]. destruct Hy as [<-|Hy]; [exists RDefs, l; auto|].
    apply in_app_or in Hy as [Hy|Hy]; [exists RPorts, d; auto|].
    apply in_app_or in Hy as [Hy|Hy]; [exists RCables, d; auto|exists RChildren, d; auto].
  - destruct Hy as [<-|Hy]; [auto|]. right.
    apply in_flat_map in Hy as [d [Hd Hy]]. destruct Hy as [<-|Hy].
    + exists RDefs, c. split; [exact Hd|]. split; [reflexivity|]. right. left. split; [reflexivity|discriminate].
    + apply in_app_or in Hy as [Hy|Hy]; [exists RPorts, d|apply in_app_or in Hy as [Hy|Hy]; [exists RCables, d|exists RChildren, d]];
        (split; [exact Hy|]; split; [reflexivity|]; right; left; split; [reflexivity|discriminate]).
  - destruct Hy as [<-|Hy]; [auto|]. right.
    apply in_app_or in Hy as [Hy|Hy]; [exists RPorts, c|apply in_app_or in Hy as [Hy|Hy]; [exists RCables, c|exists RChildren, c]];
      (split; [exact Hy|]; split; [reflexivity|]; right; right; split; [reflexivity|split; discriminate]).
Qed.

Lemma parent_not_in_subtree s r p c : InvT s ->
  ns_rel r = true -> kind_of s p = Some (rel_parent r) -> kind_of s c = Some (rel_child r) -> ~ In p (subtree s c).
Proof.
  intros HT Hr Hkp Hkc Hin. destruct (subtree_kinds s c p HT Hin) as [->|[r0 [p0 [Hy [Hr0 Hcase]]]]].
  - rewrite Hkp in Hkc. injection Hkc as E. destruct r; cbn in *; discriminate.
  - destruct (HT r0 p0 p Hy) as [Hk _]. rewrite Hkp in Hk. injection Hk as Hk.
    rewrite Hkc in Hcase. destruct Hcase as [E|[[E N]|[E [N1 N2]]]]; injection E as E;
      destruct r, r0; cbn in *; try discriminate; try contradiction.
Qed.
