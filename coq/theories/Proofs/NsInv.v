(* C10: the tables of the namespace manager are exactly the names (and case-folded identifiers)
   of the children - for every parent that carries a naming policy, after every history. *)
From Coq Require Import List Arith Bool Setoid Lia.
From RecordUpdate Require Import RecordSet.
From SV Require Import Base.Base IR.State IR.NS IR.Ops Proofs.AssocX Proofs.Frame Proofs.Inv1a Proofs.Inv2a
  Proofs.InvP Proofs.InvW Proofs.Refused Proofs.Fresh Proofs.NsSlot Proofs.Ident.
Import ListNotations RecordSetNotations.

Definition name_key (s : state) (c : id) : option str := get_str s c str_NAME.
Definition ident_key (s : state) (c : id) : option str := option_map lower (get_str s c str_IDENT).

Definition Mem := rel -> id -> id -> Prop.
Definition kmem (s : state) : Mem := fun r p c => In c (kids s r p).

Record TabOK (s : state) (M : Mem) (p : id) (t : nstable) : Prop := mkTabOK {
  tk_names : forall r, ns_rel r = true -> SlotOK (ns_names t (rel_child r)) (M r p) (name_key s);
  tk_idents : ns_pol t = PolEdif ->
              forall r, ns_rel r = true -> SlotOK (ns_idents t (rel_child r)) (M r p) (ident_key s)
}.

Definition NsInvM (s : state) (M : Mem) : Prop := forall p t, nstab s p = Some t -> TabOK s M p t.
Definition NsInv (s : state) : Prop := NsInvM s (kmem s).

(* typing of containment: children have the kind of their relation *)
Definition InvT (s : state) : Prop :=
  forall r p c, In c (kids s r p) -> kind_of s c = Some (rel_child r) /\ kind_of s p = Some (rel_parent r).

Lemma tabok_ext s s' (M M' : Mem) p t :
  TabOK s M p t ->
  (forall r c, ns_rel r = true -> (M' r p c <-> M r p c)) ->
  (forall r c, ns_rel r = true -> M r p c -> name_key s' c = name_key s c /\ ident_key s' c = ident_key s c) ->
  TabOK s' M' p t.
Proof.
  intros [H1 H2] Hm Hk. constructor.
  - intros r Hr. eapply slot_ext; [apply (H1 r Hr)|intro c; apply (Hm r c Hr)|]. intros c Hc. apply (Hk r c Hr Hc).
  - intros Hp r Hr. eapply slot_ext; [apply (H2 Hp r Hr)|intro c; apply (Hm r c Hr)|]. intros c Hc. apply (Hk r c Hr Hc).
Qed.

Lemma rel_eq_dec (a b : rel) : {a = b} + {a <> b}.
Proof. decide equality. Qed.

Lemma rel_child_inj r r' : ns_rel r = true -> ns_rel r' = true -> rel_child r = rel_child r' -> r = r'.
Proof. destruct r, r'; cbn; congruence. Qed.

Lemma updk_same {A} (f : kind -> A) k v : updk f k v k = v.
Proof. unfold updk. destruct k; reflexivity. Qed.
Lemma updk_other {A} (f : kind -> A) k v k' : k' <> k -> updk f k v k' = f k'.
Proof. unfold updk. intro H. destruct (kind_eqb k' k) eqn:E; [|reflexivity]. destruct k', k; cbn in E; congruence. Qed.

(* ---- keys after a raw write ---- *)
Lemma get_str_write s e k v c k' :
  get_str (data_write s e k v) c k' =
  if Nat.eqb c e && str_eqb k' k then match v with VStr x => Some x | _ => None end else get_str s c k'.
Proof.
  unfold get_str, data_write. cbn. unfold upd. destruct (Nat.eqb_spec c e) as [->|]; cbn [andb]; [|reflexivity].
  destruct (str_eqb k' k) eqn:E.
  - apply str_eqb_spec in E. subst. rewrite sassoc_set_same. reflexivity.
  - rewrite sassoc_set_other; [reflexivity|]. intro; subst. rewrite str_eqb_refl in E. discriminate.
Qed.

Lemma get_str_erase s e k c k' :
  get_str (data_erase s e k) c k' = if Nat.eqb c e && str_eqb k' k then None else get_str s c k'.
Proof.
  unfold get_str, data_erase. cbn. unfold upd. destruct (Nat.eqb_spec c e) as [->|]; cbn [andb]; [|reflexivity].
  destruct (str_eqb k' k) eqn:E.
  - apply str_eqb_spec in E. subst. rewrite sassoc_del_same. reflexivity.
  - rewrite sassoc_del_other; [reflexivity|]. intro; subst. rewrite str_eqb_refl in E. discriminate.
Qed.

Lemma name_ne_ident : str_eqb str_NAME str_IDENT = false. Proof. reflexivity. Qed.
Lemma ident_ne_name : str_eqb str_IDENT str_NAME = false. Proof. reflexivity. Qed.
Lemma ns_ne_name : str_eqb str_NS str_NAME = false. Proof. reflexivity. Qed.
Lemma ns_ne_ident : str_eqb str_NS str_IDENT = false. Proof. reflexivity. Qed.
Lemma name_ne_ns : str_eqb str_NAME str_NS = false. Proof. reflexivity. Qed.
Lemma ident_ne_ns : str_eqb str_IDENT str_NS = false. Proof. reflexivity. Qed.

(* a write under a key that is neither .NAME nor EDIF.identifier, or on a non-member, changes no key *)
Lemma keys_write_other s e k v c :
  is_name_key k = false -> name_key (data_write s e k v) c = name_key s c /\ ident_key (data_write s e k v) c = ident_key s c.
Proof.
  intro Hk. unfold is_name_key in Hk. apply orb_false_iff in Hk as [H1 H2].
  unfold name_key, ident_key. rewrite !get_str_write.
  assert (E1 : str_eqb str_NAME k = false) by (destruct (str_eqb str_NAME k) eqn:E; [apply str_eqb_spec in E; subst; rewrite str_eqb_refl in H1; discriminate|reflexivity]).
  assert (E2 : str_eqb str_IDENT k = false) by (destruct (str_eqb str_IDENT k) eqn:E; [apply str_eqb_spec in E; subst; rewrite str_eqb_refl in H2; discriminate|reflexivity]).
  rewrite E1, E2, !andb_false_r. split; reflexivity.
Qed.

Lemma keys_erase_other s e k c :
  is_name_key k = false -> name_key (data_erase s e k) c = name_key s c /\ ident_key (data_erase s e k) c = ident_key s c.
Proof.
  intro Hk. unfold is_name_key in Hk. apply orb_false_iff in Hk as [H1 H2].
  unfold name_key, ident_key. rewrite !get_str_erase.
  assert (E1 : str_eqb str_NAME k = false) by (destruct (str_eqb str_NAME k) eqn:E; [apply str_eqb_spec in E; subst; rewrite str_eqb_refl in H1; discriminate|reflexivity]).
  assert (E2 : str_eqb str_IDENT k = false) by (destruct (str_eqb str_IDENT k) eqn:E; [apply str_eqb_spec in E; subst; rewrite str_eqb_refl in H2; discriminate|reflexivity]).
  rewrite E1, E2, !andb_false_r. split; reflexivity.
Qed.

(* states that agree on tables and keys *)
Lemma nsinvm_same s s' M :
  NsInvM s M -> (forall y, nstab s' y = nstab s y) -> (forall c k, get_str s' c k = get_str s c k) -> NsInvM s' M.
Proof.
  intros H Ht Hg p t Hp. rewrite (Ht p) in Hp. apply (tabok_ext s s' M M p t (H p t Hp)); [tauto|].
  intros. unfold name_key, ident_key. rewrite !Hg. split; reflexivity.
Qed.

Lemma nsinvm_data_same s s' M : NsInvM s M -> nstab s' = nstab s -> data s' = data s -> NsInvM s' M.
Proof. intros H Ht Hd. apply (nsinvm_same s); [exact H|intro; rewrite Ht; reflexivity|]. intros. unfold get_str. rewrite Hd. reflexivity. Qed.

(* e is a member of at most the scope (r, p) *)
Definition only_in (M : Mem) (e : id) (r : rel) (p : id) : Prop :=
  forall r' p', ns_rel r' = true -> M r' p' e -> r' = r /\ p' = p.

Definition nowhere (M : Mem) (e : id) : Prop := forall r' p', ns_rel r' = true -> ~ M r' p' e.

Lemma keyupd_name_write s e v c :
  name_key (data_write s e str_NAME (VStr v)) c = keyupd (name_key s) e (Some v) c.
Proof. unfold name_key, keyupd. rewrite get_str_write, str_eqb_refl, andb_true_r. destruct (Nat.eqb c e); reflexivity. Qed.

Lemma ident_key_name_write s e v c : ident_key (data_write s e str_NAME v) c = ident_key s c.
Proof. unfold ident_key. rewrite get_str_write, ident_ne_name, andb_false_r. reflexivity. Qed.

Lemma keyupd_ident_write s e v c :
  ident_key (data_write s e str_IDENT (VStr v)) c = keyupd (ident_key s) e (Some (lower v)) c.
Proof. unfold ident_key, keyupd. rewrite get_str_write, str_eqb_refl, andb_true_r. destruct (Nat.eqb c e); reflexivity. Qed.

Lemma name_key_ident_write s e v c : name_key (data_write s e str_IDENT v) c = name_key s c.
Proof. unfold name_key. rewrite get_str_write, name_ne_ident, andb_false_r. reflexivity. Qed.

Lemma keyupd_other keyof e v c : c <> e -> keyupd keyof e v c = keyof c.
Proof. intro H. unfold keyupd. apply Nat.eqb_neq in H. rewrite H. reflexivity. Qed.

(* element[".NAME"] = v accepted by the parent's table *)
Lemma nsinvm_rename s M e r p t v s0 :
  NsInvM s M -> nstab s p = Some t -> ns_rel r = true -> M r p e -> only_in M e r p ->
  (forall x, sassoc v (ns_names t (rel_child r)) = Some x -> x = e) ->
  nstab s0 = upd (nstab s) p (Some (ns_update t (rel_child r) e str_NAME (get_str s e str_NAME) v)) ->
  data s0 = data s ->
  NsInvM (data_write s0 e str_NAME (VStr v)) M.
Proof.
  intros H Hp Hr He Ho Hc Ht0 Hd0 p' t' Hp'. cbn in Hp'. rewrite Ht0 in Hp'. unfold upd in Hp'.
  assert (Hg0 : forall c k, get_str s0 c k = get_str s c k) by (intros; unfold get_str; rewrite Hd0; reflexivity).
  assert (Hnk : forall c, name_key (data_write s0 e str_NAME (VStr v)) c = keyupd (name_key s) e (Some v) c).
  { intro c. rewrite keyupd_name_write. unfold keyupd, name_key. rewrite Hg0. reflexivity. }
  assert (Hik : forall c, ident_key (data_write s0 e str_NAME (VStr v)) c = ident_key s c).
  { intro c. rewrite ident_key_name_write. unfold ident_key. rewrite Hg0. reflexivity. }
  destruct (Nat.eqb_spec p' p) as [->|Hne].
  - injection Hp' as <-. destruct (H p t Hp) as [T1 T2].
    unfold ns_update. rewrite str_eqb_refl. constructor; cbn [ns_names ns_idents ns_pol].
    + intros r0 Hr0. destruct (rel_eq_dec r0 r) as [->|Hrr].
      * rewrite updk_same. eapply slot_ext; [apply (slot_replace _ _ _ e v (T1 r Hr) He Hc)|tauto|].
        intros c _. apply Hnk.
      * rewrite updk_other by (intro E; apply Hrr; apply rel_child_inj; assumption).
        eapply slot_ext; [apply (T1 r0 Hr0)|tauto|]. intros c Hc0. rewrite Hnk. apply keyupd_other.
        intros ->. destruct (Ho r0 p Hr0 Hc0) as [E _]. contradiction.
    + intros Hpol r0 Hr0. eapply slot_ext; [apply (T2 Hpol r0 Hr0)|tauto|]. intros c _. apply Hik.
  - destruct (H p' t' Hp') as [T1 T2]. constructor.
    + intros r0 Hr0. eapply slot_ext; [apply (T1 r0 Hr0)|tauto|]. intros c Hc0. rewrite Hnk. apply keyupd_other.
      intros ->. destruct (Ho r0 p' Hr0 Hc0) as [_ E]. contradiction.
    + intros Hpol r0 Hr0. eapply slot_ext; [apply (T2 Hpol r0 Hr0)|tauto|]. intros c _. apply Hik.
Qed.

(* the general shape: one member e of scope (r, p) changes a key, the table of p is replaced *)
Lemma nsinvm_keychange s M e r p t t' s' :
  NsInvM s M -> nstab s p = Some t -> ns_rel r = true -> only_in M e r p ->
  nstab s' = upd (nstab s) p (Some t') -> ns_pol t' = ns_pol t ->
  (forall c, c <> e -> name_key s' c = name_key s c /\ ident_key s' c = ident_key s c) ->
  (forall r0, ns_rel r0 = true -> r0 <> r ->
     ns_names t' (rel_child r0) = ns_names t (rel_child r0) /\ ns_idents t' (rel_child r0) = ns_idents t (rel_child r0)) ->
  SlotOK (ns_names t' (rel_child r)) (M r p) (name_key s') ->
  (ns_pol t = PolEdif -> SlotOK (ns_idents t' (rel_child r)) (M r p) (ident_key s')) ->
  NsInvM s' M.
Proof.
  intros H Hp Hr Ho Ht' Hpol Hk Hother Hn Hi p' t'' Hp'. rewrite Ht' in Hp'. unfold upd in Hp'.
  destruct (Nat.eqb_spec p' p) as [->|Hne].
  - injection Hp' as <-. destruct (H p t Hp) as [T1 T2]. constructor.
    + intros r0 Hr0. destruct (rel_eq_dec r0 r) as [->|Hrr]; [exact Hn|].
      rewrite (proj1 (Hother r0 Hr0 Hrr)). eapply slot_ext; [apply (T1 r0 Hr0)|tauto|].
      intros c Hc0. apply Hk. intros ->. destruct (Ho r0 p Hr0 Hc0) as [E _]. contradiction.
    + rewrite Hpol. intros Hpe r0 Hr0. destruct (rel_eq_dec r0 r) as [->|Hrr]; [exact (Hi Hpe)|].
      rewrite (proj2 (Hother r0 Hr0 Hrr)). eapply slot_ext; [apply (T2 Hpe r0 Hr0)|tauto|].
      intros c Hc0. apply Hk. intros ->. destruct (Ho r0 p Hr0 Hc0) as [E _]. contradiction.
  - apply (tabok_ext s s' M M p' t'' (H p' t'' Hp')); [tauto|].
    intros r0 c Hr0 Hc0. apply Hk. intros ->. destruct (Ho r0 p' Hr0 Hc0) as [_ E]. contradiction.
Qed.

(* a key of e changes while e is in no scope that has a table *)
Lemma nsinvm_keyfree s M e s' :
  NsInvM s M -> (forall r' p', ns_rel r' = true -> M r' p' e -> nstab s p' = None) ->
  nstab s' = nstab s ->
  (forall c, c <> e -> name_key s' c = name_key s c /\ ident_key s' c = ident_key s c) ->
  NsInvM s' M.
Proof.
  intros H Hfree Ht Hk p' t' Hp'. rewrite Ht in Hp'.
  apply (tabok_ext s s' M M p' t' (H p' t' Hp')); [tauto|].
  intros r0 c Hr0 Hc0. apply Hk. intros ->. rewrite (Hfree r0 p' Hr0 Hc0) in Hp'. discriminate.
Qed.

Lemma ns_update_pol t ek e k old v : ns_pol (ns_update t ek e k old v) = ns_pol t.
Proof. unfold ns_update. destruct (str_eqb k str_NAME); [reflexivity|]. destruct (ns_pol t) eqn:E; [exact E|]. destruct (str_eqb k str_IDENT); [reflexivity|exact E]. Qed.

Lemma ns_remove_pol t ek k old : ns_pol (ns_remove t ek k old) = ns_pol t.
Proof. unfold ns_remove. destruct old; [|reflexivity]. destruct (str_eqb k str_NAME); [reflexivity|]. destruct (ns_pol t) eqn:E; [exact E|]. destruct (str_eqb k str_IDENT); [reflexivity|exact E]. Qed.

(* ---- changes that cannot hurt: tables dropped or kept, name keys untouched ---- *)
Record nsq (s s' : state) : Prop := mkNsq {
  nq_kids : kids s' = kids s;
  nq_kind : kind_of s' = kind_of s;
  nq_par : par s' = par s;
  nq_name : forall c, name_key s' c = name_key s c;
  nq_ident : forall c, ident_key s' c = ident_key s c;
  nq_tab : forall y, nstab s' y = nstab s y \/ nstab s' y = None
}.

Lemma nsq_refl s : nsq s s.
Proof. constructor; intros; auto. Qed.

Lemma nsq_trans s1 s2 s3 : nsq s1 s2 -> nsq s2 s3 -> nsq s1 s3.
Proof.
  intros [A1 A2 A3 A4 A5 A6] [B1 B2 B3 B4 B5 B6]. constructor.
  - congruence.
  - congruence.
  - congruence.
  - intro x. rewrite (B4 x). apply A4.
  - intro x. rewrite (B5 x). apply A5.
  - intro y. destruct (B6 y) as [E|E]; [rewrite E; apply A6|right; exact E].
Qed.

Lemma nsq_nsinvm s s' M : nsq s s' -> NsInvM s M -> NsInvM s' M.
Proof.
  intros [_ _ _ Q4 Q5 Q6] H p t Hp. destruct (Q6 p) as [E|E]; [|congruence]. rewrite E in Hp.
  apply (tabok_ext s s' M M p t (H p t Hp)); [tauto|]. intros. split; [apply Q4|apply Q5].
Qed.

Lemma nsq_fold_left {A} (f : state -> A -> state) l : (forall s x, nsq s (f s x)) -> forall s, nsq s (fold_left f l s).
Proof. intro H. induction l as [|x l IH]; intro s; cbn; [apply nsq_refl|]. eapply nsq_trans; [apply H|apply IH]. Qed.

Lemma nsq_fields s s' :
  kids s' = kids s -> kind_of s' = kind_of s -> par s' = par s -> data s' = data s -> nstab s' = nstab s -> nsq s s'.
Proof.
  intros A B C D E. constructor; try assumption; intros; unfold name_key, ident_key, get_str; rewrite ?D, ?E; auto.
Qed.

Lemma nsq_emit s ev : nsq s (emit s ev).
Proof. apply nsq_fields; reflexivity. Qed.

Lemma nsq_erase_ns s e : nsq s (data_erase s e str_NS).
Proof.
  constructor; try reflexivity; intros; try (left; reflexivity);
    apply (keys_erase_other s e str_NS); reflexivity.
Qed.

Lemma nsq_write_ns s e v : nsq s (data_write s e str_NS v).
Proof.
  constructor; try reflexivity; intros; try (left; reflexivity);
    apply (keys_write_other s e str_NS v); reflexivity.
Qed.

Lemma nsq_drop_table s x : nsq s (set_nstab s x None).
Proof.
  constructor; try reflexivity. intro y. cbn. unfold upd. destruct (Nat.eqb y x); [right|left]; reflexivity.
Qed.

Lemma nsq_drop_namespace s e : nsq s (drop_namespace s e).
Proof.
  unfold drop_namespace. apply nsq_fold_left. intros s0 x.
  destruct (_ && _).
  - eapply nsq_trans; [apply nsq_drop_table|]. eapply nsq_trans; [apply nsq_emit|apply nsq_erase_ns].
  - apply nsq_drop_table.
Qed.

(* ---- _update_new_namespace ---- *)
Lemma kind_eqb_refl k : kind_eqb k k = true. Proof. destruct k; reflexivity. Qed.
Lemma kind_eqb_eq a b : kind_eqb a b = true -> a = b. Proof. destruct a, b; cbn; congruence. Qed.

Lemma populate_step_names s ck x t k' :
  ns_names (match get_str s x str_IDENT with
            | Some v => ns_update (match truthy_name s x with Some nm => ns_update t ck x str_NAME (get_str s x str_NAME) nm | None => t end) ck x str_IDENT (Some v) v
            | None => match truthy_name s x with Some nm => ns_update t ck x str_NAME (get_str s x str_NAME) nm | None => t end
            end) k' =
  if kind_eqb k' ck then slot_ins (name_key s) (ns_names t ck) x else ns_names t k'.
Proof.
  assert (H1 : forall t0 v, ns_names (ns_update t0 ck x str_IDENT (Some v) v) k' = ns_names t0 k').
  { intros t0 v. unfold ns_update. rewrite ident_ne_name. destruct (ns_pol t0); [reflexivity|]. rewrite str_eqb_refl. reflexivity. }
  assert (H2 : ns_names (match truthy_name s x with Some nm => ns_update t ck x str_NAME (get_str s x str_NAME) nm | None => t end) k' =
               if kind_eqb k' ck then slot_ins (name_key s) (ns_names t ck) x else ns_names t k').
  { unfold truthy_name, slot_ins, name_key. destruct (get_str s x str_NAME) as [nm|].
    - unfold ns_update. rewrite str_eqb_refl. cbn. unfold updk. destruct (kind_eqb k' ck); reflexivity.
    - destruct (kind_eqb k' ck) eqn:E; [apply kind_eqb_eq in E; subst; reflexivity|reflexivity]. }
  destruct (get_str s x str_IDENT); [rewrite H1|]; exact H2.
Qed.

Lemma populate_step_idents s ck x t k' :
  ns_idents (match get_str s x str_IDENT with
            | Some v => ns_update (match truthy_name s x with Some nm => ns_update t ck x str_NAME (get_str s x str_NAME) nm | None => t end) ck x str_IDENT (Some v) v
            | None => match truthy_name s x with Some nm => ns_update t ck x str_NAME (get_str s x str_NAME) nm | None => t end
            end) k' =
  match ns_pol t with
  | PolEdif => if kind_eqb k' ck then slot_ins (ident_key s) (ns_idents t ck) x else ns_idents t k'
  | PolDefault => ns_idents t k'
  end.
Proof.
  set (t1 := match truthy_name s x with Some nm => ns_update t ck x str_NAME (get_str s x str_NAME) nm | None => t end).
  assert (H1 : ns_idents t1 = ns_idents t /\ ns_pol t1 = ns_pol t).
  { unfold t1. destruct (truthy_name s x); [|split; reflexivity]. unfold ns_update. rewrite str_eqb_refl. split; reflexivity. }
  destruct H1 as [H1 H1p].
  unfold slot_ins, ident_key. destruct (get_str s x str_IDENT) as [v|]; cbn [option_map].
  - unfold ns_update. rewrite ident_ne_name, H1p. destruct (ns_pol t); [rewrite H1; reflexivity|].
    rewrite str_eqb_refl. cbn. unfold updk. rewrite H1. destruct (kind_eqb k' ck); reflexivity.
  - rewrite H1. destruct (ns_pol t); [reflexivity|]. destruct (kind_eqb k' ck) eqn:E; [apply kind_eqb_eq in E; subst; reflexivity|reflexivity].
Qed.

Lemma populate_pol s ck : forall xs t, ns_pol (populate s ck xs t) = ns_pol t.
Proof.
  unfold populate. induction xs as [|x xs IH]; intro t; cbn [fold_left]; [reflexivity|]. rewrite IH.
  destruct (get_str s x str_IDENT); rewrite ?ns_update_pol; destruct (truthy_name s x); rewrite ?ns_update_pol; reflexivity.
Qed.

Lemma populate_names s ck : forall xs t k',
  ns_names (populate s ck xs t) k' =
  if kind_eqb k' ck then fold_left (slot_ins (name_key s)) xs (ns_names t ck) else ns_names t k'.
Proof.
  unfold populate. induction xs as [|x xs IH]; intros t k'; cbn [fold_left].
  - destruct (kind_eqb k' ck) eqn:E; [apply kind_eqb_eq in E; subst; reflexivity|reflexivity].
  - rewrite IH. rewrite !populate_step_names, kind_eqb_refl. destruct (kind_eqb k' ck); reflexivity.
Qed.

Lemma populate_idents s ck : forall xs t k',
  ns_idents (populate s ck xs t) k' =
  match ns_pol t with
  | PolEdif => if kind_eqb k' ck then fold_left (slot_ins (ident_key s)) xs (ns_idents t ck) else ns_idents t k'
  | PolDefault => ns_idents t k'
  end.
Proof.
  unfold populate. induction xs as [|x xs IH]; intros t k'; cbn [fold_left].
  - destruct (ns_pol t); [reflexivity|]. destruct (kind_eqb k' ck) eqn:E; [apply kind_eqb_eq in E; subst; reflexivity|reflexivity].
  - rewrite IH. 
    match goal with |- context [ns_pol ?t1] => assert (Hp : ns_pol t1 = ns_pol t) end.
    { destruct (get_str s x str_IDENT); rewrite ?ns_update_pol; destruct (truthy_name s x); rewrite ?ns_update_pol; reflexivity. }
    rewrite Hp. rewrite !populate_step_idents. destruct (ns_pol t); [reflexivity|]. rewrite kind_eqb_refl. destruct (kind_eqb k' ck); reflexivity.
Qed.

(* ---- a table built from the child lists is exact when the lists have no conflicts ---- *)
Lemma names_of_keys s xs : names_of s str_NAME xs = keys_of (name_key s) xs.
Proof. reflexivity. Qed.

Lemma idents_of_keys s : forall xs, map lower (names_of s str_IDENT xs) = keys_of (ident_key s) xs.
Proof.
  induction xs as [|x xs IH]; [reflexivity|]. unfold names_of, keys_of in *. cbn [flat_map].
  rewrite map_app, IH. unfold ident_key. destruct (get_str s x str_IDENT); reflexivity.
Qed.

Lemma no_conflicts_names pl s xs : NoDup xs -> list_no_conflicts pl s xs = true -> keys_distinct (name_key s) xs.
Proof.
  intros Hnd H. unfold list_no_conflicts in H. apply andb_true_iff in H as [H _].
  apply keys_of_distinct; [exact Hnd|]. rewrite <- names_of_keys. apply strs_nodup_spec. exact H.
Qed.

Lemma no_conflicts_idents s xs : NoDup xs -> list_no_conflicts PolEdif s xs = true -> keys_distinct (ident_key s) xs.
Proof.
  intros Hnd H. unfold list_no_conflicts in H. apply andb_true_iff in H as [_ H].
  apply keys_of_distinct; [exact Hnd|]. rewrite <- idents_of_keys. apply strs_nodup_spec. exact H.
Qed.

Lemma slot_no_kids s r y keyof : kids s r y = [] -> SlotOK [] (kmem s r y) keyof.
Proof. intros E k c. unfold kmem. rewrite E. cbn. split; [discriminate|tauto]. Qed.

(* one populated slot *)
Lemma populated_slot_names pl s r y :
  NoDup (kids s r y) -> list_no_conflicts pl s (kids s r y) = true ->
  SlotOK (fold_left (slot_ins (name_key s)) (kids s r y) []) (kmem s r y) (name_key s).
Proof. intros Hnd Hc. apply slot_populate; [exact Hnd|apply (no_conflicts_names pl); assumption]. Qed.

Lemma populated_slot_idents s r y :
  NoDup (kids s r y) -> list_no_conflicts PolEdif s (kids s r y) = true ->
  SlotOK (fold_left (slot_ins (ident_key s)) (kids s r y) []) (kmem s r y) (ident_key s).
Proof. intros Hnd Hc. apply slot_populate; [exact Hnd|apply no_conflicts_idents; assumption]. Qed.

Lemma kids_wrong_kind s r y k : InvT s -> kind_of s y = Some k -> rel_parent r <> k -> kids s r y = [].
Proof.
  intros HT Hk Hne. destruct (kids s r y) as [|c l] eqn:E; [reflexivity|]. exfalso.
  destruct (HT r y c) as [_ H]; [rewrite E; left; reflexivity|]. congruence.
Qed.

Lemma fresh_table_ok pl s y t :
  Inv1a s -> InvT s -> fresh_table pl s y = Some t ->
  (forall r, ns_rel r = true -> kind_of s y = Some (rel_parent r) -> list_no_conflicts pl s (kids s r y) = true) ->
  TabOK s (kmem s) y t /\ ns_pol t = pl.
Proof.
  intros Ha HT Hf Hc. unfold fresh_table in Hf.
  destruct (kind_of s y) as [ky|] eqn:Hk; [|discriminate].
  assert (Hnd : forall r, NoDup (kids s r y)) by (intro r; apply (i1_nodup s Ha)).
  destruct ky; try discriminate; injection Hf as <-.
  - (* netlist *)
    split; [|rewrite populate_pol; reflexivity]. constructor.
    + intros r Hr. rewrite populate_names. destruct r; try discriminate Hr; cbn [rel_child kind_eqb ns_names empty_ns];
        try (apply slot_no_kids; apply (kids_wrong_kind s _ y KNetlist HT Hk); discriminate).
      apply (populated_slot_names pl); [apply Hnd|apply Hc; reflexivity].
    + rewrite populate_pol. cbn [ns_pol empty_ns]. intros -> r Hr. rewrite populate_idents. cbn [ns_pol empty_ns].
      destruct r; try discriminate Hr; cbn [rel_child kind_eqb ns_idents empty_ns];
        try (apply slot_no_kids; apply (kids_wrong_kind s _ y KNetlist HT Hk); discriminate).
      apply populated_slot_idents; [apply Hnd|apply Hc; reflexivity].
  - (* library *)
    split; [|rewrite populate_pol; reflexivity]. constructor.
    + intros r Hr. rewrite populate_names. destruct r; try discriminate Hr; cbn [rel_child kind_eqb ns_names empty_ns];
        try (apply slot_no_kids; apply (kids_wrong_kind s _ y KLibrary HT Hk); discriminate).
      apply (populated_slot_names pl); [apply Hnd|apply Hc; reflexivity].
    + rewrite populate_pol. cbn [ns_pol empty_ns]. intros -> r Hr. rewrite populate_idents. cbn [ns_pol empty_ns].
      destruct r; try discriminate Hr; cbn [rel_child kind_eqb ns_idents empty_ns];
        try (apply slot_no_kids; apply (kids_wrong_kind s _ y KLibrary HT Hk); discriminate).
      apply populated_slot_idents; [apply Hnd|apply Hc; reflexivity].
  - (* definition: three populated slots *)
    split; [|rewrite !populate_pol; reflexivity]. constructor.
    + intros r Hr. rewrite !populate_names. destruct r; try discriminate Hr; cbn [rel_child kind_eqb ns_names empty_ns];
        try (apply slot_no_kids; apply (kids_wrong_kind s _ y KDefinition HT Hk); discriminate);
        (apply (populated_slot_names pl); [apply Hnd|apply Hc; reflexivity]).
    + rewrite !populate_pol. cbn [ns_pol empty_ns]. intros -> r Hr. rewrite !populate_idents, !populate_pol. cbn [ns_pol empty_ns].
      destruct r; try discriminate Hr; cbn [rel_child kind_eqb ns_idents empty_ns];
        try (apply slot_no_kids; apply (kids_wrong_kind s _ y KDefinition HT Hk); discriminate);
        (apply populated_slot_idents; [apply Hnd|apply Hc; reflexivity]).
Qed.

(* ---- apply_namespace: every element of the subtree gets the policy; containers get a fresh table ---- *)
Definition gsame (s s' : state) : Prop :=
  forall c, get_str s' c str_NAME = get_str s c str_NAME /\ get_str s' c str_IDENT = get_str s c str_IDENT.

Lemma populate_ext s s' ck : gsame s s' -> forall xs t, populate s' ck xs t = populate s ck xs t.
Proof.
  intro G. unfold populate. induction xs as [|x xs IH]; intro t; cbn [fold_left]; [reflexivity|].
  unfold truthy_name. destruct (G x) as [-> ->]. apply IH.
Qed.

Lemma fresh_table_ext pl s s' x :
  kids s' = kids s -> kind_of s' = kind_of s -> gsame s s' -> fresh_table pl s' x = fresh_table pl s x.
Proof.
  intros Hk Hkd G. unfold fresh_table. rewrite Hkd, Hk.
  destruct (kind_of s x) as [[]|]; try reflexivity; rewrite !(populate_ext s s' _ G); reflexivity.
Qed.

Definition apply_step (pl : pol) (s : state) (x : id) : state :=
  let s1 := data_write (emit s (EDictSet x str_NS (VStr (pol_name pl)))) x str_NS (VStr (pol_name pl)) in
  match fresh_table pl s1 x with Some t => set_nstab s1 x (Some t) | None => s1 end.

Lemma gsame_write_ns s x v : gsame s (data_write (emit s (EDictSet x str_NS v)) x str_NS v).
Proof.
  intro c. rewrite !get_str_write. rewrite name_ne_ns, ident_ne_ns, !andb_false_r. split; reflexivity.
Qed.

Lemma apply_fold pl s0 : forall xs s,
  kids s = kids s0 -> kind_of s = kind_of s0 -> par s = par s0 -> gsame s0 s ->
  let s' := fold_left (apply_step pl) xs s in
  kids s' = kids s0 /\ kind_of s' = kind_of s0 /\ par s' = par s0 /\ gsame s0 s' /\
  (forall y, nstab s' y = if memb y xs then match fresh_table pl s0 y with Some t => Some t | None => nstab s y end
                          else nstab s y).
Proof.
  induction xs as [|x xs IH]; intros s Hk Hkd Hp G; cbn [fold_left].
  - split; [exact Hk|split; [exact Hkd|split; [exact Hp|split; [exact G|]]]]. intro y. reflexivity.
  - set (s1 := data_write (emit s (EDictSet x str_NS (VStr (pol_name pl)))) x str_NS (VStr (pol_name pl))).
    assert (G1 : gsame s0 s1).
    { intro c. destruct (gsame_write_ns s x (VStr (pol_name pl)) c) as [A B]. destruct (G c) as [A' B']. unfold s1. split; congruence. }
    assert (Hf : fresh_table pl s1 x = fresh_table pl s0 x) by (apply fresh_table_ext; [exact Hk|exact Hkd|exact G1]).
    assert (Hs2 : kids (apply_step pl s x) = kids s0 /\ kind_of (apply_step pl s x) = kind_of s0 /\ par (apply_step pl s x) = par s0 /\ gsame s0 (apply_step pl s x) /\
                  (forall y, nstab (apply_step pl s x) y = if Nat.eqb y x then match fresh_table pl s0 x with Some t => Some t | None => nstab s y end else nstab s y)).
    { unfold apply_step. fold s1. rewrite Hf. destruct (fresh_table pl s0 x) as [t|].
      - split; [exact Hk|split; [exact Hkd|split; [exact Hp|split; [exact G1|]]]]. intro y. cbn. unfold upd. destruct (Nat.eqb y x); reflexivity.
      - split; [exact Hk|split; [exact Hkd|split; [exact Hp|split; [exact G1|]]]]. intro y. destruct (Nat.eqb y x); reflexivity. }
    destruct Hs2 as [A [B [C [D E]]]].
    destruct (IH (apply_step pl s x) A B C D) as [A' [B' [C' [D' E']]]].
    split; [exact A'|split; [exact B'|split; [exact C'|split; [exact D'|]]]]. intro y. rewrite E'. cbn [memb]. rewrite (E y).
    destruct (Nat.eqb_spec y x) as [->|Hne]; cbn [orb].
    + destruct (memb x xs); destruct (fresh_table pl s0 x); reflexivity.
    + reflexivity.
Qed.

Lemma apply_namespace_spec pl s e :
  let s' := apply_namespace pl s e in
  kids s' = kids s /\ kind_of s' = kind_of s /\ par s' = par s /\ gsame s s' /\
  (forall y, nstab s' y = if memb y (subtree s e) then match fresh_table pl s y with Some t => Some t | None => nstab s y end
                          else nstab s y).
Proof.
  unfold apply_namespace. change (fold_left _ (subtree s e) s) with (fold_left (apply_step pl) (subtree s e) s).
  apply apply_fold; try reflexivity. intro c. split; reflexivity.
Qed.

(* ---- is_compliant gives conflict-free child lists throughout the subtree ---- *)
Definition lists_ok (pl : pol) (s : state) (y : id) : Prop :=
  forall r, ns_rel r = true -> kind_of s y = Some (rel_parent r) -> list_no_conflicts pl s (kids s r y) = true.

Lemma leaf_lists_ok pl s y k : kind_of s y = Some k ->
  (k = KPort \/ k = KCable \/ k = KInstance \/ k = KPin \/ k = KWire) -> lists_ok pl s y.
Proof.
  intros Hk Hc r Hr E. rewrite Hk in E. injection E as ->. destruct r; cbn in *; try discriminate; intuition discriminate.
Qed.

Lemma def_lists_ok pl s d : InvT s -> kind_of s d = Some KDefinition -> def_compliant pl s d = true ->
  forall y, In y (def_subtree s d) -> lists_ok pl s y.
Proof.
  intros HT Hk Hc y Hy. unfold def_compliant in Hc.
  apply andb_true_iff in Hc as [Hc _]. apply andb_true_iff in Hc as [Hc H3]. apply andb_true_iff in Hc as [Hc H2].
  apply andb_true_iff in Hc as [_ H1].
  unfold def_subtree in Hy. destruct Hy as [<-|Hy].
  - intros r Hr E. rewrite Hk in E. injection E as E. destruct r; cbn in *; try discriminate; assumption.
  - apply in_app_or in Hy as [Hy|Hy]; [|apply in_app_or in Hy as [Hy|Hy]].
    + destruct (HT RPorts d y Hy) as [Hky _]. apply (leaf_lists_ok pl s y _ Hky). auto.
    + destruct (HT RCables d y Hy) as [Hky _]. apply (leaf_lists_ok pl s y _ Hky). auto.
    + destruct (HT RChildren d y Hy) as [Hky _]. apply (leaf_lists_ok pl s y _ Hky). auto.
Qed.

Lemma lib_lists_ok pl s l : InvT s -> kind_of s l = Some KLibrary -> lib_compliant pl s l = true ->
  forall y, In y (lib_subtree s l) -> lists_ok pl s y.
Proof.
  intros HT Hk Hc y Hy. unfold lib_compliant in Hc.
  apply andb_true_iff in Hc as [Hc H2]. apply andb_true_iff in Hc as [_ H1].
  unfold lib_subtree in Hy. destruct Hy as [<-|Hy].
  - intros r Hr E. rewrite Hk in E. injection E as E. destruct r; cbn in *; try discriminate; assumption.
  - apply in_flat_map in Hy as [d [Hd Hy]]. rewrite forallb_forall in H2.
    destruct (HT RDefs l d Hd) as [Hkd _]. apply (def_lists_ok pl s d HT Hkd (H2 d Hd) y Hy).
Qed.

Lemma net_lists_ok pl s n : InvT s -> kind_of s n = Some KNetlist -> net_compliant pl s n = true ->
  forall y, In y (net_subtree s n) -> lists_ok pl s y.
Proof.
  intros HT Hk Hc y Hy. unfold net_compliant in Hc.
  apply andb_true_iff in Hc as [Hc H2]. apply andb_true_iff in Hc as [_ H1].
  unfold net_subtree in Hy. destruct Hy as [<-|Hy].
  - intros r Hr E. rewrite Hk in E. injection E as E. destruct r; cbn in *; try discriminate; assumption.
  - apply in_flat_map in Hy as [l [Hl Hy]]. rewrite forallb_forall in H2.
    destruct (HT RLibs n l Hl) as [Hkl _]. apply (lib_lists_ok pl s l HT Hkl (H2 l Hl) y Hy).
Qed.

Lemma compliant_lists_ok pl s e : InvT s -> is_compliant pl s e = true ->
  forall y, In y (subtree s e) -> lists_ok pl s y.
Proof.
  intros HT Hc y Hy. unfold is_compliant in Hc. unfold subtree in Hy.
  destruct (kind_of s e) as [k|] eqn:Hk.
  - destruct k; try (destruct Hy as [<-|[]]; apply (leaf_lists_ok pl s e _ Hk); auto; fail).
    + apply (net_lists_ok pl s e HT Hk Hc y Hy).
    + apply (lib_lists_ok pl s e HT Hk Hc y Hy).
    + apply (def_lists_ok pl s e HT Hk Hc y Hy).
  - destruct Hy as [<-|[]]. intros r _ E. congruence.
Qed.

(* the whole step: NsInv survives apply_namespace of a compliant subtree *)
Lemma nsinv_apply_namespace pl s e :
  Inv1a s -> InvT s -> NsInv s -> is_compliant pl s e = true -> NsInv (apply_namespace pl s e).
Proof.
  intros Ha HT H Hc. destruct (apply_namespace_spec pl s e) as [Hk [Hkd [Hp [G Ht]]]].
  set (s' := apply_namespace pl s e) in *.
  assert (Hkeys : forall c, name_key s' c = name_key s c /\ ident_key s' c = ident_key s c).
  { intro c. destruct (G c) as [A B]. unfold name_key, ident_key. rewrite A, B. split; reflexivity. }
  intros p t Hpt. rewrite Ht in Hpt.
  assert (Hold : nstab s p = Some t -> TabOK s' (kmem s') p t).
  { intro Hs. apply (tabok_ext s s' (kmem s) (kmem s') p t (H p t Hs)).
    - intros r c. unfold kmem. rewrite Hk. tauto.
    - intros r c _ _. apply Hkeys. }
  destruct (memb p (subtree s e)) eqn:Hm; [|apply Hold; exact Hpt].
  destruct (fresh_table pl s p) as [t0|] eqn:Hf; [|apply Hold; exact Hpt].
  injection Hpt as <-. apply memb_In in Hm.
  destruct (fresh_table_ok pl s p t0 Ha HT Hf (compliant_lists_ok pl s e HT Hc p Hm)) as [T _].
  apply (tabok_ext s s' (kmem s) (kmem s') p t0 T).
  - intros r c. unfold kmem. rewrite Hk. tauto.
  - intros r c _ _. apply Hkeys.
Qed.

(* ---- where an element sits ---- *)
Lemma nsinvm_mem_ext s (M M' : Mem) : (forall r p c, ns_rel r = true -> (M' r p c <-> M r p c)) -> NsInvM s M -> NsInvM s M'.
Proof.
  intros Hm H p t Hp. apply (tabok_ext s s M M' p t (H p t Hp)); [intros; apply Hm; assumption|]. intros; split; reflexivity.
Qed.

Lemma nsinv_kids s s' : kids s' = kids s -> NsInvM s' (kmem s) -> NsInv s'.
Proof. intros Hk H. apply (nsinvm_mem_ext s' (kmem s)); [|exact H]. intros. unfold kmem. rewrite Hk. tauto. Qed.

Lemma ns_parent_rel s e p : ns_parent s e = Some p ->
  exists r, ns_rel r = true /\ kind_of s e = Some (rel_child r) /\ par s r e = Some p.
Proof.
  unfold ns_parent. destruct (kind_of s e) as [[]|]; try discriminate; intro H;
    [exists RLibs|exists RDefs|exists RPorts|exists RCables|exists RChildren]; auto.
Qed.

Lemma parent_scope s e p : Inv1a s -> InvT s -> ns_parent s e = Some p ->
  exists r, ns_rel r = true /\ kind_of s e = Some (rel_child r) /\ In e (kids s r p) /\ only_in (kmem s) e r p.
Proof.
  intros Ha HT H. destruct (ns_parent_rel s e p H) as [r [Hr [Hk Hp]]]. exists r.
  split; [exact Hr|]. split; [exact Hk|]. split; [apply (i1_kids s Ha); exact Hp|].
  intros r' p' Hr' Hin. unfold kmem in Hin. destruct (HT r' p' e Hin) as [Hk' _].
  assert (r' = r) by (apply rel_child_inj; [exact Hr'|exact Hr|congruence]). subst r'.
  split; [reflexivity|]. apply (i1_kids s Ha) in Hin. congruence.
Qed.

Lemma no_parent_free s e : Inv1a s -> InvT s -> ns_parent s e = None ->
  forall r' p', ns_rel r' = true -> ~ In e (kids s r' p').
Proof.
  intros Ha HT H r' p' Hr' Hin. destruct (HT r' p' e Hin) as [Hk _].
  apply (i1_kids s Ha) in Hin. unfold ns_parent in H. rewrite Hk in H.
  destruct r'; cbn in *; try discriminate; congruence.
Qed.

(* ---- element[k] = v ---- *)
Lemma no_conflict_name_spec t ek e v :
  ns_no_conflict t ek e str_NAME v = true -> forall x, sassoc v (ns_names t ek) = Some x -> x = e.
Proof.
  unfold ns_no_conflict, tab_conflict. rewrite str_eqb_refl. intros H x Hx. rewrite Hx in H.
  apply negb_true_iff, negb_false_iff, Nat.eqb_eq in H. exact H.
Qed.

Lemma no_conflict_ident_spec t ek e v :
  ns_pol t = PolEdif -> ns_no_conflict t ek e str_IDENT v = true ->
  forall x, sassoc (lower v) (ns_idents t ek) = Some x -> x = e.
Proof.
  unfold ns_no_conflict, tab_conflict. rewrite ident_ne_name. intros -> H x Hx. rewrite str_eqb_refl, Hx in H.
  apply negb_true_iff, negb_false_iff, Nat.eqb_eq in H. exact H.
Qed.

Lemma is_name_key_cases k : is_name_key k = true -> k = str_NAME \/ k = str_IDENT.
Proof. unfold is_name_key. intro H. apply orb_true_iff in H as [H|H]; apply str_eqb_spec in H; auto. Qed.

Lemma nsinv_set_name_key s e k name :
  Inv1a s -> InvT s -> NsInv s -> is_name_key k = true ->
  forall s1, snd (ns_dictionary_set s e k (VStr name)) = None -> s1 = fst (ns_dictionary_set s e k (VStr name)) ->
  forall s2, nstab s2 = nstab s1 -> data s2 = data s1 -> kids s2 = kids s ->
  NsInv (data_write s2 e k (VStr name)).
Proof.
  intros Ha HT H Hk s1 Hok -> s2 Ht2 Hd2 Hk2.
  apply (nsinv_kids s); [exact Hk2|].
  unfold ns_dictionary_set in *.
  assert (Hns : str_eqb k str_NS = false).
  { destruct (is_name_key_cases k Hk) as [-> | ->]; reflexivity. }
  rewrite Hns, Hk in *. cbn [negb] in *.
  destruct (negb (match elem_pol s e with Some p => is_name_valid p k name | None => true end)); [discriminate|].
  assert (Hfree : (forall r' p', ns_rel r' = true -> kmem s r' p' e -> nstab s p' = None) ->
                  forall s1', nstab s1' = nstab s -> data s1' = data s -> nstab s2 = nstab s1' -> data s2 = data s1' ->
                  NsInvM (data_write s2 e k (VStr name)) (kmem s)).
  { intros Hf s1' A B C D. apply (nsinvm_keyfree s (kmem s) e); [exact H|exact Hf|cbn; congruence|].
    intros c Hc. unfold name_key, ident_key. rewrite !get_str_write. apply Nat.eqb_neq in Hc. rewrite Hc. cbn [andb].
    unfold get_str. rewrite D, B. split; reflexivity. }
  destruct (ns_parent s e) as [p|] eqn:Hpar.
  2:{ apply (Hfree (fun r' p' Hr' Hin => False_ind _ (no_parent_free s e Ha HT Hpar r' p' Hr' Hin)) s); auto. }
  destruct (parent_scope s e p Ha HT Hpar) as [r [Hr [Hke [Hin Ho]]]]. rewrite Hke in *.
  destruct (nstab s p) as [t|] eqn:Htp.
  2:{ apply (Hfree (fun r' p' Hr' Hin' => eq_ind_r (fun q => nstab s q = None) Htp (proj2 (Ho r' p' Hr' Hin'))) s); auto. }
  destruct (ns_no_conflict t (rel_child r) e k name) eqn:Hnc; [|discriminate]. cbn [fst ret] in *.
  destruct (is_name_key_cases k Hk) as [-> | ->].
  - (* .NAME *)
    apply (nsinvm_rename s (kmem s) e r p t name s2 H Htp Hr Hin Ho (no_conflict_name_spec _ _ _ _ Hnc)); [rewrite Ht2; reflexivity|rewrite Hd2; reflexivity].
  - (* EDIF.identifier *)
    set (t' := ns_update t (rel_child r) e str_IDENT (get_str s e str_IDENT) name).
    assert (Hg2 : forall c k0, get_str s2 c k0 = get_str s c k0) by (intros; unfold get_str; rewrite Hd2; reflexivity).
    apply (nsinvm_keychange s (kmem s) e r p t t' _ H Htp Hr Ho); [cbn; rewrite Ht2; reflexivity|apply ns_update_pol| | | |].
    + intros c Hc. unfold name_key, ident_key. rewrite !get_str_write, !Hg2. apply Nat.eqb_neq in Hc. rewrite Hc. split; reflexivity.
    + intros r0 Hr0 Hne. unfold t', ns_update. rewrite ident_ne_name. destruct (ns_pol t); [split; reflexivity|].
      rewrite str_eqb_refl. cbn. split; [reflexivity|]. apply updk_other. intro E. apply Hne. apply rel_child_inj; assumption.
    + assert (E : ns_names t' (rel_child r) = ns_names t (rel_child r)).
      { unfold t', ns_update. rewrite ident_ne_name. destruct (ns_pol t); [reflexivity|]. rewrite str_eqb_refl. reflexivity. }
      rewrite E. eapply slot_ext; [apply (tk_names _ _ _ _ (H p t Htp) r Hr)|tauto|].
      intros c _. rewrite name_key_ident_write. unfold name_key. apply Hg2.
    + intro Hpol. unfold t', ns_update. rewrite ident_ne_name, Hpol, str_eqb_refl. cbn. rewrite updk_same.
      eapply slot_ext; [apply (slot_replace _ _ (ident_key s) e (lower name) (tk_idents _ _ _ _ (H p t Htp) Hpol r Hr) Hin (no_conflict_ident_spec _ _ _ _ Hpol Hnc))|tauto|].
      intros c _. rewrite keyupd_ident_write. unfold keyupd, ident_key. rewrite Hg2. reflexivity.
Qed.

Lemma nsq_write_other s e k v : is_name_key k = false -> nsq s (data_write s e k v).
Proof.
  intro Hk. constructor; try reflexivity; intros; try (left; reflexivity); apply (keys_write_other s e k v); exact Hk.
Qed.

Lemma nsq_erase_other s e k : is_name_key k = false -> nsq s (data_erase s e k).
Proof.
  intro Hk. constructor; try reflexivity; intros; try (left; reflexivity); apply (keys_erase_other s e k); exact Hk.
Qed.

Lemma nsinv_nsq s s' : nsq s s' -> NsInv s -> NsInv s'.
Proof. intros Q H. apply (nsinv_kids s); [apply (nq_kids _ _ Q)|]. apply (nsq_nsinvm s s' _ Q H). Qed.

Lemma ns_is_not_name_key : is_name_key str_NS = false. Proof. reflexivity. Qed.

Lemma nsinv_dict_set s e k v : Inv1a s -> InvT s -> NsInv s -> NsInv (fst (dict_set s e k v)).
Proof.
  intros Ha HT H. unfold dict_set.
  destruct (ns_dictionary_set s e k v) as [s1 [x|]] eqn:E; cbn [bindR fst ret].
  - pose proof (ns_dictionary_set_refused s e k v) as Hr. rewrite E in Hr. cbn in Hr. rewrite Hr by discriminate. exact H.
  - destruct (str_eqb k str_NS) eqn:Ens.
    + (* the policy key *)
      apply str_eqb_spec in Ens. subst k.
      assert (H1 : NsInv s1).
      { unfold ns_dictionary_set in E. rewrite str_eqb_refl in E.
        destruct (match sassoc str_NS (data s e) with Some v0 => val_eqb v0 v | None => false end); [injection E as <-; exact H|].
        destruct (ns_parent s e); [discriminate|]. destruct (pol_of_val v) as [pl|]; [|discriminate].
        destruct (is_compliant pl s e) eqn:Hc; [|discriminate]. injection E as <-.
        apply nsinv_apply_namespace; assumption. }
      apply (nsinv_nsq s1); [|exact H1]. eapply nsq_trans; [apply nsq_emit|apply nsq_write_ns].
    + destruct (is_name_key k) eqn:Hk.
      * destruct v as [name| | |]; try (unfold ns_dictionary_set in E; rewrite Ens, Hk in E; discriminate).
        apply (nsinv_set_name_key s e k name Ha HT H Hk s1); [rewrite E; reflexivity|rewrite E; reflexivity|reflexivity|reflexivity|].
        pose proof (se_ns_dictionary_set s e k (VStr name)) as Hse. rewrite E in Hse. cbn in Hse. cbn. apply (se_kids _ _ Hse).
      * assert (s1 = s) by (unfold ns_dictionary_set in E; rewrite Ens, Hk in E; injection E as <-; reflexivity). subst s1.
        apply (nsinv_nsq s); [|exact H]. eapply nsq_trans; [apply nsq_emit|apply nsq_write_other; exact Hk].
Qed.

(* ---- del element[k] / element.pop(k) ---- *)
Lemma ns_remove_names t ek k old k' :
  ns_names (ns_remove t ek k old) k' =
  if str_eqb k str_NAME then match old with Some o => if kind_eqb k' ek then sassoc_del o (ns_names t ek) else ns_names t k' | None => ns_names t k' end
  else ns_names t k'.
Proof.
  unfold ns_remove. destruct old as [o|]; [|destruct (str_eqb k str_NAME); reflexivity].
  destruct (str_eqb k str_NAME); [cbn; unfold updk; destruct (kind_eqb k' ek) eqn:E; [apply kind_eqb_eq in E; subst|]; reflexivity|].
  destruct (ns_pol t); [reflexivity|]. destruct (str_eqb k str_IDENT); reflexivity.
Qed.

Lemma ns_remove_idents t ek k old k' :
  ns_idents (ns_remove t ek k old) k' =
  if str_eqb k str_NAME then ns_idents t k'
  else match ns_pol t with
       | PolDefault => ns_idents t k'
       | PolEdif => if str_eqb k str_IDENT then
                      match old with Some o => if kind_eqb k' ek then sassoc_del (lower o) (ns_idents t ek) else ns_idents t k' | None => ns_idents t k' end
                    else ns_idents t k'
       end.
Proof.
  unfold ns_remove. destruct old as [o|].
  - destruct (str_eqb k str_NAME); [reflexivity|]. destruct (ns_pol t); [reflexivity|].
    destruct (str_eqb k str_IDENT); [cbn; unfold updk; destruct (kind_eqb k' ek) eqn:E; [apply kind_eqb_eq in E; subst|]; reflexivity|reflexivity].
  - destruct (str_eqb k str_NAME); [reflexivity|]. destruct (ns_pol t); [reflexivity|]. destruct (str_eqb k str_IDENT); reflexivity.
Qed.

Lemma keyupd_name_erase s e c : name_key (data_erase s e str_NAME) c = keyupd (name_key s) e None c.
Proof. unfold name_key, keyupd. rewrite get_str_erase, str_eqb_refl, andb_true_r. destruct (Nat.eqb c e); reflexivity. Qed.
Lemma ident_key_name_erase s e c : ident_key (data_erase s e str_NAME) c = ident_key s c.
Proof. unfold ident_key. rewrite get_str_erase, ident_ne_name, andb_false_r. reflexivity. Qed.
Lemma keyupd_ident_erase s e c : ident_key (data_erase s e str_IDENT) c = keyupd (ident_key s) e None c.
Proof. unfold ident_key, keyupd. rewrite get_str_erase, str_eqb_refl, andb_true_r. destruct (Nat.eqb c e); reflexivity. Qed.
Lemma name_key_ident_erase s e c : name_key (data_erase s e str_IDENT) c = name_key s c.
Proof. unfold name_key. rewrite get_str_erase, name_ne_ident, andb_false_r. reflexivity. Qed.

(* the state after NamespaceManager.dictionary_delete for a name key, then the erase (or nothing) *)
Lemma nsinv_del_name_key s e k :
  Inv1a s -> InvT s -> NsInv s -> is_name_key k = true ->
  forall s2, nstab s2 = nstab (ns_remove_key s e k) -> data s2 = data s -> kids s2 = kids s ->
  NsInv (data_erase s2 e k) /\ (has_key s e k = false -> NsInv s2).
Proof.
  intros Ha HT H Hk s2 Ht2 Hd2 Hk2.
  assert (Hg2 : forall c k0, get_str s2 c k0 = get_str s c k0) by (intros; unfold get_str; rewrite Hd2; reflexivity).
  assert (Hfree : nstab (ns_remove_key s e k) = nstab s ->
                  (forall r' p', ns_rel r' = true -> kmem s r' p' e -> nstab s p' = None) ->
                  NsInv (data_erase s2 e k) /\ (has_key s e k = false -> NsInv s2)).
  { intros Hsame Hf. split; [|intros _].
    - apply (nsinv_kids s); [exact Hk2|]. apply (nsinvm_keyfree s (kmem s) e); [exact H|exact Hf|cbn; congruence|].
      intros c Hc. unfold name_key, ident_key. rewrite !get_str_erase, !Hg2. apply Nat.eqb_neq in Hc. rewrite Hc. split; reflexivity.
    - apply (nsinv_kids s); [exact Hk2|]. apply (nsinvm_same s); [exact H|intro; congruence|exact Hg2]. }
  unfold ns_remove_key in *.
  destruct (ns_parent s e) as [p|] eqn:Hpar.
  2:{ apply Hfree; [reflexivity|]. intros r' p' Hr' Hin. exfalso. apply (no_parent_free s e Ha HT Hpar r' p' Hr' Hin). }
  destruct (parent_scope s e p Ha HT Hpar) as [r [Hr [Hke [Hin Ho]]]]. rewrite Hke in *.
  destruct (nstab s p) as [t|] eqn:Htp.
  2:{ apply Hfree; [reflexivity|]. intros r' p' Hr' Hin'. destruct (Ho r' p' Hr' Hin') as [_ ->]. exact Htp. }
  set (t' := ns_remove t (rel_child r) k (get_str s e k)) in *.
  assert (Hother : forall r0, ns_rel r0 = true -> r0 <> r ->
            ns_names t' (rel_child r0) = ns_names t (rel_child r0) /\ ns_idents t' (rel_child r0) = ns_idents t (rel_child r0)).
  { intros r0 Hr0 Hne. assert (Hkk : kind_eqb (rel_child r0) (rel_child r) = false).
    { destruct (kind_eqb (rel_child r0) (rel_child r)) eqn:E; [|reflexivity]. apply kind_eqb_eq in E. exfalso. apply Hne. apply rel_child_inj; assumption. }
    unfold t'. rewrite ns_remove_names, ns_remove_idents, Hkk.
    split; [destruct (str_eqb k str_NAME); [destruct (get_str s e k)|]; reflexivity|].
    destruct (str_eqb k str_NAME); [reflexivity|]. destruct (ns_pol t); [reflexivity|]. destruct (str_eqb k str_IDENT); [destruct (get_str s e k)|]; reflexivity. }
  destruct (H p t Htp) as [T1 T2].
  (* the table after the removal is exact for "e has lost the key" *)
  assert (Hslots : SlotOK (ns_names t' (rel_child r)) (kmem s r p) (if str_eqb k str_NAME then keyupd (name_key s) e None else name_key s) /\
                   (ns_pol t = PolEdif -> SlotOK (ns_idents t' (rel_child r)) (kmem s r p) (if str_eqb k str_NAME then ident_key s else keyupd (ident_key s) e None))).
  { unfold t'. rewrite ns_remove_names, ns_remove_idents, kind_eqb_refl.
    destruct (is_name_key_cases k Hk) as [-> | ->].
    - rewrite str_eqb_refl. split; [|intro Hp; apply (T2 Hp r Hr)].
      pose proof (slot_erase _ _ (name_key s) e (T1 r Hr) Hin) as S. unfold name_key in S at 1. exact S.
    - rewrite ident_ne_name. split; [apply (T1 r Hr)|]. intro Hp. rewrite Hp, str_eqb_refl.
      pose proof (slot_erase _ _ (ident_key s) e (T2 Hp r Hr) Hin) as S. unfold ident_key in S at 1.
      destruct (get_str s e str_IDENT); exact S. }
  destruct Hslots as [S1 S2]. split.
  - (* erased *)
    apply (nsinv_kids s); [exact Hk2|].
    apply (nsinvm_keychange s (kmem s) e r p t t' _ H Htp Hr Ho); [cbn; rewrite Ht2; reflexivity|apply ns_remove_pol| |exact Hother| |].
    + intros c Hc. unfold name_key, ident_key. rewrite !get_str_erase, !Hg2. apply Nat.eqb_neq in Hc. rewrite Hc. split; reflexivity.
    + eapply slot_ext; [exact S1|tauto|]. intros c _.
      destruct (is_name_key_cases k Hk) as [-> | ->].
      * rewrite str_eqb_refl, keyupd_name_erase. unfold keyupd, name_key. rewrite Hg2. reflexivity.
      * rewrite ident_ne_name, name_key_ident_erase. unfold name_key. apply Hg2.
    + intro Hp. eapply slot_ext; [exact (S2 Hp)|tauto|]. intros c _.
      destruct (is_name_key_cases k Hk) as [-> | ->].
      * rewrite str_eqb_refl, ident_key_name_erase. unfold ident_key. rewrite Hg2. reflexivity.
      * rewrite ident_ne_name, keyupd_ident_erase. unfold keyupd, ident_key. rewrite Hg2. reflexivity.
  - (* the key is absent: the removal changed nothing in the table *)
    intro Habs. apply (nsinv_kids s); [exact Hk2|]. apply (nsinvm_same s); [exact H| |exact Hg2].
    intro y. rewrite Ht2. cbn. unfold upd. destruct (Nat.eqb_spec y p) as [->|]; [|reflexivity].
    rewrite Htp. f_equal. unfold t'. unfold has_key in Habs. unfold get_str.
    destruct (sassoc k (data s e)); [discriminate|]. reflexivity.
Qed.

Section DelPopNs.
  Variable mk : id -> str -> event.
  Let del (s : state) (e : id) (k : str) : R :=
    ns_dictionary_delete s e k >>= fun s1 =>
    let s2 := emit s1 (mk e k) in
    if has_key s2 e k then ret (data_erase s2 e k) else raise s2 XKey.

  Lemma nsinv_del s e k : Inv1a s -> InvT s -> NsInv s -> NsInv (fst (del s e k)).
  Proof.
    intros Ha HT H. unfold del, ns_dictionary_delete.
    destruct (str_eqb k str_NS) eqn:Ens.
    - apply str_eqb_spec in Ens. subst k.
      destruct (ns_parent s e); [exact H|].
      assert (H1 : NsInv (if has_key s e str_NS then drop_namespace s e else s)).
      { destruct (has_key s e str_NS); [apply (nsinv_nsq s); [apply nsq_drop_namespace|exact H]|exact H]. }
      destruct (has_key s e str_NS); cbn [bindR ret].
      + match goal with |- context [if ?b then _ else _] => destruct b end; cbn [fst ret raise].
        * apply (nsinv_nsq (drop_namespace s e)); [|exact H1]. eapply nsq_trans; [apply nsq_emit|apply nsq_erase_ns].
        * apply (nsinv_nsq (drop_namespace s e)); [apply nsq_emit|exact H1].
      + match goal with |- context [if ?b then _ else _] => destruct b end; cbn [fst ret raise].
        * apply (nsinv_nsq s); [|exact H1]. eapply nsq_trans; [apply nsq_emit|apply nsq_erase_ns].
        * apply (nsinv_nsq s); [apply nsq_emit|exact H1].
    - destruct (is_name_key k) eqn:Hk; cbn [bindR ret].
      + destruct (nsinv_del_name_key s e k Ha HT H Hk (emit (ns_remove_key s e k) (mk e k))) as [E1 E2].
        * reflexivity.
        * unfold ns_remove_key. destruct (ns_parent s e); [|reflexivity]. destruct (kind_of s e); [|reflexivity]. destruct (nstab s _); reflexivity.
        * unfold ns_remove_key. destruct (ns_parent s e); [|reflexivity]. destruct (kind_of s e); [|reflexivity]. destruct (nstab s _); reflexivity.
        * destruct (has_key (emit (ns_remove_key s e k) (mk e k)) e k) eqn:Hh; cbn [fst ret raise]; [exact E1|].
          apply E2. unfold has_key in *. cbn in Hh.
          replace (data (ns_remove_key s e k) e) with (data s e) in Hh; [exact Hh|].
          unfold ns_remove_key. destruct (ns_parent s e); [|reflexivity]. destruct (kind_of s e); [|reflexivity]. destruct (nstab s _); reflexivity.
      + match goal with |- context [if ?b then _ else _] => destruct b end; cbn [fst ret raise].
        * apply (nsinv_nsq s); [|exact H]. eapply nsq_trans; [apply nsq_emit|apply nsq_erase_other; exact Hk].
        * apply (nsinv_nsq s); [apply nsq_emit|exact H].
  Qed.
End DelPopNs.

Lemma nsinv_dict_del s e k : Inv1a s -> InvT s -> NsInv s -> NsInv (fst (dict_del s e k)).
Proof. exact (nsinv_del EDictDel s e k). Qed.
Lemma nsinv_dict_pop s e k : Inv1a s -> InvT s -> NsInv s -> NsInv (fst (dict_pop s e k)).
Proof. exact (nsinv_del EDictPop s e k). Qed.

(* ---- tables outside the subtree are not touched by a policy change below ---- *)
Lemma drop_namespace_tab_other s e y : ~ In y (subtree s e) -> nstab (drop_namespace s e) y = nstab s y.
Proof.
  unfold drop_namespace. generalize (subtree s e) as xs. intros xs Hn. revert s.
  induction xs as [|x xs IH]; intro s; cbn [fold_left]; [reflexivity|].
  rewrite IH by (intro H; apply Hn; right; exact H).
  assert (Hxy : y <> x) by (intros ->; apply Hn; left; reflexivity).
  destruct (_ && _); cbn; unfold upd; apply Nat.eqb_neq in Hxy; rewrite Hxy; reflexivity.
Qed.

Lemma apply_namespace_tab_other pl s e y : ~ In y (subtree s e) -> nstab (apply_namespace pl s e) y = nstab s y.
Proof.
  intro Hn. destruct (apply_namespace_spec pl s e) as [_ [_ [_ [_ Ht]]]]. rewrite Ht.
  destruct (memb y (subtree s e)) eqn:E; [apply memb_In in E; contradiction|reflexivity].
Qed.

(* the parent of a scope is never inside the subtree of one of its (future) children *)
Lemma subtree_kinds s c y : InvT s -> In y (subtree s c) ->
  y = c \/ (exists r p, In y (kids s r p) /\ ns_rel r = true /\
            (kind_of s c = Some KNetlist \/ (kind_of s c = Some KLibrary /\ r <> RLibs) \/
             (kind_of s c = Some KDefinition /\ r <> RLibs /\ r <> RDefs))).
Proof.
  intros HT Hy. unfold subtree in Hy. destruct (kind_of s c) as [k|] eqn:Hk; [|destruct Hy as [<-|[]]; auto].
  destruct k; try (destruct Hy as [<-|[]]; auto; fail).
  - destruct Hy as [<-|Hy]; [auto|]. right. apply in_flat_map in Hy as [l [Hl Hy]].
    destruct Hy as [<-|Hy]; [exists RLibs, c; auto|].
    apply in_flat_map in Hy as [d [Hd Hy]]. destruct Hy as [<-|Hy]; [exists RDefs, l; auto|].
    apply in_app_or in Hy as [Hy|Hy]; [exists RPorts, d; auto|].
    apply in_app_or in Hy as [Hy|Hy]; [exists RCables, d; auto|exists RChildren, d; auto].
  - destruct Hy as [<-|Hy]; [auto|]. right.
    apply in_flat_map in Hy as [d [Hd Hy]]. destruct Hy as [<-|Hy].
    + exists RDefs, c. split; [exact Hd|]. split; [reflexivity|]. right. left. split; [reflexivity|discriminate].
    + apply in_app_or in Hy as [Hy|Hy]; [exists RPorts, d|apply in_app_or in Hy as [Hy|Hy]; [exists RCables, d|exists RChildren, d]];
        (split; [exact Hy|]; split; [reflexivity|]; right; left; split; [reflexivity|discriminate]).
  - destruct Hy as [<-|Hy]; [auto|]. right.
    apply in_app_or in Hy as [Hy|Hy]; [exists RPorts, c|apply in_app_or in Hy as [Hy|Hy]; [exists RCables, c|exists RChildren, c]];
      (split; [exact Hy|]; split; [reflexivity|]; right; right; split; [reflexivity|split; discriminate]).
Qed.

Lemma parent_not_in_subtree s r p c : InvT s ->
  ns_rel r = true -> kind_of s p = Some (rel_parent r) -> kind_of s c = Some (rel_child r) -> ~ In p (subtree s c).
Proof.
  intros HT Hr Hkp Hkc Hin. destruct (subtree_kinds s c p HT Hin) as [->|[r0 [p0 [Hy [Hr0 Hcase]]]]].
  - rewrite Hkp in Hkc. injection Hkc as E. destruct r; cbn in *; discriminate.
  - destruct (HT r0 p0 p Hy) as [Hk _]. rewrite Hkp in Hk. injection Hk as Hk.
    rewrite Hkc in Hcase. destruct Hcase as [E|[[E N]|[E [N1 N2]]]]; injection E as E;
      destruct r, r0; cbn in *; try discriminate; try contradiction.
Qed.

(* ---- NamespaceManager.add: the child is entered in the parent's table ---- *)
Definition mem_add (M : Mem) (r : rel) (p c : id) : Mem :=
  fun r' p' c' => M r' p' c' \/ (r' = r /\ p' = p /\ c' = c).
Definition mem_del (M : Mem) (r : rel) (p c : id) : Mem :=
  fun r' p' c' => M r' p' c' /\ ~ (r' = r /\ p' = p /\ c' = c).

Lemma ns_update_names_name t ek e old v k' :
  ns_names (ns_update t ek e str_NAME old v) k' = if kind_eqb k' ek then tab_replace (ns_names t ek) old v e else ns_names t k'.
Proof. unfold ns_update. rewrite str_eqb_refl. cbn. unfold updk. destruct (kind_eqb k' ek); reflexivity. Qed.
Lemma ns_update_idents_name t ek e old v : ns_idents (ns_update t ek e str_NAME old v) = ns_idents t.
Proof. unfold ns_update. rewrite str_eqb_refl. reflexivity. Qed.
Lemma ns_update_names_ident t ek e old v : ns_names (ns_update t ek e str_IDENT old v) = ns_names t.
Proof. unfold ns_update. rewrite ident_ne_name. destruct (ns_pol t); [reflexivity|]. rewrite str_eqb_refl. reflexivity. Qed.
Lemma ns_update_idents_ident t ek e old v k' :
  ns_idents (ns_update t ek e str_IDENT old v) k' =
  match ns_pol t with
  | PolDefault => ns_idents t k'
  | PolEdif => if kind_eqb k' ek then tab_replace (ns_idents t ek) (option_map lower old) (lower v) e else ns_idents t k'
  end.
Proof.
  unfold ns_update. rewrite ident_ne_name. destruct (ns_pol t); [reflexivity|]. rewrite str_eqb_refl. cbn. unfold updk.
  destruct (kind_eqb k' ek); reflexivity.
Qed.

(* the table part of NamespaceManager.add *)
Definition add_table (s : state) (t : nstable) (ck : kind) (c : id) : nstable :=
  let t1 := match get_str s c str_IDENT with Some v => ns_update t ck c str_IDENT (Some v) v | None => t end in
  match get_str s c str_NAME with Some v => ns_update t1 ck c str_NAME (Some v) v | None => t1 end.

Lemma add_table_ok s M r p c t :
  ns_rel r = true -> TabOK s M p t -> ~ M r p c ->
  (forall v, get_str s c str_NAME = Some v -> sassoc v (ns_names t (rel_child r)) = None) ->
  (ns_pol t = PolEdif -> forall v, get_str s c str_IDENT = Some v -> sassoc (lower v) (ns_idents t (rel_child r)) = None) ->
  TabOK s (mem_add M r p c) p (add_table s t (rel_child r) c) /\ ns_pol (add_table s t (rel_child r) c) = ns_pol t.
Proof.
  intros Hr [T1 T2] Hnm Hn Hi.
  assert (Hpol : ns_pol (add_table s t (rel_child r) c) = ns_pol t).
  { unfold add_table. destruct (get_str s c str_NAME), (get_str s c str_IDENT); rewrite ?ns_update_pol; reflexivity. }
  split; [|exact Hpol]. constructor.
  - intros r0 Hr0. unfold add_table.
    assert (Hnames : ns_names (match get_str s c str_IDENT with Some v => ns_update t (rel_child r) c str_IDENT (Some v) v | None => t end) = ns_names t)
      by (destruct (get_str s c str_IDENT); [apply ns_update_names_ident|reflexivity]).
    destruct (rel_eq_dec r0 r) as [->|Hne].
    + destruct (get_str s c str_NAME) as [v|] eqn:Ev.
      * rewrite ns_update_names_name, kind_eqb_refl, Hnames.
        eapply slot_ext; [apply (slot_insert _ _ (name_key s) c v (T1 r Hr) Hnm Ev (Hn v eq_refl))| |intros; reflexivity].
        intro c0. unfold mem_add. split; [intros [H|[_ [_ ->]]]; auto|intros [H| ->]; auto].
      * rewrite Hnames. eapply slot_ext; [apply (slot_insert_keyless _ _ (name_key s) c (T1 r Hr) Ev)| |intros; reflexivity].
        intro c0. unfold mem_add. split; [intros [H|[_ [_ ->]]]; auto|intros [H| ->]; auto].
    + assert (Hkk : kind_eqb (rel_child r0) (rel_child r) = false).
      { destruct (kind_eqb (rel_child r0) (rel_child r)) eqn:E; [|reflexivity]. apply kind_eqb_eq in E. exfalso. apply Hne. apply rel_child_inj; assumption. }
      assert (E : ns_names (match get_str s c str_NAME with Some v => ns_update (match get_str s c str_IDENT with Some v0 => ns_update t (rel_child r) c str_IDENT (Some v0) v0 | None => t end) (rel_child r) c str_NAME (Some v) v | None => match get_str s c str_IDENT with Some v0 => ns_update t (rel_child r) c str_IDENT (Some v0) v0 | None => t end end) (rel_child r0) = ns_names t (rel_child r0)).
      { destruct (get_str s c str_NAME); [rewrite ns_update_names_name, Hkk|]; rewrite Hnames; reflexivity. }
      rewrite E. eapply slot_ext; [apply (T1 r0 Hr0)| |intros; reflexivity].
      intro c0. unfold mem_add. split; [intros [H|[E0 _]]; [exact H|contradiction]|auto].
  - rewrite Hpol. intros Hp r0 Hr0. unfold add_table.
    assert (Hid : forall t1 k', ns_idents (match get_str s c str_NAME with Some v => ns_update t1 (rel_child r) c str_NAME (Some v) v | None => t1 end) k' = ns_idents t1 k')
      by (intros t1 k'; destruct (get_str s c str_NAME); [rewrite ns_update_idents_name|]; reflexivity).
    rewrite Hid.
    destruct (rel_eq_dec r0 r) as [->|Hne].
    + destruct (get_str s c str_IDENT) as [v|] eqn:Ev.
      * rewrite ns_update_idents_ident, Hp, kind_eqb_refl. cbn [option_map].
        assert (Ek : ident_key s c = Some (lower v)) by (unfold ident_key; rewrite Ev; reflexivity).
        eapply slot_ext; [apply (slot_insert _ _ (ident_key s) c (lower v) (T2 Hp r Hr) Hnm Ek (Hi Hp v eq_refl))| |intros; reflexivity].
        intro c0. unfold mem_add. split; [intros [H|[_ [_ ->]]]; auto|intros [H| ->]; auto].
      * assert (Ek : ident_key s c = None) by (unfold ident_key; rewrite Ev; reflexivity).
        eapply slot_ext; [apply (slot_insert_keyless _ _ (ident_key s) c (T2 Hp r Hr) Ek)| |intros; reflexivity].
        intro c0. unfold mem_add. split; [intros [H|[_ [_ ->]]]; auto|intros [H| ->]; auto].
    + assert (Hkk : kind_eqb (rel_child r0) (rel_child r) = false).
      { destruct (kind_eqb (rel_child r0) (rel_child r)) eqn:E; [|reflexivity]. apply kind_eqb_eq in E. exfalso. apply Hne. apply rel_child_inj; assumption. }
      assert (E : ns_idents (match get_str s c str_IDENT with Some v => ns_update t (rel_child r) c str_IDENT (Some v) v | None => t end) (rel_child r0) = ns_idents t (rel_child r0)).
      { destruct (get_str s c str_IDENT); [rewrite ns_update_idents_ident, Hp, Hkk|]; reflexivity. }
      rewrite E. eapply slot_ext; [apply (T2 Hp r0 Hr0)| |intros; reflexivity].
      intro c0. unfold mem_add. split; [intros [H|[E0 _]]; [exact H|contradiction]|auto].
Qed.

(* ---- element[".NS"] = v and del element[".NS"]: what they leave alone ---- *)
Record ksame (s s' : state) : Prop := mkKsame {
  ks_kids : kids s' = kids s; ks_kind : kind_of s' = kind_of s; ks_par : par s' = par s;
  ks_name : forall c, name_key s' c = name_key s c; ks_ident : forall c, ident_key s' c = ident_key s c
}.

Lemma ksame_refl s : ksame s s. Proof. constructor; auto. Qed.
Lemma ksame_trans a b c : ksame a b -> ksame b c -> ksame a c.
Proof.
  intros [A1 A2 A3 A4 A5] [B1 B2 B3 B4 B5]. constructor.
  - congruence.
  - congruence.
  - congruence.
  - intro x. rewrite (B4 x). apply A4.
  - intro x. rewrite (B5 x). apply A5.
Qed.
Lemma nsq_ksame s s' : nsq s s' -> ksame s s'.
Proof. intros [A B C D E _]. constructor; assumption. Qed.

Lemma ksame_apply_namespace pl s e : ksame s (apply_namespace pl s e).
Proof.
  destruct (apply_namespace_spec pl s e) as [A [B [C [G _]]]]. constructor; try assumption;
    intro c; destruct (G c) as [G1 G2]; unfold name_key, ident_key; rewrite ?G1, ?G2; reflexivity.
Qed.

Lemma dict_set_ns_facts s c v :
  ksame s (fst (dict_set s c str_NS v)) /\
  (forall y, ~ In y (subtree s c) -> nstab (fst (dict_set s c str_NS v)) y = nstab s y).
Proof.
  unfold dict_set, ns_dictionary_set. rewrite str_eqb_refl.
  destruct (match sassoc str_NS (data s c) with Some v0 => val_eqb v0 v | None => false end); cbn [bindR ret fst].
  - split; [apply nsq_ksame; eapply nsq_trans; [apply nsq_emit|apply nsq_write_ns]|reflexivity].
  - destruct (ns_parent s c); [split; [apply ksame_refl|reflexivity]|].
    destruct (pol_of_val v) as [pl|]; [|split; [apply ksame_refl|reflexivity]].
    destruct (is_compliant pl s c); [|split; [apply ksame_refl|reflexivity]]. cbn [bindR ret fst]. split.
    + eapply ksame_trans; [apply ksame_apply_namespace|]. apply nsq_ksame. eapply nsq_trans; [apply nsq_emit|apply nsq_write_ns].
    + intros y Hy. cbn. apply apply_namespace_tab_other. exact Hy.
Qed.

Lemma dict_del_ns_facts s c :
  ksame s (fst (dict_del s c str_NS)) /\
  (forall y, ~ In y (subtree s c) -> nstab (fst (dict_del s c str_NS)) y = nstab s y).
Proof.
  unfold dict_del, ns_dictionary_delete. rewrite str_eqb_refl.
  destruct (ns_parent s c); [split; [apply ksame_refl|reflexivity]|].
  destruct (has_key s c str_NS); cbn [bindR ret fst].
  - match goal with |- context [if ?b then _ else _] => destruct b end; cbn [fst ret raise]; split.
    + apply nsq_ksame. eapply nsq_trans; [apply nsq_drop_namespace|]. eapply nsq_trans; [apply nsq_emit|apply nsq_erase_ns].
    + intros y Hy. cbn. apply drop_namespace_tab_other. exact Hy.
    + apply nsq_ksame. eapply nsq_trans; [apply nsq_drop_namespace|apply nsq_emit].
    + intros y Hy. cbn. apply drop_namespace_tab_other. exact Hy.
  - match goal with |- context [if ?b then _ else _] => destruct b end; cbn [fst ret raise]; split;
      try reflexivity; apply nsq_ksame; [eapply nsq_trans; [apply nsq_emit|apply nsq_erase_ns]|apply nsq_emit].
Qed.

Lemma tabok_ksame s s' p t : ksame s s' -> TabOK s (kmem s) p t -> TabOK s' (kmem s') p t.
Proof.
  intros [A _ _ D E] T. apply (tabok_ext s s' (kmem s) (kmem s') p t T).
  - intros. unfold kmem. rewrite A. tauto.
  - intros. split; [apply D|apply E].
Qed.

Lemma ksame_sym s s' : ksame s s' -> ksame s' s.
Proof. intros [A B C D E]. constructor; auto. Qed.

Lemma nsinvm_add_no_table s M r p c : NsInvM s M -> nstab s p = None -> NsInvM s (mem_add M r p c).
Proof.
  intros H Hn p' t' Hp'. apply (tabok_ext s s M (mem_add M r p c) p' t' (H p' t' Hp')); [|intros; split; reflexivity].
  intros r0 c0. unfold mem_add. split; [intros [A|[_ [-> _]]]; [exact A|congruence]|auto].
Qed.

Lemma tab_conflict_free tab (mem : id -> Prop) keyof c v :
  SlotOK tab mem keyof -> ~ mem c -> tab_conflict tab v c = false -> sassoc v tab = None.
Proof.
  intros H Hc Hf. unfold tab_conflict in Hf. destruct (sassoc v tab) as [x|] eqn:E; [|reflexivity].
  apply negb_false_iff, Nat.eqb_eq in Hf. subst x. apply H in E as [E _]. contradiction.
Qed.

Lemma nsinvm_ns_add s r p c :
  Inv1a s -> InvT s -> NsInv s -> ns_rel r = true ->
  kind_of s p = Some (rel_parent r) -> kind_of s c = Some (rel_child r) -> ~ In c (kids s r p) ->
  let res := ns_add s p c (rel_child r) in
  ksame s (fst res) /\ (snd res = None -> NsInvM (fst res) (mem_add (kmem s) r p c)).
Proof.
  intros Ha HT H Hr Hkp Hkc Hnin. cbn zeta. unfold ns_add.
  set (idv := get_str s c str_IDENT). set (nmv := get_str s c str_NAME).
  destruct (match nstab s p with Some t => _ | None => false end) eqn:Hconf; [split; [apply ksame_refl|discriminate]|].
  set (mid := match sassoc str_NS (data s p) with
              | Some pv => if match sassoc str_NS (data s c) with Some cv => val_eqb cv pv | None => false end then ret s else dict_set s c str_NS pv
              | None => if has_key s c str_NS then dict_del s c str_NS else ret s end).
  assert (Hmid : ksame s (fst mid) /\ NsInv (fst mid) /\ nstab (fst mid) p = nstab s p).
  { assert (Hp : ~ In p (subtree s c)) by (apply (parent_not_in_subtree s r p c HT Hr Hkp Hkc)).
    unfold mid. destruct (sassoc str_NS (data s p)) as [pv|].
    - destruct (match sassoc str_NS (data s c) with Some cv => val_eqb cv pv | None => false end).
      + split; [apply ksame_refl|split; [exact H|reflexivity]].
      + destruct (dict_set_ns_facts s c pv) as [K Ht]. split; [exact K|split; [apply nsinv_dict_set; assumption|apply Ht; exact Hp]].
    - destruct (has_key s c str_NS).
      + destruct (dict_del_ns_facts s c) as [K Ht]. split; [exact K|split; [apply nsinv_dict_del; assumption|apply Ht; exact Hp]].
      + split; [apply ksame_refl|split; [exact H|reflexivity]]. }
  fold mid. destruct mid as [s1 [x|]]; cbn [bindR fst snd] in *.
  - split; [apply Hmid|discriminate].
  - destruct Hmid as [K [H1 Ht1]]. rewrite Ht1.
    destruct (nstab s p) as [t|] eqn:Htp; cbn [fst snd ret].
    2:{ split; [exact K|]. intros _. apply nsinvm_add_no_table; [|congruence].
        apply (nsinvm_mem_ext s1 (kmem s1)); [|exact H1]. intros. unfold kmem. rewrite (ks_kids _ _ K). tauto. }
    split; [constructor; try apply K|].
    intros _.
    (* the table of p, read in the state before the policy was passed down *)
    assert (T0 : TabOK s (kmem s) p t) by (apply H; exact Htp).
    apply orb_false_iff in Hconf as [Hci Hcn].
    assert (Hfree_n : forall v, get_str s c str_NAME = Some v -> sassoc v (ns_names t (rel_child r)) = None).
    { intros v Ev. fold nmv in Ev. rewrite Ev in Hcn. apply negb_false_iff in Hcn.
      unfold ns_no_conflict in Hcn. rewrite str_eqb_refl in Hcn. apply negb_true_iff in Hcn.
      apply (tab_conflict_free _ _ _ c v (tk_names _ _ _ _ T0 r Hr) Hnin Hcn). }
    assert (Hfree_i : ns_pol t = PolEdif -> forall v, get_str s c str_IDENT = Some v -> sassoc (lower v) (ns_idents t (rel_child r)) = None).
    { intros Hp v Ev. fold idv in Ev. rewrite Ev in Hci. apply negb_false_iff in Hci.
      unfold ns_no_conflict in Hci. rewrite ident_ne_name, Hp, str_eqb_refl in Hci. apply negb_true_iff in Hci.
      apply (tab_conflict_free _ _ _ c (lower v) (tk_idents _ _ _ _ T0 Hp r Hr) Hnin Hci). }
    destruct (add_table_ok s (kmem s) r p c t Hr T0 Hnin Hfree_n Hfree_i) as [T2 _].
    change (match nmv with
            | Some v => ns_update (match idv with Some v0 => ns_update t (rel_child r) c str_IDENT (Some v0) v0 | None => t end) (rel_child r) c str_NAME (Some v) v
            | None => match idv with Some v0 => ns_update t (rel_child r) c str_IDENT (Some v0) v0 | None => t end
            end) with (add_table s t (rel_child r) c).
    intros p' t' Hp'. cbn in Hp'. unfold upd in Hp'. destruct (Nat.eqb_spec p' p) as [->|Hne].
    + injection Hp' as <-. apply (tabok_ext s _ _ _ p _ T2); [tauto|].
      intros r0 c0 _ _. split; [apply (ks_name _ _ K)|apply (ks_ident _ _ K)].
    + pose proof (H1 p' t' Hp') as T'. apply (tabok_ext s1 _ (kmem s1) _ p' t' T').
      * intros r0 c0. unfold mem_add, kmem. rewrite (ks_kids _ _ K). split; [intros [A|[_ [E _]]]; [exact A|contradiction]|auto].
      * intros; split; reflexivity.
Qed.

(* ---- NamespaceManager.remove ---- *)
Lemma nsinvm_ns_remove_child s M r p c :
  NsInvM s M -> ns_rel r = true -> M r p c ->
  NsInvM (ns_remove_child s p c (rel_child r)) (mem_del M r p c).
Proof.
  intros H Hr Hc. unfold ns_remove_child. destruct (nstab s p) as [t|] eqn:Htp.
  2:{ intros p' t' Hp'. apply (tabok_ext s s M _ p' t' (H p' t' Hp')); [|intros; split; reflexivity].
      intros r0 c0. unfold mem_del. split; [tauto|]. intro A. split; [exact A|]. intros [_ [-> _]]. congruence. }
  destruct (H p t Htp) as [T1 T2].
  set (t1 := ns_remove t (rel_child r) str_IDENT (get_str s c str_IDENT)).
  set (t2 := ns_remove t1 (rel_child r) str_NAME (get_str s c str_NAME)).
  intros p' t' Hp'. cbn in Hp'. unfold upd in Hp'. destruct (Nat.eqb_spec p' p) as [->|Hne].
  - injection Hp' as <-. constructor.
    + intros r0 Hr0. unfold t2. rewrite ns_remove_names, str_eqb_refl. unfold t1.
      assert (E : forall k', ns_names (ns_remove t (rel_child r) str_IDENT (get_str s c str_IDENT)) k' = ns_names t k')
        by (intro k'; rewrite ns_remove_names, ident_ne_name; reflexivity).
      destruct (rel_eq_dec r0 r) as [->|Hrr].
      * rewrite kind_eqb_refl. pose proof (slot_remove _ _ (name_key s) c (T1 r Hr) Hc) as S. unfold name_key in S at 1.
        eapply slot_ext; [destruct (get_str s c str_NAME); rewrite !E; exact S|intro c0; unfold mem_del; split; [intros [A B]; split; [exact A|intros ->; apply B; auto]|intros [A B]; split; [exact A|intros [_ [_ ->]]; apply B; reflexivity]]|intros; reflexivity].
      * assert (Hkk : kind_eqb (rel_child r0) (rel_child r) = false).
        { destruct (kind_eqb (rel_child r0) (rel_child r)) eqn:E0; [|reflexivity]. apply kind_eqb_eq in E0. exfalso. apply Hrr. apply rel_child_inj; assumption. }
        rewrite Hkk. eapply slot_ext; [destruct (get_str s c str_NAME); rewrite E; apply (T1 r0 Hr0)|intro c0; unfold mem_del; split; [intros [A _]; exact A|intro A; split; [exact A|intros [E0 _]; contradiction]]|intros; reflexivity].
    + unfold t2. rewrite ns_remove_pol. unfold t1. rewrite ns_remove_pol. intros Hp r0 Hr0.
      rewrite ns_remove_idents, str_eqb_refl, ns_remove_idents, ident_ne_name, Hp, str_eqb_refl.
      destruct (rel_eq_dec r0 r) as [->|Hrr].
      * rewrite kind_eqb_refl. pose proof (slot_remove _ _ (ident_key s) c (T2 Hp r Hr) Hc) as S. unfold ident_key in S at 1.
        eapply slot_ext; [destruct (get_str s c str_IDENT); exact S|intro c0; unfold mem_del; split; [intros [A B]; split; [exact A|intros ->; apply B; auto]|intros [A B]; split; [exact A|intros [_ [_ ->]]; apply B; reflexivity]]|intros; reflexivity].
      * assert (Hkk : kind_eqb (rel_child r0) (rel_child r) = false).
        { destruct (kind_eqb (rel_child r0) (rel_child r)) eqn:E0; [|reflexivity]. apply kind_eqb_eq in E0. exfalso. apply Hrr. apply rel_child_inj; assumption. }
        rewrite Hkk. eapply slot_ext; [destruct (get_str s c str_IDENT); apply (T2 Hp r0 Hr0)|intro c0; unfold mem_del; split; [intros [A _]; exact A|intro A; split; [exact A|intros [E0 _]; contradiction]]|intros; reflexivity].
  - apply (tabok_ext s _ M _ p' t' (H p' t' Hp')); [|intros; split; reflexivity].
    intros r0 c0. unfold mem_del. split; [tauto|]. intro A. split; [exact A|]. intros [_ [E _]]. contradiction.
Qed.

Lemma kids_upd2_ns (f : rel -> id -> list id) r p l r' p' :
  upd2 f r p l r' p' = if rel_eqb r' r && Nat.eqb p' p then l else f r' p'.
Proof. unfold upd2, upd. destruct (rel_eqb r' r); cbn [andb]; [|reflexivity]. destruct (Nat.eqb p' p); reflexivity. Qed.

(* ---- the editing calls ---- *)
Lemma nsinv_fields s s' :
  (forall r, ns_rel r = true -> kids s' r = kids s r) -> (forall y, nstab s' y = nstab s y) -> data s' = data s ->
  NsInv s -> NsInv s'.
Proof.
  intros Hk Ht Hd H. apply (nsinvm_mem_ext s' (kmem s)).
  - intros r p c Hr. unfold kmem. rewrite (Hk r Hr). tauto.
  - apply (nsinvm_same s); [exact H|exact Ht|]. intros. unfold get_str. rewrite Hd. reflexivity.
Qed.

Lemma is_kind_kind s x k : is_kind s x k = true -> kind_of s x = Some k.
Proof. unfold is_kind. destruct (kind_of s x) as [k0|]; [|discriminate]. intro H. apply kind_eqb_eq in H. subst. reflexivity. Qed.

Lemma add_post_fields s r p c :
  kids (add_post s r p c) = kids s /\ nstab (add_post s r p c) = nstab s /\ data (add_post s r p c) = data s /\
  kind_of (add_post s r p c) = kind_of s /\ par (add_post s r p c) = par s.
Proof.
  assert (G : forall f l s0, (forall s1 x, kids (f s1 x) = kids s1 /\ nstab (f s1 x) = nstab s1 /\ data (f s1 x) = data s1 /\ kind_of (f s1 x) = kind_of s1 /\ par (f s1 x) = par s1) ->
              kids (fold_ids f l s0) = kids s0 /\ nstab (fold_ids f l s0) = nstab s0 /\ data (fold_ids f l s0) = data s0 /\ kind_of (fold_ids f l s0) = kind_of s0 /\ par (fold_ids f l s0) = par s0).
  { intros f l. induction l as [|x l IH]; intros s0 Hf; cbn; [repeat split|].
    destruct (Hf s0 x) as [A [B [C [D E]]]]. destruct (IH (f s0 x) Hf) as [A' [B' [C' [D' E']]]]. repeat split; congruence. }
  unfold add_post. destruct r; try (repeat split; reflexivity).
  - apply G. intros s1 n. apply G. intros; repeat split; reflexivity.
  - destruct (par s RPorts p); [|repeat split; reflexivity]. apply G. intros; repeat split; reflexivity.
Qed.

Lemma nsinv_op_add s r p c pos : Inv1a s -> InvT s -> NsInv s -> NsInv (fst (op_add s r p c pos)).
Proof.
  intros Ha HT H. unfold op_add, guard.
  destruct (is_kind s p (rel_parent r) && is_kind s c (rel_child r)) eqn:Hk; [|exact H].
  apply andb_true_iff in Hk as [Hkp Hkc]. apply is_kind_kind in Hkp, Hkc.
  destruct (add_guard1 s r p c); [|exact H].
  destruct (par s r c) eqn:Hpar; [exact H|].
  assert (Hnin : ~ In c (kids s r p)) by (intro Hin; apply (i1_kids s Ha) in Hin; congruence).
  destruct (ns_rel r) eqn:Hr.
  - destruct (nsinvm_ns_add s r p c Ha HT H Hr Hkp Hkc Hnin) as [K Hm]. cbn zeta in *.
    pose proof (ns_add_refused s p c (rel_child r)) as Href.
    destruct (ns_add s p c (rel_child r)) as [s1 [x|]]; cbn [bindR fst snd ret] in *.
    + rewrite Href by discriminate. exact H.
    + specialize (Hm eq_refl).
      match goal with |- NsInv (add_post ?s3 r p c) => set (s3' := s3) end.
      destruct (add_post_fields s3' r p c) as [A [B [C _]]].
      apply (nsinvm_mem_ext _ (mem_add (kmem s) r p c)).
      * intros r0 p0 c0 _. unfold kmem, mem_add. rewrite A. unfold s3'. cbn. rewrite kids_upd2_ns.
        rewrite (ks_kids _ _ K).
        destruct (rel_eqb r0 r) eqn:Er; cbn [andb].
        -- apply rel_eqb_spec in Er. subst r0. destruct (Nat.eqb_spec p0 p) as [->|Hne].
           ++ rewrite py_insert_In. split; [intros [->|A0]; auto|intros [A0|[_ [_ ->]]]; auto].
           ++ split; [auto|intros [A0|[_ [E _]]]; [exact A0|contradiction]].
        -- split; [auto|intros [A0|[E _]]; [exact A0|subst; rewrite rel_eqb_refl in Er; discriminate]].
      * apply (nsinvm_same s1); [exact Hm|intro; rewrite B; reflexivity|]. intros. unfold get_str. rewrite C. reflexivity.
  - cbn [bindR ret fst].
    match goal with |- NsInv (add_post ?s3 r p c) => set (s3' := s3) end.
    destruct (add_post_fields s3' r p c) as [A [B [C _]]].
    apply (nsinv_fields s); [|intro; rewrite B; reflexivity|rewrite C; reflexivity|exact H].
    intros r0 Hr0. rewrite A. unfold s3'. cbn. unfold upd2. destruct (rel_eqb r0 r) eqn:Er; [|reflexivity].
    apply rel_eqb_spec in Er. subst. congruence.
Qed.

(* removal *)
Record q3 (s s' : state) : Prop := mkQ3 { q3_kids : kids s' = kids s; q3_data : data s' = data s; q3_tab : nstab s' = nstab s;
                                         q3_kind : kind_of s' = kind_of s }.
Lemma q3_refl s : q3 s s. Proof. constructor; reflexivity. Qed.
Lemma q3_trans a b c : q3 a b -> q3 b c -> q3 a c. Proof. intros [] []. constructor; congruence. Qed.
Lemma q3_bind r f s : q3 s (fst r) -> (forall s1, q3 s1 (fst (f s1))) -> q3 s (fst (r >>= f)).
Proof. destruct r as [s1 [x|]]; cbn; intros H1 H2; [exact H1|]. eapply q3_trans; [exact H1|apply H2]. Qed.
Lemma q3_fold_idsR f l : (forall s x, q3 s (fst (f s x))) -> forall s, q3 s (fst (fold_idsR f l s)).
Proof. intro H. induction l as [|x l IH]; intro s; cbn; [apply q3_refl|]. apply q3_bind; [apply H|apply IH]. Qed.
Lemma q3_drop_outer s n i : q3 s (fst (drop_outer s n i)).
Proof. unfold drop_outer. destruct (assoc i (ipins s n)) as [[w|]|]; constructor; reflexivity. Qed.

Lemma remove_core_q3 s r p c :
  q3 (if ns_rel r then ns_remove_child s p c (rel_child r) else s) (fst (remove_core s r p c)).
Proof.
  unfold remove_core. set (s1 := if ns_rel r then ns_remove_child s p c (rel_child r) else s).
  apply q3_bind; [|intro; constructor; reflexivity].
  eapply q3_trans with (b := emit s1 (ERemove r p c)); [constructor; reflexivity|].
  destruct r; try apply q3_refl.
  - apply q3_fold_idsR. intros s0 n. apply q3_fold_idsR. intros; apply q3_drop_outer.
  - destruct (par _ RPorts p); [|apply q3_refl]. apply q3_fold_idsR. intros; apply q3_drop_outer.
Qed.

Lemma q3_ns_remove_child s p c ck : kids (ns_remove_child s p c ck) = kids s /\ data (ns_remove_child s p c ck) = data s /\ kind_of (ns_remove_child s p c ck) = kind_of s.
Proof. unfold ns_remove_child. destruct (nstab s p); repeat split; reflexivity. Qed.

Lemma nsinvm_q3 s s' M : q3 s s' -> NsInvM s M -> NsInvM s' M.
Proof.
  intros [A B C _] H. apply (nsinvm_same s); [exact H|intro; rewrite C; reflexivity|]. intros. unfold get_str. rewrite B. reflexivity.
Qed.

(* one removed child: the state after _remove_* (table edited, container not yet) *)
Lemma nsinvm_remove_core s M r p c :
  NsInvM s M -> (ns_rel r = true -> M r p c) ->
  NsInvM (fst (remove_core s r p c)) (if ns_rel r then mem_del M r p c else M) /\
  kids (fst (remove_core s r p c)) = kids s /\ kind_of (fst (remove_core s r p c)) = kind_of s.
Proof.
  intros H Hc. pose proof (remove_core_q3 s r p c) as Q. destruct (q3_ns_remove_child s p c (rel_child r)) as [A [B C]].
  destruct (ns_rel r) eqn:Hr.
  - split; [apply (nsinvm_q3 _ _ _ Q); apply nsinvm_ns_remove_child; [exact H|exact Hr|apply Hc; reflexivity]|].
    split; [rewrite (q3_kids _ _ Q); exact A|rewrite (q3_kind _ _ Q); exact C].
  - split; [apply (nsinvm_q3 _ _ _ Q); exact H|]. split; [apply (q3_kids _ _ Q)|apply (q3_kind _ _ Q)].
Qed.

Lemma nsinv_op_remove s r p c : Inv1a s -> NsInv s ->
  snd (op_remove s r p c) <> Some XStuck -> NsInv (fst (op_remove s r p c)).
Proof.
  intros Ha H. unfold op_remove, guard.
  destruct (_ && _); [|intros _; exact H].
  destruct (par_is s r c p) eqn:Hpar; [|intros _; exact H].
  assert (Hin : In c (kids s r p)).
  { apply (i1_kids s Ha). unfold par_is in Hpar. destruct (par s r c) as [q|]; [|discriminate]. apply Nat.eqb_eq in Hpar. congruence. }
  destruct (nsinvm_remove_core s (kmem s) r p c H (fun _ => Hin)) as [Hm [Hk _]].
  pose proof (only_stuck_remove_core s r p c) as Ho.
  destruct (remove_core s r p c) as [s1 [x|]]; cbn [bindR fst snd ret] in *.
  - unfold only_stuck in Ho. cbn in Ho. subst x. intro Hs. exfalso. apply Hs. reflexivity.
  - intros _. destruct (ns_rel r) eqn:Hr.
    + apply (nsinvm_mem_ext _ (mem_del (kmem s) r p c)); [|apply (nsinvm_same s1); [exact Hm|intro; reflexivity|intros; reflexivity]].
      intros r0 p0 c0 _. unfold kmem, mem_del. cbn. rewrite kids_upd2_ns, Hk.
      destruct (rel_eqb r0 r) eqn:Er; cbn [andb].
      * apply rel_eqb_spec in Er. subst r0. destruct (Nat.eqb_spec p0 p) as [->|Hne].
        -- rewrite (remove_first_In c c0 _ (i1_nodup s Ha r p)). split; [intros [A B]; split; [exact A|intros [_ [_ ->]]; apply B; reflexivity]|intros [A B]; split; [exact A|intros ->; apply B; auto]].
        -- split; [intro A; split; [exact A|intros [_ [E _]]; contradiction]|tauto].
      * split; [intro A; split; [exact A|intros [E _]; subst; rewrite rel_eqb_refl in Er; discriminate]|tauto].
    + apply (nsinv_fields s1).
      * intros r0 Hr0. cbn. unfold upd2. destruct (rel_eqb r0 r) eqn:Er; [apply rel_eqb_spec in Er; subst; congruence|reflexivity].
      * intro; reflexivity.
      * reflexivity.
      * apply (nsinv_kids s); [exact Hk|exact Hm].
Qed.

Definition mem_del_list (M : Mem) (r : rel) (p : id) (l : list id) : Mem :=
  fun r' p' c' => M r' p' c' /\ ~ (r' = r /\ p' = p /\ In c' l).

Lemma nsinvm_fold_remove s0 r p : ns_rel r = true -> forall l done s,
  NoDup (done ++ l) -> (forall c, In c l -> In c (kids s0 r p)) ->
  NsInvM s (mem_del_list (kmem s0) r p done) -> kids s = kids s0 ->
  let res := fold_idsR (fun s c => remove_core s r p c) l s in
  (snd res = None -> NsInvM (fst res) (mem_del_list (kmem s0) r p (done ++ l))) /\ kids (fst res) = kids s0.
Proof.
  intros Hr. induction l as [|c l IH]; intros done s Hnd Hin H Hk; cbn [fold_idsR].
  - rewrite app_nil_r. split; [intros _; exact H|exact Hk].
  - assert (Hc : mem_del_list (kmem s0) r p done r p c).
    { split; [apply Hin; left; reflexivity|]. intros [_ [_ Hd]]. apply (NoDup_remove_2 done l c Hnd). apply in_or_app. left. exact Hd. }
    destruct (nsinvm_remove_core s _ r p c H (fun _ => Hc)) as [Hm [Hk1 _]]. rewrite Hr in Hm.
    destruct (remove_core s r p c) as [s1 [x|]]; cbn [bindR fst snd] in *.
    + split; [discriminate|congruence].
    + replace (done ++ c :: l) with ((done ++ [c]) ++ l) in * by (rewrite <- app_assoc; reflexivity).
      apply IH; [exact Hnd|intros c0 Hc0; apply Hin; right; exact Hc0| |congruence].
      apply (nsinvm_mem_ext s1 (mem_del (mem_del_list (kmem s0) r p done) r p c)); [|exact Hm].
      intros r0 p0 c0 _. unfold mem_del, mem_del_list. rewrite in_app_iff. cbn [In]. split.
      * intros [A B]. split; [split; [exact A|]|].
        -- intros [E1 [E2 E3]]. apply B. auto.
        -- intros [E1 [E2 E3]]. apply B. subst. auto.
      * intros [[A B] C]. split; [exact A|]. intros [E1 [E2 [E3|[E3|[]]]]]; [apply B; auto|apply C; subst; auto].
Qed.

Lemma nsinv_op_remove_from s r p cs : Inv1a s -> NsInv s ->
  snd (op_remove_from s r p cs) <> Some XStuck -> NsInv (fst (op_remove_from s r p cs)).
Proof.
  intros Ha H. unfold op_remove_from, guard.
  destruct (_ && _); [|intros _; exact H].
  destruct (forallb (fun c => par_is s r c p) cs) eqn:Hall; [|intros _; exact H].
  set (order := if walks_container r then filter (fun x => memb x cs) (kids s r p) else dedup cs).
  assert (Hcs : forall c, In c cs -> In c (kids s r p)).
  { intros c Hc. rewrite forallb_forall in Hall. specialize (Hall c Hc). apply (i1_kids s Ha).
    unfold par_is in Hall. destruct (par s r c) as [q|]; [|discriminate]. apply Nat.eqb_eq in Hall. congruence. }
  assert (Hord : forall c, In c order <-> In c cs).
  { intro c. unfold order. destruct (walks_container r).
    - rewrite filter_In. split; [intros [_ E]; apply memb_In; exact E|intro E; split; [apply Hcs; exact E|apply memb_In; exact E]].
    - rewrite <- !memb_In, memb_dedup. tauto. }
  assert (Hnd : NoDup order).
  { unfold order. destruct (walks_container r); [apply NoDup_filter; apply (i1_nodup s Ha)|apply NoDup_dedup]. }
  pose proof (only_stuck_fold_idsR (fun s0 c => remove_core s0 r p c) order (fun s0 c => only_stuck_remove_core s0 r p c) s) as Ho.
  destruct (ns_rel r) eqn:Hr.
  - destruct (nsinvm_fold_remove s r p Hr order [] s Hnd (fun c Hc => Hcs c (proj1 (Hord c) Hc))) as [Hm Hk].
    { apply (nsinvm_mem_ext s (kmem s)); [|exact H]. intros r0 p0 c0 _. unfold mem_del_list. cbn. tauto. }
    { reflexivity. }
    cbn zeta in *. destruct (fold_idsR _ order s) as [s1 [x|]]; cbn [bindR fst snd ret] in *.
    + unfold only_stuck in Ho. cbn in Ho. subst x. intro Hs. exfalso. apply Hs. reflexivity.
    + intros _. specialize (Hm eq_refl). cbn [app] in Hm.
      apply (nsinvm_mem_ext _ (mem_del_list (kmem s) r p order)); [|apply (nsinvm_same s1); [exact Hm|intro; reflexivity|intros; reflexivity]].
      intros r0 p0 c0 _. unfold kmem, mem_del_list. cbn. rewrite kids_upd2_ns, Hk.
      destruct (rel_eqb r0 r) eqn:Er; cbn [andb].
      * apply rel_eqb_spec in Er. subst r0. destruct (Nat.eqb_spec p0 p) as [->|Hne].
        -- rewrite remove_all_in_In, Hord. split; [intros [A B]; split; [exact A|intros [_ [_ C]]; contradiction]|intros [A B]; split; [exact A|intro C; apply B; auto]].
        -- split; [intro A; split; [exact A|intros [_ [E _]]; contradiction]|tauto].
      * split; [intro A; split; [exact A|intros [E _]; subst; rewrite rel_eqb_refl in Er; discriminate]|tauto].
  - (* pins / wires: no table is concerned *)
    assert (Hq : forall l s0, kids (fst (fold_idsR (fun s1 c => remove_core s1 r p c) l s0)) = kids s0 /\
                              nstab (fst (fold_idsR (fun s1 c => remove_core s1 r p c) l s0)) = nstab s0 /\
                              data (fst (fold_idsR (fun s1 c => remove_core s1 r p c) l s0)) = data s0).
    { induction l as [|c l IH]; intro s0; cbn [fold_idsR]; [repeat split|].
      pose proof (remove_core_q3 s0 r p c) as Q. rewrite Hr in Q.
      destruct (remove_core s0 r p c) as [s1 [x|]]; cbn [bindR fst] in *; [destruct Q; repeat split; assumption|].
      destruct (IH s1) as [A [B C]]. destruct Q as [A' B' C' _]. repeat split; congruence. }
    destruct (Hq order s) as [A [B C]].
    destruct (fold_idsR _ order s) as [s1 [x|]]; cbn [bindR fst snd ret] in *.
    + unfold only_stuck in Ho. cbn in Ho. subst x. intro Hs. exfalso. apply Hs. reflexivity.
    + intros _. apply (nsinv_fields s); [|intro; cbn; rewrite B; reflexivity|cbn; rewrite C; reflexivity|exact H].
      intros r0 Hr0. cbn. unfold upd2. destruct (rel_eqb r0 r) eqn:Er; [apply rel_eqb_spec in Er; subst; congruence|rewrite A; reflexivity].
Qed.

(* ---- typing of containment is an invariant ---- *)
Record tstep (s s' : state) : Prop := mkTstep {
  ts_grow : forall x k, kind_of s x = Some k -> kind_of s' x = Some k;
  ts_add : forall r p c, In c (kids s' r p) ->
           In c (kids s r p) \/ (kind_of s' c = Some (rel_child r) /\ kind_of s' p = Some (rel_parent r))
}.

Lemma tstep_refl s : tstep s s. Proof. constructor; auto. Qed.
Lemma tstep_trans a b c : tstep a b -> tstep b c -> tstep a c.
Proof.
  intros [A1 A2] [B1 B2]. constructor; [auto|]. intros r p x Hx.
  destruct (B2 r p x Hx) as [H|H]; [|right; exact H]. destruct (A2 r p x H) as [H'|[H1 H2]]; [left; exact H'|right; auto].
Qed.
Lemma tstep_invt s s' : tstep s s' -> InvT s -> InvT s'.
Proof.
  intros [A B] HT r p c Hc. destruct (B r p c Hc) as [H|H]; [|exact H].
  destruct (HT r p c H) as [H1 H2]. split; apply A; assumption.
Qed.
Lemma tstep_same s s' : kids s' = kids s -> kind_of s' = kind_of s -> tstep s s'.
Proof. intros A B. constructor; [intros; rewrite B; assumption|intros r p c; rewrite A; auto]. Qed.
Lemma tstep_fw s s' : frame_w s s' -> tstep s s'.
Proof. intros []. apply tstep_same; assumption. Qed.
Lemma tstep_struct s s' : struct_eq s s' -> tstep s s'.
Proof. intro H. apply tstep_same; [apply (se_kids _ _ H)|apply (se_kind _ _ H)]. Qed.
Lemma tstep_bind r f s : tstep s (fst r) -> (forall s1, tstep s1 (fst (f s1))) -> tstep s (fst (r >>= f)).
Proof. destruct r as [s1 [x|]]; cbn; intros H1 H2; [exact H1|]. eapply tstep_trans; [exact H1|apply H2]. Qed.
Lemma tstep_guard b x s k : (forall s1, tstep s1 (fst (k s1))) -> tstep s (fst (guard b x s k)).
Proof. intro H. unfold guard. destruct b; [apply H|apply tstep_refl]. Qed.
Lemma tstep_fold_idsR f l : (forall s x, tstep s (fst (f s x))) -> forall s, tstep s (fst (fold_idsR f l s)).
Proof. intro H. induction l as [|x l IH]; intro s; cbn; [apply tstep_refl|]. apply tstep_bind; [apply H|apply IH]. Qed.

Lemma tstep_op_add s r p c pos : tstep s (fst (op_add s r p c pos)).
Proof.
  unfold op_add, guard.
  destruct (is_kind s p (rel_parent r) && is_kind s c (rel_child r)) eqn:Hk; [|apply tstep_refl].
  apply andb_true_iff in Hk as [Hkp Hkc]. apply is_kind_kind in Hkp, Hkc.
  destruct (add_guard1 s r p c); [|apply tstep_refl]. destruct (par s r c); [apply tstep_refl|].
  pose proof (se_ns_add s p c (rel_child r)) as Hse.
  set (res := if ns_rel r then ns_add s p c (rel_child r) else ret s).
  assert (H1 : struct_eq s (fst res)) by (unfold res; destruct (ns_rel r); [exact Hse|apply struct_eq_refl]).
  destruct res as [s1 [x|]]; cbn [bindR fst ret] in *; [apply tstep_struct; exact H1|].
  destruct (add_post_fields (set_par (set_kids (emit s1 (EAdd r p c)) r p (py_insert pos c (kids (emit s1 (EAdd r p c)) r p))) r c (Some p)) r p c) as [A [_ [_ [B _]]]].
  constructor.
  - intros x k Hx. rewrite B. cbn. rewrite (se_kind _ _ H1). exact Hx.
  - intros r0 p0 c0. rewrite A, B. cbn. rewrite kids_upd2_ns, (se_kids _ _ H1), (se_kind _ _ H1).
    destruct (rel_eqb r0 r) eqn:Er; cbn [andb]; [|auto]. apply rel_eqb_spec in Er. subst r0.
    destruct (Nat.eqb_spec p0 p) as [->|]; [|auto]. rewrite py_insert_In. intros [->|H]; [right; auto|left; exact H].
Qed.

Lemma tstep_remove_core s r p c : tstep s (fst (remove_core s r p c)).
Proof.
  pose proof (remove_core_q3 s r p c) as Q. destruct (q3_ns_remove_child s p c (rel_child r)) as [A [_ C]].
  apply tstep_same; [rewrite (q3_kids _ _ Q)|rewrite (q3_kind _ _ Q)]; destruct (ns_rel r); auto.
Qed.

Lemma tstep_set_kids_sub s r p l : (forall x, In x l -> In x (kids s r p)) -> tstep s (set_kids s r p l).
Proof.
  intro H. constructor; [auto|]. intros r0 p0 c0. cbn. rewrite kids_upd2_ns.
  destruct (rel_eqb r0 r) eqn:Er; cbn [andb]; [|auto]. apply rel_eqb_spec in Er. subst r0.
  destruct (Nat.eqb_spec p0 p) as [->|]; [|auto]. intro Hx. left. apply H. exact Hx.
Qed.

Lemma tstep_op_remove s r p c : tstep s (fst (op_remove s r p c)).
Proof.
  unfold op_remove. repeat (apply tstep_guard; intro). apply tstep_bind; [apply tstep_remove_core|].
  intro s2. apply tstep_set_kids_sub. intros x Hx. apply (remove_first_In_sub c x _ Hx).
Qed.

Lemma tstep_op_remove_from s r p cs : tstep s (fst (op_remove_from s r p cs)).
Proof.
  unfold op_remove_from. repeat (apply tstep_guard; intro). apply tstep_bind; [apply tstep_fold_idsR; intros; apply tstep_remove_core|].
  intro s2. apply tstep_set_kids_sub. intros x Hx. apply remove_all_in_In in Hx. apply Hx.
Qed.

Lemma tstep_alloc s k : Fresh s -> tstep s (fst (alloc s k)).
Proof.
  intro F. unfold alloc. cbn. constructor; [|auto]. intros x k0 Hx. cbn. unfold upd.
  destruct (Nat.eqb_spec x (next s)) as [->|]; [|exact Hx]. rewrite (f_kind s F (next s) (Nat.le_refl _)) in Hx. discriminate.
Qed.

Lemma tstep_construct s k nm props : Fresh s -> tstep s (fst (fst (construct s k nm props))).
Proof.
  intro F. destruct (construct_frame s k nm props) as [A [_ [_ [_ B]]]]. constructor.
  - intros x k0 Hx. rewrite B. unfold upd. destruct (Nat.eqb_spec x (next s)) as [->|]; [|exact Hx].
    rewrite (f_kind s F (next s) (Nat.le_refl _)) in Hx. discriminate.
  - intros r p c. rewrite A. auto.
Qed.

Lemma tstep_create_items r p : forall n s, Fresh s -> tstep s (fst (create_items s r p n)).
Proof.
  induction n as [|n IH]; intros s F; cbn [create_items]; [apply tstep_refl|].
  pose proof (fresh_alloc s (rel_child r) F) as F0. pose proof (tstep_alloc s (rel_child r) F) as T0.
  unfold alloc in *. cbn [fst] in *. cbn zeta.
  eapply tstep_trans; [exact T0|]. 
  pose proof (fresh_op_add _ r p (next s) None F0) as F1.
  pose proof (tstep_op_add (s <| next := S (next s) |> <| kind_of ::= fun f => upd f (next s) (Some (rel_child r)) |>) r p (next s) None) as T1.
  destruct (op_add _ r p (next s) None) as [s1 [x|]]; cbn [bindR fst] in *; [exact T1|].
  eapply tstep_trans; [exact T1|apply IH; exact F1].
Qed.

Lemma tstep_op_set_reference s x v : tstep s (fst (op_set_reference s x v)).
Proof.
  destruct (fw_op_set_reference_but_iref s x v) as [A [_ [_ [B _]]]]. apply tstep_same; assumption.
Qed.

Theorem step_invt s o : Fresh s -> InvT s -> InvT (fst (step s o)).
Proof.
  intros F HT. apply (tstep_invt s); [|exact HT]. destruct o; cbn [step].
  - apply tstep_construct; exact F.
  - unfold guard. destruct (_ && _); [|apply tstep_refl]. unfold create_and_add.
    pose proof (tstep_construct s (rel_child r) nm props F) as Tc.
    pose proof (fresh_construct s (rel_child r) nm props F) as Fc.
    destruct (construct s (rel_child r) nm props) as [res x]. cbn [fst] in *.
    destruct res as [s1 [e|]]; cbn [bindR fst] in *; [exact Tc|].
    pose proof (tstep_op_add s1 r p x None) as Ta. pose proof (fresh_op_add s1 r p x None Fc) as Fa.
    destruct (op_add s1 r p x None) as [s2 [e|]]; cbn [bindR fst] in *; [eapply tstep_trans; eassumption|].
    eapply tstep_trans; [exact Tc|]. eapply tstep_trans; [exact Ta|].
    destruct r; try apply tstep_refl.
    + apply tstep_create_items; exact Fa.
    + apply tstep_create_items; exact Fa.
    + apply tstep_op_set_reference.
  - unfold guard. destruct (_ && _); [|apply tstep_refl]. apply tstep_create_items; exact F.
  - apply tstep_op_add.
  - apply tstep_op_remove.
  - apply tstep_op_remove_from.
  - unfold op_reorder, guard. destruct (is_kind _ _ _); [|apply tstep_refl].
    destruct (nodupb l && seteqb (kids s r p) l) eqn:Hg; [|apply tstep_refl].
    apply andb_true_iff in Hg as [_ Hs]. rewrite seteqb_spec in Hs. cbn [fst ret].
    apply tstep_set_kids_sub. intros x Hx. apply Hs. exact Hx.
  - unfold op_reorder_wire. repeat (apply tstep_guard; intro). apply tstep_same; reflexivity.
  - unfold op_connect. apply tstep_guard. intro s1. destruct p as [i|n i|]; cbn; try apply tstep_refl.
    + destruct (ipwire s1 i); cbn; [apply tstep_refl|apply tstep_same; reflexivity].
    + destruct (assoc i (ipins s1 n)) as [[w0|]|]; cbn; try apply tstep_refl. apply tstep_same; reflexivity.
  - unfold op_disconnect. repeat (apply tstep_guard; intro). destruct p; apply tstep_same; reflexivity.
  - unfold op_disconnect_from. repeat (apply tstep_guard; intro). cbn [fst ret].
    match goal with |- tstep ?sx (set_wpins (fold_left ?f ?l ?sx) _ _) =>
      apply (tstep_trans sx (fold_left f l sx)); [|apply tstep_same; reflexivity];
      apply tstep_fw; apply fw_fold_left; intros sq q; destruct q; constructor; reflexivity end.
  - apply tstep_op_set_reference.
  - unfold op_set_top, guard. destruct (_ && _); [|apply tstep_refl].
    assert (T0 : tstep s (clear_old_top (emit s (ETop n a)) n)) by (apply tstep_same; unfold clear_old_top; destruct (top _ n); reflexivity).
    assert (F0 : Fresh (clear_old_top (emit s (ETop n a)) n)).
    { apply (fresh_same s); try (unfold clear_old_top; destruct (top _ n); reflexivity). exact F. }
    destruct a as [x|d|].
    + eapply tstep_trans; [exact T0|apply tstep_same; reflexivity].
    + pose proof (tstep_construct _ KInstance None [] F0) as Tc.
      destruct (construct (clear_old_top (emit s (ETop n (TopDef d))) n) KInstance None []) as [res t]. cbn [fst] in Tc.
      eapply tstep_trans; [exact T0|]. apply tstep_bind; [exact Tc|]. intro s2.
      apply tstep_bind; [apply tstep_op_set_reference|]. intro s3.
      apply tstep_same; unfold clear_old_top; cbn; destruct (top _ n); reflexivity.
    + eapply tstep_trans; [exact T0|apply tstep_same; reflexivity].
  - apply tstep_guard. intro. apply tstep_struct, se_op_set_name.
  - apply tstep_guard. intro. apply tstep_struct, se_op_del_name.
  - apply tstep_guard. intro. apply tstep_struct, se_dict_set.
  - apply tstep_guard. intro. apply tstep_struct, se_dict_del.
  - apply tstep_guard. intro. apply tstep_struct, se_dict_pop.
  - apply tstep_guard. intro. apply tstep_same; reflexivity.
  - repeat (apply tstep_guard; intro). apply tstep_same; reflexivity.
  - apply tstep_guard. intro. apply tstep_same; reflexivity.
  - apply tstep_guard. intro. apply tstep_same; reflexivity.
  - apply tstep_same; reflexivity.
Qed.

(* ---- every call ---- *)
Definition NI (s : state) : Prop := Inv1a s /\ InvT s /\ NsInv s.

Lemma ni_struct s (r : R) : struct_eq s (fst r) -> Inv1a s -> InvT s -> Inv1a (fst r) /\ InvT (fst r).
Proof.
  intros Hse Ha HT. split; [eapply inv1a_cont; [apply struct_cont; exact Hse|exact Ha]|apply (tstep_invt s); [apply tstep_struct; exact Hse|exact HT]].
Qed.

Lemma ni_dict_set s e k v : NI s -> NI (fst (dict_set s e k v)).
Proof.
  intros [Ha [HT H]]. destruct (ni_struct s (dict_set s e k v) (se_dict_set s e k v) Ha HT) as [A B].
  split; [exact A|split; [exact B|apply nsinv_dict_set; assumption]].
Qed.

Lemma ni_set_props e props : forall s, NI s -> NI (fst (set_props s e props)).
Proof.
  induction props as [|[k v] ps IH]; intros s H; cbn [set_props]; [exact H|].
  pose proof (ni_dict_set s e k v H) as H1. destruct (dict_set s e k v) as [s1 [x|]]; cbn [bindR fst] in *; [exact H1|apply IH; exact H1].
Qed.

Lemma ni_same s s' :
  kids s' = kids s -> par s' = par s -> kind_of s' = kind_of s -> (forall y, nstab s' y = nstab s y) -> data s' = data s -> NI s -> NI s'.
Proof.
  intros A B C D E [Ha [HT H]]. split; [apply (inv1a_cont s s'); [split; assumption|exact Ha]|].
  split; [apply (tstep_invt s); [apply tstep_same; assumption|exact HT]|].
  apply (nsinv_fields s); [intros; rewrite A; reflexivity|exact D|exact E|exact H].
Qed.

Lemma ni_construct s k nm props : Fresh s -> NI s -> NI (fst (fst (construct s k nm props))).
Proof.
  intros F H. unfold construct, alloc. cbn zeta beta iota.
  set (s0 := s <| next := S (next s) |> <| kind_of ::= fun f => upd f (next s) (Some k) |>).
  assert (H0 : NI s0).
  { destruct H as [Ha [HT H]]. split; [apply (inv1a_cont s s0); [split; reflexivity|exact Ha]|].
    split; [apply (tstep_invt s); [apply (tstep_alloc s k F)|exact HT]|].
    apply (nsinv_fields s); [intros; reflexivity|intro; reflexivity|reflexivity|exact H]. }
  destruct (has_data k); cbn [fst]; [|exact H0].
  pose proof (ni_dict_set s0 (next s) str_NS (VStr (pol_name (policy s0))) H0) as H1. unfold ns_create.
  destruct (dict_set s0 (next s) str_NS (VStr (pol_name (policy s0)))) as [s1 [x|]]; cbn [bindR fst] in *; [exact H1|].
  assert (H2 : NI (emit s1 (ECreate k (next s)))) by (apply (ni_same s1); [reflexivity|reflexivity|reflexivity|intro; reflexivity|reflexivity|exact H1]).
  match goal with |- NI (fst (?m >>= _)) => assert (H3 : NI (fst m)); [|destruct m as [s3 [x|]]; cbn [bindR fst] in *; [exact H3|apply ni_set_props; exact H3]] end.
  destruct nm; [apply ni_dict_set; exact H2|exact H2].
Qed.

Lemma q3_rekey s n cn : q3 s (fst (rekey s n cn)).
Proof. unfold rekey. destruct cn. destruct (assoc _ _) as [[w|]|]; constructor; reflexivity. Qed.
Lemma q3_fold_pairsR f l : (forall s x, q3 s (fst (f s x))) -> forall s, q3 s (fst (fold_pairsR f l s)).
Proof. intro H. induction l as [|x l IH]; intro s; cbn; [apply q3_refl|]. apply q3_bind; [apply H|apply IH]. Qed.
Lemma q3_fold_ids f l : (forall s x, q3 s (f s x)) -> forall s, q3 s (fold_ids f l s).
Proof. intro H. induction l as [|x l IH]; intro s; cbn; [apply q3_refl|]. eapply q3_trans; [apply H|apply IH]. Qed.
Lemma q3_guard b x s k : (forall s1, q3 s1 (fst (k s1))) -> q3 s (fst (guard b x s k)).
Proof. intro H. unfold guard. destruct b; [apply H|apply q3_refl]. Qed.

Lemma q3_op_set_reference s x v : q3 s (fst (op_set_reference s x v)).
Proof.
  unfold op_set_reference. repeat (apply q3_guard; intro). destruct v as [d'|].
  - apply q3_bind; [|intro; constructor; reflexivity].
    destruct (iref _ x).
    + apply q3_bind; [destruct (memb _ _); constructor; reflexivity|]. intro. apply q3_fold_pairsR. intros; apply q3_rekey.
    + cbn [fst ret]. eapply q3_trans; [|apply q3_fold_ids; intros; constructor; reflexivity]. constructor; reflexivity.
  - apply q3_bind; [eapply q3_trans; [|apply q3_fold_idsR; intros; apply q3_drop_outer]; constructor; reflexivity|].
    intro s3. apply q3_bind; [destruct (iref _ x); [destruct (memb _ _)|]; constructor; reflexivity|intro; constructor; reflexivity].
Qed.

Lemma nsinv_q3 s s' : q3 s s' -> NsInv s -> NsInv s'.
Proof. intros [A B C _] H. apply (nsinv_fields s); [intros; rewrite A; reflexivity|intro; rewrite C; reflexivity|exact B|exact H]. Qed.

Lemma fold_unset_fields_ns w : forall l s,
  let s' := fold_left (fun s p =>
              match p with
              | POut _ _ => set_pin_wire (emit (emit s (EDisconnect w p)) (EDisconnect w p)) p None
              | _ => set_pin_wire (emit s (EDisconnect w p)) p None
              end) l s in
  kids s' = kids s /\ nstab s' = nstab s /\ data s' = data s.
Proof.
  induction l as [|p l IH]; intro s; cbn [fold_left]; [repeat split|].
  match goal with |- context [fold_left ?f l ?s1] => destruct (IH s1) as [A [B C]] end.
  cbn zeta. rewrite A, B, C. destruct p; repeat split.
Qed.

Lemma ni_of s : Inv s -> InvT s -> NsInv s -> NI s.
Proof. intros HI HT H. split; [apply HI|split; assumption]. Qed.

Lemma nsinv_create_items r p : ns_rel r = false -> forall n s,
  Inv s -> InvT s -> Fresh s -> NsInv s -> NsInv (fst (create_items s r p n)).
Proof.
  intros Hr. induction n as [|n IH]; intros s HI HT F H; cbn [create_items]; [exact H|].
  unfold alloc. cbn zeta.
  set (s0 := s <| next := S (next s) |> <| kind_of ::= fun f => upd f (next s) (Some (rel_child r)) |>).
  assert (HI0 : Inv s0) by (apply (inv_of_fields s); try reflexivity; exact HI).
  assert (HT0 : InvT s0) by (apply (tstep_invt s); [apply (tstep_alloc s (rel_child r) F)|exact HT]).
  assert (F0 : Fresh s0) by (apply (fresh_alloc s (rel_child r) F)).
  assert (H0 : NsInv s0) by (apply (nsinv_fields s); [intros; reflexivity|intro; reflexivity|reflexivity|exact H]).
  pose proof (nsinv_op_add s0 r p (next s) None (inv_a s0 HI0) HT0 H0) as H1.
  pose proof (op_add_inv s0 r p (next s) None HI0) as [HI1 _].
  pose proof (tstep_invt _ _ (tstep_op_add s0 r p (next s) None) HT0) as HT1.
  pose proof (fresh_op_add s0 r p (next s) None F0) as F1.
  destruct (op_add s0 r p (next s) None) as [s1 [x|]]; cbn [bindR fst] in *; [exact H1|].
  apply IH; assumption.
Qed.

Theorem step_nsinv s o :
  Inv s -> InvT s -> Fresh s -> NsInv s -> NsInv (fst (step s o)).
Proof.
  intros HI HT F H. pose proof (ni_of s HI HT H) as HN.
  pose proof (step_inv s o HI) as [_ Hns].
  destruct o; cbn [step] in *.
  - apply (ni_construct s k nm props F HN).
  - revert Hns. unfold guard. destruct (_ && _) eqn:HG; [|intros _; exact H].
    apply andb_true_iff in HG as [HG _]. apply andb_true_iff in HG as [_ Hr].
    unfold create_and_add.
    pose proof (ni_construct s (rel_child r) nm props F HN) as [Hac [HTc Hc]].
    pose proof (construct_rinv s (rel_child r) nm props HI) as [HIc _].
    pose proof (fresh_construct s (rel_child r) nm props F) as Fc.
    destruct (construct s (rel_child r) nm props) as [res x]. cbn [fst] in *.
    destruct res as [s1 [e|]]; cbn [bindR fst snd] in *; [intros _; exact Hc|].
    pose proof (nsinv_op_add s1 r p x None Hac HTc Hc) as H2.
    pose proof (op_add_inv s1 r p x None HIc) as [HI2 _].
    pose proof (tstep_invt _ _ (tstep_op_add s1 r p x None) HTc) as HT2.
    pose proof (fresh_op_add s1 r p x None Fc) as F2.
    destruct (op_add s1 r p x None) as [s2 [e|]]; cbn [bindR fst snd] in *; [intros _; exact H2|].
    intros _. destruct r; try exact H2; try discriminate Hr.
    + apply nsinv_create_items; [reflexivity|assumption..].
    + apply nsinv_create_items; [reflexivity|assumption..].
    + apply (nsinv_q3 s2); [apply q3_op_set_reference|exact H2].
  - revert Hns. unfold guard. destruct (_ && _) eqn:HG; [|intros _; exact H].
    apply andb_true_iff in HG as [_ Hr]. apply negb_true_iff in Hr. intros _.
    apply nsinv_create_items; assumption.
  - apply nsinv_op_add; [apply HI|exact HT|exact H].
  - apply nsinv_op_remove; [apply HI|exact H|exact Hns].
  - apply nsinv_op_remove_from; [apply HI|exact H|exact Hns].
  - unfold op_reorder, guard. destruct (is_kind _ _ _); [|exact H].
    destruct (nodupb l && seteqb (kids s r p) l) eqn:Hg; [|exact H]. cbn [fst ret].
    apply andb_true_iff in Hg as [_ Hs]. rewrite seteqb_spec in Hs.
    apply (nsinvm_mem_ext _ (kmem s)); [|apply (nsinvm_same s); [exact H|intro; reflexivity|intros; reflexivity]].
    intros r0 p0 c0 _. unfold kmem. cbn. rewrite kids_upd2_ns. destruct (rel_eqb r0 r) eqn:Er; cbn [andb]; [|tauto].
    apply rel_eqb_spec in Er. subst. destruct (Nat.eqb_spec p0 p) as [->|]; [symmetry; apply Hs|tauto].
  - unfold op_reorder_wire, guard. destruct (is_kind _ _ _); [|exact H]. destruct (_ && _); [|exact H].
    apply (nsinv_fields s); [intros; reflexivity|intro; reflexivity|reflexivity|exact H].
  - unfold op_connect, guard. destruct (_ && _); [|exact H].
    destruct p as [i|n i|]; cbn; try exact H.
    + destruct (ipwire s i); cbn; [exact H|]. apply (nsinv_fields s); [intros; reflexivity|intro; reflexivity|reflexivity|exact H].
    + destruct (assoc i (ipins s n)) as [[w0|]|]; cbn; try exact H. apply (nsinv_fields s); [intros; reflexivity|intro; reflexivity|reflexivity|exact H].
  - unfold op_disconnect, guard. destruct (_ && _); [|exact H]. destruct (can_disconnect _ _ _); [|exact H].
    destruct p; cbn; apply (nsinv_fields s); try (intros; reflexivity); try reflexivity; exact H.
  - unfold op_disconnect_from, guard. destruct (_ && _); [|exact H]. destruct (forallb _ _); [|exact H]. cbn [fst ret].
    destruct (fold_unset_fields_ns w (pins_dedup ps) s) as [A [B C]].
    apply (nsinv_fields s); [intros; cbn; rewrite A; reflexivity|intro; cbn; rewrite B; reflexivity|cbn; rewrite C; reflexivity|exact H].
  - apply (nsinv_q3 s); [apply q3_op_set_reference|exact H].
  - revert Hns. unfold op_set_top, guard. destruct (_ && _); [|intros _; exact H].
    set (s1 := clear_old_top (emit s (ETop n a)) n).
    assert (E : kids s1 = kids s /\ par s1 = par s /\ kind_of s1 = kind_of s /\ nstab s1 = nstab s /\ data s1 = data s).
    { unfold s1, clear_old_top. destruct (top _ n); repeat split; reflexivity. }
    destruct E as [E1 [E2 [E3 [E4 E5]]]].
    assert (HN1 : NI s1) by (apply (ni_same s); try assumption; intro; rewrite E4; reflexivity).
    assert (F1 : Fresh s1) by (apply (fresh_same s); try assumption; unfold s1, clear_old_top; destruct (top _ n); reflexivity).
    destruct a as [x|d|].
    + intros _. cbn [fst ret]. apply (nsinv_fields s1); [intros; reflexivity|intro; reflexivity|reflexivity|apply HN1].
    + pose proof (ni_construct s1 KInstance None [] F1 HN1) as [_ [_ Hc]].
      destruct (construct s1 KInstance None []) as [res t]. cbn [fst] in Hc.
      destruct res as [s2 [e|]]; cbn [bindR fst snd] in *; [intros _; exact Hc|].
      pose proof (q3_op_set_reference s2 t (Some d)) as Q.
      destruct (op_set_reference s2 t (Some d)) as [s3 [e|]]; cbn [bindR fst snd ret] in *; intros _.
      * apply (nsinv_q3 s2); assumption.
      * apply (nsinv_fields s3); [intros; unfold clear_old_top; cbn; destruct (top _ n); reflexivity
                                 |intro; unfold clear_old_top; cbn; destruct (top _ n); reflexivity
                                 |unfold clear_old_top; cbn; destruct (top _ n); reflexivity|apply (nsinv_q3 s2); assumption].
    + intros _. cbn [fst ret]. apply (nsinv_fields s1); [intros; reflexivity|intro; reflexivity|reflexivity|apply HN1].
  - unfold guard. destruct (elem_has_data s e); [|exact H]. unfold op_set_name.
    destruct nm; [apply nsinv_dict_set; [apply HI|exact HT|exact H]|].
    destruct (has_key s e str_NAME); [apply nsinv_dict_del; [apply HI|exact HT|exact H]|exact H].
  - unfold guard. destruct (elem_has_data s e); [|exact H]. unfold op_del_name.
    destruct (has_key s e str_NAME); [apply nsinv_dict_del; [apply HI|exact HT|exact H]|exact H].
  - unfold guard. destruct (elem_has_data s e); [|exact H]. apply nsinv_dict_set; [apply HI|exact HT|exact H].
  - unfold guard. destruct (elem_has_data s e); [|exact H]. apply nsinv_dict_del; [apply HI|exact HT|exact H].
  - unfold guard. destruct (elem_has_data s e); [|exact H]. apply nsinv_dict_pop; [apply HI|exact HT|exact H].
  - unfold guard. destruct (_ || _); [|exact H]. apply (nsinv_fields s); [intros; reflexivity|intro; reflexivity|reflexivity|exact H].
  - unfold guard. destruct (_ || _); [|exact H]. destruct (negb _); [|exact H]. apply (nsinv_fields s); [intros; reflexivity|intro; reflexivity|reflexivity|exact H].
  - unfold guard. destruct (_ || _); [|exact H]. apply (nsinv_fields s); [intros; reflexivity|intro; reflexivity|reflexivity|exact H].
  - unfold guard. destruct (is_kind _ _ _); [|exact H]. apply (nsinv_fields s); [intros; reflexivity|intro; reflexivity|reflexivity|exact H].
  - apply (nsinv_fields s); [intros; reflexivity|intro; reflexivity|reflexivity|exact H].
Qed.

(* ---- histories, and what the invariant says to a user ---- *)
Lemma nsinv_init : NsInv init.
Proof. intros p t Hp. discriminate. Qed.

Lemma invt_init : InvT init.
Proof. intros r p c []. Qed.

Theorem reachable_nsinv ops :
  let s := run ops init in Inv s /\ InvT s /\ Fresh s /\ NsInv s.
Proof.
  cbn zeta.
  assert (G : forall ops s, Inv s -> InvT s -> Fresh s -> NsInv s ->
              Inv (run ops s) /\ InvT (run ops s) /\ Fresh (run ops s) /\ NsInv (run ops s)).
  { induction ops0 as [|o ops0 IH]; intros s HI HT F H; cbn [run fold_left]; [split; [exact HI|split; [exact HT|split; [exact F|exact H]]]|].
    apply IH; [apply (step_inv s o HI)|apply step_invt; assumption|apply step_fresh; exact F|apply step_nsinv; assumption]. }
  apply G; [apply inv_init|apply invt_init|apply fresh_init|apply nsinv_init].
Qed.

(* sibling names are unique in every scope that carries a policy *)
Theorem names_unique s p t r c1 c2 v :
  NsInv s -> nstab s p = Some t -> ns_rel r = true ->
  In c1 (kids s r p) -> In c2 (kids s r p) ->
  get_str s c1 str_NAME = Some v -> get_str s c2 str_NAME = Some v -> c1 = c2.
Proof.
  intros H Hp Hr H1 H2 E1 E2. pose proof (tk_names _ _ _ _ (H p t Hp) r Hr) as S.
  assert (A : sassoc v (ns_names t (rel_child r)) = Some c1) by (apply S; split; assumption).
  assert (B : sassoc v (ns_names t (rel_child r)) = Some c2) by (apply S; split; assumption). congruence.
Qed.

(* and under the EDIF policy identifiers are unique up to letter case *)
Theorem idents_unique s p t r c1 c2 v1 v2 :
  NsInv s -> nstab s p = Some t -> ns_pol t = PolEdif -> ns_rel r = true ->
  In c1 (kids s r p) -> In c2 (kids s r p) ->
  get_str s c1 str_IDENT = Some v1 -> get_str s c2 str_IDENT = Some v2 -> lower v1 = lower v2 -> c1 = c2.
Proof.
  intros H Hp Hpol Hr H1 H2 E1 E2 El. pose proof (tk_idents _ _ _ _ (H p t Hp) Hpol r Hr) as S.
  assert (A : sassoc (lower v1) (ns_idents t (rel_child r)) = Some c1) by (apply S; split; [assumption|unfold ident_key; rewrite E1; reflexivity]).
  assert (B : sassoc (lower v1) (ns_idents t (rel_child r)) = Some c2) by (apply S; split; [assumption|unfold ident_key; rewrite E2, El; reflexivity]). congruence.
Qed.

(* exact lookup through the manager's table = what a linear scan of the children finds *)
Lemma find_unique {A} (f : A -> bool) (l : list A) x :
  In x l -> f x = true -> (forall y, In y l -> f y = true -> y = x) -> find f l = Some x.
Proof.
  induction l as [|a l IH]; intros Hin Hf Hu; [destruct Hin|]. cbn.
  destruct (f a) eqn:Ea; [f_equal; apply Hu; [left; reflexivity|exact Ea]|].
  destruct Hin as [->|Hin]; [congruence|]. apply IH; [exact Hin|exact Hf|intros y Hy; apply Hu; right; exact Hy].
Qed.

Lemma find_none {A} (f : A -> bool) (l : list A) : (forall y, In y l -> f y = false) -> find f l = None.
Proof. induction l as [|a l IH]; intro H; cbn; [reflexivity|]. rewrite (H a (or_introl eq_refl)). apply IH. intros y Hy. apply H. right. exact Hy. Qed.

Theorem lookup_is_scan_name s p t r v :
  NsInv s -> nstab s p = Some t -> ns_rel r = true ->
  fast_lookup s p (rel_child r) str_NAME v = scan_lookup s (kids s r p) str_NAME v.
Proof.
  intros H Hp Hr. pose proof (tk_names _ _ _ _ (H p t Hp) r Hr) as S.
  unfold fast_lookup, scan_lookup. rewrite Hp. unfold ns_lookup. rewrite str_eqb_refl.
  set (f := fun x => match sassoc str_NAME (data s x) with Some (VStr w) => str_eqb v w | _ => false end).
  assert (Hf : forall x, f x = true <-> get_str s x str_NAME = Some v).
  { intro x. unfold f, get_str. destruct (sassoc str_NAME (data s x)) as [[w| | |]|]; try (split; discriminate).
    rewrite str_eqb_spec. split; [intros ->; reflexivity|intro E; injection E; auto]. }
  destruct (sassoc v (ns_names t (rel_child r))) as [c|] eqn:E.
  - apply S in E as [Hin Hk]. symmetry. apply find_unique; [exact Hin|apply Hf; exact Hk|].
    intros y Hy Hfy. apply Hf in Hfy. apply (names_unique s p t r y c v H Hp Hr Hy Hin Hfy Hk).
  - symmetry. apply find_none. intros y Hy. destruct (f y) eqn:Ey; [|reflexivity]. apply Hf in Ey.
    assert (A : sassoc v (ns_names t (rel_child r)) = Some y) by (apply S; split; assumption). congruence.
Qed.

(* a rename is refused for a conflict exactly when another sibling carries the name *)
Theorem rename_conflict_iff s p t r e v :
  NsInv s -> nstab s p = Some t -> ns_rel r = true ->
  (ns_no_conflict t (rel_child r) e str_NAME v = false <->
   exists x, In x (kids s r p) /\ x <> e /\ get_str s x str_NAME = Some v).
Proof.
  intros H Hp Hr. pose proof (tk_names _ _ _ _ (H p t Hp) r Hr) as S.
  rewrite no_conflict_iff_name. split.
  - intros [x [Hx Hne]]. apply S in Hx as [A B]. exists x. auto.
  - intros [x [A [B C]]]. exists x. split; [apply S; split; assumption|exact B].
Qed.
