(* Engine `verilog`: what the faithful model of the top election says *)
From Coq Require Import List Arith Bool Lia.
From SV Require Import Fmt.VTop.
Import ListNotations.

(* the former witness: file order A, R, M1, M2 with R -> M1 -> M2 -> A (R is the root). M1 was elected; now R.
   Replayed on the implementation by corpus/verilog/t1-top-election-three-levels.json *)
Definition wit_doc : list dmod := [(0, false, []); (1, false, [2]); (2, false, [3]); (3, false, [0])].

Lemma wit_single_root : single_root wit_doc 1.
Proof.
  split; [exists [2]; cbn; auto|]. split.
  - intros [d [Hin [Hne [Hc Hm]]]]. cbn in Hin.
    repeat (destruct Hin as [<-|Hin]; [cbn in *; intuition lia|]). contradiction.
  - intros d Hin Hc Hne. cbn in Hin.
    destruct Hin as [<-|[<-|[<-|[<-|[]]]]]; cbn in *; try lia.
    + exists (3, false, [0]). cbn. intuition lia.
    + exists (1, false, [2]). cbn. intuition lia.
    + exists (2, false, [3]). cbn. intuition lia.
Qed.

(* the candidate found while parsing is M1 (the re-election walks one level); elect_top puts the root *)
Lemma wit_elect_parsing : elect_parsing wit_doc = [2].
Proof. vm_compute. reflexivity. Qed.

Lemma wit_elect : elect wit_doc = [1].
Proof. vm_compute. reflexivity. Qed.

Lemma instantiatedb_spec doc m : instantiatedb doc m = true <-> instantiated doc m.
Proof.
  unfold instantiatedb, instantiated. rewrite existsb_exists. split.
  - intros [d [Hin H]]. apply andb_prop in H. destruct H as [H H3]. apply andb_prop in H. destruct H as [H1 H2].
    exists d. split; [exact Hin|]. split; [|split].
    + apply negb_true_iff in H1. apply Nat.eqb_neq in H1. exact H1.
    + apply negb_true_iff in H2. exact H2.
    + apply existsb_exists in H3. destruct H3 as [x [Hx E]]. apply Nat.eqb_eq in E. subst x. exact Hx.
  - intros [d [Hin [H1 [H2 H3]]]]. exists d. split; [exact Hin|].
    apply andb_true_intro. split; [apply andb_true_intro; split|].
    + apply negb_true_iff. apply Nat.eqb_neq. exact H1.
    + rewrite H2. reflexivity.
    + apply existsb_exists. exists m. split; [exact H3|apply Nat.eqb_refl].
Qed.

Lemma nodup_all_same r : forall l : list nat, (forall x, In x l -> x = r) -> In r l -> nodup Nat.eq_dec l = [r].
Proof.
  induction l as [|a l IH]; intros Hall Hin; [contradiction|].
  assert (a = r) by (apply Hall; left; reflexivity). subst a. cbn [nodup].
  destruct (in_dec Nat.eq_dec r l) as [Hr|Hr].
  - apply IH; [intros x Hx; apply Hall; right; exact Hx|exact Hr].
  - destruct l as [|b l]; [reflexivity|]. exfalso. apply Hr. left. apply Hall. right. left. reflexivity.
Qed.

Lemma single_root_roots doc r : single_root doc r -> roots doc = [r].
Proof.
  intros [[insts Hr] [Hn Hall]]. unfold roots. apply nodup_all_same.
  - intros x Hx. apply in_map_iff in Hx. destruct Hx as [d [E Hd]]. apply filter_In in Hd. destruct Hd as [Hd Hf].
    apply andb_prop in Hf. destruct Hf as [Hc Hi]. apply negb_true_iff in Hc. apply negb_true_iff in Hi.
    destruct (Nat.eq_dec x r) as [Heq|Hne]; [exact Heq|]. exfalso.
    assert (Hinst : instantiated doc (fst (fst d))) by (apply Hall; [exact Hd|exact Hc|rewrite E; exact Hne]).
    apply instantiatedb_spec in Hinst. rewrite Hinst in Hi. discriminate.
  - apply in_map_iff. exists (r, false, insts). split; [reflexivity|]. apply filter_In. split; [exact Hr|]. cbn [fst snd negb andb].
    destruct (instantiatedb doc r) eqn:E; [|reflexivity]. apply instantiatedb_spec in E. contradiction.
Qed.

(* the property's clause holds of the repaired reader: in every file order, the single root is the top *)
Theorem top_is_root_lemma : top_is_root.
Proof.
  intros doc r Hr t Ht. unfold elect in Ht. rewrite (single_root_roots doc r Hr) in Ht.
  destruct Ht as [<-|[]]. reflexivity.
Qed.

(* the candidate found while parsing: when the root module comes first in the file it is (and stays) that candidate *)
Lemma step_inst_keeps r m ref tops ps :
  ref <> r -> (forall t, In t tops -> t = r) ->
  forall t, In t (fst (step_inst m (tops, ps) ref)) -> t = r.
Proof.
  intros Hne Hall t Hin. cbn in Hin. apply in_flat_map in Hin. destruct Hin as [t0 [H0 Ht]].
  assert (t0 = r) by (apply Hall; exact H0). subst t0.
  destruct (Nat.eqb_spec r ref); [congruence|]. destruct Ht as [<-|[]]. reflexivity.
Qed.

Lemma fold_inst_keeps r m : forall insts tops ps,
  ~ In r insts -> (forall t, In t tops -> t = r) ->
  forall t, In t (fst (fold_left (step_inst m) insts (tops, ps))) -> t = r.
Proof.
  induction insts as [|ref insts IH]; intros tops ps Hn Hall t Hin; [apply Hall; exact Hin|].
  cbn [fold_left] in Hin. destruct (step_inst m (tops, ps) ref) as [tops' ps'] eqn:E.
  apply (IH tops' ps'); [intro; apply Hn; right; assumption| |exact Hin].
  intros t' Ht'. apply (step_inst_keeps r m ref tops ps); [intro; apply Hn; left; congruence|exact Hall|].
  rewrite E. exact Ht'.
Qed.

Lemma fold_mod_keeps r : forall doc tops ps,
  (forall d, In d doc -> snd (fst d) = false -> ~ In r (snd d)) -> (forall t, In t tops -> t = r) ->
  forall t, In t (match fst (fold_left step_mod doc (Some tops, ps)) with Some l => l | None => [] end) -> t = r.
Proof.
  induction doc as [|[[name cell] insts] doc IH]; intros tops ps Hn Hall t Hin; [apply Hall; exact Hin|].
  cbn [fold_left step_mod] in Hin. destruct cell.
  - apply (IH tops ps); [intros; apply Hn; [right|]; assumption|exact Hall|exact Hin].
  - cbn [fst snd] in Hin.
    apply (IH _ _ ltac:(intros; apply Hn; [right|]; assumption)) in Hin; [exact Hin|].
    apply fold_inst_keeps; [apply (Hn (name, false, insts)); [left; reflexivity|reflexivity]|exact Hall].
Qed.

Theorem root_first_is_top_lemma : forall r insts rest,
  (forall d, In d ((r, false, insts) :: rest) -> snd (fst d) = false -> ~ In r (snd d)) ->
  forall t, In t (elect_parsing ((r, false, insts) :: rest)) -> t = r.
Proof.
  intros r insts rest Hn t Hin. unfold elect_parsing in Hin. cbn [fold_left step_mod fst snd] in Hin.
  apply (fold_mod_keeps r rest) in Hin; [exact Hin|intros; apply Hn; [right|]; assumption|].
  apply fold_inst_keeps; [apply (Hn (r, false, insts)); [left; reflexivity|reflexivity]|].
  intros t' [<-|[]]. reflexivity.
Qed.
