(* Engine `verilog`: what the faithful model of the top election says *)
From Coq Require Import List Arith Bool Lia.
From SV Require Import Fmt.VTop.
Import ListNotations.

(* witness: file order A, R, M1, M2 with R -> M1 -> M2 -> A (R is the root). M1 is elected.
   Replayed on the implementation by corpus/verilog/t1-top-election-three-levels.json *)
Definition wit_doc : list dmod := [(0, false, []); (1, false, [2]); (2, false, [3]); (3, false, [0])].

Lemma wit_single_root : single_root wit_doc 1.
Proof.
  split; [exists [2]; cbn; auto|]. split.
  - intros [d [Hin [Hne [Hc Hm]]]]. cbn in Hin.
    repeat (destruct Hin as [<-|Hin]; [cbn in *; intuition lia|]). contradiction.
  - intros d Hin Hc Hne. cbn in Hin.
    destruct Hin as [<-|[<-|[<-|[<-|[]]]]]; cbn in *; try lia.
    + exists (3, false, [0]). cbn. intuition lia.
    + exists (1, false, [2]). cbn. intuition lia.
    + exists (2, false, [3]). cbn. intuition lia.
Qed.

Lemma wit_elect : elect wit_doc = [2].
Proof. vm_compute. reflexivity. Qed.

Theorem top_is_root_refuted_lemma : ~ top_is_root.
Proof.
  intro H. specialize (H wit_doc 1 wit_single_root 2). rewrite wit_elect in H.
  specialize (H (or_introl eq_refl)). discriminate.
Qed.

(* what does hold: when the root module comes first in the file it is (and stays) the top *)
Lemma step_inst_keeps r m ref tops ps :
  ref <> r -> (forall t, In t tops -> t = r) ->
  forall t, In t (fst (step_inst m (tops, ps) ref)) -> t = r.
Proof.
  intros Hne Hall t Hin. cbn in Hin. apply in_flat_map in Hin. destruct Hin as [t0 [H0 Ht]].
  assert (t0 = r) by (apply Hall; exact H0). subst t0.
  destruct (Nat.eqb_spec r ref); [congruence|]. destruct Ht as [<-|[]]. reflexivity.
Qed.

Lemma fold_inst_keeps r m : forall insts tops ps,
  ~ In r insts -> (forall t, In t tops -> t = r) ->
  forall t, In t (fst (fold_left (step_inst m) insts (tops, ps))) -> t = r.
Proof.
  induction insts as [|ref insts IH]; intros tops ps Hn Hall t Hin; [apply Hall; exact Hin|].
  cbn [fold_left] in Hin. destruct (step_inst m (tops, ps) ref) as [tops' ps'] eqn:E.
  apply (IH tops' ps'); [intro; apply Hn; right; assumption| |exact Hin].
  intros t' Ht'. apply (step_inst_keeps r m ref tops ps); [intro; apply Hn; left; congruence|exact Hall|].
  rewrite E. exact Ht'.
Qed.

Lemma fold_mod_keeps r : forall doc tops ps,
  (forall d, In d doc -> snd (fst d) = false -> ~ In r (snd d)) -> (forall t, In t tops -> t = r) ->
  forall t, In t (match fst (fold_left step_mod doc (Some tops, ps)) with Some l => l | None => [] end) -> t = r.
Proof.
  induction doc as [|[[name cell] insts] doc IH]; intros tops ps Hn Hall t Hin; [apply Hall; exact Hin|].
  cbn [fold_left step_mod] in Hin. destruct cell.
  - apply (IH tops ps); [intros; apply Hn; [right|]; assumption|exact Hall|exact Hin].
  - cbn [fst snd] in Hin.
    apply (IH _ _ ltac:(intros; apply Hn; [right|]; assumption)) in Hin; [exact Hin|].
    apply fold_inst_keeps; [apply (Hn (name, false, insts)); [left; reflexivity|reflexivity]|exact Hall].
Qed.

Theorem root_first_is_top_lemma : forall r insts rest,
  (forall d, In d ((r, false, insts) :: rest) -> snd (fst d) = false -> ~ In r (snd d)) ->
  forall t, In t (elect ((r, false, insts) :: rest)) -> t = r.
Proof.
  intros r insts rest Hn t Hin. unfold elect in Hin. cbn [fold_left step_mod fst snd] in Hin.
  apply (fold_mod_keeps r rest) in Hin; [exact Hin|intros; apply Hn; [right|]; assumption|].
  apply fold_inst_keeps; [apply (Hn (r, false, insts)); [left; reflexivity|reflexivity]|].
  intros t' [<-|[]]. reflexivity.
Qed.
