(* The reader's treatment of the nets of one cell (Fmt/EdifNets.v: read_nets) implements the
   declarative meaning of Fmt/EdifNetsSpec.v (denote_conn) under nets_ok.

   nets_sound    : nets_ok nets -> read_nets [] nets = Some s -> denote_conn nets s
   nets_okb_spec : the boolean checker nets_okb is sound for nets_ok
   nets_complete : under nets_ok, the reader fails only on an IndexError of net_bit *)
From Coq Require Import List NArith Bool Arith Lia Permutation.
From SV Require Import Base.Base Fmt.EdifName Fmt.EdifCable Fmt.EdifBus Fmt.EdifNets Fmt.EdifNetsSpec Proofs.EdifNameProofs Proofs.EdifCableProofs Proofs.EdifNetsProofs Proofs.EdifFileNets.
Import ListNotations.

(* ------------------------------------------------------------------------------------------ *)
(* Generic list facts                                                                          *)

Lemma FOP_snoc {A} (R : A -> A -> Prop) (l : list A) (x : A) :
  ForallOrdPairs R (l ++ [x]) -> ForallOrdPairs R l /\ (forall a, In a l -> R a x).
Proof.
  induction l as [|y l IH]; cbn [app]; intro H.
  - split; [constructor|intros a []].
  - inversion H as [|y' l' Hf Hr]; subst. destruct (IH Hr) as [H1 H2].
    rewrite Forall_forall in Hf. split.
    + constructor; [|exact H1]. rewrite Forall_forall. intros z Hz. apply Hf.
      apply in_or_app. left. exact Hz.
    + intros a [<-|Ha]; [|apply H2; exact Ha]. apply Hf. apply in_or_app. right. left. reflexivity.
Qed.

Lemma existsb_str (x : str) (l : list str) : existsb (str_eqb x) l = true <-> In x l.
Proof.
  rewrite existsb_exists. split.
  - intros (y & Hy & E). apply str_eqb_spec in E. subst y. exact Hy.
  - intro H. exists x. split; [exact H|apply str_eqb_refl].
Qed.

Lemma existsb_str_false (x : str) (l : list str) : ~ In x l -> existsb (str_eqb x) l = false.
Proof.
  intro H. destruct (existsb (str_eqb x) l) eqn:E; [|reflexivity].
  apply existsb_str in E. contradiction.
Qed.

(* ------------------------------------------------------------------------------------------ *)
(* uniq_from                                                                                   *)

Lemma uniq_from_in (l : list str) : forall seen x,
  In x (uniq_from seen l) <-> In x l /\ ~ In x seen.
Proof.
  induction l as [|y l IH]; intros seen x; cbn [uniq_from].
  - cbn [In]. tauto.
  - destruct (existsb (str_eqb y) seen) eqn:E.
    + apply existsb_str in E. rewrite IH. cbn [In]. split.
      * intros [H1 H2]. split; [right; exact H1|exact H2].
      * intros [[Hy|H1] H2]; [subst y; contradiction|split; assumption].
    + assert (Hy : ~ In y seen) by (intro H; apply existsb_str in H; congruence).
      cbn [In]. rewrite IH. cbn [In]. split.
      * intros [Hx|[H1 H2]].
        -- subst y. split; [left; reflexivity|exact Hy].
        -- split; [right; exact H1|]. intro H. apply H2. right. exact H.
      * intros [[Hx|H1] H2]; [left; exact Hx|].
        destruct (str_eqb y x) eqn:Eyx.
        -- apply str_eqb_spec in Eyx. left. exact Eyx.
        -- right. split; [exact H1|]. intros [Hx|Hx]; [|contradiction].
           subst y. rewrite str_eqb_refl in Eyx. discriminate.
Qed.

Lemma uniq_from_nodup (l : list str) : forall seen, NoDup (uniq_from seen l).
Proof.
  induction l as [|y l IH]; intro seen; cbn [uniq_from]; [constructor|].
  destruct (existsb (str_eqb y) seen); [apply IH|]. constructor; [|apply IH].
  rewrite uniq_from_in. intros [_ H]. apply H. left. reflexivity.
Qed.

Lemma uniq_from_snoc_old (l : list str) : forall seen x,
  In x seen \/ In x l -> uniq_from seen (l ++ [x]) = uniq_from seen l.
Proof.
  induction l as [|y l IH]; intros seen x H; cbn [app uniq_from].
  - destruct H as [H|[]]. apply existsb_str in H. rewrite H. reflexivity.
  - destruct (existsb (str_eqb y) seen) eqn:E.
    + apply IH. destruct H as [H|[Hy|H]].
      * left. exact H.
      * subst y. left. apply existsb_str. exact E.
      * right. exact H.
    + f_equal. apply IH. destruct H as [H|[Hy|H]].
      * left. right. exact H.
      * left. left. exact Hy.
      * right. exact H.
Qed.

Lemma uniq_from_snoc_new (l : list str) : forall seen x,
  ~ In x seen -> ~ In x l -> uniq_from seen (l ++ [x]) = uniq_from seen l ++ [x].
Proof.
  induction l as [|y l IH]; intros seen x H1 H2; cbn [app uniq_from].
  - rewrite (existsb_str_false x seen H1). reflexivity.
  - destruct (existsb (str_eqb y) seen) eqn:E.
    + apply IH; [exact H1|]. intro H. apply H2. right. exact H.
    + cbn [app]. f_equal. apply IH.
      * intros [Hy|H]; [apply H2; left; exact Hy|contradiction].
      * intro H. apply H2. right. exact H.
Qed.

(* ------------------------------------------------------------------------------------------ *)
(* The spec functions                                                                          *)

Section D.
Context {P : Type}.
Implicit Types (nt a : net P) (nets done : list (net P)) (s : list (entry P)) (e : entry P).

Lemma net_unfold (ident name : str) (w : list P) index ns es :
  net_bit ident name = Some (index, ns, es) ->
  n_index (ident, name, w) = index /\
  key_name (ident, name, w) = match index with Some _ => ns | None => name end /\
  key_ident (ident, name, w) = match index with Some _ => es | None => ident end.
Proof.
  intro H. unfold n_index, key_name, key_ident, n_ident, n_name. cbn [fst snd]. rewrite H.
  destruct index; auto.
Qed.

Lemma group_snoc k done nt :
  group k (done ++ [nt]) = group k done ++ (if str_eqb (key_name nt) k then [nt] else []).
Proof. unfold group. rewrite filter_app. reflexivity. Qed.

Lemma group_in k nets a : In a (group k nets) <-> In a nets /\ key_name a = k.
Proof. unfold group. rewrite filter_In, str_eqb_spec. tauto. Qed.

Lemma map_name_snoc s (k i : str) (c : cab P) : map e_name (s ++ [(k, i, c)]) = map e_name s ++ [k].
Proof. rewrite map_app. reflexivity. Qed.

Lemma bits_of_snoc (grp : list (net P)) nt i : n_index nt = Some i ->
  bits_of (grp ++ [nt]) = bits_of grp ++ [(i, n_pins nt)].
Proof. intro H. unfold bits_of. rewrite flat_map_app. cbn [flat_map]. rewrite H, app_nil_r. reflexivity. Qed.


(* what denote_conn gives *)
Lemma dc_names_iff nets s k : denote_conn nets s -> (In k (map e_name s) <-> In k (map key_name nets)).
Proof. intros [H _]. rewrite H. unfold uniq. rewrite uniq_from_in. cbn [In]. tauto. Qed.

Lemma dc_nodup nets s : denote_conn nets s -> NoDup (map e_name s).
Proof. intros [H _]. rewrite H. apply uniq_from_nodup. Qed.

Lemma dc_entry nets s e : denote_conn nets s -> In e s ->
  exists a rest, group (e_name e) nets = a :: rest /\ In a nets /\ key_name a = e_name e /\
    e_ident e = key_ident a /\
    match n_index a with
    | None => rest = [] /\ e_cab e = mkcab 0%N false [n_pins a]
    | Some _ => cab_inv (e_cab e) (bits_of (a :: rest))
    end.
Proof.
  intros [_ H] Hin. specialize (H e Hin).
  destruct (group (e_name e) nets) as [|a rest] eqn:G; [contradiction|].
  exists a, rest.
  assert (Ha : In a (group (e_name e) nets)) by (rewrite G; left; reflexivity).
  apply group_in in Ha. destruct Ha as [Ha1 Ha2]. destruct H as [H1 H2].
  split; [reflexivity|]. split; [exact Ha1|]. split; [exact Ha2|]. split; [exact H1|exact H2].
Qed.

(* ------------------------------------------------------------------------------------------ *)
(* A net with a new key: its cable is appended                                                 *)

Lemma append_case done s0 nt (c : cab P) :
  denote_conn done s0 ->
  (forall a, In a done -> key_name a <> key_name nt /\ lower (key_ident a) <> lower (key_ident nt)) ->
  match n_index nt with
  | None => c = mkcab 0%N false [n_pins nt]
  | Some _ => cab_inv c (bits_of [nt])
  end ->
  fresh (key_name nt) (key_ident nt) s0 /\
  denote_conn (done ++ [nt]) (s0 ++ [(key_name nt, key_ident nt, c)]).
Proof.
  intros Hdc Hfr Hc.
  assert (F : fresh (key_name nt) (key_ident nt) s0).
  { intros x Hx. destruct (dc_entry _ _ _ Hdc Hx) as (a & rest & _ & Ha & Hka & Hid & _).
    rewrite <- Hka, Hid. apply Hfr. exact Ha. }
  split; [exact F|].
  assert (Hnew : ~ In (key_name nt) (map key_name done)).
  { intro H. apply in_map_iff in H. destruct H as (a & E & Ha). apply (proj1 (Hfr a Ha)). exact E. }
  split.
  - rewrite map_name_snoc, map_app. cbn [map]. unfold uniq.
    rewrite uniq_from_snoc_new; [|intros []|exact Hnew].
    f_equal. apply (proj1 Hdc).
  - intros e He. apply in_app_or in He. destruct He as [He|[He|[]]].
    + rewrite group_snoc. rewrite (str_eqb_neq (key_name nt) (e_name e)).
      * rewrite app_nil_r. apply (proj2 Hdc e He).
      * intro E. apply (proj1 (F e He)). symmetry. exact E.
    + subst e.
      change (e_name (key_name nt, key_ident nt, c)) with (key_name nt).
      change (e_ident (key_name nt, key_ident nt, c)) with (key_ident nt).
      change (e_cab (key_name nt, key_ident nt, c)) with c.
      rewrite group_snoc, str_eqb_refl.
      assert (G : group (key_name nt) done = []).
      { destruct (group (key_name nt) done) as [|a r] eqn:G; [reflexivity|exfalso].
        assert (Ha : In a (group (key_name nt) done)) by (rewrite G; left; reflexivity).
        apply group_in in Ha. destruct Ha as [Ha E]. apply (proj1 (Hfr a Ha)). exact E. }
      rewrite G. cbn [app]. split; [reflexivity|].
      destruct (n_index nt); [exact Hc|split; [reflexivity|exact Hc]].
Qed.

(* ------------------------------------------------------------------------------------------ *)
(* A bit of a bus seen before: merged into its cable                                           *)

Lemma merge_case done s0 nt i :
  denote_conn done s0 -> (forall a, In a done -> compat a nt) -> n_index nt = Some i ->
  In (key_name nt) (map key_name done) ->
  exists e, find_name (key_name nt) s0 = Some e /\ cab_is_array (e_cab e) = true /\
    denote_conn (done ++ [nt])
      (replace_name (e_name e) (e_name e, e_ident e, mb_merge (e_cab e) i (n_pins nt)) s0).
Proof.
  intros Hdc Hc Hi Hold.
  assert (Hnm : In (key_name nt) (map e_name s0)) by (apply (dc_names_iff _ _ _ Hdc); exact Hold).
  destruct (find_name (key_name nt) s0) as [e|] eqn:Fn;
    [|exfalso; apply (find_name_none' _ _ Fn); exact Hnm].
  destruct (find_name_some _ _ _ Fn) as [Hin Hen].
  destruct (dc_entry _ _ _ Hdc Hin) as (a & rest & G & Ha & Hka & Hid & Hcl).
  assert (Hkk : key_name a = key_name nt) by (rewrite Hka; exact Hen).
  destruct (proj2 (Hc a Ha) Hkk) as (ia & j & Hia & _).
  rewrite Hia in Hcl.
  exists e. split; [reflexivity|]. split.
  { unfold cab_is_array. rewrite (proj1 Hcl). apply orb_true_r. }
  pose proof (dc_nodup _ _ Hdc) as Hnd.
  set (e' := (e_name e, e_ident e, mb_merge (e_cab e) i (n_pins nt))).
  destruct (replace_name_split s0 e e' Hnd Hin) as (pre & post & Hs & Hr).
  split.
  - rewrite replace_name_names by reflexivity. rewrite (proj1 Hdc), map_app. cbn [map]. unfold uniq.
    rewrite uniq_from_snoc_old; [reflexivity|right; exact Hold].
  - rewrite Hr. intros x Hx. apply in_app_or in Hx.
    assert (Hother : In x pre \/ In x post ->
      match group (e_name x) (done ++ [nt]) with
      | [] => False
      | nt0 :: rest0 =>
        e_ident x = key_ident nt0 /\
        match n_index nt0 with
        | None => rest0 = [] /\ e_cab x = mkcab 0%N false [n_pins nt0]
        | Some _ => cab_inv (e_cab x) (bits_of (nt0 :: rest0))
        end
      end).
    { intro Hpp.
      assert (Hxs : In x s0).
      { rewrite Hs. apply in_or_app. destruct Hpp as [Hp|Hp]; [left; exact Hp|right; right; exact Hp]. }
      assert (Hne : e_name x <> e_name e).
      { rewrite Hs, map_app in Hnd. cbn [map] in Hnd. apply NoDup_remove_2 in Hnd.
        intro E. apply Hnd. rewrite <- E. apply in_or_app.
        destruct Hpp as [Hp|Hp]; [left|right]; apply in_map; exact Hp. }
      rewrite group_snoc. rewrite (str_eqb_neq (key_name nt) (e_name x)).
      - rewrite app_nil_r. apply (proj2 Hdc x Hxs).
      - rewrite <- Hen. intro E. apply Hne. symmetry. exact E. }
    destruct Hx as [Hx|[Hx|Hx]]; [apply Hother; left; exact Hx| |apply Hother; right; exact Hx].
    subst x. unfold e'.
    change (e_name (e_name e, e_ident e, mb_merge (e_cab e) i (n_pins nt))) with (e_name e).
    change (e_ident (e_name e, e_ident e, mb_merge (e_cab e) i (n_pins nt))) with (e_ident e).
    change (e_cab (e_name e, e_ident e, mb_merge (e_cab e) i (n_pins nt)))
      with (mb_merge (e_cab e) i (n_pins nt)).
    rewrite group_snoc, G, Hen, str_eqb_refl. cbn [app].
    split; [exact Hid|]. rewrite Hia.
    change (a :: rest ++ [nt]) with ((a :: rest) ++ [nt]).
    rewrite (bits_of_snoc (a :: rest) nt i Hi).
    apply cab_inv_step. exact Hcl.
Qed.

(* ------------------------------------------------------------------------------------------ *)
(* One net on top of a prefix                                                                  *)

Lemma step done s0 nt :
  denote_conn done s0 -> nets_ok (done ++ [nt]) -> net_bit (n_ident nt) (n_name nt) <> None ->
  exists s, read_net s0 nt = Some s /\ denote_conn (done ++ [nt]) s.
Proof.
  intros Hdc Hok Hnb.
  destruct (FOP_snoc _ _ _ Hok) as [_ Hc].
  destruct nt as [[ident name] w].
  unfold n_ident, n_name in Hnb. cbn [fst snd] in Hnb.
  destruct (net_bit ident name) as [[[index ns] es]|] eqn:NB; [clear Hnb|congruence].
  destruct (net_unfold ident name w index ns es NB) as (Hidx & Hkn & Hki).
  assert (Hpins : n_pins (ident, name, w) = w) by reflexivity.
  destruct (in_dec (list_eq_dec N.eq_dec) (key_name (ident, name, w)) (map key_name done))
    as [Hold|Hnew].
  - (* key seen before: the net is a bit, merged *)
    assert (Hsome : exists i, index = Some i).
    { apply in_map_iff in Hold. destruct Hold as (a & E & Ha).
      destruct (proj2 (Hc a Ha) E) as (ia & j & _ & Hj). rewrite Hidx in Hj. exists j. exact Hj. }
    destruct Hsome as [i Ei]. rewrite Ei in Hidx, Hkn, Hki, NB. clear Ei.
    destruct (merge_case done s0 (ident, name, w) i Hdc Hc Hidx Hold) as (e & Fn & Harr & Hd).
    rewrite Hkn in Fn. rewrite Hpins in Hd.
    eexists. split; [|exact Hd].
    unfold read_net. rewrite NB, Fn, Harr. reflexivity.
  - (* new key: appended *)
    assert (Hfr : forall a, In a done ->
              key_name a <> key_name (ident, name, w) /\
              lower (key_ident a) <> lower (key_ident (ident, name, w))).
    { intros a Ha.
      assert (Hne : key_name a <> key_name (ident, name, w)).
      { intro E. apply Hnew. rewrite <- E. apply in_map. exact Ha. }
      split; [exact Hne|]. intro E. apply Hne. apply (proj1 (Hc a Ha)). exact E. }
    destruct index as [i|].
    + destruct (append_case done s0 (ident, name, w) (mkcab i true [w]) Hdc Hfr) as [F Hd].
      { rewrite Hidx. unfold bits_of. cbn [flat_map]. rewrite Hidx, Hpins. cbn [app]. apply cab_inv_init. }
      rewrite Hkn, Hki in F, Hd.
      eexists. split; [|exact Hd].
      unfold read_net. rewrite NB.
      rewrite (fresh_find_name ns es s0 F), (fresh_find_ident ns es s0 F).
      apply fresh_add_separate. exact F.
    + destruct (append_case done s0 (ident, name, w) (mkcab 0%N false [w]) Hdc Hfr) as [F Hd].
      { rewrite Hidx, Hpins. reflexivity. }
      rewrite Hkn, Hki in F, Hd.
      eexists. split; [|exact Hd].
      unfold read_net. rewrite NB.
      pose proof (fresh_add_separate name ident (mkcab 0%N false [w]) w s0 F) as A.
      destruct (match find_name ns s0 with Some e => Some e | None => find_ident es s0 end);
        exact A.
Qed.

Lemma read_net_some s nt s' : read_net s nt = Some s' -> net_bit (n_ident nt) (n_name nt) <> None.
Proof.
  destruct nt as [[ident name] w]. unfold read_net, n_ident, n_name. cbn [fst snd].
  destruct (net_bit ident name); [discriminate|]. intro H. discriminate H.
Qed.

Lemma nets_sound_gen : forall nets s,
  nets_ok nets -> read_nets [] nets = Some s -> denote_conn nets s.
Proof.
  intros nets. induction nets as [|nt done IH] using rev_ind; intros s Hok Hr.
  - cbn [read_nets] in Hr. inversion Hr; subst s. split; [reflexivity|intros e []].
  - rewrite read_nets_app in Hr.
    destruct (read_nets [] done) as [s0|] eqn:R0; [|discriminate].
    cbn [read_nets] in Hr. destruct (read_net s0 nt) as [s1|] eqn:R1; [|discriminate].
    inversion Hr; subst s1.
    pose proof (proj1 (FOP_snoc _ _ _ Hok)) as Hok0.
    destruct (step done s0 nt (IH s0 Hok0 eq_refl) Hok (read_net_some _ _ _ R1)) as (s' & R' & Hd).
    rewrite R1 in R'. inversion R'; subst s'. exact Hd.
Qed.

Lemma nets_complete_gen : forall nets,
  nets_ok nets -> (forall nt, In nt nets -> net_bit (n_ident nt) (n_name nt) <> None) ->
  exists s, read_nets [] nets = Some s.
Proof.
  intros nets. induction nets as [|nt done IH] using rev_ind; intros Hok Hnb.
  - exists []. reflexivity.
  - pose proof (proj1 (FOP_snoc _ _ _ Hok)) as Hok0.
    destruct (IH Hok0) as [s0 R0].
    { intros a Ha. apply Hnb. apply in_or_app. left. exact Ha. }
    destruct (step done s0 nt (nets_sound_gen done s0 Hok0 R0) Hok) as (s & R & _).
    { apply Hnb. apply in_or_app. right. left. reflexivity. }
    exists s. rewrite read_nets_app, R0. cbn [read_nets]. rewrite R. reflexivity.
Qed.

(* ------------------------------------------------------------------------------------------ *)
(* The checker                                                                                 *)

Lemma compatb_spec a b : compatb a b = true -> compat a b.
Proof.
  unfold compatb, compat. intro H. apply andb_true_iff in H. destruct H as [H1 H2].
  apply eqb_prop in H1. split.
  - rewrite <- (str_eqb_spec (key_name a) (key_name b)).
    rewrite <- (str_eqb_spec (lower (key_ident a)) (lower (key_ident b))).
    rewrite H1. tauto.
  - intro E. apply str_eqb_spec in E. rewrite E in H2. cbn [negb orb] in H2.
    destruct (n_index a) as [i|]; [|discriminate]. destruct (n_index b) as [j|]; [|discriminate].
    exists i, j. split; reflexivity.
Qed.

Lemma nets_okb_spec_gen nets : nets_okb nets = true -> nets_ok nets.
Proof.
  induction nets as [|a rest IH]; cbn [nets_okb]; intro H; [constructor|].
  apply andb_true_iff in H. destruct H as [H1 H2]. constructor; [|apply IH; exact H2].
  rewrite Forall_forall. intros b Hb. apply compatb_spec.
  rewrite forallb_forall in H1. apply H1. exact Hb.
Qed.
End D.

(* ------------------------------------------------------------------------------------------ *)
(* Statements                                                                                  *)

Theorem nets_sound : forall (P : Type) (nets : list (net P)) (s : list (entry P)),
  nets_ok nets -> read_nets [] nets = Some s -> denote_conn nets s.
Proof. intros P nets s. apply nets_sound_gen. Qed.

Lemma nets_okb_spec : forall (P : Type) (nets : list (net P)), nets_okb nets = true -> nets_ok nets.
Proof. intros P nets. apply nets_okb_spec_gen. Qed.

Theorem nets_complete : forall (P : Type) (nets : list (net P)),
  nets_ok nets -> (forall nt, In nt nets -> net_bit (n_ident nt) (n_name nt) <> None) ->
  exists s, read_nets [] nets = Some s.
Proof. intros P nets. apply nets_complete_gen. Qed.

(* since the repair of K9 no net name makes separate_name_and_index raise: the reader never fails on
   nets that satisfy nets_ok *)
Theorem nets_complete_all : forall (P : Type) (nets : list (net P)),
  nets_ok nets -> exists s, read_nets [] nets = Some s.
Proof. intros P nets H. apply nets_complete; [exact H|]. intros nt _. apply net_bit_total. Qed.

Print Assumptions nets_sound.
Print Assumptions nets_okb_spec.
Print Assumptions nets_complete.
Print Assumptions nets_complete_all.
