From Coq Require Import List Bool.
From SV Require Import Base.Base IR.State Fmt.Policy.
Import ListNotations.

Lemma parse_call_restores {A} f (b : body A) p :
  (f = FEblif -> policy_neutral b) -> fst (parse_call f b p) = p.
Proof.
  intro H. destruct f; cbn.
  - destruct (b PolEdif); reflexivity.
  - destruct (b PolDefault); reflexivity.
  - apply H. reflexivity.
Qed.

Lemma session_restores {A} (calls : list (fmt * body A)) : forall p,
  (forall f b, In (f, b) calls -> f = FEblif -> policy_neutral b) -> session calls p = p.
Proof.
  induction calls as [|[f b] rest IH]; intros p H; cbn; [reflexivity|].
  rewrite parse_call_restores by (apply H; left; reflexivity).
  apply IH. intros f' b' Hin. apply H. right; exact Hin.
Qed.

(* the outcome of a call does not depend on the policy the caller had, for the two readers that
   set their own: "any later parse behaves exactly as in a fresh process" *)
Lemma parse_call_outcome_independent {A} f (b : body A) p q :
  f <> FEblif -> snd (parse_call f b p) = snd (parse_call f b q).
Proof.
  intro H. destruct f; cbn; [destruct (b PolEdif)|destruct (b PolDefault)|congruence]; reflexivity.
Qed.

(* without the finally clause the property fails: the repaired defect as a counter-model *)
Definition parse_call_unprotected {A} (f : fmt) (b : body A) (p : pol) : pol * outcome A :=
  match f with
  | FEdif => let '(q, r) := b PolEdif in (match r with Returned _ => p | Raised => q end, r)
  | FVerilog => let '(q, r) := b PolDefault in (match r with Returned _ => p | Raised => q end, r)
  | FEblif => b p
  end.

Example unprotected_leaks :
  fst (parse_call_unprotected FEdif (fun q => (q, @Raised unit)) PolDefault) = PolEdif.
Proof. reflexivity. Qed.

Example protected_does_not :
  fst (parse_call FEdif (fun q => (q, @Raised unit)) PolDefault) = PolDefault.
Proof. reflexivity. Qed.
