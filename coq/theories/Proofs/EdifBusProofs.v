(* Proofs about Fmt/EdifBus.v: one cable through the EDIF writer (per-bit nets
   <ident>_<i>_ / "<name>[<i>]", composer.py:418-462) and back through the EDIF reader
   (separate_name_and_index + multibit_add_cable, parser.py:1003-1113).

   Positive results (identifier not "&" / "&_...", name not starting with a backslash):
     bus_roundtrip            a bus written in order is read back as the same wires, same lower
                              index, array flag set;
     bus_roundtrip_any_order  the same for ANY order of the bit nets in the file;
     bus_subset_any_order     any list of bit nets with distinct indices is read as the cable
                              computed by EdifCable.assemble (bus_subset_positions: bit i at
                              position i - lower, empty wires in the gaps);
     scalar_roundtrip         a scalar cable whose name is not of the bit form is read unchanged.
   bus_amp_ident_read (identifier "&_x": former refutation, repaired K4); refutation:
   scalar_bitlike_lost (a scalar named "x[1]" comes back as bit 1 of an array cable "x"). *)
From Coq Require Import String List NArith Bool Lia Arith Permutation.
From SV Require Import Base.Base Fmt.EdifName Fmt.EdifCable Fmt.EdifBus
  Proofs.EdifNameProofs Proofs.EdifCableProofs.
Import ListNotations.

(* ------------------------------------------------------------------------------------------ *)
(* Side conditions                                                                             *)

(* the writer uses per-bit names *)
Definition is_bus {P} (c : cab P) := c_array c = true \/ (2 <= length (c_wires c))%nat.

(* ------------------------------------------------------------------------------------------ *)
(* The nets of a list of (index, wire) pairs; the writer's nets are of this form               *)

Definition bit_net {P} (ident name : str) (b : N * list P) : net P :=
  let '(i, w) := b in (bit_ident ident i, bit_name name i, w).

Fixpoint bits_from {P} (lo : N) (ws : list (list P)) : list (N * list P) :=
  match ws with
  | [] => []
  | w :: ws' => (lo, w) :: bits_from (N.succ lo) ws'
  end.

Lemma emit_from_bits {P} ident name (ws : list (list P)) : forall lo,
  emit_from ident name lo ws = map (bit_net ident name) (bits_from lo ws).
Proof.
  induction ws as [|w ws IH]; intros lo; [reflexivity|].
  cbn [emit_from bits_from map bit_net]. rewrite IH. reflexivity.
Qed.

Lemma emit_cable_bus {P} ident name (c : cab P) :
  is_bus c -> emit_cable ident name c = emit_from ident name (c_lower c) (c_wires c).
Proof.
  intros Hbus. unfold emit_cable. destruct (c_wires c) as [|w [|w' t]] eqn:E; try reflexivity.
  destruct Hbus as [H|H]; [rewrite H; reflexivity|]. rewrite E in H. cbn [length] in H. lia.
Qed.

Lemma bits_from_nonempty {P} lo (ws : list (list P)) : ws <> [] -> bits_from lo ws <> [].
Proof. destruct ws; [congruence|discriminate]. Qed.

Lemma idxs_bits_from_ge {P} (ws : list (list P)) : forall lo j,
  In j (idxs (bits_from lo ws)) -> (lo <= j)%N.
Proof.
  induction ws as [|w ws IH]; intros lo j H; [destruct H|].
  cbn [bits_from idxs map fst] in H. destruct H as [<-|H]; [lia|].
  apply IH in H. lia.
Qed.

Lemma idxs_bits_from_nodup {P} (ws : list (list P)) : forall lo, NoDup (idxs (bits_from lo ws)).
Proof.
  induction ws as [|w ws IH]; intros lo; [constructor|].
  cbn [bits_from idxs map fst]. constructor; [|apply IH].
  intros H. apply idxs_bits_from_ge in H. lia.
Qed.

(* ------------------------------------------------------------------------------------------ *)
(* The reader on bit nets is EdifCable.assemble                                                *)

Lemma read_more_bits {P} ident name :
  forall (bits : list (N * list P)) c, c_array c = true ->
  read_more c (map (bit_net ident name) bits) = Some (assemble_from c bits).
Proof.
  induction bits as [|[i w] t IH]; intros c Harr; [reflexivity|].
  cbn [map bit_net read_more assemble_from].
  rewrite (bitname_inverse ident name i).
  rewrite (mb_add_merge c i w Harr).
  apply IH. rewrite mb_merge_array. exact Harr.
Qed.

Lemma read_cable_bits {P} ident name :
  forall (bits : list (N * list P)),
  read_cable (map (bit_net ident name) bits) =
  option_map (fun c => (name, ident, c)) (assemble bits).
Proof.
  intros [|[i w] t]; [reflexivity|].
  cbn [map bit_net]. unfold read_cable.
  rewrite (bitname_inverse ident name i), mb_add_first.
  rewrite (read_more_bits ident name t (mkcab i true [w]) eq_refl). reflexivity.
Qed.

(* ------------------------------------------------------------------------------------------ *)
(* In file order with every bit present: each net is appended with zero filler wires           *)

Lemma mb_merge_append {P} lo a (ws : list (list P)) w : ws <> [] ->
  mb_merge (mkcab lo a ws) (lo + N.of_nat (length ws)) w = mkcab lo a (ws ++ [w]).
Proof.
  intros Hne. assert (Hlen : (1 <= N.of_nat (length ws))%N).
  { destruct ws; [congruence|]. cbn [length]. lia. }
  unfold mb_merge. cbn [c_lower c_wires c_array].
  destruct (N.leb_spec lo (lo + N.of_nat (length ws))) as [_|H]; [|lia].
  destruct (N.ltb_spec (lo + N.of_nat (length ws)) (lo + N.of_nat (length ws))) as [H|_]; [lia|].
  replace (lo + N.of_nat (length ws) - lo - N.of_nat (length ws))%N with 0%N by lia.
  reflexivity.
Qed.

Lemma assemble_from_inorder {P} (ws2 : list (list P)) : forall ws1 lo, ws1 <> [] ->
  assemble_from (mkcab lo true ws1) (bits_from (lo + N.of_nat (length ws1)) ws2) =
  mkcab lo true (ws1 ++ ws2).
Proof.
  induction ws2 as [|w t IH]; intros ws1 lo Hne.
  - rewrite app_nil_r. reflexivity.
  - cbn [bits_from assemble_from]. rewrite (mb_merge_append lo true ws1 w Hne).
    replace (N.succ (lo + N.of_nat (length ws1))) with (lo + N.of_nat (length (ws1 ++ [w])))%N
      by (rewrite app_length, Nat2N.inj_add; cbn [length]; lia).
    rewrite IH by (intros E; apply app_eq_nil in E; destruct E; discriminate).
    rewrite <- app_assoc. reflexivity.
Qed.

Lemma assemble_inorder {P} lo (ws : list (list P)) : ws <> [] ->
  assemble (bits_from lo ws) = Some (mkcab lo true ws).
Proof.
  destruct ws as [|w t]; [congruence|]. intros _. cbn [bits_from assemble]. f_equal.
  replace (N.succ lo) with (lo + N.of_nat (length [w]))%N by (cbn [length]; lia).
  apply (assemble_from_inorder t [w] lo). discriminate.
Qed.

(* the invariant suggested for the direct proof, as a statement about the reader *)
Lemma read_more_inorder {P} ident name :
  forall (ws2 ws1 : list (list P)) lo, ws1 <> [] ->
  read_more (mkcab lo true ws1) (emit_from ident name (lo + N.of_nat (length ws1)) ws2) =
  Some (mkcab lo true (ws1 ++ ws2)).
Proof.
  intros ws2 ws1 lo Hne. rewrite emit_from_bits.
  rewrite (read_more_bits ident name _ (mkcab lo true ws1) eq_refl).
  rewrite assemble_from_inorder by exact Hne. reflexivity.
Qed.

(* ------------------------------------------------------------------------------------------ *)
(* 1. a bus written by the writer is read back                                                 *)

Theorem bus_roundtrip : forall P (ident name : str) (c : cab P),
  c_wires c <> [] -> is_bus c ->
  read_cable (emit_cable ident name c) = Some (name, ident, mkcab (c_lower c) true (c_wires c)).
Proof.
  intros P ident name c Hne Hbus.
  rewrite (emit_cable_bus ident name c Hbus), emit_from_bits.
  rewrite (read_cable_bits ident name), (assemble_inorder _ _ Hne). reflexivity.
Qed.

(* ------------------------------------------------------------------------------------------ *)
(* 2. ... whatever the order of the bit nets in the file                                       *)

Theorem bus_roundtrip_any_order : forall P ident name (c : cab P) nets,
  c_wires c <> [] -> is_bus c ->
  Permutation nets (emit_cable ident name c) ->
  read_cable nets = Some (name, ident, mkcab (c_lower c) true (c_wires c)).
Proof.
  intros P ident name c nets Hne Hbus Hp.
  rewrite (emit_cable_bus ident name c Hbus), emit_from_bits in Hp.
  apply Permutation_map_inv in Hp. destruct Hp as (bits' & -> & Hp).
  rewrite (read_cable_bits ident name).
  assert (Hne' : bits' <> []).
  { intros ->. apply Permutation_sym, Permutation_nil in Hp.
    exact (bits_from_nonempty _ _ Hne Hp). }
  destruct (assemble_nonempty P bits' Hne') as (c' & Hc').
  rewrite Hc'. cbn [option_map]. do 2 f_equal. symmetry.
  eapply multibit_order_irrelevant;
    [apply idxs_bits_from_nodup|exact Hp|apply assemble_inorder; exact Hne|exact Hc'].
Qed.

(* ------------------------------------------------------------------------------------------ *)
(* 3. any subset of the bits, in any order                                                     *)

Theorem bus_subset_any_order : forall P ident name (bits : list (N * list P)) nets c,
  NoDup (idxs bits) -> bits <> [] ->
  nets = map (fun '(i, w) => (bit_ident ident i, bit_name name i, w)) bits ->
  read_cable nets = Some (name, ident, c) <-> assemble bits = Some c.
Proof.
  intros P ident name bits nets c _ _ ->.
  change (map _ bits) with (map (bit_net (P := P) ident name) bits).
  rewrite (read_cable_bits ident name).
  destruct (assemble bits) as [c'|]; cbn [option_map]; split; intros H;
    try discriminate; inversion H; reflexivity.
Qed.

(* existence: the nets are always read as ONE cable *)
Corollary bus_subset_read : forall P ident name (bits : list (N * list P)) nets,
  NoDup (idxs bits) -> bits <> [] ->
  nets = map (fun '(i, w) => (bit_ident ident i, bit_name name i, w)) bits ->
  exists c, read_cable nets = Some (name, ident, c).
Proof.
  intros P ident name bits nets Hnd Hne E.
  destruct (assemble_nonempty P bits Hne) as (c & Hc). exists c.
  apply (bus_subset_any_order P ident name bits nets c Hnd Hne E). exact Hc.
Qed.

Corollary bus_subset_positions : forall P ident name (bits : list (N * list P)) nets c,
  NoDup (idxs bits) -> bits <> [] ->
  nets = map (fun '(i, w) => (bit_ident ident i, bit_name name i, w)) bits ->
  read_cable nets = Some (name, ident, c) ->
     c_lower c = min_idx (idxs bits)
  /\ N.of_nat (length (c_wires c)) = (max_idx (idxs bits) - min_idx (idxs bits) + 1)%N
  /\ c_array c = true
  /\ (forall i, wire_of c i = lookup i bits)
  /\ (forall n, (n < length (c_wires c))%nat ->
        nth n (c_wires c) [] = lookup (c_lower c + N.of_nat n) bits).
Proof.
  intros P ident name bits nets c Hnd Hne E H.
  apply (bus_subset_any_order P ident name bits nets c Hnd Hne E) in H.
  destruct (multibit_assemble P bits c Hnd H) as (H1 & H2 & H3 & H4).
  repeat split; try assumption. apply multibit_assemble_nth; assumption.
Qed.

(* ------------------------------------------------------------------------------------------ *)
(* 4. scalar cables                                                                            *)

Theorem scalar_roundtrip : forall P ident name (w : list P) n' e',
  net_bit ident name = Some (None, n', e') ->
  read_cable (emit_cable ident name (mkcab 0%N false [w])) =
  Some (name, ident, mkcab 0%N false [w]).
Proof.
  intros P ident name w n' e' H.
  unfold emit_cable, read_cable. cbn [c_wires c_array]. rewrite H. reflexivity.
Qed.

Lemma net_bit_plain ident name : sep_bracket name = Some (None, name) ->
  exists e', net_bit ident name = Some (None, name, e').
Proof.
  intros H. unfold net_bit. rewrite H. destruct (sep_underscore ident) as [[j|] e'];
    exists e'; reflexivity.
Qed.

Corollary scalar_roundtrip_plain : forall P ident name (w : list P),
  name <> [] -> last name 0%N <> c_rbr -> last name 0%N <> c_lbr ->
  read_cable (emit_cable ident name (mkcab 0%N false [w])) =
  Some (name, ident, mkcab 0%N false [w]).
Proof.
  intros P ident name w Hne Hr Hl.
  destruct (net_bit_plain ident name (scalar_name_not_bit_last name Hne Hr Hl)) as (e' & E).
  exact (scalar_roundtrip P ident name w name e' E).
Qed.

(* ------------------------------------------------------------------------------------------ *)
(* 5. what is lost                                                                             *)

(* a. (repaired K4) identifiers "&" / "&_...": the bit identifier is recognised like any other;
   the former witness - bus "_x" with identifier "&_x" - is read back as one cable *)
Example bus_amp_ident_read :
  let ident := s2l "&_x" in
  let name := s2l "_x" in
  let c := mkcab 0%N true [[1]; [2]]%nat in
     is_bus c /\ c_wires c <> []
  /\ starts_amp_us (ident ++ [c_us]) = true
  /\ emit_cable ident name c = [(s2l "&_x_0_", s2l "_x[0]", [1]); (s2l "&_x_1_", s2l "_x[1]", [2])]%nat
  /\ net_bit (s2l "&_x_0_") (s2l "_x[0]") = Some (Some 0%N, s2l "_x", s2l "&_x")
  /\ net_bit (s2l "&_x_1_") (s2l "_x[1]") = Some (Some 1%N, s2l "_x", s2l "&_x")
  /\ read_cable (emit_cable ident name c) = Some (name, ident, c).
Proof.
  cbv zeta. split; [left; reflexivity|].
  split; [discriminate|].
  repeat split; vm_compute; reflexivity.
Qed.

(* a'. (repaired K9) a bus whose NAME starts with a backslash: "\x[i]" is bit i of "\x" (it used to be
   recognised only in the form "\x [i]"); the escaped scalar "\x[3] " is still no bit *)
Example bus_backslash_read :
  let ident := s2l "x" in
  let name := s2l "\x" in
  let c := mkcab 0%N true [[1]; [2]]%nat in
     emit_cable ident name c = [(s2l "x_0_", s2l "\x[0]", [1]); (s2l "x_1_", s2l "\x[1]", [2])]%nat
  /\ net_bit (s2l "x_1_") (s2l "\x[1]") = Some (Some 1%N, s2l "\x", s2l "x")
  /\ read_cable (emit_cable ident name c) = Some (name, ident, c)
  /\ net_bit (s2l "x_3_") (s2l "\x[3] ") = Some (None, s2l "\x[3] ", s2l "x").
Proof. cbv zeta. repeat split; vm_compute; reflexivity. Qed.

(* b. a SCALAR cable named "x[1]" with identifier "x_1_": name, identifier, lower index and
   array flag all change *)
Example scalar_bitlike_lost :
  let ident := s2l "x_1_" in
  let name := s2l "x[1]" in
  let c := mkcab 0%N false [[7]]%nat in
     emit_cable ident name c = [(ident, name, [7]%nat)]
  /\ read_cable (emit_cable ident name c) = Some (s2l "x", s2l "x", mkcab 1%N true [[7]]%nat).
Proof. cbv zeta. split; vm_compute; reflexivity. Qed.

(* c. a concrete bus *)
Example bus_roundtrip_example :
  let ident := s2l "data" in
  let name := s2l "data" in
  let c := mkcab 3%N false [[30; 31]; []; [50]; [60; 61; 62]]%nat in
  let nets := emit_cable ident name c in
  let scrambled := [nth 2 nets ([], [], []); nth 0 nets ([], [], []);
                    nth 3 nets ([], [], []); nth 1 nets ([], [], [])] in
     c_wires c <> [] /\ is_bus c
  /\ nets = [(s2l "data_3_", s2l "data[3]", [30; 31]); (s2l "data_4_", s2l "data[4]", []);
             (s2l "data_5_", s2l "data[5]", [50]); (s2l "data_6_", s2l "data[6]", [60; 61; 62])]%nat
  /\ Permutation scrambled nets
  /\ read_cable nets = Some (name, ident, mkcab 3%N true (c_wires c))
  /\ read_cable scrambled = Some (name, ident, mkcab 3%N true (c_wires c)).
Proof.
  cbv zeta.
  split; [discriminate|]. split; [right; cbn; lia|].
  split; [vm_compute; reflexivity|]. split; [|split; vm_compute; reflexivity].
  vm_compute.
  match goal with |- Permutation [?c; ?a; ?d; ?b] [?a; ?b; ?c; ?d] => idtac end.
  eapply perm_trans; [apply perm_swap|]. apply perm_skip.
  eapply perm_trans; [apply perm_skip; apply perm_swap|].
  eapply perm_trans; [apply perm_swap|]. apply Permutation_refl.
Qed.

Print Assumptions bus_roundtrip.
Print Assumptions bus_roundtrip_any_order.
Print Assumptions bus_subset_any_order.
Print Assumptions bus_subset_positions.
Print Assumptions scalar_roundtrip.
Print Assumptions scalar_roundtrip_plain.
