(* C11, HRef.name (Hier/Enum.v: href_name).

   The name of a reference is the slash-joined ".NAME" values of its chain, root first, WITHOUT the
   top instance; for a wire / an inner pin the chain stops at the cable / port and "[index]" is
   appended when the bundle is an array (more than one member, or not marked scalar), the index
   being lower_index + position in the bundle. None = the code raises (a stored name that is not a
   string makes str.join raise TypeError). *)
From Coq Require Import List Arith NArith ZArith Bool Lia String.
From SV Require Import Base.Base IR.State IR.NS IR.Ops Proofs.Inv1a Proofs.Inv2a Hier.Paths Hier.Enum
  Proofs.HierValid Proofs.HierEnum Proofs.HierC11.
Import ListNotations.

Definition with_suffix (nm : option str) (sfx : str) : option str :=
  match nm with Some n => Some (n ++ sfx) | None => None end.

Lemma with_suffix_nil nm : with_suffix nm [] = nm.
Proof. destruct nm; cbn; [rewrite app_nil_r|]; reflexivity. Qed.

(* any reference whose last item is not a wire or a pin (instance, port, cable) *)
Lemma name_plain s x rest :
  kind_of s x <> Some KWire -> kind_of s x <> Some KPin ->
  href_name s (x :: rest) = join_names (map (name_get s) (rev (removelast (x :: rest)))).
Proof.
  intros Hw Hp. unfold href_name.
  destruct (kind_of s x) as [[]|]; try congruence;
    destruct (join_names _); try reflexivity; rewrite app_nil_r; reflexivity.
Qed.

(* instance paths: the statement of C11_name_full (the hypothesis on the names is not needed) *)
Theorem name_instance_path : forall s h t p,
  WF s -> is_path s t (p ++ [t]) -> h = p ++ [t] ->
  href_name s h = join_names (map (name_get s) (rev p)).
Proof.
  intros s h t p HWF Hp ->. pose proof (wf_kinds s HWF) as W.
  destruct (p ++ [t]) as [|x rest] eqn:E; [destruct p; discriminate|].
  pose proof (path_head_kind s W t x rest Hp) as K.
  rewrite name_plain by congruence. rewrite <- E, removelast_last. reflexivity.
Qed.

(* a port or a cable below an instance path *)
Theorem name_port_cable : forall s q p t,
  kind_of s q = Some KPort \/ kind_of s q = Some KCable ->
  href_name s (q :: p ++ [t]) = join_names (map (name_get s) (rev (q :: p))).
Proof.
  intros s q p t K. rewrite name_plain by (destruct K as [K|K]; rewrite K; discriminate).
  change (q :: p ++ [t]) with ((q :: p) ++ [t]). rewrite removelast_last. reflexivity.
Qed.

(* position of a member in its bundle *)
Lemma index_of_nth x : forall l, In x l -> exists k, index_of x l = Some k /\ nth_error l k = Some x.
Proof.
  induction l as [|y l IH]; [intros []|]. intro H. cbn [index_of].
  destruct (Nat.eqb x y) eqn:E.
  - apply Nat.eqb_eq in E. subst y. exists 0. split; reflexivity.
  - destruct H as [->|H]; [rewrite Nat.eqb_refl in E; discriminate|].
    destruct (IH H) as (k & Hk & Hn). exists (S k). rewrite Hk. split; [reflexivity|exact Hn].
Qed.

(* "[lower_index + position]" for an array bundle, nothing for a scalar one *)
Definition index_text (s : state) (r : rel) (b : id) (k : nat) : str :=
  if is_scalar_b s b (kids s r b) then []
  else 91%N :: z_to_str (blower s b + Z.of_nat k) ++ [93%N].

Lemma bus_suffix_member s r b x : Inv1a s -> In x (kids s r b) ->
  exists k, nth_error (kids s r b) k = Some x /\
            bus_suffix s r x = Some (if is_scalar_b s b (kids s r b) then None
                                     else Some (index_text s r b k)).
Proof.
  intros I1 Hx. destruct (index_of_nth x _ Hx) as (k & Hk & Hn). exists k. split; [exact Hn|].
  unfold bus_suffix, index_text. apply (i1_kids s I1) in Hx. rewrite Hx.
  destruct (is_scalar_b s b (kids s r b)); [reflexivity|]. rewrite Hk. reflexivity.
Qed.

(* a wire of a cable (a pin of a port) below an instance path: the name of the cable (port)
   reference plus the index text; the code does not raise on the bundle look-up *)
Theorem name_wire : forall s w c p t, Inv1a s ->
  kind_of s w = Some KWire -> In w (kids s RWires c) ->
  exists k, nth_error (kids s RWires c) k = Some w /\
    href_name s (w :: c :: p ++ [t]) =
    with_suffix (join_names (map (name_get s) (rev (c :: p)))) (index_text s RWires c k).
Proof.
  intros s w c p t I1 K Hw. destruct (bus_suffix_member s RWires c w I1 Hw) as (k & Hn & Hb).
  exists k. split; [exact Hn|]. unfold href_name. rewrite K, Hb.
  change (c :: p ++ [t]) with ((c :: p) ++ [t]). rewrite removelast_last.
  unfold index_text, with_suffix. destruct (is_scalar_b s c (kids s RWires c)); reflexivity.
Qed.

Theorem name_pin : forall s i q p t, Inv1a s ->
  kind_of s i = Some KPin -> In i (kids s RPins q) ->
  exists k, nth_error (kids s RPins q) k = Some i /\
    href_name s (i :: q :: p ++ [t]) =
    with_suffix (join_names (map (name_get s) (rev (q :: p)))) (index_text s RPins q k).
Proof.
  intros s i q p t I1 K Hi. destruct (bus_suffix_member s RPins q i I1 Hi) as (k & Hn & Hb).
  exists k. split; [exact Hn|]. unfold href_name. rewrite K, Hb.
  change (q :: p ++ [t]) with ((q :: p) ++ [t]). rewrite removelast_last.
  unfold index_text, with_suffix. destruct (is_scalar_b s q (kids s RPins q)); reflexivity.
Qed.

(* joining: total as soon as every name is a string, and then it is the slash-separated text *)
Fixpoint join_str (l : list str) : str :=
  match l with
  | [] => []
  | [a] => a
  | a :: l' => a ++ 47%N :: join_str l'
  end.

Lemma join_names_cons2 a b l :
  join_names (a :: b :: l) =
  match a, join_names (b :: l) with Some x, Some y => Some (x ++ 47%N :: y) | _, _ => None end.
Proof. reflexivity. Qed.

Lemma join_names_some : forall l, join_names (map (@Some str) l) = Some (join_str l).
Proof.
  induction l as [|a l IH]; [reflexivity|]. destruct l as [|b l]; [reflexivity|].
  cbn [map] in *. rewrite join_names_cons2, IH. reflexivity.
Qed.

Corollary name_never_raises : forall s h t p,
  WF s -> is_path s t (p ++ [t]) -> h = p ++ [t] ->
  (forall x, In x p -> exists nm, name_get s x = Some nm) ->
  exists nm, href_name s h = Some nm.
Proof.
  intros s h t p HWF Hp Eh Hn. rewrite (name_instance_path s h t p HWF Hp Eh).
  assert (G : forall l : list id, (forall x, In x l -> exists nm, name_get s x = Some nm) ->
                exists names, map (name_get s) l = map (@Some str) names).
  { induction l as [|x l IH]; intro H; [exists []; reflexivity|].
    destruct (H x (or_introl eq_refl)) as [nm Hx]. destruct IH as [names Hl]; [intros y Hy; apply H; right; exact Hy|].
    exists (nm :: names). cbn. rewrite Hx, Hl. reflexivity. }
  destruct (G (rev p)) as [names E]; [intros x Hx; apply Hn; apply in_rev; exact Hx|].
  rewrite E, join_names_some. eauto.
Qed.

(* a computed example: definition 3 holds the two-wire cable 4 "bus" (wires 5, 6); child 7 "u1" of
   the top definition 2 references 3; top instance 8. The reference wire 6 :: cable 4 :: 7 :: 8 is
   valid and is named "u1/bus[1]". *)
Definition n_ops : list op :=
  [ ONew KNetlist None [];
    OCreate RLibs 0 None [] 0 None;
    OCreate RDefs 1 None [] 0 None;
    OCreate RDefs 1 None [] 0 None;
    OCreate RCables 3 (Some (s2l "bus")) [] 2 None;
    OCreate RChildren 2 (Some (s2l "u1")) [] 0 (Some 3);
    OSetTop 0 (TopDef 2) ].

Definition n_state : state := run n_ops init.

Definition n_wire_name : str := s2l "u1/bus[1]".
Definition n_cable_name : str := s2l "u1/bus".
Definition n_inst_name : str := s2l "u1".

Example name_example :
  (is_valid n_state [6; 4; 7; 8] = true) /\
  (href_name n_state [6; 4; 7; 8] = Some n_wire_name) /\
  (href_name n_state [4; 7; 8] = Some n_cable_name) /\
  (href_name n_state [7; 8] = Some n_inst_name) /\ (href_name n_state [8] = Some []).
Proof. repeat split; vm_compute; reflexivity. Qed.

Print Assumptions name_instance_path.
Print Assumptions name_port_cable.
Print Assumptions name_wire.
Print Assumptions name_pin.
Print Assumptions name_never_raises.
