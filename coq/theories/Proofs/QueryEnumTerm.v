(* Termination of the loop of Query/Enum.v: when the push graph is well founded below every item of
   the stack, some fuel suffices (whatever the marks), so the result is WOk or WErr, never WFuel. *)
From Coq Require Import List Arith Bool Lia Relations Wellfounded.
From SV Require Import Base.Base IR.State Hier.Paths Query.Enum Proofs.QueryEnumWL.
Import ListNotations.

Section Term.
Context {T : Type}.
Variable acts : item -> list (act T).
Variable bad : item -> bool.

(* enough fuel exists for this stack from any state *)
Definition good (stack : list item) : Prop :=
  forall st, exists f0, forall f, f0 <= f -> wl acts bad f stack st <> WFuel.

Lemma good_nil : good [].
Proof. intro st. exists 0. intros f _. destruct f; discriminate. Qed.

Lemma run_acts_stack (al : list (act T)) : forall stack st stack1 st1,
  run_acts al stack st = (stack1, st1) ->
  exists l, stack1 = l ++ stack /\ forall y, In y l -> exists a, In a al /\ In y (succ_of a).
Proof.
  induction al as [|a al IH]; intros stack st stack1 st1 H; cbn [run_acts] in H.
  - injection H as <- <-. exists []. split; [reflexivity|intros y []].
  - destruct a as [y|o|c os ys].
    + apply IH in H as (l & -> & Hl). exists (l ++ [y]). split; [rewrite <- app_assoc; reflexivity|].
      intros z Hz. apply in_app_or in Hz as [Hz|[<-|[]]].
      * destruct (Hl z Hz) as (a & Ha & Hy). exists a. split; [right; exact Ha|exact Hy].
      * exists (APush y). split; [left; reflexivity|left; reflexivity].
    + apply IH in H as (l & -> & Hl). exists l. split; [reflexivity|].
      intros z Hz. destruct (Hl z Hz) as (a & Ha & Hy). exists a. split; [right; exact Ha|exact Hy].
    + destruct (memb c (w_marks st)).
      * apply IH in H as (l & -> & Hl). exists l. split; [reflexivity|].
        intros z Hz. destruct (Hl z Hz) as (a & Ha & Hy). exists a. split; [right; exact Ha|exact Hy].
      * apply IH in H as (l & -> & Hl). exists (l ++ rev ys). split; [rewrite <- app_assoc; reflexivity|].
        intros z Hz. apply in_app_or in Hz as [Hz|Hz].
        -- destruct (Hl z Hz) as (a & Ha & Hy). exists a. split; [right; exact Ha|exact Hy].
        -- exists (AMark c os ys). split; [left; reflexivity|]. cbn. apply in_rev. exact Hz.
Qed.

Definition steps_to (y x : item) : Prop := step acts x y.

Lemma good_cons x : Acc steps_to x -> forall rest, good rest -> good (x :: rest).
Proof.
  induction 1 as [x _ IH]. intros rest Hr st. cbn [wl].
  destruct (bad x) eqn:Eb.
  - exists 1. intros f Hf. destruct f; [lia|]. cbn [wl]. rewrite Eb. discriminate.
  - destruct (run_acts (acts x) rest st) as [stack1 st1] eqn:Er.
    destruct (run_acts_stack _ _ _ _ _ Er) as (l & -> & Hl).
    assert (Hg : good (l ++ rest)).
    { clear Er. induction l as [|y l IHl]; [exact Hr|]. cbn [app]. apply IH.
      - destruct (Hl y (or_introl eq_refl)) as (a & Ha & Hy). exists a. auto.
      - apply IHl. intros z Hz. apply Hl. right. exact Hz. }
    destruct (Hg st1) as (f0 & Hf0). exists (S f0). intros f Hf. destruct f; [lia|]. cbn [wl]. rewrite Eb, Er.
    apply Hf0. lia.
Qed.

Theorem wl_terminates stack : (forall x, In x stack -> Acc steps_to x) -> good stack.
Proof.
  induction stack as [|x rest IH]; intro H; [apply good_nil|].
  apply good_cons; [apply H; left; reflexivity|apply IH; intros y Hy; apply H; right; exact Hy].
Qed.

Theorem wl_run_terminates roots : (forall x, In x roots -> Acc steps_to x) ->
  exists fuel, wl_run acts bad fuel roots <> WFuel.
Proof.
  intro H. destruct (wl_terminates (rev roots) (fun x Hx => H x (proj2 (in_rev roots x) Hx)) (mkW [] [])) as (f0 & Hf).
  exists f0. unfold wl_run. specialize (Hf f0 (le_n _)). destruct (wl acts bad f0 (rev roots) (mkW [] [])); [discriminate|contradiction|discriminate].
Qed.

(* a rank that every push decreases *)
Theorem acc_of_rank (rank : item -> nat) : (forall x y, step acts x y -> rank y < rank x) -> forall x, Acc steps_to x.
Proof.
  intros Hr. assert (H : forall n x, rank x < n -> Acc steps_to x).
  { induction n as [|n IH]; intros x Hx; [lia|]. constructor. intros y Hy. apply IH. specialize (Hr x y Hy). lia. }
  intro x. apply (H (S (rank x))). lia.
Qed.
End Term.

(* On a bounded carrier, a relation without infinite descending chains has no infinite ascending
   chains either. *)
Section FinAcc.
Variable R : nat -> nat -> Prop.      (* R a b : a is below b *)
Variable N : nat.
Hypothesis HR : forall a b, R a b -> a < N /\ b < N.
Hypothesis HA : forall x, Acc R x.

(* head = top, each next element is below the previous one *)
Fixpoint chainU (l : list nat) : Prop :=
  match l with
  | a :: ((b :: _) as t) => R b a /\ chainU t
  | _ => True
  end.

Lemma chainU_cons2 a b t : chainU (a :: b :: t) <-> R b a /\ chainU (b :: t).
Proof. reflexivity. Qed.
Lemma chainU_tail a t : chainU (a :: t) -> chainU t.
Proof. destruct t; [intros _; exact I|]. intro H. apply chainU_cons2 in H. apply H. Qed.

Lemma chainU_below t : forall a y, chainU (a :: t) -> In y t -> clos_trans nat R y a.
Proof.
  induction t as [|b t IH]; intros a y Hc Hy; [contradiction|].
  apply chainU_cons2 in Hc as [Hba Ht]. destruct Hy as [<-|Hy]; [apply t_step; exact Hba|].
  eapply t_trans; [apply IH; eassumption|apply t_step; exact Hba].
Qed.

Lemma acc_irrefl_t x : Acc R x -> ~ clos_trans nat R x x.
Proof.
  intro H. apply Acc_clos_trans in H. induction H as [x _ IH]. intro Hx. exact (IH x Hx Hx).
Qed.

Lemma chainU_nodup l : chainU l -> NoDup l.
Proof.
  induction l as [|a t IH]; intro Hc; constructor.
  - intro Hin. apply (acc_irrefl_t a (HA a)). eapply chainU_below; eassumption.
  - apply IH. eapply chainU_tail; eassumption.
Qed.

Lemma chainU_bound t : forall a b, chainU (a :: b :: t) -> forall y, In y (a :: b :: t) -> y < N.
Proof.
  induction t as [|c t IH]; intros a b Hc y Hy; apply chainU_cons2 in Hc as [Hba Ht]; destruct (HR _ _ Hba) as [H1 H2].
  - destruct Hy as [<-|[<-|[]]]; assumption.
  - destruct Hy as [<-|Hy]; [assumption|]. eapply IH; eassumption.
Qed.

Lemma chainU_length l : chainU l -> 2 <= length l -> length l <= N.
Proof.
  intros Hc Hl. destruct l as [|a [|b t]]; cbn in Hl; try lia.
  rewrite <- (seq_length N 0). apply NoDup_incl_length; [apply chainU_nodup; exact Hc|].
  intros y Hy. apply in_seq. split; [lia|]. cbn. eapply chainU_bound; eassumption.
Qed.

Lemma acc_up_gen k : forall x t, chainU (x :: t) -> N + 2 <= k + length (x :: t) -> Acc (fun e x => R x e) x.
Proof.
  induction k as [|k IH]; intros x t Hc Hl.
  - exfalso. assert (length (x :: t) <= N) by (apply chainU_length; [exact Hc|lia]). lia.
  - constructor. intros e He. apply (IH e (x :: t)); [apply chainU_cons2; split; assumption|cbn [length] in *; lia].
Qed.

Theorem acc_up x : Acc (fun e x => R x e) x.
Proof. apply (acc_up_gen (N + 1) x []); [exact I|cbn; lia]. Qed.
End FinAcc.

(* ---- the functions that never recurse: get_netlists, get_ports, get_pins terminate in every
        well-formed state ---- *)
From SV Require Import IR.NS IR.Ops Proofs.Inv1a Proofs.Inv2a Proofs.InvW Hier.Enum Hier.Trace Query.Filter Query.EnumSpec
  Proofs.QueryEnumBase Proofs.QueryEnumView Proofs.QueryEnumPorts.

Section Ranks.
Variable s : state.
Hypothesis W : QWF s.

Definition krank (f : kind -> nat) (x : id) : nat := match kind_of s x with Some k => f k | None => 0 end.

Definition irank (f : kind -> nat) (y : item) : nat :=
  match y with
  | IE x => krank f x
  | IO _ i => S (krank f i)
  | IDet => 0
  | IH h => match href_item s h with Some x => S (krank f x) | None => 0 end
  end.

(* get_netlists: every step goes to the owner *)
Definition nrank (k : kind) : nat :=
  match k with
  | KNetlist => 0 | KLibrary => 1 | KDefinition => 2
  | KInstance | KPort | KCable => 3 | KPin | KWire => 4
  end.

Lemma netlists_rank x y : QueryEnumWL.step (acts_netlists s) x y -> irank nrank y < irank nrank x.
Proof.
  intros (a & Ha & Hy). destruct x as [x|n i| |h]; cbn [acts_netlists] in Ha.
  - cbn [irank]. unfold krank. destruct (kind_of s x) as [[]|] eqn:Hk; try (destruct Ha as [<-|[]]; destruct Hy);
      try (apply in_push_opt in Ha as (z & Hz & ->); destruct Hy as [<-|[]]; cbn [irank]; unfold krank;
           first [ rewrite (par_parent_kind s W _ _ _ Hz) | rewrite (iref_def_kind s W _ _ Hz) ]; cbn; lia).
    destruct Ha.
  - destruct Ha as [<-|[]]. destruct Hy as [<-|[]]. cbn. lia.
  - destruct Ha.
  - apply in_push_opt in Ha as (z & Hz & ->). destruct Hy as [<-|[]]. cbn [irank]. rewrite Hz. lia.
Qed.

Theorem netlists_terminates roots : exists fuel, cands_netlists s fuel roots <> WFuel.
Proof.
  unfold cands_netlists. apply wl_run_terminates. intros x _. apply (acc_of_rank _ (irank nrank)). apply netlists_rank.
Qed.

(* get_ports *)
Definition prank (k : kind) : nat :=
  match k with
  | KDefinition | KPort | KPin => 1
  | KNetlist | KLibrary | KInstance => 2
  | KWire => 3 | KCable => 4
  end.

Lemma item_of_pin_rank f w p : pin_wire s p = Some w -> irank f (item_of_pin p) <= S (f KPin).
Proof.
  intro H. destruct (on_wire_kind s W w p H) as (i & Hi & Hk). destruct p as [j|n j|]; cbn in Hi; try discriminate; injection Hi as <-;
    cbn [item_of_pin irank]; unfold krank; rewrite Hk; lia.
Qed.

Lemma ports_rank x y : QueryEnumWL.step (acts_ports s) x y -> irank prank y < irank prank x.
Proof.
  intro H. apply step_succs in H. destruct x as [x|n i| |h].
  - pose proof (p_view s x) as V. cbn [irank]. unfold krank. destruct (kind_of s x) as [[]|] eqn:Hk; destruct V as [_ V]; rewrite V in H;
      try (destruct H; fail).
    + apply in_map_iff in H as (d & <- & Hd). apply in_flat_map in Hd as (l & _ & Hd). cbn [irank]. unfold krank. rewrite (kid_kind s W _ _ _ Hd). cbn. lia.
    + apply in_map_iff in H as (d & <- & Hd). cbn [irank]. unfold krank. rewrite (kid_kind s W _ _ _ Hd). cbn. lia.
    + apply in_map_iff in H as (w & <- & Hw). cbn [irank]. unfold krank. rewrite (kid_kind s W _ _ _ Hw). cbn. lia.
    + apply in_map_iff in H as (p & <- & Hp). apply (wpins_pin_wire s W) in Hp. pose proof (item_of_pin_rank prank x p Hp). cbn in *. lia.
    + destruct (iref s x) as [r|] eqn:Er; [|destruct H]. destruct H as [<-|[]]. cbn [irank]. unfold krank. rewrite (iref_def_kind s W _ _ Er). cbn. lia.
  - unfold succs in H. cbn in H. destruct H as [<-|[]]. cbn. lia.
  - destruct H.
  - unfold succs in H. cbn [acts_ports] in H. rewrite succ_push_opt in H. cbn [irank]. destruct (href_item s h) as [z|]; [|destruct H].
    destruct H as [<-|[]]. cbn. lia.
Qed.

Theorem ports_terminates roots : exists fuel, cands_ports s fuel roots <> WFuel.
Proof.
  unfold cands_ports. destruct (wl_run_terminates (acts_ports s) no_bad roots) as (fuel & H).
  - intros x _. apply (acc_of_rank _ (irank prank)). apply ports_rank.
  - exists fuel. destruct (wl_run (acts_ports s) no_bad fuel roots); [discriminate|contradiction|discriminate].
Qed.

(* get_pins *)
Definition pinrank (k : kind) : nat :=
  match k with
  | KPin => 1 | KPort | KDefinition => 2
  | KWire | KInstance | KLibrary | KNetlist => 3 | KCable => 4
  end.

Lemma pins_rank inside x y : QueryEnumWL.step (acts_pins s inside) x y -> irank pinrank y < irank pinrank x.
Proof.
  intros (a & Ha & Hy). destruct x as [x|n i| |h]; cbn [acts_pins] in Ha.
  - cbn [irank]. unfold krank. destruct (kind_of s x) as [[]|] eqn:Hk.
    + apply in_flat_map in Ha as (l & _ & Ha). apply in_push_ids in Ha as (d & Hd & ->). destruct Hy as [<-|[]].
      cbn [irank]. unfold krank. rewrite (kid_kind s W _ _ _ Hd). cbn. lia.
    + apply in_push_ids in Ha as (d & Hd & ->). destruct Hy as [<-|[]]. cbn [irank]. unfold krank. rewrite (kid_kind s W _ _ _ Hd). cbn. lia.
    + apply in_flat_map in Ha as (p & _ & Ha). apply in_push_ids in Ha as (i & Hi & ->). destruct Hy as [<-|[]].
      cbn [irank]. unfold krank. rewrite (kid_kind s W _ _ _ Hi). cbn. lia.
    + apply in_push_ids in Ha as (i & Hi & ->). destruct Hy as [<-|[]]. cbn [irank]. unfold krank. rewrite (kid_kind s W _ _ _ Hi). cbn. lia.
    + apply in_push_ids in Ha as (i & Hi & ->). destruct Hy as [<-|[]]. cbn [irank]. unfold krank. rewrite (kid_kind s W _ _ _ Hi). cbn. lia.
    + apply in_map_iff in Ha as (p & <- & Hp). destruct Hy as [<-|[]]. apply (wpins_pin_wire s W) in Hp.
      pose proof (item_of_pin_rank pinrank x p Hp). cbn in *. lia.
    + destruct inside; [destruct Ha as [<-|[]]; destruct Hy|]. apply in_map_iff in Ha as (n & <- & _). destruct Hy.
    + apply in_map_iff in Ha as (it & <- & Hit). destruct Hy as [<-|[]]. unfold opins in Hit. apply in_map_iff in Hit as ([i v] & <- & Hi).
      cbn [fst irank]. unfold krank.
      assert (Hs : exists v0, assoc i (ipins s x) = Some v0).
      { apply AssocX.assoc_In_fst. apply in_map_iff. exists (i, v). auto. }
      destruct Hs as (v' & Ea).
      destruct (stored_key s W x i v' Ea) as (d & p & _ & _ & Hp). rewrite (par_kind s W _ _ _ Hp). cbn. lia.
    + destruct Ha.
  - destruct inside; destruct Ha as [<-|[]]; destruct Hy.
  - destruct inside; [destruct Ha|destruct Ha as [<-|[]]; destruct Hy].
  - cbn [irank]. destruct (href_item s h) as [z|]; [|destruct Ha].
    assert (Hp : a = APush (IE z) -> irank pinrank y < S (krank pinrank z)) by (intros ->; destruct Hy as [<-|[]]; cbn; lia).
    destruct (kind_of s z) as [[]|]; try (destruct Ha as [<-|[]]; apply Hp; reflexivity).
    destruct inside; [destruct Ha as [<-|[]]; apply Hp; reflexivity|].
    destruct h as [|h0 [|h1 [|h2 h']]]; try (destruct Ha as [<-|[]]; apply Hp; reflexivity). destruct Ha as [<-|[]]. destruct Hy.
Qed.

Theorem pins_terminates cb roots inside : exists fuel, query_pins s cb fuel roots inside <> WFuel.
Proof.
  unfold query_pins. destruct (wl_run_terminates (acts_pins s inside) (bad_pins s inside) roots) as (fuel & H).
  - intros x _. apply (acc_of_rank _ (irank pinrank)). apply pins_rank.
  - exists fuel. destruct (wl_run (acts_pins s inside) (bad_pins s inside) fuel roots); [discriminate|contradiction|discriminate].
Qed.
End Ranks.


(* ---- the recursive settings terminate when the design hierarchy is acyclic ---- *)
From SV Require Import Proofs.QueryEnumInst Proofs.QueryEnumDefs.

Section Hier.
Variable s : state.
Hypothesis W : QWF s.
Hypothesis HA : acyclic s.        (* no instance sits (transitively) inside itself *)

Lemma inside_child c x : inside_of s c x <-> child s c x.
Proof. unfold child. symmetry. apply (sub_inside s W). Qed.

(* instances: downwards ... *)
Lemma acc_inst_down x : Acc (fun c x => inside_of s c x) x.
Proof.
  pose proof (HA x) as H. induction H as [x _ IH]. constructor. intros c Hc. apply IH. apply inside_child. exact Hc.
Qed.

Lemma inside_range c x : inside_of s c x -> c < next s /\ x < next s.
Proof.
  intros (d & Hr & Hp). split; [apply (q_alloc s W c KInstance), (par_kind s W _ _ _ Hp)|apply (q_alloc s W x KInstance), (iref_kind s W _ _ Hr)].
Qed.

(* ... and upwards *)
Lemma acc_inst_up x : Acc (fun e x => inside_of s x e) x.
Proof. apply (acc_up (fun c x => inside_of s c x) (next s) inside_range acc_inst_down). Qed.

(* definitions: "instantiates" has no infinite descending chain ... *)
Lemma acc_def_of_inst c : Acc (fun c x => inside_of s c x) c -> forall r, iref s c = Some r -> Acc (fun r' r => uses s r r') r.
Proof.
  induction 1 as [c _ IH]. intros r Hr. constructor. intros r' (c' & Hp & Hr').
  apply (IH c'); [exists r; auto|exact Hr'].
Qed.

Lemma acc_def_down d : Acc (fun r d => uses s d r) d.
Proof.
  constructor. intros r (c & Hp & Hr). apply (acc_def_of_inst c (acc_inst_down c) r Hr).
Qed.

Lemma uses_range r d : uses s d r -> r < next s /\ d < next s.
Proof.
  intros (c & Hp & Hr). split; [apply (q_alloc s W r KDefinition), (iref_def_kind s W _ _ Hr)|
                                 apply (q_alloc s W d KDefinition), (par_parent_kind s W _ _ _ Hp)].
Qed.

(* ... nor ascending chain *)
Lemma acc_def_up d : Acc (fun p d => uses s p d) d.
Proof. apply (acc_up (fun r d => uses s d r) (next s) uses_range acc_def_down). Qed.

Lemma acc_of_succs {T} (acts : item -> list (act T)) x :
  (forall y, In y (succs acts x) -> Acc (steps_to acts) y) -> Acc (steps_to acts) x.
Proof. intro H. constructor. intros y Hy. apply H, step_succs, Hy. Qed.

Lemma acc_no_succs {T} (acts : item -> list (act T)) x : succs acts x = [] -> Acc (steps_to acts) x.
Proof. intro E. apply acc_of_succs. rewrite E. intros y []. Qed.

(* ---- get_instances ---- *)
Section InstTerm.
Variables rec inside : bool.
Notation A := (acts_instances s rec inside).

Lemma it_def d : kind_of s d = Some KDefinition -> Acc (steps_to A) (IE d).
Proof.
  destruct (bool_cases inside) as [Hi|Hi].
  - pose proof (acc_def_down d) as H. induction H as [d _ IH]. intro Hk. apply acc_of_succs. intros y Hy.
    apply (i_def_in_succs s rec inside d y Hk Hi) in Hy as (_ & c & r & Hc & Hr & _ & ->).
    apply IH; [exists c; split; [apply (kids_par s W); exact Hc|exact Hr]|apply (iref_def_kind s W _ _ Hr)].
  - pose proof (acc_def_up d) as H. induction H as [d _ IH]. intro Hk. apply acc_of_succs. intros y Hy.
    apply (i_def_out_succs s W rec inside d y Hk Hi) in Hy as (_ & i & p & Hr & Hp & ->).
    apply IH; [exists i; auto|apply (par_parent_kind s W _ _ _ Hp)].
Qed.

Lemma it_inst x : kind_of s x = Some KInstance -> Acc (steps_to A) (IE x).
Proof.
  destruct (bool_cases inside) as [Hi|Hi].
  - pose proof (acc_inst_down x) as H. induction H as [x _ IH]. intro Hk. apply acc_of_succs. intros y Hy.
    rewrite (proj2 (i_inst_in s rec inside x Hk Hi)) in Hy. destruct rec; [|destruct Hy].
    apply in_map_iff in Hy as (c & <- & Hc). apply (sub_inside s W) in Hc.
    apply IH; [exact Hc|]. destruct Hc as (d & _ & Hp). apply (par_kind s W _ _ _ Hp).
  - pose proof (acc_inst_up x) as H. induction H as [x _ IH]. intro Hk. apply acc_of_succs. intros y Hy.
    rewrite (proj2 (i_inst_out s rec inside x Hk Hi)) in Hy. destruct rec; [|destruct Hy].
    apply in_map_iff in Hy as (e & <- & He). apply (ups_inside s W) in He.
    apply IH; [exact He|]. destruct He as (d & Hr & _). apply (iref_kind s W _ _ Hr).
Qed.

Lemma it_elem x : Acc (steps_to A) (IE x).
Proof.
  destruct (kind_of s x) as [[]|] eqn:Hk.
  - apply acc_of_succs. intros y Hy. rewrite (proj2 (i_net s rec inside x Hk)) in Hy. apply in_map_iff in Hy as (d & <- & Hd).
    apply in_flat_map in Hd as (l & _ & Hd). apply it_def. apply (kid_kind s W _ _ _ Hd).
  - apply acc_of_succs. intros y Hy. rewrite (proj2 (i_lib s rec inside x Hk)) in Hy. apply in_map_iff in Hy as (d & <- & Hd).
    apply it_def. apply (kid_kind s W _ _ _ Hd).
  - apply it_def, Hk.
  - apply acc_no_succs. apply (proj2 (i_port s rec inside x Hk)).
  - apply acc_no_succs. apply (proj2 (i_cable s rec inside x Hk)).
  - apply acc_of_succs. intros y Hy. rewrite (proj2 (i_wire s rec inside x Hk)) in Hy. destruct (par s RWires x) as [c|] eqn:Ec; [|destruct Hy].
    destruct Hy as [<-|[]]. apply acc_no_succs. apply (proj2 (i_cable s rec inside c (par_parent_kind s W _ _ _ Ec))).
  - apply acc_of_succs. intros y Hy. rewrite (proj2 (i_pin s rec inside x Hk)) in Hy. destruct (par s RPins x) as [c|] eqn:Ec; [|destruct Hy].
    destruct Hy as [<-|[]]. apply acc_no_succs. apply (proj2 (i_port s rec inside c (par_parent_kind s W _ _ _ Ec))).
  - apply it_inst, Hk.
  - apply acc_no_succs. unfold succs. cbn [acts_instances]. rewrite Hk. reflexivity.
Qed.

Lemma it_item y : Acc (steps_to A) y.
Proof.
  destruct y as [x|n i| |h].
  - apply it_elem.
  - apply acc_no_succs. reflexivity.
  - apply acc_no_succs. reflexivity.
  - apply acc_of_succs. intros y Hy. unfold succs in Hy. cbn [acts_instances] in Hy. destruct (href_item s h) as [x|]; [|destruct Hy].
    destruct (kind_of s x) as [[]|]; cbn in Hy; try (destruct Hy as [<-|[]]; apply it_elem). destruct Hy.
Qed.

Theorem instances_terminates roots : exists fuel, cands_instances s fuel roots rec inside <> WFuel.
Proof.
  unfold cands_instances. destruct (wl_run_terminates A no_bad roots (fun x _ => it_item x)) as (fuel & H).
  exists fuel. destruct (wl_run A no_bad fuel roots); [discriminate|contradiction|discriminate].
Qed.
End InstTerm.

(* ---- get_definitions ---- *)
Section DefsTerm.
Variables rec inside : bool.
Notation A := (acts_definitions s rec inside).

Lemma dt_def d : kind_of s d = Some KDefinition -> Acc (steps_to A) (IE d).
Proof.
  assert (Hstep : forall d, kind_of s d = Some KDefinition -> forall y, In y (succs A (IE d)) ->
                  exists r, y = IE r /\ dir_uses s inside d r /\ kind_of s r = Some KDefinition).
  { intros d0 Hk y Hy. unfold succs in Hy. apply in_flat_map in Hy as (a & Ha & Hy).
    apply (d_def s W rec inside d0 a Hk) in Ha as (r & Hr & ->). unfold mark_def in Hy. cbn [succ_of] in Hy.
    destruct (bool_cases rec) as [Er|Er]; rewrite Er in Hy; [|destruct Hy]. destruct Hy as [<-|[]]. exists r. split; [reflexivity|split; [exact Hr|apply (R_kind s W inside d0 r Hr)]]. }
  destruct (bool_cases inside) as [Hi|Hi].
  - pose proof (acc_def_down d) as H. induction H as [d _ IH]. intro Hk. apply acc_of_succs. intros y Hy.
    destruct (Hstep d Hk y Hy) as (r & -> & Hr & Hkr). unfold dir_uses in Hr. rewrite Hi in Hr. apply IH; assumption.
  - pose proof (acc_def_up d) as H. induction H as [d _ IH]. intro Hk. apply acc_of_succs. intros y Hy.
    destruct (Hstep d Hk y Hy) as (r & -> & Hr & Hkr). unfold dir_uses in Hr. rewrite Hi in Hr. apply IH; assumption.
Qed.

Lemma dt_inst x : kind_of s x = Some KInstance -> Acc (steps_to A) (IE x).
Proof.
  destruct (bool_cases inside) as [Hi|Hi].
  - pose proof (acc_inst_down x) as H. induction H as [x _ IH]. intro Hk. apply acc_of_succs. intros y Hy.
    unfold succs in Hy. apply in_flat_map in Hy as (a & Ha & Hy).
    apply (d_inst s rec inside x a Hk) in Ha as (d0 & Hd0 & ->). unfold mark_def in Hy. cbn [succ_of] in Hy.
    destruct (bool_cases rec) as [Er|Er]; rewrite Er in Hy; [|destruct Hy]. unfold inst_pushes in Hy. unfold inst_target in Hd0. rewrite Hi in Hy, Hd0.
    apply in_map_iff in Hy as (ch & <- & Hch). apply IH; [exists d0; split; [exact Hd0|apply (kids_par s W); exact Hch]|apply (kid_kind s W _ _ _ Hch)].
  - intro Hk. apply acc_of_succs. intros y Hy. unfold succs in Hy. apply in_flat_map in Hy as (a & Ha & Hy).
    apply (d_inst s rec inside x a Hk) in Ha as (d0 & Hd0 & ->). unfold mark_def in Hy. cbn [succ_of] in Hy.
    destruct (bool_cases rec) as [Er|Er]; rewrite Er in Hy; [|destruct Hy]. unfold inst_pushes in Hy. unfold inst_target in Hd0. rewrite Hi in Hy, Hd0. destruct Hy as [<-|[]].
    apply dt_def. apply (par_parent_kind s W _ _ _ Hd0).
Qed.

Lemma dt_home x : kind_of s x = Some KPort \/ kind_of s x = Some KCable -> Acc (steps_to A) (IE x).
Proof.
  intro Hk. apply acc_of_succs. intros y Hy. unfold succs in Hy. apply in_flat_map in Hy as (a & Ha & Hy).
  apply (d_home s rec inside x a Hk) in Ha as (d & _ & ->). destruct Hy.
Qed.

Lemma dt_elem x : Acc (steps_to A) (IE x).
Proof.
  destruct (kind_of s x) as [[]|] eqn:Hk.
  - apply acc_of_succs. intros y Hy. unfold succs in Hy. cbn [acts_definitions] in Hy. rewrite Hk, succ_push_ids in Hy.
    apply in_map_iff in Hy as (l & <- & Hl). pose proof (kid_kind s W _ _ _ Hl) as Hkl. cbn [rel_child] in Hkl.
    apply acc_of_succs. intros z Hz. unfold succs in Hz. apply in_flat_map in Hz as (a & Ha & Hz).
    apply (lib_acts s rec inside l a Hkl) in Ha as [[-> _]|(d & Hd & -> & _)]; [destruct Hz|]. destruct Hz as [<-|[]].
    apply dt_def. apply (kid_kind s W _ _ _ Hd).
  - apply acc_of_succs. intros z Hz. unfold succs in Hz. apply in_flat_map in Hz as (a & Ha & Hz).
    apply (lib_acts s rec inside x a Hk) in Ha as [[-> _]|(d & Hd & -> & _)]; [destruct Hz|]. destruct Hz as [<-|[]].
    apply dt_def. apply (kid_kind s W _ _ _ Hd).
  - apply dt_def, Hk.
  - apply dt_home. left. exact Hk.
  - apply dt_home. right. exact Hk.
  - apply acc_of_succs. intros y Hy. unfold succs in Hy. cbn [acts_definitions] in Hy. rewrite Hk, succ_push_opt in Hy.
    destruct (par s RWires x) as [c|] eqn:Ec; [|destruct Hy]. destruct Hy as [<-|[]]. apply dt_home. right. apply (par_parent_kind s W _ _ _ Ec).
  - apply acc_of_succs. intros y Hy. unfold succs in Hy. cbn [acts_definitions] in Hy. rewrite Hk, succ_push_opt in Hy.
    destruct (par s RPins x) as [c|] eqn:Ec; [|destruct Hy]. destruct Hy as [<-|[]]. apply dt_home. left. apply (par_parent_kind s W _ _ _ Ec).
  - apply dt_inst, Hk.
  - apply acc_no_succs. unfold succs. cbn [acts_definitions]. rewrite Hk. reflexivity.
Qed.

Theorem definitions_terminates roots : exists fuel, cands_definitions s fuel roots rec inside <> WFuel.
Proof.
  unfold cands_definitions. destruct (wl_run_terminates A no_bad roots) as (fuel & H).
  - intros y _. destruct y as [x|n i| |h].
    + apply dt_elem.
    + apply acc_of_succs. intros y [<-|[]]. apply dt_elem.
    + apply acc_no_succs. reflexivity.
    + apply acc_of_succs. intros y Hy. unfold succs in Hy. cbn [acts_definitions] in Hy. rewrite succ_push_opt in Hy.
      destruct (href_item s h); [|destruct Hy]. destruct Hy as [<-|[]]. apply dt_elem.
  - exists fuel. destruct (wl_run A no_bad fuel roots); [discriminate|contradiction|discriminate].
Qed.
End DefsTerm.
End Hier.
