(* C09, connectivity: the wire-level partition [wconn] of Proofs/FlatConnRel.v is, in a uniquified
   design, the connectivity relation [conn] of the hier engine (Hier/Conn.v) on wire occurrences:
   every wire of the design has exactly one occurrence, and a boundary crossing between wires is a
   crossing between their occurrences. *)
From Coq Require Import List Arith Bool Lia Relations.
From SV Require Import Base.Base IR.State IR.NS IR.Ops Xform.Clone Xform.Strs Xform.Xform Hier.Paths Hier.Conn
  Proofs.AssocX Proofs.Inv1a Proofs.Inv2a Proofs.InvP Proofs.InvW Proofs.CloneFull Proofs.FlatLeaf Proofs.FlatEff Proofs.FlatPaths Proofs.FlatWalk Proofs.FlatConnRel Proofs.FlatConnPin Proofs.FlatConn.
Import ListNotations.

(* every wire that holds a pin belongs to a cable *)
Definition Cabled (s : state) : Prop := forall w p, In p (wpins s w) -> exists c, par s RWires w = Some c.

Section Occ.
  Variables (s : state) (t topd : id).
  Hypothesis U : UF s.
  Hypothesis Hu : Uniquified s t.
  Hypothesis Ht : iref s t = Some topd.
  Hypothesis Hc : WFc s.
  Hypothesis Hcab : Cabled s.

  Let I1 : Inv1a s := inv_a _ (proj1 U).
  Let I2 : Inv2a s := inv_r _ (proj1 U).

  Definition occ_of (h : href) (w : id) : Prop := hwire_occ s t h /\ hd_error h = Some w.

  Lemma cables_of_par x c : In c (cables_of s x) <-> exists d, iref s x = Some d /\ par s RCables c = Some d.
  Proof.
    unfold cables_of. destruct (iref s x) as [d|].
    - rewrite (i1_kids _ I1). split; [intro H; exists d; split; [reflexivity|exact H]|intros [d' [E H]]; injection E as <-; exact H].
    - split; [intros []|intros [d [E _]]; discriminate E].
  Qed.

  (* a wire has at most one occurrence *)
  Lemma occ_unique h h' w : occ_of h w -> occ_of h' w -> h = h'.
  Proof.
    intros [[w1 [c1 [x1 [p1 [-> [P1 [C1 W1]]]]]]] E1] [[w2 [c2 [x2 [p2 [-> [P2 [C2 W2]]]]]]] E2].
    cbn in E1, E2. injection E1 as ->. injection E2 as ->.
    apply (i1_kids _ I1) in W1, W2. assert (c2 = c1) by congruence. subst c2.
    apply cables_of_par in C1 as [d1 [R1 Q1]]. apply cables_of_par in C2 as [d2 [R2 Q2]]. assert (d2 = d1) by congruence. subst d2.
    assert (Hl : is_leaf_def s d1 = false) by (apply (has_cable_nonleaf s d1 c1), (i1_kids _ I1), Q1).
    assert (Hx : x1 = x2).
    { destruct p1 as [|y1 p1], p2 as [|y2 p2].
      - destruct (rpath_inv _ _ _ _ P1) as [[_ ->]|[? [? [E _]]]]; [|discriminate E].
        destruct (rpath_inv _ _ _ _ P2) as [[_ ->]|[? [? [E _]]]]; [reflexivity|discriminate E].
      - destruct (rpath_inv _ _ _ _ P1) as [[_ ->]|[? [? [E _]]]]; [|discriminate E].
        apply (uniq_refs s t x2 y2 p2 d1 t I2 Hu P2 R2 Hl R1).
      - destruct (rpath_inv _ _ _ _ P2) as [[_ ->]|[? [? [E _]]]]; [|discriminate E].
        symmetry. apply (uniq_refs s t x1 y1 p1 d1 t I2 Hu P1 R1 Hl R2).
      - symmetry. apply (uniq_refs s t x1 y1 p1 d1 x2 I2 Hu P1 R1 Hl R2). }
    subst x2. rewrite (rpath_unique s t I1 I2 Hu _ _ _ P1 P2). reflexivity.
  Qed.

  (* a crossing between wires is a crossing between occurrences *)
  Lemma wl_hlink u v : wl (Below s t) (pin_wire s) u v -> exists h h', occ_of h u /\ occ_of h' v /\ hlink_occ s t h h'.
  Proof.
    intros [n [j [[x [p Hp]] [A B]]]].
    assert (Ain : In (POut n j) (wpins s u)) by (apply (p_pins _ (inv_p _ (proj1 U))); exact A).
    assert (Bin : In (PIn j) (wpins s v)) by (apply (p_pins _ (inv_p _ (proj1 U))); exact B).
    destruct (Hcab _ _ Ain) as [c Hcu]. destruct (Hcab _ _ Bin) as [c' Hcv].
    destruct (wc_local_out _ Hc n j u c Ain Hcu) as [d [q [d' [Q1 [Q2 [Q3 [Q4 Q5]]]]]]].
    destruct (wc_local_in _ Hc j v c' Bin Hcv) as [d2 [q2 [R1 [R2 R3]]]].
    assert (q2 = q) by congruence. subst q2. assert (d2 = d') by congruence. subst d2.
    destruct (rpath_inv _ _ _ _ Hp) as [[E _]|[x0 [p0 [E [Hxp Hch]]]]]; [discriminate E|]. injection E as <- <-.
    destruct (child_par _ _ _ I1 Hch) as [dx [Rx Px]]. assert (dx = d) by congruence. subst dx.
    assert (O1 : hwire_occ s t (u :: c :: x :: p)).
    { exists u, c, x, p. split; [reflexivity|]. split; [exact Hxp|]. split; [apply cables_of_par; exists d; auto|apply (i1_kids _ I1); exact Hcu]. }
    assert (O2 : hwire_occ s t (v :: c' :: n :: x :: p)).
    { exists v, c', n, (x :: p). split; [reflexivity|]. split; [exact Hp|]. split; [apply cables_of_par; exists d'; auto|apply (i1_kids _ I1); exact Hcv]. }
    exists (u :: c :: x :: p), (v :: c' :: n :: x :: p).
    split; [split; [exact O1|reflexivity]|]. split; [split; [exact O2|reflexivity]|].
    split; [exact O1|]. split; [exact O2|]. apply (hlink_intro s n j (x :: p) u c v c' Ain Hcu B Hcv).
  Qed.

  Lemma hlink_wl h h' : hlink_occ s t h h' -> exists u v, hd_error h = Some u /\ hd_error h' = Some v /\ wl (Below s t) (pin_wire s) u v.
  Proof.
    intros [O1 [O2 L]]. destruct L as [n i hinst w c w' c' A B C F]. exists w, w'. split; [reflexivity|]. split; [reflexivity|].
    exists n, i. split; [|split; [apply (p_pins _ (inv_p _ (proj1 U))); exact A|exact C]].
    destruct O2 as [w2 [c2 [x2 [p2 [E [P2 _]]]]]]. injection E as _ _ <- <-.
    destruct (rpath_inv _ _ _ _ P2) as [[-> ->]|[y [p' [-> [_ _]]]]].
    - (* the inner occurrence cannot sit at the top instance: then the outer one would have an empty path *)
      exfalso. destruct O1 as [? [? [? [? [E0 _]]]]]. discriminate E0.
    - exists y, p'. exact P2.
  Qed.

  (* [conn] between two wire occurrences = [wconn] between the wires *)
  Theorem conn_iff_wconn h h' u v :
    occ_of h u -> occ_of h' v -> (conn s t h h' <-> wconn (Below s t) (pin_wire s) u v).
  Proof.
    intros Oh Oh'. split.
    - intro C.
      assert (P : h = h' \/ exists a b, hd_error h = Some a /\ hd_error h' = Some b /\ wconn (Below s t) (pin_wire s) a b).
      { clear Oh Oh'. induction C as [a b L|a|a b _ IH|a b c _ IH1 _ IH2].
        - right. destruct (hlink_wl _ _ L) as [x [y [A [B W]]]]. exists x, y. split; [exact A|split; [exact B|apply rst_step; exact W]].
        - left. reflexivity.
        - destruct IH as [->|[x [y [A [B W]]]]]; [left; reflexivity|right; exists y, x; split; [exact B|split; [exact A|apply rst_sym; exact W]]].
        - destruct IH1 as [->|[x [y [A [B W]]]]]; [exact IH2|]. destruct IH2 as [<-|[y' [z [B' [F W']]]]].
          + right. exists x, y. split; [exact A|split; [exact B|exact W]].
          + assert (y' = y) by congruence. subst y'. right. exists x, z. split; [exact A|split; [exact F|eapply rst_trans; eassumption]]. }
      destruct Oh as [_ Eh], Oh' as [_ Eh']. destruct P as [->|[a [b [A [B W]]]]].
      + assert (u = v) by congruence. subst v. apply rst_refl.
      + assert (a = u) by congruence. assert (b = v) by congruence. subst a b. exact W.
    - intro Wc.
      assert (Q : (forall k, occ_of k u -> exists k', occ_of k' v /\ conn s t k k') /\
                  (forall k', occ_of k' v -> exists k, occ_of k u /\ conn s t k k')).
      { clear Oh Oh' h h'. induction Wc as [a b L|a|a b _ IH|a b c _ IH1 _ IH2].
        - destruct (wl_hlink _ _ L) as [k0 [k0' [A [B Lk]]]]. split.
          + intros k Hk. rewrite (occ_unique _ _ _ Hk A). exists k0'. split; [exact B|apply rst_step; exact Lk].
          + intros k' Hk'. rewrite (occ_unique _ _ _ Hk' B). exists k0. split; [exact A|apply rst_step; exact Lk].
        - split; intros k Hk; exists k; (split; [exact Hk|apply rst_refl]).
        - destruct IH as [F G]. split.
          + intros k Hk. destruct (G k Hk) as [k' [A C]]. exists k'. split; [exact A|apply rst_sym; exact C].
          + intros k Hk. destruct (F k Hk) as [k' [A C]]. exists k'. split; [exact A|apply rst_sym; exact C].
        - destruct IH1 as [F1 G1], IH2 as [F2 G2]. split.
          + intros k Hk. destruct (F1 k Hk) as [k1 [A1 C1]]. destruct (F2 k1 A1) as [k2 [A2 C2]].
            exists k2. split; [exact A2|eapply rst_trans; eassumption].
          + intros k Hk. destruct (G2 k Hk) as [k1 [A1 C1]]. destruct (G1 k1 A1) as [k2 [A2 C2]].
            exists k2. split; [exact A2|eapply rst_trans; eassumption]. }
      destruct (proj1 Q h Oh) as [k' [A C]]. rewrite (occ_unique _ _ _ Oh' A). exact C.
  Qed.

  (* black-box leaves follow from the locality of wires *)
  Lemma leaf_pins_free : forall n j, Below s t n -> hierb s n = false -> pin_wire s (POut n j) = None \/ ipwire s j = None.
  Proof.
    intros n j Hb Hh. destruct (ipwire s j) as [v|] eqn:Ev; [|right; reflexivity]. left.
    cbn [pin_wire]. destruct (assoc j (ipins s n)) as [ow|] eqn:Ea; [|reflexivity]. exfalso.
    assert (Hk : In j (keys s n)) by (apply assoc_In_fst; exists ow; exact Ea).
    apply (k_keys _ (inv_k _ (proj1 U))) in Hk as [d [q [H1 [H2 H3]]]].
    assert (Bin : In (PIn j) (wpins s v)) by (apply (p_pins _ (inv_p _ (proj1 U))); exact Ev).
    destruct (Hcab _ _ Bin) as [c' Hcv]. destruct (wc_local_in _ Hc j v c' Bin Hcv) as [d2 [q2 [R1 [R2 R3]]]].
    assert (q2 = q) by congruence. subst q2. assert (d2 = d) by congruence. subst d2.
    unfold hierb in Hh. rewrite H1 in Hh. apply negb_false_iff in Hh.
    rewrite (has_cable_nonleaf s d c') in Hh; [discriminate Hh|]. apply (i1_kids _ I1). exact R1.
  Qed.
End Occ.

(* the endpoints the property speaks about: pins of leaf instances below the top, pins of the ports of
   the top definition *)
Definition LeafPin (s : state) (t : id) (p : pin) : Prop := exists c j, p = POut c j /\ Below s t c /\ hierb s c = false.
Definition TopPin (s : state) (topd : id) (p : pin) : Prop :=
  exists j q, p = PIn j /\ par s RPins j = Some q /\ par s RPorts q = Some topd.
Definition Endpoint (s : state) (t topd : id) (p : pin) : Prop := LeafPin s t p \/ TopPin s topd p.

Section Final.
  Variables (fuel : nat) (x : xstate) (n : id) (x' : xstate) (t topd : id).
  Hypothesis U0 : UF (st x).
  Hypothesis Hu : Uniquified (st x) t.
  Hypothesis Htop : top (st x) n = Some t.
  Hypothesis Ht : iref (st x) t = Some topd.
  Hypothesis Hc : WFc (st x).
  Hypothesis Hcab : Cabled (st x).
  Hypothesis E0 : flatten fuel x n = (x', None).

  Lemma endpoint_not_hp p : Endpoint (st x) t topd p -> ~ HP (st x) t p.
  Proof.
    intros [[c [j [-> [Hb Hh]]]]|[j [q [-> [A B]]]]]; cbn [HP].
    - intros [_ H]. congruence.
    - intros [m [d [q' [Dm [Rm [_ [A' B']]]]]]]. assert (q' = q) by congruence. subst q'. assert (d = topd) by congruence. subst d.
      apply (below_not_topd (st x) t topd U0 Hu Ht m Dm Rm).
  Qed.

  (* a wired endpoint sits on a wire that has an occurrence in the design *)
  Lemma endpoint_occ p u : Endpoint (st x) t topd p -> pin_wire (st x) p = Some u -> exists h, occ_of (st x) t h u.
  Proof.
    pose proof (inv_a _ (proj1 U0)) as I1.
    intros [[c [j [-> [[y [pp Hp]] Hh]]]]|[j [q [-> [A B]]]]] Hw.
    - assert (Ain : In (POut c j) (wpins (st x) u)) by (apply (p_pins _ (inv_p _ (proj1 U0))); exact Hw).
      destruct (Hcab _ _ Ain) as [cb Hcu]. destruct (wc_local_out _ Hc c j u cb Ain Hcu) as [d [q [d' [Q1 [Q2 _]]]]].
      destruct (rpath_inv _ _ _ _ Hp) as [[Ee _]|[y0 [p0 [Ee [Hyp Hch]]]]]; [discriminate Ee|]. injection Ee as <- <-.
      destruct (child_par _ _ _ I1 Hch) as [dx [Rx Px]]. assert (dx = d) by congruence. subst dx.
      exists (u :: cb :: y :: pp). split; [|reflexivity]. exists u, cb, y, pp. split; [reflexivity|]. split; [exact Hyp|].
      split; [unfold cables_of; rewrite Rx; apply (i1_kids _ I1); exact Q1|apply (i1_kids _ I1); exact Hcu].
    - cbn [pin_wire] in Hw.
      assert (Bin : In (PIn j) (wpins (st x) u)) by (apply (p_pins _ (inv_p _ (proj1 U0))); exact Hw).
      destruct (Hcab _ _ Bin) as [cb Hcu]. destruct (wc_local_in _ Hc j u cb Bin Hcu) as [d2 [q2 [R1 [R2 R3]]]].
      assert (q2 = q) by congruence. subst q2. assert (d2 = topd) by congruence. subst d2.
      exists (u :: cb :: [t]). split; [|reflexivity]. exists u, cb, t, []. split; [reflexivity|]. split; [apply rp_top|].
      split; [unfold cables_of; rewrite Ht; apply (i1_kids _ I1); exact R1|apply (i1_kids _ I1); exact Hcu].
  Qed.

  (* CONNECTIVITY: two endpoints are on the same wire after flatten exactly when the occurrences of their
     wires were connected (hier engine's [conn]) before *)
  Theorem flatten_connectivity p q u v h h' :
    Endpoint (st x) t topd p -> Endpoint (st x) t topd q ->
    pin_wire (st x) p = Some u -> pin_wire (st x) q = Some v -> occ_of (st x) t h u -> occ_of (st x) t h' v ->
    ((exists w, pin_wire (st x') p = Some w /\ pin_wire (st x') q = Some w) <-> conn (st x) t h h').
  Proof.
    intros Ep Eq Hp Hq Oh Oh'.
    rewrite (flatten_conn_same_wire fuel x n x' t topd U0 Hu Htop Ht E0
               (leaf_pins_free (st x) t U0 Hc Hcab) p q (endpoint_not_hp p Ep) (endpoint_not_hp q Eq)).
    rewrite (conn_iff_wconn (st x) t U0 Hu Hc Hcab h h' u v Oh Oh'). split.
    - intros [a [b [A [B W]]]]. assert (a = u) by congruence. assert (b = v) by congruence. subst a b. exact W.
    - intro W. exists u, v. split; [exact Hp|split; [exact Hq|exact W]].
  Qed.

  (* an endpoint that was not wired is not wired afterwards *)
  Theorem flatten_unwired_stays p : pin_wire (st x) p = None -> pin_wire (st x') p = None.
  Proof. apply (proj2 (proj2 (flatten_conn fuel x n x' t topd U0 Hu Htop Ht E0))). Qed.

  (* ... and a wired endpoint stays wired *)
  Theorem flatten_wired_stays p u : Endpoint (st x) t topd p -> pin_wire (st x) p = Some u -> exists w, pin_wire (st x') p = Some w.
  Proof.
    intros Ep Hp. destruct (endpoint_occ p u Ep Hp) as [h Oh].
    destruct (proj2 (flatten_connectivity p p u u h h Ep Ep Hp Hp Oh Oh) (rst_refl _ _ _)) as [w [A _]]. exists w. exact A.
  Qed.
End Final.

(* ---- the hypotheses on wires are decidable on allocated ids ---- *)
Definition cabled_b (s : state) : bool :=
  forallb (fun w => match wpins s w with [] => true | _ :: _ => match par s RWires w with Some _ => true | None => false end end) (all_ids s).

Lemma wired_lt s w p : UF s -> In p (wpins s w) -> w < next s.
Proof.
  intros [_ [_ [F [T _]]]] Hin. destruct (Nat.lt_ge_cases w (next s)) as [H|H]; [exact H|]. exfalso.
  assert (Hk : kind_of s w = Some KWire) by (apply (FieldT.ft_p _ T); intro E; rewrite E in Hin; destruct Hin).
  rewrite (Fresh.f_kind _ F w H) in Hk. discriminate Hk.
Qed.

Lemma cabled_b_sound s : UF s -> cabled_b s = true -> Cabled s.
Proof.
  intros U H w p Hin. unfold cabled_b in H. rewrite forallb_forall in H.
  specialize (H w (proj2 (in_seq _ _ _) (conj (Nat.le_0_l _) (wired_lt s w p U Hin)))).
  destruct (wpins s w); [destruct Hin|]. destruct (par s RWires w) as [c|]; [exists c; reflexivity|discriminate H].
Qed.

Lemma wfc_b_sound s : UF s -> forallb (wfc_wire_b s) (all_ids s) = true -> WFc s.
Proof.
  intros U H. pose proof (inv_p _ (proj1 U)) as P. rewrite forallb_forall in H.
  assert (Hw : forall w p, In p (wpins s w) ->
            match p with
            | PIn i => match par s RWires w with
                       | None => True
                       | Some c => exists d q, par s RCables c = Some d /\ par s RPins i = Some q /\ par s RPorts q = Some d
                       end
            | POut n i => match par s RWires w with
                          | None => True
                          | Some c => exists d q d', par s RCables c = Some d /\ par s RChildren n = Some d /\
                                                     par s RPins i = Some q /\ par s RPorts q = Some d' /\ iref s n = Some d'
                          end
            | PDet => True
            end).
  { intros w p Hin. specialize (H w (proj2 (in_seq _ _ _) (conj (Nat.le_0_l _) (wired_lt s w p U Hin)))).
    unfold wfc_wire_b in H. rewrite forallb_forall in H. specialize (H p Hin). destruct p as [i|n i|]; [| |exact I].
    - apply andb_true_iff in H as [_ H]. destruct (par s RWires w) as [c|]; [|exact I].
      destruct (par s RCables c) as [d|] eqn:Hd; [|discriminate H]. destruct (par s RPins i) as [q|] eqn:Hqi; [|discriminate H].
      apply opt_id_eqb_some in H. exists d, q. repeat split; assumption.
    - apply andb_true_iff in H as [_ H]. destruct (par s RWires w) as [c|]; [|exact I].
      destruct (par s RCables c) as [d|] eqn:Hd; [|discriminate H]. destruct (par s RPins i) as [q|] eqn:Hqi; [|discriminate H].
      apply andb_true_iff in H as [H1 H2]. apply opt_id_eqb_some in H1. destruct (par s RPorts q) as [d'|] eqn:Hq; [|discriminate H2].
      apply opt_id_eqb_some in H2. exists d, q, d'. repeat split; assumption. }
  constructor.
  - intros i w. apply (p_pins _ P w (PIn i)).
  - intros n i w. rewrite (p_pins _ P w (POut n i)). cbn [pin_wire].
    destruct (assoc i (ipins s n)) as [[w0|]|]; split; intro E; try discriminate E; congruence.
  - intros i w c Hin Hc. specialize (Hw w _ Hin). cbn in Hw. rewrite Hc in Hw. exact Hw.
  - intros n i w c Hin Hc. specialize (Hw w _ Hin). cbn in Hw. rewrite Hc in Hw. exact Hw.
Qed.
