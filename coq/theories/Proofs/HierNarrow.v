(* C12, the narrow selections and the pins of a hierarchical wire:
   get_hwires(hpin, INSIDE / OUTSIDE) returns exactly the wire attached on that side of the pin;
   get_hpins(hwire) returns exactly the port pins and sub-instance pins attached to the wire. *)
From Coq Require Import List Arith Bool Lia Relations.
From SV Require Import Base.Base IR.State Proofs.Inv1a Proofs.Inv2a Hier.Paths Hier.Enum Hier.Trace Hier.Conn
  Proofs.HierValid Proofs.HierEnum Proofs.HierClosure Proofs.HierTrace.
Import ListNotations.

Section Narrow.
  Variable s : state.
  Variable t : id.
  Hypothesis I1 : Inv1a s.
  Hypothesis I2 : Inv2a s.
  Hypothesis K : WFk s.
  Hypothesis Hroot : is_root s t.

  Lemma pin_occ_valid a : hpin_occ s t a -> is_valid s a = true.
  Proof.
    intros (i & q & x & p & -> & Hp & Hq & Hi). apply (is_valid_iff s _ I1 I2 K).
    apply hr_pin with t; [split; assumption|assumption|assumption].
  Qed.

  Lemma pin_occ_kind i r : hpin_occ s t (i :: r) -> kind_of s i = Some KPin.
  Proof.
    intros (i0 & q & x & p & E & _ & _ & Hi). inversion E; subst. apply (wk_kids s K RPins q i0 Hi).
  Qed.

  (* a narrow selection from a pin: one pop, no pushes *)
  Lemma narrow_from_pin : forall x usum a, sel_all x = false -> hpin_occ s t a ->
    exists l, get_hwires s x false usum a = Some l /\ forall b, In b l <-> In b (nb_sel s x a).
  Proof.
    intros x usum a Hx G.
    pose proof (pin_occ_valid a G) as Hv.
    destruct a as [|i r]; [destruct G as (? & ? & ? & ? & E & _); discriminate|].
    pose proof (pin_occ_kind i r G) as Hk.
    destruct (worklist_no_expand href href href_eqb href_eqb href_eqb_spec href_eqb_spec (nb_sel s x)
                [i :: r] (close_fuel usum [i :: r])) as (l & El & _ & Sl).
    { unfold close_fuel. cbn. lia. }
    unfold get_hwires. rewrite Hv. cbn [negb]. rewrite Hk. unfold hw_close. rewrite Hx.
    cbn beta iota. unfold href in *. rewrite El. eexists. split; [reflexivity|].
    intro b. rewrite href_union_In. cbn [href_union]. rewrite <- in_rev, Sl. cbn [In]. split.
    - intros [[]|(a' & [<-|[]] & H)]. exact H.
    - intro H. right. exists (i :: r). auto.
  Qed.

  Theorem get_hwires_INSIDE_pin : forall usum i q x p,
    hpin_occ s t (i :: q :: x :: p) ->
    exists l, get_hwires s SInside false usum (i :: q :: x :: p) = Some l /\
              forall b, In b l <-> exists w c, ipwire s i = Some w /\ par s RWires w = Some c /\
                                               b = w :: c :: x :: p.
  Proof.
    intros usum i q x p G.
    destruct (narrow_from_pin SInside usum _ eq_refl G) as (l & El & Sl).
    exists l. split; [exact El|]. intro b. rewrite Sl. unfold nb_sel. cbn [sel_in sel_out app].
    rewrite app_nil_r. unfold opt_list.
    rewrite <- (inner_spec s i q (x :: p) b).
    destruct (inner_hwire s (i :: q :: x :: p)) as [h|]; cbn; split; intro H;
      try (destruct H as [H|[]]; congruence); try contradiction; try discriminate.
    inversion H. left; reflexivity.
  Qed.

  (* OUTSIDE: the wire in the parent on which the instance's pin sits; the top instance has no
     enclosing occurrence, hence no outside wire *)
  Theorem get_hwires_OUTSIDE_pin : forall usum i q x x' p',
    hpin_occ s t (i :: q :: x :: x' :: p') ->
    exists l, get_hwires s SOutside false usum (i :: q :: x :: x' :: p') = Some l /\
              forall b, In b l <-> exists w c, assoc i (ipins s x) = Some (Some w) /\
                                               par s RWires w = Some c /\ b = w :: c :: x' :: p'.
  Proof.
    intros usum i q x x' p' G.
    destruct (narrow_from_pin SOutside usum _ eq_refl G) as (l & El & Sl).
    exists l. split; [exact El|]. intro b. rewrite Sl. unfold nb_sel. cbn [sel_in sel_out app].
    unfold opt_list.
    rewrite <- (outer_spec s i q x x' p' b).
    destruct (outer_hwire s (i :: q :: x :: x' :: p')) as [h|]; cbn; split; intro H;
      try (destruct H as [H|[]]; congruence); try contradiction; try discriminate.
    inversion H. left; reflexivity.
  Qed.

  Theorem get_hwires_OUTSIDE_top_pin : forall usum i q,
    hpin_occ s t [i; q; t] -> get_hwires s SOutside false usum [i; q; t] = Some [].
  Proof.
    intros usum i q G.
    destruct (narrow_from_pin SOutside usum _ eq_refl G) as (l & El & Sl).
    rewrite El. f_equal. destruct l as [|b l]; [reflexivity|].
    exfalso. apply (proj1 (Sl b)). left; reflexivity.
  Qed.

  (* pins of a hierarchical wire *)
  Hypothesis C : WFc s.

  Theorem get_hpins_of_hwire : forall x, hwire_occ s t x ->
    exists l, get_hpins s false x = Some l /\
              forall a, In a l <-> (hpin_occ s t a /\ In x (nb_sel s SAll a)).
  Proof.
    intros x G.
    pose proof (GB_valid s t I1 I2 K Hroot x G) as Hv.
    destruct G as (w & c & x0 & p & -> & Hp & Hc & Hw).
    assert (G : hwire_occ s t (w :: c :: x0 :: p)) by (exists w, c, x0, p; auto).
    unfold get_hpins. rewrite Hv. cbn [negb]. rewrite (GB_kind s t K w c (x0 :: p) G).
    eexists. split; [reflexivity|]. intro a. rewrite href_union_In. cbn [In]. split.
    - intros [[]|H]. split.
      + exact (g_pins s t I1 C _ a G H).
      + exact (sym1 s t I1 C a _ G H).
    - intros [Ga H]. right. exact (sym2 s t I1 C a _ Ga H).
  Qed.
End Narrow.

(* ---- selection ALL from a hierarchical pin: the class of the wire(s) attached to it ---- *)
Section PinStart.
  Variable s : state.
  Variable t : id.
  Hypothesis I1 : Inv1a s.
  Hypothesis I2 : Inv2a s.
  Hypothesis K : WFk s.
  Hypothesis C : WFc s.
  Hypothesis Hroot : is_root s t.

  Theorem get_hwires_ALL_pin : forall n U a,
    acyclic s -> top s n = Some t -> all_hwires s n = Some U -> hpin_occ s t a ->
    exists l, get_hwires s SAll false (pin_weight s U) a = Some l /\
              (forall b, In b l <-> exists x, In x (nb_sel s SAll a) /\ Conn.conn s t x b).
  Proof.
    intros n U a A Ht HU G.
    destruct (all_hwires_spec s n t I1 K A Ht) as (U' & EU & NU & SU).
    rewrite HU in EU. inversion EU; subst U'. clear EU.
    pose proof (GA_valid s t I1 I2 K Hroot a G) as Hv.
    assert (Hreach : forall b, reach href href (nb_sel s SAll) (hpins_of_hwire s) [a] b <->
                               exists x, In x (nb_sel s SAll a) /\ Conn.conn s t x b).
    { intro b. split.
      - intro H. assert (Hx : exists x, In x (nb_sel s SAll a)).
        { clear -H. induction H as [a0 b Ha Hb|b a0 b' _ IH _ _]; [|exact IH].
          destruct Ha as [<-|[]]. eauto. }
        destruct Hx as (x & Hx). exists x. split; [exact Hx|].
        apply (code_conn_iff_conn s t I1 C x b (g_nb s t I1 C a x G Hx)).
        apply (reach_pin_conn href href (nb_sel s SAll) (hpins_of_hwire s) (hpin_occ s t) (sym2 s t I1 C) a x b G Hx).
        exact H.
      - intros (x & Hx & H).
        apply (reach_pin_conn href href (nb_sel s SAll) (hpins_of_hwire s) (hpin_occ s t) (sym2 s t I1 C) a x b G Hx).
        apply (code_conn_iff_conn s t I1 C x b (g_nb s t I1 C a x G Hx)). exact H. }
    destruct (worklist_closure_correct href href href_eqb href_eqb href_eqb_spec href_eqb_spec
                (nb_sel s SAll) (hpins_of_hwire s) U [a] (close_fuel (pin_weight s U) [a]) NU) as (l & El & _ & Sl).
    { intros b Hb. apply SU. apply Hreach in Hb as (x & Hx & Hc).
      pose proof (g_nb s t I1 C a x G Hx) as Gx.
      apply (code_conn_good s t I1 C x b Gx).
      apply (code_conn_iff_conn s t I1 C x b Gx). exact Hc. }
    { unfold close_fuel, pin_weight. cbn [length]. lia. }
    destruct a as [|i r]; [destruct G as (? & ? & ? & ? & E & _); discriminate|].
    assert (Hk : kind_of s i = Some KPin).
    { destruct G as (i0 & q & x & p & E & _ & _ & Hi). inversion E; subst. apply (wk_kids s K RPins q i0 Hi). }
    unfold get_hwires. rewrite Hv. cbn [negb]. rewrite Hk. unfold hw_close. cbn [sel_all].
    cbn beta iota. unfold href in *.
    change (fun hw : list id => hpins_of_hwire s hw) with (hpins_of_hwire s).
    rewrite El. eexists. split; [reflexivity|].
    intro b. rewrite href_union_In. cbn [href_union]. rewrite <- in_rev, Sl, Hreach. cbn [In]. tauto.
  Qed.
End PinStart.
