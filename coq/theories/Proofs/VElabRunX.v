(* Engine `verilog`, document-level reader: the induction over ALL the modules of a document for the connection clause.
   An instance with a named port map in ANY module m of the document, followed in the body by items that are not port
   declarations; the modules after m neither re-declare m nor declare the instantiated module (it is declared earlier
   or never: no forward reference). What the map connects shows in the FINAL state. *)
From Coq Require Import List ZArith Bool Arith Lia Permutation.
From SV Require Import Base.Base Fmt.VBits Fmt.VTop Fmt.VDoc Fmt.VElab Fmt.VSpec Fmt.VSem
  Proofs.VerilogLists Proofs.VerilogGrow Proofs.VElabBase Proofs.VElabInv Proofs.VElabWf Proofs.VElabExpr Proofs.VElabConn
  Proofs.VElabAssign Proofs.VElabNets Proofs.VElabTop Proofs.VElabStable Proofs.VElabVis Proofs.VElabFrame Proofs.VElabFrameX
  Proofs.VElabDoc Proofs.VElabRun.
Import ListNotations.
Open Scope Z_scope.

(* a connection of instance ii of definition cur, seen as endpoint e on net bit r *)
Definition shown (s : estate) (cur ii : nat) (e : endpoint) (r : bitref) : Prop :=
  exists pk o w, In (POuter ii pk o, w) (ed_conn (get_def cur s)) /\
    pin_endpoint s (get_def cur s) (POuter ii pk o) = Some e /\ wire_label (get_def cur s) w = Some r.

Definition inst_refs (s : estate) (cur ii : nat) (n : str) : Prop :=
  exists i, nth_error (ed_insts (get_def cur s)) ii = Some i /\ ei_ref i = RName n.

Lemma shown_net s cur ii e r : DInv (get_def cur s) -> shown s cur ii e r -> In e (net_of r (abs_def s (get_def cur s))).
Proof.
  intros D (pk & o & w & Hin & P & W). apply (net_of_lconn s _ r e D). unfold lconn. apply in_map_iff.
  exists (POuter ii pk o, w). cbn [fst snd]. rewrite P, W. split; [reflexivity|exact Hin].
Qed.

Lemma shown_of_net s cur ii inst lb b r : DInv (get_def cur s) ->
  nth_error (ed_insts (get_def cur s)) ii = Some inst ->
  In (EInst (ei_name inst) lb b) (net_of r (abs_def s (get_def cur s))) -> shown s cur ii (EInst (ei_name inst) lb b) r.
Proof.
  intros D Hi H. apply (net_of_lconn s _ r _ D) in H. unfold lconn in H. apply in_map_iff in H.
  destruct H as ([p w] & E & Hin). cbn [fst snd] in E. injection E as E1 E2.
  destruct p as [pk o|ii' pk o].
  - cbn in E1. destruct (pin_bit _ _ _) as [[lb' i']|]; discriminate.
  - assert (X : exists i', nth_error (ed_insts (get_def cur s)) ii' = Some i' /\ ei_name i' = ei_name inst).
    { cbn in E1. destruct (nth_error (ed_insts (get_def cur s)) ii') as [i'|]; [|discriminate]. exists i'. split; [reflexivity|].
      destruct (is_assign _); [discriminate|]. destruct (pin_bit _ _ _) as [[lb' b']|]; [|discriminate]. inversion E1. reflexivity. }
    destruct X as (i' & Hi' & Hn).
    assert (ii' = ii) by (eapply (nodup_map_nth ei_name); [apply (di_inames _ D)|exact Hi'|exact Hi|exact Hn]). subst ii'.
    exists pk, o, w. split; [exact Hin|]. split; assumption.
Qed.

Lemma shown_lstep s s' cur ii e r n : lstep s s' -> shown s cur ii e r -> inst_refs s cur ii n ->
  shown s' cur ii e r /\ inst_refs s' cur ii n.
Proof.
  intros L (pk & o & w & Hin & P & W) (i & Hi & R). split.
  - exists pk, o, w. split; [destruct (lm_conn _ _ (ls_defs _ _ L cur)) as (new & ->); apply in_app_iff; left; exact Hin|].
    split; [eapply pin_endpoint_lstep; eassumption|apply (lm_cables _ _ (ls_defs _ _ L cur)); exact W].
  - destruct (lm_insts _ _ (ls_defs _ _ L cur) ii i Hi) as (i' & Hi' & R' & _). exists i'. split; [exact Hi'|congruence].
Qed.

Lemma shown_lstepX (X : nat -> Prop) s s' cur ii e r n j : lstepX X s s' -> ~ X cur -> inst_refs s cur ii n ->
  find_def n s = Some j -> ~ X j -> shown s cur ii e r -> shown s' cur ii e r /\ inst_refs s' cur ii n.
Proof.
  intros [(ex & N) D] Hc (i & Hi & R) F Hj (pk & o & w & Hin & P & W).
  destruct (D cur Hc) as [M _]. destruct (lm_insts _ _ M ii i Hi) as (i' & Hi' & R' & M').
  split; [|exists i'; split; [exact Hi'|congruence]].
  exists pk, o, w. split; [destruct (lm_conn _ _ M) as (new & ->); apply in_app_iff; left; exact Hin|]. split; [|apply (lm_cables _ _ M); exact W].
  cbn [pin_endpoint] in *. rewrite Hi in P. rewrite Hi', R', M', R. rewrite R in P. cbn [is_assign ref_ports] in *. rewrite F in P.
  unfold find_def in *. rewrite (find_idx_names_prefix n _ _ ex j N F).
  destruct (pin_bit (ed_ports (get_def j s)) pk o) as [[lb b]|] eqn:B; [|discriminate].
  rewrite (lm_ports _ _ (lS_mono _ _ (D j Hj)) _ _ _ B). exact P.
Qed.

Lemma get_blackbox_idx nm s k : (k < length (st_defs s))%nat -> k = snd (get_blackbox nm s) -> ed_name (get_def k s) = nm.
Proof.
  unfold get_blackbox. destruct (find_def nm s) as [j|] eqn:F; cbn [snd]; intros Hk E; [subst; apply (find_def_some _ _ _ F)|lia].
Qed.

(* the modules after m *)
Lemma post_modules_shown post : forall s s' cur ii e r n j mname, Inv s -> (cur < length (st_defs s))%nat ->
  ed_name (get_def cur s) = mname -> Forall (fun m2 => vm_name m2 <> mname /\ vm_name m2 <> n) post ->
  find_def n s = Some j -> inst_refs s cur ii n -> shown s cur ii e r -> fold_res module_decl post s = Ok s' ->
  shown s' cur ii e r /\ Inv s' /\ inst_refs s' cur ii n.
Proof.
  induction post as [|m2 post IH]; intros s s' cur ii e r n j mname I Hc Nm F Fj IR Sh H; cbn in H.
  - inversion H; subst. auto.
  - apply bind_ok in H. destruct H as (s1 & H1 & H). inversion F as [|? ? [F1 F2] F']; subst.
    destruct (find_def_some _ _ _ Fj) as [Hj Nj].
    destruct (module_decl_LSX m2 s s1 H1 (inv_alld s I)) as [LX A1].
    assert (C1 : cur <> snd (get_blackbox (vm_name m2) s)).
    { intro E. apply F1. symmetry. rewrite <- (get_blackbox_idx (vm_name m2) s cur Hc E). reflexivity. }
    assert (C2 : j <> snd (get_blackbox (vm_name m2) s)).
    { intro E. apply F2. rewrite <- (get_blackbox_idx (vm_name m2) s j Hj E). exact Nj. }
    destruct (shown_lstepX _ s s1 cur ii e r n j LX (fun E => C1 (eq_sym E)) IR Fj (fun E => C2 (eq_sym E)) Sh) as [Sh1 IR1].
    destruct (lx_names _ _ _ LX) as (ex & N).
    destruct (names_prefix_get s s1 ex cur N Hc) as [Hc1 Nm1].
    eapply (IH s1 s' cur ii e r n j (ed_name (get_def cur s))); try eassumption.
    + eapply module_decl_inv; eassumption.
    + unfold find_def in *. eapply find_idx_names_prefix; [exact N|exact Fj].
Qed.

Theorem module_instance pre m post before m' i params attrs l after sf :
  run (pre ++ m :: post) = Ok sf -> vm_cell m = false ->
  vm_body m = before ++ IInst m' i params attrs (CNamed l) :: after -> Forall not_port_decl after ->
  Forall (fun m2 => vm_name m2 <> vm_name m /\ vm_name m2 <> m') post ->
  exists s0 s5 cur s,
    fold_res module_decl pre st_init = Ok s0 /\ module_open m s0 = Ok (s5, cur) /\ fold_res (body_item cur) before s5 = Ok s /\
    Inv s /\ VInv s /\ ed_name (get_def cur s) = vm_name m /\
    (vm_name m <> m' ->
     Forall (conn_typed (crange (get_def cur s))) l -> Forall (fun pc => has_glob (fst pc) = false) l ->
     (forall k, find_def m' s = Some k -> all_lo0 (get_def k s)) ->
     forall pc e r, In pc l -> In (e, r) (conn_meaning i (crange (get_def cur s)) pc) ->
     (cur < length (st_defs sf))%nat /\ In e (net_of r (abs_def sf (get_def cur sf)))).
Proof.
  unfold run. fold st_init. intros H C B NP FP. apply bind_ok in H. destruct H as (s1b & H1 & H2).
  destruct (fold_res_app _ _ _ _ _ H1) as (s0 & Hpre & Hm). cbn in Hm. apply bind_ok in Hm. destruct Hm as (s1 & Hm & Hpost).
  destruct st_init_inv as [Ii VIi]. destruct (modules_inv pre _ _ Ii VIi Hpre) as [I0 VI0].
  destruct (module_decl_split m s0 s1 C Hm) as (s5 & cur & s6 & Ho & Hb & L6).
  destruct (module_open_inv m s0 s5 cur I0 VI0 Ho) as (I5 & VI5 & Hc5 & N5).
  rewrite B in Hb. destruct (fold_res_app _ _ _ _ _ Hb) as (s & Hbef & Hrest). cbn in Hrest.
  apply bind_ok in Hrest. destruct Hrest as (sA & HA & Haft). cbn [body_item] in HA.
  destruct (body_prefix_inv cur before s5 s I5 VI5 Hc5 Hbef) as (I & VI & Hc & N).
  exists s0, s5, cur, s. split; [exact Hpre|]. split; [exact Ho|]. split; [exact Hbef|]. split; [exact I|]. split; [exact VI|].
  split; [rewrite N; exact N5|].
  intros Hne T G A0 pc e r Hpc Hin.
  assert (Hne' : ed_name (get_def cur s) <> m') by (rewrite N, N5; exact Hne).
  destruct (inst_item_mid _ _ _ _ _ _ _ _ I VI Hc Hne' A0 HA) as (s3 & s4 & rk & ii & inst & I3 & VI3 & Hcr & Hc3 & Hr3 & Hi & Hn & Href & Cr & A3 & H4 & L4 & Nm3).
  rewrite <- Cr in T, Hin.
  assert (V3 : visible s3 (get_def cur s3)) by (apply conn_ok_visible; apply (proj1 VI3)).
  destruct (named_conns_visible cur ii rk inst l s3 s4 I3 Hcr Hc3 Hr3 Hi Href T G A3 V3 H4) as (_ & I4 & M & N4 & Len4 & _ & Fi4 & _).
  (* the endpoint is an endpoint of the instance *)
  assert (Ee : exists lb b, e = EInst (ei_name inst) lb b).
  { unfold conn_meaning in Hin. destruct (snd pc) as [ex|]; [|destruct Hin]. apply in_map_iff in Hin. destruct Hin as (kr & E & _).
    inversion E. rewrite Hn. eauto. }
  destruct Ee as (lb & b & ->).
  assert (Sh4 : shown s4 cur ii (EInst (ei_name inst) lb b) r).
  { apply shown_of_net; [apply get_def_dinv; exact I4|rewrite Fi4; exact Hi|].
    apply (net_of_lconn s4 _ r _ (get_def_dinv cur s4 I4)). apply M. right. exists pc. split; [exact Hpc|]. rewrite <- Hn in Hin. exact Hin. }
  assert (IR4 : inst_refs s4 cur ii m') by (exists inst; split; [rewrite Fi4; exact Hi|rewrite Href, Nm3; reflexivity]).
  assert (F4 : find_def m' s4 = Some rk).
  { rewrite (find_def_names _ _ _ N4). rewrite <- Nm3. apply find_def_self; [apply (iv_names s3 I3)|exact Hr3]. }
  (* to the end of module m *)
  assert (L41 : LS s4 s1) by (eapply LS_trans; [exact L4|]; eapply LS_trans; [eapply body_LS; [exact NP|exact Haft]|exact L6]).
  destruct (L41 (inv_alld s4 I4)) as [Ls41 A1].
  destruct (shown_lstep s4 s1 cur ii _ r m' Ls41 Sh4 IR4) as [Sh1 IR1].
  assert (I1 : Inv s1) by (eapply module_decl_inv; eassumption).
  destruct (ls_names _ _ Ls41) as (ex41 & N41).
  assert (Hc4 : (cur < length (st_defs s4))%nat) by lia.
  destruct (names_prefix_get s4 s1 ex41 cur N41 Hc4) as [Hc1 Nm1].
  assert (F1 : find_def m' s1 = Some rk) by (unfold find_def in *; eapply find_idx_names_prefix; [exact N41|exact F4]).
  assert (Nmc : ed_name (get_def cur s1) = vm_name m).
  { rewrite Nm1.
    destruct (inst_item_LS _ _ _ _ _ _ _ _ HA (inv_alld s I)) as [LsA _].
    destruct (L4 (inv_alld s4 I4)) as [[(ex4A & N4A) _] _]. destruct (ls_names _ _ LsA) as (exA & NA).
    rewrite <- (proj2 (names_prefix_get s4 sA ex4A cur N4A Hc4)). rewrite (proj2 (names_prefix_get s sA exA cur NA Hc)).
    rewrite N. exact N5. }
  destruct (post_modules_shown post s1 s1b cur ii _ r m' rk (vm_name m) I1 Hc1 Nmc FP F1 IR1 Sh1 Hpost) as (Shb & Ib & IRb).
  destruct (run_tail_LS s1b sf H2 (inv_alld s1b Ib)) as [Lsf Af].
  destruct (shown_lstep s1b sf cur ii _ r m' Lsf Shb IRb) as [Shf _].
  split; [|apply (shown_net sf cur ii _ r (Af cur) Shf)].
  destruct Shf as (pk & o & w & Hinf & _). destruct (lt_dec cur (length (st_defs sf))) as [Hl|Hl]; [exact Hl|exfalso].
  unfold get_def in Hinf. rewrite nth_overflow in Hinf by lia. destruct Hinf.
Qed.

Theorem module_instance_value pre m post before m' i params attrs l after n :
  elab (pre ++ m :: post) = Ok n -> vm_cell m = false ->
  vm_body m = before ++ IInst m' i params attrs (CNamed l) :: after -> Forall not_port_decl after ->
  Forall (fun m2 => vm_name m2 <> vm_name m /\ vm_name m2 <> m') post ->
  exists s0 s5 cur s,
    fold_res module_decl pre st_init = Ok s0 /\ module_open m s0 = Ok (s5, cur) /\ fold_res (body_item cur) before s5 = Ok s /\
    Inv s /\ VInv s /\ ed_name (get_def cur s) = vm_name m /\
    (vm_name m <> m' ->
     Forall (conn_typed (crange (get_def cur s))) l -> Forall (fun pc => has_glob (fst pc) = false) l ->
     (forall k, find_def m' s = Some k -> all_lo0 (get_def k s)) ->
     forall pc e r, In pc l -> In (e, r) (conn_meaning i (crange (get_def cur s)) pc) ->
     exists d, nth_error (nv_defs n) cur = Some d /\ In e (net_of r d)).
Proof.
  intros H C B NP FP. destruct (elab_defs _ _ H) as (sf & Hr & Hd).
  destruct (module_instance pre m post before m' i params attrs l after sf Hr C B NP FP) as (s0 & s5 & cur & s & E0 & E5 & Es & I & VI & N & K).
  exists s0, s5, cur, s. repeat (split; [assumption|]).
  intros Hne T G A0 pc e r Hpc Hin. destruct (K Hne T G A0 pc e r Hpc Hin) as [Hc Hnet].
  exists (abs_def sf (get_def cur sf)). split; [apply Hd; exact Hc|exact Hnet].
Qed.

(* ================= the input class, as a boolean predicate ================= *)
Definition datom_typedb (E : cenv) (a : datom) : bool :=
  negb (has_glob (atom_name a)) &&
  match atom_l a, atom_r a with
  | Some h, Some l => match E (atom_name a) with
                      | Some (lo, w) => (lo <=? l) && (l <=? h) && (h <=? lo + Z.of_nat w - 1)
                      | None => false end
  | Some i, None => match E (atom_name a) with
                    | Some (lo, w) => (lo <=? i) && (i <=? lo + Z.of_nat w - 1)
                    | None => false end
  | None, _ => true
  end.

Definition dexpr_typedb (E : cenv) (e : dexpr) : bool :=
  match e with
  | DAtom a => datom_typedb E a
  | DCat l => match l with [] => false | _ => forallb (datom_typedb E) l end
  end.

Definition conn_typedb (E : cenv) (pc : str * option dexpr) : bool :=
  match snd pc with Some e => dexpr_typedb E e | None => true end.

Lemma datom_typedb_ok E a : datom_typedb E a = true -> datom_typed E a.
Proof.
  unfold datom_typedb, datom_typed. intro H. apply andb_true_iff in H. destruct H as [G H].
  split; [destruct (has_glob _); [discriminate|reflexivity]|].
  destruct (atom_l a) as [h|]; [|exact Logic.I]. destruct (atom_r a) as [l|].
  - destruct (E (atom_name a)) as [[lo w]|]; [|discriminate]. exists lo, w. split; [reflexivity|].
    apply andb_true_iff in H. destruct H as [H H3]. apply andb_true_iff in H. destruct H as [H1 H2].
    apply Z.leb_le in H1, H2, H3. lia.
  - destruct (E (atom_name a)) as [[lo w]|]; [|discriminate]. exists lo, w. split; [reflexivity|].
    apply andb_true_iff in H. destruct H as [H1 H2]. apply Z.leb_le in H1, H2. lia.
Qed.

Lemma dexpr_typedb_ok E e : dexpr_typedb E e = true -> dexpr_typed E e.
Proof.
  destruct e as [a|l]; cbn; [apply datom_typedb_ok|]. destruct l as [|a l]; [discriminate|]. intro H.
  split; [discriminate|]. apply Forall_forall. intros x Hx. apply datom_typedb_ok. eapply (proj1 (forallb_forall _ _) H). exact Hx.
Qed.

Lemma conn_typedb_ok E pc : conn_typedb E pc = true -> conn_typed E pc.
Proof. unfold conn_typedb, conn_typed. destruct (snd pc); [apply dexpr_typedb_ok|auto]. Qed.

(* the state in which the reader arrives at an item: after the modules [pre], the header of m, the items [before] *)
Definition reach_before (pre : vdoc) (m : vmodule) (before : list vitem) : option (estate * nat) :=
  match fold_res module_decl pre st_init with
  | Ok s0 => match module_open m s0 with
             | Ok (s5, cur) => match fold_res (body_item cur) before s5 with Ok s => Some (s, cur) | Err _ => None end
             | Err _ => None end
  | Err _ => None
  end.

(* what the module knows of its nets at that point *)
Definition env_before (pre : vdoc) (m : vmodule) (before : list vitem) : cenv :=
  match reach_before pre m before with Some (s, cur) => crange (get_def cur s) | None => fun _ => None end.

Definition pos_before (pre : vdoc) (m : vmodule) (before : list vitem) : nat :=
  match reach_before pre m before with Some (_, cur) => cur | None => O end.

Definition not_port_declb (it : vitem) : bool := match it with IPortDecl _ _ _ _ _ => false | _ => true end.

(* the input class for the connection clause of one instance: m is a module (not a `celldefine cell) that does not
   instantiate itself here; every select of the port map lies inside the range the net has at that point, no name is a
   glob pattern; the ports the instantiated definition has so far (declared earlier in the file, or made by earlier
   instances) are based at 0; no port declaration follows in the body; no later module re-declares m or declares the
   instantiated module *)
Definition inst_in_class (pre : vdoc) (m : vmodule) (post : vdoc) (before : list vitem) (m' : str)
    (l : list (str * option dexpr)) (after : list vitem) : bool :=
  negb (vm_cell m) && negb (str_eqb (vm_name m) m') && forallb not_port_declb after &&
  forallb (fun m2 => negb (str_eqb (vm_name m2) (vm_name m)) && negb (str_eqb (vm_name m2) m')) post &&
  match reach_before pre m before with
  | Some (s, cur) =>
      forallb (conn_typedb (crange (get_def cur s))) l && forallb (fun pc => negb (has_glob (fst pc))) l &&
      match find_def m' s with
      | Some k => forallb (fun p => b_lo (ep_b p) =? 0) (ed_ports (get_def k s))
      | None => true end
  | None => false
  end.

Lemma str_eqb_false_ne a b : str_eqb a b = false -> a <> b.
Proof. intros H E. subst. rewrite str_eqb_refl in H. discriminate. Qed.

Theorem module_instance_class pre m post before m' i params attrs l after n :
  elab (pre ++ m :: post) = Ok n ->
  vm_body m = before ++ IInst m' i params attrs (CNamed l) :: after ->
  inst_in_class pre m post before m' l after = true ->
  forall pc e r, In pc l -> In (e, r) (conn_meaning i (env_before pre m before) pc) ->
  exists d, nth_error (nv_defs n) (pos_before pre m before) = Some d /\ In e (net_of r d).
Proof.
  intros H B Cl pc e r Hpc Hin. unfold inst_in_class in Cl.
  apply andb_true_iff in Cl. destruct Cl as [Cl C5]. apply andb_true_iff in Cl. destruct Cl as [Cl C4].
  apply andb_true_iff in Cl. destruct Cl as [Cl C3]. apply andb_true_iff in Cl. destruct Cl as [C1 C2].
  assert (Cc : vm_cell m = false) by (destruct (vm_cell m); [discriminate|reflexivity]).
  assert (Hne : vm_name m <> m') by (apply str_eqb_false_ne; destruct (str_eqb _ _); [discriminate|reflexivity]).
  assert (NP : Forall not_port_decl after).
  { apply Forall_forall. intros x Hx. assert (Y := proj1 (forallb_forall _ _) C3 x Hx). destruct x; try exact Logic.I. discriminate. }
  assert (FP : Forall (fun m2 => vm_name m2 <> vm_name m /\ vm_name m2 <> m') post).
  { apply Forall_forall. intros x Hx. assert (Y := proj1 (forallb_forall _ _) C4 x Hx). apply andb_true_iff in Y. destruct Y as [Y1 Y2].
    split; apply str_eqb_false_ne; [destruct (str_eqb (vm_name x) (vm_name m))|destruct (str_eqb (vm_name x) m')]; try discriminate; reflexivity. }
  destruct (module_instance_value pre m post before m' i params attrs l after n H Cc B NP FP) as (s0 & s5 & cur & s & E0 & E5 & Es & _ & _ & _ & K).
  unfold env_before, pos_before, reach_before in *. rewrite E0, E5, Es in *.
  apply andb_true_iff in C5. destruct C5 as [C5 C8]. apply andb_true_iff in C5. destruct C5 as [C6 C7].
  refine (K Hne _ _ _ pc e r Hpc Hin).
  - apply Forall_forall. intros x Hx. apply conn_typedb_ok. exact (proj1 (forallb_forall _ _) C6 x Hx).
  - apply Forall_forall. intros x Hx. assert (Y := proj1 (forallb_forall _ _) C7 x Hx). cbn beta in Y |- *. destruct (has_glob (fst x)) eqn:Eg; [cbn in Y; discriminate Y|reflexivity].
  - intros k Hk. rewrite Hk in C8. intros p Hp. apply Z.eqb_eq. exact (proj1 (forallb_forall _ _) C8 p Hp).
Qed.
