(* A concrete netlist reached by editing calls, on which the hypotheses of the enumeration theorems
   hold and the whole queries compute non-trivial results; the former witness of the duplicate yield of
   get_instances from an instance (repaired) and the former witness of the formerly refuted statement
   (get_libraries from an instance, OUTSIDE, recursive; repaired). *)
From Coq Require Import List Arith NArith Bool Lia String Wellfounded.
From SV Require Import Base.Base IR.State IR.NS IR.Ops Proofs.Inv1a Proofs.Inv2a Proofs.InvW Proofs.NsInv
  Hier.Paths Hier.Enum Hier.Trace Query.Glob Query.Regex Query.Patterns Query.Filter Query.Enum Query.EnumSpec
  Proofs.QueryFilter Proofs.QueryEnumWL Proofs.QueryEnumBase Proofs.QueryEnumView Proofs.QueryEnumFull.
Import ListNotations.
Local Open Scope string_scope.

Definition nm (x : string) : option str := Some (s2l x).

(* netlist 0 "n"; library 1 "L": leaf cell 2 "leaf" (port 3 "a", pin 4), cell 5 "mid" (port 6 "p", pin 7;
   cable 8 "c", wire 9; children 10 "a" and 11 "ab" of leaf; wire 9 joins pin 7 and pin a of child 10);
   library 12 "W": cell 13 "top" (children 14 "u" of mid and 15 "a" of leaf); top instance 16 of top *)
Definition ex_ops : list op :=
  [ ONew KNetlist (nm "n") [];
    OCreate RLibs 0 (nm "L") [] 0 None;
    OCreate RDefs 1 (nm "leaf") [] 0 None;
    OCreate RPorts 2 (nm "a") [] 1 None;
    OCreate RDefs 1 (nm "mid") [] 0 None;
    OCreate RPorts 5 (nm "p") [] 1 None;
    OCreate RCables 5 (nm "c") [] 1 None;
    OCreate RChildren 5 (nm "a") [] 0 (Some 2);
    OCreate RChildren 5 (nm "ab") [] 0 (Some 2);
    OConnect 9 (PIn 7) None;
    OConnect 9 (POut 10 4) None;
    OCreate RLibs 0 (nm "W") [] 0 None;
    OCreate RDefs 12 (nm "top") [] 0 None;
    OCreate RChildren 13 (nm "u") [] 0 (Some 5);
    OCreate RChildren 13 (nm "a") [] 0 (Some 2);
    OSetTop 0 (TopDef 13) ].
Definition ex : state := Ops.run ex_ops State.init.

Lemma ex_qwf : QWF ex.
Proof. apply reachable_qwf. Qed.

Lemma ex_nsinv : NsInv ex.
Proof. apply (reachable_nsinv ex_ops). Qed.

(* every container of ex that has members carries a namespace table *)
Lemma ex_tables r p : ns_rel r = true -> kids ex r p <> [] -> nstab ex p <> None.
Proof.
  intros Hr H.
  do 17 (destruct p as [|p]; [first [ (vm_compute; discriminate) | (exfalso; apply H; destruct r; try discriminate Hr; vm_compute; reflexivity) ]|]).
  exfalso. apply H. destruct r; vm_compute; reflexivity.
Qed.

Lemma ex_lookok reg r : ns_rel r = true -> LookOK ex reg str_NAME r.
Proof. intro Hr. apply lookok_name; [exact ex_nsinv|exact Hr|intro p; apply (i1_nodup ex (inv_a ex (q_inv ex ex_qwf)))]. Qed.

Definition opt_name (reg : bool) : qopts := mkQ reg true false str_NAME (fun _ => true).

(* ---- computed results on ex ---- *)
Example ex_instances_netlist_recursive :
  query_instances ex (opt_name true) 100 [IE 0] true true [s2l "a*"] = WOk [15; 10; 11].
Proof. vm_compute. reflexivity. Qed.
Example ex_instances_outside_recursive :
  query_instances ex (opt_name true) 100 [IE 2] true false [s2l "*"] = WOk [14; 16; 15; 11; 10].
Proof. vm_compute. reflexivity. Qed.
Example ex_definitions_netlist :
  query_definitions ex (opt_name true) 100 [IE 0] true true [s2l "*"] = WOk [13; 2; 5].
Proof. vm_compute. reflexivity. Qed.
Example ex_libraries_definition_outside :
  query_libraries ex (opt_name true) 100 [IE 2] true false [s2l "*"] = WOk [12; 1].
Proof. vm_compute. reflexivity. Qed.
Example ex_ports_wire : query_ports ex (opt_name true) 100 [IE 9] [s2l "*"] = WOk [3; 6].
Proof. vm_compute. reflexivity. Qed.
Example ex_netlists_pin : query_netlists ex (opt_name true) 100 [IE 4] [s2l "n"] = WOk [0].
Proof. vm_compute. reflexivity. Qed.
Example ex_pins_wire_outside : query_pins ex (fun _ => true) 100 [IE 9] false = WOk [POut 10 4; POut 14 7].
Proof. vm_compute. reflexivity. Qed.

(* ---- former witness 1 (finding C13-K1, repaired): get_instances(instance u of mid, ['a', 'a*'])
        yields child a once; so does the collection [definition mid, instance u of mid] with 'a*'
        (finding C13-K2, repaired) ---- *)
Lemma ex_instances_once :
  query_instances ex (opt_name true) 100 [IE 14] false true [s2l "a"; s2l "a*"] = WOk [10; 11].
Proof. vm_compute. reflexivity. Qed.
Lemma ex_instances_once_collection :
  query_instances ex (opt_name true) 100 [IE 5; IE 14] false true [s2l "a*"] = WOk [10; 11].
Proof. vm_compute. reflexivity. Qed.

(* ---- former witness 2 (repaired): get_libraries(instance a of leaf inside mid, OUTSIDE, recursive):
        library W holds top, which instantiates mid; only L (the library of mid) used to be returned,
        now W is found as well (regression case) ---- *)
Lemma ex_libraries_above :
  query_libraries ex (opt_name true) 100 [IE 10] true false [s2l "*"] = WOk [12; 1].
Proof. vm_compute. reflexivity. Qed.

(* ---- former witness of finding C13-K3 (repaired): DEFAULT policy, child 10 of mid carries the
        identifier x; the exact pattern x on key EDIF.identifier finds it, with the fast lookups
        registered (the namespace answers NotImplemented, global_service.lookup scans) and deregistered ---- *)
Definition ex_id : state := Ops.run (ex_ops ++ [ODSet 10 str_IDENT (VStr (s2l "x"))]) State.init.

Lemma ex_id_all_default p t : nstab ex_id p = Some t -> ns_pol t = PolDefault.
Proof.
  do 17 (destruct p as [|p]; [vm_compute; intro H; first [discriminate H|injection H as <-; reflexivity]|]).
  vm_compute. discriminate.
Qed.

Lemma ex_default_policy :
  (forall p t, nstab ex_id p = Some t -> ns_pol t = PolDefault) /\ str_eqb str_IDENT str_NAME = false /\
  query_instances ex_id (mkQ true true false str_IDENT (fun _ => true)) 100 [IE 5] false true [s2l "x"] = WOk [10] /\
  query_instances ex_id (mkQ false true false str_IDENT (fun _ => true)) 100 [IE 5] false true [s2l "x"] = WOk [10] /\
  query_instances ex_id (mkQ true true false str_IDENT (fun _ => true)) 100 [IE 5] false true [s2l "x*"] = WOk [10].
Proof.
  split; [exact ex_id_all_default|]. split; [vm_compute; reflexivity|].
  split; [vm_compute; reflexivity|]. split; vm_compute; reflexivity.
Qed.

(* ---- no element twice from any root (held back by findings C13-K1 / C13-K2 before the repair) ---- *)
Definition instances_nodup_full : Prop :=
  forall s o fuel it rec inside pats res,
    QWF s -> LookOK s (q_reg o) (q_key o) RChildren -> ~ In [] pats ->
    query_instances s o fuel [it] rec inside pats = WOk res -> NoDup res.

Theorem instances_nodup_holds : instances_nodup_full.
Proof.
  intros s o fuel it rec inside pats res _ _ _ H. exact (query_instances_NoDup s o fuel [it] rec inside pats res H).
Qed.

(* ---- the statement at full strength: every root, selection and recursive setting (it was refuted
        by the witness above before the repair of get_libraries(instance, OUTSIDE, recursive=True)) ---- *)
Definition libraries_full : Prop :=
  forall s o fuel it rec inside pats res,
    QWF s -> LookOK s (q_reg o) (q_key o) RLibs -> ~ In [] pats ->
    query_libraries s o fuel [it] rec inside pats = WOk res ->
    forall e, In e res <->
      (reachA_libraries s it e \/ reachB_libraries s rec inside it e) /\
      sel_match (q_case o) (q_re o) (key_of s (q_key o)) (fold_of s (q_key o)) pats e = true /\ q_cb o e = true.

Theorem libraries_full_holds : libraries_full.
Proof. intros s o fuel it rec inside pats res W HL Hp H. exact (query_libraries_spec s W o fuel it rec inside pats res HL Hp H). Qed.


(* the hypotheses of the enumeration theorems hold on ex, for every key-independent part and for
   the key .NAME with the fast lookup registered or not *)
Example ex_hypotheses :
  QWF ex /\ LookOK ex true str_NAME RChildren /\ LookOK ex false str_NAME RDefs /\
  LookOK ex true str_NAME RLibs /\ LookOK ex true str_NAME RPorts /\ LookOK ex true str_NAME RCables.
Proof.
  split; [exact ex_qwf|]. split; [apply ex_lookok; reflexivity|]. split; [apply ex_lookok; reflexivity|].
  split; [apply ex_lookok; reflexivity|]. split; apply ex_lookok; reflexivity.
Qed.

(* the design hierarchy of ex is acyclic (hypothesis of the termination theorems) *)
Definition ex_rank (x : id) : nat := match x with 14 => 1 | 16 => 2 | _ => 0 end.

Lemma ex_child_rank c x : child ex c x -> ex_rank c < ex_rank x.
Proof.
  unfold child. intro H.
  do 17 (destruct x as [|x]; [vm_compute in H; repeat (destruct H as [<-|H]; [vm_compute; lia|]); destruct H|]).
  vm_compute in H. destruct H.
Qed.

Lemma ex_acyclic : acyclic ex.
Proof.
  intro x. pose proof (well_founded_ltof _ ex_rank x) as H. induction H as [x _ IH]. constructor.
  intros c Hc. apply IH. unfold ltof. apply ex_child_rank. exact Hc.
Qed.
