(* The clone family never writes the top-instance field (Netlist.clone excepted, at the copy of the
   netlist), and never lowers the allocation counter. *)
From Coq Require Import List Arith Bool Lia.
From RecordUpdate Require Import RecordSet.
From SV Require Import Base.Base IR.State IR.NS IR.Ops Xform.Clone Proofs.AssocX Proofs.Frame Proofs.Inv1a Proofs.Inv2a
  Proofs.InvP Proofs.InvW Proofs.Fresh Proofs.RefusedFull Proofs.NsInv Proofs.C01_full Proofs.CloneFrame Proofs.CloneStart.
Import ListNotations RecordSetNotations.

Lemma fold_ids_pres {A} (g : state -> A) (f : state -> id -> state) :
  (forall s x, g (f s x) = g s) -> forall l s, g (fold_ids f l s) = g s.
Proof. intro H. induction l as [|x l IH]; intro s; cbn [fold_ids]; [reflexivity|]. rewrite IH. apply H. Qed.

Lemma tq_clone_alloc s k : tq s (fst (clone_alloc s k)).
Proof.
  unfold clone_alloc, alloc. cbn zeta.
  set (sa := s <| next := S (next s) |> <| kind_of ::= fun f => upd f (next s) (Some k) |>).
  assert (T0 : tq s sa) by tq_triv.
  destruct (has_data k); cbn [fst]; [|exact T0].
  eapply tq_trans; [exact T0|]. eapply tq_trans; [apply tq_struct, se_ns_create|tq_triv].
Qed.

Definition TQf (f : SM -> id -> SM * id) : Prop := forall s m x s' m' x', f (s, m) x = ((s', m'), x') -> tq s s'.

Lemma tq_clone_each f : TQf f -> forall l s m s' m' l', clone_each f l (s, m) = ((s', m'), l') -> tq s s'.
Proof.
  intro Hf. induction l as [|x l IH]; intros s m s' m' l' E; cbn [clone_each] in E.
  - injection E as <- <- <-. apply tq_refl.
  - destruct (f (s, m) x) as [[s1 m1] x'] eqn:E1. destruct (clone_each f l (s1, m1)) as [[s2 m2] l2] eqn:E2.
    injection E as <- <- <-. eapply tq_trans; [apply (Hf _ _ _ _ _ _ E1)|apply (IH _ _ _ _ _ E2)].
Qed.

Lemma tq_pin_clone1 : TQf pin_clone1.
Proof.
  intros s m i s' m' i' E. unfold pin_clone1 in E. pose proof (tq_clone_alloc s KPin) as H. destruct (clone_alloc s KPin) as [s1 x].
  injection E as <- <- <-. eapply tq_trans; [exact H|tq_triv].
Qed.
Lemma tq_wire_clone1 : TQf wire_clone1.
Proof.
  intros s m i s' m' i' E. unfold wire_clone1 in E. pose proof (tq_clone_alloc s KWire) as H. destruct (clone_alloc s KWire) as [s1 x].
  injection E as <- <- <-. eapply tq_trans; [exact H|tq_triv].
Qed.
Lemma tq_inst_clone1 : TQf inst_clone1.
Proof.
  intros s m i s' m' i' E. unfold inst_clone1 in E. pose proof (tq_clone_alloc s KInstance) as H. destruct (clone_alloc s KInstance) as [s1 x].
  injection E as <- <- <-. eapply tq_trans; [exact H|tq_triv].
Qed.

Lemma tq_port_clone1 : TQf port_clone1.
Proof.
  intros s m p s' m' p' E. unfold port_clone1 in E. pose proof (tq_clone_alloc s KPort) as H. destruct (clone_alloc s KPort) as [s1 x].
  match type of E with context [clone_each pin_clone1 ?l ?sm] => destruct (clone_each pin_clone1 l sm) as [[s2 m2] pins'] eqn:E2 end.
  apply (tq_clone_each pin_clone1 tq_pin_clone1) in E2. injection E as <- <- <-. cbn [fst] in *.
  eapply tq_trans; [exact H|]. eapply tq_trans; [exact E2|].
  match goal with |- tq _ (copy_data (copy_bundle ?a _ _) _ _) => apply (tq_trans _ a); [|tq_triv] end.
  match goal with |- tq _ (fold_ids ?f ?l ?a) => apply (tq_trans _ a); [tq_triv|apply tq_fold_ids; intros; tq_triv] end.
Qed.
Lemma tq_cable_clone1 : TQf cable_clone1.
Proof.
  intros s m p s' m' p' E. unfold cable_clone1 in E. pose proof (tq_clone_alloc s KCable) as H. destruct (clone_alloc s KCable) as [s1 x].
  match type of E with context [clone_each wire_clone1 ?l ?sm] => destruct (clone_each wire_clone1 l sm) as [[s2 m2] pins'] eqn:E2 end.
  apply (tq_clone_each wire_clone1 tq_wire_clone1) in E2. injection E as <- <- <-. cbn [fst] in *.
  eapply tq_trans; [exact H|]. eapply tq_trans; [exact E2|].
  match goal with |- tq _ (copy_data (copy_bundle ?a _ _) _ _) => apply (tq_trans _ a); [|tq_triv] end.
  match goal with |- tq _ (fold_ids ?f ?l ?a) => apply (tq_trans _ a); [tq_triv|apply tq_fold_ids; intros; tq_triv] end.
Qed.

Lemma tq_port_rr m s p : tq s (fst (port_rr m s p)).
Proof. unfold port_rr. apply tq_fold_idsR. intros s1 i. destruct (mwire m (ipwire s1 i)); cbn; [tq_triv|apply tq_refl]. Qed.
Lemma tq_cable_rr m s p : tq s (fst (cable_rr m s p)).
Proof. unfold cable_rr. apply tq_fold_idsR. intros s1 i. destruct (map_opt _ _); cbn; [tq_triv|apply tq_refl]. Qed.
Lemma tq_inst_rr_def m s p : tq s (fst (inst_rr_def m s p)).
Proof. unfold inst_rr_def. destruct (map_opt _ _); cbn; [tq_triv|apply tq_refl]. Qed.

Lemma tq_def_clone1 s m d s' m' d' e : def_clone1 (s, m) d = ((s', m', d'), e) -> tq s s'.
Proof.
  intro E. unfold def_clone1 in E. pose proof (tq_clone_alloc s KDefinition) as H. destruct (clone_alloc s KDefinition) as [s1 a].
  cbn [fst] in H.
  match type of E with context [clone_each port_clone1 ?l ?sm] => destruct (clone_each port_clone1 l sm) as [[s2 m2] ports'] eqn:E2 end.
  match type of E with context [clone_each cable_clone1 ?l ?sm] => destruct (clone_each cable_clone1 l sm) as [[s3 m3] cables'] eqn:E3 end.
  match type of E with context [clone_each inst_clone1 ?l ?sm] => destruct (clone_each inst_clone1 l sm) as [[s4 m4] children'] eqn:E4 end.
  apply (tq_clone_each port_clone1 tq_port_clone1) in E2. apply (tq_clone_each cable_clone1 tq_cable_clone1) in E3.
  apply (tq_clone_each inst_clone1 tq_inst_clone1) in E4.
  injection E as <- _ _ _.
  assert (H4 : tq s s4) by (eapply tq_trans; [exact H|]; apply (tq_trans _ (copy_data s1 d a)); [tq_triv|exact (tq_trans _ _ _ E2 (tq_trans _ _ _ E3 E4))]).
  eapply tq_trans; [exact H4|].
  match goal with |- tq _ (fst (fold_idsR ?f ?l ?a >>= _)) => apply (tq_trans _ a); [tq_triv|] end.
  apply tq_bind; [apply tq_fold_idsR; intros sa y; eapply tq_trans; [|apply tq_port_rr]; tq_triv|].
  - intro s6. apply tq_bind; [apply tq_fold_idsR; intros sa y; eapply tq_trans; [|apply tq_cable_rr]; tq_triv|].
    intro s7. apply tq_fold_idsR; intros sa y; eapply tq_trans; [|apply tq_inst_rr_def]; tq_triv.
Qed.

Lemma tq_register_child s x : tq s (fst (register_child s x)).
Proof. unfold register_child. destruct (iref s x); cbn; [tq_triv|apply tq_refl]. Qed.
Lemma tq_reapply s c : tq s (fst (reapply s c)).
Proof.
  unfold reapply. destruct (sassoc str_NS (data s c)); [|apply tq_refl].
  apply tq_bind; [apply tq_struct, se_dict_del|intro s1; apply tq_struct, se_dict_set].
Qed.

Lemma tq_clone_pin s i : tq s (fst (fst (clone_pin s i))).
Proof.
  unfold clone_pin. destruct (pin_clone1 (s, []) i) as [[s1 m1] i'] eqn:E. cbn [fst ret].
  eapply tq_trans; [apply (tq_pin_clone1 _ _ _ _ _ _ E)|tq_triv].
Qed.
Lemma tq_clone_wire s i : tq s (fst (fst (clone_wire s i))).
Proof.
  unfold clone_wire. destruct (wire_clone1 (s, []) i) as [[s1 m1] i'] eqn:E. cbn [fst ret].
  eapply tq_trans; [apply (tq_wire_clone1 _ _ _ _ _ _ E)|tq_triv].
Qed.
Lemma tq_clone_port s i : tq s (fst (fst (clone_port s i))).
Proof.
  unfold clone_port. destruct (port_clone1 (s, []) i) as [[s1 m1] i'] eqn:E. cbn [fst ret].
  eapply tq_trans; [apply (tq_port_clone1 _ _ _ _ _ _ E)|apply tq_fold_ids; intros; tq_triv].
Qed.
Lemma tq_clone_cable s i : tq s (fst (fst (clone_cable s i))).
Proof.
  unfold clone_cable. destruct (cable_clone1 (s, []) i) as [[s1 m1] i'] eqn:E. cbn [fst ret].
  eapply tq_trans; [apply (tq_cable_clone1 _ _ _ _ _ _ E)|apply tq_fold_ids; intros; tq_triv].
Qed.
Lemma tq_clone_instance s i : tq s (fst (fst (clone_instance s i))).
Proof.
  unfold clone_instance. destruct (inst_clone1 (s, []) i) as [[s1 m1] i'] eqn:E. cbn [fst].
  eapply tq_trans; [apply (tq_inst_clone1 _ _ _ _ _ _ E)|]. eapply tq_trans; [|apply tq_register_child]. tq_triv.
Qed.
Lemma tq_clone_definition s d : tq s (fst (fst (clone_definition s d))).
Proof.
  unfold clone_definition. destruct (def_clone1 (s, []) d) as [[[s1 m1] d'] e] eqn:E.
  pose proof (tq_def_clone1 _ _ _ _ _ _ _ E) as H. destruct e as [x|]; cbn [fst raise]; [exact H|].
  eapply tq_trans; [exact H|]. apply tq_bind; [apply tq_fold_idsR; intros; apply tq_register_child|].
  intro s2. eapply tq_trans; [|apply tq_reapply]. tq_triv.
Qed.

Lemma tq_rekey_all m s x : tq s (fst (rekey_all m s x)).
Proof. unfold rekey_all. apply tq_fold_pairsR. intros s1 kv. destruct (mget m (fst kv)); [apply tq_rekey|apply tq_refl]. Qed.

Lemma tq_def_rr m s d : tq s (fst (def_rr m s d)).
Proof.
  unfold def_rr. eapply tq_trans; [|apply tq_fold_idsR]; [tq_triv|].
  intros s1 x. destruct (iref s1 x) as [e|]; [|apply tq_refl]. destruct (mget m e); [|apply tq_refl].
  eapply tq_trans; [|apply tq_rekey_all]. tq_triv.
Qed.

Lemma tq_defs_clone1 : forall l s m s' m' l' e, defs_clone1 l (s, m) = ((s', m'), l', e) -> tq s s'.
Proof.
  induction l as [|d l IH]; intros s m s' m' l' e E; cbn [defs_clone1] in E.
  - injection E as <- _ _ _. apply tq_refl.
  - destruct (def_clone1 (s, m) d) as [[[s1 m1] d'] e1] eqn:E1. pose proof (tq_def_clone1 _ _ _ _ _ _ _ E1) as H1.
    destruct e1 as [x|]; [injection E as <- _ _ _; exact H1|].
    destruct (defs_clone1 l (s1, m1)) as [[[s2 m2] r] e2] eqn:E2. injection E as <- _ _ _.
    eapply tq_trans; [exact H1|apply (IH _ _ _ _ _ _ E2)].
Qed.

Lemma tq_lib_clone1 s m l s' m' l' e : lib_clone1 (s, m) l = ((s', m', l'), e) -> tq s s'.
Proof.
  intro E. unfold lib_clone1 in E. pose proof (tq_clone_alloc s KLibrary) as H. destruct (clone_alloc s KLibrary) as [s1 x]. cbn [fst] in H.
  match type of E with context [defs_clone1 ?l ?sm] => destruct (defs_clone1 l sm) as [[[s2 m2] defs'] e2] eqn:E2 end.
  apply tq_defs_clone1 in E2.
  assert (H2 : tq s s2) by (eapply tq_trans; [exact H|]; eapply tq_trans; [|exact E2]; tq_triv).
  destruct e2 as [ex|]; [injection E as <- _ _ _; exact H2|]. injection E as <- _ _ _.
  eapply tq_trans; [exact H2|]. eapply tq_trans; [|apply tq_fold_idsR]; [tq_triv|].
  intros sa y. eapply tq_trans; [|apply tq_def_rr]. tq_triv.
Qed.

Lemma tq_lib_rip m s l : tq s (fst (lib_rip m s l)).
Proof.
  unfold lib_rip. apply tq_fold_idsR. intros s1 d. apply tq_bind; [apply tq_fold_idsR; intros; apply tq_register_child|].
  intro s2. tq_triv.
Qed.

Lemma tq_clone_library s l : tq s (fst (fst (clone_library s l))).
Proof.
  unfold clone_library. destruct (lib_clone1 (s, []) l) as [[[s1 m1] l'] e] eqn:E.
  pose proof (tq_lib_clone1 _ _ _ _ _ _ _ E) as H. destruct e as [x|]; cbn [fst raise]; [exact H|].
  eapply tq_trans; [exact H|]. apply tq_bind; [apply tq_lib_rip|intro s2; apply tq_reapply].
Qed.

Lemma tq_libs_clone1 : forall ls s m s' m' l' e, libs_clone1 ls (s, m) = ((s', m'), l', e) -> tq s s'.
Proof.
  induction ls as [|l ls IH]; intros s m s' m' l' e E; cbn [libs_clone1] in E.
  - injection E as <- _ _ _. apply tq_refl.
  - destruct (lib_clone1 (s, m) l) as [[[s1 m1] x] e1] eqn:E1. pose proof (tq_lib_clone1 _ _ _ _ _ _ _ E1) as H1.
    destruct e1 as [ex|]; [injection E as <- _ _ _; exact H1|].
    destruct (libs_clone1 ls (s1, m1)) as [[[s2 m2] r] e2] eqn:E2. injection E as <- _ _ _.
    eapply tq_trans; [exact H1|apply (IH _ _ _ _ _ _ E2)].
Qed.

(* the tail of Netlist.clone after the top instance of the copy is set *)
Lemma tq_net_tail (M : memo) n' libs' s8 :
  tq s8 (fst ((let s8 := match top s8 n' with Some t' => s8 <| istop ::= fun f => upd f t' true |> | None => s8 end in
       fold_idsR (fun s l' => fold_idsR (def_rr M) (kids s RDefs l') (set_par s RLibs l' (Some n'))) libs' s8) >>= fun s9 =>
       reapply (fold_ids (fun s l' => fold_ids (fun s d' => set_drefs s d' (filter (mval M) (drefs s d'))) (kids s RDefs l') s) libs' s9) n')).
Proof.
  cbn zeta. apply tq_bind.
  - eapply tq_trans; [|apply tq_fold_idsR]; [destruct (top s8 n'); [tq_triv|apply tq_refl]|].
    intros sa l'. eapply tq_trans; [|apply tq_fold_idsR; intros; apply tq_def_rr]. tq_triv.
  - intro s9. eapply tq_trans; [|apply tq_reapply]. apply tq_fold_ids. intros sa l'. apply tq_fold_ids. intros; tq_triv.
Qed.
