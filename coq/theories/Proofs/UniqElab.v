(* C08, "the elaborated design is the same as before": an identifier-free unfolding of a definition -
   ports, cables and wires with their connections written positionally, child instances in order with
   their data and the unfolding of the definition they instantiate - and the proof that
   Definition.clone produces a copy with the same unfolding and leaves the unfolding of every
   existing definition alone. *)
From Coq Require Import List Arith Bool Lia ZArith.
From RecordUpdate Require Import RecordSet.
From SV Require Import Base.Base IR.State IR.NS IR.Ops Xform.Clone Xform.Xform Proofs.AssocX Proofs.Frame Proofs.Inv1a Proofs.Inv2a
  Proofs.InvP Proofs.InvW Proofs.Fresh Proofs.Refused Proofs.RefusedFull Proofs.NsInv Proofs.CloneInv Proofs.RefK Proofs.CloneRef Proofs.FieldT
  Proofs.Repoint Proofs.CloneFaith Proofs.CloneInvP Proofs.CloneFull Proofs.CloneNetInv Proofs.CloneDefStruct Proofs.CloneData Proofs.XHistory Proofs.UniqFull.
From SV Require Import Proofs.UniqFresh.
Import ListNotations RecordSetNotations.

(* ---- the unfolding ---- *)
Fixpoint pos_of (x : id) (l : list id) : nat :=
  match l with [] => 0 | y :: l' => if Nat.eqb x y then 0 else S (pos_of x l') end.

(* a pin as seen from the definition e that owns the wire: the k-th pin of e's own ports (counted
   through the ports in order), or the k-th port pin of the definition instantiated by e's c-th child *)
Inductive desig := DIn (k : nat) | DOut (c k : nat) | DDet.

Definition desig_of (s : state) (e : id) (p : pin) : desig :=
  match p with
  | PIn i => DIn (pos_of i (port_pins s e))
  | POut x i => DOut (pos_of x (kids s RChildren e)) (match iref s x with Some r => pos_of i (port_pins s r) | None => 0 end)
  | PDet => DDet
  end.

(* the user data of an element: its dictionary without the naming-policy entry *)
Definition udata (s : state) (x : id) : list (str * val) := sassoc_del str_NS (data s x).

Definition port_info (s : state) (p : id) := (udata s p, bflags s p, length (kids s RPins p)).
Definition wire_info (s : state) (e w : id) : list desig := map (desig_of s e) (wpins s w).
Definition cable_info (s : state) (e c : id) := (udata s c, bflags s c, map (wire_info s e) (kids s RWires c)).

Inductive tree :=
| TCut
| TDef (leaf : option str)
       (ports : list (list (str * val) * (bool * bool * Z * dir) * nat))
       (cables : list (list (str * val) * (bool * bool * Z * dir) * list (list desig)))
       (children : list (list (str * val) * option tree)).

(* a leaf cell is identified by its name; a hierarchical cell by its contents *)
Definition leaf_name (s : state) (d : id) : option str := if is_leaf_def s d then get_str s d str_NAME else None.

Fixpoint unfold (fuel : nat) (s : state) (d : id) : tree :=
  match fuel with
  | O => TCut
  | S f => TDef (leaf_name s d) (map (port_info s) (kids s RPorts d)) (map (cable_info s d) (kids s RCables d))
                (map (fun x => (udata s x, option_map (unfold f s) (iref s x))) (kids s RChildren d))
  end.

(* ---- list lemmas ---- *)
Lemma map_Forall2_eq {A B C} (g : A -> C) (h : B -> C) l l' : Forall2 (fun a b => g a = h b) l l' -> map g l = map h l'.
Proof. intro H. induction H as [|x y l l' Hxy _ IH]; cbn; [reflexivity|]. rewrite Hxy, IH. reflexivity. Qed.

Lemma Forall2_impl_in {A B} (R Q : A -> B -> Prop) l l' :
  (forall a b, In a l -> In b l' -> R a b -> Q a b) -> Forall2 R l l' -> Forall2 Q l l'.
Proof.
  intros H F. induction F as [|x y l l' Hxy _ IH]; constructor.
  - apply H; [left; reflexivity|left; reflexivity|exact Hxy].
  - apply IH. intros a b Ha Hb. apply H; right; assumption.
Qed.

Lemma Forall2_length_eq {A B} (R : A -> B -> Prop) l l' : Forall2 R l l' -> length l = length l'.
Proof. intro H. induction H; cbn; congruence. Qed.

Lemma Forall2_flat_map {A B} (R : A -> B -> Prop) (Q : id -> id -> Prop) (g : A -> list id) (h : B -> list id) l l' :
  Forall2 R l l' -> (forall a b, In a l -> R a b -> Forall2 Q (g a) (h b)) -> Forall2 Q (flat_map g l) (flat_map h l').
Proof.
  intro H. induction H as [|x y l l' Hxy _ IH]; intro Hg; cbn; [constructor|].
  apply Forall2_app; [apply Hg; [left; reflexivity|exact Hxy]|]. apply IH. intros a b Ha. apply Hg. right. exact Ha.
Qed.

(* positions are carried by a one-to-one correspondence *)
Lemma pos_of_img (R : id -> id -> Prop) l l' x x' :
  (forall a b b', R a b -> R a b' -> b = b') -> (forall a a' b, R a b -> R a' b -> a = a') ->
  Forall2 R l l' -> R x x' -> pos_of x l = pos_of x' l'.
Proof.
  intros Hf Hi H Hx. induction H as [|a b l l' Hab _ IH]; cbn; [reflexivity|].
  destruct (Nat.eqb_spec x a) as [->|Hne], (Nat.eqb_spec x' b) as [->|Hne']; try reflexivity.
  - exfalso. apply Hne'. apply (Hf a x' b Hx Hab).
  - exfalso. apply Hne. apply (Hi x a b Hx Hab).
  - rewrite IH. reflexivity.
Qed.

Lemma pos_of_pairs (ps : list (id * id)) i i' :
  NoDup (map fst ps) -> NoDup (map snd ps) -> assoc i ps = Some i' -> pos_of i (map fst ps) = pos_of i' (map snd ps).
Proof.
  induction ps as [|[c n] ps IH]; cbn; intros Hf Hs Ha; [discriminate|].
  inversion Hf as [|? ? Hcf Hf']; subst. inversion Hs as [|? ? Hns Hs']; subst.
  destruct (Nat.eqb_spec i c) as [->|Hne].
  - injection Ha as ->. rewrite Nat.eqb_refl. reflexivity.
  - destruct (Nat.eqb_spec i' n) as [->|Hne'].
    + exfalso. apply Hns. apply assoc_Some_In in Ha. apply in_map_iff. exists (i, n). split; [reflexivity|exact Ha].
    + rewrite (IH Hf' Hs' Ha). reflexivity.
Qed.

(* ---- one level of the unfolding from local agreement ---- *)
Lemma unfold_local f s s' e e' :
  leaf_name s e = leaf_name s' e' ->
  map (port_info s) (kids s RPorts e) = map (port_info s') (kids s' RPorts e') ->
  map (cable_info s e) (kids s RCables e) = map (cable_info s' e') (kids s' RCables e') ->
  Forall2 (fun x x' => udata s x = udata s' x' /\ option_map (unfold f s) (iref s x) = option_map (unfold f s') (iref s' x'))
          (kids s RChildren e) (kids s' RChildren e') ->
  unfold (S f) s e = unfold (S f) s' e'.
Proof.
  intros H1 H2 H3 H4. cbn [unfold]. rewrite H1, H2, H3. f_equal.
  apply map_Forall2_eq.
  refine (Forall2_impl_in _ _ _ _ _ H4). intros a b _ _ [A B]. rewrite A, B. reflexivity.
Qed.

(* ---- the frame: a state change that keeps what the unfolding reads of the old objects, except that
   one old instance may now reference a new definition d' that unfolds like its old reference ---- *)
Section FrameU.
  Variables (s s' : state) (n : id) (inst d d' : id).
  Hypothesis Hclosed : forall r y c, y < n -> In c (kids s r y) -> c < n.
  Hypothesis Hrefs : forall x r, x < n -> iref s x = Some r -> r < n.
  Hypothesis Hkids : forall r y, r <> RDefs -> r <> RLibs -> y < n -> kids s' r y = kids s r y.
  Hypothesis Hud : forall y, y < n -> udata s' y = udata s y /\ bflags s' y = bflags s y.
  Hypothesis Hwires : forall e w, e < n -> w < n -> wire_info s' e w = wire_info s e w.
  Hypothesis Hiref : forall x, x < n -> x <> inst -> iref s' x = iref s x.
  Hypothesis Hinst : inst < n -> iref s inst = Some d /\ iref s' inst = Some d'.
  Hypothesis Hcopy : forall f, (forall e, e < n -> unfold f s' e = unfold f s e) -> unfold (S f) s' d' = unfold (S f) s d.

  Lemma udata_name y : udata s' y = udata s y -> get_str s' y str_NAME = get_str s y str_NAME.
  Proof.
    unfold udata, get_str. intro H.
    assert (Hne : str_NAME <> str_NS) by discriminate.
    rewrite <- (sassoc_del_other str_NS str_NAME (data s' y) Hne), <- (sassoc_del_other str_NS str_NAME (data s y) Hne), H. reflexivity.
  Qed.

  Lemma frame_unfold : forall f, (forall e, e < n -> unfold f s' e = unfold f s e) /\ unfold f s' d' = unfold f s d.
  Proof.
    assert (NP1 : RPorts <> RDefs) by discriminate. assert (NP2 : RPorts <> RLibs) by discriminate.
    assert (NC1 : RCables <> RDefs) by discriminate. assert (NC2 : RCables <> RLibs) by discriminate.
    assert (NH1 : RChildren <> RDefs) by discriminate. assert (NH2 : RChildren <> RLibs) by discriminate.
    assert (NI1 : RPins <> RDefs) by discriminate. assert (NI2 : RPins <> RLibs) by discriminate.
    assert (NW1 : RWires <> RDefs) by discriminate. assert (NW2 : RWires <> RLibs) by discriminate.
    induction f as [|f [IHo IHc]]; [split; [intros e _; reflexivity|reflexivity]|].
    split; [|apply Hcopy; exact IHo].
    intros e He. apply unfold_local.
    - unfold leaf_name, is_leaf_def. rewrite (Hkids RChildren e NH1 NH2 He), (Hkids RCables e NC1 NC2 He).
      rewrite (udata_name e (proj1 (Hud e He))). reflexivity.
    - rewrite (Hkids RPorts e NP1 NP2 He). apply map_ext_in. intros p Hp. pose proof (Hclosed RPorts e p He Hp) as Hpn.
      unfold port_info. destruct (Hud p Hpn) as [-> ->]. rewrite (Hkids RPins p NI1 NI2 Hpn). reflexivity.
    - rewrite (Hkids RCables e NC1 NC2 He). apply map_ext_in. intros c Hc. pose proof (Hclosed RCables e c He Hc) as Hcn.
      unfold cable_info. destruct (Hud c Hcn) as [-> ->]. rewrite (Hkids RWires c NW1 NW2 Hcn). f_equal.
      apply map_ext_in. intros w Hw. apply Hwires; [exact He|apply (Hclosed RWires c w Hcn Hw)].
    - rewrite (Hkids RChildren e NH1 NH2 He).
      assert (G : forall l, (forall x, In x l -> x < n) ->
                  Forall2 (fun x x' => udata s' x = udata s x' /\
                                       option_map (unfold f s') (iref s' x) = option_map (unfold f s) (iref s x')) l l).
      { induction l as [|x l IHl]; intro Hl; constructor; [|apply IHl; intros y Hy; apply Hl; right; exact Hy].
        pose proof (Hl x (or_introl eq_refl)) as Hx. split; [apply (Hud x Hx)|].
        destruct (Nat.eq_dec x inst) as [->|Hne].
        - destruct (Hinst Hx) as [-> ->]. cbn. rewrite IHc. reflexivity.
        - rewrite (Hiref x Hx Hne). destruct (iref s x) as [r|] eqn:Er; [|reflexivity]. cbn. rewrite (IHo r (Hrefs x r Hx Er)). reflexivity. }
      apply G. intros x Hx. apply (Hclosed RChildren e x He Hx).
  Qed.
End FrameU.

Lemma flat_map_ext_in {A B} (f g : A -> list B) l : (forall a, In a l -> f a = g a) -> flat_map f l = flat_map g l.
Proof.
  induction l as [|a l IH]; intro H; cbn; [reflexivity|]. rewrite (H a (or_introl eq_refl)), IH; [reflexivity|].
  intros x Hx. apply H. right. exact Hx.
Qed.

Lemma map_opt_map_eq {A B C} (f : A -> option B) (g : A -> C) (g' : B -> C) : forall l l', map_opt f l = Some l' ->
  (forall q q', In q l -> f q = Some q' -> g' q' = g q) -> map g' l' = map g l.
Proof.
  induction l as [|a l IH]; cbn [map_opt]; intros l' E H; [injection E as <-; reflexivity|].
  destruct (f a) as [b|] eqn:Ea; [|discriminate]. destruct (map_opt f l) as [r|] eqn:Er; [|discriminate]. injection E as <-.
  cbn. rewrite (H a b (or_introl eq_refl) Ea), (IH r eq_refl); [reflexivity|]. intros q q' Hq. apply H. right. exact Hq.
Qed.

Lemma leaf_len s d : is_leaf_def s d = Nat.eqb (length (kids s RChildren d)) 0 && Nat.eqb (length (kids s RCables d)) 0.
Proof. unfold is_leaf_def. destruct (kids s RChildren d), (kids s RCables d); reflexivity. Qed.

(* local agreement of a definition e in s with a definition e' in s' *)
Record Local (s : state) (e : id) (s' : state) (e' : id) : Prop := mkLocal {
  lo_leaf : is_leaf_def s' e' = is_leaf_def s e;
  lo_ports : map (port_info s') (kids s' RPorts e') = map (port_info s) (kids s RPorts e);
  lo_cables : map (cable_info s' e') (kids s' RCables e') = map (cable_info s e) (kids s RCables e);
  lo_children : Forall2 (fun x x' => udata s' x' = udata s x /\ iref s' x' = iref s x) (kids s RChildren e) (kids s' RChildren e')
}.

(* the designator of a pin as seen from an old definition, when old containers and old references are kept *)
Lemma desig_old s s' n e q :
  (forall r y, r <> RDefs -> r <> RLibs -> y < n -> kids s' r y = kids s r y) ->
  (forall r y c, y < n -> In c (kids s r y) -> c < n) -> (forall x r, x < n -> iref s x = Some r -> r < n) ->
  e < n -> (forall x i, q = POut x i -> x < n /\ iref s' x = iref s x) -> desig_of s' e q = desig_of s e q.
Proof.
  intros Hk Hcl Hr He Hq.
  assert (NP1 : RPorts <> RDefs) by discriminate. assert (NP2 : RPorts <> RLibs) by discriminate.
  assert (NH1 : RChildren <> RDefs) by discriminate. assert (NH2 : RChildren <> RLibs) by discriminate.
  assert (NI1 : RPins <> RDefs) by discriminate. assert (NI2 : RPins <> RLibs) by discriminate.
  assert (PP : forall r, r < n -> port_pins s' r = port_pins s r).
  { intros r Hrn. unfold port_pins. rewrite (Hk RPorts r NP1 NP2 Hrn). apply flat_map_ext_in.
    intros p Hp. apply (Hk RPins p NI1 NI2). apply (Hcl RPorts r p Hrn Hp). }
  destruct q as [i|x i|]; cbn [desig_of]; [rewrite (PP e He); reflexivity| |reflexivity].
  destruct (Hq x i eq_refl) as [Hx Hi]. rewrite (Hk RChildren e NH1 NH2 He), Hi.
  destruct (iref s x) as [r|] eqn:Er; [|reflexivity]. rewrite (PP r (Hr x r Hx Er)). reflexivity.
Qed.

(* ---- Definition.clone ---- *)
Section CloneLocal.
  Variables (s0 : state) (d : id).
  Hypotheses (U0 : UF s0) (Hd : d < next s0) (Hkd : kind_of s0 d = Some KDefinition)
             (Hc : snd (fst (clone_definition s0 d)) = None).
  Let sF := fst (fst (clone_definition s0 d)).
  Let d' := snd (clone_definition s0 d).
  Let M := clone_memo s0 d.

  Let S : DefStruct s0 d sF d' M := clone_definition_struct_m s0 d U0 Hd Hkd Hc.
  Let DT : DefData s0 d sF M := clone_definition_data s0 d U0 Hd Hkd Hc.

  Lemma clone_old_kids r y : y < next s0 -> kids sF r y = kids s0 r y.
  Proof. intro Hy. destruct (clone_definition_spec s0 d U0 Hd Hc) as [_ [_ [Hf _]]]. apply (Hf r y Hy). Qed.
  Lemma clone_old_iref y : y < next s0 -> iref sF y = iref s0 y.
  Proof. intro Hy. destruct (clone_definition_spec s0 d U0 Hd Hc) as [_ [_ [_ [Hi _]]]]. apply (Hi y Hy). Qed.
  Lemma clone_new_id : d' = next s0.
  Proof. apply clone_definition_id. Qed.
  Lemma clone_next : next s0 < next sF.
  Proof. destruct (clone_definition_spec s0 d U0 Hd Hc) as [_ [H _]]. exact H. Qed.

  Lemma clone_old_wpins y : y < next s0 -> wpins sF y = wpins s0 y.
  Proof.
    intro Hy. destruct U0 as [I0 [T0 [F0 [FT0 K0]]]]. unfold sF. pose proof Hc as Hc2. revert Hc2. unfold clone_definition.
    destruct (def_clone1 (s0, []) d) as [[[G M0] d0] [ex|]] eqn:E; cbn [fst snd]; [discriminate|]. intros _.
    pose proof (def_clone1_faithful s0 d G M0 d0 (inv_a _ I0) T0 F0 FT0 Hd Hkd E) as FA.
    assert (W : wsame G (fst (fold_idsR register_child (kids G RChildren d0) G >>= fun s2 => reapply (set_drefs s2 d0 []) d0))).
    { apply ws_bind; [apply ws_fold_idsR; intros; apply ws_register_child|]. intro s2.
      eapply ws_trans; [|apply ws_reapply]. constructor; reflexivity. }
    rewrite (ws_p _ _ W). apply (fa_old _ _ _ FA y Hy).
  Qed.

  Lemma pair_kind a b : In (a, b) M -> kind_of sF b = kind_of s0 a.
  Proof. intro H. apply (ds_rng _ _ _ _ _ S a b H). Qed.

  Lemma pair_udata a b k : In (a, b) M -> kind_of s0 a = Some k -> has_data k = true -> udata sF b = udata s0 a.
  Proof. intros H Hk Hh. apply (clone_user_data_same s0 d sF M DT a b k H Hk Hh). Qed.

  Let I1 : Inv1a s0 := inv_a _ (proj1 U0).
  Let T0 : InvT s0 := proj1 (proj2 U0).
  Let F0 : Fresh s0 := proj1 (proj2 (proj2 U0)).
  Let FT0 : FT s0 := proj1 (proj2 (proj2 (proj2 U0))).
  Let K0 : RefK s0 := proj2 (proj2 (proj2 (proj2 U0))).

  Lemma clone_port_pins : Forall2 (img M) (port_pins s0 d) (port_pins sF d').
  Proof.
    unfold port_pins. apply (Forall2_flat_map (img M) (img M) _ _ _ _ (ds_ports _ _ _ _ _ S)).
    intros p p' Hp Hi. apply (ds_pins _ _ _ _ _ S p p' Hi). apply (T0 RPorts d p Hp).
  Qed.

  Lemma clone_old_port_pins r : r < next s0 -> port_pins sF r = port_pins s0 r.
  Proof.
    intro Hr. unfold port_pins. rewrite (clone_old_kids RPorts r Hr). apply flat_map_ext_in.
    intros p Hp. apply clone_old_kids. apply (kids_lt s0 RPorts r p F0 I1 Hp).
  Qed.

  Lemma clone_desig q q' : mpin s0 M q = Some q' -> desig_of sF d' q' = desig_of s0 d q.
  Proof.
    assert (Hf : forall a b b', img M a b -> img M a b' -> b = b') by (intros a b b'; apply (memo_fun M a b b' (ds_fun _ _ _ _ _ S))).
    assert (Hi : forall a a' b, img M a b -> img M a' b -> a = a') by (intros a a' b; apply (memo_inj M a a' b (ds_inj _ _ _ _ _ S))).
    destruct q as [i|x i|]; cbn [mpin]; [| |discriminate].
    - destruct (mget M i) as [i'|] eqn:Ei; [|discriminate]. intro H. injection H as <-. cbn [desig_of]. f_equal. symmetry.
      apply (pos_of_img (img M) _ _ i i' Hf Hi clone_port_pins). apply mget_in. exact Ei.
    - destruct (mget M x) as [x'|] eqn:Ex; [|discriminate]. destruct (assoc i (ipins s0 x)) as [ow|] eqn:Eo; [|discriminate].
      intro H. injection H as <-. cbn [desig_of].
      assert (Hkx : kind_of s0 x = Some KInstance) by (apply (ft_i _ FT0); intro E0; rewrite E0 in Eo; discriminate).
      pose proof (mget_in _ _ _ Ex) as Hxx. rewrite (ds_ref _ _ _ _ _ S x x' Hxx Hkx).
      rewrite <- (pos_of_img (img M) _ _ x x' Hf Hi (ds_children _ _ _ _ _ S) Hxx).
      destruct (iref s0 x) as [r|] eqn:Er; [|reflexivity]. rewrite (clone_old_port_pins r (ref_lt s0 x r K0 F0 Er)). reflexivity.
  Qed.

  Lemma clone_local : Local s0 d sF d'.
  Proof.
    constructor.
    - rewrite !leaf_len, (Forall2_length_eq _ _ _ (ds_children _ _ _ _ _ S)), (Forall2_length_eq _ _ _ (ds_cables _ _ _ _ _ S)). reflexivity.
    - symmetry. apply map_Forall2_eq. refine (Forall2_impl_in _ _ _ _ _ (ds_ports _ _ _ _ _ S)). intros p p' Hp _ Hi.
      pose proof (proj1 (T0 RPorts d p Hp)) as Hk. cbn in Hk. unfold port_info.
      rewrite (pair_udata p p' KPort Hi Hk eq_refl), (dd_flags _ _ _ _ DT p p' Hi (or_introl Hk)).
      rewrite (Forall2_length_eq _ _ _ (ds_pins _ _ _ _ _ S p p' Hi Hk)). reflexivity.
    - symmetry. apply map_Forall2_eq. refine (Forall2_impl_in _ _ _ _ _ (ds_cables _ _ _ _ _ S)). intros c c' Hcc _ Hi.
      pose proof (proj1 (T0 RCables d c Hcc)) as Hk. cbn in Hk. unfold cable_info.
      rewrite (pair_udata c c' KCable Hi Hk eq_refl), (dd_flags _ _ _ _ DT c c' Hi (or_intror Hk)). f_equal.
      apply map_Forall2_eq. refine (Forall2_impl_in _ _ _ _ _ (ds_wires _ _ _ _ _ S c c' Hi Hk)). intros w w' Hw _ Hiw.
      pose proof (proj1 (T0 RWires c w Hw)) as Hkw. cbn in Hkw. unfold wire_info. symmetry.
      apply (map_opt_map_eq (mpin s0 M) (desig_of s0 d) (desig_of sF d') _ _ (ds_wpins _ _ _ _ _ S w w' Hiw Hkw)).
      intros q q' _ Hq. apply clone_desig. exact Hq.
    - refine (Forall2_impl_in _ _ _ _ _ (ds_children _ _ _ _ _ S)). intros x x' Hx _ Hi.
      pose proof (proj1 (T0 RChildren d x Hx)) as Hk. cbn in Hk.
      split; [apply (pair_udata x x' KInstance Hi Hk eq_refl)|apply (ds_ref _ _ _ _ _ S x x' Hi Hk)].
  Qed.

  Lemma clone_leaf_name : leaf_name sF d' = leaf_name s0 d.
  Proof.
    unfold leaf_name. rewrite (lo_leaf _ _ _ _ clone_local). destruct (is_leaf_def s0 d); [|reflexivity].
    apply (clone_get_str_same s0 d sF M DT d d' KDefinition (ds_root _ _ _ _ _ S) Hkd eq_refl). discriminate.
  Qed.

  (* pins listed by old wires belong to old instances *)
  Lemma wire_pin_old w x i : In (POut x i) (wpins s0 w) -> x < next s0.
  Proof.
    intro H. apply (p_pins _ (inv_p _ (proj1 U0))) in H. cbn in H.
    destruct (assoc i (ipins s0 x)) eqn:E; [|discriminate].
    assert (Hk : kind_of s0 x = Some KInstance) by (apply (ft_i _ FT0); intro E0; rewrite E0 in E; discriminate).
    destruct (Nat.lt_ge_cases x (next s0)) as [Hl|Hg]; [exact Hl|]. rewrite (f_kind _ F0 x Hg) in Hk. discriminate.
  Qed.

  (* (a): the copy unfolds like the original, and every existing definition unfolds as before *)
  Theorem clone_unfold : forall f, (forall e, e < next s0 -> unfold f sF e = unfold f s0 e) /\ unfold f sF d' = unfold f s0 d.
  Proof.
    apply (frame_unfold s0 sF (next s0) (next s0) d d').
    - intros r y c _ Hcin. apply (kids_lt s0 r y c F0 I1 Hcin).
    - intros x r _ Hr. apply (ref_lt s0 x r K0 F0 Hr).
    - intros r y _ _ Hy. apply clone_old_kids. exact Hy.
    - intros y Hy. pose proof (clone_definition_old_attrs s0 d U0 Hd Hkd Hc y Hy) as H. fold sF in H.
      split; [unfold udata; rewrite (attrs_data _ _ _ H); reflexivity|apply (attrs_flags _ _ _ H)].
    - intros e w He Hw. unfold wire_info. rewrite (clone_old_wpins w Hw). apply map_ext_in. intros q Hq.
      apply (desig_old s0 sF (next s0) e q).
      + intros r y _ _ Hy. apply clone_old_kids. exact Hy.
      + intros r y c _ Hcin. apply (kids_lt s0 r y c F0 I1 Hcin).
      + intros x r _ Hr. apply (ref_lt s0 x r K0 F0 Hr).
      + exact He.
      + intros x i ->. pose proof (wire_pin_old w x i Hq) as Hx. split; [exact Hx|apply clone_old_iref; exact Hx].
    - intros x Hx _. apply clone_old_iref. exact Hx.
    - intro H. exfalso. apply (Nat.lt_irrefl _ H).
    - intros f IH. symmetry. pose proof clone_local as [L1 L2 L3 L4]. apply unfold_local.
      + symmetry. apply clone_leaf_name.
      + symmetry. exact L2.
      + symmetry. exact L3.
      + refine (Forall2_impl_in _ _ _ _ _ L4). intros x x' Hx _ [A B]. split; [symmetry; exact A|]. rewrite B.
        destruct (iref s0 x) as [r|] eqn:Er; [|reflexivity]. cbn. rewrite (IH r (ref_lt s0 x r K0 F0 Er)). reflexivity.
  Qed.
End CloneLocal.

(* ---- what the renames and add_definition keep ---- *)
Record usame (dn : id) (s s' : state) : Prop := mkUs {
  us_kids : forall r, r <> RDefs -> kids s' r = kids s r;
  us_wpins : wpins s' = wpins s;
  us_iref : iref s' = iref s;
  us_flags : forall y, bflags s' y = bflags s y;
  us_udata : forall y, y <> dn -> udata s' y = udata s y;
  us_next : next s' = next s
}.
Lemma us_refl dn s : usame dn s s. Proof. constructor; reflexivity. Qed.
Lemma us_trans dn a b c : usame dn a b -> usame dn b c -> usame dn a c.
Proof.
  intros [A1 A2 A3 A4 A5 A6] [B1 B2 B3 B4 B5 B6]. constructor.
  - intros r Hr. rewrite (B1 r Hr). apply A1. exact Hr.
  - rewrite B2. exact A2.
  - rewrite B3. exact A3.
  - intro y. rewrite B4. apply A4.
  - intros y Hy. rewrite (B5 y Hy). apply A5. exact Hy.
  - rewrite B6. exact A6.
Qed.
Lemma us_struct dn s s' : struct_eq s s' -> (forall y, y <> dn -> udata s' y = udata s y) -> usame dn s s'.
Proof.
  intros H Hu. constructor; try exact Hu.
  - intros r _. rewrite (se_kids _ _ H). reflexivity.
  - apply (se_wpins _ _ H).
  - apply (se_iref _ _ H).
  - intro y. unfold bflags. rewrite (se_bdownto _ _ H), (se_bscalar _ _ H), (se_blower _ _ H), (se_pdir _ _ H). reflexivity.
  - apply (se_next _ _ H).
Qed.
Lemma us_bind dn (r : R) f s : usame dn s (fst r) -> (forall s1, usame dn s1 (fst (f s1))) -> usame dn s (fst (r >>= f)).
Proof. destruct r as [s1 [x|]]; cbn; intros H1 H2; [exact H1|]. eapply us_trans; [exact H1|apply H2]. Qed.

(* a name key (anything but '.NS') writes the dictionary of its element only *)
Lemma dict_set_other_data s e k v y : str_eqb k str_NS = false -> y <> e -> data (fst (dict_set s e k v)) y = data s y.
Proof.
  intros Hk Hy. unfold dict_set.
  assert (H1 : data (fst (ns_dictionary_set s e k v)) = data s).
  { unfold ns_dictionary_set, ret, raise. rewrite Hk.
    repeat match goal with
           | |- context [if ?b then _ else _] => destruct b
           | |- context [match ?x with _ => _ end] => destruct x
           end; cbn [fst]; reflexivity. }
  destruct (ns_dictionary_set s e k v) as [s1 [x|]]; cbn [bindR fst ret] in *; [rewrite H1; reflexivity|].
  cbn. unfold upd. apply Nat.eqb_neq in Hy. rewrite Hy, H1. reflexivity.
Qed.

Lemma us_dict_set_name s e k v : str_eqb k str_NS = false -> usame e s (fst (dict_set s e k v)).
Proof. intro Hk. apply us_struct; [apply se_dict_set|]. intros y Hy. unfold udata. rewrite (dict_set_other_data s e k v y Hk Hy). reflexivity. Qed.

(* assigning or deleting the policy entry changes '.NS' entries only *)
Lemma udata_dict_set_ns s e v y : udata (fst (dict_set s e str_NS v)) y = udata s y.
Proof.
  unfold dict_set, ns_dictionary_set. rewrite str_eqb_refl.
  assert (W : forall s1, udata (data_write (emit s1 (EDictSet e str_NS v)) e str_NS v) y = udata s1 y).
  { intro s1. unfold udata. cbn -[str_NS]. unfold upd. destruct (Nat.eqb_spec y e) as [->|]; [apply sassoc_del_set|reflexivity]. }
  destruct (match sassoc str_NS (data s e) with Some v0 => val_eqb v0 v | None => false end); cbn [bindR ret fst]; [apply W|].
  destruct (ns_parent s e); [reflexivity|]. destruct (pol_of_val v) as [pl|]; [|reflexivity].
  destruct (is_compliant pl s e); [|reflexivity]. cbn [bindR ret fst]. rewrite W.
  unfold udata. rewrite apply_namespace_data_in. destruct (memb y (subtree s e)); [apply sassoc_del_set|reflexivity].
Qed.

Lemma udata_dict_del_ns s e y : udata (fst (dict_del s e str_NS)) y = udata s y.
Proof.
  unfold dict_del, ns_dictionary_delete. rewrite str_eqb_refl.
  assert (W : forall s1, udata (fst (let s2 := emit s1 (EDictDel e str_NS) in if has_key s2 e str_NS then ret (data_erase s2 e str_NS) else raise s2 XKey)) y = udata s1 y).
  { intro s1. cbn zeta. destruct (has_key _ e str_NS); cbn [fst ret raise]; [|reflexivity].
    unfold udata. cbn -[str_NS]. unfold upd. destruct (Nat.eqb_spec y e) as [->|]; [apply sassoc_del_idem|reflexivity]. }
  destruct (ns_parent s e); [reflexivity|].
  destruct (has_key s e str_NS); cbn [bindR ret]; [|apply W]. rewrite W. unfold udata.
  destruct (Nat.eq_dec y e) as [->|Hne]; [rewrite drop_namespace_own_data; reflexivity|].
  rewrite (drop_namespace_data_in s e y Hne). destruct (memb y (subtree s e)); [apply sassoc_del_idem|reflexivity].
Qed.

Lemma us_ns_add dn s p c ck : usame dn s (fst (ns_add s p c ck)).
Proof.
  apply us_struct; [apply se_ns_add|]. intros y _. unfold ns_add.
  match goal with |- context [if ?b then raise s XValue else _] => destruct b end; [reflexivity|].
  match goal with |- udata (fst (?r >>= ?k)) y = _ => assert (H : udata (fst r) y = udata s y) end.
  { destruct (sassoc str_NS (data s p)) as [pv|].
    - match goal with |- context [if ?b then ret s else _] => destruct b end; [reflexivity|apply udata_dict_set_ns].
    - destruct (has_key s c str_NS); [apply udata_dict_del_ns|reflexivity]. }
  match goal with |- udata (fst (?r >>= ?k)) y = _ => destruct r as [s1 [x|]] end; cbn [bindR fst] in *; [exact H|].
  destruct (nstab s1 p); exact H.
Qed.

Lemma us_op_add_rdefs dn s p c pos : usame dn s (fst (op_add s RDefs p c pos)).
Proof.
  unfold op_add, guard. destruct (_ && _); [|apply us_refl]. destruct (add_guard1 s RDefs p c); [|apply us_refl].
  destruct (par s RDefs c); [apply us_refl|]. cbn [ns_rel]. apply us_bind; [apply us_ns_add|]. intro s1. cbn [fst ret add_post].
  constructor; try reflexivity. intros r Hr. cbn. unfold upd2.
  destruct (rel_eqb r RDefs) eqn:E; [apply rel_eqb_spec in E; contradiction|reflexivity].
Qed.

(* the reference setter leaves kinds, dictionaries and bundle attributes alone *)
Lemma qs_fold_pairsR f l : (forall s x, qsame s (fst (f s x))) -> forall s, qsame s (fst (fold_pairsR f l s)).
Proof. intro H. induction l as [|x l IH]; intro s; cbn; [apply qs_refl|]. apply qs_bind; [apply H|apply IH]. Qed.
Lemma qs_drop_outer s n i : qsame s (fst (drop_outer s n i)).
Proof. unfold drop_outer. destruct (assoc i (ipins s n)) as [[w|]|]; cbn; apply qs_fields; reflexivity. Qed.
Lemma qs_rekey s n cn : qsame s (fst (rekey s n cn)).
Proof. unfold rekey. destruct cn. destruct (assoc _ _) as [[w|]|]; cbn; apply qs_fields; reflexivity. Qed.

Lemma qs_op_set_reference s x v : qsame s (fst (op_set_reference s x v)).
Proof.
  unfold op_set_reference, guard. destruct (_ && _); [|apply qs_refl].
  destruct (match v, iref s x with Some d', Some d => same_shape s d d' | _, _ => true end); [|apply qs_refl].
  set (s1 := emit s (EReference x v)). assert (Q1 : qsame s s1) by (apply qs_fields; reflexivity).
  eapply qs_trans; [exact Q1|]. destruct v as [d'|].
  - apply qs_bind.
    + destruct (iref s1 x) as [d|].
      * apply qs_bind; [destruct (memb x (drefs s1 d)); cbn; apply qs_fields; reflexivity|].
        intro s2. apply qs_fold_pairsR. intros; apply qs_rekey.
      * cbn [fst ret]. apply qs_fold_ids. intros s2 i. apply qs_fields; reflexivity.
    + intro s3. apply qs_fields; reflexivity.
  - apply qs_bind; [apply qs_fold_idsR; intros; apply qs_drop_outer|]. intro s2.
    apply qs_bind; [|intro s4; apply qs_fields; reflexivity].
    eapply qs_trans; [apply (qs_fields s2 (set_ipins s2 x [])); reflexivity|].
    destruct (iref (set_ipins s2 x []) x) as [d|]; [|apply qs_refl].
    destruct (memb _ _); cbn; apply qs_fields; reflexivity.
Qed.

Lemma set_reference_shape s x d d' : iref s x = Some d -> snd (op_set_reference s x (Some d')) = None -> same_shape s d d' = true.
Proof.
  intros Hr. unfold op_set_reference, guard. destruct (_ && _); [|discriminate]. rewrite Hr.
  destruct (same_shape s d d'); [reflexivity|discriminate].
Qed.

Lemma repoint_other x ps q : (forall i, q <> POut x i) -> repoint_pin x ps q = q.
Proof.
  intro H. destruct q as [i|m i|]; cbn; try reflexivity. destruct (Nat.eqb_spec m x) as [->|]; [|reflexivity].
  exfalso. apply (H i). reflexivity.
Qed.

(* ---- (b): one completed round of _make_instance_unique ---- *)
Section RoundU.
  Variables (x : xstate) (inst d : id).
  Let s := st x.
  Hypotheses (U : UF s) (Ei : iref s inst = Some d) (Hinst : inst < next s) (Hleaf : is_leaf_def s d = false).

  Theorem round_unfold x' : make_instance_unique x inst = (x', None) ->
    forall f e, e < next s -> unfold f (st x') e = unfold f s e.
  Proof.
    intro E. pose proof U as [I [T [F [FT0 K]]]]. pose proof (inv_a _ I) as I1.
    pose proof (ref_lt _ _ _ K F Ei) as Hd.
    unfold make_instance_unique in E. fold s in E. rewrite Ei in E.
    destruct (par s RDefs d) as [lib|] eqn:Ep; [|discriminate].
    assert (Hkd : kind_of s d = Some KDefinition).
    { apply (i1_kids _ I1) in Ep. apply (T RDefs lib d Ep). }
    assert (Hc : snd (fst (clone_definition s d)) = None).
    { revert E. destruct (clone_definition s d) as [[s1 [ex|]] dd]; cbn [liftR fst snd]; [discriminate|reflexivity]. }
    (* the facts about the clone *)
    pose proof (clone_local s d U Hd Hkd Hc) as LOC.
    pose proof (clone_old_kids s d U Hd Hc) as OK1.
    pose proof (clone_old_iref s d U Hd Hc) as OI1.
    pose proof (clone_old_wpins s d U Hd Hkd Hc) as OW1.
    pose proof (clone_definition_old_attrs s d U Hd Hkd Hc) as OA1.
    pose proof (clone_definition_struct_m s d U Hd Hkd Hc) as S.
    pose proof (clone_next s d U Hd Hc) as Hn1.
    assert (U1 : UF (fst (fst (clone_definition s d)))).
    { apply uf_clone_definition; [exact U|unfold is_kind; rewrite Hkd; reflexivity|exact Hc]. }
    pose proof (clone_definition_id s d) as Hid.
    revert E. destruct (clone_definition s d) as [[s1 e1] dd]. cbn [fst snd] in *. subst e1 dd. cbn [liftR]. intro E.
    set (d' := next s) in *. set (x1 := mkX s1 (uniq_ctr x) (flat_ctr x)) in E.
    set (named := rename_block x1 lib d d') in E.
    assert (Hn : XPost (fun s' => usame d' s1 s' /\ UF s') named).
    { unfold XPost. destruct named as [x5 e] eqn:Eb. cbn [fst snd]. intros ->.
      apply (rename_block_post (fun s' => usame d' s1 s' /\ UF s') x1 lib d d' x5); [split; [apply us_refl|exact U1]| |exact Eb].
      intros s0 k0 v0 Hk0 [Q0 U0] _.
      split; [eapply us_trans; [exact Q0|apply us_dict_set_name; destruct Hk0 as [->| ->]; reflexivity]|apply (uf_struct _ _ (se_dict_set _ _ _ _) U0)]. }
    destruct named as [x5 [e|]]; [discriminate|]. destruct (Hn eq_refl) as [Q5 U5]. cbn [fst st] in Q5, U5. clear Hn.
    set (pos := Some (Datatypes.S (index_of d (kids s RDefs lib)))) in E.
    pose proof (us_op_add_rdefs d' (st x5) lib d' pos) as Q35.
    pose proof (uf_step (st x5) (OAdd RDefs lib d' pos) U5) as U3. cbn [step] in U3.
    destruct (op_add (st x5) RDefs lib d' pos) as [s3 [e|]]; cbn [liftR fst] in *; [discriminate|].
    pose proof (us_trans _ _ _ _ Q5 Q35) as Q3. clear Q5 Q35.
    cbn [st] in E.
    assert (Hr3 : iref s3 inst = Some d) by (rewrite (us_iref _ _ _ Q3), (OI1 inst Hinst); exact Ei).
    pose proof (set_reference_shape s3 inst d d' Hr3) as Hshape.
    pose proof (repoint_spec s3 inst d d' (proj1 U3) Hr3) as RS.
    pose proof (fw_op_set_reference_but_iref s3 inst (@Some id d')) as FW. cbn zeta in FW.
    pose proof (op_set_reference_value s3 inst d') as HV.
    pose proof (qs_op_set_reference s3 inst (@Some id d')) as [Q4 _].
    change (@Some nat d') with (@Some id d') in *.
    destruct (op_set_reference s3 inst (@Some id d')) as [s4 [e|]]; cbn [liftR fst snd] in *; [discriminate|].
    injection E as <-. cbn [st].
    specialize (Hshape eq_refl). destruct (RS Hshape eq_refl) as [_ [_ RW]]. clear RS. specialize (HV eq_refl).
    destruct FW as [K43 [_ [_ [_ I43]]]].
    destruct U3 as [I3 [T3 [F3 [FT3 K3]]]]. pose proof (inv_a _ I3) as I13.
    destruct U1 as [I1' [T1 [F1 [FT1 K1]]]]. pose proof (inv_a _ I1') as I11.
    (* global agreements of the final state with the state after the clone *)
    assert (K41 : forall r, r <> RDefs -> kids s4 r = kids s1 r) by (intros r Hr; rewrite K43; apply (us_kids _ _ _ Q3 r Hr)).
    assert (UD41 : forall y, y <> d' -> udata s4 y = udata s1 y).
    { intros y Hy. unfold udata at 1. rewrite (attrs_data _ _ _ (Q4 y)). apply (us_udata _ _ _ Q3 y Hy). }
    assert (FL41 : forall y, bflags s4 y = bflags s1 y) by (intro y; rewrite (attrs_flags _ _ _ (Q4 y)); apply (us_flags _ _ _ Q3)).
    assert (I41 : forall y, y <> inst -> iref s4 y = iref s1 y) by (intros y Hy; rewrite (I43 y Hy), (us_iref _ _ _ Q3); reflexivity).
    assert (PP41 : forall r, port_pins s4 r = port_pins s1 r).
    { intro r. unfold port_pins. rewrite !K41 by discriminate. reflexivity. }
    assert (PPold : forall r, r < next s -> port_pins s1 r = port_pins s r).
    { intros r Hr. unfold port_pins. rewrite (OK1 RPorts r Hr). apply flat_map_ext_in. intros p Hp. apply OK1. apply (kids_lt s RPorts r p F I1 Hp). }
    assert (Hclosed : forall r y c, y < next s -> In c (kids s r y) -> c < next s) by (intros r y c _ Hcin; apply (kids_lt s r y c F I1 Hcin)).
    assert (Hrefs : forall y r, y < next s -> iref s y = Some r -> r < next s) by (intros y r _ Hr; apply (ref_lt s y r K F Hr)).
    assert (Hkids : forall r y, r <> RDefs -> r <> RLibs -> y < next s -> kids s4 r y = kids s r y).
    { intros r y Hr _ Hy. rewrite (K41 r Hr). apply OK1. exact Hy. }
    assert (Hiref : forall y, y < next s -> y <> inst -> iref s4 y = iref s y) by (intros y Hy Hne; rewrite (I41 y Hne); apply OI1; exact Hy).
    assert (Wold : forall w, w < next s -> wpins s4 w = map (repoint_pin inst (pin_pairs s3 d d')) (wpins s w)).
    { intros w Hw. rewrite RW, (us_wpins _ _ _ Q3), (OW1 w Hw). reflexivity. }
    (* pin pairs of the re-pointing: same positions *)
    destruct (pin_pairs_spec s3 d d' Hshape) as [PF PS].
    assert (PP3d : port_pins s3 d = port_pins s d).
    { rewrite <- (PPold d Hd). unfold port_pins. rewrite !(us_kids _ _ _ Q3) by discriminate. reflexivity. }
    assert (PP3d' : port_pins s3 d' = port_pins s4 d') by (unfold port_pins; rewrite K43; reflexivity).
    assert (Hud : forall y, y < next s -> udata s4 y = udata s y /\ bflags s4 y = bflags s y).
    { intros y Hy. split.
      - rewrite (UD41 y ltac:(unfold d'; lia)). unfold udata. rewrite (attrs_data _ _ _ (OA1 y Hy)). reflexivity.
      - rewrite FL41. apply (attrs_flags _ _ _ (OA1 y Hy)). }
    assert (Hwires : forall e w, e < next s -> w < next s -> wire_info s4 e w = wire_info s e w).
    { (* wires of old definitions *)
      intros e0 w He0 Hw. unfold wire_info. rewrite (Wold w Hw), map_map. apply map_ext_in. intros q Hq.
      assert (Hother : forall q0, (forall x0 i0, q0 = POut x0 i0 -> x0 < next s /\ iref s4 x0 = iref s x0) -> desig_of s4 e0 q0 = desig_of s e0 q0).
      { intros q0 H0. apply (desig_old s s4 (next s) e0 q0 Hkids Hclosed Hrefs He0 H0). }
      destruct q as [i|x0 i|]; [rewrite repoint_other by discriminate; apply Hother; discriminate| |rewrite repoint_other by discriminate; apply Hother; discriminate].
      pose proof (wire_pin_old s U w x0 i Hq) as Hx0.
      destruct (Nat.eq_dec x0 inst) as [->|Hne].
      + cbn [repoint_pin]. rewrite Nat.eqb_refl.
        assert (Hkey : In i (map fst (pin_pairs s3 d d'))).
        { rewrite PF, PP3d. apply (keys_port_pins s inst d i I1 (inv_k _ I) Ei). unfold keys. apply assoc_In_fst.
          apply (p_pins _ (inv_p _ I)) in Hq. cbn in Hq. destruct (assoc i (ipins s inst)) as [ow|]; [exists ow; reflexivity|discriminate]. }
        apply assoc_In_fst in Hkey as [i' Hi']. rewrite Hi'. cbn [desig_of]. rewrite HV, Ei.
        rewrite (Hkids RChildren e0 ltac:(discriminate) ltac:(discriminate) He0). f_equal.
        rewrite <- PP3d', <- PP3d, <- PS, <- PF. symmetry. apply pos_of_pairs; [rewrite PF|rewrite PS|exact Hi']; apply (port_pins_nodup s3 _ I13).
      + rewrite repoint_other by (intros i0 H0; injection H0 as H0 _; contradiction).
        apply Hother. intros x1' i1 H1. injection H1 as <- <-. split; [exact Hx0|apply Hiref; assumption].
    }
    assert (Hcopy : forall f, (forall e, e < next s -> unfold f s4 e = unfold f s e) -> unfold (Datatypes.S f) s4 d' = unfold (Datatypes.S f) s d).
    { (* the copy *)
      intros f0 IH. destruct LOC as [L1 L2 L3 L4]. symmetry.
      assert (Hmem : forall r c, In c (kids s1 r d') -> c <> d').
      { intros r c Hcin ->. apply (i1_kids _ I11) in Hcin. rewrite (ds_detached _ _ _ _ _ S r) in Hcin. discriminate. }
      assert (Hnewge : forall a b, In (a, b) (clone_memo s d) -> b <> inst).
      { intros a b Hab ->. destruct (ds_rng _ _ _ _ _ S a inst Hab) as [_ [H _]]. lia. }
      apply unfold_local.
      + unfold leaf_name. rewrite Hleaf. rewrite leaf_len, !K41 by discriminate. rewrite <- leaf_len, L1, Hleaf. reflexivity.
      + rewrite <- L2, (K41 RPorts ltac:(discriminate)). apply map_ext_in. intros p Hp. unfold port_info.
        rewrite (UD41 p (Hmem _ _ Hp)), FL41, (K41 RPins ltac:(discriminate)). reflexivity.
      + rewrite <- L3, (K41 RCables ltac:(discriminate)). apply map_ext_in. intros c Hcin. unfold cable_info.
        rewrite (UD41 c (Hmem _ _ Hcin)), FL41, (K41 RWires ltac:(discriminate)). f_equal. apply map_ext_in. intros w Hw.
        (* the pins listed by a wire of the copy are copies: none is an outer pin of inst *)
        destruct (Forall2_in_r _ _ _ c (ds_cables _ _ _ _ _ S) Hcin) as [c0 [Hc0 Hic]].
        pose proof (proj1 (T RCables d c0 Hc0)) as Hkc0. cbn in Hkc0.
        destruct (Forall2_in_r _ _ _ w (ds_wires _ _ _ _ _ S c0 c Hic Hkc0) Hw) as [w0 [Hw0 Hiw]].
        pose proof (proj1 (T RWires c0 w0 Hw0)) as Hkw0. cbn in Hkw0.
        pose proof (ds_wpins _ _ _ _ _ S w0 w Hiw Hkw0) as Hwp.
        unfold wire_info. rewrite RW, (us_wpins _ _ _ Q3), map_map. apply map_ext_in. intros q Hq.
        destruct (map_opt_in _ _ _ Hwp q Hq) as [q0 [_ Hq0]].
        assert (Hforeign : forall i0, q <> POut inst i0).
        { intros i0 ->. destruct q0 as [i1|x1' i1|]; cbn [mpin] in Hq0; [destruct (mget (clone_memo s d) i1); discriminate| |discriminate].
          destruct (mget (clone_memo s d) x1') as [x2|] eqn:Ex; [|discriminate]. destruct (assoc i1 (ipins s x1')); [|discriminate].
          injection Hq0 as -> _. apply (Hnewge x1' inst (mget_in _ _ _ Ex)). reflexivity. }
        rewrite (repoint_other inst _ q Hforeign).
        destruct q as [i0|x0 i0|]; cbn [desig_of]; [rewrite PP41; reflexivity| |reflexivity].
        rewrite (K41 RChildren ltac:(discriminate)), (I41 x0 ltac:(intros ->; apply (Hforeign i0); reflexivity)).
        destruct (iref s1 x0); [rewrite PP41|]; reflexivity.
      + rewrite (K41 RChildren ltac:(discriminate)). refine (Forall2_impl_in _ _ _ _ _ L4). intros c c' Hcin Hc' [A B].
        destruct (Forall2_in_r _ _ _ c' (ds_children _ _ _ _ _ S) Hc') as [a [_ Ha]].
        split; [rewrite (UD41 c' (Hmem _ _ Hc')), A; reflexivity|].
        rewrite (I41 c' (Hnewge a c' Ha)), B. destruct (iref s c) as [r|] eqn:Er; [|reflexivity]. cbn.
        rewrite (IH r (ref_lt s c r K F Er)). reflexivity. }
    intros f e0 He0.
    apply (proj1 (frame_unfold s s4 (next s) inst d d' Hclosed Hrefs Hkids Hud Hwires Hiref (fun _ => conj Ei HV) Hcopy f) e0 He0).
  Qed.
End RoundU.

(* ---- (c): the whole walk ---- *)
Lemma loop_unfold : forall fuel x Q x',
  UF (st x) -> (forall i, In i Q -> i < next (st x)) -> uniq_loop fuel x Q = (x', None) ->
  UF (st x') /\ next (st x) <= next (st x') /\ forall f e, e < next (st x) -> unfold f (st x') e = unfold f (st x) e.
Proof.
  induction fuel as [|fu IH]; intros x Q x' U HQ E; destruct Q as [|j rest]; cbn [uniq_loop] in E; try discriminate.
  - injection E as <-. split; [exact U|]. split; [apply Nat.le_refl|reflexivity].
  - injection E as <-. split; [exact U|]. split; [apply Nat.le_refl|reflexivity].
  - destruct (inst_unique (st x) j) as [u|] eqn:Hu; [|discriminate].
    pose proof U as [I [T [F [FT0 K]]]]. pose proof (inv_a _ I) as I1.
    pose proof (HQ j (or_introl eq_refl)) as Hj.
    destruct u.
    + destruct (iref (st x) j) as [d|] eqn:Hr; [|discriminate].
      apply (IH x (rest ++ kids (st x) RChildren d) x' U); [|exact E].
      intros i Hi. apply in_app_or in Hi as [Hi|Hi]; [apply HQ; right; exact Hi|apply (kids_lt _ _ _ _ F I1 Hi)].
    + destruct (iref (st x) j) as [d|] eqn:Hr.
      2:{ unfold make_instance_unique in E. rewrite Hr in E. discriminate. }
      assert (Hleaf : is_leaf_def (st x) d = false).
      { unfold inst_unique in Hu. rewrite Hr in Hu. injection Hu as Hu. apply orb_false_iff in Hu. apply Hu. }
      pose proof (round_spec (st x) j d x eq_refl U Hr Hj) as HR.
      pose proof (round_unfold x j d U Hr Hj Hleaf) as HU.
      destruct (make_instance_unique x j) as [x1 [e|]] eqn:Em; [discriminate|].
      assert (Q1 : QB (st x) j d (st x1)) by (apply HR; reflexivity).
      specialize (HU x1 eq_refl).
      pose proof (qb_uf _ _ _ _ Q1) as U1. pose proof (qb_next _ _ _ _ Q1) as Hn1.
      destruct (iref (st x1) j) as [d1|] eqn:Hr1; [|discriminate].
      pose proof U1 as [I' [T' [F' [FT' K']]]]. pose proof (inv_a _ I') as I1'.
      destruct (IH x1 (rest ++ kids (st x1) RChildren d1) x') as [U2 [N2 H2]]; [exact U1| |exact E|].
      * intros i Hi. apply in_app_or in Hi as [Hi|Hi]; [pose proof (HQ i (or_intror Hi)); lia|apply (kids_lt _ _ _ _ F' I1' Hi)].
      * split; [exact U2|]. split; [lia|]. intros f e He. rewrite (H2 f e ltac:(lia)). apply HU. exact He.
Qed.

(* a completed uniquify leaves the unfolding of every definition that existed before - in particular of
   the top definition - unchanged, for any fuel of the walk and any depth of the unfolding *)
Theorem uniquify_same_unfold fuel x n x' :
  UF (st x) -> uniquify fuel x n = (x', None) ->
  forall f e, e < next (st x) -> unfold f (st x') e = unfold f (st x) e.
Proof.
  intros U E. unfold uniquify in E. destruct (top (st x) n) as [t|]; [|discriminate].
  destruct (iref (st x) t) as [dtop|] eqn:Hr; [|discriminate].
  pose proof U as [I [T [F [FT0 K]]]].
  destruct (loop_unfold fuel x (kids (st x) RChildren dtop) x' U) as [_ [_ H]]; [|exact E|exact H].
  intros i Hi. apply (kids_lt _ _ _ _ F (inv_a _ I) Hi).
Qed.

Theorem uniquify_same_unfold_top fuel x n x' t dtop :
  UF (st x) -> top (st x) n = Some t -> iref (st x) t = Some dtop -> uniquify fuel x n = (x', None) ->
  forall f, unfold f (st x') dtop = unfold f (st x) dtop.
Proof.
  intros U Ht Hr E f. apply (uniquify_same_unfold fuel x n x' U E). destruct U as [I [T [F [FT0 K]]]]. apply (ref_lt _ _ _ K F Hr).
Qed.
