(* C01 / C02 / C07 over histories that mix editing calls with clone() of ANY element, uniquify and
   flatten: the closed invariant G = the structural invariant of the editing API together with every
   fact the proofs about the transformations need of their start state. G holds in the empty store
   and is kept by every public editing call (accepted or refused), every completed clone() of a
   netlist (whose instances reference definitions of the netlist), library, definition, port, cable,
   wire, pin or instance, every completed uniquify run and every completed flatten run. *)
From Coq Require Import List Arith Bool Lia.
From RecordUpdate Require Import RecordSet.
From SV Require Import Base.Base IR.State IR.NS IR.Ops Xform.Clone Xform.Strs Xform.Xform Proofs.Frame Proofs.Inv1a Proofs.Inv2a
  Proofs.InvP Proofs.InvW Proofs.C01_full Proofs.Fresh Proofs.NsInv Proofs.RefK Proofs.FieldT Proofs.XformInv Proofs.CloneInv
  Proofs.CloneRef Proofs.CloneT Proofs.CloneFull Proofs.XHistory Proofs.CloneFrame Proofs.CloneStart Proofs.KindD
  Proofs.CloneNetInv Proofs.CloneAux Proofs.CloneAuxLib.
From SV Require Import Proofs.UniqFresh.
Import ListNotations RecordSetNotations.

Definition G (s : state) : Prop := UF s /\ FreshT s /\ RefD s /\ TopK s.

Lemma g_gg s : G s <-> GG s.
Proof. split; intro H; exact H. Qed.

Lemma aux_tq_dq s s' : tq s s' -> dq s s' -> Aux s -> Aux s'.
Proof. intros T D [A [B C]]. split; [apply (fresht_tq s s' T A)|split; [apply (refd_dq s s' D B)|apply (topk_dq s s' D C)]]. Qed.

Lemma g_init : G init.
Proof. split; [apply uf_init|]. split; [apply fresht_init|]. split; intros x d H; discriminate. Qed.

(* every public editing call, accepted or refused *)
Theorem g_step s o : G s -> G (fst (step s o)).
Proof.
  intros [U [A [B C]]]. pose proof U as [_ [_ [F _]]]. split; [apply uf_step; exact U|].
  split; [apply step_fresht; assumption|]. pose proof (step_dq s o F) as Q. split; [apply (refd_dq s _ Q B)|apply (topk_dq s _ Q C)].
Qed.

Lemma g_struct s s' : struct_eq s s' -> G s -> G s'.
Proof. intros H [U AX]. split; [apply (uf_struct s s' H U)|apply (aux_tq_dq s s' (tq_struct _ _ H) (dq_struct _ _ H) AX)]. Qed.

(* a completed flatten *)
Theorem g_flatten fuel x n x' : G (st x) -> flatten fuel x n = (x', None) -> G (st x').
Proof.
  intros U E. pose proof (flatten_preserves G (fun s o Hs _ => g_step s o Hs) g_struct fuel x n U) as H.
  rewrite E in H. apply H. unfold not_stuck. cbn. discriminate.
Qed.

(* a completed uniquify *)
Definition UPG (r : XR) : Prop := snd r = None -> G (st (fst r)).

Lemma upg_liftR x (r : R) k :
  (snd r = None -> G (fst r)) -> (forall x', G (st x') -> UPG (k x')) -> UPG (liftR x r k).
Proof.
  intros Hr Hk. unfold liftR. destruct r as [s [e|]]; cbn in *; [intro H; discriminate|].
  apply Hk. cbn. apply Hr. reflexivity.
Qed.
Lemma upg_dict_set x e k v kk :
  G (st x) -> (forall x', G (st x') -> UPG (kk x')) -> UPG (liftR x (dict_set (st x) e k v) kk).
Proof. intros H Hk. apply upg_liftR; [|exact Hk]. intros _. eapply g_struct; [apply se_dict_set|exact H]. Qed.

Lemma g_op_add s r p c pos : G s -> G (fst (op_add s r p c pos)).
Proof.
  intros [[I5 [T5 [F5 [FT5 K5]]]] AX]. split; [|apply (aux_tq_dq s _ (tq_op_add _ _ _ _ _) (dq_op_add _ _ _ _ _) AX)].
  split; [apply (proj1 (step_inv s (OAdd r p c pos) I5))|].
  split; [exact (tstep_invt _ _ (tstep_op_add _ _ _ _ _) T5)|]. split; [apply fresh_op_add; exact F5|].
  split; [exact (ft_fq _ _ (fq_op_add _ _ _ _ _ (dk_of _ (inv_r _ I5) FT5)) FT5)|exact (refk_rq _ _ (rq_op_add _ _ _ _ _) K5)].
Qed.

Lemma g_op_set_reference s x v : G s -> G (fst (op_set_reference s x v)).
Proof.
  intros [[I6 [T6 [F6 [FT6 K6]]]] AX]. split; [|apply (aux_tq_dq s _ (tq_op_set_reference _ _ _) (dq_op_set_reference _ _ _) AX)].
  split; [apply (proj1 (op_set_reference_inv _ _ _ I6))|]. split; [exact (tstep_invt _ _ (tstep_op_set_reference _ _ _) T6)|].
  split; [apply fresh_op_set_reference; exact F6|]. split; [exact (ft_fq _ _ (fq_op_set_reference _ _ _) FT6)|exact (refk_rq _ _ (rq_op_set_reference _ _ _) K6)].
Qed.

Lemma upg_make_instance_unique x inst : G (st x) -> UPG (make_instance_unique x inst).
Proof.
  intros HG. pose proof HG as [[I [T [F [FT0 K]]]] AX]. unfold make_instance_unique.
  destruct (iref (st x) inst) as [d|] eqn:Ei; [|intro H; discriminate].
  destruct (par (st x) RDefs d) as [lib|] eqn:Ep; [|intro H; discriminate].
  assert (Hkd : kind_of (st x) d = Some KDefinition).
  { apply (i1_kids _ (inv_a _ I)) in Ep. apply (T RDefs lib d Ep). }
  pose proof (gg_clone_definition (st x) d HG Hkd) as HC.
  destruct (clone_definition (st x) d) as [r d']. cbn [fst snd] in *.
  apply upg_liftR; [exact HC|].
  intros x1 U1.
  set (named := rename_block x1 lib d d').
  assert (Hn : UPG named).
  { unfold UPG. destruct named as [x5 e] eqn:Eb. cbn [fst snd]. intros ->.
    apply (rename_block_post G x1 lib d d' x5 U1); [|exact Eb].
    intros s0 k0 v0 _ H0 _. eapply g_struct; [apply se_dict_set|exact H0]. }
  destruct named as [x5 [e|]]; [intro H; discriminate|].
  assert (U5 : G (st x5)) by (apply Hn; reflexivity).
  apply upg_liftR; [intros _; apply g_op_add; exact U5|].
  intros x6 U6. apply upg_liftR; [intros _; apply g_op_set_reference; exact U6|].
  intros x7 U7 _. exact U7.
Qed.

Lemma upg_uniq_loop : forall fuel x queue, G (st x) -> UPG (uniq_loop fuel x queue).
Proof.
  induction fuel as [|f IH]; intros x queue U; destruct queue as [|inst rest]; cbn [uniq_loop];
    try (intros _; exact U); try (intro H; discriminate).
  destruct (inst_unique (st x) inst) as [u|]; [|intro H; discriminate].
  match goal with |- context [if u then ?a else ?b] =>
    set (r := if u then a else b);
    assert (Hr : UPG r) by (unfold r; destruct u; [intros _; exact U|apply upg_make_instance_unique; exact U]);
    destruct r as [x1 [e|]]; [intro H; discriminate|] end.
  assert (U1 : G (st x1)) by (apply Hr; reflexivity).
  destruct (iref (st x1) inst) as [d|]; [|intro H; discriminate].
  apply IH. exact U1.
Qed.

Theorem g_uniquify fuel x n x' : G (st x) -> uniquify fuel x n = (x', None) -> G (st x').
Proof.
  intros U E. unfold uniquify in E.
  destruct (top (st x) n) as [t|]; [|discriminate]. destruct (iref (st x) t) as [d|]; [|discriminate].
  pose proof (upg_uniq_loop fuel x (kids (st x) RChildren d) U) as H. rewrite E in H. apply H. reflexivity.
Qed.

(* a completed clone() of any element *)
Theorem g_clone_any s e :
  G s -> (kind_of s e = Some KNetlist -> Closed s e) ->
  snd (fst (clone_any s e)) = None -> G (fst (fst (clone_any s e))).
Proof. exact (gg_clone_any s e). Qed.

(* ---- mixed histories ---- *)
Inductive yop :=
| YEdit (o : op)                       (* any public editing call, any outcome *)
| YClone (e : id)                      (* e.clone(), e of any kind *)
| YUniquify (fuel : nat) (n : id)      (* uniquify(netlist) *)
| YFlatten (fuel : nat) (n : id).      (* flatten(netlist) *)

(* the precondition of Netlist.clone: every instance of the netlist instantiates a definition of the netlist *)
Definition clone_pre (s : state) (e : id) : bool :=
  match kind_of s e with Some KNetlist => closedb s e | _ => true end.

(* None: the transformation did not complete (it raised, or the walk ran out of fuel), or the netlist to clone is not closed *)
Definition ystep (x : xstate) (o : yop) : option xstate :=
  match o with
  | YEdit e => Some (mkX (fst (step (st x) e)) (uniq_ctr x) (flat_ctr x))
  | YClone e =>
      if clone_pre (st x) e then
        match snd (fst (clone_any (st x) e)) with
        | None => Some (mkX (fst (fst (clone_any (st x) e))) (uniq_ctr x) (flat_ctr x))
        | Some _ => None
        end
      else None
  | YUniquify fuel n => match uniquify fuel x n with (x', None) => Some x' | _ => None end
  | YFlatten fuel n => match flatten fuel x n with (x', None) => Some x' | _ => None end
  end.

Fixpoint xrun_all (l : list yop) (x : xstate) : option xstate :=
  match l with
  | [] => Some x
  | o :: l' => match ystep x o with Some x1 => xrun_all l' x1 | None => None end
  end.

Lemma g_ystep x o x' : G (st x) -> ystep x o = Some x' -> G (st x').
Proof.
  intros U E. destruct o as [e|e|fuel n|fuel n]; cbn [ystep] in E.
  - injection E as <-. cbn. apply g_step. exact U.
  - destruct (clone_pre (st x) e) eqn:Hp; [|discriminate].
    destruct (snd (fst (clone_any (st x) e))) eqn:Hok; [discriminate|]. injection E as <-. cbn.
    apply g_clone_any; [exact U| |exact Hok]. intro Hk. unfold clone_pre in Hp. rewrite Hk in Hp. apply closedb_ok. exact Hp.
  - destruct (uniquify fuel x n) as [x1 [e|]] eqn:Eu; [discriminate|]. injection E as <-. apply (g_uniquify fuel x n x1 U Eu).
  - destruct (flatten fuel x n) as [x1 [e|]] eqn:Ef; [discriminate|]. injection E as <-. apply (g_flatten fuel x n x1 U Ef).
Qed.

Theorem xrun_all_g : forall l x x', G (st x) -> xrun_all l x = Some x' -> G (st x').
Proof.
  induction l as [|o l IH]; intros x x' U E; cbn [xrun_all] in E; [injection E as <-; exact U|].
  destruct (ystep x o) as [x1|] eqn:E1; [|discriminate]. apply (IH x1 x' (g_ystep x o x1 U E1) E).
Qed.

(* every mixed history that completes, from the empty store *)
Theorem xrun_all_inv l u f x' : xrun_all l (mkX init u f) = Some x' -> Inv (st x').
Proof. intro E. apply (xrun_all_g l (mkX init u f) x' g_init E). Qed.

Corollary xrun_all_inv1a l u f x' : xrun_all l (mkX init u f) = Some x' -> Inv1a (st x').
Proof. intro E. apply (inv_a _ (xrun_all_inv l u f x' E)). Qed.
Corollary xrun_all_inv2a l u f x' : xrun_all l (mkX init u f) = Some x' -> Inv2a (st x').
Proof. intro E. apply (inv_r _ (xrun_all_inv l u f x' E)). Qed.
Corollary xrun_all_invp l u f x' : xrun_all l (mkX init u f) = Some x' -> InvP (st x').
Proof. intro E. apply (inv_p _ (xrun_all_inv l u f x' E)). Qed.
Corollary xrun_all_invk l u f x' : xrun_all l (mkX init u f) = Some x' -> InvK (st x').
Proof. intro E. apply (inv_k _ (xrun_all_inv l u f x' E)). Qed.
Corollary xrun_all_invt l u f x' : xrun_all l (mkX init u f) = Some x' -> InvT (st x').
Proof. intro E. apply (xrun_all_g l (mkX init u f) x' g_init E). Qed.

(* the histories of XHistory.v are the histories without clones of the other seven kinds *)
Definition yop_of (o : xop) : yop :=
  match o with XEdit e => YEdit e | XCloneDef d => YClone d | XUniquify f n => YUniquify f n | XFlatten f n => YFlatten f n end.

Lemma ystep_of_xstep x o x' : xstep x o = Some x' -> ystep x (yop_of o) = Some x'.
Proof.
  destruct o as [e|d|fuel n|fuel n]; cbn [xstep yop_of ystep]; try (intro H; exact H).
  destruct (is_kind (st x) d KDefinition) eqn:Hk; [|discriminate]. apply is_kind_eq in Hk.
  unfold clone_pre, clone_any. rewrite Hk. intro H; exact H.
Qed.

Theorem xrun_all_of_xrun : forall l x x', xrun l x = Some x' -> xrun_all (map yop_of l) x = Some x'.
Proof.
  induction l as [|o l IH]; intros x x' E; cbn [xrun map xrun_all] in *; [exact E|].
  destruct (xstep x o) as [x1|] eqn:E1; [|discriminate]. rewrite (ystep_of_xstep x o x1 E1). apply IH. exact E.
Qed.

(* after a completed clone, any further mixed history keeps the whole store - the original and the copy - well-formed *)
Theorem clone_then_any_history l0 e l u f x0 x' :
  xrun_all l0 (mkX init u f) = Some x0 ->
  clone_pre (st x0) e = true -> snd (fst (clone_any (st x0) e)) = None ->
  xrun_all l (mkX (fst (fst (clone_any (st x0) e))) (uniq_ctr x0) (flat_ctr x0)) = Some x' ->
  Inv (st x') /\ InvT (st x').
Proof.
  intros E0 Hp Hok E.
  assert (E1 : xrun_all (l0 ++ YClone e :: l) (mkX init u f) = Some x').
  { revert E0. generalize (mkX init u f). induction l0 as [|o l0 IH]; intros x E0; cbn [xrun_all app] in *.
    - injection E0 as ->. cbn [ystep]. rewrite Hp, Hok. exact E.
    - destruct (ystep x o) as [x1|]; [apply IH; exact E0|discriminate]. }
  split; [apply (xrun_all_inv _ u f x' E1)|apply (xrun_all_invt _ u f x' E1)].
Qed.

(* clone() of any element in any state reached by a mixed history *)
Theorem clone_any_after_history l u f x e :
  xrun_all l (mkX init u f) = Some x -> (kind_of (st x) e = Some KNetlist -> Closed (st x) e) ->
  snd (fst (clone_any (st x) e)) = None -> Inv (fst (fst (clone_any (st x) e))).
Proof. intros E Hcl Hok. apply (g_clone_any (st x) e (xrun_all_g l (mkX init u f) x g_init E) Hcl Hok). Qed.
