(* Concrete netlist values used by the examples and refutation lemmas of Props/C20.v.
   Every value below is the canonical value (harness/cmp_canon.py) of a real spydrnet netlist
   built by a case of corpus/cmp/ (field "coq_witness" names the two values of the pair);
   harness/cmp_check.py re-derives the terms from the real objects on every run and checks
   "w = <term>" by reflexivity, and replays the pair on the real Comparer. *)
From Coq Require Import String List Arith NArith ZArith Bool.
From SV Require Import Base.Base Cmp.Comparer Cmp.Diff.
Import ListNotations.
Local Open Scope string_scope.

Definition w_base : nv :=
  (mknv (Some (s2l "n")) None (Some (mkinst (Some (s2l "top")) None (Some ((Some (s2l "top")), (Some (s2l "work")))) None)) [(mklib (Some (s2l "work")) None [(mkdefn (Some (s2l "LEAF")) None [(mkport (Some (s2l "a")) None DIn false 1 (0)%Z); (mkport (Some (s2l "b")) None DOut true 2 (0)%Z)] [] []); (mkdefn (Some (s2l "LEAF2")) None [(mkport (Some (s2l "a")) None DIn false 1 (0)%Z); (mkport (Some (s2l "b")) None DOut true 2 (0)%Z)] [] []); (mkdefn (Some (s2l "top")) None [(mkport (Some (s2l "i")) None DIn false 1 (0)%Z)] [(mkcable (Some (s2l "c")) None [[(PIn (Some (s2l "i")) 0); (POut (Some (s2l "u0")) (Some (s2l "a")) 0)]]); (mkcable (Some (s2l "k")) None [[(POut (Some (s2l "u0")) (Some (s2l "b")) 0); (POut (Some (s2l "u1")) (Some (s2l "a")) 0)]; []])] [(mkinst (Some (s2l "u0")) None (Some ((Some (s2l "LEAF")), (Some (s2l "work")))) (Some [[((s2l "identifier"), (PStr (s2l "INIT"))); ((s2l "value"), (PStr (s2l "abc")))]])); (mkinst (Some (s2l "u1")) None (Some ((Some (s2l "LEAF")), (Some (s2l "work")))) None)])]); (mklib (Some (s2l "aux")) None [])]).

Definition w_port_dir : nv :=
  (mknv (Some (s2l "n")) None (Some (mkinst (Some (s2l "top")) None (Some ((Some (s2l "top")), (Some (s2l "work")))) None)) [(mklib (Some (s2l "work")) None [(mkdefn (Some (s2l "LEAF")) None [(mkport (Some (s2l "a")) None DOut false 1 (0)%Z); (mkport (Some (s2l "b")) None DOut true 2 (0)%Z)] [] []); (mkdefn (Some (s2l "LEAF2")) None [(mkport (Some (s2l "a")) None DIn false 1 (0)%Z); (mkport (Some (s2l "b")) None DOut true 2 (0)%Z)] [] []); (mkdefn (Some (s2l "top")) None [(mkport (Some (s2l "i")) None DIn false 1 (0)%Z)] [(mkcable (Some (s2l "c")) None [[(PIn (Some (s2l "i")) 0); (POut (Some (s2l "u0")) (Some (s2l "a")) 0)]]); (mkcable (Some (s2l "k")) None [[(POut (Some (s2l "u0")) (Some (s2l "b")) 0); (POut (Some (s2l "u1")) (Some (s2l "a")) 0)]; []])] [(mkinst (Some (s2l "u0")) None (Some ((Some (s2l "LEAF")), (Some (s2l "work")))) (Some [[((s2l "identifier"), (PStr (s2l "INIT"))); ((s2l "value"), (PStr (s2l "abc")))]])); (mkinst (Some (s2l "u1")) None (Some ((Some (s2l "LEAF")), (Some (s2l "work")))) None)])]); (mklib (Some (s2l "aux")) None [])]).

Definition w_port_width : nv :=
  (mknv (Some (s2l "n")) None (Some (mkinst (Some (s2l "top")) None (Some ((Some (s2l "top")), (Some (s2l "work")))) None)) [(mklib (Some (s2l "work")) None [(mkdefn (Some (s2l "LEAF")) None [(mkport (Some (s2l "a")) None DIn true 2 (0)%Z); (mkport (Some (s2l "b")) None DOut true 2 (0)%Z)] [] []); (mkdefn (Some (s2l "LEAF2")) None [(mkport (Some (s2l "a")) None DIn false 1 (0)%Z); (mkport (Some (s2l "b")) None DOut true 2 (0)%Z)] [] []); (mkdefn (Some (s2l "top")) None [(mkport (Some (s2l "i")) None DIn false 1 (0)%Z)] [(mkcable (Some (s2l "c")) None [[(PIn (Some (s2l "i")) 0); (POut (Some (s2l "u0")) (Some (s2l "a")) 0)]]); (mkcable (Some (s2l "k")) None [[(POut (Some (s2l "u0")) (Some (s2l "b")) 0); (POut (Some (s2l "u1")) (Some (s2l "a")) 0)]; []])] [(mkinst (Some (s2l "u0")) None (Some ((Some (s2l "LEAF")), (Some (s2l "work")))) (Some [[((s2l "identifier"), (PStr (s2l "INIT"))); ((s2l "value"), (PStr (s2l "abc")))]])); (mkinst (Some (s2l "u1")) None (Some ((Some (s2l "LEAF")), (Some (s2l "work")))) None)])]); (mklib (Some (s2l "aux")) None [])]).

Definition w_port_array : nv :=
  (mknv (Some (s2l "n")) None (Some (mkinst (Some (s2l "top")) None (Some ((Some (s2l "top")), (Some (s2l "work")))) None)) [(mklib (Some (s2l "work")) None [(mkdefn (Some (s2l "LEAF")) None [(mkport (Some (s2l "a")) None DIn true 1 (0)%Z); (mkport (Some (s2l "b")) None DOut true 2 (0)%Z)] [] []); (mkdefn (Some (s2l "LEAF2")) None [(mkport (Some (s2l "a")) None DIn false 1 (0)%Z); (mkport (Some (s2l "b")) None DOut true 2 (0)%Z)] [] []); (mkdefn (Some (s2l "top")) None [(mkport (Some (s2l "i")) None DIn false 1 (0)%Z)] [(mkcable (Some (s2l "c")) None [[(PIn (Some (s2l "i")) 0); (POut (Some (s2l "u0")) (Some (s2l "a")) 0)]]); (mkcable (Some (s2l "k")) None [[(POut (Some (s2l "u0")) (Some (s2l "b")) 0); (POut (Some (s2l "u1")) (Some (s2l "a")) 0)]; []])] [(mkinst (Some (s2l "u0")) None (Some ((Some (s2l "LEAF")), (Some (s2l "work")))) (Some [[((s2l "identifier"), (PStr (s2l "INIT"))); ((s2l "value"), (PStr (s2l "abc")))]])); (mkinst (Some (s2l "u1")) None (Some ((Some (s2l "LEAF")), (Some (s2l "work")))) None)])]); (mklib (Some (s2l "aux")) None [])]).

Definition w_cable_width : nv :=
  (mknv (Some (s2l "n")) None (Some (mkinst (Some (s2l "top")) None (Some ((Some (s2l "top")), (Some (s2l "work")))) None)) [(mklib (Some (s2l "work")) None [(mkdefn (Some (s2l "LEAF")) None [(mkport (Some (s2l "a")) None DIn false 1 (0)%Z); (mkport (Some (s2l "b")) None DOut true 2 (0)%Z)] [] []); (mkdefn (Some (s2l "LEAF2")) None [(mkport (Some (s2l "a")) None DIn false 1 (0)%Z); (mkport (Some (s2l "b")) None DOut true 2 (0)%Z)] [] []); (mkdefn (Some (s2l "top")) None [(mkport (Some (s2l "i")) None DIn false 1 (0)%Z)] [(mkcable (Some (s2l "c")) None [[(PIn (Some (s2l "i")) 0); (POut (Some (s2l "u0")) (Some (s2l "a")) 0)]; []]); (mkcable (Some (s2l "k")) None [[(POut (Some (s2l "u0")) (Some (s2l "b")) 0); (POut (Some (s2l "u1")) (Some (s2l "a")) 0)]; []])] [(mkinst (Some (s2l "u0")) None (Some ((Some (s2l "LEAF")), (Some (s2l "work")))) (Some [[((s2l "identifier"), (PStr (s2l "INIT"))); ((s2l "value"), (PStr (s2l "abc")))]])); (mkinst (Some (s2l "u1")) None (Some ((Some (s2l "LEAF")), (Some (s2l "work")))) None)])]); (mklib (Some (s2l "aux")) None [])]).

Definition w_conn_port : nv :=
  (mknv (Some (s2l "n")) None (Some (mkinst (Some (s2l "top")) None (Some ((Some (s2l "top")), (Some (s2l "work")))) None)) [(mklib (Some (s2l "work")) None [(mkdefn (Some (s2l "LEAF")) None [(mkport (Some (s2l "a")) None DIn false 1 (0)%Z); (mkport (Some (s2l "b")) None DOut true 2 (0)%Z)] [] []); (mkdefn (Some (s2l "LEAF2")) None [(mkport (Some (s2l "a")) None DIn false 1 (0)%Z); (mkport (Some (s2l "b")) None DOut true 2 (0)%Z)] [] []); (mkdefn (Some (s2l "top")) None [(mkport (Some (s2l "i")) None DIn false 1 (0)%Z)] [(mkcable (Some (s2l "c")) None [[(PIn (Some (s2l "i")) 0); (POut (Some (s2l "u0")) (Some (s2l "b")) 1)]]); (mkcable (Some (s2l "k")) None [[(POut (Some (s2l "u0")) (Some (s2l "b")) 0); (POut (Some (s2l "u1")) (Some (s2l "a")) 0)]; []])] [(mkinst (Some (s2l "u0")) None (Some ((Some (s2l "LEAF")), (Some (s2l "work")))) (Some [[((s2l "identifier"), (PStr (s2l "INIT"))); ((s2l "value"), (PStr (s2l "abc")))]])); (mkinst (Some (s2l "u1")) None (Some ((Some (s2l "LEAF")), (Some (s2l "work")))) None)])]); (mklib (Some (s2l "aux")) None [])]).

Definition w_conn_bit : nv :=
  (mknv (Some (s2l "n")) None (Some (mkinst (Some (s2l "top")) None (Some ((Some (s2l "top")), (Some (s2l "work")))) None)) [(mklib (Some (s2l "work")) None [(mkdefn (Some (s2l "LEAF")) None [(mkport (Some (s2l "a")) None DIn false 1 (0)%Z); (mkport (Some (s2l "b")) None DOut true 2 (0)%Z)] [] []); (mkdefn (Some (s2l "LEAF2")) None [(mkport (Some (s2l "a")) None DIn false 1 (0)%Z); (mkport (Some (s2l "b")) None DOut true 2 (0)%Z)] [] []); (mkdefn (Some (s2l "top")) None [(mkport (Some (s2l "i")) None DIn false 1 (0)%Z)] [(mkcable (Some (s2l "c")) None [[(PIn (Some (s2l "i")) 0); (POut (Some (s2l "u0")) (Some (s2l "a")) 0)]]); (mkcable (Some (s2l "k")) None [[(POut (Some (s2l "u0")) (Some (s2l "b")) 1); (POut (Some (s2l "u1")) (Some (s2l "a")) 0)]; []])] [(mkinst (Some (s2l "u0")) None (Some ((Some (s2l "LEAF")), (Some (s2l "work")))) (Some [[((s2l "identifier"), (PStr (s2l "INIT"))); ((s2l "value"), (PStr (s2l "abc")))]])); (mkinst (Some (s2l "u1")) None (Some ((Some (s2l "LEAF")), (Some (s2l "work")))) None)])]); (mklib (Some (s2l "aux")) None [])]).

Definition w_conn_inst : nv :=
  (mknv (Some (s2l "n")) None (Some (mkinst (Some (s2l "top")) None (Some ((Some (s2l "top")), (Some (s2l "work")))) None)) [(mklib (Some (s2l "work")) None [(mkdefn (Some (s2l "LEAF")) None [(mkport (Some (s2l "a")) None DIn false 1 (0)%Z); (mkport (Some (s2l "b")) None DOut true 2 (0)%Z)] [] []); (mkdefn (Some (s2l "LEAF2")) None [(mkport (Some (s2l "a")) None DIn false 1 (0)%Z); (mkport (Some (s2l "b")) None DOut true 2 (0)%Z)] [] []); (mkdefn (Some (s2l "top")) None [(mkport (Some (s2l "i")) None DIn false 1 (0)%Z)] [(mkcable (Some (s2l "c")) None [[(PIn (Some (s2l "i")) 0); (POut (Some (s2l "u1")) (Some (s2l "b")) 0)]]); (mkcable (Some (s2l "k")) None [[(POut (Some (s2l "u0")) (Some (s2l "b")) 0); (POut (Some (s2l "u1")) (Some (s2l "a")) 0)]; []])] [(mkinst (Some (s2l "u0")) None (Some ((Some (s2l "LEAF")), (Some (s2l "work")))) (Some [[((s2l "identifier"), (PStr (s2l "INIT"))); ((s2l "value"), (PStr (s2l "abc")))]])); (mkinst (Some (s2l "u1")) None (Some ((Some (s2l "LEAF")), (Some (s2l "work")))) None)])]); (mklib (Some (s2l "aux")) None [])]).

Definition w_inst_ref : nv :=
  (mknv (Some (s2l "n")) None (Some (mkinst (Some (s2l "top")) None (Some ((Some (s2l "top")), (Some (s2l "work")))) None)) [(mklib (Some (s2l "work")) None [(mkdefn (Some (s2l "LEAF")) None [(mkport (Some (s2l "a")) None DIn false 1 (0)%Z); (mkport (Some (s2l "b")) None DOut true 2 (0)%Z)] [] []); (mkdefn (Some (s2l "LEAF2")) None [(mkport (Some (s2l "a")) None DIn false 1 (0)%Z); (mkport (Some (s2l "b")) None DOut true 2 (0)%Z)] [] []); (mkdefn (Some (s2l "top")) None [(mkport (Some (s2l "i")) None DIn false 1 (0)%Z)] [(mkcable (Some (s2l "c")) None [[(PIn (Some (s2l "i")) 0); (POut (Some (s2l "u0")) (Some (s2l "a")) 0)]]); (mkcable (Some (s2l "k")) None [[(POut (Some (s2l "u0")) (Some (s2l "b")) 0); (POut (Some (s2l "u1")) (Some (s2l "a")) 0)]; []])] [(mkinst (Some (s2l "u0")) None (Some ((Some (s2l "LEAF")), (Some (s2l "work")))) (Some [[((s2l "identifier"), (PStr (s2l "INIT"))); ((s2l "value"), (PStr (s2l "abc")))]])); (mkinst (Some (s2l "u1")) None (Some ((Some (s2l "LEAF2")), (Some (s2l "work")))) None)])]); (mklib (Some (s2l "aux")) None [])]).

Definition w_prop_value : nv :=
  (mknv (Some (s2l "n")) None (Some (mkinst (Some (s2l "top")) None (Some ((Some (s2l "top")), (Some (s2l "work")))) None)) [(mklib (Some (s2l "work")) None [(mkdefn (Some (s2l "LEAF")) None [(mkport (Some (s2l "a")) None DIn false 1 (0)%Z); (mkport (Some (s2l "b")) None DOut true 2 (0)%Z)] [] []); (mkdefn (Some (s2l "LEAF2")) None [(mkport (Some (s2l "a")) None DIn false 1 (0)%Z); (mkport (Some (s2l "b")) None DOut true 2 (0)%Z)] [] []); (mkdefn (Some (s2l "top")) None [(mkport (Some (s2l "i")) None DIn false 1 (0)%Z)] [(mkcable (Some (s2l "c")) None [[(PIn (Some (s2l "i")) 0); (POut (Some (s2l "u0")) (Some (s2l "a")) 0)]]); (mkcable (Some (s2l "k")) None [[(POut (Some (s2l "u0")) (Some (s2l "b")) 0); (POut (Some (s2l "u1")) (Some (s2l "a")) 0)]; []])] [(mkinst (Some (s2l "u0")) None (Some ((Some (s2l "LEAF")), (Some (s2l "work")))) (Some [[((s2l "identifier"), (PStr (s2l "INIT"))); ((s2l "value"), (PStr (s2l "abd")))]])); (mkinst (Some (s2l "u1")) None (Some ((Some (s2l "LEAF")), (Some (s2l "work")))) None)])]); (mklib (Some (s2l "aux")) None [])]).

Definition w_lib_drop : nv :=
  (mknv (Some (s2l "n")) None (Some (mkinst (Some (s2l "top")) None (Some ((Some (s2l "top")), (Some (s2l "work")))) None)) [(mklib (Some (s2l "work")) None [(mkdefn (Some (s2l "LEAF")) None [(mkport (Some (s2l "a")) None DIn false 1 (0)%Z); (mkport (Some (s2l "b")) None DOut true 2 (0)%Z)] [] []); (mkdefn (Some (s2l "LEAF2")) None [(mkport (Some (s2l "a")) None DIn false 1 (0)%Z); (mkport (Some (s2l "b")) None DOut true 2 (0)%Z)] [] []); (mkdefn (Some (s2l "top")) None [(mkport (Some (s2l "i")) None DIn false 1 (0)%Z)] [(mkcable (Some (s2l "c")) None [[(PIn (Some (s2l "i")) 0); (POut (Some (s2l "u0")) (Some (s2l "a")) 0)]]); (mkcable (Some (s2l "k")) None [[(POut (Some (s2l "u0")) (Some (s2l "b")) 0); (POut (Some (s2l "u1")) (Some (s2l "a")) 0)]; []])] [(mkinst (Some (s2l "u0")) None (Some ((Some (s2l "LEAF")), (Some (s2l "work")))) (Some [[((s2l "identifier"), (PStr (s2l "INIT"))); ((s2l "value"), (PStr (s2l "abc")))]])); (mkinst (Some (s2l "u1")) None (Some ((Some (s2l "LEAF")), (Some (s2l "work")))) None)])])]).

Definition w_inst_add : nv :=
  (mknv (Some (s2l "n")) None (Some (mkinst (Some (s2l "top")) None (Some ((Some (s2l "top")), (Some (s2l "work")))) None)) [(mklib (Some (s2l "work")) None [(mkdefn (Some (s2l "LEAF")) None [(mkport (Some (s2l "a")) None DIn false 1 (0)%Z); (mkport (Some (s2l "b")) None DOut true 2 (0)%Z)] [] []); (mkdefn (Some (s2l "LEAF2")) None [(mkport (Some (s2l "a")) None DIn false 1 (0)%Z); (mkport (Some (s2l "b")) None DOut true 2 (0)%Z)] [] []); (mkdefn (Some (s2l "top")) None [(mkport (Some (s2l "i")) None DIn false 1 (0)%Z)] [(mkcable (Some (s2l "c")) None [[(PIn (Some (s2l "i")) 0); (POut (Some (s2l "u0")) (Some (s2l "a")) 0)]]); (mkcable (Some (s2l "k")) None [[(POut (Some (s2l "u0")) (Some (s2l "b")) 0); (POut (Some (s2l "u1")) (Some (s2l "a")) 0)]; []])] [(mkinst (Some (s2l "u0")) None (Some ((Some (s2l "LEAF")), (Some (s2l "work")))) (Some [[((s2l "identifier"), (PStr (s2l "INIT"))); ((s2l "value"), (PStr (s2l "abc")))]])); (mkinst (Some (s2l "u1")) None (Some ((Some (s2l "LEAF")), (Some (s2l "work")))) None); (mkinst (Some (s2l "u9")) None (Some ((Some (s2l "LEAF")), (Some (s2l "work")))) None)])]); (mklib (Some (s2l "aux")) None [])]).

Definition w_def_add : nv :=
  (mknv (Some (s2l "n")) None (Some (mkinst (Some (s2l "top")) None (Some ((Some (s2l "top")), (Some (s2l "work")))) None)) [(mklib (Some (s2l "work")) None [(mkdefn (Some (s2l "LEAF")) None [(mkport (Some (s2l "a")) None DIn false 1 (0)%Z); (mkport (Some (s2l "b")) None DOut true 2 (0)%Z)] [] []); (mkdefn (Some (s2l "LEAF2")) None [(mkport (Some (s2l "a")) None DIn false 1 (0)%Z); (mkport (Some (s2l "b")) None DOut true 2 (0)%Z)] [] []); (mkdefn (Some (s2l "top")) None [(mkport (Some (s2l "i")) None DIn false 1 (0)%Z)] [(mkcable (Some (s2l "c")) None [[(PIn (Some (s2l "i")) 0); (POut (Some (s2l "u0")) (Some (s2l "a")) 0)]]); (mkcable (Some (s2l "k")) None [[(POut (Some (s2l "u0")) (Some (s2l "b")) 0); (POut (Some (s2l "u1")) (Some (s2l "a")) 0)]; []])] [(mkinst (Some (s2l "u0")) None (Some ((Some (s2l "LEAF")), (Some (s2l "work")))) (Some [[((s2l "identifier"), (PStr (s2l "INIT"))); ((s2l "value"), (PStr (s2l "abc")))]])); (mkinst (Some (s2l "u1")) None (Some ((Some (s2l "LEAF")), (Some (s2l "work")))) None)]); (mkdefn (Some (s2l "zz")) None [] [] [])]); (mklib (Some (s2l "aux")) None [])]).

Definition w_port_add : nv :=
  (mknv (Some (s2l "n")) None (Some (mkinst (Some (s2l "top")) None (Some ((Some (s2l "top")), (Some (s2l "work")))) None)) [(mklib (Some (s2l "work")) None [(mkdefn (Some (s2l "LEAF")) None [(mkport (Some (s2l "a")) None DIn false 1 (0)%Z); (mkport (Some (s2l "b")) None DOut true 2 (0)%Z)] [] []); (mkdefn (Some (s2l "LEAF2")) None [(mkport (Some (s2l "a")) None DIn false 1 (0)%Z); (mkport (Some (s2l "b")) None DOut true 2 (0)%Z); (mkport (Some (s2l "zz")) None DIn false 1 (0)%Z)] [] []); (mkdefn (Some (s2l "top")) None [(mkport (Some (s2l "i")) None DIn false 1 (0)%Z)] [(mkcable (Some (s2l "c")) None [[(PIn (Some (s2l "i")) 0); (POut (Some (s2l "u0")) (Some (s2l "a")) 0)]]); (mkcable (Some (s2l "k")) None [[(POut (Some (s2l "u0")) (Some (s2l "b")) 0); (POut (Some (s2l "u1")) (Some (s2l "a")) 0)]; []])] [(mkinst (Some (s2l "u0")) None (Some ((Some (s2l "LEAF")), (Some (s2l "work")))) (Some [[((s2l "identifier"), (PStr (s2l "INIT"))); ((s2l "value"), (PStr (s2l "abc")))]])); (mkinst (Some (s2l "u1")) None (Some ((Some (s2l "LEAF")), (Some (s2l "work")))) None)])]); (mklib (Some (s2l "aux")) None [])]).

Definition w_cable_add : nv :=
  (mknv (Some (s2l "n")) None (Some (mkinst (Some (s2l "top")) None (Some ((Some (s2l "top")), (Some (s2l "work")))) None)) [(mklib (Some (s2l "work")) None [(mkdefn (Some (s2l "LEAF")) None [(mkport (Some (s2l "a")) None DIn false 1 (0)%Z); (mkport (Some (s2l "b")) None DOut true 2 (0)%Z)] [] []); (mkdefn (Some (s2l "LEAF2")) None [(mkport (Some (s2l "a")) None DIn false 1 (0)%Z); (mkport (Some (s2l "b")) None DOut true 2 (0)%Z)] [] []); (mkdefn (Some (s2l "top")) None [(mkport (Some (s2l "i")) None DIn false 1 (0)%Z)] [(mkcable (Some (s2l "c")) None [[(PIn (Some (s2l "i")) 0); (POut (Some (s2l "u0")) (Some (s2l "a")) 0)]]); (mkcable (Some (s2l "k")) None [[(POut (Some (s2l "u0")) (Some (s2l "b")) 0); (POut (Some (s2l "u1")) (Some (s2l "a")) 0)]; []]); (mkcable (Some (s2l "zz")) None [[]])] [(mkinst (Some (s2l "u0")) None (Some ((Some (s2l "LEAF")), (Some (s2l "work")))) (Some [[((s2l "identifier"), (PStr (s2l "INIT"))); ((s2l "value"), (PStr (s2l "abc")))]])); (mkinst (Some (s2l "u1")) None (Some ((Some (s2l "LEAF")), (Some (s2l "work")))) None)])]); (mklib (Some (s2l "aux")) None [])]).

Definition w_prop_new : nv :=
  (mknv (Some (s2l "n")) None (Some (mkinst (Some (s2l "top")) None (Some ((Some (s2l "top")), (Some (s2l "work")))) None)) [(mklib (Some (s2l "work")) None [(mkdefn (Some (s2l "LEAF")) None [(mkport (Some (s2l "a")) None DIn false 1 (0)%Z); (mkport (Some (s2l "b")) None DOut true 2 (0)%Z)] [] []); (mkdefn (Some (s2l "LEAF2")) None [(mkport (Some (s2l "a")) None DIn false 1 (0)%Z); (mkport (Some (s2l "b")) None DOut true 2 (0)%Z)] [] []); (mkdefn (Some (s2l "top")) None [(mkport (Some (s2l "i")) None DIn false 1 (0)%Z)] [(mkcable (Some (s2l "c")) None [[(PIn (Some (s2l "i")) 0); (POut (Some (s2l "u0")) (Some (s2l "a")) 0)]]); (mkcable (Some (s2l "k")) None [[(POut (Some (s2l "u0")) (Some (s2l "b")) 0); (POut (Some (s2l "u1")) (Some (s2l "a")) 0)]; []])] [(mkinst (Some (s2l "u0")) None (Some ((Some (s2l "LEAF")), (Some (s2l "work")))) (Some [[((s2l "identifier"), (PStr (s2l "INIT"))); ((s2l "value"), (PStr (s2l "abc")))]])); (mkinst (Some (s2l "u1")) None (Some ((Some (s2l "LEAF")), (Some (s2l "work")))) (Some [[((s2l "identifier"), (PStr (s2l "NEW"))); ((s2l "value"), (PInt (1)%Z))]]))])]); (mklib (Some (s2l "aux")) None [])]).

Definition w_prop_entry : nv :=
  (mknv (Some (s2l "n")) None (Some (mkinst (Some (s2l "top")) None (Some ((Some (s2l "top")), (Some (s2l "work")))) None)) [(mklib (Some (s2l "work")) None [(mkdefn (Some (s2l "LEAF")) None [(mkport (Some (s2l "a")) None DIn false 1 (0)%Z); (mkport (Some (s2l "b")) None DOut true 2 (0)%Z)] [] []); (mkdefn (Some (s2l "LEAF2")) None [(mkport (Some (s2l "a")) None DIn false 1 (0)%Z); (mkport (Some (s2l "b")) None DOut true 2 (0)%Z)] [] []); (mkdefn (Some (s2l "top")) None [(mkport (Some (s2l "i")) None DIn false 1 (0)%Z)] [(mkcable (Some (s2l "c")) None [[(PIn (Some (s2l "i")) 0); (POut (Some (s2l "u0")) (Some (s2l "a")) 0)]]); (mkcable (Some (s2l "k")) None [[(POut (Some (s2l "u0")) (Some (s2l "b")) 0); (POut (Some (s2l "u1")) (Some (s2l "a")) 0)]; []])] [(mkinst (Some (s2l "u0")) None (Some ((Some (s2l "LEAF")), (Some (s2l "work")))) (Some [[((s2l "identifier"), (PStr (s2l "INIT"))); ((s2l "value"), (PStr (s2l "abc")))]; [((s2l "identifier"), (PStr (s2l "EXTRA"))); ((s2l "value"), (PInt (5)%Z))]])); (mkinst (Some (s2l "u1")) None (Some ((Some (s2l "LEAF")), (Some (s2l "work")))) None)])]); (mklib (Some (s2l "aux")) None [])]).

Definition w_prop_dropped : nv :=
  (mknv (Some (s2l "n")) None (Some (mkinst (Some (s2l "top")) None (Some ((Some (s2l "top")), (Some (s2l "work")))) None)) [(mklib (Some (s2l "work")) None [(mkdefn (Some (s2l "LEAF")) None [(mkport (Some (s2l "a")) None DIn false 1 (0)%Z); (mkport (Some (s2l "b")) None DOut true 2 (0)%Z)] [] []); (mkdefn (Some (s2l "LEAF2")) None [(mkport (Some (s2l "a")) None DIn false 1 (0)%Z); (mkport (Some (s2l "b")) None DOut true 2 (0)%Z)] [] []); (mkdefn (Some (s2l "top")) None [(mkport (Some (s2l "i")) None DIn false 1 (0)%Z)] [(mkcable (Some (s2l "c")) None [[(PIn (Some (s2l "i")) 0); (POut (Some (s2l "u0")) (Some (s2l "a")) 0)]]); (mkcable (Some (s2l "k")) None [[(POut (Some (s2l "u0")) (Some (s2l "b")) 0); (POut (Some (s2l "u1")) (Some (s2l "a")) 0)]; []])] [(mkinst (Some (s2l "u0")) None (Some ((Some (s2l "LEAF")), (Some (s2l "work")))) (Some [[((s2l "identifier"), (PStr (s2l "INIT")))]])); (mkinst (Some (s2l "u1")) None (Some ((Some (s2l "LEAF")), (Some (s2l "work")))) None)])]); (mklib (Some (s2l "aux")) None [])]).

Definition w_renamed : nv :=
  (mknv (Some (s2l "n")) None (Some (mkinst (Some (s2l "top")) None (Some ((Some (s2l "top")), (Some (s2l "work")))) None)) [(mklib (Some (s2l "work")) None [(mkdefn (Some (s2l "LEAF")) None [(mkport (Some (s2l "zz")) None DIn false 1 (0)%Z); (mkport (Some (s2l "b")) None DOut true 2 (0)%Z)] [] []); (mkdefn (Some (s2l "LEAF2")) None [(mkport (Some (s2l "a")) None DIn false 1 (0)%Z); (mkport (Some (s2l "b")) None DOut true 2 (0)%Z)] [] []); (mkdefn (Some (s2l "top")) None [(mkport (Some (s2l "i")) None DIn false 1 (0)%Z)] [(mkcable (Some (s2l "c")) None [[(PIn (Some (s2l "i")) 0); (POut (Some (s2l "u0")) (Some (s2l "zz")) 0)]]); (mkcable (Some (s2l "k")) None [[(POut (Some (s2l "u0")) (Some (s2l "b")) 0); (POut (Some (s2l "u1")) (Some (s2l "zz")) 0)]; []])] [(mkinst (Some (s2l "u0")) None (Some ((Some (s2l "LEAF")), (Some (s2l "work")))) (Some [[((s2l "identifier"), (PStr (s2l "INIT"))); ((s2l "value"), (PStr (s2l "abc")))]])); (mkinst (Some (s2l "u1")) None (Some ((Some (s2l "LEAF")), (Some (s2l "work")))) None)])]); (mklib (Some (s2l "aux")) None [])]).

Definition w_unnamed : nv :=
  (mknv (Some (s2l "n")) None (Some (mkinst (Some (s2l "top")) None (Some ((Some (s2l "top")), (Some (s2l "work")))) None)) [(mklib (Some (s2l "work")) None [(mkdefn (Some (s2l "LEAF")) None [(mkport None None DIn false 1 (0)%Z); (mkport (Some (s2l "b")) None DOut true 2 (0)%Z)] [] []); (mkdefn (Some (s2l "LEAF2")) None [(mkport (Some (s2l "a")) None DIn false 1 (0)%Z); (mkport (Some (s2l "b")) None DOut true 2 (0)%Z)] [] []); (mkdefn (Some (s2l "top")) None [(mkport (Some (s2l "i")) None DIn false 1 (0)%Z)] [(mkcable (Some (s2l "c")) None [[(PIn (Some (s2l "i")) 0); (POut (Some (s2l "u0")) None 0)]]); (mkcable (Some (s2l "k")) None [[(POut (Some (s2l "u0")) (Some (s2l "b")) 0); (POut (Some (s2l "u1")) None 0)]; []])] [(mkinst (Some (s2l "u0")) None (Some ((Some (s2l "LEAF")), (Some (s2l "work")))) (Some [[((s2l "identifier"), (PStr (s2l "INIT"))); ((s2l "value"), (PStr (s2l "abc")))]])); (mkinst (Some (s2l "u1")) None (Some ((Some (s2l "LEAF")), (Some (s2l "work")))) None)])]); (mklib (Some (s2l "aux")) None [])]).

Definition w_unnamed_dir : nv :=
  (mknv (Some (s2l "n")) None (Some (mkinst (Some (s2l "top")) None (Some ((Some (s2l "top")), (Some (s2l "work")))) None)) [(mklib (Some (s2l "work")) None [(mkdefn (Some (s2l "LEAF")) None [(mkport None None DOut false 1 (0)%Z); (mkport (Some (s2l "b")) None DOut true 2 (0)%Z)] [] []); (mkdefn (Some (s2l "LEAF2")) None [(mkport (Some (s2l "a")) None DIn false 1 (0)%Z); (mkport (Some (s2l "b")) None DOut true 2 (0)%Z)] [] []); (mkdefn (Some (s2l "top")) None [(mkport (Some (s2l "i")) None DIn false 1 (0)%Z)] [(mkcable (Some (s2l "c")) None [[(PIn (Some (s2l "i")) 0); (POut (Some (s2l "u0")) None 0)]]); (mkcable (Some (s2l "k")) None [[(POut (Some (s2l "u0")) (Some (s2l "b")) 0); (POut (Some (s2l "u1")) None 0)]; []])] [(mkinst (Some (s2l "u0")) None (Some ((Some (s2l "LEAF")), (Some (s2l "work")))) (Some [[((s2l "identifier"), (PStr (s2l "INIT"))); ((s2l "value"), (PStr (s2l "abc")))]])); (mkinst (Some (s2l "u1")) None (Some ((Some (s2l "LEAF")), (Some (s2l "work")))) None)])]); (mklib (Some (s2l "aux")) None [])]).

Definition w_asg : nv :=
  (mknv (Some (s2l "n")) None (Some (mkinst (Some (s2l "top")) None (Some ((Some (s2l "top")), (Some (s2l "work")))) None)) [(mklib (Some (s2l "work")) None [(mkdefn (Some (s2l "LEAF")) None [(mkport (Some (s2l "a")) None DIn false 1 (0)%Z); (mkport (Some (s2l "b")) None DOut true 2 (0)%Z)] [] []); (mkdefn (Some (s2l "LEAF2")) None [(mkport (Some (s2l "a")) None DIn false 1 (0)%Z); (mkport (Some (s2l "b")) None DOut true 2 (0)%Z)] [] []); (mkdefn (Some (s2l "top")) None [(mkport (Some (s2l "i")) None DIn false 1 (0)%Z)] [(mkcable (Some (s2l "c")) None [[(PIn (Some (s2l "i")) 0); (POut (Some (s2l "u0")) (Some (s2l "a")) 0)]]); (mkcable (Some (s2l "k")) None [[(POut (Some (s2l "u0")) (Some (s2l "b")) 0); (POut (Some (s2l "u1")) (Some (s2l "a")) 0)]; []])] [(mkinst (Some (s2l "u0")) None (Some ((Some (s2l "LEAF")), (Some (s2l "work")))) (Some [[((s2l "identifier"), (PStr (s2l "INIT"))); ((s2l "value"), (PStr (s2l "abc")))]])); (mkinst (Some (s2l "u1")) None (Some ((Some (s2l "LEAF")), (Some (s2l "work")))) None); (mkinst (Some (s2l "SDN_Assignment_0_1")) None (Some ((Some (s2l "LEAF")), (Some (s2l "work")))) None)])]); (mklib (Some (s2l "aux")) None [])]).

Definition w_asg_ref : nv :=
  (mknv (Some (s2l "n")) None (Some (mkinst (Some (s2l "top")) None (Some ((Some (s2l "top")), (Some (s2l "work")))) None)) [(mklib (Some (s2l "work")) None [(mkdefn (Some (s2l "LEAF")) None [(mkport (Some (s2l "a")) None DIn false 1 (0)%Z); (mkport (Some (s2l "b")) None DOut true 2 (0)%Z)] [] []); (mkdefn (Some (s2l "LEAF2")) None [(mkport (Some (s2l "a")) None DIn false 1 (0)%Z); (mkport (Some (s2l "b")) None DOut true 2 (0)%Z)] [] []); (mkdefn (Some (s2l "top")) None [(mkport (Some (s2l "i")) None DIn false 1 (0)%Z)] [(mkcable (Some (s2l "c")) None [[(PIn (Some (s2l "i")) 0); (POut (Some (s2l "u0")) (Some (s2l "a")) 0)]]); (mkcable (Some (s2l "k")) None [[(POut (Some (s2l "u0")) (Some (s2l "b")) 0); (POut (Some (s2l "u1")) (Some (s2l "a")) 0)]; []])] [(mkinst (Some (s2l "u0")) None (Some ((Some (s2l "LEAF")), (Some (s2l "work")))) (Some [[((s2l "identifier"), (PStr (s2l "INIT"))); ((s2l "value"), (PStr (s2l "abc")))]])); (mkinst (Some (s2l "u1")) None (Some ((Some (s2l "LEAF")), (Some (s2l "work")))) None); (mkinst (Some (s2l "SDN_Assignment_0_1")) None (Some ((Some (s2l "LEAF2")), (Some (s2l "work")))) None)])]); (mklib (Some (s2l "aux")) None [])]).

Definition w_asg2 : nv :=
  (mknv (Some (s2l "n")) None (Some (mkinst (Some (s2l "top")) None (Some ((Some (s2l "top")), (Some (s2l "work")))) None)) [(mklib (Some (s2l "work")) None [(mkdefn (Some (s2l "LEAF")) None [(mkport (Some (s2l "a")) None DIn false 1 (0)%Z); (mkport (Some (s2l "b")) None DOut true 2 (0)%Z)] [] []); (mkdefn (Some (s2l "LEAF2")) None [(mkport (Some (s2l "a")) None DIn false 1 (0)%Z); (mkport (Some (s2l "b")) None DOut true 2 (0)%Z)] [] []); (mkdefn (Some (s2l "top")) None [(mkport (Some (s2l "i")) None DIn false 1 (0)%Z)] [(mkcable (Some (s2l "c")) None [[(PIn (Some (s2l "i")) 0); (POut (Some (s2l "u0")) (Some (s2l "a")) 0)]]); (mkcable (Some (s2l "k")) None [[(POut (Some (s2l "u0")) (Some (s2l "b")) 0); (POut (Some (s2l "u1")) (Some (s2l "a")) 0)]; []]); (mkcable (Some (s2l "z")) None [[(POut (Some (s2l "SDN_Assignment_0_1")) (Some (s2l "a")) 0)]])] [(mkinst (Some (s2l "u0")) None (Some ((Some (s2l "LEAF")), (Some (s2l "work")))) (Some [[((s2l "identifier"), (PStr (s2l "INIT"))); ((s2l "value"), (PStr (s2l "abc")))]])); (mkinst (Some (s2l "u1")) None (Some ((Some (s2l "LEAF")), (Some (s2l "work")))) None); (mkinst (Some (s2l "SDN_Assignment_0_1")) None (Some ((Some (s2l "LEAF")), (Some (s2l "work")))) None); (mkinst (Some (s2l "SDN_Assignment_1_1")) None (Some ((Some (s2l "LEAF")), (Some (s2l "work")))) None)])]); (mklib (Some (s2l "aux")) None [])]).

Definition w_asg2_moved : nv :=
  (mknv (Some (s2l "n")) None (Some (mkinst (Some (s2l "top")) None (Some ((Some (s2l "top")), (Some (s2l "work")))) None)) [(mklib (Some (s2l "work")) None [(mkdefn (Some (s2l "LEAF")) None [(mkport (Some (s2l "a")) None DIn false 1 (0)%Z); (mkport (Some (s2l "b")) None DOut true 2 (0)%Z)] [] []); (mkdefn (Some (s2l "LEAF2")) None [(mkport (Some (s2l "a")) None DIn false 1 (0)%Z); (mkport (Some (s2l "b")) None DOut true 2 (0)%Z)] [] []); (mkdefn (Some (s2l "top")) None [(mkport (Some (s2l "i")) None DIn false 1 (0)%Z)] [(mkcable (Some (s2l "c")) None [[(PIn (Some (s2l "i")) 0); (POut (Some (s2l "u0")) (Some (s2l "a")) 0)]]); (mkcable (Some (s2l "k")) None [[(POut (Some (s2l "u0")) (Some (s2l "b")) 0); (POut (Some (s2l "u1")) (Some (s2l "a")) 0)]; []]); (mkcable (Some (s2l "z")) None [[(POut (Some (s2l "SDN_Assignment_1_1")) (Some (s2l "a")) 0)]])] [(mkinst (Some (s2l "u0")) None (Some ((Some (s2l "LEAF")), (Some (s2l "work")))) (Some [[((s2l "identifier"), (PStr (s2l "INIT"))); ((s2l "value"), (PStr (s2l "abc")))]])); (mkinst (Some (s2l "u1")) None (Some ((Some (s2l "LEAF")), (Some (s2l "work")))) None); (mkinst (Some (s2l "SDN_Assignment_0_1")) None (Some ((Some (s2l "LEAF")), (Some (s2l "work")))) None); (mkinst (Some (s2l "SDN_Assignment_1_1")) None (Some ((Some (s2l "LEAF")), (Some (s2l "work")))) None)])]); (mklib (Some (s2l "aux")) None [])]).

Definition w_wild : nv :=
  (mknv (Some (s2l "n")) None (Some (mkinst (Some (s2l "top")) None (Some ((Some (s2l "top")), (Some (s2l "work")))) None)) [(mklib (Some (s2l "work")) None [(mkdefn (Some (s2l "LEAF")) None [(mkport (Some (s2l "a")) None DIn false 1 (0)%Z); (mkport (Some (s2l "b")) None DOut true 2 (0)%Z)] [] []); (mkdefn (Some (s2l "LEAF2")) None [(mkport (Some (s2l "a")) None DIn false 1 (0)%Z); (mkport (Some (s2l "b")) None DOut true 2 (0)%Z)] [] []); (mkdefn (Some (s2l "top")) None [(mkport (Some (s2l "i")) None DIn false 1 (0)%Z); (mkport (Some (s2l "ab")) None DIn false 1 (0)%Z); (mkport (Some (s2l "a*")) None DIn false 1 (0)%Z)] [(mkcable (Some (s2l "c")) None [[(PIn (Some (s2l "i")) 0); (POut (Some (s2l "u0")) (Some (s2l "a")) 0)]]); (mkcable (Some (s2l "k")) None [[(POut (Some (s2l "u0")) (Some (s2l "b")) 0); (POut (Some (s2l "u1")) (Some (s2l "a")) 0)]; []])] [(mkinst (Some (s2l "u0")) None (Some ((Some (s2l "LEAF")), (Some (s2l "work")))) (Some [[((s2l "identifier"), (PStr (s2l "INIT"))); ((s2l "value"), (PStr (s2l "abc")))]])); (mkinst (Some (s2l "u1")) None (Some ((Some (s2l "LEAF")), (Some (s2l "work")))) None)])]); (mklib (Some (s2l "aux")) None [])]).

Definition w_short : nv :=
  (mknv (Some (s2l "n")) None (Some (mkinst (Some (s2l "top")) None (Some ((Some (s2l "top")), (Some (s2l "work")))) None)) [(mklib (Some (s2l "work")) None [(mkdefn (Some (s2l "LEAF")) None [(mkport (Some (s2l "a")) None DIn false 1 (0)%Z); (mkport (Some (s2l "b")) None DOut true 2 (0)%Z)] [] []); (mkdefn (Some (s2l "LEAF2")) None [(mkport (Some (s2l "a")) None DIn false 1 (0)%Z); (mkport (Some (s2l "b")) None DOut true 2 (0)%Z)] [] []); (mkdefn (Some (s2l "top")) None [(mkport (Some (s2l "i")) None DIn false 1 (0)%Z)] [(mkcable (Some (s2l "c")) None [[(PIn (Some (s2l "i")) 0); (POut (Some (s2l "u0")) (Some (s2l "a")) 0)]]); (mkcable (Some (s2l "k")) None [[(POut (Some (s2l "u0")) (Some (s2l "b")) 0); (POut (Some (s2l "u1")) (Some (s2l "a")) 0)]; []])] [(mkinst (Some (s2l "u0")) None (Some ((Some (s2l "LEAF")), (Some (s2l "work")))) (Some [[((s2l "identifier"), (PStr (s2l "INIT"))); ((s2l "value"), (PStr (s2l "abc")))]])); (mkinst (Some (s2l "u1")) None (Some ((Some (s2l "LEAF")), (Some (s2l "work")))) None); (mkinst (Some (s2l "SDN_Assignment_7")) None (Some ((Some (s2l "LEAF")), (Some (s2l "work")))) None)])]); (mklib (Some (s2l "aux")) None [])]).

Definition w_noname : nv :=
  (mknv (Some (s2l "n")) None (Some (mkinst (Some (s2l "top")) None (Some ((Some (s2l "top")), (Some (s2l "work")))) None)) [(mklib (Some (s2l "work")) None [(mkdefn (Some (s2l "LEAF")) None [(mkport (Some (s2l "a")) None DIn false 1 (0)%Z); (mkport (Some (s2l "b")) None DOut true 2 (0)%Z)] [] []); (mkdefn (Some (s2l "LEAF2")) None [(mkport (Some (s2l "a")) None DIn false 1 (0)%Z); (mkport (Some (s2l "b")) None DOut true 2 (0)%Z)] [] []); (mkdefn (Some (s2l "top")) None [(mkport (Some (s2l "i")) None DIn false 1 (0)%Z)] [(mkcable (Some (s2l "c")) None [[(PIn (Some (s2l "i")) 0); (PAnon (Some (s2l "LEAF")) (Some (s2l "work")) (Some (s2l "a")) 0)]]); (mkcable (Some (s2l "k")) None [[(PAnon (Some (s2l "LEAF")) (Some (s2l "work")) (Some (s2l "b")) 0); (POut (Some (s2l "u1")) (Some (s2l "a")) 0)]; []])] [(mkinst None None (Some ((Some (s2l "LEAF")), (Some (s2l "work")))) (Some [[((s2l "identifier"), (PStr (s2l "INIT"))); ((s2l "value"), (PStr (s2l "abc")))]])); (mkinst (Some (s2l "u1")) None (Some ((Some (s2l "LEAF")), (Some (s2l "work")))) None)])]); (mklib (Some (s2l "aux")) None [])]).

Definition w_zero : nv :=
  (mknv (Some (s2l "n")) None (Some (mkinst (Some (s2l "top")) None (Some ((Some (s2l "top")), (Some (s2l "work")))) None)) [(mklib (Some (s2l "work")) None [(mkdefn (Some (s2l "LEAF")) None [(mkport (Some (s2l "a")) None DIn false 1 (0)%Z); (mkport (Some (s2l "b")) None DOut true 2 (0)%Z)] [] []); (mkdefn (Some (s2l "LEAF2")) None [(mkport (Some (s2l "a")) None DIn false 1 (0)%Z); (mkport (Some (s2l "b")) None DOut true 2 (0)%Z)] [] []); (mkdefn (Some (s2l "top")) None [(mkport (Some (s2l "i")) None DIn false 1 (0)%Z); (mkport (Some (s2l "z0")) None DIn false 0 (0)%Z)] [(mkcable (Some (s2l "c")) None [[(PIn (Some (s2l "i")) 0); (POut (Some (s2l "u0")) (Some (s2l "a")) 0)]]); (mkcable (Some (s2l "k")) None [[(POut (Some (s2l "u0")) (Some (s2l "b")) 0); (POut (Some (s2l "u1")) (Some (s2l "a")) 0)]; []])] [(mkinst (Some (s2l "u0")) None (Some ((Some (s2l "LEAF")), (Some (s2l "work")))) (Some [[((s2l "identifier"), (PStr (s2l "INIT"))); ((s2l "value"), (PStr (s2l "abc")))]])); (mkinst (Some (s2l "u1")) None (Some ((Some (s2l "LEAF")), (Some (s2l "work")))) None)])]); (mklib (Some (s2l "aux")) None [])]).

(* ---------- witnesses of the soundness / completeness theorems (corpus/cmp/c20-perm.json,
   c20-pin-order.json: the pins of one wire in the other order, c20-lower-index.json,
   c20-double.json) ---------- *)
Definition w_perm : nv :=
  (mknv (Some (s2l "n")) None (Some (mkinst (Some (s2l "top")) None (Some ((Some (s2l "top")), (Some (s2l "work")))) None)) [(mklib (Some (s2l "aux")) None []); (mklib (Some (s2l "work")) None [(mkdefn (Some (s2l "top")) None [(mkport (Some (s2l "i")) None DIn false 1 (0)%Z)] [(mkcable (Some (s2l "k")) None [[(POut (Some (s2l "u0")) (Some (s2l "b")) 0); (POut (Some (s2l "u1")) (Some (s2l "a")) 0)]; []]); (mkcable (Some (s2l "c")) None [[(PIn (Some (s2l "i")) 0); (POut (Some (s2l "u0")) (Some (s2l "a")) 0)]])] [(mkinst (Some (s2l "u1")) None (Some ((Some (s2l "LEAF")), (Some (s2l "work")))) None); (mkinst (Some (s2l "u0")) None (Some ((Some (s2l "LEAF")), (Some (s2l "work")))) (Some [[((s2l "identifier"), (PStr (s2l "INIT"))); ((s2l "value"), (PStr (s2l "abc")))]]))]); (mkdefn (Some (s2l "LEAF")) None [(mkport (Some (s2l "b")) None DOut true 2 (0)%Z); (mkport (Some (s2l "a")) None DIn false 1 (0)%Z)] [] []); (mkdefn (Some (s2l "LEAF2")) None [(mkport (Some (s2l "a")) None DIn false 1 (0)%Z); (mkport (Some (s2l "b")) None DOut true 2 (0)%Z)] [] [])])]).

Definition w_pin_order : nv :=
  (mknv (Some (s2l "n")) None (Some (mkinst (Some (s2l "top")) None (Some ((Some (s2l "top")), (Some (s2l "work")))) None)) [(mklib (Some (s2l "work")) None [(mkdefn (Some (s2l "LEAF")) None [(mkport (Some (s2l "a")) None DIn false 1 (0)%Z); (mkport (Some (s2l "b")) None DOut true 2 (0)%Z)] [] []); (mkdefn (Some (s2l "LEAF2")) None [(mkport (Some (s2l "a")) None DIn false 1 (0)%Z); (mkport (Some (s2l "b")) None DOut true 2 (0)%Z)] [] []); (mkdefn (Some (s2l "top")) None [(mkport (Some (s2l "i")) None DIn false 1 (0)%Z)] [(mkcable (Some (s2l "c")) None [[(PIn (Some (s2l "i")) 0); (POut (Some (s2l "u0")) (Some (s2l "a")) 0)]]); (mkcable (Some (s2l "k")) None [[(POut (Some (s2l "u1")) (Some (s2l "a")) 0); (POut (Some (s2l "u0")) (Some (s2l "b")) 0)]; []])] [(mkinst (Some (s2l "u0")) None (Some ((Some (s2l "LEAF")), (Some (s2l "work")))) (Some [[((s2l "identifier"), (PStr (s2l "INIT"))); ((s2l "value"), (PStr (s2l "abc")))]])); (mkinst (Some (s2l "u1")) None (Some ((Some (s2l "LEAF")), (Some (s2l "work")))) None)])]); (mklib (Some (s2l "aux")) None [])]).

Definition w_lower : nv :=
  (mknv (Some (s2l "n")) None (Some (mkinst (Some (s2l "top")) None (Some ((Some (s2l "top")), (Some (s2l "work")))) None)) [(mklib (Some (s2l "work")) None [(mkdefn (Some (s2l "LEAF")) None [(mkport (Some (s2l "a")) None DIn false 1 (0)%Z); (mkport (Some (s2l "b")) None DOut true 2 (4)%Z)] [] []); (mkdefn (Some (s2l "LEAF2")) None [(mkport (Some (s2l "a")) None DIn false 1 (0)%Z); (mkport (Some (s2l "b")) None DOut true 2 (0)%Z)] [] []); (mkdefn (Some (s2l "top")) None [(mkport (Some (s2l "i")) None DIn false 1 (0)%Z)] [(mkcable (Some (s2l "c")) None [[(PIn (Some (s2l "i")) 0); (POut (Some (s2l "u0")) (Some (s2l "a")) 0)]]); (mkcable (Some (s2l "k")) None [[(POut (Some (s2l "u0")) (Some (s2l "b")) 0); (POut (Some (s2l "u1")) (Some (s2l "a")) 0)]; []])] [(mkinst (Some (s2l "u0")) None (Some ((Some (s2l "LEAF")), (Some (s2l "work")))) (Some [[((s2l "identifier"), (PStr (s2l "INIT"))); ((s2l "value"), (PStr (s2l "abc")))]])); (mkinst (Some (s2l "u1")) None (Some ((Some (s2l "LEAF")), (Some (s2l "work")))) None)])]); (mklib (Some (s2l "aux")) None [])]).

Definition w_double : nv :=
  (mknv (Some (s2l "n")) None (Some (mkinst (Some (s2l "top")) None (Some ((Some (s2l "top")), (Some (s2l "work")))) None)) [(mklib (Some (s2l "work")) None [(mkdefn (Some (s2l "LEAF")) None [(mkport (Some (s2l "a")) None DOut false 1 (0)%Z); (mkport (Some (s2l "b")) None DOut true 2 (0)%Z)] [] []); (mkdefn (Some (s2l "LEAF2")) None [(mkport (Some (s2l "a")) None DIn false 1 (0)%Z); (mkport (Some (s2l "b")) None DOut true 2 (0)%Z)] [] []); (mkdefn (Some (s2l "top")) None [(mkport (Some (s2l "i")) None DIn false 1 (0)%Z)] [(mkcable (Some (s2l "c")) None [[(PIn (Some (s2l "i")) 0); (POut (Some (s2l "u0")) (Some (s2l "a")) 0)]]); (mkcable (Some (s2l "k")) None [[(POut (Some (s2l "u0")) (Some (s2l "b")) 0); (POut (Some (s2l "u1")) (Some (s2l "a")) 0)]; []])] [(mkinst (Some (s2l "u0")) None (Some ((Some (s2l "LEAF")), (Some (s2l "work")))) (Some [[((s2l "identifier"), (PStr (s2l "INIT"))); ((s2l "value"), (PStr (s2l "abc")))]])); (mkinst (Some (s2l "u1")) None (Some ((Some (s2l "LEAF2")), (Some (s2l "work")))) None)])]); (mklib (Some (s2l "aux")) None [])]).

(* ---------- two assignment-style instances of the same width with different references on one
   wire, and the same wire listed in the other order (corpus/cmp/c20-asg-pin-order.json) ---------- *)
Definition w_asg3 : nv :=
  (mknv (Some (s2l "n")) None (Some (mkinst (Some (s2l "top")) None (Some ((Some (s2l "top")), (Some (s2l "work")))) None)) [(mklib (Some (s2l "work")) None [(mkdefn (Some (s2l "LEAF")) None [(mkport (Some (s2l "a")) None DIn false 1 (0)%Z); (mkport (Some (s2l "b")) None DOut true 2 (0)%Z)] [] []); (mkdefn (Some (s2l "LEAF2")) None [(mkport (Some (s2l "a")) None DIn false 1 (0)%Z); (mkport (Some (s2l "b")) None DOut true 2 (0)%Z)] [] []); (mkdefn (Some (s2l "top")) None [(mkport (Some (s2l "i")) None DIn false 1 (0)%Z)] [(mkcable (Some (s2l "c")) None [[(PIn (Some (s2l "i")) 0); (POut (Some (s2l "u0")) (Some (s2l "a")) 0)]]); (mkcable (Some (s2l "k")) None [[(POut (Some (s2l "u0")) (Some (s2l "b")) 0); (POut (Some (s2l "u1")) (Some (s2l "a")) 0)]; []]); (mkcable (Some (s2l "z")) None [[(POut (Some (s2l "SDN_Assignment_0_1")) (Some (s2l "a")) 0); (POut (Some (s2l "SDN_Assignment_1_1")) (Some (s2l "a")) 0)]])] [(mkinst (Some (s2l "u0")) None (Some ((Some (s2l "LEAF")), (Some (s2l "work")))) (Some [[((s2l "identifier"), (PStr (s2l "INIT"))); ((s2l "value"), (PStr (s2l "abc")))]])); (mkinst (Some (s2l "u1")) None (Some ((Some (s2l "LEAF")), (Some (s2l "work")))) None); (mkinst (Some (s2l "SDN_Assignment_0_1")) None (Some ((Some (s2l "LEAF")), (Some (s2l "work")))) None); (mkinst (Some (s2l "SDN_Assignment_1_1")) None (Some ((Some (s2l "LEAF2")), (Some (s2l "work")))) None)])]); (mklib (Some (s2l "aux")) None [])]).

Definition w_asg3_swapped : nv :=
  (mknv (Some (s2l "n")) None (Some (mkinst (Some (s2l "top")) None (Some ((Some (s2l "top")), (Some (s2l "work")))) None)) [(mklib (Some (s2l "work")) None [(mkdefn (Some (s2l "LEAF")) None [(mkport (Some (s2l "a")) None DIn false 1 (0)%Z); (mkport (Some (s2l "b")) None DOut true 2 (0)%Z)] [] []); (mkdefn (Some (s2l "LEAF2")) None [(mkport (Some (s2l "a")) None DIn false 1 (0)%Z); (mkport (Some (s2l "b")) None DOut true 2 (0)%Z)] [] []); (mkdefn (Some (s2l "top")) None [(mkport (Some (s2l "i")) None DIn false 1 (0)%Z)] [(mkcable (Some (s2l "c")) None [[(PIn (Some (s2l "i")) 0); (POut (Some (s2l "u0")) (Some (s2l "a")) 0)]]); (mkcable (Some (s2l "k")) None [[(POut (Some (s2l "u0")) (Some (s2l "b")) 0); (POut (Some (s2l "u1")) (Some (s2l "a")) 0)]; []]); (mkcable (Some (s2l "z")) None [[(POut (Some (s2l "SDN_Assignment_1_1")) (Some (s2l "a")) 0); (POut (Some (s2l "SDN_Assignment_0_1")) (Some (s2l "a")) 0)]])] [(mkinst (Some (s2l "u0")) None (Some ((Some (s2l "LEAF")), (Some (s2l "work")))) (Some [[((s2l "identifier"), (PStr (s2l "INIT"))); ((s2l "value"), (PStr (s2l "abc")))]])); (mkinst (Some (s2l "u1")) None (Some ((Some (s2l "LEAF")), (Some (s2l "work")))) None); (mkinst (Some (s2l "SDN_Assignment_0_1")) None (Some ((Some (s2l "LEAF")), (Some (s2l "work")))) None); (mkinst (Some (s2l "SDN_Assignment_1_1")) None (Some ((Some (s2l "LEAF2")), (Some (s2l "work")))) None)])]); (mklib (Some (s2l "aux")) None [])]).


Local Close Scope string_scope.

Ltac vm := vm_compute; reflexivity.
Tactic Notation "at_pos" open_constr(l1) open_constr(l2) := eapply (splice_at _ l1 _ _ l2).
Ltac neq := let H := fresh in intro H; vm_compute in H; discriminate H.

(* ---------- the base netlist is in the domain of the theorems ---------- *)
Lemma w_base_wf : wf_named w_base. Proof. vm. Qed.
Lemma w_base_noasg : no_asg w_base. Proof. vm. Qed.
Lemma w_base_accept : compare w_base w_base = true. Proof. vm. Qed.

(* ---------- one concrete difference per class (inputs of the Examples) ---------- *)
Lemma w_port_dir_diff : nv_diff MPortDir w_base w_port_dir.
Proof.
  unfold w_base, w_port_dir. eapply nd_lib. cbn [n_libs]. at_pos (@nil lib) [_].
  eapply ld_def. cbn [l_defs]. at_pos (@nil defn) [_; _].
  eapply dd_port. cbn [d_ports]. at_pos (@nil port) [_]. eapply pd_dir. neq.
Qed.

Lemma w_port_width_diff : nv_diff MPortWidth w_base w_port_width.
Proof.
  unfold w_base, w_port_width. eapply nd_lib. cbn [n_libs]. at_pos (@nil lib) [_].
  eapply ld_def. cbn [l_defs]. at_pos (@nil defn) [_; _].
  eapply dd_port. cbn [d_ports]. at_pos (@nil port) [_]. eapply pd_width. neq.
Qed.

Lemma w_port_array_diff : nv_diff MPortArray w_base w_port_array.
Proof.
  unfold w_base, w_port_array. eapply nd_lib. cbn [n_libs]. at_pos (@nil lib) [_].
  eapply ld_def. cbn [l_defs]. at_pos (@nil defn) [_; _].
  eapply dd_port. cbn [d_ports]. at_pos (@nil port) [_]. eapply pd_array.
Qed.

Lemma w_cable_width_diff : nv_diff MCableWidth w_base w_cable_width.
Proof.
  unfold w_base, w_cable_width. eapply nd_lib. cbn [n_libs]. at_pos (@nil lib) [_].
  eapply ld_def. cbn [l_defs]. at_pos [_; _] (@nil defn).
  eapply dd_cable. cbn [d_cables]. at_pos (@nil cable) [_]. eapply cd_width. neq.
Qed.

Lemma w_conn_port_diff : nv_diff MConnPort w_base w_conn_port.
Proof.
  unfold w_base, w_conn_port. eapply nd_lib. cbn [n_libs]. at_pos (@nil lib) [_].
  eapply ld_def. cbn [l_defs]. at_pos [_; _] (@nil defn).
  eapply dd_cable. cbn [d_cables]. at_pos (@nil cable) [_]. eapply cd_conn. cbn [c_wires].
  at_pos (@nil wire) (@nil wire). at_pos [_] (@nil pinref).
  split; [apply pin_port_out; neq|vm].
Qed.

Lemma w_conn_bit_diff : nv_diff MConnBit w_base w_conn_bit.
Proof.
  unfold w_base, w_conn_bit. eapply nd_lib. cbn [n_libs]. at_pos (@nil lib) [_].
  eapply ld_def. cbn [l_defs]. at_pos [_; _] (@nil defn).
  eapply dd_cable. cbn [d_cables]. at_pos [_] (@nil cable). eapply cd_conn. cbn [c_wires].
  at_pos (@nil wire) [_]. at_pos (@nil pinref) [_].
  split; [apply pin_bit_out; neq|vm].
Qed.

Lemma w_conn_inst_diff : nv_diff MConnInst w_base w_conn_inst.
Proof.
  unfold w_base, w_conn_inst. eapply nd_lib. cbn [n_libs]. at_pos (@nil lib) [_].
  eapply ld_def. cbn [l_defs]. at_pos [_; _] (@nil defn).
  eapply dd_cable. cbn [d_cables]. at_pos (@nil cable) [_]. eapply cd_conn. cbn [c_wires].
  at_pos (@nil wire) (@nil wire). at_pos [_] (@nil pinref).
  split; [apply pin_inst; neq|vm].
Qed.

Lemma w_inst_ref_diff : nv_diff MInstRef w_base w_inst_ref.
Proof.
  unfold w_base, w_inst_ref. eapply nd_lib. cbn [n_libs]. at_pos (@nil lib) [_].
  eapply ld_def. cbn [l_defs]. at_pos [_; _] (@nil defn).
  eapply dd_inst. cbn [d_insts]. at_pos [_] (@nil inst). eapply id_ref; [reflexivity|neq].
Qed.

Lemma w_prop_value_diff : nv_diff MInstProp w_base w_prop_value.
Proof.
  unfold w_base, w_prop_value. eapply nd_lib. cbn [n_libs]. at_pos (@nil lib) [_].
  eapply ld_def. cbn [l_defs]. at_pos [_; _] (@nil defn).
  eapply dd_inst. cbn [d_insts]. at_pos (@nil inst) [_]. eapply id_prop; [reflexivity|].
  at_pos (@nil pdict) (@nil pdict). eapply (dict_at [_] _ _ _ []). vm.
Qed.

Lemma w_lib_drop_diff : nv_diff MLibDrop w_base w_lib_drop.
Proof.
  unfold w_base, w_lib_drop. eapply nd_lib_drop. cbn [n_libs]. eapply (dropped_at [_] _ []).
Qed.

Lemma w_inst_add_diff : nv_diff MInstAdd w_base w_inst_add.
Proof.
  unfold w_base, w_inst_add. eapply nd_lib. cbn [n_libs]. at_pos (@nil lib) [_].
  eapply ld_def. cbn [l_defs]. at_pos [_; _] (@nil defn).
  eapply dd_inst_add; [cbn [d_insts]; eapply (dropped_at [_; _] _ [])|vm].
Qed.

Lemma w_def_add_diff : nv_diff MDefAdd w_base w_def_add.
Proof.
  unfold w_base, w_def_add. eapply nd_lib. cbn [n_libs]. at_pos (@nil lib) [_].
  eapply ld_def_add. cbn [l_defs]. eapply (dropped_at [_; _; _] _ []).
Qed.

Lemma w_port_add_diff : nv_diff MPortAdd w_base w_port_add.
Proof.
  unfold w_base, w_port_add. eapply nd_lib. cbn [n_libs]. at_pos (@nil lib) [_].
  eapply ld_def. cbn [l_defs]. at_pos [_] [_].
  eapply dd_port_add. cbn [d_ports]. eapply (dropped_at [_; _] _ []).
Qed.

Lemma w_cable_add_diff : nv_diff MCableAdd w_base w_cable_add.
Proof.
  unfold w_base, w_cable_add. eapply nd_lib. cbn [n_libs]. at_pos (@nil lib) [_].
  eapply ld_def. cbn [l_defs]. at_pos [_; _] (@nil defn).
  eapply dd_cable_add. cbn [d_cables]. eapply (dropped_at [_; _] _ []).
Qed.

(* the same pairs read in the other direction: the copy lacks one element *)
Lemma w_lib_add_diff : nv_diff MLibAdd w_lib_drop w_base.
Proof. unfold w_base, w_lib_drop. eapply nd_lib_add. cbn [n_libs]. eapply (dropped_at [_] _ []). Qed.

Lemma w_def_drop_diff : nv_diff MDefDrop w_def_add w_base.
Proof.
  unfold w_base, w_def_add. eapply nd_lib. cbn [n_libs]. at_pos (@nil lib) [_].
  eapply ld_def_drop. cbn [l_defs]. eapply (dropped_at [_; _; _] _ []).
Qed.

Lemma w_port_drop_diff : nv_diff MPortDrop w_port_add w_base.
Proof.
  unfold w_base, w_port_add. eapply nd_lib. cbn [n_libs]. at_pos (@nil lib) [_].
  eapply ld_def. cbn [l_defs]. at_pos [_] [_].
  eapply dd_port_drop. cbn [d_ports]. eapply (dropped_at [_; _] _ []).
Qed.

Lemma w_cable_drop_diff : nv_diff MCableDrop w_cable_add w_base.
Proof.
  unfold w_base, w_cable_add. eapply nd_lib. cbn [n_libs]. at_pos (@nil lib) [_].
  eapply ld_def. cbn [l_defs]. at_pos [_; _] (@nil defn).
  eapply dd_cable_drop. cbn [d_cables]. eapply (dropped_at [_; _] _ []).
Qed.

Lemma w_inst_drop_diff : nv_diff MInstDrop w_inst_add w_base.
Proof.
  unfold w_base, w_inst_add. eapply nd_lib. cbn [n_libs]. at_pos (@nil lib) [_].
  eapply ld_def. cbn [l_defs]. at_pos [_; _] (@nil defn).
  eapply dd_inst_drop; [cbn [d_insts]; eapply (dropped_at [_; _] _ [])|vm].
Qed.

Lemma w_others_wf :
  wf_named w_lib_drop /\ no_asg w_lib_drop /\ wf_named w_def_add /\ no_asg w_def_add /\
  wf_named w_port_add /\ no_asg w_port_add /\ wf_named w_cable_add /\ no_asg w_cable_add /\
  wf_named w_inst_add /\ no_asg w_inst_add.
Proof. repeat split; vm. Qed.

(* ---------- properties that only the copy has: rejected since the repair of compare_instances
   (the former witnesses of the refutation C20_refuted) ---------- *)
Lemma w_prop_new_diff : nv_diff MPropAdded w_base w_prop_new.
Proof.
  unfold w_base, w_prop_new. eapply nd_lib. cbn [n_libs]. at_pos (@nil lib) [_].
  eapply ld_def. cbn [l_defs]. at_pos [_; _] (@nil defn).
  eapply dd_inst. cbn [d_insts]. at_pos [_] (@nil inst). eapply id_prop_new. reflexivity.
Qed.
Lemma w_prop_new_rejected : cmp_run w_base w_prop_new = Reject. Proof. vm. Qed.

Lemma w_prop_entry_diff : nv_diff MPropAdded w_base w_prop_entry.
Proof.
  unfold w_base, w_prop_entry. eapply nd_lib. cbn [n_libs]. at_pos (@nil lib) [_].
  eapply ld_def. cbn [l_defs]. at_pos [_; _] (@nil defn).
  eapply dd_inst. cbn [d_insts]. at_pos (@nil inst) [_]. 
  match goal with
  | |- inst_diff _ ?i (mkinst _ _ _ (Some [?d0; ?d1])) => exact (id_prop_entry i [d0] d1 eq_refl)
  end.
Qed.
Lemma w_prop_entry_rejected : cmp_run w_base w_prop_entry = Reject. Proof. vm. Qed.

(* a property the copy lacks: AssertionError (was KeyError) *)
Lemma w_prop_dropped_rejected : cmp_run w_base w_prop_dropped = Reject. Proof. vm. Qed.
(* a renamed element: AssertionError (was StopIteration) *)
Lemma w_renamed_rejected : cmp_run w_base w_renamed = Reject. Proof. vm. Qed.

(* the reference of an instance named like an assignment changed *)
Lemma w_asg_wf : wf_named w_asg. Proof. vm. Qed.
Lemma w_asg_ref_diff : nv_diff MInstRef w_asg w_asg_ref.
Proof.
  unfold w_asg, w_asg_ref. eapply nd_lib. cbn [n_libs]. at_pos (@nil lib) [_].
  eapply ld_def. cbn [l_defs]. at_pos [_; _] (@nil defn).
  eapply dd_inst. cbn [d_insts]. at_pos [_; _] (@nil inst). eapply id_ref; [reflexivity|neq].
Qed.
Lemma w_asg_ref_accepted : compare w_asg w_asg_ref = true. Proof. vm. Qed.

(* a net moved from one assignment instance to another of the same width *)
Lemma w_asg2_wf : wf_named w_asg2. Proof. vm. Qed.
Lemma w_asg2_moved_diff : nv_diff MConnInst w_asg2 w_asg2_moved.
Proof.
  unfold w_asg2, w_asg2_moved. eapply nd_lib. cbn [n_libs]. at_pos (@nil lib) [_].
  eapply ld_def. cbn [l_defs]. at_pos [_; _] (@nil defn).
  eapply dd_cable. cbn [d_cables]. at_pos [_; _] (@nil cable). eapply cd_conn. cbn [c_wires].
  at_pos (@nil wire) (@nil wire). at_pos (@nil pinref) (@nil pinref).
  split; [apply pin_inst; neq|vm].
Qed.
Lemma w_asg2_moved_accepted : compare w_asg2 w_asg2_moved = true. Proof. vm. Qed.

(* a difference on an unnamed port *)
Lemma w_unnamed_not_named : wf_namedb w_unnamed = false. Proof. vm. Qed.
Lemma w_unnamed_dir_diff : nv_diff MPortDir w_unnamed w_unnamed_dir.
Proof.
  unfold w_unnamed, w_unnamed_dir. eapply nd_lib. cbn [n_libs]. at_pos (@nil lib) [_].
  eapply ld_def. cbn [l_defs]. at_pos (@nil defn) [_; _].
  eapply dd_port. cbn [d_ports]. at_pos (@nil port) [_]. eapply pd_dir. neq.
Qed.
Lemma w_unnamed_dir_accepted : compare w_unnamed w_unnamed_dir = true. Proof. vm. Qed.

(* netlists that were not accepted against themselves before the repairs of the lookups (exact
   names), of the assignment-name test (four fields), of the None-safe getters and of
   compare_ports (no 'DRC' assert): regression cases *)
Lemma w_wild_self : cmp_run w_wild w_wild = Accept. Proof. vm. Qed.
Lemma w_short_self : cmp_run w_short w_short = Accept. Proof. vm. Qed.
Lemma w_noname_self : cmp_run w_noname w_noname = Accept. Proof. vm. Qed.
Lemma w_zero_self : cmp_run w_zero w_zero = Accept. Proof. vm. Qed.
Lemma w_wild_wf : wf_named w_wild. Proof. vm. Qed.
Lemma w_short_wf : wf_named w_short /\ no_asg w_short. Proof. split; vm. Qed.
Lemma w_zero_wf : wf_named w_zero. Proof. vm. Qed.
Lemma w_noname_not_named : wf_namedb w_noname = false. Proof. vm. Qed.
