(* Engine `verilog`, document-level reader: stability and composition. The connections a definition already has keep
   their meaning (port bit / net bit) when a later connection creates implied cables or creates / widens a port of a
   referenced definition; hence the whole port map of an instance adds exactly its meaning - for every .p(e), bit k of
   e joined to bit k of port p - to the nets of the instantiating module, read off the netlist value. *)
From Coq Require Import List ZArith Bool Arith Lia.
From SV Require Import Base.Base Fmt.VBits Fmt.VTop Fmt.VDoc Fmt.VElab Fmt.VSpec Fmt.VSem
  Proofs.VerilogLists Proofs.VerilogGrow Proofs.VElabBase Proofs.VElabInv Proofs.VElabWf Proofs.VElabExpr Proofs.VElabConn Proofs.VElabNets Proofs.VElabTop.
Import ListNotations.
Open Scope Z_scope.

(* a pin that could be seen keeps its port bit when the port is created / widened next to it *)
Lemma pin_bit_port_made name m rd rd' pk0 pk ord x : port_made name m rd rd' pk0 ->
  pin_bit (ed_ports rd) pk ord = Some x -> pin_bit (ed_ports rd') pk ord = Some x.
Proof.
  intros [_ Hl _ Ho (p' & P' & Np' & Lo' & _ & _ & Pold & _)]. unfold pin_bit.
  destruct (nth_error (ed_ports rd) pk) as [p|] eqn:P; [|discriminate].
  assert (Lp : (pk < length (ed_ports rd))%nat) by (apply nth_error_Some; congruence).
  destruct (Nat.eq_dec pk pk0) as [->|Hne].
  - destruct (Pold p P) as (Np & _ & Lo & (extra & Ex)). rewrite P'.
    destruct (index_of ord (b_items (ep_b p))) as [k|] eqn:K; [|discriminate].
    unfold index_of in *. rewrite Ex. rewrite (find_idx_app_some _ _ extra _ K).
    unfold port_label. rewrite Np, Np', Lo, Lo'. auto.
  - rewrite (Ho pk Hne Lp), P. auto.
Qed.

(* the frame of one connection step, as C06_full_named_maps / _positional_maps describe it *)
Record conn_frame (cur rk : nat) (s s' : estate) : Prop := {
  cf_names : names s' = names s;
  cf_others : forall k, k <> cur -> k <> rk -> get_def k s' = get_def k s;
  cf_cur : cables_ext (get_def cur s) (set_conn (get_def cur s') (ed_conn (get_def cur s)));
  cf_ref : (exists name m pk, port_made name m (get_def rk s) (get_def rk s') pk) \/ get_def rk s' = get_def rk s \/
           (exists p', get_def rk s' = set_ports (get_def rk s) (ed_ports (get_def rk s) ++ [p'])) }.

Lemma pin_bit_frame cur rk s s' k pk ord x : conn_frame cur rk s s' -> cur <> rk ->
  pin_bit (ed_ports (get_def k s)) pk ord = Some x -> pin_bit (ed_ports (get_def k s')) pk ord = Some x.
Proof.
  intros [_ Fo Fc Fr] Hne H.
  destruct (Nat.eq_dec k cur) as [->|Hk1].
  - destruct (cables_ext_fields _ _ Fc) as (_ & Fp & _). cbn [ed_ports set_conn] in Fp. rewrite Fp. exact H.
  - destruct (Nat.eq_dec k rk) as [->|Hk2].
    + destruct Fr as [(name & m & pk0 & PM)|[E|(p' & E)]].
      * eapply pin_bit_port_made; eassumption.
      * rewrite E. exact H.
      * rewrite E. cbn [ed_ports set_ports]. unfold pin_bit in *.
        destruct (nth_error (ed_ports (get_def rk s)) pk) as [p|] eqn:P; [|discriminate].
        rewrite nth_error_app1 by (apply nth_error_Some; congruence). rewrite P. exact H.
    + rewrite (Fo k Hk1 Hk2). exact H.
Qed.

Lemma pin_endpoint_frame cur rk s s' p e : conn_frame cur rk s s' -> cur <> rk ->
  pin_endpoint s (get_def cur s) p = Some e -> pin_endpoint s' (get_def cur s') p = Some e.
Proof.
  intros F Hne H. pose proof F as [Fn Fo Fc Fr].
  destruct (cables_ext_fields _ _ Fc) as (_ & Fp & Fi & _). cbn [ed_ports ed_insts set_conn] in Fp, Fi.
  destruct p as [pk ord|ii pk ord]; cbn [pin_endpoint] in *.
  - destruct (pin_bit (ed_ports (get_def cur s)) pk ord) as [[lb i]|] eqn:B; [|discriminate].
    rewrite (pin_bit_frame cur rk s s' cur pk ord _ F Hne B). exact H.
  - rewrite Fi. destruct (nth_error (ed_insts (get_def cur s)) ii) as [i|]; [|discriminate].
    destruct (ei_ref i) as [n|w]; cbn [is_assign ref_ports] in *; [|discriminate].
    rewrite (find_def_names n s s' Fn). destruct (find_def n s) as [k|]; [|destruct pk; discriminate].
    destruct (pin_bit (ed_ports (get_def k s)) pk ord) as [[lb b]|] eqn:B; [|discriminate].
    rewrite (pin_bit_frame cur rk s s' k pk ord _ F Hne B). exact H.
Qed.

Lemma pin_endpoint_assign_frame cur rk s s' ii pk ord i w : conn_frame cur rk s s' ->
  nth_error (ed_insts (get_def cur s)) ii = Some i -> ei_ref i = RAssign w ->
  pin_endpoint s' (get_def cur s') (POuter ii pk ord) = None.
Proof.
  intros [_ _ Fc _] Hi Hr. destruct (cables_ext_fields _ _ Fc) as (_ & _ & Fi & _). cbn [ed_insts set_conn] in Fi.
  cbn [pin_endpoint]. rewrite Fi, Hi, Hr. reflexivity.
Qed.

Lemma wire_label_frame cur rk s s' w r : conn_frame cur rk s s' ->
  wire_label (get_def cur s) w = Some r -> wire_label (get_def cur s') w = Some r.
Proof.
  intros [_ _ Fc _] H. assert (X := wire_label_ext _ _ w r Fc H). exact X.
Qed.

(* the resolved part of the connections of a definition *)
Definition resolved (s : estate) (d : edef) (L : list (endpoint * bitref)) : Prop :=
  lconn s d = map (fun er => (Some (fst er), Some (snd er))) L.

Lemma resolved_frame cur rk s s' L new : conn_frame cur rk s s' -> cur <> rk ->
  resolved s (get_def cur s) L -> ed_conn (get_def cur s') = ed_conn (get_def cur s) ++ new ->
  lconn s' (get_def cur s') = map (fun er => (Some (fst er), Some (snd er))) L ++
                              map (fun pw => (pin_endpoint s' (get_def cur s') (fst pw), wire_label (get_def cur s') (snd pw))) new.
Proof.
  intros F Hne R Hc. unfold lconn. rewrite Hc, map_app. f_equal.
  unfold resolved, lconn in R.
  assert (G : forall l (L0 : list (endpoint * bitref)),
            map (fun pw : epin * ewire => (pin_endpoint s (get_def cur s) (fst pw), wire_label (get_def cur s) (snd pw))) l =
            map (fun er => (Some (fst er), Some (snd er))) L0 ->
            map (fun pw : epin * ewire => (pin_endpoint s' (get_def cur s') (fst pw), wire_label (get_def cur s') (snd pw))) l =
            map (fun er => (Some (fst er), Some (snd er))) L0).
  { induction l as [|[p w] l IH]; intros [|[e r] L0] R0; cbn in *; try discriminate; [reflexivity|].
    injection R0 as R1 R2 R3. rewrite (pin_endpoint_frame cur rk s s' p e F Hne R1), (wire_label_frame cur rk s s' w r F R2). f_equal. apply IH. exact R3. }
  apply G. exact R.
Qed.

(* what a named connection means: bit k of the expression on bit k of the port *)
Definition conn_meaning (iname : str) (E : cenv) (pc : str * option dexpr) : list (endpoint * bitref) :=
  match snd pc with
  | None => []
  | Some e => map (fun kr => (EInst iname (LName (fst pc)) (Z.of_nat (fst kr)), snd kr)) (rev (number (dexpr_bits E e)))
  end.

Definition conn_typed (E : cenv) (pc : str * option dexpr) : Prop :=
  match snd pc with Some e => dexpr_typed E e | None => True end.

Definition all_lo0 (d : edef) : Prop := forall p, In p (ed_ports d) -> b_lo (ep_b p) = 0.

Lemma all_lo0_lo0 d n : all_lo0 d -> lo0 d n.
Proof. intros H pk p _ P. apply H. eapply nth_error_In. exact P. Qed.

Lemma port_made_all_lo0 name m rd rd' pk : port_made name m rd rd' pk -> all_lo0 rd -> all_lo0 rd'.
Proof.
  intros [_ Hl Hx Ho (p' & P' & _ & Lo' & _ & _ & Pold & Pnew)] H p Hp.
  apply In_nth_error in Hp. destruct Hp as (j & Hj).
  destruct (Nat.eq_dec j pk) as [->|Hne]; [rewrite P' in Hj; inversion Hj; subst; exact Lo'|].
  assert (Lj : (j < length (ed_ports rd'))%nat) by (apply nth_error_Some; congruence).
  assert (Hlt : (j < length (ed_ports rd))%nat).
  { destruct (nth_error (ed_ports rd) pk) as [p0|] eqn:P0; [lia|]. specialize (Pnew eq_refl). lia. }
  rewrite (Ho j Hne Hlt) in Hj. apply H. eapply nth_error_In. exact Hj.
Qed.

Lemma crange_set_conn d c : crange (set_conn d c) = crange d.
Proof. reflexivity. Qed.

Lemma dexpr_typed_ext d d' e : cables_ext d d' -> dexpr_typed (crange d) e -> dexpr_typed (crange d') e.
Proof.
  intros X T. destruct e as [a|l]; cbn in *; [eapply datom_typed_ext; eassumption|].
  destruct T as [Hne T]. split; [exact Hne|]. apply Forall_forall. intros a Ha. eapply datom_typed_ext; [exact X|].
  eapply (proj1 (Forall_forall _ _) T). exact Ha.
Qed.

Lemma dexpr_bits_ext d d' e : cables_ext d d' -> dexpr_typed (crange d) e -> dexpr_bits (crange d') e = dexpr_bits (crange d) e.
Proof.
  intros X T. destruct e as [a|l]; cbn in *; [eapply datom_bits_ext; eassumption|].
  destruct T as [_ T]. apply flat_map_ext_in'. intros a Ha. eapply datom_bits_ext; [exact X|].
  eapply (proj1 (Forall_forall _ _) T). apply in_rev. exact Ha.
Qed.

Lemma conn_meaning_ext d d' i pc : cables_ext d d' -> conn_typed (crange d) pc -> conn_meaning i (crange d') pc = conn_meaning i (crange d) pc.
Proof.
  intros X T. unfold conn_meaning, conn_typed in *. destruct (snd pc) as [e|]; [|reflexivity]. rewrite (dexpr_bits_ext d d' e X T). reflexivity.
Qed.

Lemma name_kept s s' k : names s' = names s -> (k < length (st_defs s))%nat -> ed_name (get_def k s') = ed_name (get_def k s).
Proof.
  intros N Hk. assert (N' : names s' = names s ++ []) by (rewrite app_nil_r; exact N).
  destruct (names_prefix_get s s' [] k N' Hk) as [_ E]. exact E.
Qed.

(* one named connection keeps the resolved connections and adds its meaning *)
Theorem named_conn_resolved cur ii rk pc s s' inst L :
  Inv s -> cur <> rk -> (cur < length (st_defs s))%nat -> (rk < length (st_defs s))%nat ->
  nth_error (ed_insts (get_def cur s)) ii = Some inst -> ei_ref inst = RName (ed_name (get_def rk s)) ->
  conn_typed (crange (get_def cur s)) pc -> all_lo0 (get_def rk s) -> has_glob (fst pc) = false ->
  resolved s (get_def cur s) L -> named_conn cur ii rk pc s = Ok s' ->
  resolved s' (get_def cur s') (L ++ conn_meaning (ei_name inst) (crange (get_def cur s)) pc) /\
  conn_frame cur rk s s' /\ all_lo0 (get_def rk s') /\ ed_insts (get_def cur s') = ed_insts (get_def cur s) /\
  cables_ext (get_def cur s) (set_conn (get_def cur s') (ed_conn (get_def cur s))).
Proof.
  intros I Hne Hc Hr Hi Href T A0 G R H. destruct pc as [pname [e|]]; cbn [fst snd] in *.
  - unfold conn_typed in T. cbn [snd] in T.
    destruct (named_conn_spec cur ii rk pname e s s' inst I Hne Hc Hr Hi Href T (all_lo0_lo0 _ _ A0) H) as (pk & new & Ce & Cn & PM & Fo & Nm & Lab).
    assert (F : conn_frame cur rk s s') by (constructor; [exact Nm|exact Fo|exact Ce|left; eauto]).
    split; [|split; [exact F|split; [eapply port_made_all_lo0; eassumption|]]].
    + unfold resolved. rewrite (resolved_frame cur rk s s' L new F Hne R Cn). rewrite Lab. unfold conn_meaning. cbn [fst snd].
      rewrite map_app, map_map. reflexivity.
    + destruct (cables_ext_fields _ _ Ce) as (_ & _ & Fi & _). cbn in Fi. split; [exact Fi|exact Ce].
  - (* .p(): nothing is connected; the port is created on the referenced definition if it is not there *)
    unfold named_conn in H. rewrite G in H. inversion H; subst s'. clear H.
    assert (DIr : DInv (get_def rk s)) by (apply get_def_dinv; exact I).
    pose proof (cou_port_on_instance pname 1 (get_def rk s) DIr (all_lo0_lo0 _ _ A0) ltac:(lia)) as PM. cbn zeta in PM.
    change (Z.of_nat 1 - 1)%Z with 0%Z in PM.
    set (s' := upd_def rk (fun rd => fst (cou_port pname (Some 0) (Some 0) None false rd)) s) in *.
    assert (Es : s' = put_def rk (fst (cou_port pname (Some 0) (Some 0) None false (get_def rk s))) s).
    { unfold s', put_def, upd_def. f_equal. apply nth_upd_ext. intros x Hx.
      unfold get_def. rewrite (nth_default_error _ _ _ _ Hx). reflexivity. }
    assert (Gc : get_def cur s' = get_def cur s) by (rewrite Es; apply get_put_other; exact Hne).
    assert (Gr : get_def rk s' = fst (cou_port pname (Some 0) (Some 0) None false (get_def rk s))) by (rewrite Es; apply get_put_same; exact Hr).
    assert (Nm : names s' = names s).
    { rewrite Es. apply names_put. destruct PM as [E _ _ _ _]. rewrite E. reflexivity. }
    assert (F : conn_frame cur rk s s').
    { constructor; [exact Nm| | |].
      - intros k _ Hk. rewrite Es. apply get_put_other. exact Hk.
      - rewrite Gc. replace (set_conn (get_def cur s) (ed_conn (get_def cur s))) with (get_def cur s) by (destruct (get_def cur s); reflexivity).
        apply cables_ext_refl.
      - left. exists pname, 1%nat, (snd (cou_port pname (Some 0) (Some 0) None false (get_def rk s))). rewrite Gr. exact PM. }
    split; [|split; [exact F|split; [rewrite Gr; eapply port_made_all_lo0; eassumption|]]].
    + unfold conn_meaning. cbn [snd]. rewrite app_nil_r. unfold resolved.
      assert (X := resolved_frame cur rk s s' L [] F Hne R ltac:(rewrite Gc, app_nil_r; reflexivity)). cbn [map] in X. rewrite app_nil_r in X. exact X.
    + rewrite Gc. split; [reflexivity|]. replace (set_conn (get_def cur s) (ed_conn (get_def cur s))) with (get_def cur s) by (destruct (get_def cur s); reflexivity).
      apply cables_ext_refl.
Qed.

Lemma cables_ext_reconn d1 d2 c : cables_ext d1 (set_conn d2 (ed_conn d1)) -> cables_ext (set_conn d1 c) (set_conn d2 c).
Proof.
  intros [R M]. constructor.
  - cbn [ed_cables set_conn] in *. destruct d1, d2; cbn in *. injection R as -> -> -> -> -> -> ->. reflexivity.
  - exact M.
Qed.

Lemma set_conn_same d : set_conn d (ed_conn d) = d.
Proof. destruct d; reflexivity. Qed.

Lemma set_conn_twice d a b : set_conn (set_conn d a) b = set_conn d b.
Proof. reflexivity. Qed.

(* all the named connections of one instance *)
Theorem named_conns_resolved cur ii rk inst l : forall s s' L,
  Inv s -> cur <> rk -> (cur < length (st_defs s))%nat -> (rk < length (st_defs s))%nat ->
  nth_error (ed_insts (get_def cur s)) ii = Some inst -> ei_ref inst = RName (ed_name (get_def rk s)) ->
  Forall (conn_typed (crange (get_def cur s))) l -> Forall (fun pc => has_glob (fst pc) = false) l ->
  all_lo0 (get_def rk s) -> resolved s (get_def cur s) L ->
  fold_res (named_conn cur ii rk) l s = Ok s' ->
  resolved s' (get_def cur s') (L ++ flat_map (conn_meaning (ei_name inst) (crange (get_def cur s))) l) /\
  Inv s' /\ names s' = names s /\ length (st_defs s') = length (st_defs s) /\ all_lo0 (get_def rk s') /\
  ed_insts (get_def cur s') = ed_insts (get_def cur s) /\
  cables_ext (get_def cur s) (set_conn (get_def cur s') (ed_conn (get_def cur s))).
Proof.
  induction l as [|pc l IH]; intros s s' L I Hne Hc Hr Hi Href T G A0 R H; cbn [fold_res] in H.
  - inversion H; subst s'. cbn [flat_map]. rewrite app_nil_r. split; [exact R|]. split; [exact I|]. split; [reflexivity|].
    split; [reflexivity|]. split; [exact A0|]. split; [reflexivity|]. rewrite set_conn_same. apply cables_ext_refl.
  - apply bind_ok in H. destruct H as (s1 & H1 & H2).
    inversion T as [|? ? T0 Tl]; subst. inversion G as [|? ? G0 Gl]; subst.
    destruct (named_conn_resolved cur ii rk pc s s1 inst L I Hne Hc Hr Hi Href T0 A0 G0 R H1) as (R1 & F1 & A1 & Fi1 & Ce1).
    destruct (named_conn_inv _ _ _ _ _ _ H1 I) as [I1 L1].
    pose proof (cf_names _ _ _ _ F1) as N1.
    assert (Tl1 : Forall (conn_typed (crange (get_def cur s1))) l).
    { apply Forall_forall. intros x Hx. assert (Tx := proj1 (Forall_forall _ _) Tl x Hx). unfold conn_typed in *.
      destruct (snd x) as [e|]; [|exact Logic.I]. exact (dexpr_typed_ext _ _ e Ce1 Tx). }
    assert (Href1 : ei_ref inst = RName (ed_name (get_def rk s1))) by (rewrite (name_kept s s1 rk N1 Hr); exact Href).
    assert (Hi1 : nth_error (ed_insts (get_def cur s1)) ii = Some inst) by (rewrite Fi1; exact Hi).
    assert (Hc1 : (cur < length (st_defs s1))%nat) by lia. assert (Hr1 : (rk < length (st_defs s1))%nat) by lia.
    destruct (IH s1 s' _ I1 Hne Hc1 Hr1 Hi1 Href1 Tl1 Gl A1 R1 H2) as (R2 & I2 & N2 & L2 & A2 & Fi2 & Ce2).
    split; [|split; [exact I2|split; [congruence|split; [lia|split; [exact A2|split; [congruence|]]]]]].
    + cbn [flat_map]. rewrite app_assoc.
      replace (flat_map (conn_meaning (ei_name inst) (crange (get_def cur s))) l)
        with (flat_map (conn_meaning (ei_name inst) (crange (get_def cur s1))) l); [exact R2|].
      apply flat_map_ext_in'. intros x Hx. exact (conn_meaning_ext _ _ (ei_name inst) x Ce1 (proj1 (Forall_forall _ _) Tl x Hx)).
    + eapply cables_ext_trans; [exact Ce1|].
      apply (cables_ext_reconn (get_def cur s1) (get_def cur s') (ed_conn (get_def cur s))). exact Ce2.
Qed.

(* the same, read off the netlist value: after the port map of an instance, the nets of the module are the nets it had
   plus, for every connection .p(e), bit k of e joined to bit k of port p of the instance *)
Theorem instance_nets cur ii rk inst l s s' L :
  Inv s -> cur <> rk -> (cur < length (st_defs s))%nat -> (rk < length (st_defs s))%nat ->
  nth_error (ed_insts (get_def cur s)) ii = Some inst -> ei_ref inst = RName (ed_name (get_def rk s)) ->
  Forall (conn_typed (crange (get_def cur s))) l -> Forall (fun pc => has_glob (fst pc) = false) l ->
  all_lo0 (get_def rk s) -> resolved s (get_def cur s) L ->
  fold_res (named_conn cur ii rk) l s = Ok s' ->
  forall r e, In e (net_of r (abs_def s' (get_def cur s'))) <->
              In e (net_of r (abs_def s (get_def cur s))) \/
              exists pc, In pc l /\ In (e, r) (conn_meaning (ei_name inst) (crange (get_def cur s)) pc).
Proof.
  intros I Hne Hc Hr Hi Href T G A0 R H r e.
  destruct (named_conns_resolved cur ii rk inst l s s' L I Hne Hc Hr Hi Href T G A0 R H) as (R2 & I2 & _).
  rewrite (net_of_lconn s' _ r e (get_def_dinv cur s' I2)), (net_of_lconn s _ r e (get_def_dinv cur s I)).
  unfold resolved in R, R2. rewrite R, R2. rewrite !in_map_iff. split.
  - intros ([e0 r0] & E & Hin). cbn in E. inversion E; subst e0 r0. apply in_app_iff in Hin. destruct Hin as [Hin|Hin].
    + left. exists (e, r). split; [reflexivity|exact Hin].
    + right. apply in_flat_map in Hin. exact Hin.
  - intros [([e0 r0] & E & Hin)|(pc & Hpc & Hin)].
    + cbn in E. inversion E; subst e0 r0. exists (e, r). split; [reflexivity|]. apply in_app_iff. left. exact Hin.
    + exists (e, r). split; [reflexivity|]. apply in_app_iff. right. apply in_flat_map. exists pc. split; assumption.
Qed.

(* every connection of the definition shows in the netlist value: its wire has a label, its pin is a port bit - or
   it is a pin of an assignment instance (those are reported as assigns, not as endpoints) *)
Definition assign_pin (d : edef) (p : epin) : Prop :=
  match p with POuter ii _ _ => exists i w, nth_error (ed_insts d) ii = Some i /\ ei_ref i = RAssign w | PInner _ _ => False end.

Definition visible (s : estate) (d : edef) : Prop :=
  forall p w, In (p, w) (ed_conn d) -> wire_label d w <> None /\ (pin_endpoint s d p <> None \/ assign_pin d p).

Lemma visible_frame cur rk s s' p w : conn_frame cur rk s s' -> cur <> rk -> visible s (get_def cur s) ->
  In (p, w) (ed_conn (get_def cur s)) ->
  (wire_label (get_def cur s') w <> None /\ (pin_endpoint s' (get_def cur s') p <> None \/ assign_pin (get_def cur s') p)) /\
  forall e r, (pin_endpoint s' (get_def cur s') p = Some e /\ wire_label (get_def cur s') w = Some r) <->
              (pin_endpoint s (get_def cur s) p = Some e /\ wire_label (get_def cur s) w = Some r).
Proof.
  intros F Hne V Hin. destruct (V p w Hin) as [Vw Vp].
  destruct (wire_label (get_def cur s) w) as [r0|] eqn:W0; [|congruence].
  pose proof (wire_label_frame cur rk s s' w r0 F W0) as W1.
  assert (Fi : ed_insts (get_def cur s') = ed_insts (get_def cur s)).
  { destruct (cables_ext_fields _ _ (cf_cur _ _ _ _ F)) as (_ & _ & Fi & _). exact Fi. }
  destruct Vp as [Vp|Vp].
  - destruct (pin_endpoint s (get_def cur s) p) as [e0|] eqn:P0; [|congruence].
    pose proof (pin_endpoint_frame cur rk s s' p e0 F Hne P0) as P1. split.
    + split; [congruence|left; congruence].
    + intros e r. rewrite P1, W1. reflexivity.
  - destruct p as [pk o|ii pk o]; [contradiction|]. destruct Vp as (i & wd & Hi & Hr).
    pose proof (pin_endpoint_assign_frame cur rk s s' ii pk o i wd F Hi Hr) as P1.
    assert (P0 : pin_endpoint s (get_def cur s) (POuter ii pk o) = None) by (cbn; rewrite Hi, Hr; reflexivity).
    split.
    + split; [congruence|right]. cbn. rewrite Fi. eauto.
    + intros e r. rewrite P1, P0. split; intros [X _]; discriminate.
Qed.

(* .p(): nothing is connected; the port is created on the referenced definition if it is not there *)
Lemma named_conn_none_frame cur ii rk pname s s' : Inv s -> cur <> rk -> (rk < length (st_defs s))%nat ->
  all_lo0 (get_def rk s) -> has_glob pname = false -> named_conn cur ii rk (pname, None) s = Ok s' ->
  conn_frame cur rk s s' /\ all_lo0 (get_def rk s') /\ get_def cur s' = get_def cur s.
Proof.
  intros I Hne Hr A0 G H. unfold named_conn in H. rewrite G in H. inversion H; subst s'. clear H.
  assert (DIr : DInv (get_def rk s)) by (apply get_def_dinv; exact I).
  pose proof (cou_port_on_instance pname 1 (get_def rk s) DIr (all_lo0_lo0 _ _ A0) ltac:(lia)) as PM. cbn zeta in PM.
  change (Z.of_nat 1 - 1)%Z with 0%Z in PM.
  set (s' := upd_def rk (fun rd => fst (cou_port pname (Some 0) (Some 0) None false rd)) s) in *.
  assert (Es : s' = put_def rk (fst (cou_port pname (Some 0) (Some 0) None false (get_def rk s))) s).
  { unfold s', put_def, upd_def. f_equal. apply nth_upd_ext. intros x Hx.
    unfold get_def. rewrite (nth_default_error _ _ _ _ Hx). reflexivity. }
  assert (Gc : get_def cur s' = get_def cur s) by (rewrite Es; apply get_put_other; exact Hne).
  assert (Gr : get_def rk s' = fst (cou_port pname (Some 0) (Some 0) None false (get_def rk s))) by (rewrite Es; apply get_put_same; exact Hr).
  assert (Nm : names s' = names s).
  { rewrite Es. apply names_put. destruct PM as [E _ _ _ _]. rewrite E. reflexivity. }
  split; [|split; [rewrite Gr; eapply port_made_all_lo0; eassumption|exact Gc]].
  constructor; [exact Nm| | |].
  - intros k _ Hk. rewrite Es. apply get_put_other. exact Hk.
  - rewrite Gc, set_conn_same. apply cables_ext_refl.
  - left. exists pname, 1%nat, (snd (cou_port pname (Some 0) (Some 0) None false (get_def rk s))). rewrite Gr. exact PM.
Qed.

(* one named connection: what was visible stays so with the same meaning; the new connections are visible and mean
   bit k of the expression on bit k of the port *)
Theorem named_conn_visible cur ii rk pc s s' inst :
  Inv s -> cur <> rk -> (cur < length (st_defs s))%nat -> (rk < length (st_defs s))%nat ->
  nth_error (ed_insts (get_def cur s)) ii = Some inst -> ei_ref inst = RName (ed_name (get_def rk s)) ->
  conn_typed (crange (get_def cur s)) pc -> all_lo0 (get_def rk s) -> has_glob (fst pc) = false ->
  visible s (get_def cur s) -> named_conn cur ii rk pc s = Ok s' ->
  visible s' (get_def cur s') /\
  (forall e r, In (Some e, Some r) (lconn s' (get_def cur s')) <->
               In (Some e, Some r) (lconn s (get_def cur s)) \/ In (e, r) (conn_meaning (ei_name inst) (crange (get_def cur s)) pc)) /\
  conn_frame cur rk s s' /\ all_lo0 (get_def rk s') /\
  cables_ext (get_def cur s) (set_conn (get_def cur s') (ed_conn (get_def cur s))).
Proof.
  intros I Hne Hc Hr Hi Href T A0 G V H.
  assert (X : exists new, conn_frame cur rk s s' /\ all_lo0 (get_def rk s') /\
              ed_conn (get_def cur s') = ed_conn (get_def cur s) ++ new /\
              map (fun pw => (pin_endpoint s' (get_def cur s') (fst pw), wire_label (get_def cur s') (snd pw))) new =
              map (fun er => (Some (fst er), Some (snd er))) (conn_meaning (ei_name inst) (crange (get_def cur s)) pc)).
  { destruct pc as [pname [e|]]; cbn [fst snd] in *.
    - unfold conn_typed in T. cbn [snd] in T.
      destruct (named_conn_spec cur ii rk pname e s s' inst I Hne Hc Hr Hi Href T (all_lo0_lo0 _ _ A0) H) as (pk & new & Ce & Cn & PM & Fo & Nm & Lab).
      exists new. split; [constructor; [exact Nm|exact Fo|exact Ce|left; eauto]|]. split; [eapply port_made_all_lo0; eassumption|].
      split; [exact Cn|]. rewrite Lab. unfold conn_meaning. cbn [fst snd]. rewrite map_map. reflexivity.
    - destruct (named_conn_none_frame cur ii rk pname s s' I Hne Hr A0 G H) as (F & A1 & Gc).
      exists []. split; [exact F|]. split; [exact A1|]. split; [rewrite Gc, app_nil_r; reflexivity|reflexivity]. }
  destruct X as (new & F & A1 & Cn & Lab).
  split; [|split; [|split; [exact F|split; [exact A1|exact (cf_cur _ _ _ _ F)]]]].
  - (* visible afterwards *)
    intros p w Hin. rewrite Cn in Hin. apply in_app_iff in Hin. destruct Hin as [Hin|Hin].
    + exact (proj1 (visible_frame cur rk s s' p w F Hne V Hin)).
    + assert (Y : In (pin_endpoint s' (get_def cur s') p, wire_label (get_def cur s') w)
                     (map (fun pw => (pin_endpoint s' (get_def cur s') (fst pw), wire_label (get_def cur s') (snd pw))) new)).
      { apply in_map_iff. exists (p, w). split; [reflexivity|exact Hin]. }
      rewrite Lab in Y. apply in_map_iff in Y. destruct Y as ([e r] & E & _). cbn in E. inversion E as [[E1 E2]].
      split; [congruence|left; congruence].
  - (* the meaning *)
    intros e r. unfold lconn. rewrite Cn, map_app, in_app_iff. rewrite Lab.
    assert (Old : In (Some e, Some r) (map (fun pw => (pin_endpoint s' (get_def cur s') (fst pw), wire_label (get_def cur s') (snd pw))) (ed_conn (get_def cur s))) <->
                  In (Some e, Some r) (map (fun pw => (pin_endpoint s (get_def cur s) (fst pw), wire_label (get_def cur s) (snd pw))) (ed_conn (get_def cur s)))).
    { rewrite !in_map_iff. split; intros ([p w] & E & Hin); exists (p, w); (split; [|exact Hin]); cbn [fst snd] in *;
        injection E as E1 E2; destruct (proj2 (visible_frame cur rk s s' p w F Hne V Hin) e r) as [Fw Bw].
      - destruct (Fw (conj E1 E2)) as [A B]. rewrite A, B. reflexivity.
      - destruct (Bw (conj E1 E2)) as [A B]. rewrite A, B. reflexivity. }
    rewrite Old. split; (intros [A|B]; [left; exact A|right]).
    + apply in_map_iff in B. destruct B as ([e0 r0] & E & Hin). cbn in E. inversion E; subst. exact Hin.
    + apply in_map_iff. exists (e, r). split; [reflexivity|exact B].
Qed.

(* all the named connections of one instance *)
Theorem named_conns_visible cur ii rk inst l : forall s s',
  Inv s -> cur <> rk -> (cur < length (st_defs s))%nat -> (rk < length (st_defs s))%nat ->
  nth_error (ed_insts (get_def cur s)) ii = Some inst -> ei_ref inst = RName (ed_name (get_def rk s)) ->
  Forall (conn_typed (crange (get_def cur s))) l -> Forall (fun pc => has_glob (fst pc) = false) l ->
  all_lo0 (get_def rk s) -> visible s (get_def cur s) ->
  fold_res (named_conn cur ii rk) l s = Ok s' ->
  visible s' (get_def cur s') /\ Inv s' /\
  (forall e r, In (Some e, Some r) (lconn s' (get_def cur s')) <->
               In (Some e, Some r) (lconn s (get_def cur s)) \/
               exists pc, In pc l /\ In (e, r) (conn_meaning (ei_name inst) (crange (get_def cur s)) pc)) /\
  names s' = names s /\ length (st_defs s') = length (st_defs s) /\ all_lo0 (get_def rk s') /\
  ed_insts (get_def cur s') = ed_insts (get_def cur s) /\
  cables_ext (get_def cur s) (set_conn (get_def cur s') (ed_conn (get_def cur s))).
Proof.
  induction l as [|pc l IH]; intros s s' I Hne Hc Hr Hi Href T G A0 V H; cbn [fold_res] in H.
  - inversion H; subst s'. split; [exact V|]. split; [exact I|]. split.
    + intros e r. split; [intro X; left; exact X|intros [X|(pc & [] & _)]; exact X].
    + split; [reflexivity|]. split; [reflexivity|]. split; [exact A0|]. split; [reflexivity|]. rewrite set_conn_same. apply cables_ext_refl.
  - apply bind_ok in H. destruct H as (s1 & H1 & H2).
    inversion T as [|? ? T0 Tl]; subst. inversion G as [|? ? G0 Gl]; subst.
    destruct (named_conn_visible cur ii rk pc s s1 inst I Hne Hc Hr Hi Href T0 A0 G0 V H1) as (V1 & M1 & F1 & A1 & Ce1).
    destruct (named_conn_inv _ _ _ _ _ _ H1 I) as [I1 L1].
    pose proof (cf_names _ _ _ _ F1) as N1.
    assert (Fi1 : ed_insts (get_def cur s1) = ed_insts (get_def cur s)).
    { destruct (cables_ext_fields _ _ Ce1) as (_ & _ & Fi & _). exact Fi. }
    assert (Tl1 : Forall (conn_typed (crange (get_def cur s1))) l).
    { apply Forall_forall. intros x Hx. assert (Tx := proj1 (Forall_forall _ _) Tl x Hx). unfold conn_typed in *.
      destruct (snd x) as [e|]; [|exact Logic.I]. exact (dexpr_typed_ext _ _ e Ce1 Tx). }
    assert (Href1 : ei_ref inst = RName (ed_name (get_def rk s1))) by (rewrite (name_kept s s1 rk N1 Hr); exact Href).
    assert (Hi1 : nth_error (ed_insts (get_def cur s1)) ii = Some inst) by (rewrite Fi1; exact Hi).
    assert (Hc1 : (cur < length (st_defs s1))%nat) by lia. assert (Hr1 : (rk < length (st_defs s1))%nat) by lia.
    destruct (IH s1 s' I1 Hne Hc1 Hr1 Hi1 Href1 Tl1 Gl A1 V1 H2) as (V2 & I2 & M2 & N2 & L2 & A2 & Fi2 & Ce2).
    split; [exact V2|]. split; [exact I2|]. split; [|split; [congruence|split; [lia|split; [exact A2|split; [congruence|]]]]].
    + intros e r. rewrite M2, M1. split.
      * intros [[X|X]|(x & Hx & X)]; [left; exact X|right; exists pc; split; [left; reflexivity|exact X]|].
        right. exists x. split; [right; exact Hx|].
        assert (Ex : conn_meaning (ei_name inst) (crange (get_def cur s1)) x = conn_meaning (ei_name inst) (crange (get_def cur s)) x)
          by exact (conn_meaning_ext _ _ (ei_name inst) x Ce1 (proj1 (Forall_forall _ _) Tl x Hx)).
        rewrite <- Ex. exact X.
      * intros [X|(x & [<-|Hx] & X)]; [left; left; exact X|left; right; exact X|].
        right. exists x. split; [exact Hx|].
        assert (Ex : conn_meaning (ei_name inst) (crange (get_def cur s1)) x = conn_meaning (ei_name inst) (crange (get_def cur s)) x)
          by exact (conn_meaning_ext _ _ (ei_name inst) x Ce1 (proj1 (Forall_forall _ _) Tl x Hx)).
        rewrite Ex. exact X.
    + eapply cables_ext_trans; [exact Ce1|].
      apply (cables_ext_reconn (get_def cur s1) (get_def cur s') (ed_conn (get_def cur s))). exact Ce2.
Qed.

(* read off the netlist value *)
Theorem instance_nets_visible cur ii rk inst l s s' :
  Inv s -> cur <> rk -> (cur < length (st_defs s))%nat -> (rk < length (st_defs s))%nat ->
  nth_error (ed_insts (get_def cur s)) ii = Some inst -> ei_ref inst = RName (ed_name (get_def rk s)) ->
  Forall (conn_typed (crange (get_def cur s))) l -> Forall (fun pc => has_glob (fst pc) = false) l ->
  all_lo0 (get_def rk s) -> visible s (get_def cur s) ->
  fold_res (named_conn cur ii rk) l s = Ok s' ->
  visible s' (get_def cur s') /\
  forall r e, In e (net_of r (abs_def s' (get_def cur s'))) <->
              In e (net_of r (abs_def s (get_def cur s))) \/
              exists pc, In pc l /\ In (e, r) (conn_meaning (ei_name inst) (crange (get_def cur s)) pc).
Proof.
  intros I Hne Hc Hr Hi Href T G A0 V H.
  destruct (named_conns_visible cur ii rk inst l s s' I Hne Hc Hr Hi Href T G A0 V H) as (V2 & I2 & M & _).
  split; [exact V2|]. intros r e.
  rewrite (net_of_lconn s' _ r e (get_def_dinv cur s' I2)), (net_of_lconn s _ r e (get_def_dinv cur s I)). apply M.
Qed.

Lemma resolved_visible s d L : resolved s d L -> visible s d.
Proof.
  intros R p w Hin. unfold resolved, lconn in R.
  assert (X : In (pin_endpoint s d p, wire_label d w) (map (fun er : endpoint * bitref => (Some (fst er), Some (snd er))) L)).
  { rewrite <- R. apply in_map_iff. exists (p, w). split; [reflexivity|exact Hin]. }
  apply in_map_iff in X. destruct X as ([e r] & E & _). cbn in E. injection E as E1 E2. split; [congruence|left; congruence].
Qed.
