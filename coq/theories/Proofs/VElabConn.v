(* Engine `verilog`, document-level reader: the effect of one named connection .p(e) of an instance
   (parse_port_map_single) and of one position of a positional port map (connect_implicitly_mapped_ports), exactly: which connections are added - bit k of the expression to bit k of the port, the
   port being created or widened on the referenced definition when needed - and that nothing else changes. *)
From Coq Require Import List ZArith Bool Arith Lia Sorted Permutation.
From SV Require Import Base.Base Fmt.VBits Fmt.VExpr Fmt.VTop Fmt.VDoc Fmt.VElab Fmt.VSpec Fmt.VSem
  Proofs.VerilogLists Proofs.VerilogSlice Proofs.VerilogGrow Proofs.VerilogPort Proofs.VElabBase Proofs.VElabInv Proofs.VElabWf
  Proofs.VElabExpr.
Import ListNotations.
Open Scope Z_scope.

(* ---------- state algebra ---------- *)
Lemma get_put_same k d s : (k < length (st_defs s))%nat -> get_def k (put_def k d s) = d.
Proof.
  intro H. unfold get_def, put_def, upd_def. cbn.
  destruct (nth_error (st_defs s) k) as [x|] eqn:E; [|apply nth_error_None in E; lia].
  apply nth_default_error with (d := dummy_def). apply (nth_upd_same k (fun _ => d) _ x E).
Qed.

Lemma get_put_other k j d s : j <> k -> get_def j (put_def k d s) = get_def j s.
Proof.
  intro H. unfold get_def, put_def, upd_def. cbn.
  assert (E := nth_upd_other k j (fun _ : edef => d) (st_defs s) H).
  destruct (nth_error (st_defs s) j) as [x|] eqn:Ex.
  - rewrite (nth_default_error _ _ _ _ Ex). apply nth_default_error. exact E.
  - rewrite (nth_overflow _ _ (proj1 (nth_error_None _ _) Ex)). apply nth_overflow. rewrite nth_upd_length. apply nth_error_None. exact Ex.
Qed.

Lemma names_put k d s : ed_name d = ed_name (get_def k s) -> names (put_def k d s) = names s.
Proof.
  intro N. unfold names, put_def, upd_def. cbn. apply nth_upd_map_at. intros x Hx.
  unfold get_def in N. rewrite (nth_default_error _ _ _ _ Hx) in N. exact N.
Qed.

Lemma find_def_names n s s' : names s' = names s -> find_def n s' = find_def n s.
Proof.
  unfold find_def, names. generalize (st_defs s) (st_defs s'). intros l l'. revert l.
  induction l' as [|a l' IH]; intros [|b l] H; cbn in *; try discriminate; [reflexivity|].
  injection H as H1 H2. rewrite H1. rewrite (IH l H2). reflexivity.
Qed.

Lemma find_def_self k s : NoDup (names s) -> (k < length (st_defs s))%nat -> find_def (ed_name (get_def k s)) s = Some k.
Proof.
  intros Hd Hk. destruct (find_def (ed_name (get_def k s)) s) as [j|] eqn:F.
  - destruct (find_def_some _ _ _ F) as [Lj Nj]. f_equal.
    apply (proj1 (NoDup_nth_error (names s)) Hd); [unfold names; rewrite map_length; exact Lj|].
    unfold names. rewrite !nth_error_map. unfold get_def in Nj.
    rewrite (nth_error_nth' _ dummy_def Lj), (nth_error_nth' _ dummy_def Hk). cbn. f_equal. exact Nj.
  - exfalso. assert (X := find_idx_none _ _ F (get_def k s) (get_def_in k s Hk)). cbn in X. rewrite str_eqb_refl in X. discriminate.
Qed.

(* ---------- connect_all ---------- *)
Lemma connect_all_conn l : forall d d', connect_all l d = Ok d' -> d' = set_conn d (ed_conn d ++ map (fun wp => (snd wp, fst wp)) l).
Proof.
  induction l as [|[w p] l IH]; intros d d' H; cbn in H.
  - inversion H; subst. cbn. rewrite app_nil_r. destruct d'; reflexivity.
  - apply bind_ok in H. destruct H as (d1 & H1 & H2). unfold connect in H1. destruct (pin_wire p d); [discriminate|].
    inversion H1; subst d1. rewrite (IH _ _ H2). cbn. rewrite <- app_assoc. reflexivity.
Qed.

(* ---------- alignment ---------- *)
Lemma aligned_spec mk items (ws : list ewire) calls : aligned mk items ws = Ok calls ->
  (length ws <= length items)%nat /\
  calls = combine ws (map (fun k => mk (nth k items O)) (rev (seq 0 (length ws)))).
Proof.
  unfold aligned. destruct (align _ _ ws) as [c|] eqn:A; [|discriminate]. intro H. inversion H; subst calls. clear H.
  assert (L : (length ws <= length items)%nat).
  { unfold align in A. rewrite seq_length in A. destruct (length items <? length ws)%nat eqn:E; [discriminate|]. apply Nat.ltb_ge in E. exact E. }
  split; [exact L|].
  rewrite (lowend_align_lemma ewire ws (seq 0 (length items)) (length items) (Permutation_refl _) L) in A. inversion A; subst c.
  generalize (rev (seq 0 (length ws))). clear. revert ws. intros ws l. revert l.
  induction ws as [|w ws IH]; intros [|k l]; cbn; try reflexivity. rewrite IH. reflexivity.
Qed.

(* ---------- the port of the referenced definition after create_or_update_port_on_instance ---------- *)
Definition lo0 (d : edef) (name : str) : Prop :=
  forall pk p, find_port name d = Some pk -> nth_error (ed_ports d) pk = Some p -> b_lo (ep_b p) = 0.

Record port_made (name : str) (m : nat) (rd rd' : edef) (pk : nat) : Prop := {
  pm_rest : rd' = set_ports rd (ed_ports rd');
  pm_len : (length (ed_ports rd) <= length (ed_ports rd'))%nat;
  pm_exact : length (ed_ports rd') = match nth_error (ed_ports rd) pk with Some _ => length (ed_ports rd) | None => S (length (ed_ports rd)) end;
  pm_others : forall j, j <> pk -> (j < length (ed_ports rd))%nat -> nth_error (ed_ports rd') j = nth_error (ed_ports rd) j;
  pm_port : exists p', nth_error (ed_ports rd') pk = Some p' /\ ep_name p' = Some name /\ b_lo (ep_b p') = 0 /\
                       (m <= length (b_items (ep_b p')))%nat /\ wfb (ep_b p') /\
                       (forall p, nth_error (ed_ports rd) pk = Some p ->
                                  ep_name p = Some name /\ ep_dir p' = ep_dir p /\ b_lo (ep_b p) = 0 /\
                                  exists extra, b_items (ep_b p') = b_items (ep_b p) ++ extra) /\
                       (nth_error (ed_ports rd) pk = None -> pk = length (ed_ports rd)) }.

Lemma cou_port_on_instance name m rd : DInv rd -> lo0 rd name -> (1 <= m)%nat ->
  let r := cou_port name (Some (Z.of_nat m - 1)) (Some 0) None false rd in
  port_made name m rd (fst r) (snd r).
Proof.
  intros DI L0 Hm. unfold cou_port. destruct (find_port name rd) as [k|] eqn:F; cbn [fst snd].
  - destruct (find_idx_some _ _ _ F) as (p & P & Np & _). unfold port_named in Np.
    destruct (ep_name p) as [pn|] eqn:En; [|discriminate]. apply str_eqb_spec in Np. subst pn.
    assert (W : wfb (ep_b p)) by (eapply (proj1 (Forall_forall _ _) (di_ports rd DI)); eapply nth_error_In; exact P).
    assert (Z0 : b_lo (ep_b p) = 0) by (eapply L0; eassumption).
    set (b' := update_port (Some (Z.of_nat m - 1)) (Some 0) false (ep_b p)).
    assert (B : b_lo b' = 0 /\ (m <= length (b_items b'))%nat /\ wfb b' /\ exists extra, b_items b' = b_items (ep_b p) ++ extra).
    { unfold b', update_port. cbn [in_range]. rewrite Z.min_r, Z.max_l by lia. cbn [rebase].
      destruct (Z.eqb_spec (Z.of_nat m - 1 - 0) (Z.of_nat (length (b_items (ep_b p))) - 1)) as [E|E].
      - split; [exact Z0|]. split; [lia|]. split; [exact W|]. exists []. rewrite app_nil_r. reflexivity.
      - unfold grow. rewrite Z0. destruct (Z.ltb_spec 0 0); [lia|].
        destruct (Z.ltb_spec (0 + Z.of_nat (length (b_items (ep_b p))) - 1) (Z.of_nat m - 1)) as [Hlt|Hge].
        + destruct (append_extends (ep_b p) (Z.of_nat m - 1 - (0 + Z.of_nat (length (b_items (ep_b p))) - 1)) W ltac:(lia)) as ((_ & W' & _) & Lo' & _).
          split; [rewrite Lo'; exact Z0|]. split; [|split; [exact W'|]].
          * unfold create_items. cbn. rewrite app_length, seq_length. lia.
          * unfold create_items. cbn. eexists. reflexivity.
        + split; [exact Z0|]. split; [lia|]. split; [exact W|]. exists []. rewrite app_nil_r. reflexivity. }
    destruct B as (B1 & B2 & B3 & B4).
    constructor; cbn.
    + destruct rd; reflexivity.
    + rewrite nth_upd_length. lia.
    + rewrite nth_upd_length, P. reflexivity.
    + intros j Hj _. apply nth_upd_other. exact Hj.
    + eexists. split; [apply (nth_upd_same _ _ _ _ P)|]. cbn. split; [exact En|]. split; [exact B1|]. split; [exact B2|]. split; [exact B3|].
      split; [|intro X; rewrite P in X; discriminate].
      intros p0 P0. rewrite P in P0. inversion P0; subst p0. split; [exact En|]. split; [reflexivity|]. split; [exact Z0|exact B4].
  - constructor; cbn.
    + destruct rd; reflexivity.
    + rewrite app_length. cbn. lia.
    + rewrite app_length. cbn. replace (nth_error (ed_ports rd) (length (ed_ports rd))) with (@None eport) by (symmetry; apply nth_error_None; lia). lia.
    + intros j Hj Hl. apply nth_error_app1. exact Hl.
    + eexists. split; [apply nth_error_app_last|]. cbn. split; [reflexivity|].
      unfold new_bundle. cbn [populate]. rewrite Z.min_r, Z.max_l by lia. cbn.
      split; [reflexivity|]. split; [rewrite seq_length; lia|]. split.
      * assert (X := new_bundle_wfb (Some (Z.of_nat m - 1)) (Some 0)). unfold new_bundle in X. cbn [populate] in X.
        rewrite Z.min_r, Z.max_l in X by lia. exact X.
      * split; [|reflexivity]. intros p P. assert (X : nth_error (ed_ports rd) (length (ed_ports rd)) = None) by (apply nth_error_None; lia). congruence.
Qed.

Lemma map_combine_pair {A B C D} (g : A -> C) (h : B -> D) a b :
  map (fun x => (g (fst x), h (snd x))) (combine a b) = combine (map g a) (map h b).
Proof. revert b. induction a as [|x a IH]; intros [|y b]; cbn; try reflexivity. rewrite IH. reflexivity. Qed.

Lemma combine_app {A B} (a1 a2 : list A) (b1 b2 : list B) : length a1 = length b1 -> combine (a1 ++ a2) (b1 ++ b2) = combine a1 b1 ++ combine a2 b2.
Proof. revert b1. induction a1 as [|x a1 IH]; intros [|y b1] H; cbn in *; try discriminate; [reflexivity|]. rewrite IH by lia. reflexivity. Qed.

Lemma rev_combine {A B} (a : list A) (b : list B) : length a = length b -> rev (combine a b) = combine (rev a) (rev b).
Proof.
  revert b. induction a as [|x a IH]; intros [|y b] H; cbn in *; try discriminate; [reflexivity|].
  rewrite IH by lia. rewrite combine_app by (rewrite !rev_length; lia). reflexivity.
Qed.

Lemma combine_swap {A B} (a : list A) (b : list B) : map (fun wp => (snd wp, fst wp)) (combine a b) = combine b a.
Proof. revert b. induction a as [|x a IH]; intros [|y b]; cbn; try reflexivity. rewrite IH. reflexivity. Qed.

(* the bits of a typed atom are at least one *)
Lemma datom_bits_nonempty d a : DInv d -> datom_typed (crange d) a -> datom_bits (crange d) a <> [].
Proof.
  intros DI [_ T]. unfold datom_bits. destruct (atom_l a) as [h|]; [destruct (atom_r a) as [l|]|].
  - destruct T as (lo & w & _ & _ & Hlh & _). unfold zup. replace (Z.to_nat (h - l + 1)) with (S (Z.to_nat (h - l))) by lia. discriminate.
  - discriminate.
  - unfold crange. destruct (find_cable (atom_name a) d) as [k|] eqn:F; [|discriminate].
    destruct (nth_error (ed_cables d) k) as [c|] eqn:C; [|discriminate].
    assert (W : wfb (ec_b c)) by (eapply (proj1 (Forall_forall _ _) (di_cables d DI)); eapply nth_error_In; exact C).
    destruct W as (Wn & _). unfold zup.
    replace (Z.to_nat (b_lo (ec_b c) + Z.of_nat (length (b_items (ec_b c))) - 1 - b_lo (ec_b c) + 1)) with (S (length (b_items (ec_b c)) - 1)) by lia.
    discriminate.
Qed.

Lemma dexpr_bits_nonempty d e : DInv d -> dexpr_typed (crange d) e -> (1 <= length (dexpr_bits (crange d) e))%nat.
Proof.
  intros DI T. destruct e as [a|l]; cbn in *.
  - assert (X := datom_bits_nonempty d a DI T). destruct (datom_bits (crange d) a); [congruence|cbn; lia].
  - destruct T as [Hne T]. destruct (rev l) as [|a r] eqn:R.
    + apply (f_equal (@rev _)) in R. rewrite rev_involutive in R. cbn in R. congruence.
    + assert (Ta : datom_typed (crange d) a).
      { eapply (proj1 (Forall_forall _ _) T). apply in_rev. rewrite R. left. reflexivity. }
      cbn. rewrite app_length. assert (X := datom_bits_nonempty d a DI Ta). destruct (datom_bits (crange d) a); [congruence|cbn; lia].
Qed.

(* ---------- .pname(e) on an instance ---------- *)
Theorem named_conn_spec cur ii rk pname e s s' inst :
  Inv s -> cur <> rk -> (cur < length (st_defs s))%nat -> (rk < length (st_defs s))%nat ->
  nth_error (ed_insts (get_def cur s)) ii = Some inst -> ei_ref inst = RName (ed_name (get_def rk s)) ->
  dexpr_typed (crange (get_def cur s)) e -> lo0 (get_def rk s) pname ->
  named_conn cur ii rk (pname, Some e) s = Ok s' ->
  let d := get_def cur s in let d' := get_def cur s' in let bits := dexpr_bits (crange d) e in
  exists pk new,
    cables_ext d (set_conn d' (ed_conn d)) /\ ed_conn d' = ed_conn d ++ new /\
    port_made pname (length bits) (get_def rk s) (get_def rk s') pk /\
    (forall k, k <> cur -> k <> rk -> get_def k s' = get_def k s) /\
    names s' = names s /\
    map (fun pw => (pin_endpoint s' d' (fst pw), wire_label d' (snd pw))) new =
      map (fun kr => (Some (EInst (ei_name inst) (LName pname) (Z.of_nat (fst kr))), Some (snd kr))) (rev (number bits)).
Proof.
  intros I Hne Hc Hr Hi Href T L0 H d d' bits.
  unfold named_conn in H. destruct (has_glob pname); [discriminate|].
  apply bind_ok in H. destruct H as ([d1 ws] & H1 & H).
  assert (DI : DInv d) by (apply get_def_dinv; exact I).
  destruct (expr_wires_spec d e d1 ws DI T H1) as (E1 & Lb).
  assert (Lw : length ws = length bits).
  { apply (f_equal (@length _)) in Lb. rewrite !map_length, rev_length in Lb. exact Lb. }
  assert (Hm : (1 <= length bits)%nat) by (apply dexpr_bits_nonempty; assumption).
  set (s1 := put_def cur d1 s) in *.
  assert (G1 : get_def rk s1 = get_def rk s) by (apply get_put_other; congruence).
  rewrite G1 in H. rewrite Lw in H.
  assert (DIr : DInv (get_def rk s)) by (apply get_def_dinv; exact I).
  pose proof (cou_port_on_instance pname (length bits) (get_def rk s) DIr L0 Hm) as PM. cbn zeta in PM.
  destruct (cou_port pname (Some (Z.of_nat (length bits) - 1)) (Some 0) None false (get_def rk s)) as [rd1 pk]. cbn [fst snd] in PM.
  set (s2 := put_def rk rd1 s1) in *.
  apply bind_ok in H. destruct H as (calls & Hal & H). apply bind_ok in H. destruct H as (d2 & Hco & H). inversion H; subst s'. clear H.
  assert (L1 : length (st_defs s1) = length (st_defs s)) by apply put_def_length.
  assert (L2 : length (st_defs s2) = length (st_defs s)) by (unfold s2; rewrite put_def_length; exact L1).
  assert (G2 : get_def cur s2 = d1).
  { unfold s2. rewrite get_put_other by congruence. apply get_put_same. exact Hc. }
  rewrite G2 in Hco.
  assert (Gd' : d' = d2) by (unfold d'; apply get_put_same; lia).
  assert (Grk : get_def rk (put_def cur d2 s2) = rd1).
  { rewrite get_put_other by congruence. unfold s2. apply get_put_same. lia. }
  pose proof PM as PM0.
  destruct PM as [PMr PMl PMx PMo (p' & P' & Np' & Lo' & Len' & W' & Pold & Pnew)].
  assert (PBk : port_bundle pk rd1 = ep_b p') by (unfold port_bundle; rewrite P'; reflexivity).
  rewrite PBk in Hal.
  destruct (aligned_spec _ _ _ _ Hal) as (Lal & Ecalls).
  pose proof (connect_all_conn _ _ _ Hco) as Ed2.
  destruct (cables_ext_fields d d1 E1) as (F1 & F2 & F3 & F4 & _).
  exists pk, (map (fun wp => (snd wp, fst wp)) calls).
  split; [|split; [|split; [|split; [|split]]]].
  - rewrite Gd', Ed2. cbn. rewrite F4.
    replace (set_conn (set_conn d1 (ed_conn d ++ map (fun wp : ewire * epin => (snd wp, fst wp)) calls)) (ed_conn d)) with d1; [exact E1|].
    rewrite <- F4. destruct d1; reflexivity.
  - rewrite Gd', Ed2. cbn. rewrite F4. reflexivity.
  - rewrite Grk. exact PM0.
  - intros k Hk1 Hk2. rewrite get_put_other by exact Hk1. unfold s2. rewrite get_put_other by exact Hk2. unfold s1. apply get_put_other. exact Hk1.
  - rewrite names_put.
    + unfold s2. rewrite names_put; [unfold s1; apply names_put; exact F1|]. rewrite G1. rewrite PMr. reflexivity.
    + rewrite G2. rewrite Ed2. reflexivity.
  - (* the labels of the new connections *)
    set (s' := put_def cur d2 s2) in *.
    rewrite Ecalls, combine_swap.
    rewrite (map_combine_pair (pin_endpoint s' d') (wire_label d')).
    unfold number. rewrite rev_combine by (rewrite seq_length; reflexivity).
    rewrite (map_combine_pair (fun k => Some (EInst (ei_name inst) (LName pname) (Z.of_nat k))) (@Some bitref)).
    f_equal.
    + (* pins *)
      rewrite map_map, Lw. apply map_ext_in. intros k Hk. apply in_rev, in_seq in Hk.
      assert (Hk' : (k < length (b_items (ep_b p')))%nat) by lia.
      unfold pin_endpoint. rewrite Gd', Ed2. cbn [ed_insts set_conn]. rewrite F3. unfold d. rewrite Hi, Href. cbn [is_assign ref_ports].
      assert (Nm : names s' = names s).
      { unfold s'. rewrite names_put; [unfold s2; rewrite names_put; [unfold s1; apply names_put; exact F1|rewrite G1, PMr; reflexivity]|rewrite G2, Ed2; reflexivity]. }
      rewrite (find_def_names _ s s' Nm). rewrite (find_def_self rk s (iv_names s I) Hr). rewrite Grk.
      unfold pin_bit. rewrite P'.
      destruct W' as (_ & Nd' & _).
      rewrite (index_of_nth_nodup _ k _ Nd' (nth_error_nth' _ O Hk')).
      unfold port_label. rewrite Np', Lo'. reflexivity.
    + (* wires *)
      rewrite Gd', Ed2. unfold bits. rewrite <- Lb. apply map_ext. intro w. unfold wire_label. reflexivity.
Qed.

(* the common tail of a named and of a positional connection: the wires [ws] (labelled: the bits, most significant
   first) are aligned on the low end of port pk of the referenced definition and connected *)
Lemma conn_tail cur ii rk pk s2 d1 rd1 p' ws calls d2 inst (bits : list bitref) :
  cur <> rk -> (cur < length (st_defs s2))%nat -> (rk < length (st_defs s2))%nat -> NoDup (names s2) ->
  get_def cur s2 = d1 -> get_def rk s2 = rd1 ->
  nth_error (ed_ports rd1) pk = Some p' -> b_lo (ep_b p') = 0 -> wfb (ep_b p') ->
  nth_error (ed_insts d1) ii = Some inst -> ei_ref inst = RName (ed_name rd1) ->
  map (wire_label d1) ws = map Some (rev bits) ->
  aligned (POuter ii pk) (b_items (ep_b p')) ws = Ok calls -> connect_all calls d1 = Ok d2 ->
  let s' := put_def cur d2 s2 in
  exists new, d2 = set_conn d1 (ed_conn d1 ++ new) /\ names s' = names s2 /\ get_def cur s' = d2 /\ get_def rk s' = rd1 /\
    (forall k, k <> cur -> get_def k s' = get_def k s2) /\
    map (fun pw => (pin_endpoint s' d2 (fst pw), wire_label d2 (snd pw))) new =
      map (fun kr => (Some (EInst (ei_name inst) (port_label pk p') (Z.of_nat (fst kr))), Some (snd kr))) (rev (number bits)).
Proof.
  intros Hne Hc Hr Nd G2 Grk2 P' Lo' W' Hi Href Lb Hal Hco s'.
  assert (Lw : length ws = length bits).
  { apply (f_equal (@length _)) in Lb. rewrite !map_length, rev_length in Lb. exact Lb. }
  destruct (aligned_spec _ _ _ _ Hal) as (Lal & Ecalls).
  pose proof (connect_all_conn _ _ _ Hco) as Ed2.
  assert (Nm : names s' = names s2) by (unfold s'; apply names_put; rewrite G2, Ed2; reflexivity).
  assert (Gd' : get_def cur s' = d2) by (unfold s'; apply get_put_same; exact Hc).
  assert (Grk : get_def rk s' = rd1) by (unfold s'; rewrite get_put_other by congruence; exact Grk2).
  exists (map (fun wp => (snd wp, fst wp)) calls).
  split; [exact Ed2|]. split; [exact Nm|]. split; [exact Gd'|]. split; [exact Grk|].
  split; [intros k Hk; unfold s'; apply get_put_other; exact Hk|].
  rewrite Ecalls, combine_swap.
  rewrite (map_combine_pair (pin_endpoint s' d2) (wire_label d2)).
  unfold number. rewrite rev_combine by (rewrite seq_length; reflexivity).
  rewrite (map_combine_pair (fun k => Some (EInst (ei_name inst) (port_label pk p') (Z.of_nat k))) (@Some bitref)).
  f_equal.
  - rewrite map_map, Lw. apply map_ext_in. intros k Hk. apply in_rev, in_seq in Hk.
    assert (Hk' : (k < length (b_items (ep_b p')))%nat) by lia.
    unfold pin_endpoint. rewrite Ed2. cbn [ed_insts set_conn]. rewrite Hi, Href. cbn [is_assign ref_ports].
    rewrite (find_def_names _ s2 s' Nm). rewrite <- Grk2. rewrite (find_def_self rk s2 Nd Hr). rewrite Grk, <- Grk2.
    rewrite Grk2. unfold pin_bit. rewrite P'.
    destruct W' as (_ & Nd' & _).
    rewrite (index_of_nth_nodup _ k _ Nd' (nth_error_nth' _ O Hk')). rewrite Lo'. reflexivity.
  - rewrite Ed2. rewrite <- Lb. apply map_ext. intro w. reflexivity.
Qed.

(* ---------- one position of a positional port map ---------- *)
Theorem pos_conn_spec cur ii rk fresh index e s s' inst :
  Inv s -> cur <> rk -> (cur < length (st_defs s))%nat -> (rk < length (st_defs s))%nat ->
  nth_error (ed_insts (get_def cur s)) ii = Some inst -> ei_ref inst = RName (ed_name (get_def rk s)) ->
  dexpr_typed (crange (get_def cur s)) e ->
  (fresh = false -> exists p, nth_error (ed_ports (get_def rk s)) index = Some p /\ b_lo (ep_b p) = 0) ->
  pos_conn cur ii rk fresh index (Some e) s = Ok s' ->
  let d := get_def cur s in let d' := get_def cur s' in let bits := dexpr_bits (crange d) e in
  let rd := get_def rk s in
  exists pk p' new,
    cables_ext d (set_conn d' (ed_conn d)) /\ ed_conn d' = ed_conn d ++ new /\
    nth_error (ed_ports (get_def rk s')) pk = Some p' /\
    (if fresh then pk = length (ed_ports rd) /\ get_def rk s' = set_ports rd (ed_ports rd ++ [p']) /\
                   ep_name p' = None /\ ep_dir p' = None /\ ep_b p' = new_bundle (Some (Z.of_nat (length bits) - 1)) (Some 0) 0
     else pk = index /\ get_def rk s' = rd) /\
    (forall k, k <> cur -> k <> rk -> get_def k s' = get_def k s) /\
    names s' = names s /\
    map (fun pw => (pin_endpoint s' d' (fst pw), wire_label d' (snd pw))) new =
      map (fun kr => (Some (EInst (ei_name inst) (port_label pk p') (Z.of_nat (fst kr))), Some (snd kr))) (rev (number bits)).
Proof.
  intros I Hne Hc Hr Hi Href T Hport H d d' bits rd.
  unfold pos_conn in H. apply bind_ok in H. destruct H as ([d1 ws] & H1 & H).
  assert (DI : DInv d) by (apply get_def_dinv; exact I).
  destruct (expr_wires_spec d e d1 ws DI T H1) as (E1 & Lb).
  assert (Lw : length ws = length bits).
  { apply (f_equal (@length _)) in Lb. rewrite !map_length, rev_length in Lb. exact Lb. }
  assert (Hm : (1 <= length bits)%nat) by (apply dexpr_bits_nonempty; assumption).
  destruct (cables_ext_fields d d1 E1) as (F1 & F2 & F3 & F4 & _).
  set (s1 := put_def cur d1 s) in *.
  assert (G1 : get_def rk s1 = rd) by (apply get_put_other; congruence).
  assert (Gc1 : get_def cur s1 = d1) by (apply get_put_same; exact Hc).
  assert (L1 : length (st_defs s1) = length (st_defs s)) by apply put_def_length.
  assert (N1 : names s1 = names s) by (apply names_put; exact F1).
  assert (Hi1 : nth_error (ed_insts d1) ii = Some inst) by (rewrite F3; exact Hi).
  rewrite G1 in H. rewrite Lw in H.
  destruct fresh.
  - (* a new unnamed port *)
    set (p' := {| ep_name := None; ep_dir := None; ep_b := new_bundle (Some (Z.of_nat (length bits) - 1)) (Some 0) 0 |}) in *.
    set (rd1 := set_ports rd (ed_ports rd ++ [p'])) in *.
    set (s2 := put_def rk rd1 s1) in *.
    assert (G2 : get_def rk s2 = rd1) by (apply get_put_same; lia).
    assert (Gc2 : get_def cur s2 = d1) by (unfold s2; rewrite get_put_other by congruence; exact Gc1).
    assert (L2 : length (st_defs s2) = length (st_defs s)) by (unfold s2; rewrite put_def_length; exact L1).
    assert (N2 : names s2 = names s) by (unfold s2; rewrite names_put; [exact N1|rewrite G1; reflexivity]).
    rewrite G2, Gc2 in H.
    assert (P' : nth_error (ed_ports rd1) (length (ed_ports rd)) = Some p') by (cbn; apply nth_error_app_last).
    assert (PB : port_bundle (length (ed_ports rd)) rd1 = ep_b p') by (unfold port_bundle; rewrite P'; reflexivity).
    rewrite PB in H.
    apply bind_ok in H. destruct H as (calls & Hal & H). apply bind_ok in H. destruct H as (d2 & Hco & H). inversion H; subst s'. clear H.
    assert (B0 : b_lo (ep_b p') = 0).
    { unfold p'. cbn [ep_b]. unfold new_bundle. cbn [populate b_lo]. lia. }
    destruct (conn_tail cur ii rk (length (ed_ports rd)) s2 d1 rd1 p' ws calls d2 inst bits Hne ltac:(lia) ltac:(lia)
                ltac:(rewrite N2; apply (iv_names s I)) Gc2 G2 P' B0 (new_bundle_wfb _ _) Hi1 ltac:(exact Href) Lb Hal Hco)
      as (new & Ed2 & Nm & Gd' & Grk & Fr & Lab).
    exists (length (ed_ports rd)), p', new. fold d'. unfold d'. rewrite Gd', Grk.
    split; [|split; [|split; [exact P'|split; [|split; [|split]]]]].
    + rewrite Ed2. cbn. replace (set_conn (set_conn d1 (ed_conn d1 ++ new)) (ed_conn d)) with d1; [exact E1|]. rewrite <- F4. destruct d1; reflexivity.
    + rewrite Ed2. cbn. rewrite F4. reflexivity.
    + repeat split; reflexivity.
    + intros k Hk1 Hk2. rewrite (Fr k Hk1). unfold s2. rewrite get_put_other by exact Hk2. unfold s1. apply get_put_other. exact Hk1.
    + rewrite Nm. exact N2.
    + exact Lab.
  - (* an existing port *)
    destruct (Hport eq_refl) as (p' & P' & B0).
    rewrite Gc1 in H.
    assert (PB : port_bundle index (get_def rk s1) = ep_b p') by (unfold port_bundle; rewrite G1; unfold rd; rewrite P'; reflexivity).
    rewrite PB in H.
    apply bind_ok in H. destruct H as (calls & Hal & H). apply bind_ok in H. destruct H as (d2 & Hco & H). inversion H; subst s'. clear H.
    assert (W' : wfb (ep_b p')).
    { eapply (proj1 (Forall_forall _ _) (di_ports rd (get_def_dinv rk s I))). eapply nth_error_In. exact P'. }
    destruct (conn_tail cur ii rk index s1 d1 rd p' ws calls d2 inst bits Hne ltac:(lia) ltac:(lia)
                ltac:(rewrite N1; apply (iv_names s I)) Gc1 G1 P' B0 W' Hi1 ltac:(exact Href) Lb Hal Hco)
      as (new & Ed2 & Nm & Gd' & Grk & Fr & Lab).
    exists index, p', new. fold d'. unfold d'. rewrite Gd', Grk.
    split; [|split; [|split; [exact P'|split; [|split; [|split]]]]].
    + rewrite Ed2. cbn. replace (set_conn (set_conn d1 (ed_conn d1 ++ new)) (ed_conn d)) with d1; [exact E1|]. rewrite <- F4. destruct d1; reflexivity.
    + rewrite Ed2. cbn. rewrite F4. reflexivity.
    + split; reflexivity.
    + intros k Hk1 Hk2. rewrite (Fr k Hk1). unfold s1. apply get_put_other. exact Hk1.
    + rewrite Nm. exact N1.
    + exact Lab.
Qed.

(* an empty position of a positional port map: no connection is made anywhere; beyond the ports of the referenced
   definition an unnamed one-bit port takes the position, so that later positions keep their index *)
Theorem pos_conn_empty_spec cur ii rk fresh index s s' : (rk < length (st_defs s))%nat ->
  pos_conn cur ii rk fresh index None s = Ok s' ->
  let rd := get_def rk s in
  (forall k, k <> rk -> get_def k s' = get_def k s) /\ names s' = names s /\
  (if fresh
   then get_def rk s' = set_ports rd (ed_ports rd ++ [{| ep_name := None; ep_dir := None; ep_b := new_bundle (Some 0) (Some 0) 0 |}]) /\
        b_lo (new_bundle (Some 0) (Some 0) 0) = 0 /\ length (b_items (new_bundle (Some 0) (Some 0) 0)) = 1%nat
   else s' = s).
Proof.
  intros Hk H rd. unfold pos_conn in H. destruct fresh; inversion H; subst; clear H.
  - split; [intros k Hn; apply get_put_other; exact Hn|]. split.
    + unfold names, put_def, upd_def. cbn. apply nth_upd_map_at. intros x Hx.
      assert (E : nth_error (st_defs s) rk = Some (get_def rk s)) by (unfold get_def; apply nth_error_nth'; exact Hk).
      rewrite E in Hx. inversion Hx; subst. reflexivity.
    + split; [apply get_put_same; exact Hk|]. split; vm_compute; reflexivity.
  - split; [reflexivity|]. split; reflexivity.
Qed.
