(* Proofs about Fmt/EdifName.v: decimal print/parse, and the reader's recognition of the
   writer's per-bit net names  ident_<i>_  /  name[<i>]  (separate_name_and_index). *)
From Coq Require Import String List NArith Bool Lia Arith.
From SV Require Import Base.Base Fmt.EdifName.
Import ListNotations.
Local Open Scope N_scope.

(* ------------------------------------------------------------------ *)
(* decimal numerals                                                    *)
(* ------------------------------------------------------------------ *)

Lemma dec_go_S f n acc :
  dec_go (S f) n acc =
  if n <? 10 then (48 + n) :: acc else dec_go f (n / 10) ((48 + n mod 10) :: acc).
Proof. reflexivity. Qed.

Lemma dec_go_app f : forall n acc, dec_go f n acc = dec_go f n [] ++ acc.
Proof.
  induction f as [|f IH]; intros n acc; [reflexivity|].
  rewrite !dec_go_S. destruct (n <? 10); [reflexivity|].
  rewrite IH. rewrite (IH _ [_]). rewrite <- app_assoc. reflexivity.
Qed.

(* the fuel of [dec]: n < 2 ^ size n *)
Lemma size_nat_gt n : n < 2 ^ N.of_nat (N.size_nat n).
Proof.
  destruct n as [|p]; [reflexivity|]. cbn [N.size_nat].
  induction p as [p IH|p IH|]; cbn [Pos.size_nat].
  - rewrite Nat2N.inj_succ, N.pow_succ_r'. lia.
  - rewrite Nat2N.inj_succ, N.pow_succ_r'. lia.
  - reflexivity.
Qed.

Lemma int_of_snoc s d : int_of (s ++ [d]) = 10 * int_of s + (d - 48).
Proof. unfold int_of. rewrite fold_left_app. reflexivity. Qed.

Lemma is_digit_48 n : n < 10 -> is_digit (48 + n) = true.
Proof.
  intro H. unfold is_digit. apply andb_true_iff. split; apply N.leb_le; lia.
Qed.

(* fuel f+1 is enough for every n < 2^f (n/10 <= n/2) *)
Lemma dec_go_props f : forall n, n < 2 ^ N.of_nat f ->
  dec_go (S f) n [] <> [] /\
  forallb is_digit (dec_go (S f) n []) = true /\
  int_of (dec_go (S f) n []) = n.
Proof.
  induction f as [|f IH]; intros n Hn; rewrite dec_go_S; destruct (N.ltb_spec n 10) as [Hlt|Hge].
  - repeat split; [discriminate| |].
    + cbn [forallb]. rewrite is_digit_48 by assumption. reflexivity.
    + unfold int_of. cbn [fold_left]. lia.
  - change (2 ^ N.of_nat 0) with 1 in Hn. lia.
  - repeat split; [discriminate| |].
    + cbn [forallb]. rewrite is_digit_48 by assumption. reflexivity.
    + unfold int_of. cbn [fold_left]. lia.
  - rewrite Nat2N.inj_succ, N.pow_succ_r' in Hn.
    assert (Hq : n / 10 < 2 ^ N.of_nat f).
    { apply N.div_lt_upper_bound; [discriminate|]. set (X := 2 ^ N.of_nat f) in *. lia. }
    destruct (IH _ Hq) as (H1 & H2 & H3).
    rewrite dec_go_app. repeat split.
    + intro E. apply app_eq_nil in E. destruct E as [_ E]. discriminate.
    + rewrite forallb_app, H2. cbn [forallb].
      rewrite is_digit_48 by (apply N.mod_lt; discriminate). reflexivity.
    + rewrite int_of_snoc, H3.
      pose proof (N.div_mod n 10 ltac:(discriminate)). revert H. generalize (n / 10) (n mod 10). intros q r H. lia.
Qed.

Lemma dec_props n :
  dec n <> [] /\ forallb is_digit (dec n) = true /\ int_of (dec n) = n.
Proof. unfold dec. apply dec_go_props. apply size_nat_gt. Qed.

(* 1 *)
Theorem dec_digits : forall n, isdigit (dec n) = true.
Proof.
  intro n. destruct (dec_props n) as (H1 & H2 & _). unfold isdigit.
  destruct (dec n); [contradiction|exact H2].
Qed.

(* 2 *)
Theorem int_of_dec : forall n : N, int_of (dec n) = n.
Proof. intro n. apply dec_props. Qed.

Theorem dec_no_special : forall n c, In c (dec n) -> is_digit c = true.
Proof.
  intros n c H. destruct (dec_props n) as (_ & H2 & _).
  rewrite forallb_forall in H2. auto.
Qed.

Lemma dec_nonempty n : dec n <> [].
Proof. apply dec_props. Qed.

Lemma dec_not_in n c : is_digit c = false -> ~ In c (dec n).
Proof. intros H Hin. apply dec_no_special in Hin. congruence. Qed.

(* the usual numeral: one digit below 10, otherwise numeral of n/10 followed by the last digit *)
Lemma dec_go_fuel f g : forall n, n < 2 ^ N.of_nat f -> n < 2 ^ N.of_nat g ->
  dec_go (S f) n [] = dec_go (S g) n [].
Proof.
  revert g. induction f as [|f IH]; intros g n Hf Hg; rewrite !(dec_go_S _ n []);
    destruct (N.ltb_spec n 10) as [Hlt|Hge]; try reflexivity.
  - change (2 ^ N.of_nat 0) with 1 in Hf. lia.
  - destruct g as [|g]; [change (2 ^ N.of_nat 0) with 1 in Hg; lia|].
    rewrite Nat2N.inj_succ, N.pow_succ_r' in Hf, Hg.
    rewrite (dec_go_app (S f)), (dec_go_app (S g)). f_equal.
    set (X := 2 ^ N.of_nat f) in *. set (Y := 2 ^ N.of_nat g) in *.
    apply IH; (apply N.div_lt_upper_bound; [discriminate|lia]).
Qed.

Lemma dec_small n : n < 10 -> dec n = [48 + n].
Proof. intro H. unfold dec. rewrite dec_go_S. apply N.ltb_lt in H. rewrite H. reflexivity. Qed.

Lemma dec_step n : 10 <= n -> dec n = dec (n / 10) ++ [48 + n mod 10].
Proof.
  intro H. unfold dec. rewrite dec_go_S.
  destruct (N.ltb_spec n 10) as [Hlt|_]; [lia|].
  pose proof (size_nat_gt n) as Hs.
  destruct (N.size_nat n) as [|k]; [change (2 ^ N.of_nat 0) with 1 in Hs; lia|].
  rewrite Nat2N.inj_succ, N.pow_succ_r' in Hs.
  rewrite dec_go_app. f_equal.
  apply dec_go_fuel; [|apply size_nat_gt].
  set (X := 2 ^ N.of_nat k) in *. apply N.div_lt_upper_bound; [discriminate|lia].
Qed.

(* no leading zero *)
Lemma dec_no_leading_zero n : n <> 0 -> hd 0 (dec n) <> 48.
Proof.
  induction n as [n IH] using (well_founded_induction N.lt_wf_0). intro Hn.
  destruct (N.ltb_spec n 10) as [Hlt|Hge].
  - rewrite dec_small by assumption. cbn [hd]. lia.
  - rewrite dec_step by assumption.
    assert (Hq : n / 10 <> 0).
    { intro E. apply N.div_small_iff in E; [lia|discriminate]. }
    assert (Hlt : n / 10 < n) by (apply N.div_lt; lia).
    specialize (IH _ Hlt Hq).
    destruct (dec (n / 10)) eqn:E; [exfalso; eapply dec_nonempty; eauto|exact IH].
Qed.

(* ------------------------------------------------------------------ *)
(* str.split and the reversed search                                   *)
(* ------------------------------------------------------------------ *)

Lemma split_on_nonempty c s : split_on c s <> [].
Proof.
  destruct s as [|x s]; cbn [split_on]; [discriminate|].
  destruct (N.eqb x c); [discriminate|]. destruct (split_on c s); discriminate.
Qed.

Lemma split_on_cons_sep c s : split_on c (c :: s) = [] :: split_on c s.
Proof. cbn [split_on]. rewrite N.eqb_refl. reflexivity. Qed.

Lemma split_on_app c a b : split_on c (a ++ c :: b) = split_on c a ++ split_on c b.
Proof.
  induction a as [|x a IH].
  - apply split_on_cons_sep.
  - change ((x :: a) ++ c :: b) with (x :: (a ++ c :: b)). cbn [split_on]. rewrite IH.
    destruct (N.eqb x c); [reflexivity|].
    destruct (split_on c a) eqn:E; [exfalso; eapply split_on_nonempty; eauto|reflexivity].
Qed.

Lemma split_on_nosep c s : ~ In c s -> split_on c s = [s].
Proof.
  induction s as [|x s IH]; intro H; [reflexivity|]. cbn [split_on].
  destruct (N.eqb_spec x c) as [->|Hn]; [exfalso; apply H; left; reflexivity|].
  rewrite IH; [reflexivity|]. intro Hin. apply H. right. exact Hin.
Qed.

(* a suffix without separator only extends the last part *)
Lemma split_on_suffix c b : ~ In c b -> forall a, exists init l,
  split_on c a = init ++ [l] /\ split_on c (a ++ b) = init ++ [l ++ b].
Proof.
  intros Hb a. induction a as [|x a (init & l & E1 & E2)].
  - exists [], []. split; [reflexivity|]. apply split_on_nosep. exact Hb.
  - change ((x :: a) ++ b) with (x :: (a ++ b)). cbn [split_on]. rewrite E1, E2.
    destruct (N.eqb x c).
    + exists ([] :: init), l. split; reflexivity.
    + destruct init as [|h t].
      * exists [], (x :: l). split; reflexivity.
      * exists ((x :: h) :: t), l. split; reflexivity.
Qed.

Lemma length_split_on c s : length (split_on c s) = S (count_occ N.eq_dec s c).
Proof.
  induction s as [|x s IH]; [reflexivity|]. cbn [split_on count_occ].
  destruct (N.eqb_spec x c) as [->|Hn].
  - destruct (N.eq_dec c c); [|contradiction]. cbn [length]. rewrite IH. reflexivity.
  - destruct (N.eq_dec x c); [contradiction|].
    destruct (split_on c s) eqn:E; [exfalso; eapply split_on_nonempty; eauto|exact IH].
Qed.

Lemma before_last_nosep c s : ~ In c s -> before_last c s = None.
Proof.
  induction s as [|x s IH]; intro H; [reflexivity|]. cbn [before_last].
  rewrite IH by (intro Hin; apply H; right; exact Hin).
  destruct (N.eqb_spec x c) as [->|Hn]; [exfalso; apply H; left; reflexivity|reflexivity].
Qed.

Lemma before_last_app c a b : ~ In c b -> before_last c (a ++ c :: b) = Some a.
Proof.
  intro Hb. induction a as [|x a IH].
  - cbn [app before_last]. rewrite before_last_nosep by exact Hb. rewrite N.eqb_refl. reflexivity.
  - change ((x :: a) ++ c :: b) with (x :: (a ++ c :: b)). cbn [before_last]. rewrite IH. reflexivity.
Qed.

(* last occurrence of a separator *)
Lemma last_occ c (s : str) : ~ In c s \/ exists p l, s = p ++ c :: l /\ ~ In c l.
Proof.
  induction s as [|x s IH]; [left; intros []|].
  destruct IH as [H|(p & l & -> & Hl)].
  - destruct (N.eq_dec x c) as [->|Hn].
    + right. exists [], s. split; [reflexivity|exact H].
    + left. intros [E|E]; [contradiction|exact (H E)].
  - right. exists (x :: p), l. split; [reflexivity|exact Hl].
Qed.

Lemma rev_cons_last {A} (l : list A) d : l <> [] -> rev l = last l d :: rev (removelast l).
Proof.
  intro H. rewrite (app_removelast_last d H) at 1. rewrite rev_app_distr. reflexivity.
Qed.

Lemma rev_split_app c a b : ~ In c b ->
  rev (split_on c (a ++ c :: b)) =
  b :: last (split_on c a) [] :: rev (removelast (split_on c a)).
Proof.
  intro Hb. rewrite split_on_app, (split_on_nosep c b Hb), rev_app_distr.
  rewrite (rev_cons_last (split_on c a) [] (split_on_nonempty c a)). reflexivity.
Qed.

Lemma rev_nil_inv {A} (l : list A) : rev l = [] -> l = [].
Proof. intro H. apply (f_equal (@rev A)) in H. rewrite rev_involutive in H. exact H. Qed.

Lemma rev_cons_inv {A} (l : list A) e t : rev l = e :: t -> l = rev t ++ [e].
Proof. intro H. apply (f_equal (@rev A)) in H. rewrite rev_involutive in H. exact H. Qed.

Lemma last_split_empty c s :
  last (split_on c s) [] = [] <-> s = [] \/ exists p, s = p ++ [c].
Proof.
  split.
  - intro H. destruct (last_occ c s) as [Hn|(p & l & -> & Hl)].
    + rewrite split_on_nosep in H by exact Hn. left. exact H.
    + rewrite split_on_app, (split_on_nosep c l Hl), last_last in H. subst l.
      right. exists p. reflexivity.
  - intros [->|(p & ->)]; [reflexivity|].
    rewrite split_on_app. cbn [split_on]. apply last_last.
Qed.

(* ------------------------------------------------------------------ *)
(* sep_bracket, decomposed                                             *)
(* ------------------------------------------------------------------ *)

Definition bracket_core (name : str) : option (option N * str) :=
  match rev (split_on c_lbr name) with
  | last :: _ :: _ =>
    match rev last with
    | [] => Some (None, name)
    | e :: body_rev =>
      if N.eqb e c_rbr && isdigit (rev body_rev)
      then match before_last c_lbr name with
           | Some p => Some (Some (int_of (rev body_rev)), p)
           | None => Some (None, name)
           end
      else Some (None, name)
    end
  | _ => Some (None, name)
  end.

Lemma sep_bracket_alt name : sep_bracket name = bracket_core name.
Proof. reflexivity. Qed.

Lemma bit_suffix_no c i : is_digit c = false -> c <> c_rbr -> ~ In c (dec i ++ [c_rbr]).
Proof.
  intros Hd Hc Hin. apply in_app_or in Hin. destruct Hin as [Hin|[E|[]]].
  - exact (dec_not_in _ _ Hd Hin).
  - apply Hc. symmetry. exact E.
Qed.

Lemma bit_name_nonempty name i : bit_name name i <> [].
Proof. unfold bit_name. intro E. apply app_eq_nil in E. destruct E as [_ E]. discriminate. Qed.

Lemma bracket_core_bit name i : bracket_core (bit_name name i) = Some (Some i, name).
Proof.
  assert (Hb : ~ In c_lbr (dec i ++ [c_rbr])) by (apply bit_suffix_no; [reflexivity|discriminate]).
  unfold bracket_core, bit_name. rewrite (rev_split_app _ _ _ Hb).
  rewrite rev_app_distr. cbn [rev app]. rewrite N.eqb_refl, rev_involutive, dec_digits.
  cbn [andb]. rewrite (before_last_app _ _ _ Hb), int_of_dec. reflexivity.
Qed.

(* complete description of the reader on the writer's bit names: ALWAYS recognised (repaired K9: names
   starting with a backslash used to be recognised only when they contained exactly one space) *)
Theorem bitname_bracket_full : forall (name : str) (i : N),
  sep_bracket (bit_name name i) = Some (Some i, name).
Proof. intros name i. rewrite sep_bracket_alt. apply bracket_core_bit. Qed.

(* 3 *)
Theorem bitname_inverse_bracket : forall (name : str) (i : N),
  sep_bracket (bit_name name i) = Some (Some i, name).
Proof. exact bitname_bracket_full. Qed.

(* never an error *)
Theorem sep_bracket_total : forall name : str, sep_bracket name <> None.
Proof.
  intro name. unfold sep_bracket. destruct (rev (split_on c_lbr name)) as [|l [|x r]]; try discriminate.
  destruct (rev l) as [|e b]; [discriminate|]. destruct (_ && _); [|discriminate].
  destruct (before_last c_lbr name); discriminate.
Qed.

Theorem net_bit_total : forall ident name : str, net_bit ident name <> None.
Proof.
  intros ident name. unfold net_bit. destruct (sep_underscore ident) as [ei es].
  destruct (sep_bracket name) as [[ni ns]|] eqn:E; [discriminate|]. exfalso. exact (sep_bracket_total name E).
Qed.

(* ------------------------------------------------------------------ *)
(* sep_underscore on the writer's identifiers                          *)
(* ------------------------------------------------------------------ *)

Lemma us_not_digit : ~ In c_us [] /\ forall i, ~ In c_us (dec i).
Proof. split; [intros []|]. intro i. apply dec_not_in. reflexivity. Qed.

Lemma bit_ident_assoc ident i : bit_ident ident i = (ident ++ c_us :: dec i) ++ c_us :: [].
Proof. unfold bit_ident. rewrite <- app_assoc. reflexivity. Qed.

Lemma starts_amp_us_bit ident i :
  starts_amp_us (bit_ident ident i) = starts_amp_us (ident ++ [c_us]).
Proof.
  unfold bit_ident. destruct ident as [|a [|b r]]; try reflexivity.
  cbn [app starts_amp_us]. destruct (dec i ++ [c_us]); reflexivity.
Qed.

(* complete description of the reader on the writer's bit identifiers: ALWAYS recognised
   (repaired K4: identifiers "&" / "&_..." used to be recognised only when ending in "_") *)
Theorem bitname_underscore_full : forall (ident : str) (i : N),
  sep_underscore (bit_ident ident i) = (Some i, ident).
Proof.
  intros ident i. destruct us_not_digit as [Hn Hd].
  unfold sep_underscore.
  assert (E1 : rev (split_on c_us (bit_ident ident i)) =
               [] :: dec i :: last (split_on c_us ident) [] :: rev (removelast (split_on c_us ident))).
  { rewrite bit_ident_assoc, (rev_split_app _ _ _ Hn). f_equal.
    rewrite split_on_app, (split_on_nosep _ _ (Hd i)), last_last, removelast_last.
    f_equal.
    apply rev_cons_last. apply split_on_nonempty. }
  assert (E2 : before_last c_us (bit_ident ident i) = Some (ident ++ c_us :: dec i)).
  { rewrite bit_ident_assoc. apply before_last_app. exact Hn. }
  rewrite E1, E2, (before_last_app _ _ _ (Hd i)), dec_digits, int_of_dec.
  reflexivity.
Qed.

(* 4 *)
Theorem bitname_inverse_underscore : forall (ident : str) (i : N),
  sep_underscore (bit_ident ident i) = (Some i, ident).
Proof. exact bitname_underscore_full. Qed.

(* "&_a", bit 3: identifier "&_a_3_" is bit 3 of "&_a" (the former witness of K4) *)
Example bitname_underscore_amp :
  sep_underscore (bit_ident (s2l "&_a") 3) = (Some 3%N, s2l "&_a")
  /\ starts_amp_us (s2l "&_a" ++ [c_us]) = true.
Proof. vm_compute. split; reflexivity. Qed.

(* 5 *)
Theorem bitname_inverse : forall (ident name : str) (i : N),
  net_bit (bit_ident ident i) (bit_name name i) = Some (Some i, name, ident).
Proof.
  intros ident name i. unfold net_bit.
  rewrite (bitname_inverse_underscore _ _), (bitname_inverse_bracket _ _). reflexivity.
Qed.

(* ------------------------------------------------------------------ *)
(* scalar names                                                        *)
(* ------------------------------------------------------------------ *)

(* last character neither "]" nor "[" : never a bit, never an error (also for escaped names) *)
Theorem scalar_name_not_bit_last : forall (name : str),
  name <> [] -> last name 0 <> c_rbr -> last name 0 <> c_lbr ->
  sep_bracket name = Some (None, name).
Proof.
  intros name Hne Hr Hl. rewrite sep_bracket_alt. unfold bracket_core.
  destruct (last_occ c_lbr name) as [H|(p & l & E & Hn)].
  - rewrite split_on_nosep by exact H. reflexivity.
  - subst name. rewrite (rev_split_app _ _ _ Hn).
    destruct (rev l) as [|e br] eqn:El.
    + apply rev_nil_inv in El. subst l. exfalso. apply Hl. apply last_last.
    + apply rev_cons_inv in El. subst l.
      replace (N.eqb e c_rbr) with false; [reflexivity|].
      symmetry. apply N.eqb_neq. intro E. apply Hr. subst e.
      rewrite app_comm_cons, app_assoc. apply last_last.
Qed.

(* a name ending in "[" is simply not a bus bit (the reader used to raise IndexError here) *)
Theorem scalar_name_lbr_not_bit : forall (p : str),
  sep_bracket (p ++ [c_lbr]) = Some (None, p ++ [c_lbr]).
Proof.
  intros p. rewrite sep_bracket_alt.
  unfold bracket_core. rewrite (rev_split_app c_lbr p []) by (intros []).
  destruct (rev (split_on c_lbr p)); reflexivity.
Qed.

Lemma In_last (l : str) d : l <> [] -> In (last l d) l.
Proof.
  intro H. rewrite (app_removelast_last d H) at 2. apply in_or_app. right. left. reflexivity.
Qed.

(* 6: needs  "does not end in ["  ("a[" raises IndexError); the backslash hypothesis is not needed *)
Theorem scalar_name_not_bit : forall (name : str),
  (forall c, In c name -> c <> c_rbr) -> name <> [] -> last name 0 <> c_lbr ->
  sep_bracket name = Some (None, name).
Proof.
  intros name H Hne Hl. apply scalar_name_not_bit_last; try assumption.
  apply H. apply In_last. exact Hne.
Qed.

(* ------------------------------------------------------------------ *)
(* examples                                                            *)
(* ------------------------------------------------------------------ *)

Example bitname_examples :
  sep_bracket (s2l "a[b][12]") = Some (Some 12, s2l "a[b]") /\
  sep_bracket (s2l "a[") = Some (None, s2l "a[") /\
  sep_bracket (s2l "") = Some (None, s2l "") /\
  sep_bracket (s2l "a[]") = Some (None, s2l "a[]") /\
  sep_bracket (s2l "[3]") = Some (Some 3, s2l "") /\
  sep_bracket (s2l "\a[3]") = Some (Some 3, s2l "\a") /\
  sep_bracket (s2l "\a [3]") = Some (Some 3, s2l "\a ") /\
  sep_bracket (s2l "\a[3] ") = Some (None, s2l "\a[3] ") /\
  sep_bracket (s2l "a]") = Some (None, s2l "a]") /\
  sep_bracket (s2l "a b c[3]") = Some (Some 3, s2l "a b c") /\
  sep_underscore (s2l "__") = (None, s2l "__") /\
  sep_underscore (s2l "&_1_") = (Some 1, s2l "&") /\
  sep_underscore (s2l "x_1_2_") = (Some 2, s2l "x_1") /\
  sep_underscore (s2l "") = (None, s2l "") /\
  sep_underscore (s2l "_3_") = (Some 3, s2l "") /\
  sep_underscore (s2l "&_3_") = (Some 3, s2l "&") /\
  sep_underscore (s2l "&__3_") = (Some 3, s2l "&_") /\
  sep_underscore (s2l "&_a__3_") = (Some 3, s2l "&_a_") /\
  dec 0 = s2l "0" /\
  dec 1234567890 = s2l "1234567890" /\
  bit_name (s2l "d[1]") 123456789012345678901234567890 =
    s2l "d[1][123456789012345678901234567890]" /\
  net_bit (bit_ident (s2l "d_1_") 123456789012345678901234567890)
          (bit_name (s2l "d[1]") 123456789012345678901234567890) =
    Some (Some 123456789012345678901234567890, s2l "d[1]", s2l "d_1_").
Proof. vm_compute. repeat split. Qed.

Print Assumptions dec_digits.
Print Assumptions int_of_dec.
Print Assumptions dec_no_special.
Print Assumptions dec_no_leading_zero.
Print Assumptions bitname_bracket_full.
Print Assumptions bitname_inverse_bracket.
Print Assumptions sep_bracket_total.
Print Assumptions net_bit_total.
Print Assumptions bitname_underscore_full.
Print Assumptions bitname_inverse_underscore.
Print Assumptions bitname_underscore_amp.
Print Assumptions bitname_inverse.
Print Assumptions scalar_name_not_bit_last.
Print Assumptions scalar_name_lbr_not_bit.
Print Assumptions scalar_name_not_bit.
Print Assumptions bitname_examples.
